# C02 repro (defect repaired by cd39b4d): a ONE-state model's 1x1 Jacobian was compiled as a 1-D vector, so
# integrate2 / integrateFuncJac(full_output=True) raised LinAlgError in np.linalg.eig.  PYTHONPATH=$PYGOM_REPO/src.
import numpy as np
from pygom import SimulateOde, Transition, Event
from pygom.model import ode_utils
m = SimulateOde(state=['X0'], param=['p0'], event=[Event(rate='p0*X0', transition_list=[Transition(origin='X0', transition_type='D')])])
m._SC = ode_utils.compileCode(backend='lambda')
m.parameters = {'p0': 0.7}
m.initial_values = (np.array([3.0]), np.float64(0.0))
print(m.integrate2(np.array([1.0, 2.0])))      # before the patch: numpy.linalg.LinAlgError; after: 3*exp(-0.7 t)
assert np.allclose(m.integrate2(np.array([1.0, 2.0]))[:, 0], 3 * np.exp(-0.7 * np.array([0.0, 1.0, 2.0])), rtol=1e-6)
