"""mutation self-test: apply all C19 patches to the private worktree, then ONE mutation, run the check, restore"""
import json, os, subprocess, sys, time
REPO='/var/tmp/ag/C19/repo'; VERIF='/var/tmp/ag/C19/verif'
P=REPO+'/src/pygom/utilR/distn.py'
MUTS = {
 'M1-dexp-scale-is-rate': ("        return st.expon.pdf(x, scale=1.0/rate)\n", "        return st.expon.pdf(x, scale=rate)\n"),
 'M2-pgamma-log-uses-logpdf': ("        return st.gamma.logcdf(q, a=shape, scale=1.0/rate)\n", "        return st.gamma.logpdf(q, a=shape, scale=1.0/rate)\n"),
 'M3-qnorm-loc-scale-swapped': ("    return st.norm.ppf(p, loc=mean, scale=sd)\n", "    return st.norm.ppf(p, loc=sd, scale=mean)\n"),
 'M4-dunif-scale-is-max': ("        return st.uniform.pdf(x, loc=min, scale=max-min)\n", "        return st.uniform.pdf(x, loc=min, scale=max)\n"),
 'M5-rpois-seed-ignored': ("        rvs = test_seed(seed).poisson\n", "        rvs = np.random.poisson\n"),
 'M6-test_seed-drops-int-seed': ("        return np.random.RandomState(seed)\n", "        return np.random.RandomState()\n"),
 'M7-rbinom-prob-complement': ("        return rvs(n=size, p=prob, size=n)\n    else:\n        return rvs(n=size, p=prob, size=n)[0]\n    \n##### Negitive", "        return rvs(n=size, p=1-prob, size=n)\n    else:\n        return rvs(n=size, p=1-prob, size=n)[0]\n    \n##### Negitive"),
 'M8-nb2pmf-wrong-term': ("    logpmf_p4= x*(np.log(mu) - np.log(k + mu))\n", "    logpmf_p4= x*(np.log(k) - np.log(k + mu))\n"),
 'M9-dnbinom-mu-log-stale-flag': ("            ans =nb2pmf(x=x, mu=mu,k=size,log=True)\n", "            ans =nb2pmf(x=x, mu=mu,k=size,log=False)\n"),
 'M10-ppois-off-by-one': ("        return st.poisson.cdf(q, mu=mu)\n", "        return st.poisson.cdf(q-1, mu=mu)\n"),
 'M11-rgamma-scale-is-rate': ("        return rvs(shape, scale=1.0/rate, size=n)\n    else:", "        return rvs(shape, scale=rate, size=n)\n    else:"),
 'M12-qbeta-shapes-swapped': ("    return st.beta.ppf(p, shape1, shape2)\n", "    return st.beta.ppf(p, shape2, shape1)\n"),
 'M13-pnbinom-mu-prob-formula': ("        return size/(size + mu)\n", "        return mu/(size + mu)\n"),
 'M14-qnbinom-upper-tail-uses-ppf': ("        return st.nbinom.isf(p, n=size, p=prob)\n", "        return st.nbinom.ppf(p, n=size, p=prob)\n"),
 'E1-equivalent-rewrite-dgamma-times-one': ("        return st.gamma.pdf(x, a=shape, scale=1.0/rate)\n", "        return st.gamma.pdf(x, a=shape, scale=1.0/rate)*1.0\n"),
 'E3-equivalent-nb2pmf-sum-reordered': ("    logpmf = logpmf_p1+logpmf_p2+logpmf_p3+logpmf_p4+logpmf_p5\n", "    logpmf = logpmf_p5+logpmf_p4+logpmf_p3+logpmf_p2+logpmf_p1\n"),
 'E4-equivalent-nb2pmf-log-of-quotient': ("    logpmf_p3= k*(np.log(k) - np.log(k + mu)) \n", "    logpmf_p3= k*np.log(k/(k + mu)) \n"),
 'E2-equivalent-rewrite-positional-to-keyword': ("    return st.beta.ppf(p, shape1, shape2)\n", "    return st.beta.ppf(p, a=shape1, b=shape2, loc=0)\n"),
 'M17-dexp-default-rate-2': ("def dexp(x, rate=1.0, log=False):", "def dexp(x, rate=2.0, log=False):"),
 'M18-pnorm-default-log-true': ("def pnorm(q, mean=0, sd=1, log=False):", "def pnorm(q, mean=0, sd=1, log=True):"),
 'M19-rexp-one-branch-scale-is-rate': ("        return rvs(scale=1.0/rate, size=n)[0]\n", "        return rvs(scale=rate, size=n)[0]\n"),
 'M20-runif-seed0-falls-to-global': ("    if seed is None:\n        rvs = np.random.uniform\n", "    if not seed:\n        rvs = np.random.uniform\n"),
 'M16-dchisq-log-uses-df-plus-1': ("        return st.chi2.logpdf(x, df=df)\n", "        return st.chi2.logpdf(x, df=df+1)\n"),
}
def sh(c): return subprocess.run(c, shell=True, capture_output=True, text=True)
def restore(): sh('git -C %s checkout -- .'%REPO)
def fixed():
    restore()
    for w in ['pchisq','dchisq','dbeta','runif','nbinom']:
        r=sh('git -C %s apply %s/patches/C19-%s.diff'%(REPO,VERIF,w)); assert r.returncode==0, r.stderr
def run(tier):
    env=dict(os.environ, PYGOM_REPO=REPO)
    t=time.time(); r=subprocess.run(['./check','C19','--tier',tier],cwd=VERIF,env=env,capture_output=True,text=True)
    ev=json.load(open(VERIF+'/evidence/C19.json'))['coverage']
    routes=[]
    if ev['broken']:
        th=[b['theorem'] for b in ev['broken']]
        routes.append('obligation '+','.join(t for t in th if not t.startswith('correspondence')) ) if any(not t.startswith('correspondence') for t in th) else None
        if any(t.startswith('correspondence') for t in th): routes.append('K')
    cls=[l.split(']')[0].split('[')[1] for l in r.stdout.split('\n') if l.startswith('  -> [')]
    if cls: routes.append('search '+','.join(cls))
    return r.returncode, routes, round(time.time()-t)
names = sys.argv[2:] or list(MUTS)
tier = sys.argv[1]
for name in names:
    fixed()
    s=open(P).read(); old,new=MUTS[name]
    assert s.count(old)==1, (name, s.count(old))
    open(P,'w').write(s.replace(old,new))
    rc, routes, dt = run(tier)
    print('%-34s %-8s exit=%d %3ds  %s' % (name, tier, rc, dt, ' | '.join(routes)), flush=True)
restore()
