# C19 pnbinom / qnbinom / rnbinom are stubs returning None: PYTHONPATH=$PYGOM_REPO/src /venv/bin/python patches/C19-nbinom.repro.py
import math
import numpy as np
from pygom.utilR import dnbinom, pnbinom, qnbinom, rnbinom
size, prob = 2.5, 0.4
mu = size * (1 - prob) / prob
pmf = lambda k: math.exp(math.lgamma(size + k) - math.lgamma(size) - math.lgamma(k + 1)) * prob ** size * (1 - prob) ** k
cdf3 = sum(pmf(k) for k in range(4))
p = pnbinom(3, size, prob, None)            # pinned tree: None
print("pnbinom(3) =", p, " expected", cdf3)
assert p is not None and abs(p - cdf3) < 1e-12
assert abs(pnbinom(3, size, mu=mu) - cdf3) < 1e-12 and abs(pnbinom(3, size, prob, log=True) - math.log(cdf3)) < 1e-12
assert abs(pnbinom(3, size, prob, lower_tail=False) - (1 - cdf3)) < 1e-12
assert qnbinom(cdf3 - pmf(3) / 2, size, prob) == 3 and qnbinom(cdf3 - pmf(3) / 2, size, mu=mu) == 3
r = rnbinom(5, size, prob, seed=7)
assert r is not None and np.array_equal(r, rnbinom(5, size, prob, seed=7)) and len(r) == 5
assert abs(dnbinom(3, size, mu=mu) - dnbinom(3, size, prob=prob)) < 1e-14
print("ok")
