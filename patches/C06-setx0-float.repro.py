# C06 repro: BaseLoss._setX0 stores np.copy(x0); an x0 given as integers ([95, 5, 0]) stays an integer array, and
# _unrollState (costIV / residualIV / sensitivityIV ... with target_state) then TRUNCATES the initial value it writes
# into it (4.5 -> 4) without any error.  Run with PYTHONPATH=$PYGOM_REPO/src.
import numpy as np
from pygom import common_models, SquareLoss
from pygom.model import ode_utils
t = np.linspace(1.0, 20.0, 6); y = np.array([6.5, 15.0, 24.0, 24.5, 19.0, 12.0])
def cost(x0):
    m = common_models.SIR({'beta': 0.5, 'gamma': 0.2, 'N': 100.0}); m._SC = ode_utils.compileCode(backend='lambda')
    L = SquareLoss([0.5, 0.2, 100.0], m, x0, 0.0, t, y, 'I', target_state=['I'])
    return L.costIV(np.array([0.5, 0.2, 100.0, 4.5])), L._x0
ci, xi = cost([95, 5, 0]); cf, xf = cost([95.0, 5.0, 0.0])
print(ci, xi, cf, xf)   # before the patch: xi = [95 4 0] and ci != cf; after: both [95. 4.5 0.] and equal costs
assert abs(ci - cf) < 1e-9 * abs(cf), "integer x0 truncated the estimated initial value"
