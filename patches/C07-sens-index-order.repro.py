# gradient comes back in declaration order / is mis-paired when target_param or state_name is not in declaration order
import numpy as np
from pygom import SimulateOde, Transition, TransitionType, SquareLoss
ode = [Transition(origin='S', equation='-beta*S*I', transition_type=TransitionType.ODE),
       Transition(origin='I', equation='beta*S*I-gamma*I', transition_type=TransitionType.ODE),
       Transition(origin='R', equation='gamma*I', transition_type=TransitionType.ODE)]
m = SimulateOde(state=['S', 'I', 'R'], param=['beta', 'gamma'], ode=ode); m.parameters = [('beta', 1.2), ('gamma', 0.4)]
t = np.linspace(1, 5, 5); y = np.array([[.2, .1], [.3, .2], [.25, .35], [.15, .5], [.1, .6]])
fd = lambda o, th: np.array([(o.cost(th + e) - o.cost(th - e)) / 2e-6 for e in 1e-6 * np.eye(len(th))])
for names, tp, th in ((['I', 'R'], ['gamma', 'beta'], np.array([.5, 1.1])), (['R', 'I'], None, np.array([1.1, .5]))):
    o = SquareLoss(th, m, [.9, .1, 0.], 0., t, y, names, target_param=tp)
    print(names, tp, 'sensitivity', o.sensitivity(th), 'finite differences of cost', fd(o, th))   # must agree entry by entry
