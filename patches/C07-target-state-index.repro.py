# sensitivityIV / jacIV raise TypeError as soon as target_state is given
import numpy as np
from pygom import SimulateOde, Transition, TransitionType, SquareLoss
ode = [Transition(origin='S', equation='-beta*S*I', transition_type=TransitionType.ODE),
       Transition(origin='I', equation='beta*S*I-gamma*I', transition_type=TransitionType.ODE),
       Transition(origin='R', equation='gamma*I', transition_type=TransitionType.ODE)]
m = SimulateOde(state=['S', 'I', 'R'], param=['beta', 'gamma'], ode=ode); m.parameters = [('beta', 1.2), ('gamma', 0.4)]
t = np.linspace(1, 5, 5); y = np.array([.1, .2, .35, .5, .6])
o = SquareLoss([1.1, .5], m, [.9, .1, 0.], 0., t, y, 'R', target_state=['I'])
v = np.array([1.1, .5, .1])                                    # beta, gamma, I(0)
print('costIV', o.costIV(v))
print('sensitivityIV', o.sensitivityIV(v))                     # TypeError: can only concatenate list (not "int") to list
print('fd', [(o.costIV(v + e) - o.costIV(v - e)) / 2e-6 for e in 1e-6 * np.eye(3)])
