#!/bin/bash
# usage: runmut.sh NAME TIER
export PYGOM_REPO=/var/tmp/ag/C05/repo
cd /var/tmp/ag/C05/scratch/mut
git -C $PYGOM_REPO checkout -- . 
python3 mutate.py $1 || exit 9
git -C $PYGOM_REPO diff > $1.diff
cd /var/tmp/ag/C05/verif
( time ./check C05 --tier $2 ) > /var/tmp/ag/C05/scratch/mut/$1.$2.log 2>&1
echo "exit=$?" >> /var/tmp/ag/C05/scratch/mut/$1.$2.log
cp evidence/C05.json /var/tmp/ag/C05/scratch/mut/$1.$2.evidence.json
git -C $PYGOM_REPO checkout -- .
grep -v conda /var/tmp/ag/C05/scratch/mut/$1.$2.log | cut -c1-400 | tail -12
