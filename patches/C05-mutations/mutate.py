import sys,subprocess,os
REPO='/var/tmp/ag/C05/repo'
MUTS={
 'M1_scale_is_rate': ('src/pygom/utilR/distn.py', [("return rvs(scale=1.0/rate, size=n)[0]","return rvs(scale=rate, size=n)[0]"),("return rvs(scale=1.0/rate, size=n)\n","return rvs(scale=rate, size=n)\n")]),
 'M2_argmax': ('src/pygom/model/stochastic_simulation.py', [("    min_index = np.argmin(jump_times)\r\n    new_x = _updateStateWithJump(x, min_index, changes)","    min_index = np.argmax(jump_times)\r\n    new_x = _updateStateWithJump(x, min_index, changes)")]),
 'M3_guard_ge': ('src/pygom/model/stochastic_simulation.py', [("tau = [rexp(1, r, seed=seed) if r > 0 else np.inf for r in rates]","tau = [rexp(1, r, seed=seed) if r >= 0 else np.inf for r in rates]")]),
 'M4_total_rate': ('src/pygom/model/stochastic_simulation.py', [("tau = [rexp(1, r, seed=seed) if r > 0 else np.inf for r in rates]","tau = [rexp(1, sum(rates), seed=seed) if r > 0 else np.inf for r in rates]")]),
 'M5_dt_max': ('src/pygom/model/stochastic_simulation.py', [("return _checkJump(x, new_x, x_lims, t, jump_times[min_index], jumps)","return _checkJump(x, new_x, x_lims, t, np.max(jump_times), jumps)")]),
 'M6_scale_shift': ('src/pygom/utilR/distn.py', [("return rvs(scale=1.0/rate, size=n)[0]","return rvs(scale=1.0/(rate+1), size=n)[0]"),("return rvs(scale=1.0/rate, size=n)\n","return rvs(scale=1.0/(rate+1), size=n)\n")]),
 'M7_last_on_ties': ('src/pygom/model/stochastic_simulation.py', [("    min_index = np.argmin(jump_times)\r\n    new_x = _updateStateWithJump(x, min_index, changes)","    min_index = len(jump_times) - 1 - np.argmin(jump_times[::-1])\r\n    new_x = _updateStateWithJump(x, min_index, changes)")]),
 'M8_rate_from_old_state': ('src/pygom/model/stochastic_simulation.py', [("    changes=state_change_mat(x, t)\r\n    rates = transition_func(x, t)\r\n    # For now","    changes=state_change_mat(x, t)\r\n    rates = transition_func(x, t)*np.where(np.arange(len(transition_func(x, t)))==0, 2.0, 1.0)\r\n    # For now")]),
}
name=sys.argv[1]
f,reps=MUTS[name]
p=os.path.join(REPO,f)
s=open(p,newline='').read()
for a,b in reps:
    assert s.count(a)==1,(name,a,s.count(a))
    s=s.replace(a,b)
open(p,'w',newline='').write(s)
print(subprocess.run(['git','-C',REPO,'diff','--stat'],capture_output=True,text=True).stdout)
