"""Self-test of the C20 check against small semantic mutations of the anchored pygom code.
usage: PYGOM_REPO=<private worktree> python patches/C20-mutations.py [quick|thorough] [names...]
Baseline (the tree on which the check passes) = worktree HEAD + patches/C20-hessian-residual-term.diff
 + the two C07 repairs of shared lines (C07-sens-index-order.diff, C07-flat-weights-single-state.diff; skipped when already merged:
 they are commits 52be26b / 8f89322 of the real repo).  Restores the worktree at the end."""
import json, os, subprocess, sys
REPO = os.environ["PYGOM_REPO"]
VERIF = os.path.dirname(os.path.dirname(os.path.abspath(__file__)))
BL = "src/pygom/loss/base_loss.py"
LT = "src/pygom/loss/loss_type.py"
DET = "src/pygom/model/deterministic.py"
OU = "src/pygom/model/ode_utils/__init__.py"
MUT = {
 "M1-jtj-reshape-order-C": (BL, [("        sens = np.reshape(sens, (n, num_s, num_out), 'F')\r\n\r\n        for j in range(num_out):\r\n            sens[:,:,j] *= self._weight",
                                  "        sens = np.reshape(sens, (n, num_s, num_out), 'C').copy()\r\n\r\n        for j in range(num_out):\r\n            sens[:,:,j] *= self._weight")]),
 "M2-jtj-weights-dropped": (BL, [("        for j in range(num_out):\r\n            sens[:,:,j] *= self._weight\r\n\r\n        for i, s in enumerate(sens):",
                                  "        for i, s in enumerate(sens):")]),
 "M3-hessian-jtj-factor-1": (BL, [("HJTJ += 2*JTJ", "HJTJ += 1*JTJ")]),
 "M4-hessian-stale-observation-index": (BL, [("E[self._stateIndex] += diff_loss[i]*self._weight[i]", "E[self._stateIndex] += diff_loss[i-1]*self._weight[i-1]")]),
 "M5-hessian-kron-operand-order": (BL, [("H += scipy.sparse.kron(E, scipy.sparse.eye(nP)).dot(FF)", "H += scipy.sparse.kron(scipy.sparse.eye(nP), E).dot(FF)")]),
 "M6-hessian-sign-back": (BL, [("E[self._stateIndex] += diff_loss[i]*self._weight[i]", "E[self._stateIndex] += -diff_loss[i]*self._weight[i]")]),
 "M7-hessian-weight-dropped": (BL, [("E[self._stateIndex] += diff_loss[i]*self._weight[i]", "E[self._stateIndex] += diff_loss[i]")]),
 "M8-ff-quadratic-term-sign": (DET, [("outFF += self._SAUtil.kronState(A=S.T, pre=True).dot(diffJ).dot(S)", "outFF -= self._SAUtil.kronState(A=S.T, pre=True).dot(diffJ).dot(S)")]),
 "M9-ff-kronParam-transposed-J": (DET, [("outFF = self._SAUtil.kronParam(J).dot(FF)", "outFF = self._SAUtil.kronParam(J.T).dot(FF)")]),
 "M10-ff-quadratic-operand-swap": (DET, [("outFF += self._SAUtil.kronState(A=S.T, pre=True).dot(diffJ).dot(S)",
                                          "outFF += self._SAUtil.kronState(A=S.T, pre=True).dot(diffJ.dot(S))"),]),   # same value (associativity): must be flagged only by the fail-closed translator
 "M11-jac-drops-last-observation": (BL, [("                       init_state_sens,\r\n                       self._t[0], self._t[1::],\r\n                       full_output=full_output,",
                                          "                       init_state_sens,\r\n                       self._t[0], self._t[1:-1],\r\n                       full_output=full_output,")]),
 "M12-selection-offset": (BL, [("                index_out.append(j + (i + 1) * self._num_state)", "                index_out.append(j + (i + 1) * self._num_state - (1 if j else 0))")]),
 "M13-vecToMatFF-order-F": (OU, [("    return np.reshape(ff, (numState*numParam, numParam))", "    return np.reshape(ff, (numState*numParam, numParam), 'F')")]),
 "M14-kronParam-default-pre": (OU, [("    def kronParam(self, A, pre=False):", "    def kronParam(self, A, pre=True):")]),
 "M15-square-diff_loss-factor": (LT, [("        return -2*self.residual(yhat, apply_weighting)", "        return -1*self.residual(yhat, apply_weighting)")]),
 "M16-hessian-base-index": (BL, [("base_index_hess = nS + nS*nP", "base_index_hess = nS*nP + nS - 1 + (1 if nP > 1 else 0)")]),
 "M17-hessian-param-selection-cols": (BL, [("HJTJ = H[param_idx][:, param_idx].copy()", "HJTJ = H[param_idx][:, sorted(param_idx)].copy()")]),
}
PREREQ = ["C07-sens-index-order.diff", "C07-flat-weights-single-state.diff"]


def sh(cmd, **kw):
    return subprocess.run(cmd, shell=True, stdout=subprocess.PIPE, stderr=subprocess.STDOUT, text=True, **kw)


def find(name):
    for d in (os.path.join(VERIF, "patches"), "/var/tmp/ag/C07/verif/patches", "/verif/patches"):
        if os.path.exists(os.path.join(d, name)):
            return os.path.join(d, name)
    raise SystemExit("prerequisite patch %s not found" % name)


def baseline():
    sh("git -C %s checkout -- ." % REPO)
    for p in [os.path.join(VERIF, "patches", "C20-hessian-residual-term.diff")] + [find(n) for n in PREREQ]:
        if sh("git -C %s apply --check -R %s" % (REPO, p)).returncode == 0:
            continue            # already in the tree (the C07 repairs are merged since 52be26b / 8f89322)
        r = sh("git -C %s apply %s" % (REPO, p))
        assert r.returncode == 0, (p, r.stdout)


def main():
    tier = sys.argv[1] if len(sys.argv) > 1 else "quick"
    names = sys.argv[2:] or list(MUT)
    rows = []
    for name in names:
        baseline()
        if name != "baseline":
            rel, subs = MUT[name]
            p = os.path.join(REPO, rel)
            s = open(p, newline="").read()
            for a, b in subs:
                assert s.count(a) == 1, (name, a, s.count(a))
                s = s.replace(a, b)
            open(p, "w", newline="").write(s)
        r = sh("./check C20 --tier %s" % tier, cwd=VERIF)
        ev = json.load(open(os.path.join(VERIF, "evidence", "C20.json")))
        cov = ev["coverage"]
        broken = [b["theorem"][:90] for b in cov.get("broken", [])]
        lines = [l.strip()[:150] for l in r.stdout.split("\n") if l.startswith("  -> ") or "INTERNAL" in l]
        rows.append(dict(mutation=name, tier=tier, rc=r.returncode, broken=broken, search=lines, wall=ev["wall_s"]))
        print(json.dumps(rows[-1]))
        sys.stdout.flush()
    sh("git -C %s checkout -- ." % REPO)
    json.dump(rows, open(os.path.join(VERIF, ".work", "C20-mutations-%s.json" % tier), "w"), indent=1)


if __name__ == "__main__":
    main()
