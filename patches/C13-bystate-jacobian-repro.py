# repro: ode_and_sensitivity_jacobian(by_state=True) is not the Jacobian of ode_and_sensitivity(by_state=True)
# run: PYTHONPATH=$PYGOM_REPO/src:<verif>/harness /venv/bin/python patches/C13-bystate-jacobian-repro.py
import numpy as np, pg
T, ODE = pg.Transition, pg.TransitionType.ODE
m = pg.model(state=['x', 'y', 'w'], param=['a', 'b'], ode=[T(origin='x', equation='a*y*w - b*a*x - x**2/3', transition_type=ODE),
             T(origin='y', equation='b*x*x + a*w/7 - y**2/4', transition_type=ODE), T(origin='w', equation='-a*x*y + b*b*y - w**2/5', transition_type=ODE)])
m.parameters = [('a', 0.4), ('b', 0.7)]
z = np.linspace(0.5, 1.3, 3 + 3 * 2); h = 1e-6
f = lambda v: m.ode_and_sensitivity(v, 0.0, by_state=True)
num = np.array([(f(z + h * e) - f(z - h * e)) / (2 * h) for e in np.eye(len(z))]).T
print("max |supplied - numeric| =", abs(m.ode_and_sensitivity_jacobian(z, 0.0, by_state=True) - num).max())   # 1.0 before the patch, 1e-10 after
m1 = pg.model(state=['x', 'y', 'w'], param=['a'], ode=[T(origin=s, equation='-a*' + s, transition_type=ODE) for s in 'xyw'])
m1.parameters = [('a', 0.4)]; print(m1.ode_and_sensitivity_jacobian(np.ones(6), 0.0, by_state=True).shape)    # IndexError before the patch
