import numpy as np
from pygom import common_models, GammaLoss, PoissonLoss
from pygom.model import ode_utils
m = common_models.SIR({'beta':0.5,'gamma':1/3,'N':1000.}); m._SC = ode_utils.compileCode(backend='lambda')
x0=[990.,10.,0.]; t=np.linspace(0,30,11)
m.initial_values=(x0,np.float64(0)); y=m.integrate(t[1:])[1:,1]          # noise-free I(t)
o=GammaLoss([0.4,0.3,1000.], m, x0, t[0], t[1:], y, ['I'])
print(o.cost([0.4,0.3,1000.]))
print(o.fit([0.4,0.3,1000.], lb=[0.1,0.1,900.], ub=[1.,1.,1100.]))   # ValueError: shapes (10,) and (1,3) not aligned
