# C15: exact-mode gridded counts are the total number of recorded times, repeated for every transition.
# run: PYTHONPATH=$PYGOM_REPO/src /venv/bin/python C15-weighted-histogram.repro.py
import numpy as np
from pygom import SimulateOde, Transition, TransitionType as T
from pygom.model import ode_utils
m = SimulateOde(state=['S', 'I', 'R'], param=['beta', 'gamma', 'N'], transition=[
    Transition(origin='S', destination='I', equation='beta*S*I/N', transition_type=T.T),
    Transition(origin='I', destination='R', equation='gamma*I', transition_type=T.T)])
m._SC = ode_utils.compileCode(backend='lambda')      # instant compile (same result with the default back-end)
m.parameters = {'beta': 2, 'gamma': 1, 'N': 20}
m.initial_values = ([18, 2, 0], np.float64(0))
np.random.seed(3)
X, J, t = m.solve_stochast(np.linspace(0, 5, 6), 1, exact=True, full_output=True)
V = np.array(m.get_StateChangeMatrix().tolist(), dtype=float)
print("counts per interval:\n", J[0])                # pinned tree: [[13 13] [10 10] [5 5] [1 1] [0 0]]
print("rows differ by V.counts:", np.allclose(np.diff(X[0], axis=0), J[0] @ V.T))   # pinned: False, fixed: True
