# C15: a gridded run whose path records no event (nothing can happen from x0) raises instead of returning
# constant rows and zero counts.  run: PYTHONPATH=$PYGOM_REPO/src /venv/bin/python C15-zero-event-path.repro.py
import numpy as np
from pygom import SimulateOde, Transition, TransitionType as T
from pygom.model import ode_utils
m = SimulateOde(state=['A', 'B'], param=['d'], transition=[
    Transition(origin='A', destination='B', equation='d*A', transition_type=T.T)])
m._SC = ode_utils.compileCode(backend='lambda')
m.parameters = {'d': 1}
m.initial_values = ([0, 5], np.float64(0))           # A is empty: the only event has rate 0
X, J, t = m.solve_stochast([0, 1, 2], 1, exact=True, full_output=True)   # pinned: IndexError: tuple index out of range
print(X[0], J[0])                                    # fixed: rows [[0 5] [0 5] [0 5]], counts [[0] [0]]
