# C19 dchisq(log=False) raises: PYTHONPATH=$PYGOM_REPO/src /venv/bin/python patches/C19-dchisq.repro.py
import math
from pygom.utilR import dchisq
x, df = 2.0, 3
pdf = 0.5 ** (df / 2) * x ** (df / 2 - 1) * math.exp(-x / 2) / math.gamma(df / 2)   # 0.20755...
got = dchisq(x, df)            # pinned tree: TypeError (calls st.norm.pdf(x, df=df))
print("dchisq(2, 3) =", got, " expected", pdf)
assert abs(got - pdf) < 1e-12
assert abs(dchisq(x, df, log=True) - math.log(pdf)) < 1e-12
print("ok")
