# usage: PYTHONPATH=$PYGOM_REPO/src /venv/bin/python patches/C20-hessian-residual-term.repro.py   (AssertionError before the patch, passes after)
# x' = -x^2 + theta: no mixed second derivatives, so the second-order sensitivities pygom integrates are exact.
# hessian(theta) must be d(gradient)/d(theta); before the patch it returns 2JtJ - c instead of 2JtJ + c.
import numpy as np
from pygom import SimulateOde, Transition, TransitionType, SquareLoss
m = SimulateOde(state=['x'], param=['th'], ode=[Transition(origin='x', equation='-x*x+th', transition_type=TransitionType.ODE)])
m.parameters = [('th', 0.7)]
L = SquareLoss([0.7], m, [1.0], np.float64(0.0), np.array([0.5, 1.0, 1.5]), np.array([0.9, 0.8, 0.85]), ['x'])
th, h = np.array([0.7]), 1e-5
fd = (L.gradient(th + h) - L.gradient(th - h)) / (2 * h)
print("hessian", L.hessian(th).ravel(), " d gradient/d theta", fd, " 2*jtj", 2 * L.jtj(th).ravel())
assert abs(L.hessian(th)[0, 0] - fd[0]) < 1e-5, "hessian is not the derivative of the gradient"
