"""Self-test of the C06 check against small semantic mutations of the anchored pygom code.
usage: PYGOM_REPO=<private worktree> python patches/C06-mutations.py [quick|thorough] [names...]
Baseline = worktree + patches/C06-setx0-float.diff + patches/C06-state-weights-column.diff where they still apply (upstream
e42befb / 77f56d3 contain them), i.e. the tree on which the check passes.  Restores the worktree at the end."""
import json, os, subprocess, sys
REPO = os.environ["PYGOM_REPO"]
VERIF = os.path.dirname(os.path.dirname(os.path.abspath(__file__)))
BL = "src/pygom/loss/base_loss.py"
OL = "src/pygom/loss/ode_loss.py"
OU = "src/pygom/model/ode_utils/__init__.py"
BM = "src/pygom/model/base_ode_model.py"
MUT = {
 "M1-revert-017de9b-alias": (OU, [("            return r.y.copy()", "            return r.y")]),
 "M2-columns-sorted": (BL, [("return solution[:, self._stateIndex]", "return solution[:, sorted(self._stateIndex)]")]),
 "M3-grid-off-by-one": (BL, [("                                              self._observeT,\r\n                                              full_output=False,",
                              "                                              self._t[:-1],\r\n                                              full_output=False,")]),
 "M4-theta-bound-reversed": (BL, [("thetaDict[self._targetParam[i]] = theta[i]", "thetaDict[self._targetParam[i]] = theta[l1 - 1 - i]")]),
 "M5-gamma-weight-spread-swapped": (OL, [("                         state_name, state_weight, shape, target_param, target_state)",
                                         "                         state_name, shape, state_weight, target_param, target_state)")]),
 "M6-iv-slices-swapped": (BL, [("                self._setX0(theta[-self._num_state:])\r\n                self._setParam(theta[:self._num_param])\r\n        else:",
                                "                self._setX0(theta[:self._num_state])\r\n                self._setParam(theta[-self._num_param:])\r\n        else:")]),
 "M7-unroll-state-by-position": (BL, [("            self._x0[index] = x0[i]", "            self._x0[i] = x0[i]")]),
 "M8-state-index-sorted": (BL, [("self._stateIndex = self._ode.get_state_index(self._stateName)",
                                 "self._stateIndex = sorted(self._ode.get_state_index(self._stateName))")]),
 "M9-parameters-not-pushed": (BL, [("        if theta is not None:\r\n            self._setParam(theta)\r\n\r\n        self._ode.parameters = self._theta\r\n        # TODO: is this the correct approach",
                                    "        if theta is not None:\r\n            self._setParam(theta)\r\n\r\n        # TODO: is this the correct approach")]),
 "M10-weights-transposed-accepted": (BL, [("        elif p == m:\r\n            if q == 1:\r\n", "        elif p == m:\r\n            if q == 1 or q == n:\r\n")]),
 "M11-both-targets-wrong-count": (BL, [("                    x0 = theta[-l2:]\r\n                    theta = theta[:l1]", "                    x0 = theta[-l2:]\r\n                    theta = theta[:l2]")]),
 "M12-extract-index-sorted": (BM, [("                return [self._extractStateIndexSingle(i) for i in input_str]",
                                    "                return sorted([self._extractStateIndexSingle(i) for i in input_str])")]),
 "M14-state-weights-reversed": (BL, [("x = np.ones((n, p))*x.ravel()", "x = np.ones((n, p))*x.ravel()[::-1]")]),
 "M15-final-reshape-order-F": (BL, [("return np.reshape(x, (n, p))", "return np.reshape(x, (n, p), order='F')")]),
 "M13-harmless-rewrite": (BL, [("        if p == q:\r\n            if n == m:\r\n                x = x\r\n            elif m == 1:",
                                "        if q == p:\r\n            if m == n:\r\n                x = x\r\n            elif 1 == m:")]),   # same function: must PASS
}


def sh(cmd, **kw):
    return subprocess.run(cmd, shell=True, stdout=subprocess.PIPE, stderr=subprocess.STDOUT, text=True, **kw)


def baseline():
    sh("git -C %s checkout -- ." % REPO)
    for d in ("C06-setx0-float.diff", "C06-state-weights-column.diff"):
        if sh("git -C %s apply --check %s/patches/%s" % (REPO, VERIF, d)).returncode == 0:      # not yet upstream
            r = sh("git -C %s apply %s/patches/%s" % (REPO, VERIF, d))
            assert r.returncode == 0, r.stdout


def main():
    tier = sys.argv[1] if len(sys.argv) > 1 else "quick"
    names = sys.argv[2:] or list(MUT)
    rows = []
    for name in names:
        baseline()
        rel, subs = MUT[name]
        p = os.path.join(REPO, rel)
        s = open(p, newline="").read()
        for a, b in subs:
            assert s.count(a) == 1, (name, a, s.count(a))
            s = s.replace(a, b)
        open(p, "w", newline="").write(s)
        r = sh("./check C06 --tier %s" % tier, cwd=VERIF)
        ev = json.load(open(os.path.join(VERIF, "evidence", "C06.json")))
        cov = ev["coverage"]
        broken = [b["theorem"][:90] for b in cov.get("broken", [])]
        lines = [l.strip()[:160] for l in r.stdout.split("\n") if l.startswith("  -> ") or "INTERNAL" in l]
        rows.append(dict(mutation=name, tier=tier, rc=r.returncode, broken=broken, search=lines, wall=ev["wall_s"],
                         K_disagreements=cov.get("correspondence_disagreements")))
        print(json.dumps(rows[-1]))
        sys.stdout.flush()
    sh("git -C %s checkout -- ." % REPO)
    os.makedirs(os.path.join(VERIF, ".work"), exist_ok=True)
    json.dump(rows, open(os.path.join(VERIF, ".work", "C06-mutations-%s.json" % tier), "w"), indent=1)


if __name__ == "__main__":
    main()
