# C19 pchisq returns the density: PYTHONPATH=$PYGOM_REPO/src /venv/bin/python patches/C19-pchisq.repro.py
import mpmath as mp
from pygom.utilR import pchisq
x, df = 2.0, 3
cdf = mp.gammainc(mp.mpf(df) / 2, 0, mp.mpf(x) / 2, regularized=True)     # P(chi2_3 <= 2) = 0.42759...
pdf = (mp.mpf(1) / 2) ** (mp.mpf(df) / 2) * x ** (mp.mpf(df) / 2 - 1) * mp.exp(-x / 2) / mp.gamma(mp.mpf(df) / 2)
got = pchisq(x, df)
print("pchisq(2, 3) =", got, " cdf =", float(cdf), " pdf =", float(pdf))
assert abs(got - float(cdf)) < 1e-12, "pchisq is not the chi-square cdf (it equals the pdf: %r)" % (abs(got - float(pdf)) < 1e-12)
assert abs(pchisq(x, df, log=True) - float(mp.log(cdf))) < 1e-12
print("ok")
