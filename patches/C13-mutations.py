"""Self-test of the C13 check against small semantic mutations of the anchored pygom code.
usage: PYGOM_REPO=<private worktree> python patches/C13-mutations.py [quick|thorough] [names...]
Baseline = worktree + patches/C13-bystate-jacobian.diff (the tree on which the check passes).  Restores the worktree at the end."""
import json, os, subprocess, sys
REPO = os.environ["PYGOM_REPO"]
VERIF = os.path.dirname(os.path.dirname(os.path.abspath(__file__)))
DET = "src/pygom/model/deterministic.py"
OU = "src/pygom/model/ode_utils/__init__.py"
MUT = {
 "M1-revert-cd39b4d-oT": (DET, [('self.add_func("jacobian", self.get_jacobian_eqn, oT="mat")', 'self.add_func("jacobian", self.get_jacobian_eqn)'),
                                ('self.add_func("diff_jacobian", self.get_diff_jacobian_eqn, oT="mat")', 'self.add_func("diff_jacobian", self.get_diff_jacobian_eqn)'),
                                ('self.add_func("grad_jacobian", self.get_grad_jacobian_eqn, oT="mat")', 'self.add_func("grad_jacobian", self.get_grad_jacobian_eqn)')]),
 "M2-vecToMatSens-order-C": (OU, [("return np.reshape(s, (numState, numParam), 'F')", "return np.reshape(s, (numState, numParam))")]),
 "M3-IV-dot-operands": (DET, [("B = np.dot(J, IV)", "B = np.dot(IV, J)")]),
 "M4-IVjac-reshape-order": (DET, [("A = DJ.dot(np.reshape(state_param[(nS*(nP+1))::], (nS, nS), 'F'))", "A = DJ.dot(np.reshape(state_param[(nS*(nP+1))::], (nS, nS)))")]),
 "M5-sjs-no-transpose": (DET, [("self._SAUtil.vecToMatSens(sens)).transpose(), (nS*nP, nS)))", "self._SAUtil.vecToMatSens(sens)), (nS*nP, nS)))")]),
 "M6-gradjac-row-index": (DET, [("z = k*self.num_state + i", "z = i*self.num_param + k")]),
 "M7-kron-operands": (DET, [("outJ = np.kron(np.eye(self.num_param), J)\r\n        # Jacobian of the gradient", "outJ = np.kron(J, np.eye(self.num_param))\r\n        # Jacobian of the gradient")]),
 "M8-sign-GJ-minus": (DET, [("sensJacobianOfState = GJ + self.sens_jacobian_state(state_param, t)", "sensJacobianOfState = GJ - self.sens_jacobian_state(state_param, t)")]),
 "M9-bystate-input-order-F": (DET, [("S = np.reshape(sens, (self.num_state, self.num_param))", "S = np.reshape(sens, (self.num_state, self.num_param), 'F')")]),
 "M10-bystate-flag-dropped": (DET, [("out2 = self.sensitivity(sens, t, state, by_state)", "out2 = self.sensitivity(sens, t, state)")]),
 "M11-arrange-off-by-one": (DET, [("arrangeVector[k] = (j*self.num_state) + i", "arrangeVector[k] = (j*(self.num_state - 1)) + i + j")]),  # same value, rewritten: must PASS
 "M12-arrange-cols-not-permuted": (DET, [("outJ = outJ[idx,:][:,idx]", "outJ = outJ[idx,:]")]),
 "M13-IV-slice-off-by-one": (DET, [("IV = np.reshape(sensIV[-(nS*nS):], (nS, nS), 'F')", "IV = np.reshape(sensIV[-(nS*nS)-1:-1], (nS, nS), 'F')")]),
 "M14-IVjac-GS-uses-S0": (DET, [("GS = self.sens_jacobian_state(state_param[:(nS*(nP + 1))], t)", "GS = self.sens_jacobian_state(np.append(state, state_param[-(nS*nP):]), t)")]),
 "M15-stale-time-arg": (DET, [("        J = self.jacobian(state, t)\r\n        G = self.grad(state, t)\r\n        A = np.dot(J, S) + G\r\n\r\n        if by_state",
                                 "        J = self.jacobian(state, 0.0)\r\n        G = self.grad(state, t)\r\n        A = np.dot(J, S) + G\r\n\r\n        if by_state")]),
}


def sh(cmd, **kw):
    return subprocess.run(cmd, shell=True, stdout=subprocess.PIPE, stderr=subprocess.STDOUT, text=True, **kw)


def baseline():
    sh("git -C %s checkout -- ." % REPO)
    r = sh("git -C %s apply %s/patches/C13-bystate-jacobian.diff" % (REPO, VERIF))
    assert r.returncode == 0, r.stdout


def main():
    tier = sys.argv[1] if len(sys.argv) > 1 else "quick"
    names = sys.argv[2:] or list(MUT)
    rows = []
    for name in names:
        baseline()
        rel, subs = MUT[name]
        p = os.path.join(REPO, rel)
        s = open(p, newline="").read()
        for a, b in subs:
            assert s.count(a) == 1, (name, a, s.count(a))
            s = s.replace(a, b)
        open(p, "w", newline="").write(s)
        r = sh("./check C13 --tier %s" % tier, cwd=VERIF)
        ev = json.load(open(os.path.join(VERIF, "evidence", "C13.json")))
        cov = ev["coverage"]
        broken = [b["theorem"][:70] for b in cov.get("broken", [])]
        lines = [l.strip() for l in r.stdout.split("\n") if l.startswith("  -> ") or "INTERNAL" in l]
        rows.append(dict(mutation=name, tier=tier, rc=r.returncode, broken=broken, search=lines, wall=ev["wall_s"]))
        print(json.dumps(rows[-1]))
        sys.stdout.flush()
    sh("git -C %s checkout -- ." % REPO)
    json.dump(rows, open(os.path.join(VERIF, ".work", "C13-mutations-%s.json" % tier), "w"), indent=1)


if __name__ == "__main__":
    main()
