# repro: ode() is stale after add_ode (run with PYTHONPATH=$PYGOM_REPO/src)
import numpy as np
from pygom import SimulateOde, Transition, Event
from pygom.model import ode_utils
mk = lambda odes: SimulateOde(state=['S', 'I'], param=['b', 'g'], ode=odes,
    event=[Event(rate='b*S*I', transition_list=[Transition(origin='S', destination='I', transition_type='T')])])
extra = lambda: Transition(origin='I', equation='-g*I', transition_type='ODE')
m, fresh = mk(None), mk([extra()])
for k in (m, fresh): k._SC = ode_utils.compileCode(backend='lambda'); k.parameters = [0.5, 0.25]
x = np.array([3., 2.]); m.ode(x, 0.0)          # compile
m.add_ode(extra())                              # modify
print('modified:', m.ode(x, 0.0), ' fresh:', fresh.ode(x, 0.0))   # [-3. 3.] vs [-3. 2.5] on the defective tree
assert np.allclose(m.ode(x, 0.0), fresh.ode(x, 0.0)), 'STALE: add_ode did not invalidate the compiled ode'
