# C02 repro (defect repaired by 017de9b): integrateFuncJac(method None/'lsoda', full_output=False) returned the FINAL
# state in every row because scipy's lsoda overwrites the array that `r.y` aliases.  Run with PYTHONPATH=$PYGOM_REPO/src.
import numpy as np
from pygom import common_models
from pygom.model import ode_utils
m = common_models.SIR({'beta': 0.5, 'gamma': 0.2, 'N': 100.0})
m._SC = ode_utils.compileCode(backend='lambda')
x0 = np.array([95.0, 5.0, 0.0])
sol = ode_utils.integrateFuncJac(m.ode_T, m.jacobian_T, x0, 0.0, [5.0, 10.0])
print(sol)            # before the patch: two identical rows (state at t=10); after: S(5)=74.31..., S(10)=43.33...
assert not np.allclose(sol[0], sol[1]), "rows are aliased"
