"""apply one named mutation to a pygom tree (CRLF-safe exact string replacement)"""
import sys, os
MUT = {
 "M01_jump_first_seedTrue": ("model/simulate.py", """                                                                    self.eventRateVector,\r\n                                                                    seed=seed)\r\n                    if success==False:""", """                                                                    self.eventRateVector,\r\n                                                                    seed=True)\r\n                    if success==False:"""),
 "M02_rexp_default_rng": ("utilR/distn.py", "        rvs = np.random.exponential\r\n", "        rvs = np.random.default_rng().exponential\r\n"),
 "M03_simparam_mean_drop_first": ("model/simulate.py", "        Y = np.dstack(solutionList).mean(axis=2)\r\n", "        Y = np.dstack(solutionList[1:] or solutionList).mean(axis=2)\r\n"),
 "M04_determ_mean_includes_prelim": ("model/simulate.py", "            Y = np.dstack(solutionList).mean(axis=2)\r\n", "            Y = np.dstack([self._odeSolution] + solutionList).mean(axis=2)\r\n"),
 "M05_setter_frozen_random_state0": ("model/base_ode_model.py", "value.rvs(1)[0]", "value.rvs(1, random_state=0)[0]"),
 "M06_setter_tuple_seedTrue": ("model/base_ode_model.py", "paramTemp = value[0](1, *value[1])", "paramTemp = value[0](1, *value[1], seed=True)"),
 "M07_tauleap_rpois_seedTrue": ("model/stochastic_simulation.py", "rpois(1, tau_scale*r, seed=seed)", "rpois(1, tau_scale*r, seed=True)"),
 "M08_serial_seed_is_iteration_index": ("model/simulate.py", "            xtmp = [self._jump(finalT, exact=exact, full_output=True) for _i in range(iteration)]\r\n\r\n        # Unpack", "            xtmp = [self._jump(finalT, exact=exact, full_output=True, seed=_i) for _i in range(iteration)]\r\n\r\n        # Unpack"),
 "M09_simparam_median": ("model/simulate.py", "        Y = np.dstack(solutionList).mean(axis=2)\r\n", "        Y = np.median(np.dstack(solutionList), axis=2)\r\n"),
 "M10_simparam_one_more_run": ("model/simulate.py", "        else:\r\n            solutionList = [self.integrate(t) for i in range(iteration)]\r\n\r\n        # now make our 3D array\r\n        # the first dimension is the number of iteration\r\n        Y = np.dstack(solutionList).mean(axis=2)\r\n\r\n        if full_output:\r\n            return Y, solutionList\r\n        else:\r\n            return Y\r\n        \r\n", "        else:\r\n            solutionList = [self.integrate(t) for i in range(iteration + 1)]\r\n\r\n        # now make our 3D array\r\n        # the first dimension is the number of iteration\r\n        Y = np.dstack(solutionList).mean(axis=2)\r\n\r\n        if full_output:\r\n            return Y, solutionList\r\n        else:\r\n            return Y\r\n        \r\n"),
 "M11_newjumptimes_seedFalse": ("model/stochastic_simulation.py", "tau = [rexp(1, r, seed=seed) if r > 0 else np.inf for r in rates]", "tau = [rexp(1, r, seed=False) if r > 0 else np.inf for r in rates]"),
 "M12_harmless_runif_branch": ("utilR/distn.py", "    if seed:\r\n        if n > 1:\r\n            return st.uniform.rvs", "    if seed is not None and seed is not False:\r\n        if n > 1:\r\n            return st.uniform.rvs"),
 "M13_harmless_mean_rewrite": ("model/simulate.py", "        Y = np.dstack(solutionList).mean(axis=2)\r\n", "        Y = np.mean(np.dstack(solutionList), axis=2)\r\n"),
 "M14_jump_hidden_time_seed": ("model/simulate.py", "        self.get_ReactantMatrix()\r\n\r\n        # keep jumping", "        self.get_ReactantMatrix()\r\n        np.random.seed(None)\r\n\r\n        # keep jumping"),
 "M15_simparam_mean_axis_weighted": ("model/simulate.py", "        Y = np.dstack(solutionList).mean(axis=2)\r\n", "        Y = np.dstack(solutionList).sum(axis=2)/(iteration + 1)\r\n"),
 "M16_fallback_first_seedTrue": ("model/simulate.py", """                                                                        self.eventRateVector,\r\n                                                                        seed=seed)""", """                                                                        self.eventRateVector,\r\n                                                                        seed=True)"""),
 "M17_unreachable_rexp_vector_branch": ("utilR/distn.py", "    if n > 1:\r\n        return rvs(scale=1.0/rate, size=n)\r\n", "    if n > 1:\r\n        return np.random.RandomState().exponential(scale=1.0/rate, size=n)\r\n"),
}
if __name__ == "__main__":
    root, name = sys.argv[1], sys.argv[2]
    rel, old, new = MUT[name]
    p = os.path.join(root, "src", "pygom", rel)
    s = open(p, newline="").read()
    if s.count(old) < 1:
        old, new = old.replace("\r\n", "\n"), new.replace("\r\n", "\n")
    assert s.count(old) >= 1, "pattern not found for " + name
    s = s.replace(old, new, 1)
    open(p, "w", newline="").write(s)
    print("applied", name)
