#!/bin/bash
# usage: runmut.sh <name> <tier>   -- isolated copy of repo+verif, apply mutation, run the check
name=$1; tier=$2
d=/var/tmp/ag/C16/mut/$name
rm -rf $d; mkdir -p $d/repo
cp -r /var/tmp/ag/C16/repo/src $d/repo/src
rsync -a --exclude .git --exclude .work --exclude replays /var/tmp/ag/C16/verif/ $d/verif/
python3 /var/tmp/ag/C16/mutate.py $d/repo $name > $d/apply.log 2>&1 || { echo "$name APPLY-FAILED"; cat $d/apply.log; exit 9; }
(cd $d/repo && diff -ru /var/tmp/ag/C16/repo/src src > $d/mut.diff)
cd $d/verif
export PYGOM_REPO=$d/repo
start=$(date +%s)
./check C16 --tier $tier > $d/out_$tier.log 2>&1
rc=$?
end=$(date +%s)
echo "$name tier=$tier exit=$rc wall=$((end-start))s"
grep -E "VIOLATION|KNOWN|INTERNAL|->" $d/out_$tier.log | head -8
