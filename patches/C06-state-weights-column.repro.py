# C06 repro: BaseLoss._setWeight_or_spread classifies a (p, 1) array as "a vector of p numbers = one weight per state"
# (m, q = len(x), 1 ; branch `p == m`) but multiplies np.ones((n, p)) by the COLUMN: with n == p observations the weights
# are applied per observation ROW without any error (with n != p numpy raises an unrelated broadcasting ValueError).
# Run with PYTHONPATH=$PYGOM_REPO/src.
import numpy as np
from pygom.loss.base_loss import BaseLoss
f = BaseLoss.__new__(BaseLoss)._setWeight_or_spread
print(f(2, 2, [2.0, 3.0], True))                 # [[2 3] [2 3]]  one weight per state (column)
w = f(2, 2, np.array([[2.0], [3.0]]), True)
print(w)                                          # before the patch: [[2 2] [3 3]]; after: [[2 3] [2 3]]
assert (w == np.array([[2.0, 3.0], [2.0, 3.0]])).all(), "column of per-state weights applied per observation row"
print(f(5, 2, np.array([[2.0], [3.0]]), True))   # before: ValueError (broadcast); after: five rows [2 3]
