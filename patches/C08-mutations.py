"""apply one named mutation to the (patched) worktree; usage: mutate.py <name>"""
import sys, os
R = os.path.join(os.environ.get("PYGOM_REPO", "/var/tmp/ag/C08/repo"), "src/pygom/model/")
MUTS = {
 "M1_add_event_no_trip": ("base_ode_model.py",
   "        if isinstance(event, Event):\n            self._eventList.append(event)\n            self._hasNewTransition.trip()\n",
   "        if isinstance(event, Event):\n            self._eventList.append(event)\n"),
 "M2_cond_drops_flag": ("deterministic.py",
   "if not hasattr(self, compiled_obj_name) or getattr(self._hasNewTransition, method_name):",
   "if not hasattr(self, compiled_obj_name):"),
 "M3_master_resets_all": ("deterministic.py",
   "        if is_master_canary:\n            self._hasNewTransition.trip()\n",
   "        if is_master_canary:\n            for nm in self._hasNewTransition.states:\n                self._hasNewTransition.reset(nm)\n"),
 "M4_trip_skips_first": ("ode_utils/compile_canary.py",
   "self._states = dict([(state, True) for state in self.states])",
   "self._states = dict([(state, i > 0) for i, state in enumerate(self.states)])"),
 "M5_params_captured": ("deterministic.py",
   "        def comp_obj(state, time):\n            return compiled_obj(self._getEvalParam(state, time, None))\n",
   "        pvals = self._paramValue\n        def comp_obj(state, time):\n            return compiled_obj(list(state) + [time] + pvals)\n"),
 "M6_reset_wrong_name": ("deterministic.py",
   "self._hasNewTransition.reset(method_name)", "self._hasNewTransition.reset('ode')"),
 "M7_param_list_no_trip": ("base_ode_model.py",
   "            raise InputError(\"Expecting a list\")\n\n        self._hasNewTransition.trip()\n\n    @property\n    def derived_param_list",
   "            raise InputError(\"Expecting a list\")\n\n    @property\n    def derived_param_list"),
 "M8_jacobian_uses_cached_ode": ("deterministic.py",
   "        self.get_ode_eqn()\n        states = [s for s in self._iterStateList()]\n        self._Jacobian = self._ode.jacobian(states)",
   "        if not hasattr(self, '_ode'):\n            self.get_ode_eqn()\n        states = [s for s in self._iterStateList()]\n        self._Jacobian = self._ode.jacobian(states)"),
 "M9_canary_name_typo": ("simulate.py", '              "vMat",\n', '              "vmat",\n'),
 "M10_birth_death_D_no_trip": ("base_ode_model.py",
   "                self._birthDeathList.append(death_event)\n                self._hasNewTransition.trip()   \n",
   "                self._birthDeathList.append(death_event)\n"),
 "M11_sp_trip_wrong_compare": ("base_ode_model.py",
   "if old_sp is not None and old_sp != self._sp:", "if old_sp is not None and len(old_sp) > len(self._sp):"),
}
name = sys.argv[1]
f, old, new = MUTS[name]
p = R + f
s = open(p, newline='').read()
crlf = "\r\n" in s
if crlf:
    old, new = old.replace("\n", "\r\n"), new.replace("\n", "\r\n")
assert s.count(old) == 1, (name, s.count(old))
open(p, 'w', newline='').write(s.replace(old, new))
print("applied", name, "to", f, "(CRLF)" if crlf else "")
