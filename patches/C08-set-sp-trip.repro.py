# repro: every evaluator raises after a parameter is declared, something is evaluated, and values are assigned
import numpy as np
from pygom import SimulateOde, Transition, Event
from pygom.model import ode_utils
m = SimulateOde(state=['S', 'I'], param=['b', 'g'],
    event=[Event(rate='b*S*I', transition_list=[Transition(origin='S', destination='I', transition_type='T')])])
m._SC = ode_utils.compileCode(backend='lambda'); m.parameters = [0.5, 0.25]
x = np.array([3., 2.])
m.param_list = ['d']                # declare a new parameter (canary tripped, self._sp not yet rebuilt)
print(m.ode(x, 0.0))                # compiled against the OLD argument list (S, I, t, b, g)
m.parameters = [0.5, 0.25, 0.125]   # set_sp(): argument list now (S, I, t, b, g, d) -- but no trip
print(m.ode(x, 0.0))                # defective tree: TypeError: takes 5 positional arguments but 6 were given
