# one observed state, one weight per observation given as a flat vector: cost works, the gradient raises ValueError
import numpy as np
from pygom import SimulateOde, Transition, TransitionType, SquareLoss
ode = [Transition(origin='S', equation='-beta*S*I', transition_type=TransitionType.ODE),
       Transition(origin='I', equation='beta*S*I-gamma*I', transition_type=TransitionType.ODE),
       Transition(origin='R', equation='gamma*I', transition_type=TransitionType.ODE)]
m = SimulateOde(state=['S', 'I', 'R'], param=['beta', 'gamma'], ode=ode); m.parameters = [('beta', 1.2), ('gamma', 0.4)]
t = np.linspace(1, 5, 5); y = np.array([.1, .2, .35, .5, .6]); th = np.array([1.1, .5])
o = SquareLoss(th, m, [.9, .1, 0.], 0., t, y, 'R', state_weight=[1., 2., 3., .5, 1.5])
print('cost', o.cost(th))
print('sensitivity', o.sensitivity(th))      # ValueError: non-broadcastable output operand with shape (5,1) ...
print('fd', [(o.cost(th + e) - o.cost(th - e)) / 2e-6 for e in 1e-6 * np.eye(2)])
