# C19 runif ignores an integer seed (and a passed RandomState): PYTHONPATH=$PYGOM_REPO/src /venv/bin/python patches/C19-runif.repro.py
import numpy as np
from pygom.utilR import runif
a, b = runif(3, -1.0, 2.5, seed=5), runif(3, -1.0, 2.5, seed=5)
print(a, b)
assert np.array_equal(a, b), "two calls with seed=5 differ"
assert np.array_equal(a, np.random.RandomState(5).uniform(-1.0, 2.5, 3)), "draws do not come from RandomState(5)"
assert np.array_equal(runif(3, seed=np.random.RandomState(9)), np.random.RandomState(9).uniform(size=3)), "passed RandomState not used"
assert np.array_equal(runif(3, seed=0), runif(3, seed=0))      # seed=0 already worked (falsy -> other branch)
print("ok")
