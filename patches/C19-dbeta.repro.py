# C19 dbeta ignores log=True: PYTHONPATH=$PYGOM_REPO/src /venv/bin/python patches/C19-dbeta.repro.py
import math
from pygom.utilR import dbeta
x, a, b = 0.3, 2.0, 3.0
pdf = x ** (a - 1) * (1 - x) ** (b - 1) * math.gamma(a + b) / (math.gamma(a) * math.gamma(b))   # 1.764
print("dbeta(log=False) =", dbeta(x, a, b), " dbeta(log=True) =", dbeta(x, a, b, log=True), " ln pdf =", math.log(pdf))
assert abs(dbeta(x, a, b) - pdf) < 1e-12
assert abs(dbeta(x, a, b, log=True) - math.log(pdf)) < 1e-12, "log=True returned the plain density"
print("ok")
