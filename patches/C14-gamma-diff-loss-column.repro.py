# Gamma.diff_loss mis-shapes a single-column prediction: (n,1) yhat -> (n,n) matrix instead of n derivatives.
# run: PYTHONPATH=$PYGOM_REPO/src /venv/bin/python C14-gamma-diff-loss-column.repro.py   (exit 1 = defect present)
import sys, numpy as np
from pygom.loss.loss_type import Gamma
y, yhat = np.array([3.0, 5.0]), np.array([2.5, 4.0])
g = Gamma(y, shape=2.0)
vec, col = g.diff_loss(yhat), g.diff_loss(yhat.reshape(-1, 1))     # what base_loss passes for one target state
print("vector input ->", vec.shape, vec, "\ncolumn input ->", col.shape, col.tolist())
print("loss/diff2Loss on the column:", np.shape(g.loss(yhat.reshape(-1, 1))), g.diff2Loss(yhat.reshape(-1, 1)).shape)
sys.exit(0 if col.shape == vec.shape and np.allclose(col, vec) else 1)
