"""Self-test of the C07 check against small semantic mutations of the anchored pygom code.
usage: PYGOM_REPO=<private worktree> python patches/C07-mutations.py [quick|thorough] [names...]
Baseline = worktree + the three C07 patches (the tree on which the check passes).  Restores the worktree at the end."""
import json, os, subprocess, sys
REPO = os.environ["PYGOM_REPO"]
VERIF = os.path.dirname(os.path.dirname(os.path.abspath(__file__)))
BL = "src/pygom/loss/base_loss.py"
LT = "src/pygom/loss/loss_type.py"
PATCHES = ["C07-sens-index-order.diff", "C07-target-state-index.diff", "C07-flat-weights-single-state.diff"]
NL = "\n"      # patterns are written with LF and converted when the file uses CRLF
MUT = {
 # the defect fixed upstream in 2d8bc80, reverted
 "M1-revert-2d8bc80-gamma-ravel": (LT, [("        '''" + NL + "        if len(yhat.shape) > 1:" + NL + "            if 1 in yhat.shape:" + NL +
                                         "                yhat = yhat.ravel()" + NL + "        shape = self._shape" + NL +
                                         "        residual = self.residual(yhat, apply_weighting)" + NL + "        return shape*-residual/yhat**2",
                                         "        '''" + NL + "        shape = self._shape" + NL +
                                         "        residual = self.residual(yhat, apply_weighting)" + NL + "        return shape*-residual/yhat**2")]),
 # each of the three repairs reverted on its own
 "M2-revert-order-patch": ("REVERT", "C07-sens-index-order.diff"),
 "M3-revert-target-state-patch": ("REVERT", "C07-target-state-index.diff"),
 "M4-revert-flat-weights-patch": ("REVERT", "C07-flat-weights-single-state.diff"),
 # index arithmetic
 "M5-param-block-off-by-one": (BL, [("index_out.append(j + (i + 1) * self._num_state)", "index_out.append(j + i * self._num_state)")]),
 "M6-state-block-off-by-one": (BL, [("index_out.append(j + (i + 1 + n_p)*n_s)", "index_out.append(j + (i + n_p)*n_s)")]),
 "M7-harmless-rewrite-must-pass": (BL, [("index_out.append(j + (i + 1) * self._num_state)", "index_out.append((1 + i) * self._num_state + j)")]),
 # reshape order, weights, contraction
 "M8-reshape-order-C": (BL, [("sens = np.reshape(sens, (n, num_s, num_out), 'F')" + NL + "        for j in range(num_out):" + NL +
                              "            sens[:, :, j] *= self._weight" + NL + NL + "        grad =",
                              "sens = np.reshape(sens, (n, num_s, num_out), 'C')" + NL + "        for j in range(num_out):" + NL +
                              "            sens[:, :, j] *= self._weight" + NL + NL + "        grad =")]),
 "M9-weights-dropped-in-sens_to_grad": (BL, [("            sens[:, :, j] *= self._weight" + NL + NL + "        grad =",
                                              "            sens[:, :, j] *= 1.0" + NL + NL + "        grad =")]),
 "M10-residual-weight-squared": (LT, [("resid = resid*self._w  #", "resid = resid*self._w**2  #")]),
 # kernels
 "M11-square-diff-loss-sign": (LT, [("return -2*self.residual(yhat, apply_weighting)", "return 2*self.residual(yhat, apply_weighting)")]),
 "M12-normal-diff-loss-sigma-power": (LT, [("return -residual/self._sigma2", "return -residual/self._sigma")]),
 # wiring
 "M13-IV-halves-swapped": (BL, [("            grad = np.append(grad, grad_iv)" + NL + NL + "            return grad" + NL,
                                 "            grad = np.append(grad_iv, grad)" + NL + NL + "            return grad" + NL)]),
 "M14-IV-wrong-dispatch": (BL, [("        index_out = self._getTargetStateSensIndex()" + NL + "        return self.sens_to_grad(sens[:, index_out], diffLoss)",
                                 "        index_out = self._getTargetParamSensIndex()" + NL + "        return self.sens_to_grad(sens[:, index_out], diffLoss)")]),
 "M15-stale-theta-in-sensitivity": (BL, [("_jac, sens = self.jac(theta=theta, sens_output=True, full_output=False, method=method)",
                                          "_jac, sens = self.jac(theta=None, sens_output=True, full_output=False, method=method)")]),
 "M16-sens-initial-condition-ones": (BL, [("init_state_sens = np.append(self._x0, np.zeros(num_sens))", "init_state_sens = np.append(self._x0, np.ones(num_sens))")]),
 "M17-IV-initial-identity-dropped": (BL, [("np.eye(self._num_state).flatten())", "np.zeros(self._num_state**2))")]),
 "M18-diff-loss-on-declaration-columns": (BL, [("            i = self._stateIndex" + NL + "            diff_loss = self._lossObj.diff_loss(sens[:,i])" + NL +
                                                "            grad = self._sensToGradWithoutIndex(sens, diff_loss)" + NL + NL + "            return grad",
                                                "            i = sorted(self._stateIndex)" + NL + "            diff_loss = self._lossObj.diff_loss(sens[:,i])" + NL +
                                                "            grad = self._sensToGradWithoutIndex(sens, diff_loss)" + NL + NL + "            return grad")]),
 "M19-jac-time-grid-shifted": (BL, [("                         init_state_sens," + NL + "                         self._t[0], self._t[1::]," + NL + "                         method=method)",
                                     "                         init_state_sens," + NL + "                         self._t[0], self._t[0:-1]," + NL + "                         method=method)")]),
}


def sh(cmd, **kw):
    return subprocess.run(cmd, shell=True, stdout=subprocess.PIPE, stderr=subprocess.STDOUT, text=True, **kw)


def baseline(skip=None):
    sh("git -C %s checkout -- ." % REPO)
    for p in PATCHES:
        if p == skip:
            continue
        r = sh("git -C %s apply %s/patches/%s" % (REPO, VERIF, p))
        assert r.returncode == 0, r.stdout


def main():
    tier = sys.argv[1] if len(sys.argv) > 1 else "quick"
    names = sys.argv[2:] or list(MUT)
    rows = []
    for name in names:
        rel, subs = MUT[name]
        if rel == "REVERT":
            baseline(skip=subs)
        else:
            baseline()
            p = os.path.join(REPO, rel)
            s = open(p, newline="").read()
            if "\r\n" in s:
                subs = [(a.replace("\n", "\r\n"), b.replace("\n", "\r\n")) for a, b in subs]
            for a, b in subs:
                assert s.count(a) == 1, (name, a, s.count(a))
                s = s.replace(a, b)
            open(p, "w", newline="").write(s)
        r = sh("./check C07 --tier %s" % tier, cwd=VERIF)
        ev = json.load(open(os.path.join(VERIF, "evidence", "C07.json")))
        cov = ev["coverage"]
        broken = [b["theorem"][:90] for b in cov.get("broken", [])]
        lines = [l.strip()[:160] for l in r.stdout.split("\n") if l.startswith("  -> ") or "INTERNAL" in l]
        rows.append(dict(mutation=name, tier=tier, rc=r.returncode, broken=broken, search=lines, wall=ev["wall_s"]))
        print(json.dumps(rows[-1]))
        sys.stdout.flush()
    sh("git -C %s checkout -- ." % REPO)
    os.makedirs(os.path.join(VERIF, ".work"), exist_ok=True)
    json.dump(rows, open(os.path.join(VERIF, ".work", "C07-mutations-%s.json" % tier), "w"), indent=1)


if __name__ == "__main__":
    main()
