(* C14 — proofs about the loss kernels GENERATED from loss_type.py / distn.py (Gen/LossGen.v).
   The proof scripts are written to survive harmless rewrites of the source (re-association, a different but equal
   closed form, moving the minus sign in or out of the sum): they unfold, let Coquelicot's auto_derive compute the
   derivative of whatever expression was generated, and close the residual equation with field / lra. *)
From Coq Require Import Reals Lra Lia List Bool Arith String.
Set Warnings "-ambiguous-paths".
From Coquelicot Require Import Coquelicot.
Set Warnings "ambiguous-paths".
From PV Require Import Loss Gen.LossGen.
Import ListNotations.
Open Scope R_scope.

(* ================================================================== result shapes *)
Lemma bdim_refl n : bdim n n = Some n.
Proof. unfold bdim. now rewrite Nat.eqb_refl. Qed.

Lemma bcast_same s : bcast s s = Some s.
Proof. destruct s; simpl; rewrite ?bdim_refl; reflexivity. Qed.

Definition flat_res (e : shexpr) (s : shape) : shape := if res_array e then s else Scalar.

(* all array operands have the same shape s, and squeeze1 leaves s alone: the result is s (or a scalar) *)
Lemma same_shape_sound e s : squeeze1 s = s -> sh_eval e s s = Some (flat_res e s).
Proof.
  intros Hs. unfold flat_res. induction e; simpl; try reflexivity.
  - rewrite IHe. simpl. destruct (res_array e); simpl; [now rewrite Hs | reflexivity].
  - rewrite IHe1, IHe2. simpl.
    destruct (res_array e1), (res_array e2); simpl; try reflexivity; try apply bcast_same; destruct s; reflexivity.
  - rewrite IHe. reflexivity.
Qed.

Lemma vec_sound e n : sh_eval e (Vec n) (Vec n) = Some (flat_res e (Vec n)).
Proof. apply same_shape_sound. reflexivity. Qed.

Lemma mat_sound e r c : r <> 1%nat -> c <> 1%nat -> sh_eval e (Mat r c) (Mat r c) = Some (flat_res e (Mat r c)).
Proof.
  intros Hr Hc. apply same_shape_sound. simpl.
  apply Nat.eqb_neq in Hr. apply Nat.eqb_neq in Hc. now rewrite Hr, Hc.
Qed.

Lemma col_sound e n : col_safe e = true -> sh_eval e (Vec n) (Mat n 1) = sh_eval e (Vec n) (Vec n).
Proof.
  induction e; simpl; intros H; try reflexivity; try discriminate.
  - destruct e; try (rewrite IHe by exact H; reflexivity).
    simpl. rewrite ?Nat.eqb_refl, orb_true_r, Nat.mul_1_r. reflexivity.
  - apply andb_prop in H as [H1 H2]. now rewrite IHe1, IHe2.
  - now rewrite IHe.
Qed.

Lemma me_ok_expected m s : me_ok m = true -> flat_res (me_shape m) s = expected_shape (me_loss m) s.
Proof.
  unfold me_ok, flat_res, expected_shape. destruct (res_array (me_shape m)), (me_loss m); simpl; intros H;
    try discriminate; reflexivity.
Qed.

Lemma shapes_vector tbl : forallb me_ok tbl = true -> forall n,
  List.Forall (fun m => sh_eval (me_shape m) (Vec n) (Vec n) = Some (expected_shape (me_loss m) (Vec n))) tbl.
Proof.
  intros H n. rewrite forallb_forall in H. apply List.Forall_forall. intros m Hm.
  rewrite vec_sound. f_equal. apply me_ok_expected. now apply H.
Qed.

Lemma shapes_matrix tbl : forallb me_ok tbl = true -> forall r c, r <> 1%nat -> c <> 1%nat ->
  List.Forall (fun m => sh_eval (me_shape m) (Mat r c) (Mat r c) = Some (expected_shape (me_loss m) (Mat r c))) tbl.
Proof.
  intros H r c Hr Hc. rewrite forallb_forall in H. apply List.Forall_forall. intros m Hm.
  rewrite mat_sound by assumption. f_equal. apply me_ok_expected. now apply H.
Qed.

Lemma shapes_column tbl : forallb me_ok_col tbl = true -> forall n,
  List.Forall (fun m => sh_eval (me_shape m) (Vec n) (Mat n 1) = Some (expected_shape (me_loss m) (Vec n))) tbl.
Proof.
  intros H n. rewrite forallb_forall in H. apply List.Forall_forall. intros m Hm.
  specialize (H m Hm). unfold me_ok_col in H. apply andb_prop in H as [H1 H2].
  rewrite col_sound by exact H2. rewrite vec_sound. f_equal. now apply me_ok_expected.
Qed.

(* the shape slip the column theorem excludes: yhat used next to the (ravelled) residual without being ravelled *)
Definition unravelled_use : shexpr := ShBin (ShBin ShY (ShBin ShY (ShSq ShYhat))) ShYhat.
Lemma unravelled_use_refuted :
  col_safe unravelled_use = false /\
  sh_eval unravelled_use (Vec 3) (Mat 3 1) = Some (Mat 3 3) /\
  sh_eval unravelled_use (Vec 3) (Vec 3) = Some (Vec 3).
Proof. vm_compute. repeat split. Qed.

(* constructor facts *)
Definition ctor_pair_ok (p : string * (nat * nat) * (nat * nat)) : bool :=
  let '(_, (a, b), (c, d)) := p in Nat.eqb (a * d) (c * b) && negb (Nat.eqb b 0) && negb (Nat.eqb d 0).

(* ================================================================== sums *)
Lemma Rsum_app a b : Rsum (a ++ b) = Rsum a + Rsum b.
Proof. induction a; simpl; lra. Qed.

(* a loss that is additive over the observation list: its partial derivative w.r.t. one prediction is the
   derivative of the one-observation loss *)
Lemma partial_of_additive (L : list obs -> R) :
  (forall a b, L (a ++ b) = L a + L b) ->
  forall pre post o d,
    is_derive (fun m => L [with_yhat o m]) (oyh o) d ->
    is_derive (fun m => L (pre ++ with_yhat o m :: post)) (oyh o) d.
Proof.
  intros Hadd pre post o d Hd.
  apply is_derive_ext with (f := fun m => L pre + (L [with_yhat o m] + L post)).
  - intros m. rewrite Hadd. f_equal. change (with_yhat o m :: post) with ([with_yhat o m] ++ post). now rewrite Hadd.
  - replace d with (plus zero (plus d zero)) by (unfold plus, zero; simpl; ring).
    apply (is_derive_plus (fun _ : R => L pre) (fun m => L [with_yhat o m] + L post)).
    + apply is_derive_const.
    + apply (is_derive_plus (fun m => L [with_yhat o m]) (fun _ : R => L post)); [exact Hd | apply is_derive_const].
Qed.

(* ================================================================== logarithm facts *)
Lemma ln_sqrt' x : 0 < x -> ln (sqrt x) = ln x / 2.
Proof.
  intros H. assert (Hs : 0 < sqrt x) by (apply sqrt_lt_R0; lra).
  assert (E : ln x = ln (sqrt x * sqrt x)) by (rewrite sqrt_sqrt; [reflexivity | lra]).
  rewrite ln_mult in E by lra. lra.
Qed.

Lemma ln_1_div x : 0 < x -> ln (1 / x) = - ln x.
Proof. intros H. unfold Rdiv. rewrite Rmult_1_l. apply ln_Rinv; exact H. Qed.

Lemma ln_div x y : 0 < x -> 0 < y -> ln (x / y) = ln x - ln y.
Proof. intros Hx Hy. unfold Rdiv. rewrite ln_mult, ln_Rinv; try lra. now apply Rinv_0_lt_compat. Qed.

Lemma ln_Rpower x y : ln (Rpower x y) = y * ln x.
Proof. unfold Rpower. apply ln_exp. Qed.

Lemma ln_pow' x n : 0 < x -> ln (x ^ n) = INR n * ln x.
Proof.
  intros Hx. induction n.
  - simpl. rewrite ln_1. lra.
  - rewrite S_INR. simpl. rewrite ln_mult; [rewrite IHn; lra | lra | now apply pow_lt].
Qed.

Lemma INR_fact_pos n : 0 < INR (fact n).
Proof. apply lt_0_INR. apply lt_O_fact. Qed.

(* locally around a positive point, points are positive *)
Lemma locally_pos (x : R) (P : R -> Prop) : 0 < x -> (forall t, 0 < t -> P t) -> locally x P.
Proof.
  intros Hx HP. exists (mkposreal x Hx). intros t Ht. apply HP.
  unfold ball in Ht; simpl in Ht. unfold AbsRing_ball, abs, minus, plus, opp in Ht; simpl in Ht.
  apply Rabs_lt_between' in Ht. lra.
Qed.

(* ================================================================== the contracts are satisfiable *)
(* a positive function interpolating the factorial, with lgamma := ln o G: shows GammaSpec is not vacuous
   (the theorems hold for every such pair, in particular for Euler's Gamma and scipy's gammaln) *)
Definition G_witness (x : R) : R := INR (fact (Z.to_nat (up x - 2))).
Lemma GammaSpec_satisfiable : GammaSpec G_witness (fun x => ln (G_witness x)).
Proof.
  repeat split.
  - intros x _. apply INR_fact_pos.
  - intros n. unfold G_witness. f_equal. f_equal.
    assert (E : up (INR n + 1) = (Z.of_nat n + 2)%Z).
    { symmetry. apply tech_up; rewrite plus_IZR, <- INR_IZR_INZ; simpl; lra. }
    rewrite E. replace (Z.of_nat n + 2 - 2)%Z with (Z.of_nat n) by lia. apply Nat2Z.id.
Qed.
Lemma PoisSpec_satisfiable : PoisSpec (fun k mu => ln (pois_pmf (Z.to_nat (up k - 1)) mu)).
Proof.
  intros n mu _. f_equal. f_equal.
  assert (E : up (INR n) = (Z.of_nat n + 1)%Z).
  { symmetry. apply tech_up; rewrite plus_IZR, <- INR_IZR_INZ; simpl; lra. }
  rewrite E. replace (Z.of_nat n + 1 - 1)%Z with (Z.of_nat n) by lia. apply Nat2Z.id.
Qed.

(* ================================================================== generic: additive losses *)
Definition additive (L : list obs -> R) := forall a b, L (a ++ b) = L a + L b.

Lemma sum_of_additive {C} (f : C -> obs) (L : list obs -> R) (P : C -> Prop) (ref : C -> R) :
  additive L -> L [] = 0 -> (forall c, P c -> L [f c] = ref c) ->
  forall l, List.Forall P l -> L (map f l) = Rsum (map ref l).
Proof.
  intros Ha H0 H1 l Hl. induction Hl as [| c l Hc Hl IH]; simpl.
  - exact H0.
  - change (f c :: map f l) with ([f c] ++ map f l). rewrite Ha, H1, IH by assumption. reflexivity.
Qed.

Lemma Rsum_map_opp {C} (g : C -> R) l : Rsum (map (fun c => - g c) l) = - Rsum (map g l).
Proof. induction l; simpl; lra. Qed.

Lemma nll_of_additive {C} (f : C -> obs) (L : list obs -> R) (P : C -> Prop) (ref : C -> R) :
  additive L -> L [] = 0 -> (forall c, P c -> L [f c] = - ref c) ->
  forall l, List.Forall P l -> L (map f l) = - Rsum (map ref l).
Proof.
  intros Ha H0 H1 l Hl. rewrite <- Rsum_map_opp. now apply (sum_of_additive f L P).
Qed.

Ltac additive_tac := intros a b; cbv beta delta [Square_loss Normal_loss Gamma_loss Poisson_loss NegBinom_loss];
  rewrite ?map_app, ?Rsum_app; ring.

Lemma Square_add aw : additive (Square_loss aw). Proof. additive_tac. Qed.
Lemma Normal_add aw : additive (Normal_loss aw). Proof. additive_tac. Qed.
Lemma Gamma_add lg aw : additive (Gamma_loss lg aw). Proof. additive_tac. Qed.
Lemma Poisson_add pl aw : additive (Poisson_loss pl aw). Proof. additive_tac. Qed.
Lemma NegBinom_add lg aw : additive (NegBinom_loss lg aw). Proof. additive_tac. Qed.

Ltac nil_tac := cbv beta delta [Square_loss Normal_loss Gamma_loss Poisson_loss NegBinom_loss]; cbn [map Rsum]; ring.
Lemma Square_nil aw : Square_loss aw [] = 0. Proof. nil_tac. Qed.
Lemma Gamma_nil lg aw : Gamma_loss lg aw [] = 0. Proof. nil_tac. Qed.

(* open a one-observation loss down to real arithmetic *)
Ltac open_loss :=
  cbv beta delta [Square_loss Normal_loss Gamma_loss Poisson_loss NegBinom_loss
                  Square_loss_term Normal_loss_term Gamma_loss_term Poisson_loss_term NegBinom_loss_term
                  Square_diff_loss Normal_diff_loss Gamma_diff_loss Poisson_diff_loss NegBinom_diff_loss
                  Square_diff2Loss Normal_diff2Loss Gamma_diff2Loss Poisson_diff2Loss NegBinom_diff2Loss
                  gamma_mu_shape_logTrue dpois_logTrue nb2pmf_logTrue dnbinom_probNone_logTrue
                  Baseloss_Type_residual with_yhat obs_of_count wres];
  cbn [map Rsum oy ow os oyh cn cw cs cyh].

Lemma Square_single aw o : Square_loss aw [o] = (wres aw o) ^ 2.
Proof. open_loss. destruct aw; ring. Qed.




(* ---- logarithms of the reference densities (hand-written side only) *)
Lemma ln_normal_pdf x mu sigma : 0 < sigma ->
  ln (normal_pdf x mu sigma) = - (ln 2 + ln PI) / 2 - ln sigma - (x - mu) ^ 2 / (2 * sigma ^ 2).
Proof.
  intros Hs. unfold normal_pdf.
  assert (HPI := PI_RGT_0).
  assert (Hsq : 0 < sqrt (2*PI)) by (apply sqrt_lt_R0; lra).
  assert (Hden : 0 < sqrt (2*PI) * sigma) by (apply Rmult_lt_0_compat; lra).
  rewrite ln_mult; [| apply Rdiv_lt_0_compat; lra | apply exp_pos].
  rewrite ln_exp, ln_1_div by assumption.
  rewrite ln_mult by lra. rewrite ln_sqrt' by lra. rewrite ln_mult by lra. field. lra.
Qed.

Lemma ln_pois_pmf n mu : 0 < mu -> ln (pois_pmf n mu) = INR n * ln mu - mu - ln (INR (fact n)).
Proof.
  intros Hm. unfold pois_pmf. assert (HF := INR_fact_pos n).
  rewrite ln_div; [| apply Rmult_lt_0_compat; [now apply pow_lt | apply exp_pos] | assumption].
  rewrite ln_mult; [| now apply pow_lt | apply exp_pos].
  rewrite ln_exp, ln_pow' by assumption. ring.
Qed.

Section RefGamma.
Variables Gamma : R -> R.
Hypothesis Gpos : forall x, 0 < x -> 0 < Gamma x.

Lemma ln_gamma_pdf y mu a : 0 < y -> 0 < mu -> 0 < a ->
  ln (gamma_pdf Gamma y mu a) = (a - 1) * ln y - a * y / mu - ln (Gamma a) - a * (ln mu - ln a).
Proof.
  intros Hy Hm Ha. unfold gamma_pdf, gamma_pdf_scale.
  assert (Hth : 0 < mu / a) by (apply Rdiv_lt_0_compat; lra).
  assert (HGa := Gpos _ Ha).
  rewrite ln_div; [| apply Rmult_lt_0_compat; apply exp_pos | apply Rmult_lt_0_compat; [assumption | apply exp_pos]].
  rewrite !ln_mult by (assumption || apply exp_pos).
  rewrite ln_exp, !ln_Rpower. rewrite ln_div by assumption. field. lra.
Qed.

Lemma ln_nb2_pmf n mu k : 0 < mu -> 0 < k ->
  ln (nb2_pmf Gamma n mu k) =
  ln (Gamma (INR n + k)) - ln (Gamma k) - ln (INR (fact n)) + k * (ln k - ln (k + mu)) + INR n * (ln mu - ln (k + mu)).
Proof.
  intros Hm Hk. unfold nb2_pmf, nbinom_pmf.
  assert (Hn : 0 <= INR n) by apply pos_INR.
  assert (Hkm : 0 < k + mu) by lra.
  assert (Hp : 0 < k / (k + mu)) by (apply Rdiv_lt_0_compat; lra).
  assert (Hq : 1 - k / (k + mu) = mu / (k + mu)) by (field; lra).
  assert (Hq0 : 0 < mu / (k + mu)) by (apply Rdiv_lt_0_compat; lra).
  assert (HG1 : 0 < Gamma (INR n + k)) by (apply Gpos; lra).
  assert (HG2 : 0 < Gamma k) by (apply Gpos; lra).
  assert (HF := INR_fact_pos n).
  assert (HGF : 0 < Gamma k * INR (fact n)) by (apply Rmult_lt_0_compat; assumption).
  assert (Hfrac : 0 < Gamma (INR n + k) / (Gamma k * INR (fact n))) by (apply Rdiv_lt_0_compat; assumption).
  rewrite Hq.
  rewrite ln_mult; [| apply Rmult_lt_0_compat; [assumption | apply exp_pos] | now apply pow_lt].
  rewrite ln_mult; [| assumption | apply exp_pos].
  rewrite ln_Rpower, ln_pow' by assumption.
  rewrite (ln_div (Gamma _)) by assumption. rewrite ln_mult by assumption.
  rewrite !ln_div by lra. ring.
Qed.
End RefGamma.

(* normalise logarithms of products and quotients of positive numbers *)
Ltac norm_ln := repeat first [ rewrite ln_div by lra | rewrite ln_mult by lra | rewrite ln_Rinv by lra ]; rewrite ?ln_1.

Lemma Normal_single aw o : 0 < os o -> Normal_loss aw [o] = - ln (normal_pdf (wres aw o) 0 (os o)).
Proof.
  intros Hs. rewrite ln_normal_pdf by assumption. open_loss. assert (HPI := PI_RGT_0). norm_ln.
  destruct aw; field; lra.
Qed.

Section Kernels.
Variables Gamma lgamma : R -> R.
Variable plog : R -> R -> R.
Hypothesis HG : GammaSpec Gamma lgamma.
Hypothesis HP : PoisSpec plog.

Lemma Gamma_single aw o : 0 < oy o -> 0 < oyh o -> 0 < os o ->
  Gamma_loss lgamma aw [o] = - ln (gamma_pdf Gamma (oy o) (oyh o) (os o)).
Proof.
  intros Hy Hm Ha. destruct HG as (Gpos & Glg & _).
  rewrite (ln_gamma_pdf Gamma Gpos) by assumption. rewrite <- Glg by assumption.
  open_loss. norm_ln. field. lra.
Qed.

Lemma Poisson_single aw c : 0 < cyh c ->
  Poisson_loss plog aw [obs_of_count c] = - ln (pois_pmf (cn c) (cyh c)).
Proof. intros Hm. open_loss. rewrite HP by assumption. ring. Qed.

Lemma NegBinom_single aw c : 0 < cyh c -> 0 < cs c ->
  NegBinom_loss lgamma aw [obs_of_count c] = - ln (nb2_pmf Gamma (cn c) (cyh c) (cs c)).
Proof.
  intros Hm Hk. destruct HG as (Gpos & Glg & Gfact).
  assert (Hn : 0 <= INR (cn c)) by apply pos_INR.
  rewrite (ln_nb2_pmf Gamma Gpos) by assumption.
  rewrite <- (Gfact (cn c)). rewrite <- !Glg by lra.
  open_loss. norm_ln. rewrite ?(Rplus_comm (cs c) (INR (cn c))). field; lra.
Qed.
End Kernels.

(* ================================================================== derivatives *)
Ltac split_unweighted Hu := destruct Hu as [-> | ->]; [| match goal with aw : bool |- _ => destruct aw end].

Lemma Square_d1 aw o : unweighted aw (ow o) ->
  is_derive (fun m => Square_loss aw [with_yhat o m]) (oyh o) (Square_diff_loss aw (oy o) (ow o) (os o) (oyh o)).
Proof.
  destruct o as [y w s m0]; cbn [oy ow os oyh]. intros Hu. split_unweighted Hu; open_loss; auto_derive; trivial; ring.
Qed.
Lemma Square_d2 aw y w s m : unweighted aw w ->
  is_derive (fun m => Square_diff_loss aw y w s m) m (Square_diff2Loss aw y w s m).
Proof. intros Hu. split_unweighted Hu; open_loss; auto_derive; trivial; ring. Qed.

Lemma Normal_d1 aw o : 0 < os o -> unweighted aw (ow o) ->
  is_derive (fun m => Normal_loss aw [with_yhat o m]) (oyh o) (Normal_diff_loss aw (oy o) (ow o) (os o) (oyh o)).
Proof.
  destruct o as [y w s m0]; cbn [oy ow os oyh]. intros Hs Hu. split_unweighted Hu; open_loss; auto_derive; trivial; field; lra.
Qed.
Lemma Normal_d2 aw y w s m : 0 < s -> unweighted aw w ->
  is_derive (fun m => Normal_diff_loss aw y w s m) m (Normal_diff2Loss aw y w s m).
Proof. intros Hs Hu. split_unweighted Hu; open_loss; auto_derive; trivial; field; lra. Qed.

(* side conditions left by auto_derive: conjunctions of positivity / non-nullity of polynomials in positive variables *)
Ltac pos_side :=
  repeat split; trivial;
  try lra;
  try (apply Rgt_not_eq; unfold Rgt);
  try lra;
  repeat first [ apply Rmult_lt_0_compat | apply pow_lt | apply Rplus_lt_0_compat | apply Rinv_0_lt_compat | apply Rdiv_lt_0_compat ];
  try lra.

Section Derivs.
Variables lgamma : R -> R.
Variable plog : R -> R -> R.
Hypothesis HP : PoisSpec plog.

Lemma Gamma_d1 aw o : 0 < oyh o -> 0 < os o -> unweighted aw (ow o) ->
  is_derive (fun m => Gamma_loss lgamma aw [with_yhat o m]) (oyh o) (Gamma_diff_loss aw (oy o) (ow o) (os o) (oyh o)).
Proof.
  destruct o as [y w s m0]; cbn [oy ow os oyh]. intros Hm Hs Hu.
  split_unweighted Hu; open_loss; (auto_derive; [pos_side | field; lra]).
Qed.
Lemma Gamma_d2 aw y w s m : 0 < m -> unweighted aw w ->
  is_derive (fun m => Gamma_diff_loss aw y w s m) m (Gamma_diff2Loss aw y w s m).
Proof. intros Hm Hu. split_unweighted Hu; open_loss; (auto_derive; [pos_side | field; lra]). Qed.

Lemma NegBinom_d1 aw o : 0 < oyh o -> 0 < os o -> unweighted aw (ow o) ->
  is_derive (fun m => NegBinom_loss lgamma aw [with_yhat o m]) (oyh o) (NegBinom_diff_loss aw (oy o) (ow o) (os o) (oyh o)).
Proof.
  destruct o as [y w s m0]; cbn [oy ow os oyh]. intros Hm Hs Hu.
  split_unweighted Hu; open_loss; (auto_derive; [pos_side | field; lra]).
Qed.
Lemma NegBinom_d2 aw y w s m : 0 < m -> 0 < s -> unweighted aw w ->
  is_derive (fun m => NegBinom_diff_loss aw y w s m) m (NegBinom_diff2Loss aw y w s m).
Proof. intros Hm Hs Hu. split_unweighted Hu; open_loss; (auto_derive; [pos_side | field; lra]). Qed.

Lemma Poisson_d1 aw c : 0 < cyh c -> unweighted aw (cw c) ->
  is_derive (fun m => Poisson_loss plog aw [with_yhat (obs_of_count c) m]) (cyh c)
            (Poisson_diff_loss aw (INR (cn c)) (cw c) (cs c) (cyh c)).
Proof.
  destruct c as [n w s m0]; cbn [cn cw cs cyh]. intros Hm Hu.
  assert (E : forall t : R, 0 < t ->
            - (INR n * ln t - t - ln (INR (fact n))) = Poisson_loss plog aw [with_yhat (obs_of_count (mkcobs n w s m0)) t]).
  { intros t Ht. open_loss. rewrite HP, ln_pois_pmf by assumption. ring. }
  apply is_derive_ext_loc with (f := fun m => - (INR n * ln m - m - ln (INR (fact n)))).
  - apply locally_pos; [assumption | exact E].
  - split_unweighted Hu; open_loss; (auto_derive; [pos_side | field; lra]).
Qed.
Lemma Poisson_d2 aw y w s m : 0 < m -> unweighted aw w ->
  is_derive (fun m => Poisson_diff_loss aw y w s m) m (Poisson_diff2Loss aw y w s m).
Proof. intros Hm Hu. split_unweighted Hu; open_loss; (auto_derive; [pos_side | field; lra]). Qed.
End Derivs.

(* ================================================================== list-level statements (used by Props/C14.v) *)
Lemma Normal_nil aw : Normal_loss aw [] = 0. Proof. nil_tac. Qed.
Lemma Poisson_nil pl aw : Poisson_loss pl aw [] = 0. Proof. nil_tac. Qed.
Lemma NegBinom_nil lg aw : NegBinom_loss lg aw [] = 0. Proof. nil_tac. Qed.

Lemma square_sum aw l : Square_loss aw l = Rsum (map (fun o => (wres aw o) ^ 2) l).
Proof.
  rewrite <- (map_id l) at 1.
  apply (sum_of_additive (fun o => o) (Square_loss aw) (fun _ => True) (fun o => (wres aw o) ^ 2)).
  - apply Square_add. - apply Square_nil. - intros o _. apply Square_single.
  - apply List.Forall_forall. trivial.
Qed.

Lemma normal_nll_weighted aw l : List.Forall (fun o => 0 < os o) l ->
  Normal_loss aw l = - Rsum (map (fun o => ln (normal_pdf (wres aw o) 0 (os o))) l).
Proof.
  intros H. rewrite <- (map_id l) at 1.
  apply (nll_of_additive (fun o => o) (Normal_loss aw) (fun o => 0 < os o));
    [ apply Normal_add | apply Normal_nil | | exact H ].
  intros o Ho. now apply Normal_single.
Qed.

Lemma normal_pdf_shift x mu sigma : normal_pdf (x - mu) 0 sigma = normal_pdf x mu sigma.
Proof. unfold normal_pdf. do 3 f_equal. ring. Qed.

Lemma normal_nll aw l : List.Forall (fun o => 0 < os o /\ unweighted aw (ow o)) l ->
  Normal_loss aw l = - Rsum (map (fun o => ln (normal_pdf (oy o) (oyh o) (os o))) l).
Proof.
  intros H. rewrite <- (map_id l) at 1.
  apply (nll_of_additive (fun o => o) (Normal_loss aw) (fun o => 0 < os o /\ unweighted aw (ow o)));
    [ apply Normal_add | apply Normal_nil | | exact H ].
  intros o [Ho Hu]. rewrite Normal_single by assumption. rewrite <- (normal_pdf_shift (oy o) (oyh o)).
    replace (wres aw o) with (oy o - oyh o); [reflexivity |].
    unfold wres. destruct Hu as [-> | Hw]; [reflexivity | rewrite Hw; destruct aw; ring].
Qed.

Lemma gamma_nll Gamma lgamma : GammaSpec Gamma lgamma -> forall aw l,
  List.Forall (fun o => 0 < oy o /\ 0 < oyh o /\ 0 < os o) l ->
  Gamma_loss lgamma aw l = - Rsum (map (fun o => ln (gamma_pdf Gamma (oy o) (oyh o) (os o))) l).
Proof.
  intros HG aw l H. rewrite <- (map_id l) at 1.
  apply (nll_of_additive (fun o => o) (Gamma_loss lgamma aw) (fun o => 0 < oy o /\ 0 < oyh o /\ 0 < os o));
    [ apply Gamma_add | apply Gamma_nil | | exact H ].
  intros o (H1 & H2 & H3). now apply Gamma_single.
Qed.

Lemma poisson_nll plog : PoisSpec plog -> forall aw (l : list cobs),
  List.Forall (fun c => 0 < cyh c) l ->
  Poisson_loss plog aw (map obs_of_count l) = - Rsum (map (fun c => ln (pois_pmf (cn c) (cyh c))) l).
Proof.
  intros HP aw l H.
  apply (nll_of_additive obs_of_count (Poisson_loss plog aw) (fun c => 0 < cyh c));
    [ apply Poisson_add | apply Poisson_nil | | exact H ].
  intros c Hc. now apply Poisson_single.
Qed.

Lemma negbinom_nll Gamma lgamma : GammaSpec Gamma lgamma -> forall aw (l : list cobs),
  List.Forall (fun c => 0 < cyh c /\ 0 < cs c) l ->
  NegBinom_loss lgamma aw (map obs_of_count l) = - Rsum (map (fun c => ln (nb2_pmf Gamma (cn c) (cyh c) (cs c))) l).
Proof.
  intros HG aw l H.
  apply (nll_of_additive obs_of_count (NegBinom_loss lgamma aw) (fun c => 0 < cyh c /\ 0 < cs c));
    [ apply NegBinom_add | apply NegBinom_nil | | exact H ].
  intros c [H1 H2]. now apply (NegBinom_single Gamma).
Qed.

(* mean/size form == (size, probability) form, the parameterisation scipy and R use *)
Lemma nb2_is_nbinom Gamma n mu k : nb2_pmf Gamma n mu k = nbinom_pmf Gamma n k (k / (k + mu)).
Proof. reflexivity. Qed.

(* first derivatives: partial derivative of the whole loss w.r.t. the prediction of one observation *)
Lemma square_d1 aw pre post o : unweighted aw (ow o) ->
  is_derive (fun m => Square_loss aw (pre ++ with_yhat o m :: post)) (oyh o)
            (Square_diff_loss aw (oy o) (ow o) (os o) (oyh o)).
Proof. intros. apply (partial_of_additive (Square_loss aw)); [apply Square_add | now apply Square_d1]. Qed.

Lemma normal_d1 aw pre post o : 0 < os o -> unweighted aw (ow o) ->
  is_derive (fun m => Normal_loss aw (pre ++ with_yhat o m :: post)) (oyh o)
            (Normal_diff_loss aw (oy o) (ow o) (os o) (oyh o)).
Proof. intros. apply (partial_of_additive (Normal_loss aw)); [apply Normal_add | now apply Normal_d1]. Qed.

Lemma gamma_d1 lgamma aw pre post o : 0 < oyh o -> 0 < os o -> unweighted aw (ow o) ->
  is_derive (fun m => Gamma_loss lgamma aw (pre ++ with_yhat o m :: post)) (oyh o)
            (Gamma_diff_loss aw (oy o) (ow o) (os o) (oyh o)).
Proof. intros. apply (partial_of_additive (Gamma_loss lgamma aw)); [apply Gamma_add | now apply Gamma_d1]. Qed.

Lemma negbinom_d1 lgamma aw pre post o : 0 < oyh o -> 0 < os o -> unweighted aw (ow o) ->
  is_derive (fun m => NegBinom_loss lgamma aw (pre ++ with_yhat o m :: post)) (oyh o)
            (NegBinom_diff_loss aw (oy o) (ow o) (os o) (oyh o)).
Proof. intros. apply (partial_of_additive (NegBinom_loss lgamma aw)); [apply NegBinom_add | now apply NegBinom_d1]. Qed.

Lemma poisson_d1 plog : PoisSpec plog -> forall aw pre post c, 0 < cyh c -> unweighted aw (cw c) ->
  is_derive (fun m => Poisson_loss plog aw (pre ++ with_yhat (obs_of_count c) m :: post)) (cyh c)
            (Poisson_diff_loss aw (INR (cn c)) (cw c) (cs c) (cyh c)).
Proof.
  intros HP aw pre post c Hm Hu.
  apply (partial_of_additive (Poisson_loss plog aw) (Poisson_add plog aw) pre post (obs_of_count c)).
  now apply Poisson_d1.
Qed.

(* facts about the generated tables *)
Definition method_names : list string :=
  [ "Square.loss"; "Square.diff_loss"; "Square.diff2Loss"; "Normal.loss"; "Normal.diff_loss"; "Normal.diff2Loss";
    "Gamma.loss"; "Gamma.diff_loss"; "Gamma.diff2Loss"; "Poisson.loss"; "Poisson.diff_loss"; "Poisson.diff2Loss";
    "NegBinom.loss"; "NegBinom.diff_loss"; "NegBinom.diff2Loss" ]%string.

Lemma residual_spec aw y w s m : Baseloss_Type_residual aw y w s m = wres aw (mkobs y w s m).
Proof. reflexivity. Qed.
