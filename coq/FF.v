(* C20 — executable model of the forward-forward (second-order) sensitivity system of
   pygom.model.deterministic.DeterministicOde: forwardforward, eval_forwardforward, ode_and_forwardforward, with the
   ode_utils helpers vecToMatFF / matToVecFF / shapeAdjust.kronParam / kronState, over functional arrays (Shapes.v) and an
   arbitrary ring; and the TRUE right-hand side of the second-order sensitivities for abstract derivative tensors.

   Tensors (the first four are what the evaluators return, layouts as in Sens.v):
     f  : nS                 J  : nS x nS                G : nS x nP
     DJ : (nS*nS) x nS       row s*nS+i, col j   = d2 f_s / dx_i dx_j            (diff_jacobian)
     GJ : (nS*nP) x nS       row a*nS+s, col l   = d2 f_s / dtheta_a dx_l        (grad_jacobian; NOT read by the code)
     GG : (nS*nP) x nP       row s*nP+a, col b   = d2 f_s / dtheta_a dtheta_b    (no evaluator is read by the code)
   Vector layouts: z = x ++ sens ++ ff,  sens[a*nS + s] = dx_s/dtheta_a,  ff[(s*nP + a)*nP + b] = d2 x_s/dtheta_a dtheta_b. *)
From Coq Require Import List Arith Bool ZArith.
From PV Require Import Shapes Sens.
Import ListNotations.

Record fffacts := {
  ffv2m_order : order;          (* ode_utils.vecToMatFF : np.reshape(ff, (nS*nP, nP)) *)
  ffm2v_order : order;          (* ode_utils.matToVecFF : FF.ravel() *)
  kp_pre_default : bool;        (* shapeAdjust.kronParam(A, pre=False) default; eval_forwardforward calls kronParam(J) *)
  kp_eye_first_if_pre : bool;   (* kronParam : pre => kron(eye(p), A) else kron(A, eye(p)) *)
  ks_pre_arg : bool;            (* eval_forwardforward : kronState(A=S.T, pre=True) *)
  ks_eye_first_if_pre : bool;   (* kronState : pre => kron(eye(d), A) else kron(A, eye(d)) *)
  ks_transposed : bool          (* eval_forwardforward : the operand of kronState is S.T *)
}.
Definition good_fffacts : fffacts :=
  {| ffv2m_order := OrdC; ffm2v_order := OrdC; kp_pre_default := false; kp_eye_first_if_pre := true;
     ks_pre_arg := true; ks_eye_first_if_pre := true; ks_transposed := true |}.

Section FF.
  Variables (A : Type) (a0 a1 : A) (add mul : A -> A -> A).
  Notation vec := (vec A). Notation arr := (arr A).
  Notation dot := (dot A a0 add mul). Notation madd := (madd A add).
  Notation eye := (eye A a0 a1). Notation kron := (kron A mul). Notation sumn := (sumn A a0 add).

  Variable ffc : fffacts.
  Variable sfc : Sens.facts.      (* the facts of the first-order system (C13, Gen.SensGen) *)
  Variables nS nP : nat.

  (* v[a:b] *)
  Definition vslice (a b : nat) (v : vec) : vec := {| vlen := b - a; vget := fun k => vget v (a + k) |}.

  Definition vecToMatFF (ff : vec) : arr := reshape_vec (ffv2m_order ffc) ff (nS * nP) nP.
  Definition matToVecFF (FF : arr) : vec := ravel (ffm2v_order ffc) FF (nr FF * nc FF).
  (* shapeAdjust.kronParam(A, pre) / kronState(A, pre) *)
  Definition kronParam (X : arr) (pre : bool) : arr :=
    if Bool.eqb pre (kp_eye_first_if_pre ffc) then kron (eye nP) X else kron X (eye nP).
  Definition kronState (X : arr) (pre : bool) : arr :=
    if Bool.eqb pre (ks_eye_first_if_pre ffc) then kron (eye nS) X else kron X (eye nS).

  (* DeterministicOde.eval_forwardforward(FF, S, state, t):
       outFF  = kronParam(J).dot(FF)
       outFF += kronState(A=S.T, pre=True).dot(diffJ).dot(S)
       return matToVecFF(outFF) *)
  Definition eval_forwardforward (J DJ FFm S : arr) : vec :=
    let out1 := dot (kronParam J (kp_pre_default ffc)) FFm in
    let St := if ks_transposed ffc then transpose S else S in
    let out2 := dot (dot (kronState St (ks_pre_arg ffc)) DJ) S in
    matToVecFF (madd out1 out2).

  (* DeterministicOde.forwardforward(ff, t, state, s) *)
  Definition forwardforward (J DJ : arr) (ff s : vec) : vec :=
    eval_forwardforward J DJ (vecToMatFF ff) (Sens.vecToMatSens A sfc nS nP s).

  (* DeterministicOde.ode_and_forwardforward(state_param, t) *)
  Definition ode_and_forwardforward (f : vec) (J G DJ : arr) (z : vec) : vec :=
    let sens := vslice nS (nS * (nP + 1)) z in
    let ff := vdrop (nS * (nP + 1)) z in
    vapp (vapp f (Sens.sensitivity A a0 add mul sfc nS nP J G sens false)) (forwardforward J DJ ff sens).

  (* ---------------------------------------------------------------- specification side *)
  Definition S1 (z : vec) (s a : nat) : A := vget z (nS + a * nS + s).
  Definition S2 (z : vec) (s a b : nat) : A := vget z (nS + nS * nP + (s * nP + a) * nP + b).
  (* what the code integrates:  J F_ab + S_a' (d2f_s/dxdx) S_b *)
  Definition ff_code_rhs (J DJ : arr) (z : vec) (s a b : nat) : A :=
    add (sumn nS (fun l => mul (get J s l) (S2 z l a b)))
        (sumn nS (fun i => sumn nS (fun j => mul (mul (S1 z i a) (get DJ (s * nS + i) j)) (S1 z j b)))).
  (* d/dt (d2 x_s / dtheta_a dtheta_b): the total derivative with respect to theta_b of
       d/dt S[s][a] = sum_l J[s][l](x, theta) S[l][a] + G[s][a](x, theta),     d/dtheta_b = sum_j S[j][b] d/dx_j + d/dtheta_b :
       sum_l J[s][l] F[l][a][b]
     + sum_l (sum_j d2f_s/dx_l dx_j S[j][b] + d2f_s/dx_l dtheta_b) S[l][a]
     + sum_l d2f_s/dtheta_a dx_l S[l][b]  +  d2f_s/dtheta_a dtheta_b *)
  Definition ff_true_rhs (J DJ GJ GG : arr) (z : vec) (s a b : nat) : A :=
    add (add (add (sumn nS (fun l => mul (get J s l) (S2 z l a b)))
                  (sumn nS (fun l => mul (add (sumn nS (fun j => mul (get DJ (s * nS + l) j) (S1 z j b)))
                                              (get GJ (b * nS + s) l))
                                         (S1 z l a))))
             (sumn nS (fun l => mul (get GJ (a * nS + s) l) (S1 z l b))))
        (get GG (s * nP + a) b).
  (* the terms the code leaves out: (d2f_s/dx dtheta_b) S_a + (d2f_s/dx dtheta_a) S_b + d2f_s/dtheta_a dtheta_b *)
  Definition ff_mixed (GJ GG : arr) (z : vec) (s a b : nat) : A :=
    add (add (sumn nS (fun l => mul (get GJ (b * nS + s) l) (S1 z l a)))
             (sumn nS (fun l => mul (get GJ (a * nS + s) l) (S1 z l b))))
        (get GG (s * nP + a) b).
End FF.
