(* C02 — proofs about the model in Integrate.v *)
From Coq Require Import List Arith Bool String QArith Lia ZArith.
From PV Require Import Integrate.
Import ListNotations.
Open Scope nat_scope.

Lemma all_kinds_complete : forall k, In k all_kinds.
Proof. destruct k; simpl; auto 10. Qed.

Lemma ikind_eqb_eq a b : ikind_eqb a b = true -> a = b.
Proof. destruct a, b; simpl; congruence. Qed.

(* ------------------------------------------------------------------ the stepping loop *)
Section Loop.
  Variables vec time : Type.
  Variable Phi : time -> time -> vec -> vec.
  Hypothesis Phi_refl : forall t x, Phi t t x = x.
  Hypothesis Phi_trans : forall t0 t1 t2 x, Phi t1 t2 (Phi t0 t1 x) = Phi t0 t2 x.
  Variable SP : scipy_tbl.
  Variable F : step_facts.
  Variable x0 : vec.
  Variable t0 : time.
  Variable full : bool.
  Variable picks : nat -> ikind.
  Variable kind0 : ikind.
  Hypothesis Hsafe : step_safe SP F full kind0 = true.

  Notation integ := (integ time).
  Notation heap := (heap vec).

  Definition Inv (r : integ) (h : heap) (sol : list nat) : Prop :=
    buf time r < next h
    /\ (forall p, In p sol -> p < next h)
    /\ cell h (buf time r) = Phi t0 (t_cur time r) x0
    /\ (inplace SP (kind time r) = true -> ~ In (buf time r) sol)
    /\ (full && resetup_full F = false -> kind time r = kind0).

  Definition step (i : nat) (t : time) (r : integ) (h : heap) : nat * integ * heap :=
    let (r1, h1) := integrate_to vec time Phi SP r t h in
    let (o1, h2) := ret vec time (if full then ret_full F else ret_plain F) r1 h1 in
    let (r2, h3) := if full && resetup_full F then setup vec time SP (picks i) o1 t h2 else (r1, h2) in
    (o1, r2, h3).

  Lemma loop_cons i t rest r h sol :
    loop vec time Phi SP F full picks i (t :: rest) r h sol =
    let '(o1, r2, h3) := step i t r h in
    loop vec time Phi SP F full picks (S i) rest r2 h3 (sol ++ [o1]).
  Proof.
    unfold step; simpl.
    destruct (integrate_to vec time Phi SP r t h) as [r1 h1].
    destruct (ret vec time (if full then ret_full F else ret_plain F) r1 h1) as [o1 h2].
    destruct (if full && resetup_full F then setup vec time SP (picks i) o1 t h2 else (r1, h2)) as [r2 h3].
    reflexivity.
  Qed.

  Ltac eqbs :=
    repeat match goal with
           | |- context [Nat.eqb ?a ?b] => destruct (Nat.eqb_spec a b)
           end.

  Lemma not_inplace_all k :
    forallb (fun k => negb (inplace SP k)) all_kinds = true -> inplace SP k = false.
  Proof.
    intros H. rewrite forallb_forall in H. specialize (H k (all_kinds_complete k)).
    destruct (inplace SP k); simpl in *; congruence.
  Qed.

  (* r.integrate(t): the new buffer holds the state at t and is not a row of the solution *)
  Lemma integrate_to_spec r h sol t : Inv r h sol ->
    forall r1 h1, integrate_to vec time Phi SP r t h = (r1, h1) ->
    next h <= next h1 /\ buf time r1 < next h1
    /\ (forall p, In p sol -> cell h1 p = cell h p)
    /\ cell h1 (buf time r1) = Phi t0 t x0
    /\ kind time r1 = kind time r /\ t_cur time r1 = t
    /\ ~ In (buf time r1) sol.
  Proof.
    intros (Hb & Hs & Hv & Ha & Hk) r1 h1 E.
    assert (Hval : Phi (t_cur time r) t (cell h (buf time r)) = Phi t0 t x0)
      by (rewrite Hv; apply Phi_trans).
    unfold integrate_to in E. destruct (inplace SP (kind time r)) eqn:Eip.
    - inversion E; subst; clear E; simpl. specialize (Ha eq_refl).
      repeat split; auto.
      + intros p Hp. eqbs; auto. subst; contradiction.
      + eqbs; auto; lia.
    - unfold alloc in E. inversion E; subst; clear E; simpl.
      repeat split; auto.
      + intros p Hp. apply Hs in Hp. eqbs; auto; lia.
      + eqbs; auto; lia.
      + intros Hp. apply Hs in Hp. lia.
  Qed.

  Lemma ret_spec m (r1 : integ) (h1 : heap) : buf time r1 < next h1 ->
    forall o1 h2, ret vec time m r1 h1 = (o1, h2) ->
    next h1 <= next h2 /\ o1 < next h2
    /\ (forall p, p < next h1 -> cell h2 p = cell h1 p)
    /\ cell h2 o1 = cell h1 (buf time r1)
    /\ (if is_copy m then next h1 <= o1 else o1 = buf time r1).
  Proof.
    intros Hb o1 h2 E. destruct m; simpl in *.
    - inversion E; subst; auto 10.
    - inversion E; subst; clear E; simpl. repeat split; auto.
      + intros p Hp. eqbs; auto; lia.
      + eqbs; auto; lia.
  Qed.

  Lemma setup_spec k o1 t (h2 : heap) : o1 < next h2 ->
    forall r2 h3, setup vec time SP k o1 t h2 = (r2, h3) ->
    next h2 <= next h3 /\ buf time r2 < next h3
    /\ (forall p, p < next h2 -> cell h3 p = cell h2 p)
    /\ cell h3 (buf time r2) = cell h2 o1
    /\ kind time r2 = k /\ t_cur time r2 = t
    /\ (if setiv_copies SP then next h2 <= buf time r2 else buf time r2 = o1).
  Proof.
    intros Ho r2 h3 E. unfold setup in E. destruct (setiv_copies SP).
    - inversion E; subst; clear E; simpl. repeat split; auto.
      + intros p Hp. eqbs; auto; lia.
      + eqbs; auto; lia.
    - inversion E; subst; clear E; simpl. auto 10.
  Qed.

  Lemma step_inv i t r h sol : Inv r h sol ->
    forall o1 r2 h3, step i t r h = (o1, r2, h3) ->
    Inv r2 h3 (sol ++ [o1])
    /\ (forall p, In p sol -> cell h3 p = cell h p)
    /\ cell h3 o1 = Phi t0 t x0.
  Proof.
    intros HI o1 r2 h3 E.
    pose proof HI as (Hb & Hs & Hv & Ha & Hk).
    unfold step in E.
    destruct (integrate_to vec time Phi SP r t h) as [r1 h1] eqn:E1.
    destruct (integrate_to_spec r h sol t HI r1 h1 E1) as (N1 & B1 & P1 & V1 & K1 & T1 & NI1).
    destruct (ret vec time (if full then ret_full F else ret_plain F) r1 h1) as [o1' h2] eqn:E2.
    destruct (ret_spec _ r1 h1 B1 o1' h2 E2) as (N2 & O2 & P2 & V2 & C2).
    assert (Hsol1 : forall p, In p sol -> p < next h1) by (intros p Hp; apply Hs in Hp; lia).
    assert (Ho1 : ~ In o1' sol).
    { destruct (is_copy (if full then ret_full F else ret_plain F)).
      - intros Hp. apply Hsol1 in Hp. lia.
      - subst o1'. exact NI1. }
    unfold step_safe in Hsafe.
    destruct (full && resetup_full F) eqn:Efr.
    - (* a new integrator is built from (o1, t) *)
      apply andb_prop in Efr as [Ef Er]. rewrite Ef, Er in Hsafe.
      destruct (setup vec time SP (picks i) o1' t h2) as [r2' h3'] eqn:E3.
      destruct (setup_spec _ _ _ _ O2 r2' h3' E3) as (N3 & B3 & P3 & V3 & K3 & T3 & C3).
      inversion E; subst o1' r2' h3'; clear E.
      repeat split.
      + exact B3.
      + intros p Hp. apply in_app_or in Hp as [Hp | [<- | []]]; [apply Hsol1 in Hp |]; lia.
      + rewrite V3, V2, V1, T3. reflexivity.
      + rewrite K3. intros Hip Hp.
        destruct (setiv_copies SP).
        * apply in_app_or in Hp as [Hp | [Hp | []]]; [apply Hsol1 in Hp |]; lia.
        * simpl in Hsafe. rewrite (not_inplace_all _ Hsafe) in Hip. discriminate.
      + rewrite Ef, Er. discriminate.
      + intros p Hp. rewrite P3, P2 by (apply Hsol1 in Hp; lia). auto.
      + rewrite P3, V2, V1 by lia. reflexivity.
    - (* the same integrator goes on *)
      inversion E; subst o1' r2 h3; clear E.
      assert (Hk1 : kind time r1 = kind0) by (rewrite K1; apply Hk; reflexivity).
      repeat split.
      + lia.
      + intros p Hp. apply in_app_or in Hp as [Hp | [<- | []]]; [apply Hsol1 in Hp |]; lia.
      + rewrite P2, V1, T1 by lia. reflexivity.
      + rewrite Hk1. intros Hip Hp.
        apply in_app_or in Hp as [Hp | [Hp | []]]; [contradiction |].
        assert (Hc : is_copy (if full then ret_full F else ret_plain F) = true).
        { destruct full; simpl in Efr, Hsafe |- *.
          - rewrite Efr, Hip in Hsafe. simpl in Hsafe. rewrite orb_false_r in Hsafe. exact Hsafe.
          - rewrite Hip in Hsafe. simpl in Hsafe. rewrite orb_false_r in Hsafe. exact Hsafe. }
        rewrite Hc in C2. lia.
      + intros _. exact Hk1.
      + intros p Hp. rewrite P2 by (apply Hsol1 in Hp; lia). auto.
      + rewrite V2. exact V1.
  Qed.

  Lemma loop_rows : forall ts i r h sol, Inv r h sol ->
    read (loop vec time Phi SP F full picks i ts r h sol)
    = map (cell h) sol ++ map (fun t => Phi t0 t x0) ts.
  Proof.
    induction ts as [|t rest IH]; intros i r h sol HI.
    - simpl. unfold read; simpl. rewrite app_nil_r. reflexivity.
    - rewrite loop_cons. destruct (step i t r h) as [[o1 r2] h3] eqn:E.
      destruct (step_inv i t r h sol HI o1 r2 h3 E) as (HI' & Hpres & Hval).
      rewrite (IH (S i) r2 h3 (sol ++ [o1]) HI').
      rewrite map_app. simpl. rewrite Hval, <- app_assoc. simpl.
      f_equal. apply map_ext_in. exact Hpres.
  Qed.
End Loop.

(* ------------------------------------------------------------------ integrateFuncJac *)
Section FuncJac.
  Variables vec time : Type.
  Variable Phi : time -> time -> vec -> vec.
  Hypothesis Phi_refl : forall t x, Phi t t x = x.
  Hypothesis Phi_trans : forall t0 t1 t2 x, Phi t1 t2 (Phi t0 t1 x) = Phi t0 t2 x.
  Variable SP : scipy_tbl.
  Variable F : step_facts.

  Definition expected (origin : bool) (x0 : vec) (t0 : time) (ts : list time) : list vec :=
    (if origin then [x0] else []) ++ map (fun t => Phi t0 t x0) ts.

  Theorem funcjac_rows origin full kind0 :
    copy_or_fresh SP F origin full kind0 = true ->
    forall picks x0 t0 ts,
      read (run_funcjac vec time Phi SP F origin full kind0 picks x0 t0 ts) = expected origin x0 t0 ts.
  Proof.
    intros Hc picks x0 t0 ts. unfold copy_or_fresh in Hc. apply andb_prop in Hc as [Hstep Horig].
    unfold run_funcjac, expected, setup, origin_safe in *.
    destruct (setiv_copies SP) eqn:Esc; destruct origin; [destruct (origin_copy F) eqn:Eoc | | destruct (origin_copy F) eqn:Eoc | ];
      simpl in *;
      (rewrite (loop_rows vec time Phi Phi_trans SP F x0 t0 full picks kind0 Hstep); [reflexivity |]);
      unfold Inv; simpl; repeat split; auto; try lia;
      try (intros Hip [_ | []]; rewrite Hip in Horig; discriminate);
      try (intros p [<- | []]; lia);
      try (intros _ [H | []]; discriminate);
      try (intros p []);
      try (intros Hip; rewrite Hip in Horig; discriminate).
  Qed.

  Corollary funcjac_len origin full kind0 :
    copy_or_fresh SP F origin full kind0 = true ->
    forall picks x0 t0 ts,
      List.length (read (run_funcjac vec time Phi SP F origin full kind0 picks x0 t0 ts))
      = (if origin then 1 else 0) + List.length ts.
  Proof.
    intros Hc picks x0 t0 ts. rewrite (funcjac_rows _ _ _ Hc). unfold expected.
    rewrite app_length, map_length. destruct origin; reflexivity.
  Qed.

  (* ---------------------------------------------------------------- entry points *)
  Variable W : wrap_facts.
  Variable D : dispatch.

  Lemma kind0_reachable m full e0 : In (kind0_of D m full e0) (kinds_reachable D m full).
  Proof.
    unfold kind0_of, kinds_reachable. destruct m; [left; reflexivity |].
    destruct full; [apply all_kinds_complete | left; reflexivity].
  Qed.

  Lemma funcjac_entry m origin full : funcjac_ok SP F D m origin full = true ->
    forall e0 es x0 t0 ts,
      funcjac vec time Phi SP F D m origin full e0 es x0 t0 ts = expected origin x0 t0 ts.
  Proof.
    intros Hok e0 es x0 t0 ts. unfold funcjac, funcjac_ok in *.
    rewrite forallb_forall in Hok. apply funcjac_rows. apply Hok, kind0_reachable.
  Qed.

  Theorem entry_rows e : entry_ok SP F W D e = true ->
    forall e0 es x0 t0 ts,
      run_entry vec time Phi SP F W D e e0 es x0 t0 ts = expected (includes_origin e) x0 t0 ts.
  Proof.
    intros Hok e0 es x0 t0 ts. destruct e as [f | f | m f | m o f]; simpl in *.
    - unfold ode_time. rewrite Hok. unfold expected; simpl. rewrite Phi_refl. reflexivity.
    - unfold ode_time. rewrite Hok. unfold expected; simpl. rewrite Phi_refl. reflexivity.
    - apply andb_prop in Hok as [Hok Hfj]. apply andb_prop in Hok as [Hok Ho].
      apply andb_prop in Hok as [Hp Hs]. apply Nat.eqb_eq in Hs.
      unfold ode_time. rewrite Hp, Hs. simpl. rewrite (funcjac_entry _ _ _ Hfj). rewrite Ho. reflexivity.
    - apply funcjac_entry. exact Hok.
  Qed.

  Corollary entry_len e : entry_ok SP F W D e = true ->
    forall e0 es x0 t0 ts,
      List.length (run_entry vec time Phi SP F W D e e0 es x0 t0 ts)
      = (if includes_origin e then 1 else 0) + List.length ts.
  Proof.
    intros Hok e0 es x0 t0 ts. rewrite (entry_rows _ Hok). unfold expected.
    rewrite app_length, map_length. destruct (includes_origin e); reflexivity.
  Qed.

  Corollary entries_rows : forallb (entry_ok SP F W D) documented_entries = true ->
    forall e, In e documented_entries -> forall e0 es x0 t0 ts,
      run_entry vec time Phi SP F W D e e0 es x0 t0 ts = expected (includes_origin e) x0 t0 ts.
  Proof. intros H e He. rewrite forallb_forall in H. apply entry_rows. auto. Qed.
End FuncJac.

(* ------------------------------------------------------------------ whatever scipy overwrites in place *)
Definition tables_setiv_true : list scipy_tbl :=
  flat_map (fun a => flat_map (fun b => flat_map (fun c => flat_map (fun d => map (fun e =>
    {| ip_lsoda := a; ip_vode := b; ip_vodebdf := c; ip_dopri5 := d; ip_dop853 := e; setiv_copies := true |})
    bools) bools) bools) bools) bools.

Lemma tables_complete SP : setiv_copies SP = true -> In SP tables_setiv_true.
Proof.
  destruct SP as [a b c d e s]; simpl; intros ->.
  destruct a, b, c, d, e; vm_compute; auto 40.
Qed.

Definition entries_ok_any_inplace (F : step_facts) (W : wrap_facts) (D : dispatch) : bool :=
  forallb (fun SP => forallb (entry_ok SP F W D) documented_entries) tables_setiv_true.

Lemma any_inplace_sound F W D : entries_ok_any_inplace F W D = true ->
  forall SP, setiv_copies SP = true -> forallb (entry_ok SP F W D) documented_entries = true.
Proof.
  intros H SP Hs. unfold entries_ok_any_inplace in H. rewrite forallb_forall in H.
  apply H, tables_complete, Hs.
Qed.

(* ------------------------------------------------------------------ dispatch *)
Lemma eval_tree_in_leaves t maxE minE : In (eval_tree t maxE minE) (leaves t).
Proof.
  induction t as [s | v c k y IHy n IHn]; simpl; auto.
  destruct (cmp_eval c _ k); apply in_or_app; auto.
Qed.

Theorem dispatch_sound D : dispatch_ok D = true ->
  (forall m k, In (m, k) documented_dispatch -> setup_kind (d_table D) (d_default D) m = k)
  /\ (forall maxE minE, exists k, lookup (d_table D) (eval_tree (d_eig D) maxE minE) = Some k)
  /\ (exists k, lookup (d_table D) (d_plain_default D) = Some k).
Proof.
  unfold dispatch_ok. intros H. apply andb_prop in H as [H H3]. apply andb_prop in H as [H1 H2].
  rewrite forallb_forall in H1, H2. repeat split.
  - intros m k Hin. specialize (H1 _ Hin). simpl in H1. unfold setup_kind, option_kind_eqb in *.
    destruct (lookup (d_table D) m); [apply ikind_eqb_eq; exact H1 | discriminate].
  - intros maxE minE. specialize (H2 _ (eval_tree_in_leaves (d_eig D) maxE minE)).
    unfold configured in H2. destruct (lookup _ _) as [k|]; [eauto | discriminate].
  - unfold configured in H3. destruct (lookup _ _) as [k|]; [eauto | discriminate].
Qed.

(* ------------------------------------------------------------------ witnesses *)
Lemma tokPhi_refl : forall t x, tokPhi t t x = x.
Proof. intros; unfold tokPhi; lia. Qed.
Lemma tokPhi_trans : forall t0 t1 t2 x, tokPhi t1 t2 (tokPhi t0 t1 x) = tokPhi t0 t2 x.
Proof. intros; unfold tokPhi; lia. Qed.

(* scipy as measured (lsoda overwrites its buffer, set_initial_value copies) *)
Definition scipy_lsoda_inplace : scipy_tbl :=
  {| ip_lsoda := true; ip_vode := false; ip_vodebdf := false; ip_dopri5 := false; ip_dop853 := false;
     setiv_copies := true |}.
(* the stepping code before the repair: `return r.y` in both branches *)
Definition facts_alias : step_facts :=
  {| ret_plain := RetAlias; ret_full := RetAlias; resetup_full := true; origin_copy := false |}.
Definition facts_copy : step_facts :=
  {| ret_plain := RetCopy; ret_full := RetAlias; resetup_full := true; origin_copy := false |}.

Open Scope Z_scope.
(* two requested times: the un-copied lsoda buffer makes both rows the final state *)
Lemma alias_refuted :
  read (run_funcjac Z Z tokPhi scipy_lsoda_inplace facts_alias false false Lsoda (fun _ => Lsoda) 0 0 [1; 2])
  = [2; 2]
  /\ read (run_funcjac Z Z tokPhi scipy_lsoda_inplace facts_alias false false Lsoda (fun _ => Lsoda) 0 0 [1; 2])
     <> expected Z Z tokPhi false 0 0 [1; 2].
Proof. split; [vm_compute; reflexivity | vm_compute; discriminate]. Qed.

(* the hypotheses of funcjac_rows are satisfiable on the non-trivial in-place configuration *)
Example copy_or_fresh_example :
  copy_or_fresh scipy_lsoda_inplace facts_copy true false Lsoda = true
  /\ read (run_funcjac Z Z tokPhi scipy_lsoda_inplace facts_copy true false Lsoda (fun _ => Lsoda) 0 0 [1; 2; 3])
     = [0; 1; 2; 3].
Proof. split; vm_compute; reflexivity. Qed.

Lemma container_none_refuted : container_of None 1 1 = Vec1D.
Proof. reflexivity. Qed.
