(* C14 — loss kernels: observation records, sums, reference densities (textbook parameterisation) and a
   small executable model of numpy result shapes.  Definitions only; proofs are in LossProofs.v.
   The generated file Gen/LossGen.v (from loss_type.py and utilR/distn.py) imports this file. *)
From Coq Require Import Reals List Bool Arith String.
Import ListNotations.
Open Scope R_scope.

(* ------------------------------------------------------------------ observations *)
(* one entry of the (elementwise) arrays: observation y, weight w, spread parameter s (sigma, shape or k),
   prediction yhat.  A scalar spread is the constant array (what the constructors build). *)
Record obs := mkobs { oy : R; ow : R; os : R; oyh : R }.
Definition with_yhat (o : obs) (m : R) : obs := mkobs (oy o) (ow o) (os o) m.

Fixpoint Rsum (l : list R) : R := match l with [] => 0 | x :: r => x + Rsum r end.

(* weighted / raw residual, as the property text understands it *)
Definition wres (aw : bool) (o : obs) : R := if aw then (oy o - oyh o) * ow o else oy o - oyh o.
(* "unweighted": weighting switched off, or unit weight *)
Definition unweighted (aw : bool) (w : R) : Prop := aw = false \/ w = 1.

(* ------------------------------------------------------------------ reference densities *)
(* Normal(mean mu, standard deviation sigma) *)
Definition normal_pdf (x mu sigma : R) : R :=
  1 / (sqrt (2 * PI) * sigma) * exp (- (x - mu) ^ 2 / (2 * sigma ^ 2)).

(* Poisson(mean mu) at the count n *)
Definition pois_pmf (n : nat) (mu : R) : R := mu ^ n * exp (- mu) / INR (fact n).

Section WithGamma.
  Variable Gamma : R -> R.         (* Euler's Gamma function: a Section variable, see LossProofs.GammaSpec *)

  (* Gamma distribution with shape a and scale theta, then re-parameterised by its mean mu = a * theta *)
  Definition gamma_pdf_scale (x a theta : R) : R :=
    Rpower x (a - 1) * exp (- x / theta) / (Gamma a * Rpower theta a).
  Definition gamma_pdf (x mu a : R) : R := gamma_pdf_scale x a (mu / a).

  (* Negative binomial (size r, success probability p) at the count n, then mean/size form p = k/(k+mu) *)
  Definition nbinom_pmf (n : nat) (r p : R) : R :=
    Gamma (INR n + r) / (Gamma r * INR (fact n)) * Rpower p r * (1 - p) ^ n.
  Definition nb2_pmf (n : nat) (mu k : R) : R := nbinom_pmf n k (k / (k + mu)).
End WithGamma.

(* ------------------------------------------------------------------ contracts of the external engines *)
(* scipy.special.gammaln is ln o Gamma on the positive axis, Gamma is positive there and interpolates the
   factorial.  Used as hypotheses of theorems, never as axioms; validated numerically against mpmath on each run. *)
Definition GammaSpec (Gamma lgamma : R -> R) : Prop :=
  (forall x, 0 < x -> 0 < Gamma x) /\
  (forall x, 0 < x -> lgamma x = ln (Gamma x)) /\
  (forall n : nat, Gamma (INR n + 1) = INR (fact n)).

(* scipy.stats.poisson.logpmf(k, mu) is the log of the Poisson mass function at counts k, for mu > 0 *)
Definition PoisSpec (poisson_logpmf : R -> R -> R) : Prop :=
  forall (n : nat) (mu : R), 0 < mu -> poisson_logpmf (INR n) mu = ln (pois_pmf n mu).

(* count data: observation n : nat enters the arrays as the real INR n *)
Record cobs := mkcobs { cn : nat; cw : R; cs : R; cyh : R }.
Definition obs_of_count (c : cobs) : obs := mkobs (INR (cn c)) (cw c) (cs c) (cyh c).

(* ------------------------------------------------------------------ numpy result shapes (executable) *)
Inductive shape := Scalar | Vec (n : nat) | Mat (r c : nat).

Definition shape_eqb (a b : shape) : bool :=
  match a, b with
  | Scalar, Scalar => true
  | Vec n, Vec m => Nat.eqb n m
  | Mat r c, Mat r' c' => Nat.eqb r r' && Nat.eqb c c'
  | _, _ => false
  end.

(* one dimension of numpy broadcasting *)
Definition bdim (a b : nat) : option nat :=
  if Nat.eqb a b then Some a else if Nat.eqb a 1 then Some b else if Nat.eqb b 1 then Some a else None.

Definition bcast (a b : shape) : option shape :=
  match a, b with
  | Scalar, x | x, Scalar => Some x
  | Vec n, Vec m => match bdim n m with Some k => Some (Vec k) | None => None end
  | Vec n, Mat r c | Mat r c, Vec n =>
      match bdim n c with Some k => Some (Mat r k) | None => None end
  | Mat r c, Mat r' c' =>
      match bdim r r', bdim c c' with Some a, Some b => Some (Mat a b) | _, _ => None end
  end.

(* `if len(x.shape) > 1: if 1 in x.shape: x = x.ravel()` *)
Definition squeeze1 (s : shape) : shape :=
  match s with
  | Mat r c => if Nat.eqb r 1 || Nat.eqb c 1 then Vec (r * c) else s
  | _ => s
  end.

(* shape expressions extracted from the method bodies *)
Inductive shexpr :=
| ShScalar                       (* python scalar / numpy 0-d *)
| ShY                            (* self._y, self._w, the spread array: all of y's shape *)
| ShYhat                         (* the argument yhat as passed *)
| ShSq (a : shexpr)              (* a.ravel() applied only when a is 2-D with a dimension of 1 *)
| ShBin (a b : shexpr)           (* elementwise binary operation (numpy broadcasting) *)
| ShSum (a : shexpr).            (* .sum() *)

Definition obind {A B} (o : option A) (f : A -> option B) : option B :=
  match o with Some a => f a | None => None end.

Fixpoint sh_eval (e : shexpr) (ysh yh : shape) : option shape :=
  match e with
  | ShScalar => Some Scalar
  | ShY => Some ysh
  | ShYhat => Some yh
  | ShSq a => obind (sh_eval a ysh yh) (fun s => Some (squeeze1 s))
  | ShBin a b => obind (sh_eval a ysh yh) (fun s => obind (sh_eval b ysh yh) (fun t => bcast s t))
  | ShSum a => obind (sh_eval a ysh yh) (fun _ => Some Scalar)
  end.

(* sufficient syntactic condition for "a single-column yhat gives what the vector yhat gives":
   yhat is never used before the ravel-if-one-column normalisation *)
Fixpoint col_safe (e : shexpr) : bool :=
  match e with
  | ShYhat => false
  | ShSq a => match a with ShYhat => true | _ => col_safe a end
  | ShBin a b => col_safe a && col_safe b
  | ShSum a => col_safe a
  | _ => true
  end.

(* is the result an array (true) or a scalar (false)? *)
Fixpoint res_array (e : shexpr) : bool :=
  match e with
  | ShScalar => false
  | ShY | ShYhat => true
  | ShSq a => res_array a
  | ShBin a b => res_array a || res_array b
  | ShSum _ => false
  end.

(* what the property expects of a method: a loss is a scalar; a derivative has one entry per prediction *)
Definition expected_shape (is_loss : bool) (ysh : shape) : shape := if is_loss then Scalar else ysh.

(* a method entry of the generated table: name, is_loss, shape expression *)
Definition mentry := (string * bool * shexpr)%type.
Definition me_shape (m : mentry) : shexpr := snd m.
Definition me_loss (m : mentry) : bool := snd (fst m).
Definition me_ok (m : mentry) : bool := Bool.eqb (res_array (me_shape m)) (negb (me_loss m)).
Definition me_ok_col (m : mentry) : bool := me_ok m && col_safe (me_shape m).

(* correspondence cases: shapes are coded (0,0,0)=scalar, (1,n,0)=vector, (2,r,c)=matrix, (3,0,0)=error *)
Definition decode (t : nat * nat * nat) : option shape :=
  let '(k, a, b) := t in
  match k with 0 => Some Scalar | 1 => Some (Vec a) | 2 => Some (Mat a b) | _ => None end.
Definition oshape_eq (a b : option shape) : bool :=
  match a, b with Some s, Some t => shape_eqb s t | None, None => true | _, _ => false end.
Fixpoint lookup (tbl : list mentry) (name : string) : option shexpr :=
  match tbl with
  | [] => None
  | (n, _, e) :: r => if String.eqb n name then Some e else lookup r name
  end.
Definition shape_case_ok (tbl : list mentry) (c : string * (nat * nat * nat) * (nat * nat * nat) * (nat * nat * nat)) : bool :=
  let '(name, ysh, yh, out) := c in
  match lookup tbl name, decode ysh, decode yh with
  | Some e, Some a, Some b => oshape_eq (sh_eval e a b) (decode out)
  | _, _, _ => false
  end.
