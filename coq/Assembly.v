(* C01 / C10 / C12 — assembly of a compartmental model into its equations.
   Generic commutative ring A: rates, magnitudes and explicit-ODE terms enter as VALUES (the assembly code
   never looks inside them: rate_of_change = magnitude*rate), so every theorem holds identically in states,
   parameters and time, and the same definitions run in Qc for the correspondence check. *)
From Coq Require Import List Arith Bool Lia Ring Permutation Sorting.Mergesort.
Import ListNotations.

Inductive ttype := B | D | T.
Definition ty_eqb a b := match a, b with B, B | D, D | T, T => true | _, _ => false end.

Section Asm.
  Variables (A : Type) (a0 a1 : A) (add mul sub : A -> A -> A) (opp : A -> A).

  Record transition := { ty : ttype; orig : nat; dest : nat; mag : A }.
  Record event := { rate : A; trans : list transition }.
  Record model := { nS : nat; events : list event; odes : list (nat * A) }.

  Definition sum (l : list A) : A := fold_right add a0 l.
  Definition ind (b : bool) : A := if b then a1 else a0.
  Definition indexed {X} (l : list X) : list (nat * X) := combine (seq 0 (length l)) l.

  (* ---------------- canonical specification ---------------- *)
  (* net signed effect of a transition on state i: +1 at a B/T destination, -1 at a D/T origin *)
  Definition sgn (tr : transition) (i : nat) : A :=
    match ty tr with
    | B => ind (dest tr =? i)
    | D => opp (ind (orig tr =? i))
    | T => sub (ind (dest tr =? i)) (ind (orig tr =? i))
    end.
  Definition net (e : event) (i : nat) : A := sum (map (fun tr => mul (sgn tr i) (mag tr)) (trans e)).
  Definition vmat (m : model) (i j : nat) : A :=
    match nth_error (events m) j with Some e => net e i | None => a0 end.
  Definition rate_vec (m : model) (j : nat) : A :=
    match nth_error (events m) j with Some e => rate e | None => a0 end.
  Definition pure_vec (m : model) (i : nat) : A :=
    sum (map (fun oe => mul (ind (fst oe =? i)) (snd oe)) (odes m)).
  Definition ev_part (evs : list event) (i : nat) : A :=
    sum (map (fun e => sum (map (fun tr => mul (sgn tr i) (mul (mag tr) (rate e))) (trans e))) evs).
  Definition ode_vec (m : model) (i : nat) : A := add (ev_part (events m) i) (pure_vec m i).

  (* ---------------- table language (what the translator emits) ---------------- *)
  Inductive rowsel := Orig | Dest.
  Inductive colsel := CNone | CEv.            (* vector accumulator / column = event index *)
  Inductive opk := OAdd | OSub.
  Inductive valsel := VMagRate | VMag | VRate | VOne.
  Record entry := { e_ty : ttype; e_acc : nat; e_row : rowsel; e_col : colsel; e_op : opk; e_val : valsel }.

  Definition row_of r tr := match r with Orig => orig tr | Dest => dest tr end.
  Definition col_of c (j : nat) := match c with CNone => 0 | CEv => j end.
  Definition val_of v (e : event) tr : A :=
    match v with VMagRate => mul (mag tr) (rate e) | VMag => mag tr | VRate => rate e | VOne => a1 end.
  Definition signed o (x : A) := match o with OAdd => x | OSub => opp x end.

  (* imperative semantics: accumulators acc-id -> row -> col -> A, updated in loop order *)
  Definition accs := nat -> nat -> nat -> A.
  Definition zero_accs : accs := fun _ _ _ => a0.
  Definition upd (s : accs) (a i c : nat) (v : A) : accs :=
    fun a' i' c' => if (a =? a') && (i =? i') && (c =? c') then add (s a' i' c') v else s a' i' c'.
  Definition exec_entry (je : nat * event) (tr : transition) (s : accs) (en : entry) : accs :=
    if ty_eqb (e_ty en) (ty tr)
    then upd s (e_acc en) (row_of (e_row en) tr) (col_of (e_col en) (fst je))
             (signed (e_op en) (val_of (e_val en) (snd je) tr))
    else s.
  Definition exec_trans (tb : list entry) (je : nat * event) (s : accs) (tr : transition) : accs :=
    fold_left (exec_entry je tr) tb s.
  Definition exec_event (tb : list entry) (s : accs) (je : nat * event) : accs :=
    fold_left (exec_trans tb je) (trans (snd je)) s.
  Definition run (tb : list entry) (evs : list event) : accs :=
    fold_left (exec_event tb) (indexed evs) zero_accs.
  Definition result (tb : list entry) (res : list nat) (evs : list event) (i c : nat) : A :=
    sum (map (fun a => run tb evs a i c) res).

  (* explicit-ODE scope: `for ode in ode_list: acc[index(ode.origin)] += eqn` *)
  Definition run_ode (os : list (nat * A)) : nat -> A :=
    fold_left (fun (s : nat -> A) (oe : nat * A) => fun i => if fst oe =? i then add (s i) (snd oe) else s i)
              os (fun _ => a0).
  (* event scope with assignment: `for i, event in enumerate(event_list): acc[i] = rate` *)
  Definition run_rate (evs : list event) : nat -> A :=
    fold_left (fun (s : nat -> A) (je : nat * event) => fun k => if fst je =? k then rate (snd je) else s k)
              (indexed evs) (fun _ => a0).

  (* ---------------- reflection: boolean check of an extracted table ---------------- *)
  Definition code (en : entry) : nat :=
    (match e_ty en with B => 0 | D => 1 | T => 2 end) * 32 +
    (match e_col en with CNone => 0 | CEv => 1 end) * 16 +
    (match e_row en with Orig => 0 | Dest => 1 end) * 8 +
    (match e_op en with OAdd => 0 | OSub => 1 end) * 4 +
    (match e_val en with VMagRate => 0 | VMag => 1 | VRate => 2 | VOne => 3 end).
  Definition mem (a : nat) (l : list nat) := existsb (Nat.eqb a) l.
  Fixpoint nodupb (l : list nat) := match l with [] => true | x :: xs => negb (mem x xs) && nodupb xs end.

  (* explicit-ODE scope, table form: entries (accumulator, op code, value code) executed for every ODE term:
     `acc[index(ode.origin)] op= value`, op 0 = +=, 1 = -=; value 4 = the ODE's equation, 3 = 1 *)
  Definition oentry := (nat * nat * nat)%type.
  Definition oval (v : nat) (oe : nat * A) : A := match v with 4 => snd oe | 3 => a1 | _ => a0 end.
  Definition osigned (o : nat) (x : A) : A := match o with 0 => x | 1 => opp x | _ => a0 end.
  Definition exec_oentry (oe : nat * A) (s : accs) (en : oentry) : accs :=
    let '(a, o, v) := en in upd s a (fst oe) 0 (osigned o (oval v oe)).
  Definition run_oscope (sc : list oentry) (os : list (nat * A)) : accs :=
    fold_left (fun s oe => fold_left (exec_oentry oe) sc s) os zero_accs.
  Definition oresult (sc : list oentry) (res : list nat) (os : list (nat * A)) (i : nat) : A :=
    sum (map (fun a => run_oscope sc os a i 0) res).
  Definition oscope_ok (sc : list oentry) (res : list nat) : bool :=
    nodupb res && match filter (fun en => mem (fst (fst en)) res) sc with
                  | [(_, 0, 4)] => true | _ => false end.
  (* event scope with assignment: exactly `acc[i] = rate` into the returned accumulator *)
  Definition rate_scope_ok (sc : list oentry) (res : list nat) : bool :=
    match sc, res with [(a, 2, 2)], [r] => a =? r | _, _ => false end.

  (* the whole of get_ode_eqn as extracted: transition-scope table + ODE-scope table, summed over the result accumulators *)
  Definition code_ode (tb : list entry) (sc : list oentry) (res : list nat) (m : model) (i : nat) : A :=
    add (result tb res (events m) i 0) (oresult sc res (odes m) i).

  Definition canon (c : colsel) (v : valsel) : list entry :=
    [ {| e_ty := B; e_acc := 0; e_row := Dest; e_col := c; e_op := OAdd; e_val := v |};
      {| e_ty := D; e_acc := 0; e_row := Orig; e_col := c; e_op := OSub; e_val := v |};
      {| e_ty := T; e_acc := 0; e_row := Orig; e_col := c; e_op := OSub; e_val := v |};
      {| e_ty := T; e_acc := 0; e_row := Dest; e_col := c; e_op := OAdd; e_val := v |} ].
  Definition norm (tb : list entry) := NatSort.sort (map code tb).
  Fixpoint nat_list_eqb (l1 l2 : list nat) := match l1, l2 with
     | [], [] => true | x :: xs, y :: ys => (x =? y) && nat_list_eqb xs ys | _, _ => false end.
  Definition table_ok (c : colsel) (v : valsel) (tb : list entry) (res : list nat) : bool :=
    nodupb res && nat_list_eqb (norm (filter (fun en => mem (e_acc en) res) tb)) (norm (canon c v)).
  (* get_ode_eqn: vector accumulators fed with magnitude*rate; get_StateChangeMatrix: column = event, value = magnitude *)
  Definition ode_table_ok := table_ok CNone VMagRate.
  Definition vmat_table_ok := table_ok CEv VMag.
End Asm.

Arguments ty {A} _. Arguments orig {A} _. Arguments dest {A} _. Arguments mag {A} _.
Arguments rate {A} _. Arguments trans {A} _.
Arguments nS {A} _. Arguments events {A} _. Arguments odes {A} _.
