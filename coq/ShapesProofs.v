(* index arithmetic and summation lemmas used by the entry-wise proofs about Shapes.v *)
From Coq Require Import List Arith Lia Ring.
From PV Require Import Shapes.
Import ListNotations.

Lemma div_lin n i j : i < n -> (j * n + i) / n = j.
Proof. intros H. rewrite Nat.div_add_l by lia. rewrite Nat.div_small by lia. lia. Qed.
Lemma mod_lin n i j : i < n -> (j * n + i) mod n = i.
Proof. intros H. rewrite Nat.add_comm, Nat.mod_add by lia. apply Nat.mod_small; lia. Qed.
Lemma div_lin' n i j : i < n -> (i + j * n) / n = j.
Proof. intros H. rewrite Nat.add_comm. apply div_lin; auto. Qed.
Lemma mod_lin' n i j : i < n -> (i + j * n) mod n = i.
Proof. intros H. rewrite Nat.add_comm. apply mod_lin; auto. Qed.
Lemma ltb_add_false a b : (a + b <? a) = false.
Proof. apply Nat.ltb_ge. lia. Qed.
Lemma add_sub_l a b : a + b - a = b.
Proof. lia. Qed.

Section SumLemmas.
  Variables (A : Type) (a0 a1 : A) (add mul sub : A -> A -> A) (opp : A -> A).
  Hypothesis Rth : ring_theory a0 a1 add mul sub opp (@eq A).
  Add Ring Aring : Rth.
  Notation sumn := (sumn A a0 add).

  Lemma sumn_ext n (f g : nat -> A) : (forall k, k < n -> f k = g k) -> sumn n f = sumn n g.
  Proof.
    intros H. unfold Shapes.sumn. f_equal. apply map_ext_in. intros k Hk. apply in_seq in Hk. apply H. lia.
  Qed.
  Lemma mul_1_l x : mul a1 x = x. Proof. ring. Qed.
  Lemma mul_0_l x : mul a0 x = a0. Proof. ring. Qed.
  Lemma add_comm' x y : add x y = add y x. Proof. ring. Qed.
End SumLemmas.
