(* helpers for the correspondence case files: boolean list equality, indices of failing cases *)
From Coq Require Import List Arith ZArith Bool.
Import ListNotations.

Fixpoint list_eqb {X} (e : X -> X -> bool) (a b : list X) : bool :=
  match a, b with
  | [], [] => true
  | x :: r, y :: s => e x y && list_eqb e r s
  | _, _ => false
  end.
Lemma list_eqb_eq {X} (e : X -> X -> bool) : (forall x y, e x y = true -> x = y) ->
  forall a b, list_eqb e a b = true -> a = b.
Proof. intros He a; induction a as [|x r IH]; destruct b as [|y s]; simpl; try discriminate; auto.
  intros H. apply andb_prop in H as [H1 H2]. f_equal; auto. Qed.

Fixpoint failing_from {X} (f : X -> bool) (l : list X) (i : nat) : list nat :=
  match l with [] => [] | x :: r => if f x then failing_from f r (S i) else i :: failing_from f r (S i) end.
Definition failing {X} (f : X -> bool) (l : list X) : list nat := failing_from f l 0.

Definition zlist_eqb := list_eqb Z.eqb.
Definition natlist_eqb := list_eqb Nat.eqb.

Fixpoint list_eqb2 {X Y} (e : X -> Y -> bool) (a : list X) (b : list Y) : bool :=
  match a, b with
  | [], [] => true
  | x :: r, y :: s => e x y && list_eqb2 e r s
  | _, _ => false
  end.
