(* C16 — seeded serial simulations are reproducible: executable model.

   Random generators are deterministic functions  request -> state -> value * state.
   A simulation is an arbitrary deterministic function of the values it draws: the number, the order
   and the requests (distribution + parameters) of later draws may depend on the values of earlier ones.
   Two presentations are given:
     * [proc]    — resumption trees  Ret out | Draw source request (value -> proc)   (terminating runs),
     * machines  — a step function  st -> out + (source * request * (value -> st))  run with fuel
                   (covers runs that need not terminate).
   Every draw site carries the random source it uses (extracted from the code by gen/gen_sources.py):
     Global        numpy's process-wide legacy generator (what np.random.seed seeds),
     SeededFrom a  a private generator built from the argument named a,
     FreshEntropy  a generator seeded from OS entropy / the clock (RandomState(), default_rng(), ...).
   The world is (g : global generator state, e : state of the outside entropy source).              *)
From Coq Require Import List Arith Bool String QArith Qcanon.
Import ListNotations.

Inductive source := Global | SeededFrom (arg : string) | FreshEntropy.
Definition is_global (s : source) : bool := match s with Global => true | _ => false end.
Definition is_fresh (s : source) : bool := match s with FreshEntropy => true | _ => false end.
Definition source_eqb (a b : source) : bool :=
  match a, b with
  | Global, Global | FreshEntropy, FreshEntropy => true
  | SeededFrom x, SeededFrom y => String.eqb x y
  | _, _ => false
  end.

Section Run.
  Variables G E Q V : Type.
  (* G: generator state; E: outside entropy; Q: request (which distribution, which parameters); V: drawn value *)
  Variable gen : Q -> G -> V * G.         (* the sampler, on any generator state *)
  Variable seeded : string -> G.          (* the private generator state built from the named argument *)
  Variable fresh : E -> G * E.            (* a generator state taken from the outside entropy source *)

  Inductive proc (O : Type) : Type :=
  | Ret (o : O)
  | Draw (s : source) (q : Q) (k : V -> proc O).
  Arguments Ret {O} o.
  Arguments Draw {O} s q k.

  Fixpoint run {O} (p : proc O) (g : G) (e : E) : O * G * E :=
    match p with
    | Ret o => (o, g, e)
    | Draw Global q k => let '(v, g') := gen q g in run (k v) g' e
    | Draw (SeededFrom a) q k => let '(v, _) := gen q (seeded a) in run (k v) g e
    | Draw FreshEntropy q k => let '(g0, e') := fresh e in let '(v, _) := gen q g0 in run (k v) g e'
    end.

  (* what a run is when every draw goes to the global generator: a function of (program, g) only *)
  Fixpoint run_global {O} (p : proc O) (g : G) : O * G :=
    match p with
    | Ret o => (o, g)
    | Draw _ q k => let '(v, g') := gen q g in run_global (k v) g'
    end.

  (* every draw site reachable in p satisfies P *)
  Inductive uses (P : source -> Prop) {O} : proc O -> Prop :=
  | uses_ret o : uses P (Ret o)
  | uses_draw s q k : P s -> (forall v, uses P (k v)) -> uses P (Draw s q k).

  Definition uses_tbl (tbl : list source) {O} (p : proc O) := uses (fun s => In s tbl) p.

  (* sequencing, repeated runs (solve_stochast / simulate_param iterate the single run serially) *)
  Fixpoint bind {A B} (p : proc A) (f : A -> proc B) : proc B :=
    match p with
    | Ret a => f a
    | Draw s q k => Draw s q (fun v => bind (k v) f)
    end.
  Fixpoint runs {O} (n : nat) (p : proc O) : proc (list O) :=
    match n with
    | O => Ret []
    | S m => bind p (fun o => bind (runs m p) (fun l => Ret (o :: l)))
    end.

  (* number of draws consumed from the global generator on a run from g *)
  Fixpoint ndraws {O} (p : proc O) (g : G) : nat :=
    match p with
    | Ret _ => 0
    | Draw _ q k => let '(v, g') := gen q g in S (ndraws (k v) g')
    end.

  (* --- machines with fuel *)
  Variables St Out : Type.
  Variable step : St -> Out + (source * Q * (V -> St)).
  Fixpoint mrun (fuel : nat) (s : St) (g : G) (e : E) : option (Out * G * E) :=
    match fuel with
    | O => None
    | S f =>
      match step s with
      | inl o => Some (o, g, e)
      | inr (Global, q, k) => let '(v, g') := gen q g in mrun f (k v) g' e
      | inr (SeededFrom a, q, k) => let '(v, _) := gen q (seeded a) in mrun f (k v) g e
      | inr (FreshEntropy, q, k) => let '(g0, e') := fresh e in let '(v, _) := gen q g0 in mrun f (k v) g e'
      end
    end.
  Fixpoint mrun_global (fuel : nat) (s : St) (g : G) : option (Out * G) :=
    match fuel with
    | O => None
    | S f =>
      match step s with
      | inl o => Some (o, g)
      | inr (_, q, k) => let '(v, g') := gen q g in mrun_global f (k v) g'
      end
    end.
End Run.

Arguments Ret {Q V O} o.
Arguments Draw {Q V O} s q k.
Arguments run {G E Q V} gen seeded fresh {O} p g e.
Arguments run_global {G Q V} gen {O} p g.
Arguments uses {Q V} P {O} p.
Arguments uses_tbl {Q V} tbl {O} p.
Arguments bind {Q V A B} p f.
Arguments runs {Q V O} n p.
Arguments ndraws {G Q V} gen {O} p g.
Arguments mrun {G E Q V} gen seeded fresh {St Out} step fuel s g e.
Arguments mrun_global {G Q V} gen {St Out} step fuel s g.

(* ------------------------------------------------------------------------------------------------
   The reported mean trajectory of simulate_param / solve_determ.  A run is the flattened (row-major)
   trajectory; [mean_form] is how the code computes the reported mean (extracted).                  *)
Inductive mean_form :=
| MeanStackRunsAxis      (* stack the returned runs along a new axis and take .mean over that axis:
                            per entry, the sum over the stacked runs divided by their number *)
| RunningSumDivIter      (* acc = 0; for each run: acc += run; acc / iteration *)
| SumDivLen              (* sum(runs) / len(runs) *)
| MeanUnknown.

Local Open Scope Qc_scope.
Definition qn (n : nat) : Qc := Q2Qc (inject_Z (Z.of_nat n)).
Definition qsum (l : list Qc) : Qc := fold_right Qcplus 0 l.
Definition entry (j : nat) (r : list Qc) : Qc := nth j r 0.
Definition vadd (a b : list Qc) : list Qc := map (fun ab => fst ab + snd ab) (combine a b).
Definition vzero (L : nat) : list Qc := repeat 0 L.

(* the specification: entrywise (1/n) * sum over the individual runs *)
Definition mean_spec (runs : list (list Qc)) (L : nat) : list Qc :=
  map (fun j => (1 / qn (List.length runs)) * qsum (map (entry j) runs)) (seq 0 L).

Definition mean_impl (f : mean_form) (iteration : nat) (runs : list (list Qc)) (L : nat) : list Qc :=
  match f with
  | MeanStackRunsAxis => map (fun j => qsum (map (entry j) runs) / qn (List.length runs)) (seq 0 L)
  | RunningSumDivIter => map (fun x => x / qn iteration) (fold_left vadd runs (vzero L))
  | SumDivLen => map (fun x => x / qn (List.length runs)) (fold_left vadd runs (vzero L))
  | MeanUnknown => []
  end.

(* how many runs the serial branch produces for a call with [iteration] *)
Inductive runs_form := RunsRangeIteration | RunsUnknown.

(* used by the correspondence files: |reported - exact mean| <= tol * max(|exact mean|, floor) entrywise *)
Definition qabs (x : Qc) : Qc := if Qclt_le_dec x 0 then - x else x.
Definition qleb (x y : Qc) : bool := if Qclt_le_dec y x then false else true.
(* |y - m| <= tol * s entrywise *)
Fixpoint all_within (tol : Qc) (y m s : list Qc) : bool :=
  match y, m, s with
  | [], [], [] => true
  | a :: y', b :: m', c :: s' => qleb (qabs (a - b)) (tol * c) && all_within tol y' m' s'
  | _, _, _ => false
  end.
(* reported mean y against the model's mean of the returned runs; the scale of the tolerance is the mean of the
   absolute values (the quantity floating-point summation error is relative to) *)
Definition mean_check (tol : Qc) (f : mean_form) (iteration L : nat) (runs : list (list Qc)) (y : list Qc) : bool :=
  all_within tol y (mean_impl f iteration runs L) (mean_impl f iteration (map (map qabs) runs) L).
(* dyadic literal m * 2^e as emitted from float.hex() *)
Definition dy (m e : Z) : Qc :=
  if (0 <=? e)%Z then Q2Qc (inject_Z (m * 2 ^ e)) else Q2Qc (Qmake m (Z.to_pos (2 ^ (- e)))).

(* the table handed to the theorems: sources of the serial-path sites and of the utilR samplers *)
Definition table (a b : list (string * source)) : list source := map snd a ++ map snd b.
Definition mean_form_ok (f : mean_form) : bool := match f with MeanUnknown => false | _ => true end.
Definition runs_form_ok (f : runs_form) : bool := match f with RunsRangeIteration => true | RunsUnknown => false end.
Definition forms_ok (m : list (string * mean_form)) (r : list (string * runs_form)) : bool :=
  forallb (fun x => mean_form_ok (snd x)) m && forallb (fun x => runs_form_ok (snd x)) r
  && negb (Nat.eqb (List.length m) 0).
