From Coq Require Import List Arith Bool ZArith QArith Qcanon Lia.
From PV Require Import Stoch.
Import ListNotations.
Open Scope Qc_scope.
Arguments Stoch.update : simpl never.
Arguments Stoch.check_jump : simpl never.

(* ---------------- order facts on Qc through the boolean tests ---------------- *)
Lemma Qcltb_lt a b : Qcltb a b = true <-> a < b.
Proof. unfold Qcltb, Qclt. rewrite negb_true_iff. split; intros H.
  - apply Qnot_le_lt. intros Hle. apply Qle_bool_iff in Hle. congruence.
  - destruct (Qle_bool (this b) (this a)) eqn:E; [|reflexivity]. apply Qle_bool_iff in E.
    exfalso. apply (Qlt_not_le _ _ H E). Qed.
Lemma Qcltb_ge a b : Qcltb a b = false <-> b <= a.
Proof. unfold Qcltb, Qcle. rewrite negb_false_iff. apply Qle_bool_iff. Qed.
Lemma Qcleb_le a b : Qcleb a b = true <-> a <= b.
Proof. unfold Qcleb, Qcle. apply Qle_bool_iff. Qed.

Lemma Qc_lt_add_pos t dt : 0 < dt -> t < t + dt.
Proof. intros H. apply Qclt_minus_iff. replace (t + dt + - t) with dt by ring. exact H. Qed.

(* ---------------- vectors ---------------- *)
Lemma vadd_length a b : length (vadd a b) = length a.
Proof. revert b; induction a as [|x r IH]; destruct b; simpl; auto. Qed.
Lemma vscale_length c v : length (vscale c v) = length v.
Proof. apply map_length. Qed.
Lemma vsum_vadd a b : length a = length b -> vsum (vadd a b) = vsum a + vsum b.
Proof. revert b; induction a as [|x r IH]; destruct b as [|y s]; simpl; intros H; try discriminate.
  - ring.
  - rewrite IH by congruence. ring. Qed.
Lemma vsum_vscale c v : vsum (vscale c v) = c * vsum v.
Proof. induction v as [|y s IH]; simpl; [ring | rewrite IH; ring]. Qed.
Lemma vadd_nil a : vadd a [] = a.
Proof. destruct a; reflexivity. Qed.
Lemma vadd_zero a b : Forall (fun y => y = 0) b -> vadd a b = a.
Proof. revert b; induction a as [|x r IH]; intros b H; destruct b as [|y s]; simpl; auto.
  inversion H; subst. rewrite IH by assumption. f_equal. ring. Qed.
Lemma vscale_zero_vec c v : Forall (fun y => y = 0) v -> Forall (fun y => y = 0) (vscale c v).
Proof. induction 1; simpl; constructor; auto. subst. ring. Qed.
Lemma zq_0 : zq 0 = 0.
Proof. apply Qc_is_canon. reflexivity. Qed.
Lemma vscale_0 v : Forall (fun y => y = 0) (vscale (zq 0) v).
Proof. induction v; simpl; constructor; auto. rewrite zq_0. ring. Qed.

Section Proofs.
  Variable failed_one : option Qc -> option Qc -> Qc -> bool.
  (* what the extracted per-state test must guarantee: not failed => inside the declared limits *)
  Definition in_range (lo hi : option Qc) (v : Qc) : Prop :=
    (forall a, lo = Some a -> a <= v) /\ (forall b, hi = Some b -> v <= b).
  Hypothesis failed_one_spec : forall lo hi v, failed_one lo hi v = false -> in_range lo hi v.

  Notation check_jump := (check_jump failed_one true true).
  Notation update := (update true).
  Notation first_reaction := (first_reaction failed_one true true true true true).
  Notation tau_leap := (tau_leap failed_one true true true).
  Notation loop := (loop failed_one true true true true true).
  Notation run := (run failed_one true true true true true).
  Notation failed := (failed failed_one).
  Notation jump_times := (jump_times true).
  Notation argmin_from := (argmin_from true).
  Notation argmin := (argmin true).
  Notation apply_counts := (apply_counts true).

  Definition within (ls : list lim) (x : vec) : Prop :=
    forall i lo hi v, nth_error ls i = Some (lo, hi) -> nth_error x i = Some v -> in_range lo hi v.

  Lemma failed_within ls x : failed ls x = false -> within ls x.
  Proof. unfold Stoch.failed, within. revert x; induction ls as [|[lo0 hi0] r IH]; intros x H i lo hi v Hl Hx.
    - destruct i; discriminate.
    - destruct x as [|v0 xs]; [destruct i; discriminate|]. simpl in H. apply orb_false_iff in H as [H1 H2].
      destruct i as [|i]; simpl in Hl, Hx.
      + inversion Hl; inversion Hx; subst. apply failed_one_spec, H1.
      + eapply IH; eauto. Qed.

  (* ---------------- update ---------------- *)
  Lemma update_zero x cl : update x cl 0%Z = x.
  Proof. unfold Stoch.update. apply vadd_zero, vscale_0. Qed.
  Lemma update_length x cl n : length (update x cl n) = length x.
  Proof. unfold Stoch.update. apply vadd_length. Qed.
  Lemma update_vsum x cl n : (cl = [] \/ (length cl = length x /\ vsum cl = 0)) -> vsum (update x cl n) = vsum x.
  Proof. unfold Stoch.update. intros [E0 | [Hl Hs]]; [subst cl|].
    - simpl. rewrite vadd_nil. reflexivity.
    - rewrite vsum_vadd by (rewrite vscale_length; congruence). rewrite vsum_vscale, Hs. ring. Qed.

  Lemma apply_counts_unit (c : cfg) x m j k : (j < m)%nat ->
    apply_counts c x k (map (fun i => if Nat.eqb i (k + j)%nat then 1%Z else 0%Z) (seq k m)) = update x (col c (k + j)%nat) 1.
  Proof. revert x k j; induction m as [|m IH]; intros x k j H; [lia|]. simpl.
    destruct j as [|j].
    - rewrite Nat.add_0_r, Nat.eqb_refl.
      assert (E : forall y k', (k < k')%nat -> apply_counts c y k' (map (fun i => if Nat.eqb i k then 1%Z else 0%Z) (seq k' m)) = y).
      { clear. revert m. induction m as [|m IHm]; intros y k' Hk; simpl; [reflexivity|].
        destruct (Nat.eqb_spec k' k); [lia|]. rewrite update_zero. apply IHm. lia. }
      apply E. lia.
    - destruct (Nat.eqb_spec k (k + S j)%nat); [lia|]. rewrite update_zero.
      replace (k + S j)%nat with (S k + j)%nat by lia. apply IH. lia. Qed.

  (* ---------------- clocks ---------------- *)
  Lemma jump_times_in rates : forall clocks jt v, jump_times rates clocks = Some jt -> In (Some v) jt -> In v clocks.
  Proof. induction rates as [|r rs IH]; intros clocks jt v H Hin; simpl in H.
    - inversion H; subst. destruct Hin.
    - destruct (Qcltb 0 r).
      + destruct clocks as [|ck cs]; [discriminate|].
        destruct (jump_times rs cs) as [jt'|] eqn:E; [|discriminate]. inversion H; subst.
        destruct Hin as [Hin|Hin]; [inversion Hin; left; reflexivity | right; eapply IH; eauto].
      + destruct (jump_times rs clocks) as [jt'|] eqn:E; [|discriminate]. inversion H; subst.
        destruct Hin as [Hin|Hin]; [discriminate | eapply IH; eauto]. Qed.
  Lemma jump_times_length rates : forall clocks jt, jump_times rates clocks = Some jt -> length jt = length rates.
  Proof. induction rates as [|r rs IH]; intros clocks jt H; simpl in H.
    - inversion H; reflexivity.
    - destruct (Qcltb 0 r).
      + destruct clocks as [|ck cs]; [discriminate|]. destruct (jump_times rs cs) eqn:E; [|discriminate].
        inversion H; subst; simpl. f_equal. eapply IH; eauto.
      + destruct (jump_times rs clocks) eqn:E; [|discriminate]. inversion H; subst; simpl. f_equal. eapply IH; eauto. Qed.
  Lemma argmin_from_in l : forall i best j v, argmin_from l i best = Some (j, v) ->
    (best = Some (j, v)) \/ (In (Some v) l /\ (i <= j < i + length l)%nat).
  Proof. induction l as [|[w|] r IH]; intros i best j v H; simpl in H.
    - left; exact H.
    - destruct best as [[bi b]|].
      + destruct (Qcltb w b).
        * apply IH in H as [H|[H1 H2]]; [inversion H; subst; right; split; [left; reflexivity | simpl; lia]
                                        | right; split; [right; exact H1 | simpl; lia]].
        * apply IH in H as [H|[H1 H2]]; [left; exact H | right; split; [right; exact H1 | simpl; lia]].
      + apply IH in H as [H|[H1 H2]]; [inversion H; subst; right; split; [left; reflexivity | simpl; lia]
                                      | right; split; [right; exact H1 | simpl; lia]].
    - apply IH in H as [H|[H1 H2]]; [left; exact H | right; split; [right; exact H1 | simpl; lia]]. Qed.

  (* ---------------- one accepted step ---------------- *)
  (* the legal-walk relation between consecutive recorded rows *)
  Definition good (c : cfg) (T : Qc) (x : vec) (t : Qc) (x' : vec) (n' : list Z) (t' : Qc) : Prop :=
    t < T /\ t < t' /\ Forall (fun k => (0 <= k)%Z) n' /\ within (lims c) x' /\
    x' = apply_counts c x 0 n'.

  Definition clocks_pos (l : list Qc) := Forall (fun v => 0 < v) l.
  Definition pure_zero (p : vec) := Forall (fun y => y = 0) p.
  Definition sstep_ok (st : sstep) : Prop :=
    match st with
    | SExact _ clocks => clocks_pos clocks
    | STau _ pure tau counts fb => 0 < tau /\ Forall (fun k => (0 <= k)%Z) counts /\ clocks_pos fb /\ pure_zero pure
    end.

  Lemma unit_vec_nonneg m j : Forall (fun k => (0 <= k)%Z) (unit_vec m j).
  Proof. unfold unit_vec. apply Forall_forall. intros k Hk. apply in_map_iff in Hk as (i & <- & _).
    destruct (Nat.eqb i j); lia. Qed.

  Lemma first_reaction_good c T x t rates clocks t' x' n : t < T -> clocks_pos clocks ->
    first_reaction c x t rates clocks = Step t' x' n true ->
    good c T x t x' n t' /\ exists j, (j < length rates)%nat /\ n = unit_vec (length rates) j.
  Proof. intros Ht Hc H. unfold Stoch.first_reaction in H.
    destruct (all_zero rates); [discriminate|].
    destruct (jump_times rates clocks) as [jt|] eqn:Ejt; [|discriminate].
    destruct (argmin jt) as [[j dt]|] eqn:Ea; [|discriminate].
    unfold Stoch.check_jump in H. destruct (failed (lims c) _) eqn:Ef; [discriminate|].
    inversion H; subst; clear H.
    unfold Stoch.argmin in Ea. apply argmin_from_in in Ea as [Ea|[Hin Hj]]; [discriminate|].
    rewrite (jump_times_length _ _ _ Ejt) in Hj.
    assert (Hdt : 0 < dt).
    { pose proof (jump_times_in _ _ _ _ Ejt Hin) as Hin'. unfold clocks_pos in Hc.
      rewrite Forall_forall in Hc. apply Hc, Hin'. }
    split; [|exists j; split; [lia | reflexivity]].
    unfold good. split; [exact Ht|]. split; [apply Qc_lt_add_pos, Hdt|]. split; [apply unit_vec_nonneg|].
    split; [apply failed_within, Ef|].
    unfold unit_vec. symmetry. apply (apply_counts_unit c x (length rates) j 0). lia. Qed.

  Lemma tau_leap_good c T x t rates pure tau counts t' x' n : t < T -> 0 < tau ->
    Forall (fun k => (0 <= k)%Z) counts -> pure_zero pure ->
    tau_leap c x t rates pure tau counts = Step t' x' n true -> good c T x t x' n t' /\ n = counts.
  Proof. intros Ht Htau Hcn Hp H. unfold Stoch.tau_leap in H.
    destruct (all_zero rates); [discriminate|].
    unfold Stoch.check_jump in H. destruct (failed (lims c) _) eqn:Ef; [discriminate|].
    inversion H; subst; clear H. split; [|reflexivity].
    rewrite (vadd_zero _ _ (vscale_zero_vec tau pure Hp)) in *.
    unfold good. split; [exact Ht|]. split; [apply Qc_lt_add_pos, Htau|]. split; [exact Hcn|].
    split; [apply failed_within, Ef | reflexivity]. Qed.

  (* ---------------- the whole loop ---------------- *)
  Fixpoint chain (c : cfg) (T : Qc) (x : vec) (t : Qc) (p : list rec) : Prop :=
    match p with
    | [] => True
    | (x', n', t') :: r => good c T x t x' n' t' /\ chain c T x' t' r
    end.
  Fixpoint last_time (t : Qc) (p : list rec) : Qc :=
    match p with [] => t | (_, _, t') :: r => last_time t' r end.

  Theorem loop_walk c T : forall s x t, Forall sstep_ok s ->
    chain c T x t (fst (loop c T x t s)) /\
    (snd (loop c T x t s) = Horizon -> T <= last_time t (fst (loop c T x t s))).
  Proof.
    induction s as [|st r IH]; intros x t Hs; simpl.
    - destruct (Qcleb T t) eqn:E; simpl; split; auto; try discriminate. intros _. apply Qcleb_le, E.
    - destruct (Qcleb T t) eqn:E; simpl; [split; auto; intros _; apply Qcleb_le, E|].
      assert (Ht : t < T).
      { apply Qcnot_le_lt. intros Hle. apply Qcleb_le in Hle. congruence. }
      inversion Hs as [|? ? Hst Hr]; subst.
      destruct st as [rates clocks | rates pure tau counts fb]; simpl in Hst.
      + destruct (first_reaction c x t rates clocks) as [t' x' n [|]| | |] eqn:Ef; simpl; try (split; [auto|discriminate]).
        destruct (first_reaction_good c T x t rates clocks t' x' n Ht Hst Ef) as [Hg _].
        specialize (IH x' t' Hr). destruct (loop c T x' t' r) as [p stp]; simpl in *.
        destruct IH as [IH1 IH2]. split; [split; assumption | exact IH2].
      + destruct Hst as (Htau & Hcn & Hfb & Hp).
        destruct (tau_leap c x t rates pure tau counts) as [t' x' n [|]| | |] eqn:Et; simpl; try (split; [auto|discriminate]).
        * destruct (tau_leap_good c T x t rates pure tau counts t' x' n Ht Htau Hcn Hp Et) as [Hg _].
          specialize (IH x' t' Hr). destruct (loop c T x' t' r) as [p stp]; simpl in *.
          destruct IH as [IH1 IH2]. split; [split; assumption | exact IH2].
        * destruct (first_reaction c x t rates fb) as [t2 x2 n2 [|]| | |] eqn:Ef; simpl; try (split; [auto|discriminate]).
          destruct (first_reaction_good c T x t rates fb t2 x2 n2 Ht Hfb Ef) as [Hg _].
          specialize (IH x2 t2 Hr). destruct (loop c T x2 t2 r) as [p stp]; simpl in *.
          destruct IH as [IH1 IH2]. split; [split; assumption | exact IH2].
  Qed.

  (* exact mode: every recorded step fires exactly one event *)
  Definition is_exact (st : sstep) := match st with SExact _ _ => True | _ => False end.
  Fixpoint chain_unit (p : list rec) : Prop :=
    match p with [] => True | (_, n', _) :: r => (exists m j, (j < m)%nat /\ n' = unit_vec m j) /\ chain_unit r end.
  Theorem exact_one_event c T : forall s x t, Forall sstep_ok s -> Forall is_exact s ->
    chain_unit (fst (loop c T x t s)).
  Proof. induction s as [|st r IH]; intros x t Hs He; simpl.
    - destruct (Qcleb T t); simpl; auto.
    - destruct (Qcleb T t) eqn:E; simpl; auto.
      assert (Ht : t < T). { apply Qcnot_le_lt. intros Hle. apply Qcleb_le in Hle. congruence. }
      inversion Hs as [|? ? Hst Hr]; inversion He as [|? ? He1 He2]; subst.
      destruct st as [rates clocks|]; [|destruct He1]. simpl in Hst.
      destruct (first_reaction c x t rates clocks) as [t' x' n [|]| | |] eqn:Ef; simpl; auto.
      destruct (first_reaction_good c T x t rates clocks t' x' n Ht Hst Ef) as [_ (j & Hj & Hn)].
      specialize (IH x' t' Hr He2). destruct (loop c T x' t' r) as [p stp]; simpl in *.
      split; [exists (length rates), j; auto | exact IH]. Qed.

  (* ---------------- C11: a rejected step changes nothing ---------------- *)
  Theorem reject_unchanged x xnew ls t dt n t' x' n' :
    check_jump x xnew ls t dt n = (t', x', n', false) -> x' = x /\ t' = t.
  Proof. unfold Stoch.check_jump. destruct (failed ls xnew); intros H; inversion H; auto. Qed.
  Theorem accept_within x xnew ls t dt n t' x' n' :
    check_jump x xnew ls t dt n = (t', x', n', true) -> x' = xnew /\ within ls x' /\ t' = t + dt.
  Proof. unfold Stoch.check_jump. destruct (failed ls xnew) eqn:E; intros H; inversion H; subst.
    split; [reflexivity|]. split; [apply failed_within, E | reflexivity]. Qed.

  Fixpoint all_within (ls : list lim) (p : list rec) : Prop :=
    match p with [] => True | (x', _, _) :: r => within ls x' /\ all_within ls r end.
  Lemma chain_within c T : forall p x t, chain c T x t p -> all_within (lims c) p.
  Proof. induction p as [|[[x' n'] t'] r IH]; intros x t H; simpl in *; auto.
    destruct H as [(_ & _ & _ & Hw & _) Hc]. split; [exact Hw | eapply IH; eauto]. Qed.

  (* ---------------- C10: closed models keep the total exactly ---------------- *)
  Definition cols_closed (c : cfg) (nS : nat) : Prop :=
    Forall (fun cl => length cl = nS /\ vsum cl = 0) (V c).
  Lemma col_closed c nS j : cols_closed c nS -> col c j = [] \/ (length (col c j) = nS /\ vsum (col c j) = 0).
  Proof. intros H. unfold col. destruct (nth_in_or_default j (V c) []) as [Hin | E0]; [|rewrite E0; left; reflexivity].
    right. unfold cols_closed in H. rewrite Forall_forall in H. apply H, Hin. Qed.
  Lemma apply_counts_vsum c nS : cols_closed c nS -> forall n x i, length x = nS ->
    vsum (apply_counts c x i n) = vsum x /\ length (apply_counts c x i n) = nS.
  Proof. intros Hc. induction n as [|k r IH]; intros x i Hl; simpl; [auto|].
    destruct (IH (update x (col c i) k) (S i)) as [I1 I2]; [rewrite update_length; exact Hl|].
    split; [|exact I2]. rewrite I1. apply update_vsum.
    destruct (col_closed c nS i Hc) as [E0 | [H1 H2]]; [left; exact E0 | right; split; congruence]. Qed.
  Fixpoint all_total (s0 : Qc) (p : list rec) : Prop :=
    match p with [] => True | (x', _, _) :: r => vsum x' = s0 /\ all_total s0 r end.
  Theorem chain_total c T nS : cols_closed c nS -> forall p x t, length x = nS -> chain c T x t p ->
    all_total (vsum x) p.
  Proof. intros Hc. induction p as [|[[x' n'] t'] r IH]; intros x t Hl H; simpl in *; auto.
    destruct H as [(_ & _ & _ & _ & Hx) Hch]. destruct (apply_counts_vsum c nS Hc n' x 0 Hl) as [E1 E2].
    rewrite <- Hx in E1, E2. split; [exact E1|]. rewrite <- E1. apply (IH x' t' E2 Hch). Qed.
End Proofs.

(* ---------------- "x + V n" entry-wise: the fold used in [good] is the matrix-vector product ---------------- *)
Section Entrywise.
  Notation update := (update true).
  Notation apply_counts := (apply_counts true).
  Lemma nth_vadd a b i : length a = length b -> nth i (vadd a b) 0 = nth i a 0 + nth i b 0.
  Proof. revert b i; induction a as [|x r IH]; intros [|y s] i H; simpl in *; try discriminate.
    - destruct i; ring.
    - destruct i; [reflexivity|]. apply IH. congruence. Qed.
  Lemma nth_vscale c v i : nth i (vscale c v) 0 = c * nth i v 0.
  Proof. revert i; induction v as [|y s IH]; intros [|i]; simpl; try ring; auto. Qed.
  Lemma nth_update x cl n i : (cl = [] \/ length cl = length x) ->
    nth i (update x cl n) 0 = nth i x 0 + zq n * nth i cl 0.
  Proof. unfold Stoch.update. intros [E | E].
    - subst cl. simpl. rewrite vadd_nil. destruct i; simpl; ring.
    - rewrite nth_vadd by (rewrite vscale_length; congruence). rewrite nth_vscale. reflexivity. Qed.
  Definition dims_ok (c : cfg) (nS : nat) := Forall (fun cl => length cl = nS) (V c).
  Lemma col_dims c nS j : dims_ok c nS -> col c j = [] \/ length (col c j) = nS.
  Proof. intros H. unfold col. destruct (nth_in_or_default j (V c) []) as [Hin | E0]; [|left; exact E0].
    right. unfold dims_ok in H. rewrite Forall_forall in H. apply H, Hin. Qed.
  Fixpoint vn_entry (c : cfg) (i k : nat) (n : list Z) : Qc :=
    match n with [] => 0 | nj :: r => zq nj * nth i (col c k) 0 + vn_entry c i (S k) r end.
  (* entry i of the new state = x_i + sum_j n_j * V[i][j] *)
  Theorem apply_counts_entry c nS : dims_ok c nS -> forall n x k i, length x = nS ->
    nth i (apply_counts c x k n) 0 = nth i x 0 + vn_entry c i k n.
  Proof. intros Hd. induction n as [|nj r IH]; intros x k i Hl; simpl; [ring|].
    rewrite IH by (rewrite update_length; exact Hl).
    rewrite nth_update; [ring|]. destruct (col_dims c nS k Hd) as [E | E]; [left; exact E | right; congruence]. Qed.
End Entrywise.

(* ---------------- C11 with deterministic drift: models that mix events with explicit ODE terms ---------------- *)
Section Drift.
  Variable failed_one : option Qc -> option Qc -> Qc -> bool.
  Hypothesis failed_one_spec : forall lo hi v, failed_one lo hi v = false -> in_range lo hi v.
  Notation first_reaction := (first_reaction failed_one true true true true true).
  Notation tau_leap := (tau_leap failed_one true true true).
  Notation loop := (loop failed_one true true true true true).
  Notation failed := (failed failed_one).

  Lemma first_reaction_within c x t rates clocks t' x' n :
    first_reaction c x t rates clocks = Step t' x' n true -> within (lims c) x'.
  Proof. intros H. unfold Stoch.first_reaction in H.
    destruct (all_zero rates); [discriminate|].
    destruct (jump_times true rates clocks) as [jt|]; [|discriminate].
    destruct (argmin true jt) as [[j dt]|]; [|discriminate].
    unfold Stoch.check_jump in H. destruct (failed (lims c) _) eqn:Ef; [discriminate|].
    inversion H; subst. apply (failed_within failed_one failed_one_spec), Ef. Qed.
  Lemma tau_leap_within c x t rates pure tau counts t' x' n :
    tau_leap c x t rates pure tau counts = Step t' x' n true -> within (lims c) x'.
  Proof. intros H. unfold Stoch.tau_leap in H. destruct (all_zero rates); [discriminate|].
    unfold Stoch.check_jump in H. destruct (failed (lims c) _) eqn:Ef; [discriminate|].
    inversion H; subst. apply (failed_within failed_one failed_one_spec), Ef. Qed.

  (* no hypothesis at all on the schedule: any rates, clocks, tau, counts and any drift vector *)
  Theorem loop_within c T : forall s x t, all_within (lims c) (fst (loop c T x t s)).
  Proof. induction s as [|st r IH]; intros x t; simpl.
    - destruct (Qcleb T t); simpl; exact I.
    - destruct (Qcleb T t); simpl; [exact I|].
      destruct st as [rates clocks | rates pure tau counts fb].
      + destruct (first_reaction c x t rates clocks) as [t' x' n [|]| | |] eqn:Ef; simpl; try exact I.
        specialize (IH x' t'). destruct (loop c T x' t' r) as [p stp]; simpl in *.
        split; [eapply first_reaction_within; eauto | exact IH].
      + destruct (tau_leap c x t rates pure tau counts) as [t' x' n [|]| | |] eqn:Et; simpl; try exact I.
        * specialize (IH x' t'). destruct (loop c T x' t' r) as [p stp]; simpl in *.
          split; [eapply tau_leap_within; eauto | exact IH].
        * destruct (first_reaction c x t rates fb) as [t2 x2 n2 [|]| | |] eqn:Ef; simpl; try exact I.
          specialize (IH x2 t2). destruct (loop c T x2 t2 r) as [p stp]; simpl in *.
          split; [eapply first_reaction_within; eauto | exact IH].
  Qed.
End Drift.
