(* C04 / C10 / C11 — the jump loop of SimulateOde._jump with firstReaction, tauLeap, _newJumpTimes,
   _updateStateWithJump and _checkJump.  Randomness and rate evaluation enter as an oracle schedule
   (one entry per loop iteration), so every theorem is for all random streams / seeds / rate functions.
   States are Qc (tau-leap drift may be fractional), counts Z, times Qc. *)
From Coq Require Import List Arith Bool ZArith QArith Qcanon.
Import ListNotations.

Definition vec := list Qc.
Definition Qcltb (a b : Qc) : bool := negb (Qle_bool (this b) (this a)).
Definition Qcleb (a b : Qc) : bool := Qle_bool (this a) (this b).
Definition Qceqb (a b : Qc) : bool := Qc_eq_bool a b.

Fixpoint vadd (a b : vec) : vec :=
  match a, b with x :: r, y :: s => (x + y)%Qc :: vadd r s | _, _ => a end.   (* numpy: same length; else keep a *)
Definition vscale (c : Qc) (v : vec) : vec := map (fun y => (c * y)%Qc) v.
Definition vsum (v : vec) : Qc := fold_right Qcplus 0%Qc v.
Definition zq (n : Z) : Qc := Q2Qc (inject_Z n).

Definition lim := (option Qc * option Qc)%type.

(* comparisons against a limit that is present (a None there would be a TypeError in Python; unreachable) *)
Definition ogt (v : Qc) (o : option Qc) := match o with Some b => Qcltb b v | None => false end.
Definition olt (v : Qc) (o : option Qc) := match o with Some a => Qcltb v a | None => false end.
Definition oge (v : Qc) (o : option Qc) := match o with Some b => Qcleb b v | None => false end.
Definition ole (v : Qc) (o : option Qc) := match o with Some a => Qcleb v a | None => false end.
Definition is_none (o : option Qc) := match o with None => true | Some _ => false end.

Section Stoch.
  (* facts / functions regenerated from stochastic_simulation.py (Gen/StochGen.v) *)
  Variable failed_one : option Qc -> option Qc -> Qc -> bool.   (* body of the loop in _checkJump *)
  Variable reject_keeps : bool.      (* failed jump: x_new = x and t_new = t *)
  Variable accept_adds_dt : bool.    (* accepted jump: t_new = t + jump_time *)
  Variable update_plus : bool.       (* _updateStateWithJump: x + V[:,j]*n *)
  Variable clock_guard_positive : bool.  (* _newJumpTimes: a clock only for r > 0, else inf *)
  Variable argmin_first : bool.      (* firstReaction picks np.argmin of the clocks *)

  Record cfg := { V : list vec (* one column per event *); lims : list lim }.
  Definition col (c : cfg) (j : nat) : vec := nth j (V c) [].

  Definition failed (ls : list lim) (xnew : vec) : bool :=
    existsb (fun lv : lim * Qc => failed_one (fst (fst lv)) (snd (fst lv)) (snd lv)) (combine ls xnew).

  (* _checkJump *)
  Definition check_jump (x xnew : vec) (ls : list lim) (t dt : Qc) (n : list Z) : Qc * vec * list Z * bool :=
    if failed ls xnew
    then ((if reject_keeps then t else (t + dt)%Qc), (if reject_keeps then x else xnew), n, false)
    else ((if accept_adds_dt then (t + dt)%Qc else t), xnew, n, true).

  (* _updateStateWithJump *)
  Definition update (x : vec) (cl : vec) (n : Z) : vec :=
    if update_plus then vadd x (vscale (zq n) cl) else vadd x (vscale (zq (- n)) cl).

  (* _newJumpTimes: consume one clock per positive rate, None = np.inf *)
  Fixpoint jump_times (rates clocks : list Qc) : option (list (option Qc)) :=
    match rates with
    | [] => Some []
    | r :: rs =>
        if (if clock_guard_positive then Qcltb 0%Qc r else negb (Qceqb r 0%Qc)) then
          match clocks with
          | [] => None
          | ck :: cs => option_map (cons (Some ck)) (jump_times rs cs)
          end
        else option_map (cons None) (jump_times rs clocks)
    end.

  (* np.argmin over clocks with inf: first index of the minimum *)
  Fixpoint argmin_from (l : list (option Qc)) (i : nat) (best : option (nat * Qc)) : option (nat * Qc) :=
    match l with
    | [] => best
    | None :: r => argmin_from r (S i) best
    | Some v :: r =>
        match best with
        | None => argmin_from r (S i) (Some (i, v))
        | Some (_, b) => if (if argmin_first then Qcltb v b else Qcleb v b)
                         then argmin_from r (S i) (Some (i, v)) else argmin_from r (S i) best
        end
    end.
  Definition argmin (l : list (option Qc)) := argmin_from l 0 None.

  Definition unit_vec (n j : nat) : list Z := map (fun k => if Nat.eqb k j then 1%Z else 0%Z) (seq 0 n).

  Inductive outcome :=
  | Step (t : Qc) (x : vec) (n : list Z) (ok : bool)
  | NoRate            (* all rates zero: (0,0,0,0,False) *)
  | Crash             (* the 3-tuple returns / IndexError: a Python exception escapes _jump *)
  | NoSched.          (* oracle exhausted *)

  Definition all_zero (rates : list Qc) := forallb (fun r => Qceqb r 0%Qc) rates.

  Definition first_reaction (c : cfg) (x : vec) (t : Qc) (rates clocks : list Qc) : outcome :=
    if all_zero rates then NoRate
    else match jump_times rates clocks with
         | None => NoSched
         | Some jt =>
             match argmin jt with
             | None => Crash
             | Some (j, dt) =>
                 let '(t', x', n, ok) := check_jump x (update x (col c j) 1) (lims c) t dt (unit_vec (length rates) j) in
                 Step t' x' n ok
             end
         end.

  Fixpoint apply_counts (c : cfg) (x : vec) (i : nat) (counts : list Z) : vec :=
    match counts with [] => x | n :: r => apply_counts c (update x (col c i) n) (S i) r end.

  Definition tau_leap (c : cfg) (x : vec) (t : Qc) (rates pure : vec) (tau : Qc) (counts : list Z) : outcome :=
    if all_zero rates then NoRate
    else let xn := vadd (apply_counts c x 0 counts) (vscale tau pure) in
         let '(t', x', n, ok) := check_jump x xn (lims c) t tau counts in Step t' x' n ok.

  Inductive sstep :=
  | SExact (rates clocks : list Qc)
  | STau (rates pure : vec) (tau : Qc) (counts : list Z) (fb_clocks : list Qc).

  Inductive stop := Horizon | Dead | Illegal | Crashed | OutOfSchedule.
  Definition rec := (vec * list Z * Qc)%type.

  (* SimulateOde._jump: while t < finalT *)
  Fixpoint loop (c : cfg) (T : Qc) (x : vec) (t : Qc) (s : list sstep) : list rec * stop :=
    if Qcleb T t then ([], Horizon) else
    match s with
    | [] => ([], OutOfSchedule)
    | SExact rates clocks :: r =>
        match first_reaction c x t rates clocks with
        | Step t' x' n true => let '(p, st) := loop c T x' t' r in ((x', n, t') :: p, st)
        | Step _ _ _ false => ([], Illegal)
        | NoRate => ([], Dead)
        | Crash => ([], Crashed)
        | NoSched => ([], OutOfSchedule)
        end
    | STau rates pure tau counts fb :: r =>
        match tau_leap c x t rates pure tau counts with
        | Step t' x' n true => let '(p, st) := loop c T x' t' r in ((x', n, t') :: p, st)
        | Step _ _ _ false =>
            (* retry with the first reaction method from the unchanged (x, t) *)
            match first_reaction c x t rates fb with
            | Step t' x' n true => let '(p, st) := loop c T x' t' r in ((x', n, t') :: p, st)
            | Step _ _ _ false => ([], Illegal)
            | NoRate => ([], Dead)
            | Crash => ([], Crashed)
            | NoSched => ([], OutOfSchedule)
            end
        | NoRate => ([], Dead)
        | Crash => ([], Crashed)
        | NoSched => ([], OutOfSchedule)
        end
    end.

  Definition run (c : cfg) (T : Qc) (x0 : vec) (t0 : Qc) (s : list sstep) : list rec * stop :=
    let '(p, st) := loop c T x0 t0 s in ((x0, [], t0) :: p, st).
End Stoch.
