(* C05 — proofs about the exponential clocks (Coquelicot). For every list of positive rates:
   quantile     : T = -ln(1-u) * scale(r) > t  <->  u > 1 - e^{-r t}      (when scale r = 1/r)
   min_survival : {u in cube | all clocks > t} = box prod (1 - e^{-r_i t}, 1), volume e^{-(sum r) t}
   select       : int_t^oo r_i e^{-r_i s} prod_{j<>i} e^{-r_j s} ds = r_i / R * e^{-R t},  R = sum r
   i.e. the waiting time is Exp(R) and event i is the one that fires with probability r_i / R, jointly. *)
From Coq Require Import Reals List Lra Lia.
From Coquelicot Require Import Coquelicot.
From PV Require Import ExpClock.
Import ListNotations.
Local Open Scope R_scope.

(* ---- one clock *)
Lemma quantile (scale : R -> R) (r u t : R) :
  0 < r -> scale r = / r -> 0 < u < 1 ->
  (clock scale r u > t <-> u > 1 - exp (- r * t)).
Proof.
  intros Hr Hs [Hu0 Hu1]. unfold clock, std_exp. rewrite Hs.
  assert (P : 0 < 1 - u) by lra.
  change (- ln (1 - u) * / r) with (- ln (1 - u) / r).
  split; intros H.
  - apply Rlt_gt in H. apply Rlt_div_r in H; auto.
    assert (L : ln (1 - u) < - r * t) by lra.
    apply exp_increasing in L. rewrite exp_ln in L by auto. lra.
  - apply Rlt_gt. apply Rlt_div_r; auto.
    assert (L : 1 - u < exp (- r * t)) by lra.
    apply ln_increasing in L; auto. rewrite ln_exp in L. lra.
Qed.

(* the clock is positive on the open unit interval, and every positive value is attained *)
Lemma clock_pos (scale : R -> R) (r u : R) : 0 < r -> scale r = / r -> 0 < u < 1 -> 0 < clock scale r u.
Proof.
  intros Hr Hs Hu. apply Rgt_lt. apply (proj2 (quantile scale r u 0 Hr Hs Hu)).
  replace (- r * 0) with 0 by ring. rewrite exp_0. lra.
Qed.

(* CDF 1 - e^{-r s} has density r e^{-r s} *)
Lemma density (r s : R) : is_derive (fun x => 1 - exp (- r * x)) s (r * exp (- r * s)).
Proof. auto_derive. exact I. ring. Qed.

(* ---- all clocks *)
Lemma survival_iff (scale : R -> R) (t : R) : forall rates us,
  List.Forall (fun r => 0 < r /\ scale r = / r) rates -> List.Forall (fun u => 0 < u < 1) us ->
  (all_clocks_gt scale rates us t <-> in_box (survival_box rates t) us).
Proof.
  unfold all_clocks_gt, in_box.
  induction rates as [|r rs IH]; intros us Hr Hu.
  - simpl. split; intros H; inversion H; constructor.
  - destruct us as [|u us]; [split; intros H; inversion H|].
    inversion Hr as [|? ? [Hr1 Hr2] Hr3]; subst. inversion Hu as [|? ? Hu1 Hu2]; subst.
    simpl. split; intros H; inversion H; subst; constructor.
    + simpl. split; [|lra]. apply Rgt_lt. apply (quantile scale r u t); auto.
    + apply IH; auto.
    + simpl in *. apply (quantile scale r u t); auto. lra.
    + apply IH; auto.
Qed.

Lemma survival_volume (t : R) : forall rates, volume (survival_box rates t) = exp (- sumR rates * t).
Proof.
  unfold volume, survival_box. induction rates as [|r rs IH]; simpl.
  - replace (- 0 * t) with 0 by ring. rewrite exp_0. reflexivity.
  - rewrite IH. replace (- (r + sumR rs) * t) with (- r * t + - sumR rs * t) by ring.
    rewrite exp_plus. ring.
Qed.

Lemma survival_in_cube (t : R) : 0 <= t -> forall rates, List.Forall (fun r => 0 < r) rates ->
  sub_box (survival_box rates t) (unit_cube (length rates)).
Proof.
  intros Ht. unfold sub_box. induction rates as [|r rs IH]; intros H; simpl; constructor.
  - inversion H; subst. simpl. split; [|lra].
    assert (exp (- r * t) <= 1); [|lra].
    rewrite <- exp_0. destruct (Req_dec (r * t) 0) as [E|E].
    + replace (- r * t) with 0 by lra. lra.
    + left. apply exp_increasing. assert (0 <= r * t) by (apply Rmult_le_pos; lra). lra.
  - inversion H; subst. apply IH; auto.
Qed.

Lemma cube_volume n : volume (unit_cube n) = 1.
Proof. unfold volume, unit_cube. induction n; simpl; auto. rewrite IHn. ring. Qed.

Theorem min_survival (scale : R -> R) (rates : list R) (t : R) :
  List.Forall (fun r => 0 < r /\ scale r = / r) rates -> 0 <= t ->
  (forall us, List.Forall (fun u => 0 < u < 1) us ->
     (all_clocks_gt scale rates us t <-> in_box (survival_box rates t) us)) /\
  sub_box (survival_box rates t) (unit_cube (length rates)) /\
  volume (survival_box rates t) = exp (- sumR rates * t).
Proof.
  intros H Ht. split; [|split].
  - intros us Hu. apply survival_iff; auto.
  - apply survival_in_cube; auto. eapply Forall_impl; [|exact H]. simpl. tauto.
  - apply survival_volume.
Qed.

(* the same with the scale fact given once for all positive rates (the form the extracted rule provides) *)
Theorem min_survival_scale (scale : R -> R) : (forall r, 0 < r -> scale r = / r) ->
  forall (rates : list R) (t : R), List.Forall (fun r => 0 < r) rates -> 0 <= t ->
  (forall us, List.Forall (fun u => 0 < u < 1) us ->
     (all_clocks_gt scale rates us t <-> in_box (survival_box rates t) us)) /\
  sub_box (survival_box rates t) (unit_cube (length rates)) /\
  volume (survival_box rates t) = exp (- sumR rates * t).
Proof.
  intros Hs rates t Hp Ht. apply min_survival; auto.
  eapply Forall_impl; [|exact Hp]. simpl. intros r Hr. split; auto.
Qed.

Theorem quantile_scale (scale : R -> R) : (forall r, 0 < r -> scale r = / r) ->
  forall r u t, 0 < r -> 0 < u < 1 -> (clock scale r u > t <-> u > 1 - exp (- r * t)).
Proof. intros Hs r u t Hr Hu. apply quantile; auto. Qed.

(* ---- which clock rings first *)
(* improper integral: int_t^oo r e^{-R s} ds = r/R e^{-R t} *)
Lemma exp_tail (r Rt t : R) : 0 < Rt ->
  is_RInt_gen (fun s => r * exp (- Rt * s)) (at_point t) (Rbar_locally p_infty) (r / Rt * exp (- Rt * t)).
Proof.
  intros HR.
  pose (F := fun s => - (r / Rt) * exp (- Rt * s)).
  assert (HD : forall s, is_derive F s (r * exp (- Rt * s))).
  { intros s. unfold F. auto_derive. exact I. field. lra. }
  replace (r / Rt * exp (- Rt * t)) with (0 - F t) by (unfold F; ring).
  apply (is_RInt_gen_ext (Derive F)).
  { apply filter_forall. intros [a b] x _. simpl. apply is_derive_unique, HD. }
  apply is_RInt_gen_Derive.
  - apply filter_forall. intros [a b] x _. exists (r * exp (- Rt * x)). apply HD.
  - apply filter_forall. intros [a b] x _. simpl.
    apply continuous_ext with (f := fun s => r * exp (- Rt * s)).
    intros s. symmetry. apply is_derive_unique, HD.
    apply (@ex_derive_continuous R_AbsRing R_NormedModule). auto_derive. exact I.
  - intros P HP. unfold filtermap, at_point. now apply locally_singleton.
  - unfold F.
    assert (Hm : Rbar_mult (- Rt) p_infty = m_infty).
    { unfold Rbar_mult, Rbar_mult'. destruct (Rle_dec 0 (- Rt)) as [H0|H0].
      destruct (Rle_lt_or_eq_dec 0 (- Rt) H0); lra. reflexivity. }
    assert (H1 : is_lim (fun s => - Rt * s) p_infty m_infty).
    { rewrite <- Hm. apply (is_lim_scal_l (fun s => s) (- Rt) p_infty p_infty). apply is_lim_id. }
    assert (H2 : is_lim (fun s => exp (- Rt * s)) p_infty 0).
    { apply (is_lim_comp exp (fun s => - Rt * s) p_infty 0 m_infty). apply is_lim_exp_m. exact H1.
      exists 0. intros y _ Hc; discriminate. }
    assert (H3 := is_lim_scal_l (fun s => exp (- Rt * s)) (- (r / Rt)) p_infty 0 H2).
    simpl in H3. rewrite Rmult_0_r in H3. exact H3.
Qed.

(* list-product algebra: e^{-r_i s} * prod_{j<>i} e^{-r_j s} = e^{-(sum r) s} *)
Lemma prod_exp_all (s : R) : forall rates, prodR (map (fun r => exp (- r * s)) rates) = exp (- sumR rates * s).
Proof.
  induction rates as [|r rs IH]; simpl.
  - replace (- 0 * s) with 0 by ring. rewrite exp_0. reflexivity.
  - rewrite IH. replace (- (r + sumR rs) * s) with (- r * s + - sumR rs * s) by ring.
    rewrite exp_plus. reflexivity.
Qed.

Lemma prod_exp_remove (s : R) : forall rates i, (i < length rates)%nat ->
  exp (- nth i rates 0 * s) * prodR (map (fun r => exp (- r * s)) (remove_nth i rates)) = exp (- sumR rates * s).
Proof.
  induction rates as [|r rs IH]; intros i Hi; simpl in Hi; [lia|].
  destruct i as [|i].
  - simpl. rewrite prod_exp_all. replace (- (r + sumR rs) * s) with (- r * s + - sumR rs * s) by ring.
    rewrite exp_plus. reflexivity.
  - simpl. rewrite <- (Rmult_assoc _ (exp (- r * s))). rewrite (Rmult_comm _ (exp (- r * s))).
    rewrite Rmult_assoc. rewrite IH by lia.
    replace (- (r + sumR rs) * s) with (- r * s + - sumR rs * s) by ring.
    rewrite exp_plus. reflexivity.
Qed.

Lemma fires_density_closed (rates : list R) (i : nat) (s : R) : (i < length rates)%nat ->
  fires_density rates i s = nth i rates 0 * exp (- sumR rates * s).
Proof. intros Hi. unfold fires_density. rewrite Rmult_assoc. rewrite prod_exp_remove; auto. Qed.

Lemma sumR_pos : forall rates, List.Forall (fun r => 0 < r) rates -> rates <> [] -> 0 < sumR rates.
Proof.
  induction rates as [|r rs IH]; intros H N; [congruence|].
  inversion H; subst. simpl. destruct rs as [|r' rs'].
  - simpl. lra.
  - assert (0 < sumR (r' :: rs')) by (apply IH; auto; discriminate). lra.
Qed.

Theorem select (rates : list R) (i : nat) (t : R) :
  List.Forall (fun r => 0 < r) rates -> (i < length rates)%nat ->
  is_RInt_gen (fires_density rates i) (at_point t) (Rbar_locally p_infty)
              (nth i rates 0 / sumR rates * exp (- sumR rates * t)).
Proof.
  intros Hp Hi.
  assert (HR : 0 < sumR rates) by (apply sumR_pos; auto; destruct rates; simpl in Hi; [lia|discriminate]).
  apply (is_RInt_gen_ext (fun s => nth i rates 0 * exp (- sumR rates * s))).
  - apply filter_forall. intros [a b] x _. symmetry. apply fires_density_closed; auto.
  - apply exp_tail; auto.
Qed.

(* t = 0: event i is the one that fires with probability r_i / R *)
Corollary select_marginal (rates : list R) (i : nat) :
  List.Forall (fun r => 0 < r) rates -> (i < length rates)%nat ->
  is_RInt_gen (fires_density rates i) (at_point 0) (Rbar_locally p_infty) (nth i rates 0 / sumR rates).
Proof.
  intros Hp Hi. pose proof (select rates i 0 Hp Hi) as H.
  replace (- sumR rates * 0) with 0 in H by ring. rewrite exp_0, Rmult_1_r in H. exact H.
Qed.

(* the integrand is (density of clock i at s) * (volume of the box "every other clock is still running at s") *)
Lemma fires_density_factors (rates : list R) (i : nat) (s : R) :
  fires_density rates i s =
  Derive (fun x => 1 - exp (- nth i rates 0 * x)) s * volume (survival_box (remove_nth i rates) s).
Proof.
  assert (E : Derive (fun x => 1 - exp (- nth i rates 0 * x)) s = nth i rates 0 * exp (- nth i rates 0 * s))
    by (apply is_derive_unique; apply density).
  rewrite E.
  rewrite survival_volume. unfold fires_density. rewrite prod_exp_all. reflexivity.
Qed.

(* the choice probabilities r_i / R sum to one *)
Lemma choice_total : forall rates, sumR rates <> 0 -> sumR (map (fun r => r / sumR rates) rates) = 1.
Proof.
  intros rates H.
  assert (G : forall l c, sumR (map (fun r => r / c) l) = sumR l / c).
  { induction l as [|x l IH]; intros c; simpl; [unfold Rdiv; ring|]. rewrite IH. unfold Rdiv. ring. }
  rewrite G. field. exact H.
Qed.

(* the hypotheses are satisfiable: rates (2, 1/2), t = 1 *)
Example select_example :
  is_RInt_gen (fires_density [2; /2] 1) (at_point 1) (Rbar_locally p_infty)
              (nth 1 [2; /2] 0 / sumR [2; /2] * exp (- sumR [2; /2] * 1)).
Proof. apply select; [repeat constructor; lra|simpl; lia]. Qed.
