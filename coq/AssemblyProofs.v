From Coq Require Import List Arith Bool Lia Ring Permutation Sorting.Mergesort.
From PV Require Import Assembly.
Import ListNotations.

Section AsmProofs.
  Variables (A : Type) (a0 a1 : A) (add mul sub : A -> A -> A) (opp : A -> A).
  Hypothesis Rth : ring_theory a0 a1 add mul sub opp (@eq A).
  Add Ring Aring : Rth.

  Notation sum := (sum A a0 add).
  Notation ind := (ind A a0 a1).
  Notation sgn := (sgn A a0 a1 sub opp).
  Notation transition := (transition A).
  Notation event := (event A).
  Notation model := (model A).
  Notation entry := Assembly.entry.

  (* ---------------- sums ---------------- *)
  Lemma sum_app l1 l2 : sum (l1 ++ l2) = add (sum l1) (sum l2).
  Proof. induction l1 as [|x xs IH]; simpl; [ring | rewrite IH; ring]. Qed.
  Lemma sum_perm l1 l2 : Permutation l1 l2 -> sum l1 = sum l2.
  Proof. induction 1; simpl; [reflexivity | rewrite IHPermutation; reflexivity | ring | congruence]. Qed.
  Lemma sum_map_add {X} (f g : X -> A) l :
    sum (map (fun x => add (f x) (g x)) l) = add (sum (map f l)) (sum (map g l)).
  Proof. induction l as [|x xs IH]; simpl; [ring | rewrite IH; ring]. Qed.
  Lemma sum_map_ext {X} (f g : X -> A) l : (forall x, In x l -> f x = g x) -> sum (map f l) = sum (map g l).
  Proof. induction l as [|x xs IH]; simpl; intros H; [reflexivity|]. rewrite H, IH; auto. Qed.
  Lemma sum_zero {X} (l : list X) : sum (map (fun _ => a0) l) = a0.
  Proof. induction l; simpl; [reflexivity | rewrite IHl; ring]. Qed.
  Lemma sum_swap {X Y} (f : X -> Y -> A) lx ly :
    sum (map (fun x => sum (map (fun y => f x y) ly)) lx) = sum (map (fun y => sum (map (fun x => f x y) lx)) ly).
  Proof. induction lx as [|x xs IH]; simpl; [rewrite sum_zero; reflexivity|]. rewrite IH, <- sum_map_add. reflexivity. Qed.
  Lemma sum_scale_r {X} (f : X -> A) c l : sum (map (fun x => mul (f x) c) l) = mul (sum (map f l)) c.
  Proof. induction l as [|x xs IH]; simpl; [ring | rewrite IH; ring]. Qed.
  Lemma sum_scale_l {X} (f : X -> A) c l : sum (map (fun x => mul c (f x)) l) = mul c (sum (map f l)).
  Proof. induction l as [|x xs IH]; simpl; [ring | rewrite IH; ring]. Qed.
  Lemma sum_filter {X} (p : X -> bool) (f : X -> A) l :
    sum (map (fun x => if p x then f x else a0) l) = sum (map f (filter p l)).
  Proof. induction l as [|x xs IH]; simpl; [reflexivity|]. destruct (p x); simpl; rewrite IH; ring. Qed.

  (* selecting one index out of a range / out of an indexed list *)
  Lemma sum_ind_seq (g : nat -> A) p k n : k <= p < k + n ->
    sum (map (fun i => mul (ind (p =? i)) (g i)) (seq k n)) = g p.
  Proof. revert k; induction n as [|n IH]; intros k H; [lia|]. simpl.
    destruct (Nat.eqb_spec p k) as [->|Hne].
    - rewrite (sum_map_ext _ (fun _ => a0)), sum_zero; [simpl; ring|].
      intros i Hi. apply in_seq in Hi. destruct (Nat.eqb_spec k i); [lia|]. simpl; ring.
    - rewrite IH by lia. simpl; ring. Qed.
  Lemma sum_ind_seq_out (g : nat -> A) p k n : ~ (k <= p < k + n) ->
    sum (map (fun i => mul (ind (p =? i)) (g i)) (seq k n)) = a0.
  Proof. intros H. rewrite (sum_map_ext _ (fun _ => a0)), sum_zero; [reflexivity|].
    intros i Hi. apply in_seq in Hi. destruct (Nat.eqb_spec p i); [lia|]. simpl; ring. Qed.

  Lemma sum_indexed_gen {X} (f : X -> A) (l : list X) k c :
    sum (map (fun je => mul (ind (fst je =? c)) (f (snd je))) (combine (seq k (length l)) l))
    = match nth_error l (c - k) with Some e => if k <=? c then f e else a0 | None => a0 end.
  Proof. revert k; induction l as [|x xs IH]; intros k; simpl.
    - destruct (c - k); reflexivity.
    - rewrite IH. destruct (Nat.eqb_spec k c) as [->|Hne].
      + rewrite Nat.sub_diag; cbn [nth_error]. rewrite Nat.leb_refl.
        replace (c - S c) with 0 by lia. destruct (Nat.leb_spec (S c) c); [lia|].
        destruct (nth_error xs 0); simpl; ring.
      + destruct (Nat.leb_spec k c) as [Hle|Hgt].
        * replace (c - k) with (S (c - S k)) by lia. cbn [nth_error].
          destruct (Nat.leb_spec (S k) c); [|lia]. destruct (nth_error xs (c - S k)); simpl; ring.
        * replace (c - k) with 0 by lia. cbn [nth_error]. destruct (Nat.leb_spec (S k) c); [lia|].
          destruct (nth_error xs (c - S k)); simpl; ring. Qed.
  Lemma sum_indexed_sel {X} (f : X -> A) (l : list X) c :
    sum (map (fun je => mul (ind (fst je =? c)) (f (snd je))) (indexed l))
    = match nth_error l c with Some e => f e | None => a0 end.
  Proof. unfold indexed. rewrite sum_indexed_gen, Nat.sub_0_r. simpl. destruct (nth_error l c); reflexivity. Qed.
  Lemma sum_indexed_snd {X} (f : X -> A) (l : list X) k :
    sum (map (fun je => f (snd je)) (combine (seq k (length l)) l)) = sum (map f l).
  Proof. revert k; induction l as [|x xs IH]; intros k; simpl; [reflexivity | rewrite IH; reflexivity]. Qed.
  Lemma sum_seq_nth {X} (g : option X -> A) (l : list X) :
    sum (map (fun j => g (nth_error l j)) (seq 0 (length l))) = sum (map (fun e => g (Some e)) l).
  Proof. induction l as [|x xs IH]; simpl; [reflexivity|]. rewrite <- seq_shift, map_map. simpl. rewrite IH. reflexivity. Qed.

  (* ---------------- denotation of the table interpreter ---------------- *)
  Definition contrib (je : nat * event) (tr : transition) (en : entry) (a i c : nat) : A :=
    if ty_eqb (e_ty en) (ty tr) && (e_acc en =? a) && (row_of A (e_row en) tr =? i) && (col_of (e_col en) (fst je) =? c)
    then signed A opp (e_op en) (val_of A a1 mul (e_val en) (snd je) tr) else a0.

  Lemma fold_add {X} (f : accs A -> X -> accs A) (cf : X -> nat -> nat -> nat -> A) :
    (forall s x a i c, f s x a i c = add (s a i c) (cf x a i c)) ->
    forall l s a i c, fold_left f l s a i c = add (s a i c) (sum (map (fun x => cf x a i c) l)).
  Proof. intros H l; induction l as [|x xs IH]; intros s a i c; simpl; [ring | rewrite IH, H; ring]. Qed.

  Lemma exec_entry_add je tr s en a i c :
    exec_entry A a1 add mul opp je tr s en a i c = add (s a i c) (contrib je tr en a i c).
  Proof. unfold exec_entry, contrib, upd.
    destruct (ty_eqb (e_ty en) (ty tr)); simpl; [|ring].
    destruct (e_acc en =? a); simpl; [|ring].
    destruct (row_of A (e_row en) tr =? i); simpl; [|ring].
    destruct (col_of (e_col en) (fst je) =? c); simpl; ring. Qed.

  Definition contrib_tr tb je tr a i c := sum (map (fun en => contrib je tr en a i c) tb).
  Definition contrib_ev tb (je : nat * event) a i c := sum (map (fun tr => contrib_tr tb je tr a i c) (trans (snd je))).

  Lemma run_denot tb evs a i c :
    run A a0 a1 add mul opp tb evs a i c = sum (map (fun je => contrib_ev tb je a i c) (indexed evs)).
  Proof. unfold run.
    rewrite (fold_add (exec_event A a1 add mul opp tb) (fun je a i c => contrib_ev tb je a i c)).
    - unfold zero_accs. ring.
    - intros s je a' i' c'. unfold exec_event.
      rewrite (fold_add (exec_trans A a1 add mul opp tb je) (fun tr a i c => contrib_tr tb je tr a i c)); [reflexivity|].
      intros s' tr a'' i'' c''. unfold exec_trans.
      rewrite (fold_add (exec_entry A a1 add mul opp je tr) (fun en a i c => contrib je tr en a i c)); [reflexivity|].
      intros; apply exec_entry_add. Qed.

  (* contribution with the accumulator forgotten; depends on the entry only through its code *)
  Definition c' (je : nat * event) (tr : transition) (en : entry) (i c : nat) : A :=
    if ty_eqb (e_ty en) (ty tr) && (row_of A (e_row en) tr =? i) && (col_of (e_col en) (fst je) =? c)
    then signed A opp (e_op en) (val_of A a1 mul (e_val en) (snd je) tr) else a0.

  Lemma nat_list_eqb_eq l1 l2 : nat_list_eqb l1 l2 = true -> l1 = l2.
  Proof. revert l2; induction l1 as [|x xs IH]; destruct l2 as [|y ys]; simpl; try discriminate; auto.
    intros H; apply andb_prop in H as [H1 H2]. apply Nat.eqb_eq in H1. f_equal; auto. Qed.

  Lemma sum_over_res je tr en i c res : nodupb res = true ->
    sum (map (fun a => contrib je tr en a i c) res) = if mem (e_acc en) res then c' je tr en i c else a0.
  Proof. induction res as [|a res IH]; simpl; intros Hnd; [reflexivity|].
    apply andb_prop in Hnd as [Hn Hnd]. rewrite IH by exact Hnd.
    unfold contrib, c'. destruct (Nat.eqb_spec (e_acc en) a) as [->|Hne]; simpl.
    - apply negb_true_iff in Hn. rewrite Hn.
      destruct (ty_eqb (e_ty en) (ty tr)); simpl; [|ring].
      destruct (row_of A (e_row en) tr =? i); simpl; [|ring].
      destruct (col_of (e_col en) (fst je) =? c); ring.
    - rewrite andb_false_r; simpl. ring. Qed.

  Definition decode_c (je : nat * event) (tr : transition) (i c : nat) (k : nat) : A :=
    let tyc := k / 32 in let cl := (k / 16) mod 2 in let r := (k / 8) mod 2 in
    let o := (k / 4) mod 2 in let v := k mod 4 in
    let tyb := match tyc, ty tr with 0, B | 1, D | 2, T => true | _, _ => false end in
    let row := if r =? 0 then orig tr else dest tr in
    let col := if cl =? 0 then 0 else fst je in
    let val := match v with 0 => mul (mag tr) (rate (snd je)) | 1 => mag tr | 2 => rate (snd je) | _ => a1 end in
    if tyb && (row =? i) && (col =? c) then (if o =? 0 then val else opp val) else a0.
  Lemma decode_ok je tr i c en : decode_c je tr i c (code en) = c' je tr en i c.
  Proof. destruct en as [t a r cl o v]; destruct t, r, cl, o, v; unfold decode_c, c', code; simpl;
    destruct (ty tr); reflexivity. Qed.

  (* what the canonical four entries denote *)
  Definition spec_cv (cl : colsel) (v : valsel) (evs : list event) (i c : nat) : A :=
    sum (map (fun je => sum (map (fun tr =>
           mul (ind (col_of cl (fst je) =? c)) (mul (sgn tr i) (val_of A a1 mul v (snd je) tr)))
         (trans (snd je)))) (indexed evs)).

  Lemma canon_sgn cl v je tr i c :
    sum (map (decode_c je tr i c) (map code (canon cl v)))
    = mul (ind (col_of cl (fst je) =? c)) (mul (sgn tr i) (val_of A a1 mul v (snd je) tr)).
  Proof. unfold Assembly.sgn, decode_c. destruct cl, v; simpl; destruct (ty tr); simpl;
    destruct (orig tr =? i); destruct (dest tr =? i); simpl;
    try destruct c; try (destruct (fst je =? _)); simpl; ring. Qed.

  Theorem table_sound cl v tb res : table_ok cl v tb res = true ->
    forall evs i c, result A a0 a1 add mul opp tb res evs i c = spec_cv cl v evs i c.
  Proof.
    intros Hok evs i c. apply andb_prop in Hok as [Hnd Heq]. apply nat_list_eqb_eq in Heq.
    unfold result, spec_cv.
    rewrite (sum_map_ext _ (fun a => sum (map (fun je => contrib_ev tb je a i c) (indexed evs))))
      by (intros; apply run_denot).
    rewrite sum_swap. apply sum_map_ext; intros je _.
    unfold contrib_ev. rewrite sum_swap. apply sum_map_ext; intros tr _.
    unfold contrib_tr. rewrite sum_swap.
    rewrite (sum_map_ext _ (fun en => if mem (e_acc en) res then c' je tr en i c else a0))
      by (intros; apply sum_over_res; exact Hnd).
    rewrite (sum_filter (fun en => mem (e_acc en) res) (fun en => c' je tr en i c)).
    rewrite (sum_map_ext _ (fun en => decode_c je tr i c (code en))) by (intros; symmetry; apply decode_ok).
    rewrite <- (map_map code (decode_c je tr i c)).
    rewrite <- canon_sgn.
    apply sum_perm, Permutation_map.
    unfold norm in Heq.
    eapply Permutation_trans; [apply NatSort.Permuted_sort|]. rewrite Heq. apply Permutation_sym, NatSort.Permuted_sort.
  Qed.

  (* the two instances used by the code *)
  Lemma spec_ode evs i : spec_cv CNone VMagRate evs i 0 = ev_part A a0 a1 add mul sub opp evs i.
  Proof. unfold spec_cv, ev_part, indexed. rewrite <- (sum_indexed_snd _ evs 0).
    apply sum_map_ext; intros je _. apply sum_map_ext; intros tr _. simpl. ring. Qed.
  Lemma spec_vmat (m : model) i j : spec_cv CEv VMag (events m) i j = vmat A a0 a1 add mul sub opp m i j.
  Proof. unfold spec_cv, vmat. rewrite <- (sum_indexed_sel (fun e => net A a0 a1 add mul sub opp e i)).
    apply sum_map_ext; intros je _. unfold net. rewrite <- sum_scale_l. apply sum_map_ext; intros tr _.
    simpl. ring. Qed.

  Theorem ode_table_sound tb res : ode_table_ok tb res = true ->
    forall evs i, result A a0 a1 add mul opp tb res evs i 0 = ev_part A a0 a1 add mul sub opp evs i.
  Proof. intros H evs i. rewrite (table_sound _ _ _ _ H). apply spec_ode. Qed.
  Theorem vmat_table_sound tb res : vmat_table_ok tb res = true ->
    forall (m : model) i j, result A a0 a1 add mul opp tb res (events m) i j = vmat A a0 a1 add mul sub opp m i j.
  Proof. intros H m i j. rewrite (table_sound _ _ _ _ H). apply spec_vmat. Qed.

  (* explicit-ODE loop and rate-vector loop *)
  Lemma run_ode_gen (os : list (nat * A)) (s : nat -> A) i :
    fold_left (fun (s : nat -> A) (oe : nat * A) => fun i => if fst oe =? i then add (s i) (snd oe) else s i) os s i
    = add (s i) (sum (map (fun oe => mul (ind (fst oe =? i)) (snd oe)) os)).
  Proof. revert s; induction os as [|oe r IH]; intros s; simpl; [ring|]. rewrite IH.
    destruct (fst oe =? i); simpl; ring. Qed.
  Theorem run_ode_sound (m : model) i : run_ode A a0 add (odes m) i = pure_vec A a0 a1 add mul m i.
  Proof. unfold run_ode, pure_vec. rewrite run_ode_gen. ring. Qed.

  Lemma run_rate_gen (l : list event) k (s : nat -> A) c :
    fold_left (fun (s : nat -> A) (je : nat * event) => fun k => if fst je =? k then rate (snd je) else s k)
              (combine (seq k (length l)) l) s c
    = match nth_error l (c - k) with Some e => if k <=? c then rate e else s c | None => s c end.
  Proof. revert k s; induction l as [|x xs IH]; intros k s; simpl.
    - destruct (c - k); reflexivity.
    - rewrite IH. destruct (Nat.eqb_spec k c) as [->|Hne].
      + rewrite Nat.sub_diag; cbn [nth_error]. rewrite Nat.leb_refl. replace (c - S c) with 0 by lia.
        destruct (Nat.leb_spec (S c) c); [lia|]. destruct (nth_error xs 0); reflexivity.
      + destruct (Nat.leb_spec k c) as [Hle|Hgt].
        * replace (c - k) with (S (c - S k)) by lia. cbn [nth_error]. destruct (Nat.leb_spec (S k) c); [|lia].
          destruct (nth_error xs (c - S k)); [reflexivity|]. destruct (Nat.eqb_spec k c); [lia|reflexivity].
        * replace (c - k) with 0 by lia. cbn [nth_error]. destruct (Nat.leb_spec (S k) c); [lia|].
          destruct (Nat.eqb_spec k c); [lia|]. destruct (nth_error xs (c - S k)); reflexivity. Qed.
  Theorem run_rate_sound (m : model) j : run_rate A a0 (events m) j = rate_vec A a0 m j.
  Proof. unfold run_rate, rate_vec, indexed. rewrite run_rate_gen, Nat.sub_0_r. simpl.
    destruct (nth_error (events m) j); reflexivity. Qed.


  (* ---------------- ODE-scope table ---------------- *)
  Definition ocontrib (oe : nat * A) (en : oentry) (a i c : nat) : A :=
    let '(a', o, v) := en in
    if (a' =? a) && (fst oe =? i) && (0 =? c) then osigned A a0 opp o (oval A a0 a1 v oe) else a0.
  Lemma exec_oentry_add oe s en a i c :
    exec_oentry A a0 a1 add opp oe s en a i c = add (s a i c) (ocontrib oe en a i c).
  Proof. destruct en as [[a' o] v]. unfold exec_oentry, ocontrib, upd.
    destruct (a' =? a); simpl; [|ring]. destruct (fst oe =? i); simpl; [|ring]. destruct c; simpl; ring. Qed.
  Lemma run_oscope_denot sc os a i c :
    run_oscope A a0 a1 add opp sc os a i c
    = sum (map (fun oe => sum (map (fun en => ocontrib oe en a i c) sc)) os).
  Proof. unfold run_oscope.
    rewrite (fold_add (fun s oe => fold_left (exec_oentry A a0 a1 add opp oe) sc s)
                      (fun oe a i c => sum (map (fun en => ocontrib oe en a i c) sc))).
    - unfold zero_accs; ring.
    - intros s oe a' i' c'.
      rewrite (fold_add (exec_oentry A a0 a1 add opp oe) (fun en a i c => ocontrib oe en a i c)); [reflexivity|].
      intros; apply exec_oentry_add. Qed.
  Lemma osum_over_res oe (en : oentry) i res : nodupb res = true ->
    sum (map (fun a => ocontrib oe en a i 0) res)
    = if mem (fst (fst en)) res then (if fst oe =? i then osigned A a0 opp (snd (fst en)) (oval A a0 a1 (snd en) oe) else a0) else a0.
  Proof. destruct en as [[a' o] v]; simpl. induction res as [|a res IH]; simpl; intros Hnd; [reflexivity|].
    apply andb_prop in Hnd as [Hn Hnd]. rewrite IH by exact Hnd.
    destruct (Nat.eqb_spec a' a) as [->|Hne]; simpl.
    - apply negb_true_iff in Hn. rewrite Hn. destruct (fst oe =? i); simpl; ring.
    - ring. Qed.
  Theorem oscope_sound sc res : oscope_ok sc res = true ->
    forall (m : model) i, oresult A a0 a1 add opp sc res (odes m) i = pure_vec A a0 a1 add mul m i.
  Proof. intros Hok m i. unfold oscope_ok in Hok. apply andb_prop in Hok as [Hnd Hf].
    unfold oresult, pure_vec.
    rewrite (sum_map_ext _ (fun a => sum (map (fun oe => sum (map (fun en => ocontrib oe en a i 0) sc)) (odes m))))
      by (intros; apply run_oscope_denot).
    rewrite sum_swap. apply sum_map_ext; intros oe _. rewrite sum_swap.
    rewrite (sum_map_ext _ (fun en => if mem (fst (fst en)) res
              then (if fst oe =? i then osigned A a0 opp (snd (fst en)) (oval A a0 a1 (snd en) oe) else a0) else a0))
      by (intros; apply osum_over_res; exact Hnd).
    rewrite (sum_filter (fun en => mem (fst (fst en)) res)
              (fun en => if fst oe =? i then osigned A a0 opp (snd (fst en)) (oval A a0 a1 (snd en) oe) else a0)).
    destruct (filter (fun en => mem (fst (fst en)) res) sc) as [|[[a' o] v] tl]; [discriminate|].
    destruct o as [|o]; [|discriminate]. do 4 (destruct v as [|v]; [discriminate|]). destruct v; [|discriminate].
    destruct tl; [|discriminate].
    simpl. destruct (fst oe =? i); simpl; ring. Qed.

  (* get_ode_eqn as extracted = the specification *)
  Theorem code_ode_sound tb sc res : ode_table_ok tb res = true -> oscope_ok sc res = true ->
    forall (m : model) i, code_ode A a0 a1 add mul opp tb sc res m i = ode_vec A a0 a1 add mul sub opp m i.
  Proof. intros H1 H2 m i. unfold code_ode, ode_vec. rewrite (ode_table_sound _ _ H1), (oscope_sound _ _ H2). reflexivity. Qed.

  (* ---------------- C01: ODE = state-change matrix x rate vector + explicit terms ---------------- *)
  Theorem decomposition (m : model) i :
    ode_vec A a0 a1 add mul sub opp m i
    = add (sum (map (fun j => mul (vmat A a0 a1 add mul sub opp m i j) (rate_vec A a0 m j))
                    (seq 0 (length (events m)))))
          (pure_vec A a0 a1 add mul m i).
  Proof. unfold ode_vec. f_equal. unfold vmat, rate_vec.
    rewrite (sum_seq_nth (fun oe => mul (match oe with Some e => net A a0 a1 add mul sub opp e i | None => a0 end)
                                        (match oe with Some e => rate e | None => a0 end)) (events m)).
    unfold ev_part. apply sum_map_ext; intros e _. unfold net. rewrite <- sum_scale_r.
    apply sum_map_ext; intros tr _. ring. Qed.

  Theorem vmat_entry (m : model) i j e : nth_error (events m) j = Some e ->
    vmat A a0 a1 add mul sub opp m i j = sum (map (fun tr => mul (sgn tr i) (mag tr)) (trans e)).
  Proof. intros H. unfold vmat. rewrite H. reflexivity. Qed.

  (* ---------------- C10: transition-only models conserve the total ---------------- *)
  Definition closed (n : nat) (evs : list event) : Prop :=
    forall e tr, In e evs -> In tr (trans e) -> ty tr = T /\ orig tr < n /\ dest tr < n.

  Lemma sgn_T_sum n tr : ty tr = T -> orig tr < n -> dest tr < n ->
    sum (map (fun i => sgn tr i) (seq 0 n)) = a0.
  Proof. intros Ht Ho Hd. unfold Assembly.sgn. rewrite Ht.
    rewrite (sum_map_ext _ (fun i => add (mul (ind (dest tr =? i)) a1) (mul (ind (orig tr =? i)) (opp a1))))
      by (intros; ring).
    rewrite sum_map_add, (sum_ind_seq (fun _ => a1)), (sum_ind_seq (fun _ => opp a1)) by lia. ring. Qed.

  Theorem closed_cols n (m : model) j : closed n (events m) ->
    sum (map (fun i => vmat A a0 a1 add mul sub opp m i j) (seq 0 n)) = a0.
  Proof. intros Hc. unfold vmat. destruct (nth_error (events m) j) as [e|] eqn:E; [|apply sum_zero].
    unfold net. rewrite sum_swap.
    rewrite (sum_map_ext _ (fun _ => a0)); [apply sum_zero|]. intros tr Htr.
    destruct (Hc e tr (nth_error_In _ _ E) Htr) as (Ht & Ho & Hd).
    rewrite sum_scale_r, sgn_T_sum by assumption. ring. Qed.

  Theorem closed_rhs n (m : model) : closed n (events m) -> odes m = [] ->
    sum (map (fun i => ode_vec A a0 a1 add mul sub opp m i) (seq 0 n)) = a0.
  Proof. intros Hc Ho. unfold ode_vec, pure_vec. rewrite Ho. simpl.
    rewrite (sum_map_ext _ (fun i => ev_part A a0 a1 add mul sub opp (events m) i)) by (intros; ring).
    unfold ev_part. rewrite sum_swap. rewrite (sum_map_ext _ (fun _ => a0)); [apply sum_zero|]. intros e He.
    rewrite sum_swap. rewrite (sum_map_ext _ (fun _ => a0)); [apply sum_zero|]. intros tr Htr.
    destruct (Hc e tr He Htr) as (Ht & Hor & Hd).
    rewrite sum_scale_r, sgn_T_sum by assumption. ring. Qed.

  (* ---------------- C12: order and route independence ---------------- *)
  Theorem perm_invariant (m1 m2 : model) : Permutation (events m1) (events m2) -> Permutation (odes m1) (odes m2) ->
    forall i, ode_vec A a0 a1 add mul sub opp m1 i = ode_vec A a0 a1 add mul sub opp m2 i.
  Proof. intros He Ho i. unfold ode_vec, ev_part, pure_vec. f_equal; apply sum_perm, Permutation_map; assumption. Qed.

  Lemma ev_part_trans_perm e1 e2 r i : rate e1 = rate e2 -> Permutation (trans e1) (trans e2) ->
    ev_part A a0 a1 add mul sub opp (e1 :: r) i = ev_part A a0 a1 add mul sub opp (e2 :: r) i.
  Proof. intros Hr Hp. unfold ev_part; simpl. f_equal. rewrite Hr.
    apply sum_perm, Permutation_map, Hp. Qed.

  (* an event with several transitions is, for the ODE, the same as one event per transition with that rate
     (legacy Transition-with-own-rate route versus Event route) *)
  Theorem split_event r trs rest i :
    ev_part A a0 a1 add mul sub opp ({| rate := r; trans := trs |} :: rest) i
    = ev_part A a0 a1 add mul sub opp (map (fun tr => {| rate := r; trans := [tr] |}) trs ++ rest) i.
  Proof. unfold ev_part. rewrite map_app, sum_app. simpl. f_equal. rewrite map_map. simpl.
    apply sum_map_ext; intros tr _. ring. Qed.

  (* the explicit-ODE route: entering each component of the assembled right-hand side as an ODE term *)
  Theorem explicit_route (m : model) n i : i < n ->
    ode_vec A a0 a1 add mul sub opp
      {| nS := n; events := []; odes := map (fun k => (k, ode_vec A a0 a1 add mul sub opp m k)) (seq 0 n) |} i
    = ode_vec A a0 a1 add mul sub opp m i.
  Proof. intros Hi. unfold ode_vec at 1, pure_vec, ev_part. simpl. rewrite map_map. simpl.
    rewrite (sum_map_ext _ (fun k => mul (ind (i =? k)) (ode_vec A a0 a1 add mul sub opp m k)))
      by (intros k _; rewrite Nat.eqb_sym; reflexivity).
    rewrite sum_ind_seq by lia. ring. Qed.

  (* a birth named by its origin is the same process as the birth named by its destination *)
  Theorem birth_origin_is_destination s m0 i :
    sgn {| ty := B; orig := s; dest := s; mag := m0 |} i = ind (s =? i).
  Proof. reflexivity. Qed.
End AsmProofs.
