(* C17 — model of pygom's ABC bookkeeping (approximate_bayesian_computation.py):
   ABC._perform_generation as a loop over an ORACLE STREAM of trials (params, w1, cost, w2),
   one generation = N such loops, get_posterior_sample / continue_posterior_sample as a loop
   over generations with ABC.get_tolerance, numpy's linear-interpolation quantile over Qc.
   Everything that is pygom's own decision logic is a field of the record [code]; the
   translator gen/gen_abc.py fills it from the current source (Gen/ABCGen.v: gen_code).
   External engines (prior sampling, rmvnorm, the prior density method, obj.cost, dmvnorm) are the
   trial stream: the theorems hold for ALL streams, i.e. all seeds. *)
From Coq Require Import List Arith ZArith QArith Qcanon Qround Bool Lia Orders Sorting.Mergesort.
Import ListNotations.
Open Scope Qc_scope.

(* ---------------------------------------------------------------- numbers *)
(* a float enters as the exact dyadic rational m * 2^e (float.hex()) *)
Definition dy (m e : Z) : Qc :=
  Q2Qc (if (0 <=? e)%Z then inject_Z (m * 2 ^ e) else Qmake m (Z.to_pos (2 ^ (- e)))).

Definition Qc_ltb (a b : Qc) : bool := match a ?= b with Lt => true | _ => false end.
Definition Qc_leb (a b : Qc) : bool := match a ?= b with Gt => false | _ => true end.
Definition Qc_eqb (a b : Qc) : bool := match a ?= b with Eq => true | _ => false end.
(* Python truthiness of a float: `if w1:` *)
Definition truthy (x : Qc) : bool := negb (Qc_eqb x 0).

(* tolerances may be +inf (tol=np.inf is the documented first tolerance) *)
Inductive ext := Fin (x : Qc) | PInf.
Definition lt_ext (c : Qc) (t : ext) : bool := match t with PInf => true | Fin x => Qc_ltb c x end.
Definition le_ext (c : Qc) (t : ext) : bool := match t with PInf => true | Fin x => Qc_leb c x end.
Definition LtExt (c : Qc) (t : ext) : Prop := match t with PInf => True | Fin x => c < x end.
Definition ext_leb (a b : ext) : bool :=
  match a, b with _, PInf => true | PInf, Fin _ => false | Fin x, Fin y => Qc_leb x y end.
Definition ExtLe (a b : ext) : Prop :=
  match a, b with _, PInf => True | PInf, Fin _ => False | Fin x, Fin y => x <= y end.

(* ---------------------------------------------------------------- np.quantile(dist, q) *)
Module QcOrder <: TotalLeBool.
  Definition t := Qc.
  Definition leb := Qc_leb.
  Theorem leb_total : forall a b, leb a b = true \/ leb b a = true.
  Proof. intros a b. unfold leb, Qc_leb, Qccompare. rewrite <- (Qcompare_antisym (this b) (this a)).
    destruct (this b ?= this a)%Q; simpl; auto. Qed.
End QcOrder.
Module QcSort := Sort QcOrder.

Definition qfloor (x : Qc) : Z := Qfloor (this x).
Definition ofZ (z : Z) : Qc := Q2Qc (inject_Z z).

(* numpy method='linear' (the default): virtual index h = (n-1) q, previous = floor h, next = previous+1,
   both clipped into [0, n-1], gamma = h - floor h, result = a + gamma (b - a) on the sorted sample *)
Definition quantile_linear (l : list Qc) (q : Qc) : Qc :=
  let s := QcSort.sort l in
  let n := length l in
  let h := ofZ (Z.of_nat (n - 1)) * q in
  let j := Z.to_nat (qfloor h) in
  let f := h - ofZ (qfloor h) in
  let a := nth (Nat.min j (n - 1)) s 0 in
  let b := nth (Nat.min (j + 1) (n - 1)) s 0 in
  a + f * (b - a).
(* a different interpolation rule, only so that a changed `method=` has something to be translated to *)
Definition quantile_lower (l : list Qc) (q : Qc) : Qc :=
  let s := QcSort.sort l in
  let n := length l in
  nth (Nat.min (Z.to_nat (qfloor (ofZ (Z.of_nat (n - 1)) * q))) (n - 1)) s 0.

(* ---------------------------------------------------------------- data *)
Definition P := list Qc.                                   (* a parameter vector (one row of abc.res) *)
Record trial := mkT { t_par : P; t_w1 : Qc; t_cost : Qc; t_w2 : Qc }.
Record part := mkP { p_par : P; p_dist : Qc; p_w : Qc; p_rej : nat }.

(* self.tol : a scalar or a sequence *)
Inductive tolspec := TScalar (t : ext) | TList (l : list ext).
Definition tol_has_len (t : tolspec) : bool := match t with TScalar _ => false | TList _ => true end.
Definition tol_self (t : tolspec) : ext := match t with TScalar x => x | TList _ => Fin 0 end.
Definition tol_nth (t : tolspec) (i : nat) : ext := match t with TScalar _ => Fin 0 | TList l => nth i l (Fin 0) end.
Definition is_some {X} (o : option X) : bool := match o with Some _ => true | None => false end.
Definition q_val (o : option Qc) : Qc := match o with Some q => q | None => 0 end.

(* pygom's own decision logic, as extracted from the source *)
Record code := mkCode {
  k_accept : Qc -> Qc -> ext -> bool;            (* w1 cost tolerance  -> reaches `break` *)
  k_w2 : nat -> Qc -> Qc;                        (* generation, dot(wk,w_old) -> w2 *)
  k_stored_w : Qc -> Qc -> Qc -> Qc;             (* w1 w2 cost -> what lands in self.w[i] *)
  k_stored_dist : Qc -> Qc -> Qc -> Qc;          (* w1 w2 cost -> what lands in self.dist[i] *)
  k_stored_rej : nat -> nat;                     (* rejections -> what is added to the counter *)
  k_res_is_trial : bool;                         (* self.res[i] receives trial_params *)
  k_counter : nat -> nat -> nat;                 (* total_counter, rejections -> total_counter *)
  k_get_tol : nat -> tolspec -> option Qc -> list Qc -> ext;   (* ABC.get_tolerance *)
  k_start : nat -> nat -> nat;                   (* rerun G -> first g of the generation loop *)
  k_stop : nat -> nat -> nat;                    (* rerun G -> stop of the range *)
  k_tol_arg : nat -> nat -> nat;                 (* g rerun -> argument of get_tolerance *)
  k_tol_slot : nat -> nat -> nat;                (* g rerun -> index written in self.tolerances *)
  k_gen_arg : nat -> nat -> nat;                 (* g rerun -> `generation` seen by _perform_generation *)
  k_tol_passed : bool;                           (* _perform_generation gets the tolerance just computed *)
  k_final_is_last : bool;                        (* self.final_tol = tolerance of the last generation *)
  k_continue_guard : bool;                       (* continue asserts N == self.N and tol(0) <= self.final_tol *)
  k_continue_rerun : bool;                       (* continue calls get_posterior_sample(..., rerun=True) *)
  k_fresh_resets : bool                          (* `if not rerun:` res/w/dist are re-allocated *)
}.

(* the reading of the source this development was written against *)
Definition ref_get_tol (g : nat) (tol : tolspec) (q : option Qc) (dist : list Qc) : ext :=
  if Nat.eqb g 0 then (if negb (tol_has_len tol) then tol_self tol else tol_nth tol 0)
  else (if is_some q then Fin (quantile_linear dist (q_val q)) else tol_nth tol g).
Definition ref_code : code :=
  mkCode (fun w1 c tol => truthy w1 && lt_ext c tol)
         (fun g w2 => if Nat.eqb g 0 then 1 else w2)
         (fun w1 w2 c => w1 / w2) (fun w1 w2 c => c) (fun r => r) true
         (fun tc r => (tc + (r + 1))%nat)
         ref_get_tol
         (fun rr G => rr) (fun rr G => (G + rr)%nat)
         (fun g rr => (g - rr)%nat) (fun g rr => (g - rr)%nat) (fun g rr => g)
         true true true true true.

(* ---------------------------------------------------------------- one particle: _perform_generation *)
Inductive outcome := Accepted (p : part) (rest : list trial) | OutOfTrials.

Fixpoint perform (k : code) (gen : nat) (tol : ext) (s : list trial) (rej : nat) : outcome :=
  match s with
  | [] => OutOfTrials
  | t :: r =>
    if k_accept k (t_w1 t) (t_cost t) tol then
      let w2 := k_w2 k gen (t_w2 t) in
      Accepted (mkP (if k_res_is_trial k then t_par t else [])
                    (k_stored_dist k (t_w1 t) w2 (t_cost t))
                    (k_stored_w k (t_w1 t) w2 (t_cost t))
                    (k_stored_rej k rej)) r
    else perform k gen tol r (S rej)
  end.

(* `for i in range(self.N)` of one generation; cnt is total_counter *)
Fixpoint particles (k : code) (gen : nat) (tol : ext) (n : nat) (s : list trial) (cnt : nat)
  : option (list part * nat * list trial) :=
  match n with
  | O => Some ([], cnt, s)
  | S n' =>
    match perform k gen tol s 0 with
    | OutOfTrials => None
    | Accepted p r =>
      match particles k gen tol n' r (k_counter k cnt (p_rej p)) with
      | None => None
      | Some (ps, c, r') => Some (p :: ps, c, r')
      end
    end
  end.

(* ---------------------------------------------------------------- get / continue *)
Record call := mkC { c_rerun : bool; c_N : nat; c_tol : tolspec; c_G : nat; c_q : option Qc }.
Record state := mkS { s_parts : list part;      (* res, dist, w row by row *)
                      s_tols : list ext;        (* self.tolerances of the last call *)
                      s_final : ext;            (* self.final_tol *)
                      s_counts : list nat;      (* total_counter per generation of the last call *)
                      s_hist : list ext }.      (* every tolerance used since the last fresh run *)
Definition init_state : state := mkS [] [] PInf [] [].

Fixpoint set_nth {X} (l : list X) (i : nat) (v : X) : list X :=
  match l, i with [], _ => [] | _ :: r, O => v :: r | x :: r, S j => x :: set_nth r j v end.

Fixpoint gens (k : code) (c : call) (rr : nat) (n : nat) (g : nat) (ps : list part) (tols : list ext)
         (last : ext) (cnts : list nat) (hist : list ext) (s : list trial)
  : option (list part * list ext * ext * list nat * list ext * list trial) :=
  match n with
  | O => Some (ps, tols, last, cnts, hist, s)
  | S n' =>
    let tol := k_get_tol k (k_tol_arg k g rr) (c_tol c) (c_q c) (map p_dist ps) in
    let used := if k_tol_passed k then tol else last in
    match particles k (k_gen_arg k g rr) used (c_N c) s 0 with
    | None => None
    | Some (ps', cnt, s') =>
      gens k c rr n' (S g) ps' (set_nth tols (k_tol_slot k g rr) tol) tol (cnts ++ [cnt]) (hist ++ [tol]) s'
    end
  end.

Definition first_tol (t : tolspec) : ext := match t with TScalar x => x | TList l => nth 0 l (Fin 0) end.
Definition blank : part := mkP [] 0 1 0.      (* np.zeros / np.ones rows of a fresh run *)

Inductive result := Done (st : state) (rest : list trial) | Refused | Starved.

Definition do_call (k : code) (st : state) (c : call) (s : list trial) : result :=
  let rerun := c_rerun c && k_continue_rerun k in
  let rr := if rerun then 1%nat else 0%nat in
  if c_rerun c && k_continue_guard k &&
     negb (Nat.eqb (c_N c) (length (s_parts st)) && ext_leb (first_tol (c_tol c)) (s_final st))
  then Refused
  else
    let fresh := negb rerun && k_fresh_resets k in
    let ps0 := if fresh then repeat blank (c_N c) else s_parts st in
    let h0 := if rerun then s_hist st else [] in
    match gens k c rr (k_stop k rr (c_G c) - k_start k rr (c_G c)) (k_start k rr (c_G c))
               ps0 (repeat (Fin 0) (c_G c)) (s_final st) [] h0 s with
    | None => Starved
    | Some (ps, tols, last, cnts, hist, s') =>
      Done (mkS ps tols (if k_final_is_last k then last else s_final st) cnts hist) s'
    end.

(* a history of get_posterior_sample / continue_posterior_sample calls; a refused call (AssertionError
   before anything is touched) leaves the object as it was *)
Fixpoint run (k : code) (st : state) (cs : list call) (s : list trial) : option (state * list trial) :=
  match cs with
  | [] => Some (st, s)
  | c :: r =>
    match do_call k st c s with
    | Done st' s' => run k st' r s'
    | Refused => run k st r s
    | Starved => None
    end
  end.

(* the asserts at the top of get_posterior_sample: shapes of (tol, G, q) that are accepted *)
Definition wf_call (c : call) : Prop :=
  (1 <= c_G c)%nat /\
  match c_tol c, c_q c with
  | TScalar _, None => c_G c = 1%nat
  | TScalar _, Some _ => True
  | TList l, None => (2 <= c_G c)%nat /\ length l = c_G c
  | TList _, Some _ => False
  end.
Definition wf_callb (c : call) : bool :=
  Nat.leb 1 (c_G c) &&
  match c_tol c, c_q c with
  | TScalar _, None => Nat.eqb (c_G c) 1
  | TScalar _, Some _ => true
  | TList l, None => Nat.leb 2 (c_G c) && Nat.eqb (length l) (c_G c)
  | TList _, Some _ => false
  end.

(* ---------------------------------------------------------------- comparators for the case files *)
Definition Qc_abs (x : Qc) : Qc := if Qc_ltb x 0 then - x else x.
(* |a-b| <= 2^-40 * |b| : only used by the correspondence differ for float-rounded quantities *)
Definition close (a b : Qc) : bool := Qc_leb (Qc_abs (a - b)) (dy 1 (-40) * Qc_abs b).
(* |a-b| <= 2^-40 * (|b| + 1) : interpolated quantiles (a + g (b - a) can cancel, so an absolute floor is kept) *)
Definition close1 (a b : Qc) : bool := Qc_leb (Qc_abs (a - b)) (dy 1 (-40) * (Qc_abs b + 1)).
Definition ext_close (a b : ext) : bool :=
  match a, b with PInf, PInf => true | Fin x, Fin y => close1 x y | _, _ => false end.
Definition plist_eqb (a b : P) : bool :=
  (fix go a b := match a, b with [], [] => true | x :: r, y :: s => Qc_eqb x y && go r s | _, _ => false end) a b.
Fixpoint all2 {X Y} (f : X -> Y -> bool) (a : list X) (b : list Y) : bool :=
  match a, b with [], [] => true | x :: r, y :: s => f x y && all2 f r s | _, _ => false end.
