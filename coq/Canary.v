(* C08 — model of pygom's recompile-flag machinery.

   Transcribed from
     ode_utils/compile_canary.py : CompileCanary.trip / reset / __setattr__ / __getattr__
     deterministic.py            : DeterministicOde.add_func (closure `func`), add_compiled_sympy_object
     base_ode_model.py           : the public mutators, the `parameters` setter (-> set_sp)
     simulate.py                 : the canary entries and the add_func registrations
   and parameterised by the facts the translator gen/gen_canary.py extracts from the current source
   (record [facts]; the instance for the current tree is Gen.CanaryGen.facts).

   What a compiled evaluator is, abstractly: a snapshot (definition it was generated from, number of
   parameter symbols in self._sp at that moment, parameter values if they were captured).  Calling it
   with the live parameter vector fails (TypeError: wrong number of positional arguments) when the
   vector no longer has the length the snapshot was compiled for. *)
From Coq Require Import List String Bool Arith ZArith.
Import ListNotations.
Open Scope string_scope.

Definition name := string.
Definition mop := (name * nat)%type.     (* one accepted definition change: mutator name, payload id *)

Record facts := {
  f_mutators : list (name * bool);   (* public mutator |-> every normal path that changes the definition calls trip() *)
  f_canary : list name;              (* HasNewTransition.states of SimulateOde *)
  f_registered : list (name * bool); (* add_func registrations: evaluator |-> is_master_canary *)
  f_param_mutator : name;            (* the mutator that declares a new parameter ("param_list") *)
  f_cond_missing : bool;             (* add_func.func recompiles when <name>Compiled does not exist yet *)
  f_cond_flag : bool;                (* ... or when its own canary entry is set *)
  f_trip_value : bool;               (* the value trip() writes into every entry (True) *)
  f_reset_value : bool;              (* the value reset(name) writes (False) *)
  f_master_trip_first : bool;        (* master canary: trip() is called before reset(name) *)
  f_params_at_call : bool;           (* the compiled wrapper reads self._paramValue when called, not when built *)
  f_getters_fresh : bool;            (* every registered sympy generator recomputes from the live lists (no cache) *)
  f_setter_sets_sp : bool;           (* the `parameters` setter ends with self.set_sp() *)
  f_sp_change_trips : bool           (* a change of self._sp (the compiled argument list) trips the canary *)
}.

Fixpoint lookup {X} (k : name) (l : list (name * X)) : option X :=
  match l with [] => None | (k', v) :: r => if String.eqb k k' then Some v else lookup k r end.
Fixpoint mem (k : name) (l : list name) : bool :=
  match l with [] => false | k' :: r => String.eqb k k' || mem k r end.

(* every registered evaluator has a canary entry (otherwise reset() creates a plain attribute that
   trip() never touches: the evaluator is compiled once and never again) *)
Definition names_match (F : facts) : bool := forallb (fun p => mem (fst p) (f_canary F)) (f_registered F).

Definition snap := (list mop * nat * list Z)%type.   (* definition, arity (= parameters in _sp), captured values *)

Record state := {
  def : list mop;                  (* accepted definition changes so far, oldest first *)
  np : nat;                        (* len(self._paramList) *)
  sp : nat;                        (* number of parameter symbols in self._sp *)
  pv : list Z;                     (* self._paramValue *)
  flags : name -> bool;            (* self._hasNewTransition.<name> *)
  compiled : name -> option snap   (* self.<name>Compiled *)
}.

Inductive op :=
| Mutate (m : name) (k : nat)      (* call the public mutator m with a new object k *)
| SetList (vs : list Z)            (* model.parameters = [v0, v1, ...] *)
| SetDict (l : list (nat * Z))     (* model.parameters = {name_i: v, ...}  (partial update) *)
| Eval (e : name).                 (* call evaluator e at some (state, t) *)

Inductive result := Err | Val (d : list mop) (vals : list Z).

Definition upd {X} (f : name -> X) (k : name) (v : X) : name -> X := fun k' => if String.eqb k' k then v else f k'.

(* CompileCanary.trip: self._states = {state: True for state in self.states} *)
Definition trip (F : facts) (fl : name -> bool) : name -> bool :=
  fun e => if mem e (f_canary F) then f_trip_value F else fl e.
(* CompileCanary.reset(name) -> __setattr__(name, False) *)
Definition reset (F : facts) (e : name) (fl : name -> bool) : name -> bool := upd fl e (f_reset_value F).

Definition with_flags (s : state) fl :=
  {| def := def s; np := np s; sp := sp s; pv := pv s; flags := fl; compiled := compiled s |}.

(* model constructed with n0 parameters: canary freshly tripped, nothing compiled,
   _paramValue = [0]*n0, set_sp() done *)
Definition init (F : facts) (n0 : nat) : state :=
  {| def := []; np := n0; sp := n0; pv := repeat 0%Z n0; flags := fun _ => f_trip_value F; compiled := fun _ => None |}.

(* the condition in add_func.func:  not hasattr(self, name+"Compiled") or getattr(canary, name) *)
Definition needs (F : facts) (s : state) (e : name) : bool :=
  (f_cond_missing F && match compiled s e with None => true | Some _ => false end)
  || (f_cond_flag F && flags s e).

(* add_compiled_sympy_object *)
Definition recompile (F : facts) (s : state) (e : name) (master : bool) : state :=
  let fl := flags s in
  let fl := if master && f_master_trip_first F then trip F fl else fl in
  let fl := reset F e fl in
  let fl := if master && negb (f_master_trip_first F) then trip F fl else fl in
  {| def := def s; np := np s; sp := sp s; pv := pv s; flags := fl;
     compiled := upd (compiled s) e (Some (def s, sp s, pv s)) |}.

Definition call (F : facts) (s : state) (e : name) : result :=
  match compiled s e with
  | None => Err
  | Some (d, a, cv) =>
      let vals := if f_params_at_call F then pv s else cv in
      if Nat.eqb a (List.length vals) then Val d vals else Err
  end.

Definition eval (F : facts) (s : state) (e : name) : state * result :=
  match lookup e (f_registered F) with
  | None => (s, Err)                                   (* no such method *)
  | Some master =>
      let s' := if needs F s e then recompile F s e master else s in
      (s', call F s' e)
  end.

(* tail of the `parameters` setter: self._paramValue rebuilt with len(_paramList) entries; self.set_sp() *)
Definition set_values (F : facts) (s : state) (vals : list Z) : state :=
  let sp' := if f_setter_sets_sp F then np s else sp s in
  let fl := if f_sp_change_trips F && negb (Nat.eqb sp' (sp s)) then trip F (flags s) else flags s in
  {| def := def s; np := np s; sp := sp'; pv := vals; flags := fl; compiled := compiled s |}.

Fixpoint set_nth (l : list Z) (i : nat) (v : Z) : list Z :=
  match l, i with [], _ => [] | _ :: r, O => v :: r | x :: r, S j => x :: set_nth r j v end.
Definition pad (l : list Z) (n : nat) : list Z := l ++ repeat 0%Z (n - List.length l).

Definition step (F : facts) (s : state) (o : op) : state :=
  match o with
  | Mutate m k =>
      match lookup m (f_mutators F) with
      | None => s                                       (* no such method: AttributeError, nothing changes *)
      | Some trips =>
          {| def := def s ++ [(m, k)];
             np := if String.eqb m (f_param_mutator F) then S (np s) else np s;
             sp := sp s; pv := pv s;
             flags := if trips then trip F (flags s) else flags s;
             compiled := compiled s |}
      end
  | SetList vs => if Nat.eqb (List.length vs) (np s) then set_values F s vs else s       (* wrong length: InputError *)
  | SetDict l =>
      if forallb (fun p => Nat.ltb (fst p) (np s)) l                                  (* unknown name: InputError *)
      then set_values F s (fold_left (fun acc p => set_nth acc (fst p) (snd p)) l (pad (pv s) (np s)))
      else s
  | Eval e => fst (eval F s e)
  end.

Definition run (F : facts) (s : state) (ops : list op) : state := fold_left (step F) ops s.

(* the same definition and parameter values reached without ever evaluating anything:
   "a freshly constructed model with the same final definition" *)
Definition is_eval (o : op) := match o with Eval _ => true | _ => false end.
Definition strip (ops : list op) : list op := filter (fun o => negb (is_eval o)) ops.

(* ---- what the correspondence observes after every operation ---- *)
Definition result_eqb (a b : result) : bool :=
  match a, b with
  | Err, Err => true
  | Val d v, Val d' v' =>
      (fix le (x y : list mop) := match x, y with
         | [], [] => true
         | (m, k) :: r, (m', k') :: r' => String.eqb m m' && Nat.eqb k k' && le r r'
         | _, _ => false end) d d'
      && (fix lz (x y : list Z) := match x, y with
         | [], [] => true | a :: r, b :: r' => Z.eqb a b && lz r r' | _, _ => false end) v v'
  | _, _ => false
  end.

Record obs := {
  o_flags : list bool;      (* canary entries, in the order of f_canary *)
  o_recompiled : list bool; (* which <name>Compiled changed identity, in the order of f_registered *)
  o_status : nat;           (* 0 = not an evaluation, 1 = returned a value, 2 = raised *)
  o_fresh : bool            (* evaluation returned the value of the current definition at the current values *)
}.

Definition observe (F : facts) (s : state) (o : op) : state * obs :=
  let s' := step F s o in
  let fl := map (flags s') (f_canary F) in
  match o with
  | Eval e =>
      let r := snd (eval F s e) in
      let isreg := match lookup e (f_registered F) with Some _ => true | None => false end in
      (s', {| o_flags := fl;
              o_recompiled := map (fun p => isreg && String.eqb (fst p) e && needs F s e) (f_registered F);
              o_status := match r with Err => 2 | Val _ _ => 1 end;
              o_fresh := result_eqb r (Val (def s') (pv s')) |})
  | _ => (s', {| o_flags := fl; o_recompiled := map (fun _ => false) (f_registered F); o_status := 0; o_fresh := true |})
  end.

Fixpoint trace (F : facts) (s : state) (ops : list op) : list obs :=
  match ops with
  | [] => []
  | o :: r => let (s', ob) := observe F s o in ob :: trace F s' r
  end.

(* comparison with what the harness saw on the live model: flags, recompile set and status exactly;
   freshness one-way (a stale closure may still return the right number by coincidence) *)
Fixpoint blist_eqb (a b : list bool) : bool :=
  match a, b with [], [] => true | x :: r, y :: s => Bool.eqb x y && blist_eqb r s | _, _ => false end.
Definition obs_agrees (m : obs) (seen : list bool * list bool * nat * bool) : bool :=
  let '(sf, sr, st, fresh) := seen in
  blist_eqb (o_flags m) sf && blist_eqb (o_recompiled m) sr && Nat.eqb (o_status m) st
  && implb (o_fresh m) fresh.
Fixpoint all2 {X Y} (f : X -> Y -> bool) (a : list X) (b : list Y) : bool :=
  match a, b with [], [] => true | x :: r, y :: s => f x y && all2 f r s | _, _ => false end.
Definition chk (F : facts) (c : nat * list op * list (list bool * list bool * nat * bool)) : bool :=
  let '(n0, ops, seen) := c in all2 obs_agrees (trace F (init F n0) ops) seen.

(* ---- the fact table the theorems need ---- *)
Definition good (F : facts) : bool :=
  forallb snd (f_mutators F) && names_match F
  && f_cond_missing F && f_cond_flag F && f_trip_value F && negb (f_reset_value F)
  && f_params_at_call F && f_getters_fresh F && f_setter_sets_sp F && f_sp_change_trips F.

(* the table of a tree on which the property holds (used for examples and for the refutations) *)
Definition evaluators11 : list name :=
  ["ode"; "jacobian"; "diff_jacobian"; "grad"; "grad_jacobian"; "transitionJacobian"; "pureOdeVector";
   "vMat"; "eventRateVector"; "transitionMean"; "transitionVar"].
Definition ideal_mutators (addode : bool) : list (name * bool) :=
  [("add_transition", true); ("add_event", true); ("add_birth_death", true); ("add_ode", addode);
   ("param_list", true); ("state_list", true); ("derived_param_list", true); ("_addDerivedParam", true);
   ("transition_list", true); ("event_list", true); ("birth_death_list", true); ("ode_list", addode)].
Definition ideal (addode sptrips : bool) : facts :=
  {| f_mutators := ideal_mutators addode; f_canary := evaluators11;
     f_registered := map (fun e => (e, String.eqb e "ode")) evaluators11;
     f_param_mutator := "param_list";
     f_cond_missing := true; f_cond_flag := true; f_trip_value := true; f_reset_value := false;
     f_master_trip_first := true; f_params_at_call := true; f_getters_fresh := true;
     f_setter_sets_sp := true; f_sp_change_trips := sptrips |}.
