(* Exact evaluation of the derivative objects of Derivs.v for the correspondence check of C03. *)
From Coq Require Import List Arith Bool QArith Qabs Qcanon.
From PV Require Import Util Assembly Expr Derivs.
Import ListNotations.
Close Scope Q_scope.

Definition tyc (n : nat) : ttype := match n with O => Assembly.B | S O => Assembly.D | _ => Assembly.T end.
Definition elit := (nat * list (expr * list (nat * nat * nat * expr)) * list (nat * expr))%type.
Definition mk (c : elit) : emodel :=
  let '(n, evs, os) := c in
  {| nS := n;
     events := map (fun e : expr * list (nat * nat * nat * expr) =>
                 {| rate := fst e;
                    trans := map (fun t : nat * nat * nat * expr => let '(ty0, o, d, m) := t in
                                    {| ty := tyc ty0; orig := o; dest := d; mag := m |}) (snd e) |}) evs;
     odes := os |}.

Definition env (vals : list Q) : nat -> Qc := fun n => Q2Qc (nth n vals 0%Q).
Definition close (eps : Q) (a : option Qc) (b : Q) : bool :=
  match a with Some v => Qle_bool (Qabs (this v - b)) (eps * (1 + Qabs b))%Q | None => false end.
Fixpoint all_close (eps : Q) (f : nat -> option Qc) (l : list Q) (i : nat) : bool :=
  match l with [] => true | b :: r => close eps (f i) b && all_close eps f r (S i) end.

(* case: model, number of parameters, point (states, t, params), oracle, eps, and pygom's row-major
   jacobian / grad / diff_jacobian / grad_jacobian / transitionJacobian / transitionMean / transitionVar *)
Definition dcase := (elit * nat * list Q * oracle * Q * list Q * list Q * list Q * list Q * list Q * list Q * list Q)%type.
Definition chk (c : dcase) : bool :=
  let '(l, nP, vals, o, eps, J, G, DJ, GJ, F, MU, SG) := c in
  let m := mk l in let r := env vals in let n := nS m in let ne := nE m in
  all_close eps (fun k => evO r o (jac m (k / n) (k mod n))) J 0 &&
  all_close eps (fun k => evO r o (grad m (k / nP) (k mod nP))) G 0 &&
  all_close eps (fun k => evO r o (diff_jac m (k / n) (k mod n))) DJ 0 &&
  all_close eps (fun k => evO r o (grad_jac m (k / n) (k mod n))) GJ 0 &&
  all_close eps (fun k => evO r o (tF m (k / ne) (k mod ne))) F 0 &&
  all_close eps (fun k => evO r o (tmean m k)) MU 0 &&
  all_close eps (fun k => evO r o (tvar m k)) SG 0 &&
  Nat.eqb (length J) (n * n) && Nat.eqb (length G) (n * nP) && Nat.eqb (length DJ) (n * n * n) &&
  Nat.eqb (length GJ) (nP * n * n) && Nat.eqb (length F) (ne * ne) && Nat.eqb (length MU) ne && Nat.eqb (length SG) ne.
(* which of the seven objects disagree (diagnosis) *)
Definition which (c : dcase) : list bool :=
  let '(l, nP, vals, o, eps, J, G, DJ, GJ, F, MU, SG) := c in
  let m := mk l in let r := env vals in let n := nS m in let ne := nE m in
  [ all_close eps (fun k => evO r o (jac m (k / n) (k mod n))) J 0;
    all_close eps (fun k => evO r o (grad m (k / nP) (k mod nP))) G 0;
    all_close eps (fun k => evO r o (diff_jac m (k / n) (k mod n))) DJ 0;
    all_close eps (fun k => evO r o (grad_jac m (k / n) (k mod n))) GJ 0;
    all_close eps (fun k => evO r o (tF m (k / ne) (k mod ne))) F 0;
    all_close eps (fun k => evO r o (tmean m k)) MU 0;
    all_close eps (fun k => evO r o (tvar m k)) SG 0 ].
