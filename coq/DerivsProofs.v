From Coq Require Import Reals Lra List Arith QArith Qreals Lia.
From Coquelicot Require Import Coquelicot.
From PV Require Import Assembly Expr ExprProofs Derivs.
Import ListNotations.
Open Scope R_scope.

Theorem jac_correct (m : emodel) r i j : ok r (eode m i) ->
  is_derive (fun v => ev (upd r j v) (eode m i)) (r j) (ev r (jac m i j)).
Proof. intros H. apply D_correct, H. Qed.
Theorem grad_correct (m : emodel) r i k : ok r (eode m i) ->
  is_derive (fun v => ev (upd r (pvar m k) v) (eode m i)) (r (pvar m k)) (ev r (grad m i k)).
Proof. intros H. apply D_correct, H. Qed.

Lemma divmod_row n i a : (a < n)%nat -> ((i * n + a) / n = i /\ (i * n + a) mod n = a)%nat.
Proof. intros H. split.
  - rewrite Nat.add_comm, Nat.div_add by lia. rewrite Nat.div_small by lia. reflexivity.
  - rewrite Nat.add_comm, Nat.mod_add by lia. apply Nat.mod_small; lia. Qed.

(* second state-derivatives: row i*nS + a, column b *)
Theorem diff_jac_layout (m : emodel) i a b : (a < nS m)%nat ->
  diff_jac m (i * nS m + a) b = D b (D a (eode m i)).
Proof. intros H. unfold diff_jac. destruct (divmod_row (nS m) i a H) as [-> ->]. reflexivity. Qed.
Theorem diff_jac_correct (m : emodel) r i a b : (a < nS m)%nat -> ok r (eode m i) ->
  is_derive (fun v => ev (upd r b v) (jac m i a)) (r b) (ev r (diff_jac m (i * nS m + a) b)).
Proof. intros Ha H. rewrite diff_jac_layout by exact Ha. apply D2_correct, H. Qed.

(* state-derivative of the parameter gradient: row k*nS + i, column j *)
Theorem grad_jac_layout (m : emodel) k i j : (i < nS m)%nat ->
  grad_jac m (k * nS m + i) j = D j (D (pvar m k) (eode m i)).
Proof. intros H. unfold grad_jac. destruct (divmod_row (nS m) k i H) as [-> ->]. reflexivity. Qed.
Theorem grad_jac_correct (m : emodel) r k i j : (i < nS m)%nat -> ok r (eode m i) ->
  is_derive (fun v => ev (upd r j v) (grad m i k)) (r j) (ev r (grad_jac m (k * nS m + i) j)).
Proof. intros Hi H. rewrite grad_jac_layout by exact Hi. apply D2_correct, H. Qed.

(* rate-sensitivity matrix, mean and variance of rate change equal their definitions *)
Definition rsum (l : list R) := fold_right Rplus 0 l.
Theorem tF_correct (m : emodel) r i j : ok r (erate m i) ->
  ev r (tF m i j)
  = rsum (map (fun k => Derive (fun v => ev (upd r k v) (erate m i)) (r k) * ev r (evmat m k j)) (seq 0 (nS m))).
Proof. intros H. unfold tF. rewrite ev_esum, map_map. unfold rsum. f_equal. apply map_ext. intros k. simpl.
  f_equal. symmetry. apply is_derive_unique, D_correct, H. Qed.
Theorem tmean_correct (m : emodel) r i :
  ev r (tmean m i) = rsum (map (fun j => ev r (tF m i j) * ev r (erate m j)) (seq 0 (nE m))).
Proof. unfold tmean. rewrite ev_esum, map_map. reflexivity. Qed.
Theorem tvar_correct (m : emodel) r i :
  ev r (tvar m i) = rsum (map (fun j => ev r (tF m i j) * ev r (tF m i j) * ev r (erate m j)) (seq 0 (nE m))).
Proof. unfold tvar. rewrite ev_esum, map_map. reflexivity. Qed.

(* the expression-level ODE is the ring-level ODE of C01 evaluated pointwise *)
Definition rmodel (r : nat -> R) (m : emodel) : model R :=
  {| nS := nS m;
     events := map (fun e => {| rate := ev r (rate e);
                                trans := map (fun t => {| ty := ty t; orig := orig t; dest := dest t; mag := ev r (mag t) |}) (trans e) |})
                   (events m);
     odes := map (fun o => (fst o, ev r (snd o))) (odes m) |}.
Lemma ev_sum r (l : list Expr.expr) : ev r (Assembly.sum expr (Cst 0) Add l) = Assembly.sum R 0 Rplus (map (ev r) l).
Proof. induction l; simpl; [apply Q2R_0 | rewrite IHl; reflexivity]. Qed.
Lemma ev_ind r b : ev r (Assembly.ind expr (Cst 0) (Cst 1) b) = Assembly.ind R 0 1 b.
Proof. destruct b; simpl; [apply Q2R_1 | apply Q2R_0]. Qed.
Lemma ev_sgn r (t : transition expr) i :
  ev r (sgn expr (Cst 0) (Cst 1) esub Neg t i)
  = sgn R 0 1 Rminus Ropp {| ty := ty t; orig := orig t; dest := dest t; mag := ev r (mag t) |} i.
Proof. unfold sgn; simpl. destruct (ty t); simpl; rewrite ?ev_ind; reflexivity. Qed.
Theorem ev_eode r (m : emodel) i :
  ev r (eode m i) = ode_vec R 0 1 Rplus Rmult Rminus Ropp (rmodel r m) i.
Proof. unfold eode, ode_vec. cbn [ev]. f_equal.
  - unfold ev_part, rmodel. cbn [events]. rewrite ev_sum, !map_map. f_equal. apply map_ext. intros e.
    cbn [trans rate]. rewrite ev_sum, !map_map. f_equal. apply map_ext. intros t. cbn [ev mag]. rewrite ev_sgn. reflexivity.
  - unfold pure_vec, rmodel. cbn [odes]. rewrite ev_sum, !map_map. f_equal. apply map_ext. intros o. cbn [ev fst snd].
    rewrite ev_ind. reflexivity. Qed.
