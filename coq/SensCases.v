(* C13 — the model of Sens.v instantiated at Z, and the comparison functions used by the correspondence
   case files written by harness/c13.py (inputs and the outputs observed on the real pygom are literals). *)
From Coq Require Import List Arith Bool ZArith.
From PV Require Import Util Shapes Sens.
Import ListNotations.

Definition zvec (l : list Z) : vec Z := vec_of_list Z 0%Z l.
(* row-major flat list -> r x c array *)
Definition zarr (r c : nat) (l : list Z) : arr Z := Build_arr r c (fun i j => nth (i * c + j) l 0%Z).
Definition flat (X : arr Z) : list Z := concat (arr_to_lists X).

(* dense row-major list against the flat list [p0; v0; p1; v1; ...] of its non-zero entries (positions increasing);
   flat integer lists only: lists of pairs with scope annotations elaborate in quadratic time *)
Fixpoint sparse_eqb_from (k : Z) (dense : list Z) (nz : list Z) : bool :=
  match dense with
  | [] => match nz with [] => true | _ => false end
  | x :: r =>
      match nz with
      | p :: v :: nz' => if Z.eqb p k then Z.eqb x v && negb (Z.eqb v 0) && sparse_eqb_from (k + 1) r nz'
                         else Z.eqb x 0 && sparse_eqb_from (k + 1) r nz
      | [] => Z.eqb x 0 && sparse_eqb_from (k + 1) r []
      | _ => false
      end
  end.
Definition sparse_eqb := sparse_eqb_from 0%Z.

Record kcase := KC {
  k_nS : nat; k_nP : nat;
  k_f : list Z; k_J : list Z; k_G : list Z; k_DJ : list Z; k_GJ : list Z;      (* row-major *)
  k_z : list Z;       (* state ++ sensitivities, length nS + nS*nP *)
  k_zIV : list Z;     (* state ++ sensitivities ++ initial-value sensitivities *)
  e_rhs : list Z; e_rhs_bs : list Z; e_rhs_iv : list Z;         (* observed on pygom *)
  e_jac_nr : nat; e_jac_nc : nat; e_jac : list Z;               (* non-zero entries, see sparse_eqb *)
  e_jac_bs : option (list Z);                                   (* None: pygom raised IndexError *)
  e_jac_iv_nr : nat; e_jac_iv_nc : nat; e_jac_iv : list Z }.

Section Chk.
  Variable fc : facts.
  Variable arrange : nat -> nat -> nat -> nat.
  Variables perm_cols relayout : bool.

  Definition shape_eqb (X : arr Z) (r c : nat) := (nr X =? r) && (nc X =? c).

  (* numbers of the parts on which model and implementation differ:
     1 rhs  2 rhs by_state  3 rhs IV  4 jacobian  5 jacobian by_state  6 jacobian IV *)
  Definition chk_parts (c : kcase) : list nat :=
    let nS := k_nS c in let nP := k_nP c in
    let f := zvec (k_f c) in let J := zarr nS nS (k_J c) in let G := zarr nS nP (k_G c) in
    let DJ := zarr (nS * nS) nS (k_DJ c) in let GJ := zarr (nS * nP) nS (k_GJ c) in
    let z := zvec (k_z c) in let zIV := zvec (k_zIV c) in
    let bad (n : nat) (ok : bool) := if ok then [] else [n] in
    (if nP =? 0 then [] else
       bad 1 (zlist_eqb (vec_to_list (ode_and_sensitivity Z 0%Z Z.add Z.mul fc nS nP f J G z false)) (e_rhs c))
    ++ bad 2 (zlist_eqb (vec_to_list (ode_and_sensitivity Z 0%Z Z.add Z.mul fc nS nP f J G z true)) (e_rhs_bs c))
    ++ (let M := ode_and_sensitivity_jacobian Z 0%Z 1%Z Z.add Z.mul fc nS nP arrange perm_cols relayout J DJ GJ z false in
        bad 4 (shape_eqb M (e_jac_nr c) (e_jac_nc c) && sparse_eqb (flat M) (e_jac c)))
    ++ (let M := ode_and_sensitivity_jacobian Z 0%Z 1%Z Z.add Z.mul fc nS nP arrange perm_cols relayout J DJ GJ z true in
        bad 5 (match e_jac_bs c with
               | None => negb (arrange_in_range nS nP arrange)
               | Some e => arrange_in_range nS nP arrange && shape_eqb M (e_jac_nr c) (e_jac_nc c) && sparse_eqb (flat M) e
               end)))
    ++ bad 3 (zlist_eqb (vec_to_list (ode_and_sensitivityIV Z 0%Z Z.add Z.mul fc nS nP f J G zIV)) (e_rhs_iv c))
    ++ (let M := ode_and_sensitivityIV_jacobian Z 0%Z 1%Z Z.add Z.mul fc nS nP J DJ GJ zIV in
        bad 6 (shape_eqb M (e_jac_iv_nr c) (e_jac_iv_nc c) && sparse_eqb (flat M) (e_jac_iv c))).

  Fixpoint failing_parts_from (k : nat) (l : list kcase) : list nat :=
    match l with [] => [] | c :: r => map (fun p => k * 10 + p) (chk_parts c) ++ failing_parts_from (S k) r end.
  Definition failing_parts := failing_parts_from 0.
End Chk.
