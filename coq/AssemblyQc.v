(* The assembly model instantiated at Qc (exact rationals) for the correspondence check:
   what the EXTRACTED tables compute on a concrete model, compared inside Coq with what pygom reported. *)
From Coq Require Import List Arith Bool QArith Qabs Qcanon.
From PV Require Import Util Assembly Gen.AssemblyGen.
Import ListNotations.

Definition tyc (n : nat) : ttype := match n with O => B | S O => D | _ => T end.
Definition lit := (nat * list (Q * list (nat * nat * nat * Q)) * list (nat * Q))%type.
Definition mk (c : lit) : model Qc :=
  let '(n, evs, os) := c in
  {| nS := n;
     events := map (fun e : Q * list (nat * nat * nat * Q) =>
                 {| rate := Q2Qc (fst e);
                    trans := map (fun t : nat * nat * nat * Q => let '(ty0, o, d, m) := t in
                                    {| ty := tyc ty0; orig := o; dest := d; mag := Q2Qc m |}) (snd e) |}) evs;
     odes := map (fun o : nat * Q => (fst o, Q2Qc (snd o))) os |}.

Definition q_ode (m : model Qc) i := code_ode Qc 0%Qc 1%Qc Qcplus Qcmult Qcopp ode_tab ode_scope ode_res m i.
Definition q_vmat (m : model Qc) i j := result Qc 0%Qc 1%Qc Qcplus Qcmult Qcopp vmat_tab vmat_res (events m) i j.
Definition q_rate (m : model Qc) j := if rate_scope_ok rate_scope rate_res then run_rate Qc 0%Qc (events m) j else 0%Qc.
Definition q_pure (m : model Qc) i := oresult Qc 0%Qc 1%Qc Qcplus Qcopp pure_scope pure_res (odes m) i.
(* the specification itself, for the decomposition check *)
Definition s_ode (m : model Qc) i := ode_vec Qc 0%Qc 1%Qc Qcplus Qcmult Qcminus Qcopp m i.

Definition close (eps : Q) (a : Qc) (b : Q) : bool := Qle_bool (Qabs (this a - b)) (eps * (1 + Qabs b)).
Definition vec_close eps (f : nat -> Qc) (l : list Q) : bool :=
  forallb (fun ib : nat * Q => close eps (f (fst ib)) (snd ib)) (combine (seq O (length l)) l).

(* a case: model literal, tolerance (0 = exact), and pygom's reported ode / V (row-major rows) / rates / pure *)
Definition acase := (lit * Q * list Q * list (list Q) * list Q * list Q)%type.
Definition chk (c : acase) : bool :=
  let '(l, eps, ode, V, rates, pure) := c in
  let m := mk l in
  Nat.eqb (length ode) (nS m) && Nat.eqb (length rates) (length (events m)) &&
  vec_close eps (q_ode m) ode && vec_close eps (s_ode m) ode &&
  vec_close eps (q_rate m) rates && vec_close eps (q_pure m) pure &&
  forallb (fun ir : nat * list Q => Nat.eqb (length (snd ir)) (length (events m)) &&
                                    vec_close eps (q_vmat m (fst ir)) (snd ir))
          (combine (seq O (length V)) V).
