(* Ties the regenerated kernel facts (Gen/StochGen.v) to the hypotheses of StochProofs: the per-state limit
   test extracted from _checkJump guarantees the declared range. Recompiled on every run. *)
From Coq Require Import List Bool ZArith QArith Qcanon.
From PV Require Import Stoch StochProofs Gen.StochGen.
Open Scope Qc_scope.

Lemma Qcleb_gt a b : Qcleb a b = false -> b < a.
Proof. intros H. apply Qcnot_le_lt. intros Hle. apply Qcleb_le in Hle. congruence. Qed.

Ltac range_tac :=
  repeat match goal with
  | H : (if ?b then _ else _) = false |- _ => destruct b eqn:?; try discriminate H; clear H
  | H : (?a || ?b)%bool = false |- _ => apply orb_false_iff in H; destruct H
  | H : (?a && ?b)%bool = false |- _ => fail
  end;
  try match goal with
  | H : Qcltb ?v ?a = false |- ?a <= ?v => apply Qcltb_ge; exact H
  | H : Qcltb ?b ?v = false |- ?v <= ?b => apply Qcltb_ge; exact H
  | H : Qcleb ?v ?a = false |- ?a <= ?v => apply Qclt_le_weak, Qcleb_gt; exact H
  | H : Qcleb ?b ?v = false |- ?v <= ?b => apply Qclt_le_weak, Qcleb_gt; exact H
  end.

Lemma gen_failed_one_spec : forall lo hi v, gen_failed_one lo hi v = false -> in_range lo hi v.
Proof.
  intros lo hi v H. unfold in_range. unfold gen_failed_one in H.
  destruct lo as [a|], hi as [b|]; cbn [is_none negb andb ogt olt oge ole] in H;
    split; intros c E; inversion E; subst; range_tac.
Qed.
