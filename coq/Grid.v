(* C15 — gridded stochastic output agrees with the underlying path.
   Executable model of the post-processing that `SimulateOde.solve_stochast` applies to a raw jump path when
   output times are requested:
     _extractObservationAtTime   -> gridded_states   (index function comes from Gen/GridGen.v)
     _addJumpsBetweenTime        -> jumps_between    (histogram configuration comes from Gen/GridGen.v)
     _interpolateObservationAtTime (tau-leap rows)   -> gridded_interp (np.interp is a Section variable)
   Only small, total, computable definitions here; proofs are in GridProofs.v. *)
From Coq Require Import List Arith ZArith Bool QArith Qcanon Lia.
Import ListNotations.

(* ------------------------------------------------------------------ comparisons on Qc as booleans *)
Definition Qcltb (a b : Qc) : bool := match a ?= b with Lt => true | _ => false end.
Definition Qcleb (a b : Qc) : bool := match a ?= b with Gt => false | _ => true end.
Definition Qceqb (a b : Qc) : bool := match a ?= b with Eq => true | _ => false end.

Definition zget (v : list Z) (i : nat) : Z := nth i v 0%Z.

(* ------------------------------------------------------------------ the numpy primitives the code calls *)
(* np.any(t == v) *)
Fixpoint any_eq (ts : list Qc) (v : Qc) : bool :=
  match ts with [] => false | a :: r => Qceqb a v || any_eq r v end.
(* np.where(t == v)[0][0] : index of the first equal element (only called when any_eq holds) *)
Fixpoint first_eq (ts : list Qc) (v : Qc) : nat :=
  match ts with [] => 0 | a :: r => if Qceqb a v then 0 else S (first_eq r v) end.
(* np.searchsorted(t, v, side) on a sorted array: insertion point *)
Inductive side := SLeft | SRight.
Fixpoint searchsorted (sd : side) (ts : list Qc) (v : Qc) : nat :=
  match ts with
  | [] => 0
  | a :: r => if (match sd with SLeft => Qcltb a v | SRight => Qcleb a v end)
              then S (searchsorted sd r v) else 0
  end.
(* Python sequence indexing X[i] with wrap-around of negative indices (out of range = []; the code never gets there) *)
Definition py_nth {A} (X : list (list A)) (i : Z) : list A :=
  if (i <? 0)%Z then nth (Z.to_nat (Z.of_nat (length X) + i)) X [] else nth (Z.to_nat i) X [].

(* np.histogram(a, bins=grid, weights=w): bin k is [g_k, g_{k+1}), the last one is closed on the right *)
Definition in_bin (grid : list Qc) (k : nat) (v : Qc) : bool :=
  Qcleb (nth k grid 0%Qc) v &&
  (if Nat.eqb (S (S k)) (length grid) then Qcleb v (nth (S k) grid 0%Qc) else Qcltb v (nth (S k) grid 0%Qc)).
Fixpoint wsum (P : Qc -> bool) (ts : list Qc) (ws : list Z) : Z :=
  match ts, ws with
  | t :: tr, w :: wr => ((if P t then w else 0) + wsum P tr wr)%Z
  | _, _ => 0%Z
  end.
Definition hist (ts : list Qc) (ws : list Z) (grid : list Qc) : list Z :=
  map (fun k => wsum (in_bin grid k) ts ws) (seq 0 (length grid - 1)).

(* ------------------------------------------------------------------ _extractObservationAtTime *)
(* idx is the translated index computation (Gen.GridGen.gen_extract_index) *)
Definition gridded_states (idx : list Qc -> Qc -> Z) (X : list (list Z)) (T grid : list Qc) : list (list Z) :=
  map (fun v => py_nth X (idx T v)) grid.
(* the intended index: last element <= v, clamped to 0 *)
Definition last_le_index (ts : list Qc) (v : Qc) : nat := searchsorted SRight ts v - 1.

(* ------------------------------------------------------------------ _addJumpsBetweenTime *)
(* which array is histogrammed and with which weights, per mode (extracted from the source) *)
Inductive hist_cfg :=
| HAll        (* np.histogram(t, bins=targetTime)                       : every recorded time, weight 1 *)
| HTail       (* np.histogram(t[1:], bins=targetTime)                   : event times, weight 1 *)
| HTailW.     (* np.histogram(t[1:], bins=targetTime, weights=dX[:,i])  : event times, per-transition counts *)
Definition col (j : nat) (J : list (list Z)) : list Z := map (fun r => zget r j) J.
Definition ones {A} (l : list A) : list Z := map (fun _ => 1%Z) l.
Definition hist_col (c : hist_cfg) (J : list (list Z)) (T grid : list Qc) (j : nat) : list Z :=
  match c with
  | HAll => hist T (ones T) grid
  | HTail => hist (tl T) (ones (tl T)) grid
  | HTailW => hist (tl T) (col j J) grid
  end.
Definition ntrans (J : list (list Z)) : nat := length (hd [] J).          (* dX.shape[1] *)
(* X_out[:, j] = hist for j < nt ; returned as rows = intervals.  nt is the number of count columns the code
   allocates (Gen.GridGen.gen_width: dX.shape[1], or the model's number of events) *)
Definition jumps_between (c : hist_cfg) (nt : nat) (J : list (list Z)) (T grid : list Qc) : list (list Z) :=
  map (fun k => map (fun j => zget (hist_col c J T grid j) k) (seq 0 nt)) (seq 0 (length grid - 1)).

(* ------------------------------------------------------------------ raw paths *)
(* one record of the jump loop: (time, state after the event, per-transition counts of the event) *)
Definition event := (Qc * list Z * list Z)%type.
Definition etime (e : event) : Qc := fst (fst e).
Definition estate (e : event) : list Z := snd (fst e).
Definition ecounts (e : event) : list Z := snd e.
(* the three arrays `_jump` returns: xList has one more row than jumpList *)
Definition Xs (p : list event) := map estate p.
Definition Ts (p : list event) := map etime p.
Definition Js (p : list event) := map ecounts (tl p).

(* strictly increasing times *)
Fixpoint inc_from (t : Qc) (p : list event) : Prop :=
  match p with [] => True | e :: r => (t < etime e)%Qc /\ inc_from (etime e) r end.
Definition wf (p : list event) : Prop := match p with [] => False | e0 :: r => inc_from (etime e0) r end.

(* specification: state of the path at time v = state after the last event with time <= v (initial state before) *)
Definition state_at (p : list event) (v : Qc) : list Z :=
  match p with
  | [] => []
  | e0 :: r => fold_left (fun cur e => if Qcleb (etime e) v then estate e else cur) r (estate e0)
  end.

(* matrix V as the list of its columns (one per transition); (V n)_s *)
Definition mv (V : list (list Z)) (n : list Z) (s : nat) : Z :=
  fold_right Z.add 0%Z (map (fun j => (zget (nth j V []) s * zget n j)%Z) (seq 0 (length V))).
Definition matvec (nS : nat) (V : list (list Z)) (n : list Z) : list Z := map (mv V n) (seq 0 nS).
Definition vsub (nS : nat) (a b : list Z) : list Z := map (fun s => (zget a s - zget b s)%Z) (seq 0 nS).

(* every step of the path is x' - x = V n' (C04's invariant), stated entry-wise *)
Fixpoint walk_from (V : list (list Z)) (x : list Z) (p : list event) : Prop :=
  match p with
  | [] => True
  | e :: r => (forall s, (zget (estate e) s - zget x s = mv V (ecounts e) s)%Z) /\ walk_from V (estate e) r
  end.
Definition walk V (p : list event) : Prop := match p with [] => True | e0 :: r => walk_from V (estate e0) r end.
(* jumpList is a 2-D array: all count rows have the same width *)
Definition rect (m : nat) (p : list event) : Prop := forall e, In e (tl p) -> length (ecounts e) = m.
(* no event time coincides with a grid point other than the last one *)
Definition no_hit (p : list event) (grid : list Qc) : Prop :=
  forall e i, In e (tl p) -> (S i < length grid)%nat -> etime e <> nth i grid 0%Qc.
Definition grid_mono (grid : list Qc) : Prop := forall i, (S i < length grid)%nat -> (nth i grid 0%Qc <= nth (S i) grid 0%Qc)%Qc.

(* boolean versions used by the correspondence cases (hypotheses are re-checked on every generated case) *)
Fixpoint inc_fromb (t : Qc) (p : list event) : bool :=
  match p with [] => true | e :: r => Qcltb t (etime e) && inc_fromb (etime e) r end.
Definition wfb (p : list event) : bool := match p with [] => false | e0 :: r => inc_fromb (etime e0) r end.
Definition no_hitb (p : list event) (grid : list Qc) : bool :=
  forallb (fun e => forallb (fun g => negb (Qceqb (etime e) g)) (removelast grid)) (tl p).

(* ------------------------------------------------------------------ tau-leap rows: np.interp column by column *)
Section Interp.
  Variable A : Type.
  Variable interp : Qc -> list Qc -> list Z -> A.       (* np.interp(v, t, X[:,i]) *)
  Definition gridded_interp (nS : nat) (X : list (list Z)) (T grid : list Qc) : list (list A) :=
    map (fun v => map (fun s => interp v T (col s X)) (seq 0 nS)) grid.
End Interp.
