(* C09 — model of BaseOdeModel.parameters (setter): Python dict as an insertion-ordered
   association list with two key kinds (str keys from the positional form, sympy-Symbol keys from
   the pair / dict forms), positional value list rebuilt by replaying the dict in order. *)
From Coq Require Import List Arith ZArith Bool Lia.
Import ListNotations.
Open Scope Z_scope.

Inductive key := KStr (n : nat) | KSym (n : nat).
Definition kname k := match k with KStr n | KSym n => n end.
Definition is_sym k := match k with KSym _ => true | KStr _ => false end.
Definition key_eqb a b := match a, b with
  | KStr x, KStr y | KSym x, KSym y => Nat.eqb x y | _, _ => false end.
Lemma key_eqb_spec a b : reflect (a = b) (key_eqb a b).
Proof. destruct a, b; simpl; try (constructor; discriminate);
  destruct (Nat.eqb_spec n n0); constructor; congruence. Qed.

Definition pdict := list (key * Z).

(* d[k] = v : replace in place when the key exists, append otherwise (CPython dict order) *)
Fixpoint dset (d : pdict) (k : key) (v : Z) : pdict :=
  match d with
  | [] => [(k, v)]
  | (k', v') :: r => if key_eqb k k' then (k, v) :: r else (k', v') :: dset r k v
  end.
Fixpoint dget (d : pdict) (k : key) : option Z :=
  match d with [] => None | (k', v') :: r => if key_eqb k k' then Some v' else dget r k end.

Fixpoint index (l : list nat) (p : nat) : option nat :=
  match l with [] => None | x :: r => if Nat.eqb x p then Some 0%nat else option_map S (index r p) end.
Fixpoint set_nth (l : list Z) (i : nat) (v : Z) : list Z :=
  match l, i with [], _ => [] | _ :: r, O => v :: r | x :: r, S j => x :: set_nth r j v end.

Section Params.
  Variable decl : list nat.          (* declared parameter names, in declaration order *)
  Variable alias : bool.             (* does the dict branch write into the live _parameters? (extracted) *)
  Definition nP := length decl.

  (* self._paramValue = [0]*n ; for key,val in self._parameters.items(): pv[get_param_index(key)] = val *)
  Definition replay_step (acc : list Z) (kv : key * Z) :=
    match index decl (kname (fst kv)) with Some i => set_nth acc i (snd kv) | None => acc end.
  Definition replay (d : pdict) : list Z := fold_left replay_step d (repeat 0 nP).

  Record st := { pdic : pdict; pval : list Z; has : bool (* hasattr(self, '_parameters') *) }.
  Definition init := {| pdic := []; pval := repeat 0 nP; has := false |}.

  Inductive op :=
  | SetList  (vs : list Z)              (* list / tuple / 1-D ndarray of numbers, declaration order *)
  | SetArr   (rows : nat) (vs : list Z) (* 2-D ndarray: len() = rows, .size = length vs (row-major ravel) *)
  | SetPairs (l : list (nat * Z))       (* list of (name, value) tuples *)
  | SetDict  (l : list (nat * Z)).      (* dict keyed by name or symbol; partial update *)

  Definition declared p := match index decl p with Some _ => true | None => false end.

  (* pair / dict loops: stop at the first unknown name (InputError), keeping what was written so far *)
  Fixpoint write (d : pdict) (l : list (nat * Z)) : pdict * bool :=
    match l with
    | [] => (d, true)
    | (p, v) :: r => if declared p then write (dset d (KSym p) v) r else (d, false)
    end.

  Definition step (s : st) (o : op) : st * bool :=
    match o with
    | SetList vs =>
        if Nat.eqb (length vs) nP
        then let d := combine (map KStr decl) vs in ({| pdic := d; pval := replay d; has := true |}, true)
        else (s, false)
    | SetArr rows vs =>
        if Nat.eqb rows nP && Nat.eqb (length vs) nP
        then let d := combine (map KStr decl) vs in ({| pdic := d; pval := replay d; has := true |}, true)
        else (s, false)
    | SetPairs l =>
        if Nat.eqb (length l) nP
        then match write [] l with
             | (d, true) => ({| pdic := d; pval := replay d; has := true |}, true)
             | (_, false) => (s, false)
             end
        else (s, false)
    | SetDict l =>
        if Nat.ltb nP (length l) then (s, false)
        else match write (pdic s) l with
             | (d, true) => ({| pdic := d; pval := replay d; has := true |}, true)
             | (d, false) => ({| pdic := if alias && has s then d else pdic s; pval := pval s; has := has s |}, false)
             end
    end.

  (* --------- the abstract specification: a map name -> value --------- *)
  Definition spec := nat -> Z.
  Definition upd (sp : spec) (p : nat) (v : Z) : spec := fun q => if Nat.eqb p q then v else sp q.
  Definition spec_step (sp : spec) (o : op) (ok : bool) : spec :=
    if ok then
      match o with
      | SetList vs | SetArr _ vs => fun p => match index decl p with Some i => nth i vs 0 | None => sp p end
      | SetPairs l => fold_left (fun f pv => upd f (fst pv) (snd pv)) l (fun _ => 0)
      | SetDict l => fold_left (fun f pv => upd f (fst pv) (snd pv)) l sp
      end
    else sp.

  Definition run1 (ssp : st * spec) (o : op) : st * spec :=
    let '(s', ok) := step (fst ssp) o in (s', spec_step (snd ssp) o ok).
  Definition run (ops : list op) : st * spec := fold_left run1 ops (init, fun _ => 0).

  (* what evaluators see for parameter p *)
  Definition bound (s : st) (p : nat) : Z :=
    match index decl p with Some i => nth i (pval s) 0 | None => 0 end.
End Params.

(* executable trace used by the correspondence check *)
Fixpoint trace (decl : list nat) (alias : bool) (s : st) (ops : list op) : list (list Z * bool) :=
  match ops with
  | [] => []
  | o :: r => let '(s', ok) := step decl alias s o in (pval s', ok) :: trace decl alias s' r
  end.
