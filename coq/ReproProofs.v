(* C16 — proofs about the model in Repro.v *)
From Coq Require Import List Arith Bool String QArith Qcanon Lia.
From PV Require Import Repro.
Import ListNotations.
Local Open Scope nat_scope.

Section Proofs.
  Variables G E Q V : Type.
  Variable gen : Q -> G -> V * G.
  Variable seeded : string -> G.
  Variable fresh : E -> G * E.

  Notation run := (run gen seeded fresh).
  Notation run_global := (run_global gen).
  Definition all_global {O} (p : proc Q V O) := uses (fun s => is_global s = true) p.
  Definition none_fresh {O} (p : proc Q V O) := uses (fun s => is_fresh s = false) p.

  (* when every site is Global the run is the function run_global of (program, g); the outside entropy
     is neither read nor consumed, and [seeded]/[fresh] are irrelevant *)
  Lemma run_is_global O (p : proc Q V O) : all_global p ->
    forall g e, run p g e = (fst (run_global p g), snd (run_global p g), e).
  Proof.
    induction 1 as [o | s q k Hs Hk IH]; intros g e; simpl; auto.
    destruct s; simpl in Hs; try discriminate.
    destruct (gen q g) as [v g']. apply IH.
  Qed.

  Lemma repro O (p : proc Q V O) : all_global p ->
    forall g e1 e2, fst (run p g e1) = fst (run p g e2).
  Proof. intros H g e1 e2. rewrite !(run_is_global _ p H). reflexivity. Qed.

  Lemma uses_weaken (P P' : source -> Prop) O (p : proc Q V O) :
    (forall s, P s -> P' s) -> uses P p -> uses P' p.
  Proof. intros HP; induction 1; constructor; auto. Qed.

  Lemma tbl_all_global tbl O (p : proc Q V O) :
    forallb is_global tbl = true -> uses_tbl tbl p -> all_global p.
  Proof.
    intros Ht. apply uses_weaken. intros s Hs.
    rewrite forallb_forall in Ht. auto.
  Qed.

  (* the statement used by Props/C16.v: the table of extracted sources is all Global; the program only
     draws at sites of the table; then output and final global state do not depend on anything but g *)
  Lemma repro_tbl tbl : forallb is_global tbl = true ->
    forall O (p : proc Q V O), uses_tbl tbl p ->
    forall g e1 e2, fst (run p g e1) = fst (run p g e2).
  Proof. intros Ht O p Hp. apply repro. eapply tbl_all_global; eauto. Qed.

  Lemma function_of_seed tbl : forallb is_global tbl = true ->
    forall O (p : proc Q V O), uses_tbl tbl p ->
    forall g e, fst (run p g e) = run_global p g.
  Proof.
    intros Ht O p Hp g e. rewrite (run_is_global _ p (tbl_all_global _ _ p Ht Hp)). simpl.
    destruct (run_global p g); reflexivity.
  Qed.

  (* stronger: private seeded generators do not break same-seed reproducibility either; only
     FreshEntropy does *)
  Lemma repro_none_fresh O (p : proc Q V O) : none_fresh p ->
    forall g e1 e2, fst (run p g e1) = fst (run p g e2).
  Proof.
    induction 1 as [o | s q k Hs Hk IH]; intros g e1 e2; simpl; auto.
    destruct s; simpl in Hs; try discriminate.
    - destruct (gen q g) as [v g']. apply IH.
    - destruct (gen q (seeded arg)) as [v g']. apply IH.
  Qed.

  (* --- sequencing *)
  Lemma run_bind A B (p : proc Q V A) (f : A -> proc Q V B) g e :
    run (bind p f) g e = let '(a, g', e') := run p g e in run (f a) g' e'.
  Proof.
    revert g e; induction p as [a | s q k IH]; intros g e; simpl; auto.
    destruct s.
    - destruct (gen q g) as [v g']. apply IH.
    - destruct (gen q (seeded arg)) as [v g']. apply IH.
    - destruct (fresh e) as [g0 e']. destruct (gen q g0) as [v g1]. apply IH.
  Qed.

  Lemma run_global_bind A B (p : proc Q V A) (f : A -> proc Q V B) g :
    run_global (bind p f) g = let '(a, g') := run_global p g in run_global (f a) g'.
  Proof.
    revert g; induction p as [a | s q k IH]; intros g; simpl; auto.
    destruct (gen q g) as [v g']. apply IH.
  Qed.

  Lemma uses_bind P A B (p : proc Q V A) (f : A -> proc Q V B) :
    uses P p -> (forall a, uses P (f a)) -> uses P (bind p f).
  Proof. induction 1; intros Hf; simpl; auto. constructor; auto. Qed.

  Lemma uses_runs P O (p : proc Q V O) n : uses P p -> uses P (runs n p).
  Proof.
    intros Hp; induction n; simpl. constructor.
    apply uses_bind; auto. intros o. apply uses_bind; auto. intros l. constructor.
  Qed.

  (* n serial iterations from g: outputs in order and the state left behind *)
  Fixpoint iter_global {O} (n : nat) (p : proc Q V O) (g : G) : list O * G :=
    match n with
    | O => ([], g)
    | S m => let '(o, g1) := run_global p g in let '(l, g2) := iter_global m p g1 in (o :: l, g2)
    end.

  Lemma runs_global O (p : proc Q V O) n g : run_global (runs n p) g = iter_global n p g.
  Proof.
    revert g; induction n as [|n IH]; intros g; simpl; auto.
    rewrite run_global_bind. destruct (run_global p g) as [o g1].
    rewrite run_global_bind. rewrite IH. destruct (iter_global n p g1) as [l g2]. reflexivity.
  Qed.

  (* n1+n2 iterations after one seeding = n1 iterations, then n2 more without reseeding *)
  Lemma iter_global_add O (p : proc Q V O) n1 n2 g :
    iter_global (n1 + n2) p g =
    let '(l1, g1) := iter_global n1 p g in let '(l2, g2) := iter_global n2 p g1 in (l1 ++ l2, g2).
  Proof.
    revert g; induction n1 as [|n1 IH]; intros g; simpl.
    - destruct (iter_global n2 p g); reflexivity.
    - destruct (run_global p g) as [o g1]. rewrite IH.
      destruct (iter_global n1 p g1) as [l1 g2]. destruct (iter_global n2 p g2) as [l2 g3]. reflexivity.
  Qed.

  (* the first k of n iterations are the k-iteration simulation from the same seed *)
  Lemma iter_global_prefix O (p : proc Q V O) k n g : k <= n ->
    firstn k (fst (iter_global n p g)) = fst (iter_global k p g).
  Proof.
    intros H. replace n with (k + (n - k)) by lia. rewrite iter_global_add.
    destruct (iter_global k p g) as [l1 g1] eqn:E1. destruct (iter_global (n - k) p g1) as [l2 g2]. simpl.
    assert (Hl : List.length l1 = k).
    { clear - E1. revert g l1 g1 E1. induction k as [|k IH]; simpl; intros g l1 g1 E1.
      - inversion E1; reflexivity.
      - destruct (run_global p g) as [o g']. destruct (iter_global k p g') as [l g''] eqn:E2.
        inversion E1; subst. simpl. f_equal. eapply IH; eauto. }
    rewrite <- Hl. rewrite firstn_app, Nat.sub_diag, firstn_all. simpl. apply app_nil_r.
  Qed.

  Lemma runs_repro tbl : forallb is_global tbl = true ->
    forall O (p : proc Q V O) n, uses_tbl tbl p ->
    forall g e, fst (run (runs n p) g e) = iter_global n p g.
  Proof.
    intros Ht O p n Hp g e. rewrite <- runs_global.
    apply (function_of_seed tbl Ht). apply uses_runs; auto.
  Qed.

  (* --- machines with fuel *)
  Variables St Out : Type.
  Variable step : St -> Out + (source * Q * (V -> St)).
  Definition step_all_global := forall s src q k, step s = inr (src, q, k) -> is_global src = true.

  Lemma mrun_is_global : step_all_global ->
    forall fuel s g e, mrun gen seeded fresh step fuel s g e =
                       option_map (fun og => (fst og, snd og, e)) (mrun_global gen step fuel s g).
  Proof.
    intros H fuel; induction fuel as [|f IH]; intros s g e; simpl; auto.
    destruct (step s) as [o | [[src q] k]] eqn:Es; simpl; auto.
    specialize (H _ _ _ _ Es). destruct src; simpl in H; try discriminate.
    destruct (gen q g) as [v g']. apply IH.
  Qed.

  Lemma mrepro : step_all_global ->
    forall fuel s g e1 e2, option_map fst (mrun gen seeded fresh step fuel s g e1) =
                           option_map fst (mrun gen seeded fresh step fuel s g e2).
  Proof.
    intros H fuel s g e1 e2. rewrite !(mrun_is_global H).
    destruct (mrun_global gen step fuel s g); reflexivity.
  Qed.

  Lemma mrepro_tbl tbl : forallb is_global tbl = true ->
    (forall s src q k, step s = inr (src, q, k) -> In src tbl) ->
    forall fuel s g e1 e2, option_map fst (mrun gen seeded fresh step fuel s g e1) =
                           option_map fst (mrun gen seeded fresh step fuel s g e2).
  Proof.
    intros Ht H. apply mrepro. intros s src q k Hs. rewrite forallb_forall in Ht. eauto.
  Qed.
End Proofs.

(* different seeds: nothing general can be proved (a program may ignore its draws, a generator may be
   constant); what holds is the contrapositive reading used by the search: if the generator gives
   different first values from the two seeded states and the program's output determines its first draw,
   the outputs differ *)
Lemma diff_seed_first_draw G Q V O (gen : Q -> G -> V * G) (q : Q) (k : V -> O) g1 g2 :
  (forall v w, k v = k w -> v = w) -> fst (gen q g1) <> fst (gen q g2) ->
  fst (run_global gen (Draw Global q (fun v => Ret (k v))) g1) <>
  fst (run_global gen (Draw Global q (fun v => Ret (k v))) g2).
Proof.
  intros Hk Hg. simpl. destruct (gen q g1) as [v1 g1'], (gen q g2) as [v2 g2']. simpl in *.
  intros H. apply Hg, Hk, H.
Qed.

(* ------------------------------------------------------------------------------------------------
   witnesses.  Generator: a counter; the value drawn is the counter.  *)
Definition w_gen (q : unit) (g : nat) : nat * nat := (g, S g).
Definition w_seeded (_ : string) : nat := 7.
Definition w_fresh (e : nat) : nat * nat := (e, S e).

(* a program whose second request and number of draws depend on the first value: satisfies all_global *)
Definition w_prog (s : source) : proc unit nat (list nat) :=
  Draw s tt (fun v => if Nat.even v then Draw s tt (fun w => Ret [v; w])
                      else Draw s tt (fun w => Draw s tt (fun x => Ret [v; w; x]))).

Lemma w_prog_uses s : uses (fun x => x = s) (w_prog s).
Proof.
  unfold w_prog. constructor; auto. intros v. destruct (Nat.even v).
  - constructor; auto. intros; constructor.
  - constructor; auto. intros; constructor; auto. intros; constructor.
Qed.

Example hypotheses_met :
  uses_tbl [Global] (w_prog Global) /\
  run w_gen w_seeded w_fresh (w_prog Global) 3 100 = ([3; 4; 5], 6, 100) /\
  run w_gen w_seeded w_fresh (w_prog Global) 4 100 = ([4; 5], 6, 100).
Proof.
  split; [| split; reflexivity].
  eapply uses_weaken; [| apply (w_prog_uses Global)]. intros s ->. simpl; auto.
Qed.

(* one FreshEntropy site: equal global states, different outputs *)
Lemma fresh_refuted :
  uses_tbl [FreshEntropy] (w_prog FreshEntropy) /\
  fst (run w_gen w_seeded w_fresh (w_prog FreshEntropy) 3 100) <>
  fst (run w_gen w_seeded w_fresh (w_prog FreshEntropy) 3 101).
Proof.
  split.
  - eapply uses_weaken; [| apply (w_prog_uses FreshEntropy)]. intros s ->. simpl; auto.
  - vm_compute. discriminate.
Qed.

(* a single fresh site hidden after global ones is enough *)
Definition w_hidden : proc unit nat (list nat) :=
  Draw Global tt (fun v => Draw FreshEntropy tt (fun w => Ret [v; w])).
Lemma fresh_hidden_refuted :
  fst (run w_gen w_seeded w_fresh w_hidden 3 100) <> fst (run w_gen w_seeded w_fresh w_hidden 3 101).
Proof. vm_compute. discriminate. Qed.

(* a private generator seeded from a constant argument is reproducible but insensitive to the seed *)
Lemma seeded_ignores_seed :
  fst (fst (run w_gen w_seeded w_fresh (w_prog (SeededFrom "seed")) 3 100)) =
  fst (fst (run w_gen w_seeded w_fresh (w_prog (SeededFrom "seed")) 4 100)).
Proof. reflexivity. Qed.

(* ------------------------------------------------------------------------------------------------
   the mean *)
Local Open Scope Qc_scope.

Lemma qn_S_neq0 n : qn (S n) <> 0.
Proof.
  unfold qn. intros H. change 0 with (Q2Qc 0%Q) in H. apply Q2Qc_eq_iff in H.
  unfold Qeq, inject_Z in H. simpl in H. lia.
Qed.

Lemma div_is_scale x n : qn n <> 0 -> x / qn n = (1 / qn n) * x.
Proof. intros H. field. exact H. Qed.

Lemma nth_vadd j a b : List.length a = List.length b -> entry j (vadd a b) = entry j a + entry j b.
Proof.
  unfold entry, vadd. revert j b; induction a as [|x a IH]; intros j [|y b] H; simpl in *; try discriminate.
  - destruct j; ring.
  - destruct j; simpl; auto.
Qed.

Lemma length_vadd a b : List.length a = List.length b -> List.length (vadd a b) = List.length a.
Proof. intros H. unfold vadd. rewrite map_length, combine_length, H. apply Nat.min_id. Qed.

Lemma fold_vadd_entry runs : forall acc L j,
  List.length acc = L -> Forall (fun r => List.length r = L) runs ->
  entry j (fold_left vadd runs acc) = entry j acc + qsum (map (entry j) runs)
  /\ List.length (fold_left vadd runs acc) = L.
Proof.
  induction runs as [|r runs IH]; intros acc L j Ha Hr; simpl.
  - split; auto. ring.
  - inversion Hr as [|? ? Hr1 Hr2]; subst.
    assert (Hl : List.length (vadd acc r) = List.length acc) by (apply length_vadd; congruence).
    destruct (IH (vadd acc r) (List.length acc) j Hl Hr2) as [H1 H2].
    split; auto. rewrite H1, nth_vadd by congruence. ring.
Qed.

Lemma entry_vzero j L : entry j (vzero L) = 0.
Proof. unfold entry, vzero. revert j; induction L; destruct j; simpl; auto. Qed.

Lemma list_ext (a b : list Qc) : List.length a = List.length b ->
  (forall j, (j < List.length a)%nat -> entry j a = entry j b) -> a = b.
Proof.
  unfold entry. revert b; induction a as [|x a IH]; intros [|y b] Hl H; simpl in *; try discriminate; auto.
  f_equal. apply (H 0%nat); lia. apply IH; [lia|]. intros j Hj. apply (H (S j)); lia.
Qed.

Lemma entry_map_seq (f : nat -> Qc) L j : (j < L)%nat -> entry j (map f (seq 0 L)) = f j.
Proof.
  intros H. unfold entry. rewrite nth_indep with (d' := f 0%nat) by (rewrite map_length, seq_length; auto).
  rewrite map_nth. rewrite seq_nth; auto.
Qed.

Lemma entry_map (f : Qc -> Qc) l j : (j < List.length l)%nat -> entry j (map f l) = f (entry j l).
Proof. intros H. unfold entry. rewrite nth_indep with (d' := f 0) by (rewrite map_length; auto). apply map_nth. Qed.

Lemma running_sum_mean d runs L : qn d <> 0 -> Forall (fun r => List.length r = L) runs ->
  map (fun x => x / qn d) (fold_left vadd runs (vzero L)) =
  map (fun j => (1 / qn d) * qsum (map (entry j) runs)) (seq 0 L).
Proof.
  intros Hd Hr.
  assert (Hz : List.length (vzero L) = L) by apply repeat_length.
  apply list_ext.
  - rewrite !map_length, seq_length. apply (fold_vadd_entry runs (vzero L) L 0 Hz Hr).
  - rewrite map_length. intros j Hj.
    destruct (fold_vadd_entry runs (vzero L) L j Hz Hr) as [H1 H2].
    rewrite entry_map by auto. rewrite H2 in Hj. rewrite entry_map_seq by auto.
    rewrite H1, entry_vzero, div_is_scale by auto. ring.
Qed.

(* the extracted way of computing the mean, for every iteration count and every trajectory length *)
Lemma mean_correct f : mean_form_ok f = true ->
  forall iteration runs L, iteration <> 0%nat -> List.length runs = iteration ->
  Forall (fun r => List.length r = L) runs ->
  mean_impl f iteration runs L = mean_spec runs L.
Proof.
  intros Hf iteration runs L Hi Hn Hr. unfold mean_spec.
  assert (Hq : qn (List.length runs) <> 0).
  { rewrite Hn. destruct iteration; [congruence | apply qn_S_neq0]. }
  destruct f; simpl in *; try discriminate.
  - apply map_ext. intros j. apply div_is_scale; auto.
  - rewrite <- Hn. apply running_sum_mean; auto.
  - apply running_sum_mean; auto.
Qed.

(* dropping a run, or dividing by a wrong count, is not the mean *)
Lemma mean_wrong_count_refuted :
  mean_impl RunningSumDivIter 3 [[Q2Qc 1]; [Q2Qc 2]] 1 <> mean_spec [[Q2Qc 1]; [Q2Qc 2]] 1.
Proof. vm_compute. intros H. discriminate H. Qed.

Example mean_example :
  mean_impl MeanStackRunsAxis 2 [[Q2Qc 1; Q2Qc 3]; [Q2Qc 2; Q2Qc 5]] 2 = [Q2Qc (3 # 2); Q2Qc 4].
Proof. apply list_ext; [reflexivity|]. intros [|[|j]] Hj; try (simpl in Hj; lia); apply Qc_is_canon; reflexivity. Qed.

Lemma mean_correct_tbl m r : forms_ok m r = true ->
  forall nm f, In (nm, f) m ->
  forall iteration runs L, iteration <> 0%nat -> List.length runs = iteration ->
  Forall (fun r => List.length r = L) runs ->
  mean_impl f iteration runs L = mean_spec runs L.
Proof.
  unfold forms_ok. intros H nm f Hin. apply andb_prop in H as [H _]. apply andb_prop in H as [H _].
  rewrite forallb_forall in H. specialize (H _ Hin). simpl in H. apply mean_correct; auto.
Qed.
