(* C13 — proofs: the model of Sens.v (with the good code facts) computes the variational right-hand sides
   in the documented layouts, and its block Jacobians are, entry by entry, the formal partial derivatives. *)
From Coq Require Import List Arith Bool Lia Ring ZArith.
From PV Require Import Shapes ShapesProofs Sens.
Import ListNotations.

Section SensProofs.
  Variables (A : Type) (a0 a1 : A) (add mul sub : A -> A -> A) (opp : A -> A).
  Hypothesis Rth : ring_theory a0 a1 add mul sub opp (@eq A).
  Add Ring Aring2 : Rth.
  Notation vec := (vec A). Notation arr := (arr A).
  Notation sumn := (sumn A a0 add).

  Variables nS nP : nat.
  Variables (f : vec) (J G DJ GJ : arr).

  (* shapes of what the evaluators return *)
  Definition shapes_ok : Prop :=
    vlen f = nS /\ nr J = nS /\ nc J = nS /\ nr G = nS /\ nc G = nP /\
    nr DJ = nS * nS /\ nc DJ = nS /\ nr GJ = nS * nP /\ nc GJ = nS.
  (* second derivatives commute: DJ[i*nS+a][b] = DJ[i*nS+b][a] *)
  Definition DJ_symmetric : Prop :=
    forall i a b, i < nS -> a < nS -> b < nS -> get DJ (i * nS + a) b = get DJ (i * nS + b) a.

  Ltac unf := cbv beta iota zeta delta
    [ode_and_sensitivity sensitivity eval_sensitivity vecToMatSens matToVecSens ode_and_sensitivityIV sensitivityIV
     eval_sens_jacobian_state sens_jacobian_state ode_and_sensitivity_jacobian ode_and_sensitivityIV_jacobian
     dotp tr kron_eye good_facts
     v2m_order m2v_order bs_in_order bs_out_order iv_in_order iv_out_order sjs_order ivjac_in_order ivjac_out_order
     sjs_transposed ivjac_transposed dot_sens_swapped dot_ivA_swapped dot_ivB_swapped dot_sjs_swapped
     dot_ivjac_swapped kron_eye_first kron_eye_first_ivP kron_eye_first_ivS
     vapp vdrop vtake vlast reshape_vec ravel reshape2 transpose dot madd zeros eye kron hcat vcat take_rows take_cols
     S_par S_st S_iv rhs_S rhs_S0 dS_dx dS0_dx];
    cbn [vlen vget nr nc get fst snd andb].

  (* decide every closed  a <? b  test of the goal by nonlinear arithmetic *)
  Ltac ltbs := repeat match goal with
    | |- context [?a <? ?b] =>
        first [ replace (a <? b) with true by (symmetry; apply Nat.ltb_lt; nia)
              | replace (a <? b) with false by (symmetry; apply Nat.ltb_ge; nia) ]
    end.
  Ltac splits := repeat match goal with |- _ /\ _ => split end.

  (* ------------------------------------------------------------------ right-hand sides *)
  Lemma rhs_default (z : vec) : shapes_ok -> vlen z = nS + nS * nP ->
    let out := ode_and_sensitivity A a0 add mul good_facts nS nP f J G z false in
    vlen out = nS + nS * nP /\
    (forall k, k < nS -> vget out k = vget f k) /\
    (forall i j, i < nS -> j < nP -> vget out (nS + j * nS + i) = rhs_S A a0 add mul nS J G (S_par nS z) i j).
  Proof.
    intros (Hf & HJr & HJc & HGr & HGc & _) Hz. unf. rewrite Hf, HJr, HJc. splits; try lia.
    - intros k Hk. apply Nat.ltb_lt in Hk. rewrite Hk. reflexivity.
    - intros i j Hi Hj. rewrite <- Nat.add_assoc, ltb_add_false, add_sub_l.
      rewrite mod_lin, div_lin by assumption. f_equal.
      apply sumn_ext. intros l Hl. do 2 f_equal. lia.
  Qed.

  Lemma rhs_bystate (z : vec) : shapes_ok -> vlen z = nS + nS * nP ->
    let out := ode_and_sensitivity A a0 add mul good_facts nS nP f J G z true in
    vlen out = nS + nS * nP /\
    (forall k, k < nS -> vget out k = vget f k) /\
    (forall i j, i < nS -> j < nP -> vget out (nS + i * nP + j) = rhs_S A a0 add mul nS J G (S_st nS nP z) i j).
  Proof.
    intros (Hf & HJr & HJc & HGr & HGc & _) Hz. unf. rewrite Hf, HJc. splits; try lia.
    - intros k Hk. apply Nat.ltb_lt in Hk. rewrite Hk. reflexivity.
    - intros i j Hi Hj. rewrite <- Nat.add_assoc, ltb_add_false, add_sub_l.
      rewrite mod_lin, div_lin by assumption. f_equal.
      apply sumn_ext. intros l Hl. do 2 f_equal. lia.
  Qed.

  Lemma rhs_IV (z : vec) : shapes_ok -> vlen z = nS + nS * nP + nS * nS ->
    let out := ode_and_sensitivityIV A a0 add mul good_facts nS nP f J G z in
    vlen out = nS + nS * nP + nS * nS /\
    (forall k, k < nS -> vget out k = vget f k) /\
    (forall i j, i < nS -> j < nP -> vget out (nS + j * nS + i) = rhs_S A a0 add mul nS J G (S_par nS z) i j) /\
    (forall i j, i < nS -> j < nS ->
       vget out (nS + nS * nP + j * nS + i) = rhs_S0 A a0 add mul nS J (S_iv nS nP z) i j).
  Proof.
    intros (Hf & HJr & HJc & HGr & HGc & _) Hz. unf. rewrite Hf, HJr, HJc, Hz. splits; try lia.
    - intros k Hk. assert (E : (k <? nS + nS * nP) = true) by (apply Nat.ltb_lt; lia). rewrite E.
      apply Nat.ltb_lt in Hk. rewrite Hk. reflexivity.
    - intros i j Hi Hj.
      assert (E : (nS + j * nS + i <? nS + nS * nP) = true) by (apply Nat.ltb_lt; nia). rewrite E.
      rewrite <- Nat.add_assoc, ltb_add_false, add_sub_l.
      rewrite mod_lin, div_lin by assumption. f_equal.
      apply sumn_ext. intros l Hl. do 2 f_equal. lia.
    - intros i j Hi Hj.
      replace (nS + nS * nP + j * nS + i) with ((nS + nS * nP) + (j * nS + i)) by lia.
      rewrite ltb_add_false, add_sub_l.
      rewrite mod_lin, div_lin by assumption.
      apply sumn_ext. intros l Hl. do 2 f_equal. nia.
  Qed.

  (* ------------------------------------------------------------------ Jacobians *)
  Lemma jac_default arrange pc rl (z : vec) : shapes_ok -> DJ_symmetric -> vlen z = nS + nS * nP ->
    let M := ode_and_sensitivity_jacobian A a0 a1 add mul good_facts nS nP arrange pc rl J DJ GJ z false in
    nr M = nS + nS * nP /\ nc M = nS + nS * nP /\
    (forall i m, i < nS -> m < nS -> get M i m = get J i m) /\
    (forall i q, i < nS -> q < nS * nP -> get M i (nS + q) = a0) /\
    (forall i j m, i < nS -> j < nP -> m < nS ->
       get M (nS + j * nS + i) m = dS_dx A a0 add mul nS DJ GJ (S_par nS z) i j m) /\
    (forall i j l j', i < nS -> j < nP -> l < nS -> j' < nP ->
       get M (nS + j * nS + i) (nS + j' * nS + l) = if j =? j' then get J i l else a0).
  Proof.
    intros (Hf & HJr & HJc & HGr & HGc & HDr & HDc & HGJr & HGJc) Hsym Hz. unf.
    rewrite HJr, HJc, HGJr, HGJc, HDr, HDc. splits; try lia.
    - intros i m Hi Hm. apply Nat.ltb_lt in Hi, Hm. rewrite Hi, Hm. reflexivity.
    - intros i q Hi Hq. apply Nat.ltb_lt in Hi. rewrite Hi, ltb_add_false. reflexivity.
    - intros i j m Hi Hj Hm. rewrite <- Nat.add_assoc, ltb_add_false, add_sub_l.
      apply Nat.ltb_lt in Hm as Hm'. rewrite Hm'.
      replace ((j * nS + i) * nS + m) with (j * (nS * nS) + (i * nS + m)) by lia.
      assert (i * nS + m < nS * nS) by nia.
      rewrite div_lin, mod_lin by assumption.
      rewrite (add_comm' _ _ _ _ _ _ _ Rth). f_equal.
      apply sumn_ext. intros l Hl. rewrite (Hsym i m l) by assumption. do 2 f_equal. lia.
    - intros i j l j' Hi Hj Hl Hj'.
      rewrite <- !Nat.add_assoc, !ltb_add_false, !add_sub_l.
      rewrite !div_lin, !mod_lin by assumption.
      destruct (j =? j'); ring.
  Qed.

  (* what the arrangeVector loop has to compute *)
  Definition arrange_good (arrange : nat -> nat -> nat -> nat) : Prop :=
    forall i j, i < nS -> j < nP -> arrange nS nP (i * nP + j) = j * nS + i.

  Lemma jac_bystate arrange (z : vec) : arrange_good arrange ->
    shapes_ok -> DJ_symmetric -> vlen z = nS + nS * nP ->
    let M := ode_and_sensitivity_jacobian A a0 a1 add mul good_facts nS nP arrange true true J DJ GJ z true in
    nr M = nS + nS * nP /\ nc M = nS + nS * nP /\
    (forall i m, i < nS -> m < nS -> get M i m = get J i m) /\
    (forall i q, i < nS -> q < nS * nP -> get M i (nS + q) = a0) /\
    (forall i j m, i < nS -> j < nP -> m < nS ->
       get M (nS + i * nP + j) m = dS_dx A a0 add mul nS DJ GJ (S_st nS nP z) i j m) /\
    (forall i j l j', i < nS -> j < nP -> l < nS -> j' < nP ->
       get M (nS + i * nP + j) (nS + l * nP + j') = if j =? j' then get J i l else a0).
  Proof.
    intros Harr (Hf & HJr & HJc & HGr & HGc & HDr & HDc & HGJr & HGJc) Hsym Hz. unf.
    rewrite HJr, HJc, HGJc, HDr, HDc, Hz.
    rewrite (Nat.min_l nS (nS + nS * nP)) by lia. splits; try lia.
    - intros i m Hi Hm. apply Nat.ltb_lt in Hi, Hm. rewrite Hi, Hm. reflexivity.
    - intros i q Hi Hq. apply Nat.ltb_lt in Hi. rewrite Hi, ltb_add_false. reflexivity.
    - intros i j m Hi Hj Hm. rewrite <- Nat.add_assoc, ltb_add_false, add_sub_l.
      apply Nat.ltb_lt in Hm as Hm'. rewrite Hm'. rewrite Harr by assumption.
      replace ((j * nS + i) * nS + m) with (j * (nS * nS) + (i * nS + m)) by lia.
      assert (i * nS + m < nS * nS) by nia.
      rewrite div_lin, mod_lin by assumption.
      rewrite (add_comm' _ _ _ _ _ _ _ Rth). f_equal.
      apply sumn_ext. intros l Hl. rewrite (Hsym i m l) by assumption. f_equal.
      rewrite ltb_add_false, add_sub_l. rewrite mod_lin', div_lin' by assumption. f_equal. lia.
    - intros i j l j' Hi Hj Hl Hj'.
      rewrite <- !Nat.add_assoc, !ltb_add_false, !add_sub_l.
      rewrite !Harr by assumption.
      rewrite !div_lin, !mod_lin by assumption.
      destruct (j =? j'); ring.
  Qed.

  Lemma jac_IV (z : vec) : shapes_ok -> DJ_symmetric -> vlen z = nS + nS * nP + nS * nS ->
    let M := ode_and_sensitivityIV_jacobian A a0 a1 add mul good_facts nS nP J DJ GJ z in
    let N := nS + nS * nP + nS * nS in
    nr M = N /\ nc M = N /\
    (* d f_i / d(x, S, S0) *)
    (forall i m, i < nS -> m < nS -> get M i m = get J i m) /\
    (forall i q, i < nS -> q < nS * nP + nS * nS -> get M i (nS + q) = a0) /\
    (* d (J S + G)[i][j] / d(x, S, S0) *)
    (forall i j m, i < nS -> j < nP -> m < nS ->
       get M (nS + j * nS + i) m = dS_dx A a0 add mul nS DJ GJ (S_par nS z) i j m) /\
    (forall i j l j', i < nS -> j < nP -> l < nS -> j' < nP ->
       get M (nS + j * nS + i) (nS + j' * nS + l) = if j =? j' then get J i l else a0) /\
    (forall i j q, i < nS -> j < nP -> q < nS * nS -> get M (nS + j * nS + i) (nS + nS * nP + q) = a0) /\
    (* d (J S0)[i][j] / d(x, S, S0) *)
    (forall i j m, i < nS -> j < nS -> m < nS ->
       get M (nS + nS * nP + j * nS + i) m = dS0_dx A a0 add mul nS DJ (S_iv nS nP z) i j m) /\
    (forall i j q, i < nS -> j < nS -> q < nS * nP -> get M (nS + nS * nP + j * nS + i) (nS + q) = a0) /\
    (forall i j l j', i < nS -> j < nS -> l < nS -> j' < nS ->
       get M (nS + nS * nP + j * nS + i) (nS + nS * nP + j' * nS + l) = if j =? j' then get J i l else a0).
  Proof.
    intros (Hf & HJr & HJc & HGr & HGc & HDr & HDc & HGJr & HGJc) Hsym Hz. unf.
    destruct (Nat.eqb_spec nP 0) as [E0 | E0].
    - (* no parameters *)
      clear HGc HGJr. subst nP. cbn [vlen vget nr nc get]. rewrite HJr, HJc, HDr, HDc.
      rewrite !Nat.mul_0_r, !Nat.add_0_r. splits; try lia; try (intros; exfalso; lia).
      + intros i m Hi Hm. apply Nat.ltb_lt in Hi, Hm. rewrite Hi, Hm. reflexivity.
      + intros i q Hi Hq. apply Nat.ltb_lt in Hi. rewrite Hi, ltb_add_false. reflexivity.
      + intros i j m Hi Hj Hm. rewrite <- Nat.add_assoc, ltb_add_false, add_sub_l.
        apply Nat.ltb_lt in Hm as Hm'. rewrite Hm'.
        replace ((j * nS + i) * nS + m) with (j * (nS * nS) + (i * nS + m)) by lia.
        assert (i * nS + m < nS * nS) by nia.
        rewrite div_lin, mod_lin by assumption.
        apply sumn_ext. intros l Hl. rewrite (Hsym i m l) by assumption. do 2 f_equal. lia.
      + intros i j l j' Hi Hj Hl Hj'.
        rewrite <- !Nat.add_assoc, !ltb_add_false, !add_sub_l.
        rewrite !div_lin, !mod_lin by assumption.
        destruct (j =? j'); ring.
    - cbn [vlen vget nr nc get]. rewrite HJr, HJc, HDr, HDc, HGJr, HGJc.
      splits; try nia.
      + intros i m Hi Hm. ltbs. reflexivity.
      + intros i q Hi Hq. ltbs.
        destruct (Nat.ltb_spec (nS + q) (nS + nP * nS)); ltbs; reflexivity.
      + intros i j m Hi Hj Hm. ltbs.
        rewrite <- Nat.add_assoc, add_sub_l.
        replace ((j * nS + i) * nS + m) with (j * (nS * nS) + (i * nS + m)) by lia.
        assert (i * nS + m < nS * nS) by nia.
        rewrite div_lin, mod_lin by assumption.
        rewrite (add_comm' _ _ _ _ _ _ _ Rth). f_equal.
        apply sumn_ext. intros l Hl. rewrite (Hsym i m l) by assumption. do 2 f_equal. lia.
      + intros i j l j' Hi Hj Hl Hj'. ltbs.
        rewrite <- !Nat.add_assoc, !add_sub_l.
        rewrite !div_lin, !mod_lin by assumption.
        destruct (j =? j'); ring.
      + intros i j q Hi Hj Hq. ltbs. reflexivity.
      + intros i j m Hi Hj Hm.
        replace (nS + nS * nP + j * nS + i) with ((nS + nS * nP) + (j * nS + i)) by lia.
        ltbs. rewrite add_sub_l.
        replace ((j * nS + i) * nS + m) with (j * (nS * nS) + (i * nS + m)) by lia.
        assert (i * nS + m < nS * nS) by nia.
        rewrite div_lin, mod_lin by assumption.
        apply sumn_ext. intros l Hl. rewrite (Hsym i m l) by assumption. do 2 f_equal. nia.
      + intros i j q Hi Hj Hq.
        replace (nS + nS * nP + j * nS + i) with ((nS + nS * nP) + (j * nS + i)) by lia.
        ltbs. reflexivity.
      + intros i j l j' Hi Hj Hl Hj'.
        replace (nS + nS * nP + j * nS + i) with ((nS + nS * nP) + (j * nS + i)) by lia.
        replace (nS + nS * nP + j' * nS + l) with ((nS + nS * nP) + (j' * nS + l)) by lia.
        ltbs. rewrite !add_sub_l.
        replace (nS + nS * nP + (j' * nS + l) - (nS + nP * nS)) with (j' * nS + l) by lia.
        rewrite !div_lin, !mod_lin by assumption.
        destruct (j =? j'); ring.
  Qed.
End SensProofs.

(* ------------------------------------------------------------------ the layouts cover every index *)
Lemma idx_decomp_par nS nP q : q < nS * nP -> exists i j, i < nS /\ j < nP /\ q = j * nS + i.
Proof.
  intros H. assert (Hn : nS <> 0) by nia. exists (q mod nS), (q / nS).
  pose proof (Nat.div_mod q nS Hn). pose proof (Nat.mod_upper_bound q nS Hn).
  repeat split; try lia. apply Nat.div_lt_upper_bound; auto.
Qed.
Lemma idx_decomp_st nS nP q : q < nS * nP -> exists i j, i < nS /\ j < nP /\ q = i * nP + j.
Proof.
  intros H. assert (Hn : nP <> 0) by nia. exists (q / nP), (q mod nP).
  pose proof (Nat.div_mod q nP Hn). pose proof (Nat.mod_upper_bound q nP Hn).
  repeat split; try lia. apply Nat.div_lt_upper_bound; auto. lia.
Qed.

(* ------------------------------------------------------------------ the arrangement *)
Lemma arrange_spec_good nS nP : arrange_good nS nP arrange_spec.
Proof. intros i j Hi Hj. unfold arrange_spec. rewrite mod_lin, div_lin by assumption. reflexivity. Qed.

(* fixed tactic for the obligation about the extracted loop:
     forall nS nP, arrange_good nS nP (arrange_of outer e)   with outer, e transparent *)
Ltac arrange_tac :=
  let nS := fresh "nS" in let nP := fresh "nP" in let i := fresh "i" in let j := fresh "j" in
  let Hi := fresh "Hi" in let Hj := fresh "Hj" in
  intros nS nP i j Hi Hj;
  cbv beta iota zeta delta -[Nat.div Nat.modulo Nat.mul Nat.add Z.of_nat Z.to_nat Z.ltb Z.eqb Z.mul Z.add Z.sub Z.opp];
  rewrite ?mod_lin, ?div_lin by assumption;
  repeat match goal with
         | |- context [(?a =? ?b)%Z] => destruct (Z.eqb_spec a b)
         | |- context [(?a <? ?b)%Z] => destruct (Z.ltb_spec a b)
         end;
  nia.

(* ------------------------------------------------------------------ concrete witnesses over Z *)
Module Witness.
  Open Scope Z_scope.
  Definition nS := 3%nat. Definition nP := 2%nat.
  Definition wf : vec Z := Build_vec 3 (fun k => Z.of_nat k + 1).
  Definition wJ : arr Z := Build_arr 3 3 (fun i l => 1 + 3 * Z.of_nat i + Z.of_nat l).
  Definition wG : arr Z := Build_arr 3 2 (fun i j => 2 * Z.of_nat i - Z.of_nat j).
  (* DJ[i*nS+a][b] symmetric in (a, b) *)
  Definition wDJ : arr Z :=
    Build_arr 9 3 (fun r b => let i := Z.of_nat (r / 3) in let a := Z.of_nat (r mod 3) in
                              (i + 1) * (a + Z.of_nat b + 1) + a * Z.of_nat b).
  Definition wGJ : arr Z := Build_arr 6 3 (fun r c => 5 * Z.of_nat r + Z.of_nat c + 1).
  Definition wz : vec Z := Build_vec 9 (fun k => Z.of_nat (k * k) + 1).

  Lemma w_shapes : shapes_ok Z 3 2 wf wJ wG wDJ wGJ.
  Proof. repeat split. Qed.
  Lemma w_sym : DJ_symmetric Z 3 wDJ.
  Proof.
    intros i a b Hi Ha Hb.
    destruct i as [|[|[|i]]]; try lia; destruct a as [|[|[|a]]]; try lia; destruct b as [|[|[|b]]]; try lia;
      reflexivity.
  Qed.
  Lemma w_len : vlen wz = (3 + 3 * 2)%nat.
  Proof. reflexivity. Qed.

  (* the arrangement of the pinned tree, rows only, sensitivities not re-laid out *)
  Definition M_pinned := ode_and_sensitivity_jacobian Z 0 1 Z.add Z.mul good_facts 3 2 arrange_pinned false false wJ wDJ wGJ wz true.
  Definition M_good := ode_and_sensitivity_jacobian Z 0 1 Z.add Z.mul good_facts 3 2 arrange_spec true true wJ wDJ wGJ wz true.

  (* row of d(JS+G)[0][1] (position nS + 0*nP + 1), column x_0 *)
  Lemma bystate_refuted :
    get M_pinned (3 + 0 * 2 + 1) 0 <> dS_dx Z 0 Z.add Z.mul 3 wDJ wGJ (S_st 3 2 wz) 0 1 0.
  Proof. vm_compute. discriminate. Qed.
  (* row of d(JS+G)[0][1], column S[1][1] (position nS + 1*nP + 1): must be J[0][1] *)
  Lemma bystate_refuted_block :
    get M_pinned (3 + 0 * 2 + 1) (3 + 1 * 2 + 1) <> get wJ 0 1.
  Proof. vm_compute. discriminate. Qed.
  (* square case nS = nP = 2: the pinned loop does not even produce a permutation ([0;1;1;2]) *)
  Lemma bystate_refuted_square :
    map (arrange_pinned 2 2) (seq 0 4) = [0; 1; 1; 2]%nat.
  Proof. reflexivity. Qed.
  (* one parameter, three states: index 4 of 3 rows, numpy raises IndexError *)
  Lemma bystate_raises : arrange_in_range 3 1 arrange_pinned = false.
  Proof. reflexivity. Qed.
  Lemma pinned_is_inverse_of_spec :
    map (fun k => arrange_pinned 3 2 (arrange_spec 3 2 k)) (seq 0 6) = seq 0 6.
  Proof. reflexivity. Qed.
End Witness.
