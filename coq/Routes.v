(* C12 — the API routes by which a process enters a model, and their normal form.
   A process is described symbolically: state names o, d, magnitudes m0 m1 (index 2 = the default magnitude '1'), rate r.
   gen/gen_routes.py runs the current source of the constructors, add_* methods and list setters on these symbols and
   emits what ends up in the model's event list (Gen/RoutesGen.v).  Here: the canonical normal form of each process kind,
   the boolean check of a table against it, and the theorem that a table passing the check makes every route contribute,
   for every instantiation of the symbols, exactly the effect (Assembly.sgn, magnitude, rate) of the process described. *)
From Coq Require Import List Arith Bool String.
From PV Require Import Assembly.
Import ListNotations.

Inductive slot := SNone | SO | SD.
Record ntrans := NT { n_ty : ttype; n_orig : slot; n_dest : slot; n_mag : nat }.
Inductive pkind := PT | PD | PBd | PBo | PT1 | PTD.
(* Stored evs tripped: the events appended to the model (rate_is_r, transitions) and whether the compile canary was tripped *)
Inductive outcome := Raised | Stored (evs : list (bool * list ntrans)) (tripped : bool).

Definition slot_eqb a b := match a, b with SNone, SNone | SO, SO | SD, SD => true | _, _ => false end.

(* canonical normal form: the transitions a process of each kind consists of *)
Definition expected (k : pkind) : list ntrans :=
  match k with
  | PT  => [NT T SO SD 0]
  | PD  => [NT D SO SNone 0]
  | PBd => [NT B SNone SD 0]
  | PBo => [NT B SNone SO 0]            (* a birth named by origin acts on that state *)
  | PT1 => [NT T SO SD 2]               (* magnitude left to its default *)
  | PTD => [NT T SO SD 0; NT D SD SNone 1]
  end.

(* two stored transitions have the same effect: same type and magnitude, same states where the type reads them *)
Definition tr_same (a b : ntrans) : bool :=
  ty_eqb (n_ty a) (n_ty b) && Nat.eqb (n_mag a) (n_mag b) &&
  match n_ty a with
  | B => slot_eqb (n_dest a) (n_dest b) && negb (slot_eqb (n_dest a) SNone)
  | D => slot_eqb (n_orig a) (n_orig b) && negb (slot_eqb (n_orig a) SNone)
  | T => slot_eqb (n_orig a) (n_orig b) && slot_eqb (n_dest a) (n_dest b)
         && negb (slot_eqb (n_orig a) SNone) && negb (slot_eqb (n_dest a) SNone)
  end.
Fixpoint trs_same (l1 l2 : list ntrans) : bool :=
  match l1, l2 with
  | [], [] => true
  | a :: r1, b :: r2 => tr_same a b && trs_same r1 r2
  | _, _ => false
  end.

Definition row_ok (row : string * pkind * outcome) : bool :=
  match snd row with
  | Stored [(true, trs)] true => trs_same trs (expected (snd (fst row)))
  | _ => false
  end.

Definition kind_eqb a b := match a, b with
  | PT, PT | PD, PD | PBd, PBd | PBo, PBo | PT1, PT1 | PTD, PTD => true | _, _ => false end.
Definition covers (rows : list (string * pkind * outcome)) (name : string) (k : pkind) : bool :=
  existsb (fun r => String.eqb (fst (fst r)) name && kind_eqb (snd (fst r)) k) rows.

Open Scope string_scope.
(* every route the property names must be present in the table for the kinds it applies to *)
Definition required : list (string * pkind) :=
  flat_map (fun k => [("Event(rate, [t]) via add_event", k); ("Event([t with rate]) via add_event", k);
                      ("Event(t, rate) solitary", k); ("add_event(t with rate)", k); ("event_list setter", k)])
           [PT; PD; PBd; PBo; PT1]
  ++ [("add_transition", PT); ("transition_list setter", PT); ("add_transition", PT1)]
  ++ flat_map (fun k => [("add_birth_death", k); ("birth_death_list setter", k)]) [PD; PBd; PBo]
  ++ [("Event(rate, [t1, t2])", PTD); ("Event([t1 with rate, t2])", PTD); ("Event([t1, t2 with rate])", PTD)]
  ++ [("type spelled 'between states'", PT); ("type spelled 't'", PT); ("type spelled 'death process'", PD);
      ("type spelled 'birth process'", PBd); ("type given as enum member", PT); ("type given as enum member", PD);
      ("type given as enum member", PBd); ("positional Transition", PT); ("positional Transition", PD);
      ("positional Transition", PBd)].
Close Scope string_scope.

Definition routes_ok (rows : list (string * pkind * outcome)) (reuse : list (pkind * bool))
           (order : list (bool * list ntrans)) (ode_ok : bool) (refused : list (string * bool)) : bool :=
  forallb row_ok rows && forallb (fun nk => covers rows (fst nk) (snd nk)) required &&
  forallb (fun kb => snd kb) reuse && negb (Nat.eqb (List.length reuse) 0) &&
  match order with
  | [(true, t1); (true, t2)] => trs_same t1 (expected PT) && trs_same t2 (expected PD)
  | _ => false
  end && ode_ok && forallb (fun nb => snd nb) refused && Nat.leb 10 (List.length refused).

(* ---------------- instantiation into the assembly model ---------------- *)
Section Inst.
  Variables (A : Type) (a0 a1 : A) (add mul sub : A -> A -> A) (opp : A -> A).
  Variables (o d : nat) (ms : nat -> A) (r : A).

  Definition inst_slot (s : slot) : nat := match s with SO => o | SD => d | SNone => 0 end.
  Definition inst_tr (t : ntrans) : transition A :=
    {| ty := n_ty t; orig := inst_slot (n_orig t); dest := inst_slot (n_dest t); mag := ms (n_mag t) |}.
  Definition inst_ev (trs : list ntrans) : event A := {| rate := r; trans := map inst_tr trs |}.

  Lemma slot_eqb_eq a b : slot_eqb a b = true -> a = b.
  Proof. destruct a, b; simpl; congruence. Qed.
  Lemma ty_eqb_eq a b : ty_eqb a b = true -> a = b.
  Proof. destruct a, b; simpl; congruence. Qed.

  Lemma tr_same_effect a b : tr_same a b = true ->
    (forall i, sgn A a0 a1 sub opp (inst_tr a) i = sgn A a0 a1 sub opp (inst_tr b) i) /\
    mag (inst_tr a) = mag (inst_tr b).
  Proof. unfold tr_same. intros H.
    apply andb_true_iff in H as [H H3]. apply andb_true_iff in H as [H1 H2].
    apply ty_eqb_eq in H1. apply Nat.eqb_eq in H2. split.
    - intros i. unfold sgn, inst_tr; simpl. rewrite <- H1. destruct (n_ty a).
      + apply andb_true_iff in H3 as [H3 _]. apply slot_eqb_eq in H3. now rewrite H3.
      + apply andb_true_iff in H3 as [H3 _]. apply slot_eqb_eq in H3. now rewrite H3.
      + apply andb_true_iff in H3 as [H3 _]. apply andb_true_iff in H3 as [H3 _].
        apply andb_true_iff in H3 as [H3 H4]. apply slot_eqb_eq in H3, H4. now rewrite H3, H4.
    - unfold inst_tr; simpl. now rewrite H2. Qed.

  Lemma trs_same_effect : forall l1 l2, trs_same l1 l2 = true -> forall i,
    map (fun tr => mul (sgn A a0 a1 sub opp tr i) (mul (mag tr) r)) (map inst_tr l1) =
    map (fun tr => mul (sgn A a0 a1 sub opp tr i) (mul (mag tr) r)) (map inst_tr l2).
  Proof. induction l1 as [|a r1 IH]; intros [|b r2]; simpl; intros H i; try discriminate; [reflexivity|].
    apply andb_true_iff in H as [H1 H2]. destruct (tr_same_effect a b H1) as [Hs Hm].
    rewrite (IH r2 H2 i), (Hs i). simpl in Hm. unfold inst_tr at 2 4; simpl. now rewrite Hm. Qed.

  (* a row that passes the check: the event stored by that route has, for every instantiation of the symbols, the rate
     and the per-state contribution of the process it was given *)
  Theorem route_sound : forall row, row_ok row = true ->
    exists trs, snd row = Stored [(true, trs)] true /\
      rate (inst_ev trs) = r /\
      forall rest i, ev_part A a0 a1 add mul sub opp (inst_ev trs :: rest) i
                   = ev_part A a0 a1 add mul sub opp (inst_ev (expected (snd (fst row))) :: rest) i.
  Proof. intros [[name k] out] H. unfold row_ok in H. simpl in *.
    destruct out as [|evs tr]; [discriminate|].
    destruct evs as [|[b trs] more]; [discriminate|].
    destruct b; [|discriminate]. destruct more; [|discriminate]. destruct tr; [|discriminate].
    exists trs. split; [reflexivity|]. split; [reflexivity|].
    intros rest i. unfold ev_part; simpl. now rewrite (trs_same_effect trs (expected k) H i). Qed.
End Inst.
