(* C18 — proofs about the model of BaseLoss.fit in Fit.v *)
From Coq Require Import List Arith Bool ZArith Lia.
From PV Require Import Fit.
Import ListNotations.

(* ------------------------------------------------------------------ packing *)
Section Pack.
  Variable T : Type.
  Variable d : T.

  (* F-order reshape of lb ++ ub to (n, 2): row i is (lb_i, ub_i), for every n *)
  Lemma pack_rows : forall n (x lb ub : list T), length lb = n -> length ub = n ->
    exists b, pack d good_pack x lb ub = Some b /\ nr b = n /\ nc b = 2 /\
              forall i, i < n -> get b i 0 = nth i lb d /\ get b i 1 = nth i ub d.
  Proof.
    intros n x lb ub Hl Hu. unfold pack, good_pack, reshape_vec; simpl.
    rewrite app_length, Hl, Hu.
    replace (Nat.eqb (n * 2) (n + n)) with true by (symmetry; apply Nat.eqb_eq; lia).
    eexists; split; [reflexivity|]. simpl. repeat split; auto.
    - rewrite Nat.add_0_r. apply app_nth1. lia.
    - rewrite app_nth2 by lia. f_equal. lia.
  Qed.

  Lemma seq_nth_map : forall (X : Type) (dx : X) (l : list X),
    l = map (fun i => nth i l dx) (seq 0 (length l)).
  Proof.
    intros X dx l. induction l as [|a l IH]; [reflexivity|].
    simpl. f_equal. rewrite <- seq_shift, map_map. exact IH.
  Qed.

  (* the whole bounds table is the list of pairs zip(lb, ub) *)
  Lemma pack_table : forall (x lb ub : list T), length lb = length ub ->
    exists b, pack d good_pack x lb ub = Some b /\
              table b = map (fun p => [fst p; snd p]) (combine lb ub).
  Proof.
    intros x lb ub H.
    destruct (pack_rows (length lb) x lb ub eq_refl (eq_sym H)) as (b & Hb & Hr & Hc & Hg).
    exists b; split; auto. unfold table, row. rewrite Hr, Hc. simpl.
    rewrite (seq_nth_map _ (d, d) (combine lb ub)) at 1. rewrite map_map.
    rewrite combine_length, <- H, Nat.min_id.
    apply map_ext_in. intros i Hi. apply in_seq in Hi.
    rewrite combine_nth by auto. simpl.
    destruct (Hg i) as [H0 H1]; [lia|]. now rewrite H0, H1.
  Qed.

  (* mismatching lengths never reach the optimiser *)
  Lemma mismatch_rejected : forall none (x lb ub : list T) hasA,
    length lb <> length ub \/ length lb <> length x ->
    fit_call d none good_pack good_call x (Some lb) (Some ub) hasA = None.
  Proof.
    intros none x lb ub hasA H. unfold fit_call, good_call; simpl.
    destruct (Nat.eqb_spec (length lb) (length ub)); destruct (Nat.eqb_spec (length lb) (length x)); simpl;
      try reflexivity; lia.
  Qed.

  Lemma nth_repeat_lt : forall (a : T) m i, i < m -> nth i (repeat a m) d = a.
  Proof. induction m as [|m IH]; intros i Hi; [lia|]. destruct i; simpl; auto. apply IH. lia. Qed.

  (* absent bounds become rows (None, None) / (None, ub_i) / (lb_i, None) *)
  Lemma pack_default_rows : forall none (x : list T) (lb ub : option (list T)) n,
    length x = n ->
    match lb with Some l => length l = n | None => True end ->
    match ub with Some u => length u = n | None => True end ->
    exists c, fit_call d none good_pack good_call x lb ub false = Some c /\ nr (c_bounds c) = n /\
      forall i, i < n ->
        get (c_bounds c) i 0 = match lb with Some l => nth i l d | None => none end /\
        get (c_bounds c) i 1 = match ub with Some u => nth i u d | None => none end.
  Proof.
    intros none x lb ub n Hx Hl Hu.
    set (l := match lb with Some l => l | None => repeat none (length x) end).
    set (u := match ub with Some u => u | None => repeat none (length x) end).
    assert (Ll : length l = n) by (subst l; destruct lb; auto; now rewrite repeat_length).
    assert (Lu : length u = n) by (subst u; destruct ub; auto; now rewrite repeat_length).
    destruct (pack_rows n x l u Ll Lu) as (b & Hb & Hr & Hc & Hg).
    assert (Hchk : match lb, ub with
                   | Some l0, Some u0 =>
                       negb ((checks_len_lb_ub good_call && negb (Nat.eqb (length l0) (length u0)))
                             || (checks_len_lb_x good_call && negb (Nat.eqb (length l0) (length x))))
                   | _, _ => true end = true).
    { destruct lb as [l0|]; destruct ub as [u0|]; auto. simpl.
      rewrite Hl, Hu, Hx, Nat.eqb_refl. reflexivity. }
    unfold fit_call. rewrite Hchk. fold l u. rewrite Hb.
    eexists; split; [reflexivity|]. simpl. split; auto.
    intros i Hi. destruct (Hg i Hi) as [H0 H1]. rewrite H0, H1. subst l u.
    split.
    - destruct lb; auto. apply nth_repeat_lt. lia.
    - destruct ub; auto. apply nth_repeat_lt. lia.
  Qed.
End Pack.

(* C-order packing pairs consecutive entries of lb ++ ub instead: row 0 of ([0;1],[10;11]) is (0,1) *)
Definition bad_pack_C : pack_facts := mkPack true LenLb (Lit 2) OrdC.
Definition bad_pack_swapped : pack_facts := mkPack false LenLb (Lit 2) OrdF.

Lemma pack_C_order_refuted :
  match pack 0%Z bad_pack_C [] [0; 1]%Z [10; 11]%Z with
  | Some b => (get b 0 0, get b 0 1) <> (0, 10)%Z /\ table b = [[0; 1]; [10; 11]]%Z
  | None => False
  end.
Proof. vm_compute. split; [discriminate | reflexivity]. Qed.

(* for n = 1 both orders coincide: a correspondence case needs n >= 2 to tell them apart *)
Lemma pack_orders_agree_n1 : forall (a b : Z),
  option_map table (pack 0%Z bad_pack_C [] [a] [b]) = option_map table (pack 0%Z good_pack [] [a] [b]).
Proof. reflexivity. Qed.

(* ------------------------------------------------------------------ fit around the optimiser contract *)
Section Fit.
  Variable T : Type.                     (* parameter scalars *)
  Variable leT : T -> T -> Prop.         (* their order *)
  Variable d none : T.
  Variables (C G : Type).                (* cost values / gradient values *)
  Variable leC : C -> C -> Prop.
  Variable obj_of : objective -> list T -> C.
  Variable grad_of : gradient -> list T -> G.
  Variable is_grad : (list T -> C) -> (list T -> G) -> Prop.      (* "g is the gradient of f" *)
  Variable stationary : (list T -> G) -> list T -> Prop.          (* "g vanishes at x" *)
  Variable minimize : (list T -> C) -> (list T -> G) -> list T -> arr T -> method -> list T.

  (* x lies in the box whose rows are (lower_i, upper_i) *)
  Definition in_bounds (b : arr T) (x : list T) : Prop :=
    length x = nr b /\ forall i, i < nr b -> leT (get b i 0) (nth i x d) /\ leT (nth i x d) (get b i 1).

  (* CONTRACT of scipy.optimize.minimize(method='L-BFGS-B') — trusted, validated at run time by the search *)
  Definition contract_feasible : Prop := forall f g x0 b,
    in_bounds b x0 -> in_bounds b (minimize f g x0 b LBFGSB).
  Definition contract_descent : Prop := forall f g x0 b,
    is_grad f g -> in_bounds b x0 -> leC (f (minimize f g x0 b LBFGSB)) (f x0).
  Definition contract_stationary : Prop := forall f g x0 b,
    is_grad f g -> in_bounds b x0 -> stationary g x0 -> minimize f g x0 b LBFGSB = x0.

  Definition in_box (lb ub x : list T) : Prop :=
    length x = length lb /\ forall i, i < length lb -> leT (nth i lb d) (nth i x d) /\ leT (nth i x d) (nth i ub d).

  Lemma in_box_in_bounds : forall n lb ub x b, length lb = n -> nr b = n ->
    (forall i, i < n -> get b i 0 = nth i lb d /\ get b i 1 = nth i ub d) ->
    (in_box lb ub x <-> in_bounds b x).
  Proof.
    intros n lb ub x b Hl Hr Hg. unfold in_box, in_bounds. rewrite Hl, Hr.
    split; intros [H1 H2]; split; auto; intros i Hi; destruct (Hg i Hi) as [E0 E1]; specialize (H2 i Hi).
    - now rewrite E0, E1.
    - now rewrite <- E0, <- E1.
  Qed.

  Lemma fit_reduces : forall n x lb ub, length x = n -> length lb = n -> length ub = n ->
    exists b, fit d none obj_of grad_of minimize good_pack good_call x lb ub
              = Some (minimize (obj_of ObjCost) (grad_of GradSensitivity) x b LBFGSB)
              /\ nr b = n /\ forall i, i < n -> get b i 0 = nth i lb d /\ get b i 1 = nth i ub d.
  Proof.
    intros n x lb ub Hx Hl Hu.
    destruct (pack_default_rows T d none x (Some lb) (Some ub) n Hx Hl Hu) as (c & Hc & Hr & Hg).
    exists (c_bounds c). split; [|auto].
    unfold fit. rewrite Hc.
    unfold fit_call in Hc.
    destruct (negb _) in Hc; [|discriminate].
    destruct (pack d good_pack x lb ub) as [b|] eqn:Hb; [|discriminate].
    injection Hc as <-. reflexivity.
  Qed.

  (* fit returns a point of the user's box whose cost is not above the cost of the start *)
  Theorem fit_in_box_not_worse :
    contract_feasible -> contract_descent ->
    is_grad (obj_of ObjCost) (grad_of GradSensitivity) ->
    forall n x lb ub, length x = n -> length lb = n -> length ub = n -> in_box lb ub x ->
    exists r, fit d none obj_of grad_of minimize good_pack good_call x lb ub = Some r /\
              in_box lb ub r /\ leC (obj_of ObjCost r) (obj_of ObjCost x).
  Proof.
    intros Hf Hd Hgr n x lb ub Hx Hl Hu Hbox.
    destruct (fit_reduces n x lb ub Hx Hl Hu) as (b & Hfit & Hr & Hg).
    eexists; split; [exact Hfit|].
    pose proof (in_box_in_bounds n lb ub x b Hl Hr Hg) as E. apply E in Hbox.
    split.
    - apply (in_box_in_bounds n lb ub _ b Hl Hr Hg). now apply Hf.
    - now apply Hd.
  Qed.

  (* started at a stationary point of the cost (the generating parameters of noise-free data) it returns it *)
  Theorem fit_truth_fixed :
    contract_stationary ->
    is_grad (obj_of ObjCost) (grad_of GradSensitivity) ->
    forall n x lb ub, length x = n -> length lb = n -> length ub = n -> in_box lb ub x ->
    stationary (grad_of GradSensitivity) x ->
    fit d none obj_of grad_of minimize good_pack good_call x lb ub = Some x.
  Proof.
    intros Hs Hgr n x lb ub Hx Hl Hu Hbox Hst.
    destruct (fit_reduces n x lb ub Hx Hl Hu) as (b & Hfit & Hr & Hg).
    rewrite Hfit. f_equal. apply Hs; auto.
    now apply (in_box_in_bounds n lb ub x b Hl Hr Hg).
  Qed.
End Fit.

(* ------------------------------------------------------------------ non-vacuity and refutation witnesses (over Z) *)
Local Open Scope Z_scope.

(* an optimiser that meets the feasibility clause: it returns the upper corner of the bounds it is given *)
Definition corner_opt (f : list Z -> Z) (g : list Z -> list Z) (x0 : list Z) (b : arr Z) (m : method) : list Z :=
  map (fun i => get b i 1%nat) (seq 0 (nr b)).

Lemma corner_opt_feasible : contract_feasible Z Z.le 0 Z (list Z) corner_opt.
Proof.
  intros f g x0 b [Hlen Hx]. unfold in_bounds, corner_opt. split.
  - now rewrite map_length, seq_length.
  - intros i Hi. specialize (Hx i Hi).
    rewrite (nth_indep _ 0 (get b (nth 0 (seq 0 (nr b)) 0%nat) 1%nat)) by now rewrite map_length, seq_length.
    replace (nth i (map (fun i0 => get b i0 1%nat) (seq 0 (nr b))) (get b (nth 0 (seq 0 (nr b)) 0%nat) 1%nat))
      with (get b i 1%nat).
    + lia.
    + rewrite (nth_indep _ _ (get b 0%nat 1%nat)) by now rewrite map_length, seq_length.
      change (get b 0%nat 1%nat) with ((fun i0 => get b i0 1%nat) 0%nat).
      rewrite map_nth. now rewrite seq_nth.
  Qed.

(* the optimiser that does not move satisfies the three clauses (for any notion of gradient / stationarity) *)
Definition stay_opt (f : list Z -> Z) (g : list Z -> list Z) (x0 : list Z) (b : arr Z) (m : method) : list Z := x0.
Lemma stay_opt_contract : forall is_grad stationary,
  contract_feasible Z Z.le 0 Z (list Z) stay_opt /\
  contract_descent Z Z.le 0 Z (list Z) Z.le is_grad stay_opt /\
  contract_stationary Z Z.le 0 Z (list Z) is_grad stationary stay_opt.
Proof.
  intros; split; [|split]; unfold stay_opt.
  - intros f g x0 b H. exact H.
  - intros f g x0 b _ _. apply Z.le_refl.
  - intros f g x0 b _ _ _. reflexivity.
Qed.

(* with C-order packing a contract-abiding optimiser leaves the user's box: lb=[0;20], ub=[10;30], x=[5;25] *)
Definition wit_obj (o : objective) (x : list Z) : Z := 0.
Definition wit_grad (g : gradient) (x : list Z) : list Z := [].
Lemma fit_C_order_refuted :
  in_box Z Z.le 0 [0; 20] [10; 30] [5; 25] /\
  fit 0 0 wit_obj wit_grad corner_opt bad_pack_C good_call [5; 25] [0; 20] [10; 30] = Some [20; 30] /\
  ~ in_box Z Z.le 0 [0; 20] [10; 30] [20; 30].
Proof.
  split; [|split].
  - split; [reflexivity|]. intros i Hi. simpl in Hi.
    destruct i as [|[|i]]; simpl; try lia.
  - vm_compute. reflexivity.
  - intros [_ H]. specialize (H 0%nat). simpl in H. lia.
Qed.

(* the hypotheses of fit_in_box_not_worse are met on a concrete non-trivial instance *)
Example fit_example :
  exists r, fit 0 0 wit_obj wit_grad stay_opt good_pack good_call [5; 25; -3] [0; 20; -7] [10; 30; 4] = Some r /\
            in_box Z Z.le 0 [0; 20; -7] [10; 30; 4] r /\ (wit_obj ObjCost r <= wit_obj ObjCost [5; 25; -3]).
Proof.
  destruct (stay_opt_contract (fun _ _ => True) (fun _ _ => True)) as (Hf & Hd & _).
  apply (fit_in_box_not_worse Z Z.le 0 0 Z (list Z) Z.le wit_obj wit_grad (fun _ _ => True) stay_opt Hf Hd I 3%nat);
    try reflexivity.
  split; [reflexivity|]. intros i Hi. simpl in Hi. destruct i as [|[|[|i]]]; simpl; lia.
Qed.
