(* C09 — the commit step of the `parameters` setter.
   `_extractParamSymbol` (the `f` of the setter) accepts every name the model knows as a symbol: parameters, but also
   state names and `t`.  A name of the second kind passes the write loop and is only refused by `get_param_index`
   in the rebuild loop.  If the new dictionary has been stored before that loop (the pinned code), the refusal leaves
   the object holding the bad key: later well-formed assignments are refused or bound to zeros.  With the atomic
   commit (resolve every name first, store afterwards) the refined model below coincides with `Params.step`,
   in which every name that is not a parameter is rejected without effect. *)
From Coq Require Import List Arith ZArith Bool Lia.
From PV Require Import Params.
Import ListNotations.
Open Scope Z_scope.

Section Atomic.
  Variable decl : list nat.          (* parameter names *)
  Variable known : list nat.         (* other names `f` accepts: states, t *)
  Variable atomic : bool.            (* extracted: are _parameters / _paramValue stored after the rebuild loop? *)

  Definition passes_f p := declared decl p || existsb (Nat.eqb p) known.

  Fixpoint write_f (d : pdict) (l : list (nat * Z)) : pdict * bool :=
    match l with
    | [] => (d, true)
    | (p, v) :: r => if passes_f p then write_f (dset d (KSym p) v) r else (d, false)
    end.

  (* the rebuild loop: raises at the first key that is not a parameter, keeping what it wrote so far *)
  Fixpoint replay_partial (acc : list Z) (d : pdict) : list Z * bool :=
    match d with
    | [] => (acc, true)
    | kv :: r => match index decl (kname (fst kv)) with
                 | Some i => replay_partial (set_nth acc i (snd kv)) r
                 | None => (acc, false)
                 end
    end.

  Definition commit (s : st) (d : pdict) : st * bool :=
    match replay_partial (repeat 0 (nP decl)) d with
    | (pv, true) => ({| pdic := d; pval := pv; has := true |}, true)
    | (pv, false) => if atomic then (s, false) else ({| pdic := d; pval := pv; has := true |}, false)
    end.

  (* the setter with the real acceptance test of `f` (dict branch copies: dict_branch_aliases = false) *)
  Definition step_f (s : st) (o : op) : st * bool :=
    match o with
    | SetList _ | SetArr _ _ => step decl false s o
    | SetPairs l =>
        if Nat.eqb (length l) (nP decl)
        then match write_f [] l with (d, true) => commit s d | (_, false) => (s, false) end
        else (s, false)
    | SetDict l =>
        if Nat.ltb (nP decl) (length l) then (s, false)
        else match write_f (pdic s) l with (d, true) => commit s d | (_, false) => (s, false) end
    end.

  (* ---- invariants ---- *)
  Definition keys_ok (d : pdict) := forallb (fun kv => declared decl (kname (fst kv))) d.

  Lemma keys_ok_dset d k v : keys_ok d = true -> declared decl (kname k) = true -> keys_ok (dset d k v) = true.
  Proof. induction d as [|[k' v'] r IH]; simpl; intros H Hk.
    - now rewrite Hk.
    - apply andb_true_iff in H as [H1 H2]. destruct (key_eqb k k'); simpl.
      + now rewrite Hk, H2.
      + now rewrite H1, IH. Qed.

  Lemma keys_bad_dset d k v : keys_ok d = false -> keys_ok (dset d k v) = false.
  Proof. induction d as [|[k' v'] r IH]; simpl; intros H; [discriminate|].
    destruct (key_eqb_spec k k') as [->|Hne]; simpl.
    - destruct (declared decl (kname k')); simpl in *; [exact H|reflexivity].
    - destruct (declared decl (kname k')); simpl in *; [apply IH, H|reflexivity]. Qed.

  Lemma dset_undeclared_bad d k v : declared decl (kname k) = false -> keys_ok (dset d k v) = false.
  Proof. induction d as [|[k' v'] r IH]; simpl; intros Hk.
    - now rewrite Hk.
    - destruct (key_eqb k k'); simpl.
      + now rewrite Hk.
      + rewrite IH by exact Hk. apply andb_false_r. Qed.

  Lemma replay_partial_ok d : forall acc, keys_ok d = true ->
    replay_partial acc d = (fold_left (replay_step decl) d acc, true).
  Proof. induction d as [|[k v] r IH]; simpl; intros acc H; [reflexivity|].
    apply andb_true_iff in H as [H1 H2]. unfold declared in H1. unfold replay_step at 2; simpl.
    destruct (index decl (kname k)); [|discriminate]. apply IH, H2. Qed.

  Lemma replay_partial_bad d : forall acc, keys_ok d = false -> snd (replay_partial acc d) = false.
  Proof. induction d as [|[k v] r IH]; simpl; intros acc H; [discriminate|].
    unfold declared in H. destruct (index decl (kname k)); simpl in H; [apply IH, H|reflexivity]. Qed.

  (* write_f against Params.write: same dictionary while every name is a parameter; once a non-parameter name has
     been written the dictionary stays bad *)
  Lemma write_f_bad l : forall d, keys_ok d = false ->
    forall d', write_f d l = (d', true) -> keys_ok d' = false.
  Proof. induction l as [|[p v] r IH]; simpl; intros d H d' Hw.
    - now inversion Hw; subst.
    - destruct (passes_f p); [|discriminate].
      exact (IH _ (keys_bad_dset d (KSym p) v H) _ Hw). Qed.

  Lemma write_f_spec l : forall d, keys_ok d = true ->
    match write decl d l with
    | (d', true) => write_f d l = (d', true) /\ keys_ok d' = true
    | (_, false) => match write_f d l with (d', true) => keys_ok d' = false | (_, false) => True end
    end.
  Proof. induction l as [|[p v] r IH]; simpl; intros d H.
    - split; [reflexivity|exact H].
    - unfold passes_f. destruct (declared decl p) eqn:Ep; simpl.
      + apply IH. apply keys_ok_dset; [exact H|exact Ep].
      + destruct (existsb (Nat.eqb p) known); [|exact I].
        destruct (write_f (dset d (KSym p) v) r) as [d' b] eqn:Ew. destruct b; [|exact I].
        eapply write_f_bad; [|exact Ew]. apply dset_undeclared_bad. exact Ep. Qed.

  Lemma declared_in p : In p decl -> declared decl p = true.
  Proof. unfold declared. induction decl as [|a l IH]; simpl; intros H; [contradiction|].
    destruct (Nat.eqb a p) eqn:E; [reflexivity|]. destruct H as [->|H]; [now rewrite Nat.eqb_refl in E|].
    specialize (IH H). destruct (index l p); [reflexivity|discriminate]. Qed.

  Lemma keys_ok_positional vs : keys_ok (combine (map KStr decl) vs) = true.
  Proof. unfold keys_ok. apply forallb_forall. intros [k v] Hin. apply in_combine_l in Hin.
    apply in_map_iff in Hin as [a [<- Ha]]. simpl. apply declared_in, Ha. Qed.

  Lemma commit_ok s d : keys_ok d = true ->
    commit s d = ({| pdic := d; pval := replay decl d; has := true |}, true).
  Proof. intros H. unfold commit, replay. now rewrite (replay_partial_ok d _ H). Qed.

  Lemma commit_bad s d : atomic = true -> keys_ok d = false -> commit s d = (s, false).
  Proof. intros Ha H. unfold commit. pose proof (replay_partial_bad d (repeat 0 (nP decl)) H) as Hb.
    destruct (replay_partial (repeat 0 (nP decl)) d) as [pv b]. simpl in Hb. subst b. now rewrite Ha. Qed.

  (* with the atomic commit the refined setter is the setter of Params.v on every state whose dictionary holds
     only parameter names — and it keeps that invariant *)
  Theorem step_f_atomic : atomic = true -> forall s o, keys_ok (pdic s) = true ->
    step_f s o = step decl false s o /\ keys_ok (pdic (fst (step_f s o))) = true.
  Proof. intros Ha s o Hs. destruct o as [vs|rows vs|l|l]; simpl.
    - split; [reflexivity|]. destruct (Nat.eqb (length vs) (nP decl)); simpl; [apply keys_ok_positional|exact Hs].
    - split; [reflexivity|]. destruct (Nat.eqb rows (nP decl) && Nat.eqb (length vs) (nP decl)); simpl;
        [apply keys_ok_positional|exact Hs].
    - destruct (Nat.eqb (length l) (nP decl)); [|split; [reflexivity|exact Hs]].
      pose proof (write_f_spec l [] eq_refl) as Hw.
      destruct (write decl [] l) as [d b]. destruct b.
      + destruct Hw as [-> Hk]. rewrite (commit_ok s d Hk). split; [reflexivity|exact Hk].
      + destruct (write_f [] l) as [d' b']. destruct b'; [|split; [reflexivity|exact Hs]].
        rewrite (commit_bad s d' Ha Hw). split; [reflexivity|exact Hs].
    - destruct (Nat.ltb (nP decl) (length l)); [split; [reflexivity|exact Hs]|].
      pose proof (write_f_spec l (pdic s) Hs) as Hw.
      destruct (write decl (pdic s) l) as [d b]. destruct b.
      + destruct Hw as [-> Hk]. rewrite (commit_ok s d Hk). split; [reflexivity|exact Hk].
      + simpl. destruct (write_f (pdic s) l) as [d' b']. destruct b'.
        * rewrite (commit_bad s d' Ha Hw). split; [destruct s; reflexivity|exact Hs].
        * split; [destruct s; reflexivity|exact Hs]. Qed.

  (* every history: the refined setter and Params.step agree step by step *)
  Theorem trace_f_atomic : atomic = true -> forall ops s, keys_ok (pdic s) = true ->
    fold_left (fun st o => fst (step_f st o)) ops s = fold_left (fun st o => fst (step decl false st o)) ops s.
  Proof. intros Ha. induction ops as [|o r IH]; simpl; intros s Hs; [reflexivity|].
    destruct (step_f_atomic Ha s o Hs) as [He Hk]. rewrite <- He. apply IH, Hk. Qed.
End Atomic.

(* the pinned commit order (store first, resolve names afterwards) violates the statement: a rejected update that
   names `t` makes the next well-formed update fail and leaves the parameter unbound.  Names: 0 = the parameter, 9 = t *)
Definition na_ops := [SetDict [(9%nat, 868)]; SetDict [(0%nat, 904)]].
Definition na_run (atomic : bool) :=
  fold_left (fun st o => fst (step_f [0%nat] [9%nat] atomic st o)) na_ops (init [0%nat]).
Lemma nonatomic_refuted :
  bound [0%nat] (na_run false) 0 = 0 /\ snd (step_f [0%nat] [9%nat] false
     (fst (step_f [0%nat] [9%nat] false (init [0%nat]) (SetDict [(9%nat, 868)]))) (SetDict [(0%nat, 904)])) = false.
Proof. vm_compute. split; reflexivity. Qed.
Lemma atomic_witness_ok : bound [0%nat] (na_run true) 0 = 904.
Proof. vm_compute. reflexivity. Qed.

(* executable trace of the refined setter, used by the correspondence check *)
Fixpoint trace_f (decl known : list nat) (atomic : bool) (s : st) (ops : list op) : list (list Z * bool) :=
  match ops with
  | [] => []
  | o :: r => let '(s', ok) := step_f decl known atomic s o in (pval s', ok) :: trace_f decl known atomic s' r
  end.

(* ---- the tail of the setter: `self.set_sp()` runs after the commit (it rebuilds the argument list of the compiled
   evaluators).  Whether it leaves the committed values alone is a fact extracted from the source of set_sp
   (Gen.ParamsGen.setsp_keeps_values: no statement of set_sp writes _paramValue / _parameters). *)
Definition wipe (s : st) : st := {| pdic := pdic s; pval := repeat 0 (List.length (pval s)); has := has s |}.
Definition after_setsp (keeps : bool) (s : st) : st := if keeps then s else wipe s.

(* the setter followed by its tail, on every history *)
Definition step_tail (decl : list nat) (alias keeps : bool) (s : st) (o : op) : st * bool :=
  let r := step decl alias s o in (if snd r then after_setsp keeps (fst r) else fst r, snd r).

Theorem tail_keeps : forall decl alias ops s,
  fold_left (fun st o => fst (step_tail decl alias true st o)) ops s = fold_left (fun st o => fst (step decl alias st o)) ops s.
Proof. intros decl alias. induction ops as [|o r IH]; cbn [fold_left]; intros s; [reflexivity|].
  replace (fst (step_tail decl alias true s o)) with (fst (step decl alias s o)); [apply IH|].
  unfold step_tail, after_setsp. cbn [fst snd]. destruct (snd (step decl alias s o)); reflexivity. Qed.

(* a set_sp that resets the values violates the statement: the assignment itself is wiped *)
Lemma tail_wipes_refuted :
  bound [0%nat; 1%nat] (fst (step_tail [0%nat; 1%nat] false false (init [0%nat; 1%nat]) (SetList [7; 8]))) 0 = 0 /\
  bound [0%nat; 1%nat] (fst (step_tail [0%nat; 1%nat] false true (init [0%nat; 1%nat]) (SetList [7; 8]))) 0 = 7.
Proof. vm_compute. split; reflexivity. Qed.
