From Coq Require Import List Arith Bool Lia.
From PV Require Import Assembly Reactant.
Import ListNotations.

Section P.
  Variable A : Type.
  Lemma hit_code (en : sentry) (tr : transition A) i : hit A en tr i = hitc A (scode en) tr i.
  Proof. destruct en as [t r]; destruct t, r; unfold hit, hitc, scode; simpl; destruct (ty tr); reflexivity. Qed.
  Lemma memn_in a l : memn a l = true <-> In a l.
  Proof. unfold memn. rewrite existsb_exists. split.
    - intros (x & Hx & E). apply Nat.eqb_eq in E. subst. exact Hx.
    - intros H. exists a. split; [exact H | apply Nat.eqb_refl]. Qed.
  Lemma existsb_incl {X} (f : X -> bool) l1 l2 : incl l1 l2 -> existsb f l1 = true -> existsb f l2 = true.
  Proof. intros Hi H. apply existsb_exists in H as (x & Hx & Hf). apply existsb_exists. exists x. split; [apply Hi, Hx | exact Hf]. Qed.
  Lemma existsb_same_set {X} (f : X -> bool) l1 l2 : incl l1 l2 -> incl l2 l1 -> existsb f l1 = existsb f l2.
  Proof. intros H1 H2. destruct (existsb f l1) eqn:E1, (existsb f l2) eqn:E2; try reflexivity.
    - rewrite (existsb_incl f l1 l2 H1 E1) in E2. discriminate.
    - rewrite (existsb_incl f l2 l1 H2 E2) in E1. discriminate. Qed.

  Lemma canon_involved (tr : transition A) i : existsb (fun c => hitc A c tr i) canon_codes = involved1 A tr i.
  Proof. unfold canon_codes, involved1, hitc; simpl. destruct (ty tr); simpl;
    destruct (orig tr =? i), (dest tr =? i); reflexivity. Qed.

  Lemma existsb_ext {X} (f g : X -> bool) l : (forall x, f x = g x) -> existsb f l = existsb g l.
  Proof. intros H. induction l as [|x r IH]; simpl; [reflexivity | rewrite H, IH; reflexivity]. Qed.
  Lemma existsb_map {X Y} (h : X -> Y) (f : Y -> bool) l : existsb f (map h l) = existsb (fun x => f (h x)) l.
  Proof. induction l as [|x r IH]; simpl; [reflexivity | rewrite IH; reflexivity]. Qed.

  Theorem set_table_sound (tb : list sentry) : set_table_ok tb = true ->
    forall (evs : list (event A)) i j,
      reactant A tb evs i j = match nth_error evs j with Some e => involved A e i | None => false end.
  Proof.
    intros Hok evs i j. unfold reactant. destruct (nth_error evs j) as [e|]; [|reflexivity].
    unfold run_set, involved.
    apply andb_prop in Hok as [H1 H2].
    assert (I1 : incl (map scode tb) canon_codes).
    { intros c Hc. apply in_map_iff in Hc as (en & <- & Hen). rewrite forallb_forall in H1. apply memn_in, H1, Hen. }
    assert (I2 : incl canon_codes (map scode tb)).
    { intros c Hc. rewrite forallb_forall in H2. apply memn_in, H2, Hc. }
    apply existsb_ext. intros tr.
    rewrite (existsb_ext _ (fun en => hitc A (scode en) tr i)) by (intros; apply hit_code).
    rewrite <- (existsb_map scode (fun c => hitc A c tr i)).
    rewrite (existsb_same_set _ _ _ I1 I2). apply canon_involved.
  Qed.
End P.
