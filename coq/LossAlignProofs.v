(* C06 — lemmas and proofs about LossAlign.v *)
From Coq Require Import List Arith Bool Lia ZArith Ring.
From PV Require Import Shapes ShapesProofs LossAlign.
Import ListNotations.

Ltac eqbs := repeat match goal with
  | |- context [?a =? ?b] => destruct (Nat.eqb_spec a b)
  | H : context [?a =? ?b] |- _ => destruct (Nat.eqb_spec a b)
  end.

(* ====================================================================== decision trees as functions of (n, p, m, q) *)
Definition rn (n : nat) := if n =? 1 then 1 else 2.
Definition rp (n p : nat) := if p =? 1 then 1 else if p =? n then rn n else 3.
Definition rm (n p m : nat) := if m =? 1 then 1 else if m =? n then rn n else if m =? p then rp n p else 4.
Definition rq (n p m q : nat) :=
  if q =? 1 then 1 else if q =? n then rn n else if q =? p then rp n p else if q =? m then rm n p m else 5.

Lemma dval_rep n p m q a b :
  (dval n p m q a =? dval n p m q b) =
  (dval (rn n) (rp n p) (rm n p m) (rq n p m q) a =? dval (rn n) (rp n p) (rm n p m) (rq n p m q) b).
Proof.
  destruct a, b; cbv beta iota delta [dval rn rp rm rq]; eqbs; try reflexivity; exfalso; lia.
Qed.

Lemma dceval_rep n p m q c :
  dceval n p m q c = dceval (rn n) (rp n p) (rm n p m) (rq n p m q) c.
Proof.
  induction c as [a b|c IHc d IHd|c IHc d IHd|c IHc]; simpl.
  - apply dval_rep.
  - now rewrite IHc, IHd.
  - now rewrite IHc, IHd.
  - now rewrite IHc.
Qed.

Lemma drun_rep t n p m q : drun t n p m q = drun t (rn n) (rp n p) (rm n p m) (rq n p m q).
Proof.
  induction t as [a|c t IHt e IHe]; simpl; auto.
  rewrite <- dceval_rep. destruct (dceval n p m q c); auto.
Qed.

Lemma rn_small n : In (rn n) small.
Proof. unfold rn, small. destruct (n =? 1); simpl; auto. Qed.
Lemma rp_small n p : In (rp n p) small.
Proof. unfold rp. destruct (p =? 1); [simpl; auto|]. destruct (p =? n); [apply rn_small|simpl; auto]. Qed.
Lemma rm_small n p m : In (rm n p m) small.
Proof.
  unfold rm. destruct (m =? 1); [simpl; auto|]. destruct (m =? n); [apply rn_small|].
  destruct (m =? p); [apply rp_small|simpl; auto 6].
Qed.
Lemma rq_small n p m q : In (rq n p m q) small.
Proof.
  unfold rq. destruct (q =? 1); [simpl; auto|]. destruct (q =? n); [apply rn_small|].
  destruct (q =? p); [apply rp_small|]. destruct (q =? m); [apply rm_small|simpl; auto 7].
Qed.

Lemma dact_eqb_eq a b : dact_eqb a b = true -> a = b.
Proof. destruct a, b; simpl; congruence. Qed.

Theorem tree_equiv_sound t u : tree_equiv t u = true -> forall n p m q, drun t n p m q = drun u n p m q.
Proof.
  unfold tree_equiv. intros H n p m q.
  rewrite (drun_rep t), (drun_rep u).
  rewrite forallb_forall in H. specialize (H _ (rn_small n)).
  rewrite forallb_forall in H. specialize (H _ (rp_small n p)).
  rewrite forallb_forall in H. specialize (H _ (rm_small n p m)).
  rewrite forallb_forall in H. specialize (H _ (rq_small n p m q)).
  now apply dact_eqb_eq.
Qed.

(* ====================================================================== names, rows and columns *)
Lemma index_of_nth x l : forall i, index_of x l = Some i -> nth_error l i = Some x.
Proof.
  induction l as [|y r IH]; simpl; intros i H; [discriminate|].
  destruct (Nat.eqb_spec x y).
  - inversion H; subst; reflexivity.
  - destruct (index_of x r) as [k|]; simpl in H; [|discriminate]. inversion H; subst. simpl. auto.
Qed.
Lemma index_of_first x l : forall i, index_of x l = Some i -> forall k, k < i -> nth_error l k <> Some x.
Proof.
  induction l as [|y r IH]; simpl; intros i H k Hk; [discriminate|].
  destruct (Nat.eqb_spec x y).
  - inversion H; subst; lia.
  - destruct (index_of x r) as [j|] eqn:E; simpl in H; [|discriminate]. inversion H; subst.
    destruct k; simpl; [congruence|]. apply (IH j eq_refl). lia.
Qed.
Lemma index_of_In x l : In x l -> exists i, index_of x l = Some i.
Proof.
  induction l as [|y r IH]; simpl; [tauto|]. intros H.
  destruct (Nat.eqb_spec x y); [eauto|]. destruct H as [H|H]; [congruence|].
  destruct (IH H) as [i Hi]. rewrite Hi. simpl. eauto.
Qed.
Lemma index_of_None x l : index_of x l = None -> ~ In x l.
Proof. intros H Hin. destruct (index_of_In x l Hin) as [i Hi]. congruence. Qed.
Lemma index_of_lt x l i : index_of x l = Some i -> i < length l.
Proof. intros H. apply index_of_nth in H. apply nth_error_Some. congruence. Qed.
Lemma index_of_inj l : NoDup l -> forall x y i, index_of x l = Some i -> index_of y l = Some i -> x = y.
Proof. intros _ x y i Hx Hy. apply index_of_nth in Hx. apply index_of_nth in Hy. congruence. Qed.

Lemma map_opt_spec {X Y} (f : X -> option Y) (dx : X) (dy : Y) : forall l r, map_opt f l = Some r ->
  length r = length l /\ forall j, j < length l -> f (nth j l dx) = Some (nth j r dy).
Proof.
  induction l as [|x l IH]; simpl; intros r H.
  - inversion H; subst. split; auto. intros; lia.
  - destruct (f x) as [y|] eqn:Ex; [|discriminate]. destruct (map_opt f l) as [s|]; [|discriminate].
    inversion H; subst. destruct (IH s eq_refl) as [Hl Hn]. split; simpl; [lia|].
    intros [|j] Hj; auto. apply Hn. lia.
Qed.
Lemma map_opt_all {X Y} (f : X -> option Y) : forall l, (forall x, In x l -> exists y, f x = Some y) ->
  exists r, map_opt f l = Some r.
Proof.
  induction l as [|x l IH]; simpl; intros H; [eauto|].
  destruct (H x (or_introl eq_refl)) as [y Hy]. rewrite Hy.
  destruct IH as [r Hr]; [auto|]. rewrite Hr. eauto.
Qed.
Lemma map_opt_none {X Y} (f : X -> option Y) : forall l, map_opt f l = None -> exists x, In x l /\ f x = None.
Proof.
  induction l as [|x l IH]; simpl; [discriminate|]. intros H.
  destruct (f x) as [y|] eqn:Ex; [|eauto].
  destruct (map_opt f l); [discriminate|]. destruct (IH eq_refl) as [z [Hz1 Hz2]]. eauto.
Qed.

(* get_state_index: position j of the result is the place of the j-th NAMED state in the declared list *)
Theorem state_index_spec decl names idx : state_index false decl names = Some idx ->
  length idx = length names /\
  forall j, j < length names -> nth_error decl (nth j idx 0) = Some (nth j names 0) /\
                               forall k, k < nth j idx 0 -> nth_error decl k <> Some (nth j names 0).
Proof.
  unfold state_index. destruct (map_opt _ names) as [r|] eqn:E; [|discriminate]. intros H; inversion H; subst.
  destruct (map_opt_spec _ 0 0 _ _ E) as [Hl Hn]. split; auto. intros j Hj. specialize (Hn j Hj). split.
  - now apply index_of_nth.
  - now apply index_of_first.
Qed.
Theorem state_index_total b decl names : (forall x, In x names -> In x decl) -> exists idx, state_index b decl names = Some idx.
Proof.
  intros H. unfold state_index. destruct (map_opt_all (fun x => index_of x decl) names) as [r Hr].
  - intros x Hx. apply index_of_In. auto.
  - rewrite Hr. eauto.
Qed.
Theorem state_index_unknown b decl names : state_index b decl names = None -> exists x, In x names /\ ~ In x decl.
Proof.
  unfold state_index. destruct (map_opt _ names) eqn:E; [discriminate|]. intros _.
  destruct (map_opt_none _ _ E) as [x [H1 H2]]. exists x. split; auto. now apply index_of_None.
Qed.

Lemma nth_map_lt {X Y} (f : X -> Y) (dx : X) (dy : Y) : forall l i, i < length l -> nth i (map f l) dy = f (nth i l dx).
Proof. induction l as [|x l IH]; simpl; intros i H; [lia|]. destruct i; auto. apply IH. lia. Qed.

Section Align.
  Variable A : Type.
  Variables (a0 : A) (add : A -> A -> A).
  Variable sol : list A -> list A -> A -> A -> nat -> A.
  Variable kernel : A -> A -> A -> A -> A.
  Notation get_solution := (get_solution A a0 sol).
  Notation sumn := (sumn A a0 add).

  Lemma rows_ok f pv x0 t0 ts : align_ok f = true ->
    (if drop_first f then tl (integrate A a0 sol (include_origin f) pv x0 t0
                                (match sol_time_arg f with TObserve => ts | TWithOrigin => t0 :: ts end))
     else integrate A a0 sol (include_origin f) pv x0 t0
            (match sol_time_arg f with TObserve => ts | TWithOrigin => t0 :: ts end))
    = map (fun t => sol pv x0 t0 t) ts.
  Proof.
    unfold align_ok, integrate. destruct f as [is cs ta io df kd]; simpl.
    destruct is, cs, ta, io, df; simpl; intros H; try discriminate; reflexivity.
  Qed.

  (* row i <-> t_i, column j <-> idx_j *)
  Theorem get_solution_spec f pv x0 t0 ts idx : align_ok f = true ->
    let S := get_solution f pv x0 t0 ts idx in
    nr S = length ts /\ nc S = length idx /\
    forall i j, i < length ts -> get S i j = sol pv x0 t0 (nth i ts a0) (nth j idx 0).
  Proof.
    intros H. unfold LossAlign.get_solution. rewrite (rows_ok f pv x0 t0 ts H).
    assert (Hc : cols_sorted f = false).
    { unfold align_ok in H. destruct (index_sorted f), (cols_sorted f); simpl in H; auto; discriminate. }
    rewrite Hc. simpl. rewrite map_length. repeat split; auto.
    intros i j Hi. now rewrite (nth_map_lt _ a0).
  Qed.

  Theorem cost_align f pv x0 t0 ts idx y s w : align_ok f = true ->
    cost_of A a0 add kernel (length ts) (length idx) y s w (get_solution f pv x0 t0 ts idx) =
    sumn (length ts) (fun i => sumn (length idx) (fun j =>
      kernel (at2 A (length idx) y i j) (sol pv x0 t0 (nth i ts a0) (nth j idx 0))
             (at2 A (length idx) s i j) (at2 A (length idx) w i j))).
  Proof.
    intros H. unfold cost_of. apply sumn_ext. intros i Hi. apply sumn_ext. intros j Hj.
    destruct (get_solution_spec f pv x0 t0 ts idx H) as [_ [_ Hg]]. now rewrite Hg.
  Qed.
End Align.

(* ====================================================================== weights / spread *)
Section B.
  Variable A : Type.
  Variable rs : bool.     (* does _setWeight_or_spread end with np.reshape(x, (n, p))? the statements hold either way *)
  Notation loss_array := (loss_array A rs).
  Notation set_wos := (set_wos_raw A).
  Notation bcast_ones := (bcast_ones A).
  Notation at2 := (at2 A).
  Notation nda := (nda A).

  Definition check (y w : nda) : res nda :=
    let w' := squeeze1 A w in if shape_eqb (sh w') (sh y) then Ok w' else Err EAssert.
  Lemma loss_array_eq t n p y x : loss_array t n p y x =
    bind (bind (set_wos t n p x) (fun w => if rs then reshape_np A n p w else Ok w)) (check y).
  Proof. reflexivity. Qed.

  Lemma shape_eqb_refl s : shape_eqb s s = true.
  Proof. destruct s; simpl; auto; rewrite ?Nat.eqb_refl; auto. Qed.

  Lemma check_sh2 n p y w : 1 <= n -> (2 <= n \/ p = 1) -> sh y = yshape n p -> sh w = Sh2 n p ->
    exists w', check y w = Ok w' /\ sh w' = sh y /\ fl w' = fl w.
  Proof.
    intros Hn Hnp Hy Hw. unfold check, squeeze1. rewrite Hw, Hy. unfold yshape.
    destruct (Nat.eqb_spec p 1) as [->|Hp1].
    - rewrite orb_true_r. simpl. rewrite Nat.mul_1_r, Nat.eqb_refl. eexists; repeat split.
    - destruct (Nat.eqb_spec n 1); [lia|]. simpl. rewrite Hw. simpl. rewrite !Nat.eqb_refl. simpl.
      eexists; repeat split. auto.
  Qed.
  Lemma check_sh1 n y w : sh y = yshape n 1 -> sh w = Sh1 n -> check y w = Ok w.
  Proof. intros Hy Hw. unfold check, squeeze1. rewrite Hw, Hy. simpl. rewrite Hw. simpl. now rewrite Nat.eqb_refl. Qed.

  (* np.ones((n, p)) * x for the legitimate operand shapes *)
  Lemma bcast_row n p (x : nda) : 1 <= n -> 1 <= p -> (sh x = Sh1 p \/ sh x = Sh2 1 p) ->
    exists w, bcast_ones n p x = Ok w /\ sh w = Sh2 n p /\ forall i j, j < p -> fl w (i * p + j) = fl x j.
  Proof.
    intros Hn Hp Hx. unfold LossAlign.bcast_ones.
    assert (E : (((1 =? n) || (1 =? 1) || (n =? 1)) && ((p =? p) || (p =? 1) || (p =? 1))) = true).
    { rewrite !Nat.eqb_refl, orb_true_r. reflexivity. }
    destruct Hx as [Hx|Hx]; rewrite Hx; cbv beta iota zeta; rewrite E; eexists; (split; [reflexivity|]); simpl.
    all: split; [f_equal; eqbs; lia|].
    all: intros i j Hj; f_equal; destruct (Nat.eqb_spec p 1); [lia|]; rewrite (mod_lin p j i Hj); lia.
  Qed.
  Lemma bcast_one n p (x : nda) : 1 <= n -> 1 <= p -> (sh x = Sh1 1 \/ sh x = Sh2 1 1) ->
    exists w, bcast_ones n p x = Ok w /\ sh w = Sh2 n p /\ forall k, fl w k = fl x 0.
  Proof.
    intros Hn Hp Hx. unfold LossAlign.bcast_ones.
    assert (E : (((1 =? n) || (1 =? 1) || (n =? 1)) && ((1 =? p) || (1 =? 1) || (p =? 1))) = true).
    { rewrite !Nat.eqb_refl, !orb_true_r. reflexivity. }
    destruct Hx as [Hx|Hx]; rewrite Hx; cbv beta iota zeta; rewrite E; eexists; (split; [reflexivity|]); simpl.
    all: split; [f_equal; eqbs; lia|auto].
  Qed.

  Variable t : dtree.
  Hypothesis Ht : forall n p m q, drun t n p m q = drun good_tree n p m q.

  Lemma drun_good n p m q : drun good_tree n p m q =
    if p =? q then (if n =? m then Keep else if m =? 1 then Bcast else Raise)
    else if p =? m then (if q =? 1 then BcastRavel else Raise)
    else if (q =? 1) && (m =? 1) then Bcast else Raise.
  Proof. reflexivity. Qed.

  Definition spec_ok n p (y x : nda) (f : nat -> nat -> nat) :=
    exists w, loss_array t n p y x = Ok w /\ sh w = sh y /\ forall i j, i < n -> j < p -> at2 p w i j = fl x (f i j).

  Section Cases.
    Variables (n p : nat) (y x : nda).
    Hypotheses (Hn : 1 <= n) (Hp : 1 <= p) (Hnp : 2 <= n \/ p = 1) (Hy : sh y = yshape n p).

    (* whatever the branch produced, the loss object ends up with an array of y's shape holding the same entries *)
    Lemma after_raw w : set_wos t n p x = Ok w -> (sh w = Sh2 n p \/ (p = 1 /\ sh w = Sh1 n)) ->
      exists w', loss_array t n p y x = Ok w' /\ sh w' = sh y /\ fl w' = fl w.
    Proof.
      intros E Hs. rewrite loss_array_eq, E. cbn [bind]. destruct rs.
      - assert (Hz : nd_size A w = n * p).
        { unfold nd_size. destruct Hs as [Hs|[Hp1 Hs]]; rewrite Hs; [reflexivity|subst p; lia]. }
        unfold reshape_np. rewrite Hz, Nat.eqb_refl. cbn [bind].
        destruct (check_sh2 n p y {| sh := Sh2 n p; fl := fl w |} Hn Hnp Hy eq_refl) as [w' [E' [Hs' Hf']]].
        exists w'. auto.
      - cbn [bind]. destruct Hs as [Hs|[Hp1 Hs]].
        + destruct (check_sh2 n p y w Hn Hnp Hy Hs) as [w' [E' [Hs' Hf']]]. exists w'. auto.
        + subst p. rewrite (check_sh1 n y w Hy Hs). exists w. repeat split; auto. rewrite Hs, Hy. reflexivity.
    Qed.

    Lemma via_one : (sh x = Sh1 1 \/ sh x = Sh2 1 1) -> set_wos t n p x = bcast_ones n p x -> spec_ok n p y x (fun _ _ => 0).
    Proof.
      intros Hx E. destruct (bcast_one n p x Hn Hp Hx) as [w [Ew [Hs Hf]]]. rewrite Ew in E.
      destruct (after_raw w E (or_introl Hs)) as [w' [E' [Hs' Hf']]].
      exists w'. repeat split; auto. intros i j _ _. unfold LossAlign.at2. now rewrite Hf', Hf.
    Qed.
    Lemma via_row x' : (sh x' = Sh1 p \/ sh x' = Sh2 1 p) -> fl x' = fl x -> set_wos t n p x = bcast_ones n p x' ->
      spec_ok n p y x (fun _ j => j).
    Proof.
      intros Hx Hfl E. destruct (bcast_row n p x' Hn Hp Hx) as [w [Ew [Hs Hf]]]. rewrite Ew in E.
      destruct (after_raw w E (or_introl Hs)) as [w' [E' [Hs' Hf']]].
      exists w'. repeat split; auto. intros i j _ Hj. unfold LossAlign.at2. now rewrite Hf', Hf, Hfl.
    Qed.
    Lemma via_keep2 f : sh x = Sh2 n p -> set_wos t n p x = Ok x -> (forall i j, i < n -> j < p -> i * p + j = f i j) ->
      spec_ok n p y x f.
    Proof.
      intros Hx E Hf. destruct (after_raw x E (or_introl Hx)) as [w' [E' [Hs' Hf']]].
      exists w'. repeat split; auto. intros i j Hi Hj. unfold LossAlign.at2. now rewrite Hf', Hf.
    Qed.
    Lemma via_keep1 f : p = 1 -> sh x = Sh1 n -> set_wos t n p x = Ok x -> (forall i j, i < n -> j < p -> i * p + j = f i j) ->
      spec_ok n p y x f.
    Proof.
      intros Hp1 Hx E Hf. destruct (after_raw x E (or_intror (conj Hp1 Hx))) as [w' [E' [Hs' Hf']]].
      exists w'. repeat split; auto. intros i j Hi Hj. unfold LossAlign.at2. now rewrite Hf', Hf.
    Qed.
    Lemma via_err e : set_wos t n p x = Err e -> exists e', loss_array t n p y x = Err e'.
    Proof. intros E. rewrite loss_array_eq, E. simpl. eauto. Qed.
  End Cases.

  Lemma self_mul_eqb r c : (r =? r * c) = ((r =? 0) || (c =? 1)).
  Proof. destruct (Nat.eqb_spec r (r * c)), (Nat.eqb_spec r 0), (Nat.eqb_spec c 1); simpl; auto; exfalso; nia. Qed.

  Theorem broadcast_spec n p y x : 1 <= n -> 1 <= p -> (2 <= n \/ p = 1) -> sh y = yshape n p ->
    match wclass_of n p (sh x) with
    | WScalar => spec_ok n p y x (fun _ _ => 0)
    | WPerState => spec_ok n p y x (fun _ j => j)
    | WPerObs => spec_ok n p y x (fun i j => i * p + j)
    | WBad => exists e, loss_array t n p y x = Err e
    end.
  Proof.
    intros Hn Hp Hnp Hy. destruct (sh x) as [|k|r c|] eqn:Hx.
    - simpl. rewrite loss_array_eq. unfold LossAlign.set_wos_raw, mq. rewrite Hx. simpl. eauto.
    - assert (E : set_wos t n p x = match drun good_tree n p k 1 with
                  | Keep => Ok x | Bcast => bcast_ones n p x | BcastRavel => bcast_ones n p (nd_ravel A x) | Raise => Err EAssert end).
      { unfold LossAlign.set_wos_raw, mq. rewrite Hx, Ht. reflexivity. }
      rewrite drun_good in E. unfold wclass_of.
      destruct (Nat.eqb_spec k 1), (Nat.eqb_spec p 1), (Nat.eqb_spec n k), (Nat.eqb_spec p k), (Nat.eqb_spec k n),
        (Nat.eqb_spec k p); simpl in E; try (exfalso; lia); subst.
      all: try (eapply via_err; eassumption).
      all: try (apply via_one; auto; fail).
      all: try (apply via_keep1; auto; intros; lia).
      all: try (apply (via_row _ _ _ _ Hn Hp Hnp Hy (nd_ravel A x)); auto; left; unfold nd_ravel, nd_size; simpl; now rewrite Hx).
    - assert (E : set_wos t n p x = match (if (r =? 0) || (c =? 1) then drun good_tree n p r 1 else drun good_tree n p r c) with
                  | Keep => Ok x | Bcast => bcast_ones n p x | BcastRavel => bcast_ones n p (nd_ravel A x) | Raise => Err EAssert end).
      { unfold LossAlign.set_wos_raw, mq. rewrite Hx, self_mul_eqb. destruct ((r =? 0) || (c =? 1)); rewrite Ht; reflexivity. }
      rewrite !drun_good in E. unfold wclass_of.
      destruct (Nat.eqb_spec r 0), (Nat.eqb_spec c 1), (Nat.eqb_spec r 1), (Nat.eqb_spec p 1), (Nat.eqb_spec r n),
        (Nat.eqb_spec c p), (Nat.eqb_spec r p), (Nat.eqb_spec n r), (Nat.eqb_spec p r), (Nat.eqb_spec p c);
        simpl in E; simpl; try (exfalso; lia); subst.
      all: try (eapply via_err; eassumption).
      all: try (apply via_one; auto; fail).
      all: try (apply via_keep2; auto; intros; lia).
      all: try (apply (via_row _ _ _ _ Hn Hp Hnp Hy x); auto; fail).
      all: try (apply (via_row _ _ _ _ Hn Hp Hnp Hy (nd_ravel A x)); auto; left; unfold nd_ravel, nd_size; simpl; rewrite Hx; f_equal; lia).
    - simpl. rewrite loss_array_eq. unfold LossAlign.set_wos_raw, mq. rewrite Hx. simpl. eauto.
  Qed.
End B.

(* ====================================================================== theta -> parameters *)
Lemma update_nth_length {X} (v : X) : forall l i, length (update_nth i v l) = length l.
Proof.
  unfold update_nth. intros l i. rewrite app_length.
  destruct (skipn i l) as [|y r] eqn:E.
  - simpl. rewrite Nat.add_0_r. rewrite firstn_length. assert (H := skipn_length i l). rewrite E in H. simpl in H. lia.
  - simpl. rewrite firstn_length. assert (H := skipn_length i l). rewrite E in H. simpl in H. lia.
Qed.
Lemma update_nth_same {X} (v : X) : forall l i, i < length l -> nth_error (update_nth i v l) i = Some v.
Proof.
  induction l as [|x l IH]; simpl; intros i H; [lia|]. destruct i; [reflexivity|].
  unfold update_nth. simpl. apply IH. lia.
Qed.
Lemma update_nth_other {X} (v : X) : forall l i j, i <> j -> nth_error (update_nth i v l) j = nth_error l j.
Proof.
  induction l as [|x l IH]; intros i j H.
  - unfold update_nth. destruct i; reflexivity.
  - destruct i, j; try lia; try reflexivity. unfold update_nth. simpl. apply IH. lia.
Qed.

Section Param.
  Variable A : Type.
  Variable a0 : A.
  Notation dict_set := (dict_set A).
  Notation apply_dict := (apply_dict A).

  Notation lookup := (lookup A).
  Notation pval := (pval A).

  Lemma dict_set_lookup d k v k' : lookup (dict_set d k v) k' = if k' =? k then Some v else lookup d k'.
  Proof.
    induction d as [|[k0 v0] r IH]; simpl.
    - reflexivity.
    - destruct (Nat.eqb_spec k k0); simpl.
      + subst. destruct (Nat.eqb_spec k' k0); auto.
      + rewrite IH. destruct (Nat.eqb_spec k' k0), (Nat.eqb_spec k' k); auto; lia.
  Qed.
  Lemma dict_set_keys d k v : forall x, In x (map fst (dict_set d k v)) -> x = k \/ In x (map fst d).
  Proof.
    induction d as [|[k0 v0] r IH]; simpl; intros x H.
    - destruct H as [H|[]]. left. congruence.
    - destruct (Nat.eqb_spec k k0); simpl in H.
      + destruct H as [H|H]; [left; congruence|right; right; auto].
      + destruct H as [H|H]; [right; left; auto|]. destruct (IH x H); auto.
  Qed.
  Lemma dict_set_nodup d k v : NoDup (map fst d) -> NoDup (map fst (dict_set d k v)).
  Proof.
    induction d as [|[k0 v0] r IH]; simpl; intros H.
    - constructor; [intros []|constructor].
    - inversion H; subst. destruct (Nat.eqb_spec k k0); simpl.
      + subst. constructor; auto.
      + constructor; auto. intros Hin. destruct (dict_set_keys r k v k0 Hin); auto.
  Qed.

  (* `parameters = dict`: every named parameter takes the dictionary's value, every other keeps its own *)
  Lemma apply_dict_lookup declp : NoDup declp -> forall d pv, NoDup (map fst d) -> (forall k, In k (map fst d) -> In k declp) ->
    length pv = length declp ->
    exists pv', apply_dict declp pv d = Ok pv' /\ length pv' = length pv /\
      forall name, In name declp -> pval declp pv' name = match lookup d name with Some v => Some v | None => pval declp pv name end.
  Proof.
    intros Hnd. induction d as [|[k v] r IH]; simpl; intros pv Hd Hk Hl.
    - exists pv. repeat split; auto.
    - inversion Hd; subst. destruct (index_of_In k declp (Hk k (or_introl eq_refl))) as [i Hi]. rewrite Hi.
      destruct (IH (update_nth i v pv) H2) as [pv' [E [Hl' Hv]]]; auto.
      { rewrite update_nth_length; auto. }
      exists pv'. split; auto. split. { rewrite Hl', update_nth_length; auto. }
      intros name Hin. rewrite (Hv name Hin).
      destruct (Nat.eqb_spec name k).
      + subst. destruct (lookup r k) eqn:El.
        * exfalso. apply H1. clear - El. induction r as [|[k0 v0] r IH]; simpl in *; [discriminate|].
          destruct (Nat.eqb_spec k k0); auto.
        * unfold pval. rewrite Hi. apply update_nth_same. rewrite Hl. now apply index_of_lt with (x := k).
      + destruct (lookup r name); auto. unfold pval.
        destruct (index_of name declp) as [j|] eqn:Ej; auto. apply update_nth_other.
        intros ->. apply n. apply (index_of_inj declp Hnd name k j); auto.
  Qed.
  Lemma apply_dict_unknown declp : forall d pv k, In k (map fst d) -> ~ In k declp -> exists e, apply_dict declp pv d = Err e.
  Proof.
    induction d as [|[k0 v0] r IH]; simpl; intros pv k H Hn; [tauto|].
    destruct (index_of k0 declp) as [i|] eqn:Ei; [|eauto].
    destruct H as [H|H].
    - subst. exfalso. apply Hn. apply index_of_nth in Ei. eapply nth_error_In; eauto.
    - eapply IH; eauto.
  Qed.

  Notation setall := (fold_left (fun d kv => dict_set d (fst kv) (snd kv))).

  Lemma lookup_none_notin d k : lookup d k = None -> ~ In k (map fst d).
  Proof.
    induction d as [|[k0 v0] r IH]; simpl; auto. destruct (Nat.eqb_spec k k0); [discriminate|].
    intros H [H1|H1]; [congruence|]. now apply IH.
  Qed.
  Lemma notin_lookup_none d k : ~ In k (map fst d) -> lookup d k = None.
  Proof.
    induction d as [|[k0 v0] r IH]; simpl; auto. intros H. destruct (Nat.eqb_spec k k0); [subst; tauto|]. apply IH. tauto.
  Qed.

  Lemma setall_lookup : forall kvs d0, NoDup (map fst kvs) -> forall k,
    lookup (setall kvs d0) k = match lookup kvs k with Some v => Some v | None => lookup d0 k end.
  Proof.
    induction kvs as [|[k1 v1] r IH]; simpl; intros d0 Hnd k; auto.
    inversion Hnd; subst. rewrite IH; auto. rewrite dict_set_lookup.
    destruct (Nat.eqb_spec k k1); auto. subst. now rewrite (notin_lookup_none r k1).
  Qed.
  Lemma setall_nodup : forall kvs d0, NoDup (map fst d0) -> NoDup (map fst (setall kvs d0)).
  Proof. induction kvs as [|[k1 v1] r IH]; simpl; intros d0 H; auto. apply IH. now apply dict_set_nodup. Qed.
  Lemma setall_keys : forall kvs d0 x, In x (map fst (setall kvs d0)) -> In x (map fst kvs) \/ In x (map fst d0).
  Proof.
    induction kvs as [|[k1 v1] r IH]; simpl; intros d0 x H; auto.
    destruct (IH _ _ H) as [H1|H1]; auto. destruct (dict_set_keys _ _ _ _ H1); auto.
  Qed.

  Lemma combine_keys : forall (l : list nat) (theta : list A), length l <= length theta -> map fst (combine l theta) = l.
  Proof. induction l as [|k l IH]; simpl; intros [|v theta] H; simpl in *; auto; try lia. f_equal. apply IH. lia. Qed.
  Lemma lookup_combine : forall (l : list nat) (theta : list A), NoDup l -> length l <= length theta ->
    forall k, k < length l -> lookup (combine l theta) (nth k l 0) = Some (nth k theta a0).
  Proof.
    induction l as [|x l IH]; simpl; intros [|v theta] Hnd Hl k Hk; simpl in *; try lia.
    inversion Hnd; subst. destruct k.
    - now rewrite Nat.eqb_refl.
    - destruct (Nat.eqb_spec (nth k l 0) x).
      + exfalso. apply H1. rewrite <- e. apply nth_In. lia.
      + apply IH; auto; lia.
  Qed.
  Lemma lookup_combine_notin : forall (l : list nat) (theta : list A) name, ~ In name l -> lookup (combine l theta) name = None.
  Proof.
    induction l as [|x l IH]; simpl; intros [|v theta] name H; simpl; auto.
    destruct (Nat.eqb_spec name x); [subst; tauto|]. apply IH. tauto.
  Qed.

  (* ------------------------------------------------------------ cost(theta): theta -> parameters *)
  Lemma set_param_some l theta : l <> [] -> length theta = length l ->
    set_param A (Some l) theta = Ok (ThDict (dict_of A (combine l theta))).
  Proof.
    intros Hl Hlen. unfold set_param. destruct (Nat.ltb_spec 1 (length l)).
    - now rewrite Hlen, Nat.eqb_refl.
    - destruct l as [|k [|k' l]]; simpl in *; try tauto; try lia.
      destruct theta as [|v [|v' theta]]; simpl in *; try lia. reflexivity.
  Qed.

  Theorem set_param_bind declp pv l theta : NoDup declp -> length pv = length declp -> l <> [] -> NoDup l ->
    (forall k, In k l -> In k declp) -> length theta = length l ->
    exists d pv', set_param A (Some l) theta = Ok (ThDict d) /\ apply_theta A declp pv (ThDict d) = Ok pv' /\
      length pv' = length pv /\
      (forall k, k < length l -> pval declp pv' (nth k l 0) = Some (nth k theta a0)) /\
      (forall name, In name declp -> ~ In name l -> pval declp pv' name = pval declp pv name).
  Proof.
    intros Hnd Hpv Hl Hndl Hin Hlen. rewrite (set_param_some l theta Hl Hlen).
    set (d := dict_of A (combine l theta)).
    assert (Hk : map fst (combine l theta) = l) by (apply combine_keys; lia).
    assert (Hd1 : NoDup (map fst d)) by (apply setall_nodup; constructor).
    assert (Hd2 : forall k, In k (map fst d) -> In k declp).
    { intros k H. destruct (setall_keys _ _ _ H) as [H1|[]]. rewrite Hk in H1. auto. }
    destruct (apply_dict_lookup declp Hnd d pv Hd1 Hd2 Hpv) as [pv' [E [Hl' Hv]]].
    exists d, pv'. repeat split; auto.
    - intros k Hk'. rewrite Hv by (apply Hin, nth_In; auto). unfold d, dict_of.
      rewrite setall_lookup by (rewrite Hk; auto). rewrite lookup_combine by (auto; lia). reflexivity.
    - intros name Hn Hnot. rewrite (Hv name Hn). unfold d, dict_of.
      rewrite setall_lookup by (rewrite Hk; auto). rewrite lookup_combine_notin by auto. reflexivity.
  Qed.

  Lemma index_of_nth_nodup : forall l, NoDup l -> forall k, k < length l -> index_of (nth k l 0) l = Some k.
  Proof.
    induction l as [|x l IH]; simpl; intros Hnd k Hk; [lia|]. inversion Hnd; subst. destruct k.
    - now rewrite Nat.eqb_refl.
    - destruct (Nat.eqb_spec (nth k l 0) x).
      + exfalso. apply H1. rewrite <- e. apply nth_In. lia.
      + rewrite IH by (auto; lia). reflexivity.
  Qed.
  (* all parameters: theta is taken in declaration order *)
  Theorem set_param_all declp pv theta : NoDup declp -> length theta = length declp ->
    exists pv', set_param A None theta = Ok (ThArr theta) /\ apply_theta A declp pv (ThArr theta) = Ok pv' /\
      forall k, k < length declp -> pval declp pv' (nth k declp 0) = Some (nth k theta a0).
  Proof.
    intros Hnd Hl. exists theta. simpl. rewrite Hl, Nat.eqb_refl. repeat split; auto.
    intros k Hk. unfold pval. rewrite index_of_nth_nodup by auto. apply nth_error_nth'. lia.
  Qed.
  (* wrong lengths and unknown names are errors *)
  Theorem set_param_rejects declp pv l theta :
    (l <> [] -> length theta <> length l -> exists e, set_param A (Some l) theta = Err e) /\
    (length theta <> length declp -> exists e, apply_theta A declp pv (ThArr theta) = Err e) /\
    (forall d k, In k (map fst d) -> ~ In k declp -> exists e, apply_theta A declp pv (ThDict d) = Err e).
  Proof.
    split; [|split].
    - intros Hl Hn. unfold set_param. destruct (Nat.ltb_spec 1 (length l)).
      + destruct (Nat.eqb_spec (length theta) (length l)); [lia|eauto].
      + destruct l as [|k [|k' l]]; simpl in *; try tauto; try lia.
        destruct theta as [|v [|v' theta]]; simpl in *; try lia; eauto.
    - intros Hn. simpl. destruct (Nat.eqb_spec (length theta) (length declp)); [lia|eauto].
    - intros d k H1 H2. simpl. eapply apply_dict_unknown; eauto.
  Qed.
End Param.
