(* Replay of a recorded pygom path through the jump-loop model with the regenerated kernel facts. *)
From Coq Require Import List Arith Bool ZArith QArith Qabs Qcanon.
From PV Require Import Util Stoch Gen.StochGen.
Import ListNotations.

Definition qv (l : list Q) : vec := map Q2Qc l.
Definition ql (l : list (option Q * option Q)) : list lim :=
  map (fun p => (option_map Q2Qc (fst p), option_map Q2Qc (snd p))) l.
Inductive lstep := LExact (rates clocks : list Q) | LTau (rates pure : list Q) (tau : Q) (counts : list Z) (fb : list Q).
Definition mkstep (s : lstep) : sstep :=
  match s with
  | LExact r c => SExact (qv r) (qv c)
  | LTau r p tau n fb => STau (qv r) (qv p) (Q2Qc tau) n (qv fb)
  end.
Definition grun := run gen_failed_one reject_keeps accept_adds_dt update_plus clock_guard_positive argmin_first.

Definition tclose (a : Qc) (b : Q) : bool := Qle_bool (Qabs (this a - b)) ((1 # 1000000000) * (1 + Qabs b)).
Definition rec_eqb (r : rec) (e : list Q * list Z * Q) : bool :=
  let '(x, n, t) := r in let '(ex, en, et) := e in
  (* states: exact for integer-valued paths (differences are >= 1); with explicit ODE drift pygom's floats carry rounding *)
  list_eqb2 tclose x ex && list_eqb Z.eqb n en && tclose t et.

(* case: V columns, limits, horizon, x0, t0, schedule, recorded path (first row = start) *)
Definition pcase := (list (list Q) * list (option Q * option Q) * Q * list Q * Q * list lstep * list (list Q * list Z * Q))%type.
Definition chk (c : pcase) : bool :=
  let '(v, ls, T, x0, t0, s, exp) := c in
  let cf := {| V := map qv v; lims := ql ls |} in
  let '(p, st) := grun cf (Q2Qc T) (qv x0) (Q2Qc t0) (map mkstep s) in
  list_eqb2 rec_eqb p exp.
(* for diagnosis *)
Definition path_of (c : pcase) :=
  let '(v, ls, T, x0, t0, s, exp) := c in
  let cf := {| V := map qv v; lims := ql ls |} in
  let '(p, st) := grun cf (Q2Qc T) (qv x0) (Q2Qc t0) (map mkstep s) in
  (map (fun r : rec => let '(x, n, t) := r in (map this x, n, this t)) p, st).
