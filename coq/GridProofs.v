(* C15 — proofs about the model in Grid.v (all paths, all grids, all matrices V). *)
From Coq Require Import List Arith ZArith Bool QArith Qcanon Lia.
From PV Require Import Util Grid.
Import ListNotations.
Local Open Scope nat_scope.

(* ------------------------------------------------------------------ boolean comparisons *)
Lemma Qcltb_true a b : Qcltb a b = true <-> (a < b)%Qc.
Proof. unfold Qcltb. rewrite Qclt_alt. destruct (a ?= b)%Qc; split; congruence. Qed.
Lemma Qcleb_true a b : Qcleb a b = true <-> (a <= b)%Qc.
Proof. unfold Qcleb. rewrite Qcle_alt. destruct (a ?= b)%Qc; split; congruence. Qed.
Lemma Qceqb_true a b : Qceqb a b = true <-> a = b.
Proof. unfold Qceqb. rewrite Qceq_alt. destruct (a ?= b)%Qc; split; congruence. Qed.
Lemma Qcleb_false a b : Qcleb a b = false <-> (b < a)%Qc.
Proof. split; intro H.
  - apply Qcnot_le_lt. intro L. apply Qcleb_true in L. congruence.
  - destruct (Qcleb a b) eqn:E; auto. apply Qcleb_true in E. exfalso. exact (Qclt_not_le _ _ H E). Qed.
Lemma Qcltb_false a b : Qcltb a b = false <-> (b <= a)%Qc.
Proof. split; intro H.
  - apply Qcnot_lt_le. intro L. apply Qcltb_true in L. congruence.
  - destruct (Qcltb a b) eqn:E; auto. apply Qcltb_true in E. exfalso. exact (Qclt_not_le _ _ E H). Qed.
Lemma Qcleb_ne a b : a <> b -> Qcleb a b = Qcltb a b.
Proof. intro N. unfold Qcleb, Qcltb. destruct (a ?= b)%Qc eqn:E; auto. apply Qceq_alt in E. contradiction. Qed.
Lemma Qceqb_false_le_lt a b : Qceqb a b = false -> Qcltb a b = Qcleb a b.
Proof. intro E. symmetry. apply Qcleb_ne. intro H. apply Qceqb_true in H. congruence. Qed.

(* ------------------------------------------------------------------ sorted time arrays *)
Fixpoint inc_t (lo : Qc) (ts : list Qc) : Prop :=
  match ts with [] => True | a :: r => (lo < a)%Qc /\ inc_t a r end.
Definition sortedT (ts : list Qc) : Prop := match ts with [] => True | a :: r => inc_t a r end.
Lemma inc_t_sorted lo ts : inc_t lo ts -> sortedT ts.
Proof. destruct ts; simpl; tauto. Qed.
Lemma inc_from_Ts t p : inc_from t p -> inc_t t (Ts p).
Proof. revert t. induction p as [|e r IH]; simpl; auto. intros t [H1 H2]. split; auto. Qed.
Lemma wf_sorted p : wf p -> sortedT (Ts p).
Proof. destruct p as [|e0 r]; simpl; [tauto|]. apply inc_from_Ts. Qed.

Lemma inc_t_any_lt lo ts v : inc_t lo ts -> any_eq ts v = true -> (lo < v)%Qc.
Proof. revert lo. induction ts as [|a r IH]; simpl; [discriminate|]. intros lo [H1 H2] H.
  apply orb_prop in H as [H|H].
  - apply Qceqb_true in H. subst. exact H1.
  - eapply Qclt_trans; [exact H1|]. apply IH; auto. Qed.
Lemma inc_t_above lo ts v : inc_t lo ts -> (v <= lo)%Qc ->
  searchsorted SRight ts v = 0 /\ searchsorted SLeft ts v = 0 /\ any_eq ts v = false.
Proof. intros H L. destruct ts as [|a r]; simpl; auto. destruct H as [H1 H2].
  assert (Hva : (v < a)%Qc) by (eapply Qcle_lt_trans; eauto).
  rewrite (proj2 (Qcleb_false a v) Hva).
  rewrite (proj2 (Qcltb_false a v) (Qclt_le_weak _ _ Hva)). repeat split; auto.
  destruct (any_eq (a :: r) v) eqn:E; auto. exfalso.
  apply (inc_t_any_lt lo) in E; [|simpl; auto]. exact (Qclt_not_le _ _ E L). Qed.

(* miss: both sides of searchsorted agree *)
Lemma miss_facts ts v : any_eq ts v = false -> searchsorted SLeft ts v = searchsorted SRight ts v.
Proof. induction ts as [|a r IH]; simpl; auto. intro H. apply orb_false_elim in H as [H1 H2].
  rewrite (Qceqb_false_le_lt _ _ H1). destruct (Qcleb a v); auto. Qed.
(* hit on a strictly increasing array: the first equal index is the left insertion point, right = left + 1 *)
Lemma hit_facts ts v : sortedT ts -> any_eq ts v = true ->
  first_eq ts v = searchsorted SLeft ts v /\ searchsorted SRight ts v = S (searchsorted SLeft ts v).
Proof. induction ts as [|a r IH]; [discriminate|]. intros Hs H. simpl in Hs.
  simpl. destruct (Qceqb a v) eqn:E.
  - apply Qceqb_true in E. subst a.
    rewrite (proj2 (Qcltb_false v v) (Qcle_refl v)). rewrite (proj2 (Qcleb_true v v) (Qcle_refl v)).
    destruct (inc_t_above v r v Hs (Qcle_refl v)) as [A _]. rewrite A. auto.
  - simpl in H. rewrite E in H. simpl in H. assert (Hl : (a < v)%Qc) by (apply (inc_t_any_lt a r v Hs H)).
    rewrite (proj2 (Qcltb_true a v) Hl). rewrite (proj2 (Qcleb_true a v) (Qclt_le_weak _ _ Hl)).
    destruct (IH (inc_t_sorted _ _ Hs) H) as [A B]. rewrite A, B. auto. Qed.

(* the fixed script that discharges the per-run obligation "translated index = last element <= v, clamped":
   survives harmless rewrites (side of searchsorted in the miss branch, argument order of max, dropping the
   exact-hit shortcut in favour of side='right'), fails on a changed offset/clamp/side. *)
Ltac extract_tac f :=
  let ts := fresh "ts" in let v := fresh "v" in let Hs := fresh "Hs" in let E := fresh "E" in
  intros ts v Hs; unfold f, last_le_index;
  destruct (any_eq ts v) eqn:E;
  [ destruct (hit_facts ts v Hs E) as [? ?] | pose proof (miss_facts ts v E) ];
  lia.

(* ------------------------------------------------------------------ rows *)
Lemma nth_map_in {A B} (f : A -> B) l k d d' : k < length l -> nth k (map f l) d' = f (nth k l d).
Proof. revert k. induction l as [|a l IH]; simpl; [lia|]. intros k H. destruct k; auto. apply IH. lia. Qed.
Lemma nth_map_seq {A} (f : nat -> A) m k d : k < m -> nth k (map f (seq 0 m)) d = f k.
Proof. intro H. rewrite (nth_map_in f _ k 0) by (now rewrite seq_length). now rewrite seq_nth. Qed.
Lemma py_nth_nat {A} (X : list (list A)) n : py_nth X (Z.of_nat n) = nth n X [].
Proof. unfold py_nth. destruct (Z.of_nat n <? 0)%Z eqn:E; [apply Z.ltb_lt in E; lia|]. now rewrite Nat2Z.id. Qed.

Lemma rows_length idx X T grid : length (gridded_states idx X T grid) = length grid.
Proof. apply map_length. Qed.
Lemma counts_length c nt J T grid : length (jumps_between c nt J T grid) = length grid - 1.
Proof. unfold jumps_between. now rewrite map_length, seq_length. Qed.
Lemma counts_width c nt J T grid k : k < length grid - 1 ->
  length (nth k (jumps_between c nt J T grid) []) = nt.
Proof. intro H. unfold jumps_between. rewrite nth_map_seq by exact H. now rewrite map_length, seq_length. Qed.

Definition step_at (v : Qc) := fun (cur : list Z) (e : event) => if Qcleb (etime e) v then estate e else cur.
Lemma fold_above t r v x : inc_from t r -> (v <= t)%Qc -> fold_left (step_at v) r x = x.
Proof. revert t x. induction r as [|e r IH]; simpl; auto. intros t x [H1 H2] L.
  assert (Hv : (v < etime e)%Qc) by (eapply Qcle_lt_trans; eauto).
  unfold step_at at 2. rewrite (proj2 (Qcleb_false _ _) Hv). apply (IH (etime e)); auto. now apply Qclt_le_weak. Qed.

Lemma state_index t0 r v x0 : inc_from t0 r ->
  nth (searchsorted SRight (map etime r) v) (x0 :: map estate r) [] = fold_left (step_at v) r x0.
Proof. revert t0 x0. induction r as [|e r IH]; simpl; auto. intros t0 x0 [H1 H2].
  unfold step_at at 2. destruct (Qcleb (etime e) v) eqn:E.
  - apply (IH (etime e)); auto.
  - symmetry. apply (fold_above (etime e)); auto. apply Qclt_le_weak. now apply Qcleb_false. Qed.

Lemma last_le_state p v : wf p -> nth (last_le_index (Ts p) v) (Xs p) [] = state_at p v.
Proof. destruct p as [|e0 r]; [simpl; tauto|]. intro H. unfold wf in H. unfold last_le_index, state_at.
  change (Ts (e0 :: r)) with (etime e0 :: map etime r). change (Xs (e0 :: r)) with (estate e0 :: map estate r).
  change (fun cur e => if Qcleb (etime e) v then estate e else cur) with (step_at v).
  cbn [searchsorted]. destruct (Qcleb (etime e0) v) eqn:E.
  - replace (S (searchsorted SRight (map etime r) v) - 1) with (searchsorted SRight (map etime r) v) by lia.
    apply (state_index (etime e0)); auto.
  - change (0 - 1) with 0. cbn [nth]. symmetry. apply (fold_above (etime e0)); auto.
    apply Qclt_le_weak. now apply Qcleb_false. Qed.

Definition idx_ok (idx : list Qc -> Qc -> Z) : Prop :=
  forall ts v, sortedT ts -> idx ts v = Z.of_nat (last_le_index ts v).

Theorem state_thm idx : idx_ok idx -> forall p grid k, wf p -> k < length grid ->
  nth k (gridded_states idx (Xs p) (Ts p) grid) [] = state_at p (nth k grid 0%Qc).
Proof. intros Hi p grid k Hw Hk. unfold gridded_states.
  rewrite (nth_map_in _ grid k 0%Qc) by exact Hk. rewrite (Hi _ _ (wf_sorted p Hw)). rewrite py_nth_nat. now apply last_le_state. Qed.

Theorem first_row_thm idx : idx_ok idx -> forall e0 r grid, wf (e0 :: r) ->
  hd [] (gridded_states idx (Xs (e0 :: r)) (Ts (e0 :: r)) (etime e0 :: grid)) = estate e0.
Proof. intros Hi e0 r grid Hw.
  pose proof (state_thm idx Hi (e0 :: r) (etime e0 :: grid) 0 Hw) as H. simpl in H.
  simpl. rewrite H by lia.
  change (fun cur e => if Qcleb (etime e) (etime e0) then estate e else cur) with (step_at (etime e0)).
  apply (fold_above (etime e0)); auto. apply Qcle_refl. Qed.

(* ------------------------------------------------------------------ increments *)
Definition zsum (l : list Z) : Z := fold_right Z.add 0%Z l.
Definition mvf (V : list (list Z)) (f : nat -> Z) (s : nat) : Z :=
  zsum (map (fun j => (zget (nth j V []) s * f j)%Z) (seq 0 (length V))).
Lemma mv_mvf V n s : mv V n s = mvf V (zget n) s. Proof. reflexivity. Qed.

Lemma zsum_add l (g h : nat -> Z) :
  zsum (map (fun j => (g j + h j)%Z) l) = (zsum (map g l) + zsum (map h l))%Z.
Proof. induction l as [|a l IH]; simpl; auto. rewrite IH. lia. Qed.
Lemma zsum_zero l (g : nat -> Z) : (forall j, g j = 0%Z) -> zsum (map g l) = 0%Z.
Proof. intro H. induction l as [|a l IH]; simpl; auto. rewrite H, IH. reflexivity. Qed.
Lemma mvf_ext V f g s : (forall j, f j = g j) -> mvf V f s = mvf V g s.
Proof. intro H. unfold mvf. f_equal. apply map_ext. intro j. now rewrite H. Qed.
Lemma mvf_add V f g s : mvf V (fun j => (f j + g j)%Z) s = (mvf V f s + mvf V g s)%Z.
Proof. unfold mvf. rewrite <- zsum_add. f_equal. apply map_ext. intro j. lia. Qed.
Lemma mvf_zero V s : mvf V (fun _ => 0%Z) s = 0%Z.
Proof. unfold mvf. apply zsum_zero. intro j. lia. Qed.

(* sum of the increments V n_e over the events whose time satisfies P *)
Fixpoint acc (V : list (list Z)) (P : Qc -> bool) (r : list event) (s : nat) : Z :=
  match r with [] => 0%Z | e :: r' => ((if P (etime e) then mv V (ecounts e) s else 0) + acc V P r' s)%Z end.
Lemma acc_ext_in V P Q r s : (forall e, In e r -> P (etime e) = Q (etime e)) -> acc V P r s = acc V Q r s.
Proof. induction r as [|e r IH]; simpl; auto. intro H. rewrite (H e) by auto. rewrite IH; auto. Qed.
Lemma acc_above V t r v s : inc_from t r -> (v <= t)%Qc -> acc V (fun u => Qcleb u v) r s = 0%Z.
Proof. revert t. induction r as [|e r IH]; simpl; auto. intros t [H1 H2] L.
  assert (Hv : (v < etime e)%Qc) by (eapply Qcle_lt_trans; eauto).
  rewrite (proj2 (Qcleb_false _ _) Hv). rewrite (IH (etime e)); auto. now apply Qclt_le_weak. Qed.

Lemma state_acc V t0 r v x0 s : inc_from t0 r -> walk_from V x0 r ->
  zget (fold_left (step_at v) r x0) s = (zget x0 s + acc V (fun u => Qcleb u v) r s)%Z.
Proof. revert t0 x0. induction r as [|e r IH]; simpl; [intros; lia|]. intros t0 x0 [H1 H2] [W1 W2].
  unfold step_at at 2. destruct (Qcleb (etime e) v) eqn:E.
  - rewrite (IH (etime e)); auto. specialize (W1 s). lia.
  - assert (L : (v <= etime e)%Qc) by (apply Qclt_le_weak; now apply Qcleb_false).
    rewrite (fold_above (etime e)); auto. rewrite (acc_above V (etime e)); auto. lia. Qed.

Lemma interval_split a b (x : Z) u : (a <= b)%Qc ->
  ((if Qcleb u b then x else 0) - (if Qcleb u a then x else 0) = if Qcltb a u && Qcleb u b then x else 0)%Z.
Proof. intro L. destruct (Qcleb u a) eqn:Ea.
  - apply Qcleb_true in Ea. rewrite (proj2 (Qcleb_true u b) (Qcle_trans _ _ _ Ea L)).
    rewrite (proj2 (Qcltb_false a u) Ea). simpl. lia.
  - apply Qcleb_false in Ea. rewrite (proj2 (Qcltb_true a u) Ea). simpl. destruct (Qcleb u b); lia. Qed.
Lemma acc_interval V a b r s : (a <= b)%Qc ->
  (acc V (fun u => Qcleb u b) r s - acc V (fun u => Qcleb u a) r s
   = acc V (fun u => Qcltb a u && Qcleb u b) r s)%Z.
Proof. intro L. induction r as [|e r IH]; simpl; auto.
  pose proof (interval_split a b (mv V (ecounts e) s) (etime e) L). lia. Qed.

(* per-transition weighted sums of the event counts *)
Definition csum (P : Qc -> bool) (r : list event) (j : nat) : Z := wsum P (map etime r) (col j (map ecounts r)).
Lemma csum_cons P e r j : csum P (e :: r) j = ((if P (etime e) then zget (ecounts e) j else 0) + csum P r j)%Z.
Proof. reflexivity. Qed.
Lemma mvf_csum V P r s : mvf V (csum P r) s = acc V P r s.
Proof. induction r as [|e r IH]; simpl.
  - apply mvf_zero.
  - rewrite (mvf_ext V _ (fun j => ((if P (etime e) then zget (ecounts e) j else 0) + csum P r j)%Z))
      by (intro j; apply csum_cons).
    rewrite mvf_add, IH. f_equal. destruct (P (etime e)); [reflexivity | apply mvf_zero]. Qed.

Lemma zget_map_seq (f : nat -> Z) m j : zget (map f (seq 0 m)) j = if j <? m then f j else 0%Z.
Proof. unfold zget. destruct (j <? m) eqn:E.
  - apply Nat.ltb_lt in E. now apply nth_map_seq.
  - apply Nat.ltb_ge in E. apply nth_overflow. now rewrite map_length, seq_length. Qed.
Lemma csum_overflow P r j m : (forall e, In e r -> length (ecounts e) = m) -> m <= j -> csum P r j = 0%Z.
Proof. intros H L. induction r as [|e r IH]; [reflexivity|]. rewrite csum_cons, IH by (intros; apply H; simpl; auto).
  unfold zget. rewrite nth_overflow by (rewrite (H e) by (simpl; auto); exact L). destruct (P (etime e)); reflexivity. Qed.

(* the k-th count row of the weighted per-transition histogram *)
Lemma counts_row nt e0 r grid k : k < length grid - 1 ->
  nth k (jumps_between HTailW nt (Js (e0 :: r)) (Ts (e0 :: r)) grid) []
  = map (fun j => csum (in_bin grid k) r j) (seq 0 nt).
Proof. intro Hk. unfold jumps_between. rewrite nth_map_seq by exact Hk. simpl.
  apply map_ext. intro j. unfold hist. unfold zget at 1. rewrite nth_map_seq by exact Hk. reflexivity. Qed.

Definition width_ok (nt : nat) (p : list event) : Prop := forall e, In e (tl p) -> length (ecounts e) <= nt.
Lemma csum_overflow_le P r j nt : (forall e, In e r -> length (ecounts e) <= nt) -> nt <= j -> csum P r j = 0%Z.
Proof. intros H L. induction r as [|e r IH]; [reflexivity|]. rewrite csum_cons, IH by (intros; apply H; simpl; auto).
  unfold zget. rewrite nth_overflow by (pose proof (H e (or_introl eq_refl)); lia). destruct (P (etime e)); reflexivity. Qed.
Lemma counts_row_get nt e0 r grid k j : k < length grid - 1 -> width_ok nt (e0 :: r) ->
  zget (nth k (jumps_between HTailW nt (Js (e0 :: r)) (Ts (e0 :: r)) grid) []) j = csum (in_bin grid k) r j.
Proof. intros Hk Hr. rewrite counts_row by exact Hk. rewrite zget_map_seq.
  destruct (j <? nt) eqn:E; auto. apply Nat.ltb_ge in E. symmetry.
  apply (csum_overflow_le _ _ _ nt); [exact Hr | exact E]. Qed.
(* the two ways the code can size the count array are wide enough for a rectangular jumpList *)
Lemma width_dims1 nE p : rect nE p -> width_ok (ntrans (Js p)) p.
Proof. intros Hr e He. destruct p as [|e0 [|e1 r]]; simpl in He; try contradiction.
  unfold Js, ntrans. simpl. rewrite (Hr e He), (Hr e1) by (simpl; auto). apply Nat.le_refl. Qed.
Lemma width_nE nE p : rect nE p -> width_ok nE p.
Proof. intros Hr e He. rewrite (Hr e He). apply Nat.le_refl. Qed.
Ltac width_tac f := let nE := fresh "nE" in let p := fresh "p" in let H := fresh "H" in
  intros nE p H; unfold f; first [ exact (width_dims1 nE p H) | exact (width_nE nE p H) ].

Lemma in_bin_interval grid k u : (S k < length grid)%nat ->
  (forall i, (S i < length grid)%nat -> u <> nth i grid 0%Qc) ->
  in_bin grid k u = Qcltb (nth k grid 0%Qc) u && Qcleb u (nth (S k) grid 0%Qc).
Proof. intros Hk Hn. unfold in_bin.
  rewrite (Qcleb_ne (nth k grid 0%Qc) u) by (intro H; apply (Hn k Hk); now symmetry). f_equal.
  destruct (Nat.eqb (S (S k)) (length grid)) eqn:E; auto.
  apply Nat.eqb_neq in E. symmetry. apply Qcleb_ne. apply Hn. lia. Qed.

Theorem delta_thm idx : idx_ok idx -> forall V nt p grid k s,
  wf p -> walk V p -> width_ok nt p -> grid_mono grid -> no_hit p grid -> S k < length grid ->
  (zget (nth (S k) (gridded_states idx (Xs p) (Ts p) grid) []) s
   - zget (nth k (gridded_states idx (Xs p) (Ts p) grid) []) s
   = mv V (nth k (jumps_between HTailW nt (Js p) (Ts p) grid) []) s)%Z.
Proof. intros Hi V nt p grid k s Hw Hwalk Hr Hm Hn Hk.
  rewrite (state_thm idx Hi p grid (S k) Hw Hk), (state_thm idx Hi p grid k Hw) by lia.
  destruct p as [|e0 r]; [simpl in Hw; tauto|]. simpl in Hw, Hwalk.
  unfold state_at.
  change (fun cur e => if Qcleb (etime e) (nth (S k) grid 0%Qc) then estate e else cur) with (step_at (nth (S k) grid 0%Qc)).
  change (fun cur e => if Qcleb (etime e) (nth k grid 0%Qc) then estate e else cur) with (step_at (nth k grid 0%Qc)).
  rewrite (state_acc V (etime e0)), (state_acc V (etime e0)) by auto.
  rewrite mv_mvf.
  rewrite (mvf_ext V _ (csum (in_bin grid k) r)) by (intro j; apply counts_row_get; [lia | exact Hr]).
  rewrite mvf_csum.
  rewrite (acc_ext_in V (in_bin grid k) (fun u => Qcltb (nth k grid 0%Qc) u && Qcleb u (nth (S k) grid 0%Qc))).
  - pose proof (acc_interval V (nth k grid 0%Qc) (nth (S k) grid 0%Qc) r s (Hm k Hk)). lia.
  - intros e He. apply in_bin_interval; [exact Hk|]. intros i Hi'. apply (Hn e i); [exact He | exact Hi']. Qed.

Theorem delta_vec_thm idx : idx_ok idx -> forall V nt nS p grid k,
  wf p -> walk V p -> width_ok nt p -> grid_mono grid -> no_hit p grid -> S k < length grid ->
  vsub nS (nth (S k) (gridded_states idx (Xs p) (Ts p) grid) []) (nth k (gridded_states idx (Xs p) (Ts p) grid) [])
  = matvec nS V (nth k (jumps_between HTailW nt (Js p) (Ts p) grid) []).
Proof. intros. unfold vsub, matvec. apply map_ext. intro s. eapply delta_thm; eauto. Qed.

(* ------------------------------------------------------------------ boolean hypotheses reflect *)
Lemma inc_fromb_ok t p : inc_fromb t p = true -> inc_from t p.
Proof. revert t. induction p as [|e r IH]; simpl; auto. intros t H. apply andb_prop in H as [H1 H2].
  split; [now apply Qcltb_true | auto]. Qed.
Lemma wfb_ok p : wfb p = true -> wf p.
Proof. destruct p; simpl; [discriminate|]. apply inc_fromb_ok. Qed.
Lemma removelast_nth {A} (l : list A) i d : S i < length l -> In (nth i l d) (removelast l).
Proof. revert i. induction l as [|a l IH]; simpl; [lia|]. intros i H. destruct l as [|b l]; [simpl in H; lia|].
  destruct i; [left; reflexivity|]. right. apply IH. simpl in *. lia. Qed.
Lemma no_hitb_ok p grid : no_hitb p grid = true -> no_hit p grid.
Proof. unfold no_hitb, no_hit. intros H e i He Hi Heq. rewrite forallb_forall in H. specialize (H e He).
  rewrite forallb_forall in H. specialize (H _ (removelast_nth grid i 0%Qc Hi)).
  apply negb_true_iff in H. rewrite <- Heq in H. rewrite (proj2 (Qceqb_true _ _) eq_refl) in H. discriminate. Qed.

(* ------------------------------------------------------------------ tau-leap rows (np.interp is a parameter) *)
Section InterpProofs.
  Variable A : Type.
  Variable interp : Qc -> list Qc -> list Z -> A.
  Variable inj : Z -> A.
  (* contract of np.interp at the first knot *)
  Hypothesis interp_first : forall t0 ts x0 xs, interp t0 (t0 :: ts) (x0 :: xs) = inj x0.

  Lemma interp_rows_length nS X T grid : length (gridded_interp A interp nS X T grid) = length grid.
  Proof. apply map_length. Qed.
  Lemma map_zget_seq (f : Z -> A) l : map (fun s => f (zget l s)) (seq 0 (length l)) = map f l.
  Proof. induction l as [|a l IH]; simpl; auto. f_equal. rewrite <- seq_shift, map_map. exact IH. Qed.
  Lemma interp_first_row x0 X t0 T grid :
    hd [] (gridded_interp A interp (length x0) (x0 :: X) (t0 :: T) (t0 :: grid)) = map inj x0.
  Proof. simpl. rewrite <- (map_zget_seq inj x0). apply map_ext. intro s. unfold col. simpl. apply interp_first. Qed.
End InterpProofs.

(* ------------------------------------------------------------------ a concrete path: hypotheses are satisfiable,
   and the unweighted histogram (what the pinned code does in exact mode) violates the increment statement *)
Definition q (a b : Z) : Qc := Q2Qc (a # Z.to_pos b).
Definition exV : list (list Z) := [[-1; 1; 0]; [0; -1; 1]]%Z.       (* SIR: infection, recovery *)
Definition exP : list event :=
  [ (q 0 1, [3; 1; 0], [0; 0]); (q 1 4, [2; 2; 0], [1; 0]); (q 3 4, [2; 1; 1], [0; 1]);
    (q 3 2, [1; 2; 1], [1; 0]); (q 5 2, [1; 1; 2], [0; 1]); (q 7 2, [1; 0; 3], [0; 1]) ]%Z.
Definition exG : list Qc := [q 0 1; q 1 1; q 2 1; q 3 1].
Definition gen_free_idx (ts : list Qc) (v : Qc) : Z := Z.of_nat (last_le_index ts v).
Lemma gen_free_idx_ok : idx_ok gen_free_idx. Proof. intros ts v _. reflexivity. Qed.

Lemma ex_wf : wf exP. Proof. apply wfb_ok. vm_compute. reflexivity. Qed.
Lemma ex_no_hit : no_hit exP exG. Proof. apply no_hitb_ok. vm_compute. reflexivity. Qed.
Lemma ex_rect : rect 2 exP.
Proof. intros e He. simpl in He. repeat (destruct He as [He|He]; [subst e; reflexivity|]). contradiction. Qed.
Lemma ex_mono : grid_mono exG.
Proof. intros i Hi. simpl in Hi. apply Qcleb_true.
  do 3 (destruct i as [|i]; [vm_compute; reflexivity|]). lia. Qed.
Lemma ex_walk : walk exV exP.
Proof. simpl. repeat split; intro s;
  (do 3 (destruct s as [|s]; [vm_compute; reflexivity|])); destruct s; vm_compute; reflexivity. Qed.

Lemma ex_rows : gridded_states gen_free_idx (Xs exP) (Ts exP) exG = [[3; 1; 0]; [2; 1; 1]; [1; 2; 1]; [1; 1; 2]]%Z.
Proof. vm_compute. reflexivity. Qed.
Lemma ex_counts_weighted : jumps_between HTailW 2 (Js exP) (Ts exP) exG = [[1; 1]; [1; 0]; [0; 1]]%Z.
Proof. vm_compute. reflexivity. Qed.
Lemma ex_counts_unweighted : jumps_between HAll 2 (Js exP) (Ts exP) exG = [[3; 3]; [1; 1]; [1; 1]]%Z.
Proof. vm_compute. reflexivity. Qed.

Lemma exact_counts_refuted :
  wf exP /\ walk exV exP /\ rect 2 exP /\ grid_mono exG /\ no_hit exP exG /\
  vsub 3 (nth 1 (gridded_states gen_free_idx (Xs exP) (Ts exP) exG) []) (nth 0 (gridded_states gen_free_idx (Xs exP) (Ts exP) exG) [])
  <> matvec 3 exV (nth 0 (jumps_between HAll 2 (Js exP) (Ts exP) exG) []).
Proof. split; [exact ex_wf|]. split; [exact ex_walk|]. split; [exact ex_rect|]. split; [exact ex_mono|].
  split; [exact ex_no_hit|]. vm_compute. discriminate. Qed.
Lemma tail_counts_refuted :
  vsub 3 (nth 1 (gridded_states gen_free_idx (Xs exP) (Ts exP) exG) []) (nth 0 (gridded_states gen_free_idx (Xs exP) (Ts exP) exG) [])
  <> matvec 3 exV (nth 0 (jumps_between HTail 2 (Js exP) (Ts exP) exG) []).
Proof. vm_compute. discriminate. Qed.
Lemma example_weighted_ok : forall k, k < 3 ->
  vsub 3 (nth (S k) (gridded_states gen_free_idx (Xs exP) (Ts exP) exG) []) (nth k (gridded_states gen_free_idx (Xs exP) (Ts exP) exG) [])
  = matvec 3 exV (nth k (jumps_between HTailW 2 (Js exP) (Ts exP) exG) []).
Proof. intros k Hk. do 3 (destruct k as [|k]; [vm_compute; reflexivity|]). lia. Qed.
