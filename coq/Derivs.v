(* C03 — the derivative objects of a model whose rates are expressions, in pygom's layouts.
   Variable numbering of the environment: states 0..nS-1, time nS, parameters nS+1+k. *)
From Coq Require Import List Arith Bool QArith.
Close Scope Q_scope.
From PV Require Import Assembly Expr.
Import ListNotations.

Definition emodel := model expr.
Definition esub (a b : expr) := Add a (Neg b).
Definition eode (m : emodel) (i : nat) : expr := ode_vec expr (Cst 0) (Cst 1) Add Mul esub Neg m i.
Definition erate (m : emodel) (j : nat) : expr := rate_vec expr (Cst 0) m j.
Definition evmat (m : emodel) (i j : nat) : expr := vmat expr (Cst 0) (Cst 1) Add Mul esub Neg m i j.
Definition nE (m : emodel) := length (events m).
Definition pvar (m : emodel) (k : nat) := nS m + 1 + k.

(* get_jacobian_eqn: [i,j] = d ode_i / d x_j ; get_grad_eqn: [i,k] = d ode_i / d theta_k *)
Definition jac (m : emodel) (i j : nat) : expr := D j (eode m i).
Definition grad (m : emodel) (i k : nat) : expr := D (pvar m k) (eode m i).
(* get_diff_jacobian_eqn: row i*nS + a, column b = d/dx_b (d ode_i / d x_a) *)
Definition diff_jac (m : emodel) (r b : nat) : expr := D b (D (r mod nS m) (eode m (r / nS m))).
(* get_grad_jacobian_eqn: row k*nS + i, column j = d/dx_j (d ode_i / d theta_k) *)
Definition grad_jac (m : emodel) (r j : nat) : expr := D j (D (pvar m (r / nS m)) (eode m (r mod nS m))).
(* get_TransitionJacobian / Mean / Var (Cao et al. eq. 7, 8a, 8b) *)
Definition tF (m : emodel) (i j : nat) : expr :=
  esum (map (fun k => Mul (D k (erate m i)) (evmat m k j)) (seq 0 (nS m))).
Definition tmean (m : emodel) (i : nat) : expr :=
  esum (map (fun j => Mul (tF m i j) (erate m j)) (seq 0 (nE m))).
Definition tvar (m : emodel) (i : nat) : expr :=
  esum (map (fun j => Mul (Mul (tF m i j) (tF m i j)) (erate m j)) (seq 0 (nE m))).
