(* C05 — the exponential clocks of exact simulation as functions of independent uniforms, over R.
   numpy's legacy `exponential(scale)` is  -log(1 - U) * scale  with U uniform on [0,1); pygom's
   rexp(1, r) calls it with scale = <rexp_scale>(r) (extracted: Gen/ClockGen.v).  Definitions only;
   proofs in ExpClockProofs.v.
   Trusted definition (not a theorem): the law of n independent uniforms is Lebesgue measure on the unit
   cube, so the probability of a box inside the cube is its volume = the product of its side lengths. *)
From Coq Require Import Reals List.
Import ListNotations.
Local Open Scope R_scope.

Definition std_exp (u : R) : R := - ln (1 - u).
Definition clock (scale : R -> R) (r u : R) : R := std_exp u * scale r.

Definition sumR (l : list R) : R := fold_right Rplus 0 l.
Definition prodR (l : list R) : R := fold_right Rmult 1 l.

(* open boxes: one interval (lo, hi) per coordinate *)
Definition box := list (R * R).
Definition in_box (b : box) (us : list R) : Prop := Forall2 (fun iv u => fst iv < u < snd iv) b us.
Definition volume (b : box) : R := prodR (map (fun iv => snd iv - fst iv) b).
Definition unit_cube (n : nat) : box := repeat (0, 1) n.
Definition sub_box (a b : box) : Prop := Forall2 (fun x y => fst y <= fst x /\ snd x <= snd y) a b.

(* the event "every clock exceeds t" and the box it is claimed to be *)
Definition all_clocks_gt (scale : R -> R) (rates us : list R) (t : R) : Prop :=
  Forall2 (fun r u => clock scale r u > t) rates us.
Definition survival_box (rates : list R) (t : R) : box := map (fun r => (1 - exp (- r * t), 1)) rates.

Fixpoint remove_nth {A} (i : nat) (l : list A) : list A :=
  match l, i with
  | [], _ => []
  | _ :: r, O => r
  | x :: r, S j => x :: remove_nth j r
  end.

(* density at s of "clock i rings at s and every other clock is still running":
   (density of Exp(r_i) at s) * prod_{j<>i} P(T_j > s) *)
Definition fires_density (rates : list R) (i : nat) (s : R) : R :=
  nth i rates 0 * exp (- nth i rates 0 * s) * prodR (map (fun r => exp (- r * s)) (remove_nth i rates)).
