(* C10 (deterministic half) — any differentiable solution of x' = f(x) whose right-hand side sums to zero keeps the
   total constant; instantiated with the assembled right-hand side of a transition-only model (closed_rhs). *)
From Coq Require Import Reals Lra List Arith Lia.
From Coquelicot Require Import Coquelicot.
From PV Require Import Assembly AssemblyProofs.
Import ListNotations.
Open Scope R_scope.

Lemma zero_derivative_const (g : R -> R) : (forall t, is_derive g t 0) -> forall a b, g a = g b.
Proof.
  intros H. assert (W : forall a b, a < b -> g a = g b).
  { intros a b Hab.
    destruct (MVT_cor2 g (fun _ => 0) a b Hab) as (c & Hc & _).
    - intros c _. apply is_derive_Reals, H.
    - lra. }
  intros a b. destruct (Rtotal_order a b) as [L | [E | G]]; [apply W, L | subst; reflexivity | symmetry; apply W, G].
Qed.

Definition lsum (l : list R) : R := Assembly.sum R 0 Rplus l.

Lemma is_derive_lsum (idx : list nat) (x : nat -> R -> R) (d : nat -> R) t :
  (forall i, In i idx -> is_derive (x i) t (d i)) ->
  is_derive (fun s => lsum (map (fun i => x i s) idx)) t (lsum (map d idx)).
Proof.
  induction idx as [|i r IH]; intros H; simpl.
  - apply (@is_derive_const R_AbsRing R_NormedModule).
  - apply (@is_derive_plus R_AbsRing R_NormedModule).
    + apply H. left. reflexivity.
    + apply IH. intros j Hj. apply H. right. exact Hj.
Qed.

(* x i : trajectory of state i; f i y : right-hand side of state i at the state vector y *)
Theorem total_constant n (x : nat -> R -> R) (f : nat -> (nat -> R) -> R) :
  (forall i t, (i < n)%nat -> is_derive (x i) t (f i (fun j => x j t))) ->
  (forall y, lsum (map (fun i => f i y) (seq 0 n)) = 0) ->
  forall t0 t, lsum (map (fun i => x i t) (seq 0 n)) = lsum (map (fun i => x i t0) (seq 0 n)).
Proof.
  intros Hd Hz t0 t.
  apply (zero_derivative_const (fun s => lsum (map (fun i => x i s) (seq 0 n)))).
  intros s. rewrite <- (Hz (fun j => x j s)).
  apply (is_derive_lsum (seq 0 n) x (fun i => f i (fun j => x j s)) s).
  intros i Hi. apply in_seq in Hi. apply Hd. lia.
Qed.

(* the model's rates may depend on the state (and on anything else): m y is the model with its rates evaluated at y *)
Theorem closed_model_total_constant n (m : (nat -> R) -> model R) (x : nat -> R -> R) :
  (forall y, closed R n (events (m y)) /\ odes (m y) = []) ->
  (forall i t, (i < n)%nat ->
     is_derive (x i) t (ode_vec R 0 1 Rplus Rmult Rminus Ropp (m (fun j => x j t)) i)) ->
  forall t0 t, lsum (map (fun i => x i t) (seq 0 n)) = lsum (map (fun i => x i t0) (seq 0 n)).
Proof.
  intros Hc Hd. apply (total_constant n x (fun i y => ode_vec R 0 1 Rplus Rmult Rminus Ropp (m y) i) Hd).
  intros y. destruct (Hc y) as [C O]. unfold lsum.
  exact (closed_rhs R 0 1 Rplus Rmult Rminus Ropp (RTheory) n (m y) C O).
Qed.
