(* C01 — get_ReactantMatrix: lambda[i][j] = 1 iff state i takes part in some transition of event j.
   The loop assigns (`= 1`) instead of accumulating, so it gets its own small table language. *)
From Coq Require Import List Arith Bool Lia.
From PV Require Import Assembly.
Import ListNotations.

Section Reactant.
  Variable A : Type.
  Notation transition := (transition A).
  Notation event := (event A).

  (* entry of the extracted table: inside `if transition_type == s_ty`, `M[index(s_row), event_index] = 1` *)
  Record sentry := { s_ty : ttype; s_row : rowsel }.
  Definition scode (en : sentry) : nat :=
    (match s_ty en with B => 0 | D => 1 | T => 2 end) * 2 + (match s_row en with Orig => 0 | Dest => 1 end).
  Definition hitc (c : nat) (tr : transition) (i : nat) : bool :=
    match c with
    | 0 => match ty tr with B => orig tr =? i | _ => false end
    | 1 => match ty tr with B => dest tr =? i | _ => false end
    | 2 => match ty tr with D => orig tr =? i | _ => false end
    | 3 => match ty tr with D => dest tr =? i | _ => false end
    | 4 => match ty tr with T => orig tr =? i | _ => false end
    | 5 => match ty tr with T => dest tr =? i | _ => false end
    | _ => false
    end.
  Definition hit (en : sentry) (tr : transition) (i : nat) : bool :=
    ty_eqb (s_ty en) (ty tr) && (row_of A (s_row en) tr =? i).
  (* what the loop computes for one event: some transition and some table entry write a 1 into row i *)
  Definition run_set (tb : list sentry) (e : event) (i : nat) : bool :=
    existsb (fun tr => existsb (fun en => hit en tr i) tb) (trans e).
  Definition reactant (tb : list sentry) (evs : list event) (i j : nat) : bool :=
    match nth_error evs j with Some e => run_set tb e i | None => false end.

  (* specification *)
  Definition involved1 (tr : transition) (i : nat) : bool :=
    match ty tr with B => dest tr =? i | D => orig tr =? i | T => (orig tr =? i) || (dest tr =? i) end.
  Definition involved (e : event) (i : nat) : bool := existsb (fun tr => involved1 tr i) (trans e).

  Definition canon_codes : list nat := [1; 2; 4; 5].     (* B-Dest, D-Orig, T-Orig, T-Dest *)
  Definition memn (a : nat) (l : list nat) := existsb (Nat.eqb a) l.
  Definition set_table_ok (tb : list sentry) : bool :=
    forallb (fun en => memn (scode en) canon_codes) tb && forallb (fun c => memn c (map scode tb)) canon_codes.
End Reactant.
