(* C03 — rate-expression syntax, symbolic differentiation and exact evaluation.
   No real numbers here (executable part); the analytic meaning is in ExprProofs.v. *)
From Coq Require Import List Arith Bool QArith Qcanon.
Import ListNotations.

Inductive expr :=
| Cst (q : Q) | Var (n : nat) | Add (a b : expr) | Mul (a b : expr) | Neg (a : expr)
| Div (a b : expr) | Exp (a : expr) | Cos (a : expr) | Sin (a : expr) | Ln (a : expr).

(* the differentiator (independent of sympy.diff; proved correct in ExprProofs.D_correct) *)
Fixpoint D (x : nat) (e : expr) : expr :=
  match e with
  | Cst _ => Cst 0
  | Var n => if Nat.eqb n x then Cst 1 else Cst 0
  | Add a b => Add (D x a) (D x b)
  | Mul a b => Add (Mul (D x a) b) (Mul a (D x b))
  | Neg a => Neg (D x a)
  | Div a b => Div (Add (Mul (D x a) b) (Neg (Mul a (D x b)))) (Mul b b)
  | Exp a => Mul (D x a) (Exp a)
  | Cos a => Neg (Mul (D x a) (Sin a))
  | Sin a => Mul (D x a) (Cos a)
  | Ln a => Div (D x a) a
  end.

(* exact evaluation in Qc; transcendental nodes are looked up in an oracle table
   (function code, argument value, function value) supplied by the harness (mpmath, 45 digits) *)
Definition oracle := list (nat * Q * Q).
Fixpoint lookup (o : oracle) (f : nat) (a : Qc) : option Qc :=
  match o with
  | [] => None
  | (g, x, v) :: r => if Nat.eqb f g && Qc_eq_bool a (Q2Qc x) then Some (Q2Qc v) else lookup r f a
  end.
Definition obind {X Y} (o : option X) (f : X -> option Y) : option Y := match o with Some x => f x | None => None end.
Fixpoint evO (r : nat -> Qc) (o : oracle) (e : expr) : option Qc :=
  match e with
  | Cst q => Some (Q2Qc q)
  | Var n => Some (r n)
  | Add a b => obind (evO r o a) (fun x => obind (evO r o b) (fun y => Some (x + y)%Qc))
  | Mul a b => obind (evO r o a) (fun x => obind (evO r o b) (fun y => Some (x * y)%Qc))
  | Neg a => obind (evO r o a) (fun x => Some (- x)%Qc)
  | Div a b => obind (evO r o a) (fun x => obind (evO r o b) (fun y =>
                 if Qc_eq_bool y 0%Qc then None else Some (x / y)%Qc))
  | Exp a => obind (evO r o a) (lookup o 0)
  | Cos a => obind (evO r o a) (lookup o 1)
  | Sin a => obind (evO r o a) (lookup o 2)
  | Ln a => obind (evO r o a) (lookup o 3)
  end.

Definition esum (l : list expr) : expr := fold_right Add (Cst 0) l.
