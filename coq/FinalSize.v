(* C05 — exact law of the SIR final size from the embedded jump chain, over Qc.
   State (s, i); from a state with i > 0 the next event is an infection with probability
   r_inf / (r_inf + r_rec),  r_inf = beta*s*i/N,  r_rec = gamma*i  (choice proportional to rate:
   ExpClockProofs.select / choice_total), a recovery otherwise; i = 0 is absorbing.  Distributions are
   association lists state -> mass, pushed forward one jump at a time; after 2*s0 + i0 jumps all mass is
   absorbed (FinalSizeProofs.v).  Definitions only. *)
From Coq Require Import List Arith ZArith QArith Qcanon Bool.
Import ListNotations.
Local Open Scope nat_scope.

Definition st := (nat * nat)%type.
Definition dist := list (st * Qc).
Definition st_eqb (a b : st) : bool := Nat.eqb (fst a) (fst b) && Nat.eqb (snd a) (snd b).

Fixpoint add_mass (k : st) (w : Qc) (d : dist) : dist :=
  match d with
  | [] => [(k, w)]
  | (k', w') :: r => if st_eqb k k' then (k', (w' + w)%Qc) :: r else (k', w') :: add_mass k w r
  end.
Definition sumQ (l : list Qc) : Qc := fold_right Qcplus 0%Qc l.
Definition mass (d : dist) : Qc := sumQ (map snd d).
Definition keys (d : dist) : list st := map fst d.

Definition qn (n : nat) : Qc := Q2Qc (inject_Z (Z.of_nat n)).

Section SIR.
  Variables (beta gamma : Qc) (N : nat).
  Definition r_inf (s i : nat) : Qc := (beta * qn s * qn i / qn N)%Qc.
  Definition r_rec (i : nat) : Qc := (gamma * qn i)%Qc.
  Definition p_inf (s i : nat) : Qc := (r_inf s i / (r_inf s i + r_rec i))%Qc.

  (* one jump of the embedded chain applied to one entry of the distribution *)
  Definition push (e : st * Qc) (acc : dist) : dist :=
    match e with
    | ((s, O), w) => add_mass (s, 0) w acc
    | ((O, S i'), w) => add_mass (0, i') w acc
    | ((S s', S i'), w) =>
        add_mass (s', S (S i')) (w * p_inf (S s') (S i'))%Qc
                 (add_mass (S s', i') (w * (1 - p_inf (S s') (S i')))%Qc acc)
    end.
  Definition jump (d : dist) : dist := fold_right push [] d.
  Fixpoint iter (n : nat) (d : dist) : dist := match n with O => d | S k => iter k (jump d) end.

  Definition final_dist (s0 i0 fuel : nat) : dist := iter fuel [((s0, i0), 1%Qc)].
  Definition final_law (s0 i0 : nat) : dist := final_dist s0 i0 (2 * s0 + i0).
End SIR.

(* P(final number of susceptibles = k) read off a distribution; law d n lists k = 0 .. n-1 *)
Definition prob_at (d : dist) (k : nat) : Qc := mass (filter (fun e => st_eqb (fst e) (k, 0)) d).
Definition law (d : dist) (n : nat) : list Qc := map (prob_at d) (seq 0 n).
Definition show (l : list Qc) : list (Z * positive) := map (fun q => (Qnum (this q), Qden (this q))) l.
