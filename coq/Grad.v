(* C07 — executable model of how pygom.loss.base_loss.BaseLoss turns integrated forward sensitivities into the
   gradient handed to optimisers, transcribed statement by statement over functional arrays (Shapes.v) and an
   arbitrary ring:
     _getTargetParamIndex, _getTargetStateIndex, _getTargetParamSensIndex, _getTargetStateSensIndex,
     sens_to_grad, _sensToGradWithoutIndex, _sensToGradIVWithoutIndex, sensitivity (= gradient), jac,
     sensitivityIV, jacIV.
   `sol` is the array returned by the integrator for the augmented system (one row per observation time):
     columns [0, nS)                       the states x_i(t_r)
     column  nS + j*nS + i                 d x_i(t_r) / d theta_j          (layout proved in Props/C13.v)
     column  nS + nS*nP + j*nS + i         d x_i(t_r) / d x0_j             (IV variant only)
   Names are modelled by their declaration index: st = indices of state_name in the order supplied,
   tp / ts = indices of target_param / target_state in the order supplied (None = not given).
   Everything the translator gen/gen_grad.py reads from the source (presence of np.sort, the loop nest order,
   the index expressions, the reshape order, the shape of _getTargetStateIndex's result) is a parameter. *)
From Coq Require Import List Arith Bool ZArith.
From PV Require Import Shapes.
Import ListNotations.

Record gfacts := {
  psi_sorted : bool;       (* _getTargetParamSensIndex returns np.sort(...)/sorted(...) of the collected indices *)
  psi_state_outer : bool;  (* its loop nest: `for j in state_index` outside `for i in index_list` *)
  ssi_sorted : bool;       (* the same two facts for _getTargetStateSensIndex *)
  ssi_state_outer : bool;
  tsi_wrapped : bool;      (* _getTargetStateIndex collects the one-element LISTS returned by get_state_index *)
  g_order : order          (* sens_to_grad: np.reshape(sens, (n, num_s, num_out), ORDER) *)
}.

(* the pinned tree (76dc926 .. 8870a14) and the intended code *)
Definition pinned_facts : gfacts :=
  {| psi_sorted := true; psi_state_outer := true; ssi_sorted := true; ssi_state_outer := true;
     tsi_wrapped := true; g_order := OrdF |}.
Definition good_facts : gfacts :=
  {| psi_sorted := false; psi_state_outer := false; ssi_sorted := false; ssi_state_outer := false;
     tsi_wrapped := false; g_order := OrdF |}.

(* gradient entries follow the supplied orders when nothing re-sorts the columns and the blocks are per target *)
Definition order_respecting (fc : gfacts) : bool :=
  negb (psi_sorted fc) && negb (psi_state_outer fc) && negb (ssi_sorted fc) && negb (ssi_state_outer fc).

(* index expressions as read from the source: nS nP j i -> j + (i + 1) * nS   and   j + (i + 1 + nP) * nS *)
Definition psi_spec (nS nP j i : Z) : Z := (j + (i + 1) * nS)%Z.
Definition ssi_spec (nS nP j i : Z) : Z := (j + (i + 1 + nP) * nS)%Z.

(* np.sort on a list of non-negative integers *)
Fixpoint insert (x : nat) (l : list nat) : list nat :=
  match l with [] => [x] | y :: r => if x <=? y then x :: l else y :: insert x r end.
Fixpoint isort (l : list nat) : list nat := match l with [] => [] | x :: r => insert x (isort r) end.

(* the two loop nests that collect the indices: f j i with j a state index, i a parameter / target-state index *)
Definition nest (state_outer : bool) (f : nat -> nat -> nat) (st il : list nat) : list nat :=
  if state_outer then flat_map (fun j => map (fun i => f j i) il) st
  else flat_map (fun i => map (fun j => f j i) st) il.

Definition is_some {X} (o : option X) : bool := match o with Some _ => true | None => false end.

Section Grad.
  Variables (A : Type) (a0 : A) (add mul : A -> A -> A).
  Notation vec := (vec A). Notation arr := (arr A). Notation sumn := (sumn A a0 add).

  Variable fc : gfacts.
  Variables pexpr sexpr : Z -> Z -> Z -> Z -> Z.
  Variables nS nP : nat.

  (* a negative value would wrap around in numpy; it is mapped out of range on purpose *)
  Definition zidx (e : Z -> Z -> Z -> Z -> Z) (j i : nat) : nat :=
    let v := e (Z.of_nat nS) (Z.of_nat nP) (Z.of_nat j) (Z.of_nat i) in
    if (v <? 0)%Z then nS + nS * nP + nS * nS else Z.to_nat v.

  (* _getTargetParamIndex / _getTargetStateIndex (values; the container shape is the fact tsi_wrapped) *)
  Definition target_param_index (tp : option (list nat)) : list nat :=
    match tp with None => seq 0 nP | Some l => l end.
  Definition target_state_index (ts : option (list nat)) : list nat :=
    match ts with None => seq 0 nS | Some l => l end.

  Definition fin (sorted : bool) (l : list nat) : list nat := if sorted then isort l else l.

  (* _getTargetParamSensIndex *)
  Definition param_sens_index (st : list nat) (tp : option (list nat)) : list nat :=
    fin (psi_sorted fc) (nest (psi_state_outer fc) (zidx pexpr) st (target_param_index tp)).
  (* _getTargetStateSensIndex; None = TypeError (`[k] + 1 + n_p` when the indices are one-element lists) *)
  Definition state_sens_index (st : list nat) (ts : option (list nat)) : option (list nat) :=
    if tsi_wrapped fc && is_some ts then None
    else Some (fin (ssi_sorted fc) (nest (ssi_state_outer fc) (zidx sexpr) st (target_state_index ts))).

  (* np.reshape(X, (d0, d1, d2), order) of a 2-D array, read at [r, s, q] *)
  Definition reshape3 (o : order) (X : arr) (d0 d1 d2 r s q : nat) : A :=
    match o with
    | OrdC => let k := (r * d1 + s) * d2 + q in get X (k / nc X) (k mod nc X)
    | OrdF => let k := r + (s + q * d1) * d0 in get X (k mod nr X) (k / nr X)
    end.

  (* sens_to_grad: num_s = len(state_name); sens is n x (num_s*num_out); w, dl are n x num_s
       sens = np.reshape(sens, (n, num_s, num_out), 'F'); sens[:, :, j] *= weight
       grad = reduce(np.add, map(np.dot, diff_loss, sens)).ravel() *)
  Definition sens_to_grad (num_s : nat) (w dl sens : arr) : vec :=
    let n := nr sens in
    let num_out := nc sens / num_s in
    {| vlen := num_out;
       vget := fun q => sumn n (fun r => sumn num_s (fun s =>
                 mul (get dl r s) (mul (reshape3 (g_order fc) sens n num_s num_out r s q) (get w r s)))) |}.

  (* X[:, idx] with a list of column indices *)
  Definition cols (idx : list nat) (X : arr) : arr := take_cols (length idx) (fun k => nth k idx 0) X.

  (* self._lossObj.diff_loss(sol[:, self._stateIndex]): elementwise kernel dL r s applied to the selected states *)
  Definition dloss (dL : nat -> nat -> A -> A) (st : list nat) (sol : arr) : arr :=
    {| nr := nr sol; nc := length st; get := fun r s => dL r s (get sol r (nth s st 0)) |}.

  (* _sensToGradWithoutIndex / _sensToGradIVWithoutIndex *)
  Definition grad_params (st : list nat) (tp : option (list nat)) (w dl sol : arr) : vec :=
    sens_to_grad (length st) w dl (cols (param_sens_index st tp) sol).
  Definition grad_states (st : list nat) (ts : option (list nat)) (w dl sol : arr) : option vec :=
    match state_sens_index st ts with
    | None => None
    | Some ix => Some (sens_to_grad (length st) w dl (cols ix sol))
    end.

  (* sensitivity(theta) = gradient(theta); jac(theta) *)
  Definition sensitivity (st : list nat) (tp : option (list nat)) (w : arr) (dL : nat -> nat -> A -> A) (sol : arr) : vec :=
    grad_params st tp w (dloss dL st sol) sol.
  Definition jac (st : list nat) (tp : option (list nat)) (sol : arr) : arr := cols (param_sens_index st tp) sol.

  (* sensitivityIV(theta_and_x0); jacIV *)
  Definition sensitivityIV (st : list nat) (tp ts : option (list nat)) (w : arr) (dL : nat -> nat -> A -> A)
             (sol : arr) : option vec :=
    match grad_states st ts w (dloss dL st sol) sol with
    | None => None
    | Some gi => Some (vapp (grad_params st tp w (dloss dL st sol) sol) gi)
    end.
  Definition jacIV (st : list nat) (tp ts : option (list nat)) (sol : arr) : option arr :=
    match state_sens_index st ts with
    | None => None
    | Some ix => Some (cols (param_sens_index st tp ++ ix) sol)
    end.

  (* ---------------------------------------------------------------- specification side *)
  (* the sensitivities held by sol, in the layout of Props/C13.v *)
  Definition dx_dtheta (sol : arr) (r i j : nat) : A := get sol r (nS + j * nS + i).
  Definition dx_dx0 (sol : arr) (r i j : nat) : A := get sol r (nS + nS * nP + j * nS + i).
  (* chain rule:  sum_r sum_s  L'(y_rs, yhat_rs) * w_rs * d yhat_rs / d v     with yhat_rs = x_{st[s]}(t_r) *)
  Definition chain (st : list nat) (w dl : arr) (n : nat) (dyhat : nat -> nat -> A) : A :=
    sumn n (fun r => sumn (length st) (fun s => mul (mul (get dl r s) (get w r s)) (dyhat r (nth s st 0)))).
End Grad.

Arguments reshape3 {A}. Arguments cols {A}. Arguments dx_dtheta {A}. Arguments dx_dx0 {A}.
