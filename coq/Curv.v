(* C20 — executable model of the curvature code of pygom.loss.base_loss.BaseLoss (sens_to_jtj, the column selection of
   _sensToJTJWithoutIndex / _getTargetParamSensIndex, jtj, hessian) and of the square-loss kernel it uses
   (loss_type.Square.diff_loss, Baseloss_Type.residual), transcribed statement by statement over functional arrays
   (Shapes.v) and an arbitrary commutative ring.  Everything gen/gen_curv.py reads from the source (reshape order, weight loop,
   dot operand form, loop nesting and sorting of the index list, sign and weight of the residual-curvature term, kron operand
   order, the factor of JTJ, the constants of the loss kernel) is a parameter of the model.
   Only small, total, computable definitions here; proofs are in CurvProofs.v.

   Data layout (rows = observation times t_1..t_n, the origin is not a row):
     Z : n x (nS + nS*nP [+ nS*nP*nP])   the integrated augmented system: state, sensitivities (column nS + a*nS + s is
                                          dx_s/dtheta_a), second-order sensitivities (column nS + nS*nP + (s*nP + a)*nP + b)
     W, Y : n x p                          self._weight and the observations, p = len(state_name)
     sidx : list nat (length p)            self._stateIndex  = get_state_index(state_name), in the order of state_name
     pidx : list nat                       _getTargetParamIndex(), in the order of target_param                          *)
From Coq Require Import List Arith Bool ZArith.
From PV Require Import Shapes.
Import ListNotations.

Record jfacts := {
  jtj_reshape_order : order;    (* sens_to_jtj : np.reshape(sens, (n, num_s, num_out), ORDER) *)
  jtj_weighted : bool;          (* sens_to_jtj : the loop  sens[:, :, j] *= self._weight  is present *)
  jtj_dot_tfirst : bool;        (* sens_to_jtj : J += np.dot(s.T, s)   (false: np.dot(s, s.T)) *)
  sel_param_outer : bool;       (* _getTargetParamSensIndex : outer loop over the target parameters, inner over the observed states *)
  sel_sorted : bool             (* _getTargetParamSensIndex : np.sort applied to the index list *)
}.
(* what the cost needs: one block of columns per target parameter in the order supplied, the observed states inside in the order
   of state_name (the layout the reshape and the weights assume), no sorting *)
Definition good_jfacts : jfacts :=
  {| jtj_reshape_order := OrdF; jtj_weighted := true; jtj_dot_tfirst := true; sel_param_outer := true; sel_sorted := false |}.
(* the tree up to 8870a14: loops nested the other way round, then np.sort *)
Definition pinned_jfacts : jfacts :=
  {| jtj_reshape_order := OrdF; jtj_weighted := true; jtj_dot_tfirst := true; sel_param_outer := false; sel_sorted := true |}.

Record hfacts := {
  h_ff_order : order;           (* ode_utils.vecToMatFF : np.reshape(ff, (nS*nP, nP)) *)
  h_resid_negated : bool;       (* hessian : E[self._stateIndex] += -diff_loss[i] *)
  h_resid_weighted : bool;      (* hessian : ... diff_loss[i]*self._weight[i] *)
  h_kron_E_first : bool;        (* hessian : scipy.sparse.kron(E, scipy.sparse.eye(nP)) *)
  h_jtj_factor : nat;           (* hessian : HJTJ += 2*JTJ *)
  dl_negated : bool;            (* Square.diff_loss : -2*residual *)
  dl_factor : nat;
  res_y_minus_yhat : bool;      (* Baseloss_Type.residual : self._y - yhat *)
  res_weighted : bool           (* Baseloss_Type.residual : resid = resid*self._w *)
}.
Definition good_hfacts : hfacts :=
  {| h_ff_order := OrdC; h_resid_negated := false; h_resid_weighted := true; h_kron_E_first := true; h_jtj_factor := 2;
     dl_negated := true; dl_factor := 2; res_y_minus_yhat := true; res_weighted := true |}.
(* the tree up to 8870a14 *)
Definition pinned_hfacts : hfacts :=
  {| h_ff_order := OrdC; h_resid_negated := true; h_resid_weighted := false; h_kron_E_first := true; h_jtj_factor := 2;
     dl_negated := true; dl_factor := 2; res_y_minus_yhat := true; res_weighted := true |}.

(* np.sort of an integer list *)
Fixpoint insert (x : nat) (l : list nat) : list nat :=
  match l with [] => [x] | y :: r => if x <=? y then x :: l else y :: insert x r end.
Definition isort (l : list nat) : list nat := fold_right insert [] l.

Section Curv.
  Variables (A : Type) (a0 a1 : A) (add mul sub : A -> A -> A) (opp : A -> A).
  Notation vec := (vec A). Notation arr := (arr A).
  Notation dot := (dot A a0 add mul). Notation madd := (madd A add). Notation zeros := (zeros A a0).
  Notation eye := (eye A a0 a1). Notation kron := (kron A mul). Notation sumn := (sumn A a0 add).

  (* n*x for a literal natural number n *)
  Fixpoint nmul (n : nat) (x : A) : A := match n with O => a0 | S k => add x (nmul k x) end.
  Definition sgn (negated : bool) (x : A) : A := if negated then opp x else x.
  Definition scale (n : nat) (X : arr) : arr := {| nr := nr X; nc := nc X; get := fun i j => nmul n (get X i j) |}.

  (* np.reshape(X, (n, a, b), order) of a 2-D array *)
  Definition arr3 := nat -> nat -> nat -> A.
  Definition reshape3 (o : order) (X : arr) (n a b : nat) : arr3 := fun i j k =>
    match o with
    | OrdF => let q := i + n * (j + a * k) in get X (q mod nr X) (q / nr X)
    | OrdC => let q := (i * a + j) * b + k in get X (q / nc X) (q mod nc X)
    end.

  Definition take_rows_l (idx : list nat) (X : arr) : arr := take_rows (length idx) (fun k => nth k idx 0) X.
  Definition take_cols_l (idx : list nat) (X : arr) : arr := take_cols (length idx) (fun k => nth k idx 0) X.
  Definition row (X : arr) (i : nat) : vec := {| vlen := nc X; vget := fun c => get X i c |}.

  Variable jf : jfacts.

  (* BaseLoss.sens_to_jtj(sens) (resid=None); num_s = len(self._stateName), W = self._weight *)
  Definition sens_to_jtj (num_s : nat) (W sens : arr) : arr :=
    let n := nr sens in
    let num_out := nc sens / num_s in
    let T := reshape3 (jtj_reshape_order jf) sens n num_s num_out in
    let Tw : arr3 := fun i j k => if jtj_weighted jf then mul (T i j k) (get W i j) else T i j k in
    fold_left (fun J i =>
                 let s := {| nr := num_s; nc := num_out; get := fun j k => Tw i j k |} in
                 madd J (if jtj_dot_tfirst jf then dot (transpose s) s else dot s (transpose s)))
              (seq 0 n) (zeros num_out num_out).

  (* BaseLoss._getTargetParamSensIndex() *)
  Definition sens_index (nS : nat) (sidx pidx : list nat) : list nat :=
    let e i j := j + (i + 1) * nS in
    let l := if sel_param_outer jf then flat_map (fun i => map (fun j => e i j) sidx) pidx
             else flat_map (fun j => map (fun i => e i j) pidx) sidx in
    if sel_sorted jf then isort l else l.

  (* BaseLoss._sensToJTJWithoutIndex(sens) = sens_to_jtj(sens[:, index_out]);  jtj(theta) applies it to the solution of the
     first-order augmented system, hessian(theta) to the solution of the second-order one *)
  Definition jtj_sel (nS : nat) (sidx pidx : list nat) (W Z : arr) : arr :=
    sens_to_jtj (length sidx) W (take_cols_l (sens_index nS sidx pidx) Z).

  Variable hf : hfacts.

  (* Baseloss_Type.residual / Square.diff_loss on the predictions yhat[i][k] *)
  Definition residual (W Y : arr) (yhat : nat -> nat -> A) (i k : nat) : A :=
    let r := if res_y_minus_yhat hf then sub (get Y i k) (yhat i k) else sub (yhat i k) (get Y i k) in
    if res_weighted hf then mul r (get W i k) else r.
  Definition diff_loss (W Y : arr) (yhat : nat -> nat -> A) (i k : nat) : A :=
    sgn (dl_negated hf) (nmul (dl_factor hf) (residual W Y yhat i k)).

  (* E = np.zeros(nS); E[self._stateIndex] += v   (numpy: the last assignment to a repeated index wins) *)
  Definition E_vec (sidx : list nat) (v : nat -> A) (s : nat) : A :=
    fold_left (fun acc k => if nth k sidx 0 =? s then v k else acc) (seq 0 (length sidx)) a0.

  (* one pass of the loop of BaseLoss.hessian (observation i):
       FF = vecToMatFF(solution_all[i, base:], nS, nP); E = zeros(nS); E[stateIndex] += +-diff_loss[i][*weight[i]];
       kron(E, eye(nP)).dot(FF) *)
  Definition resid_term (nS nP : nat) (sidx : list nat) (W Y Z : arr) (i : nat) : arr :=
    let base := nS + nS * nP in
    let dl := diff_loss W Y (fun i k => get Z i (nth k sidx 0)) in
    let FF := reshape_vec (h_ff_order hf) (vdrop base (row Z i)) (nS * nP) nP in
    let E := E_vec sidx (fun k => let d := sgn (h_resid_negated hf) (dl i k) in
                                  if h_resid_weighted hf then mul d (get W i k) else d) in
    let Em := {| nr := 1; nc := nS; get := fun _ s => E s |} in
    let K := if h_kron_E_first hf then kron Em (eye nP) else kron (eye nP) Em in
    dot K FF.

  (* BaseLoss.hessian(theta), given the integrated second-order augmented system Z *)
  Definition hessian (nS nP : nat) (sidx pidx : list nat) (W Y Z : arr) : arr :=
    let H := fold_left (fun H i => madd H (resid_term nS nP sidx W Y Z i)) (seq 0 (nr Z)) (zeros nP nP) in
    let Hsel := take_cols_l pidx (take_rows_l pidx H) in
    madd Hsel (scale (h_jtj_factor hf) (jtj_sel nS sidx pidx W Z)).

  (* ---------------------------------------------------------------- specification side *)
  (* prediction, sensitivity and second-order sensitivity of observed state k (sidx[k]) at time i with respect to the target
     parameters a, b (pidx[a], pidx[b]), read from the documented layout of Z *)
  Definition X_of (Z : arr) (sidx : list nat) (i k : nat) : A := get Z i (nth k sidx 0).
  Definition S_of (nS : nat) (Z : arr) (sidx pidx : list nat) (i k a : nat) : A :=
    get Z i (nS + nth a pidx 0 * nS + nth k sidx 0).
  Definition FF_of (nS nP : nat) (Z : arr) (sidx pidx : list nat) (i k a b : nat) : A :=
    get Z i (nS + nS * nP + (nth k sidx 0 * nP + nth a pidx 0) * nP + nth b pidx 0).
  (* sum over observations of the outer products of the weighted sensitivities of the observed states *)
  Definition jtj_spec (nS : nat) (sidx pidx : list nat) (W Z : arr) (a b : nat) : A :=
    sumn (nr Z) (fun i => sumn (length sidx) (fun k =>
      mul (mul (get W i k) (S_of nS Z sidx pidx i k a)) (mul (get W i k) (S_of nS Z sidx pidx i k b)))).
  (* second derivative of  sum_i sum_k (w_ik (y_ik - x_ik(theta)))^2  by the chain rule:
       sum_i sum_k [ l''_ik dx_ik/da dx_ik/db + l'_ik d2x_ik/da db ],   l'' = 2 w^2,  l' = 2 w^2 (x - y) *)
  Definition hess_spec (nS nP : nat) (sidx pidx : list nat) (W Y Z : arr) (a b : nat) : A :=
    sumn (nr Z) (fun i => sumn (length sidx) (fun k =>
      let w := get W i k in
      add (nmul 2 (mul (mul w (S_of nS Z sidx pidx i k a)) (mul w (S_of nS Z sidx pidx i k b))))
          (mul (mul (nmul 2 (mul w w)) (sub (X_of Z sidx i k) (get Y i k))) (FF_of nS nP Z sidx pidx i k a b)))).
  (* v' M v *)
  Definition quad (n : nat) (M : arr) (v : nat -> A) : A :=
    sumn n (fun a => sumn n (fun b => mul (mul (v a) (get M a b)) (v b))).
End Curv.

Arguments arr3 : clear implicits.
Arguments X_of {A}. Arguments S_of {A}. Arguments FF_of {A}.
