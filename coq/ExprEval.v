(* Soundness of the exact evaluator used by the correspondence check: whenever evO returns a value, the
   expression is defined at that (rational) point and its real value is that rational — provided the oracle
   table lists true function values.  With an empty table (rational expressions) this is unconditional, so the
   numbers Coq compares with pygom's output ARE the real-valued derivatives the theorems of C03 speak about. *)
From Coq Require Import Reals Lra List QArith Qreals Qcanon.
From Coquelicot Require Import Coquelicot.
From PV Require Import Expr ExprProofs.
Import ListNotations.
Open Scope R_scope.

Definition QcR (q : Qc) : R := Q2R (this q).
Lemma QcR_Q2Qc q : QcR (Q2Qc q) = Q2R q.
Proof. unfold QcR, Q2Qc; simpl. apply Qeq_eqR, Qred_correct. Qed.
Lemma QcR_plus x y : QcR (x + y)%Qc = QcR x + QcR y.
Proof. unfold Qcplus. rewrite QcR_Q2Qc. apply Q2R_plus. Qed.
Lemma QcR_mult x y : QcR (x * y)%Qc = QcR x * QcR y.
Proof. unfold Qcmult. rewrite QcR_Q2Qc. apply Q2R_mult. Qed.
Lemma QcR_opp x : QcR (- x)%Qc = - QcR x.
Proof. unfold Qcopp. rewrite QcR_Q2Qc. apply Q2R_opp. Qed.
Lemma QcR_0 : QcR 0%Qc = 0.
Proof. unfold QcR; simpl. unfold Q2R; simpl. lra. Qed.
Lemma QcR_eq0 y : QcR y = 0 -> y = 0%Qc.
Proof. intros E. apply Qc_is_canon. apply eqR_Qeq. unfold QcR in E. rewrite E. unfold Q2R; simpl; lra. Qed.
Lemma Qc_eq_bool_false x y : Qc_eq_bool x y = false -> x <> y.
Proof. unfold Qc_eq_bool. destruct (Qc_eq_dec x y); [discriminate | auto]. Qed.
Lemma QcR_neq0 y : Qc_eq_bool y 0%Qc = false -> QcR y <> 0.
Proof. intros H E. apply (Qc_eq_bool_false _ _ H). apply QcR_eq0, E. Qed.
Lemma QcR_inv y : QcR y <> 0 -> QcR (/ y)%Qc = / QcR y.
Proof. intros H. unfold Qcinv. rewrite QcR_Q2Qc. apply Q2R_inv. intros E. apply H. unfold QcR.
  rewrite (Qeq_eqR _ _ E). unfold Q2R; simpl; lra. Qed.
Lemma QcR_div x y : QcR y <> 0 -> QcR (x / y)%Qc = QcR x / QcR y.
Proof. intros H. unfold Qcdiv. rewrite QcR_mult, QcR_inv by exact H. reflexivity. Qed.

(* an oracle table is truthful when every entry (code, x, v) is a true value of exp / cos / sin / ln (x > 0) *)
Definition fn_of (code : nat) : R -> R :=
  match code with O => exp | S O => cos | S (S O) => sin | _ => ln end.
Definition truthful (o : oracle) : Prop :=
  List.Forall (fun e : nat * Q * Q => let '(c, x, v) := e in
    fn_of c (Q2R x) = Q2R v /\ (c = 3%nat -> 0 < Q2R x)) o.
Lemma lookup_sound o : truthful o -> forall c a v, lookup o c a = Some v ->
  fn_of c (QcR a) = QcR v /\ (c = 3%nat -> 0 < QcR a).
Proof. induction 1 as [|[[g x] w] r Hh Ht IH]; intros c a v H; simpl in H; [discriminate|].
  destruct (Nat.eqb_spec c g) as [->|Hne]; simpl in H.
  - destruct (Qc_eq_bool a (Q2Qc x)) eqn:E.
    + apply Qc_eq_bool_correct in E. subst a. inversion H; subst. rewrite !QcR_Q2Qc. exact Hh.
    + apply IH, H.
  - apply IH, H. Qed.

Definition renv (r : nat -> Qc) : nat -> R := fun n => QcR (r n).

Theorem evO_sound o : truthful o -> forall r e q, evO r o e = Some q ->
  ok (renv r) e /\ ev (renv r) e = QcR q.
Proof. intros Ho r. induction e; simpl; intros q0 H.
  - inversion H; subst. split; [exact I | symmetry; apply QcR_Q2Qc].
  - inversion H; subst. split; [exact I | reflexivity].
  - destruct (evO r o e1) as [x|]; [|discriminate]. destruct (evO r o e2) as [y|]; [|discriminate]. simpl in H.
    inversion H; subst. destruct (IHe1 x eq_refl) as [O1 E1]. destruct (IHe2 y eq_refl) as [O2 E2].
    split; [split; assumption | rewrite E1, E2; symmetry; apply QcR_plus].
  - destruct (evO r o e1) as [x|]; [|discriminate]. destruct (evO r o e2) as [y|]; [|discriminate]. simpl in H.
    inversion H; subst. destruct (IHe1 x eq_refl) as [O1 E1]. destruct (IHe2 y eq_refl) as [O2 E2].
    split; [split; assumption | rewrite E1, E2; symmetry; apply QcR_mult].
  - destruct (evO r o e) as [x|]; [|discriminate]. simpl in H. inversion H; subst.
    destruct (IHe x eq_refl) as [O1 E1]. split; [assumption | rewrite E1; symmetry; apply QcR_opp].
  - destruct (evO r o e1) as [x|]; [|discriminate]. destruct (evO r o e2) as [y|]; [|discriminate]. simpl in H.
    destruct (Qc_eq_bool y 0%Qc) eqn:Ey; [discriminate|]. inversion H; subst.
    destruct (IHe1 x eq_refl) as [O1 E1]. destruct (IHe2 y eq_refl) as [O2 E2].
    pose proof (QcR_neq0 y Ey) as Hy.
    split; [repeat split; try assumption; rewrite E2; exact Hy | rewrite E1, E2; symmetry; apply QcR_div, Hy].
  - destruct (evO r o e) as [x|]; [|discriminate]. simpl in H. destruct (IHe x eq_refl) as [O1 E1].
    destruct (lookup_sound o Ho _ _ _ H) as [Hv _]. split; [assumption | rewrite E1; exact Hv].
  - destruct (evO r o e) as [x|]; [|discriminate]. simpl in H. destruct (IHe x eq_refl) as [O1 E1].
    destruct (lookup_sound o Ho _ _ _ H) as [Hv _]. split; [assumption | rewrite E1; exact Hv].
  - destruct (evO r o e) as [x|]; [|discriminate]. simpl in H. destruct (IHe x eq_refl) as [O1 E1].
    destruct (lookup_sound o Ho _ _ _ H) as [Hv _]. split; [assumption | rewrite E1; exact Hv].
  - destruct (evO r o e) as [x|]; [|discriminate]. simpl in H. destruct (IHe x eq_refl) as [O1 E1].
    destruct (lookup_sound o Ho _ _ _ H) as [Hv Hp]. split; [split; [assumption | rewrite E1; apply Hp; reflexivity] | rewrite E1; exact Hv].
Qed.

(* rational expressions: no oracle needed *)
Corollary evO_sound_rational r e q : evO r [] e = Some q -> ok (renv r) e /\ ev (renv r) e = QcR q.
Proof. apply evO_sound. constructor. Qed.
