(* C20 — the models of Curv.v / FF.v instantiated at Z, and the comparison functions used by the correspondence case files
   written by harness/c20.py (inputs and the outputs observed on the real pygom are flat integer literals, row-major). *)
From Coq Require Import List Arith Bool ZArith.
From PV Require Import Util Shapes Sens Curv FF.
Import ListNotations.

Definition zvec (l : list Z) : vec Z := vec_of_list Z 0%Z l.
Definition zarr (r c : nat) (l : list Z) : arr Z := Build_arr r c (fun i j => nth (i * c + j) l 0%Z).
Definition flat (X : arr Z) : list Z := concat (arr_to_lists X).

(* BaseLoss.sens_to_jtj(sens) on an integer array *)
Record jcase := JC { j_ns : nat; j_n : nat; j_nout : nat; j_W : list Z; j_sens : list Z; j_exp : list Z }.
(* jtj(theta) / hessian(theta) with the integrator replaced by a stub returning the integer solution h_Z *)
Record hcase := HC { h_nS : nat; h_nP : nat; h_sidx : list nat; h_pidx : list nat; h_n : nat;
                     h_W : list Z; h_Y : list Z; h_Z : list Z; h_ejtj : list Z; h_ehess : list Z }.
(* ode_and_forwardforward(z, t) with integer stubs for ode / jacobian / grad / diff_jacobian *)
Record fcase := FC { f_nS : nat; f_nP : nat; f_f : list Z; f_J : list Z; f_G : list Z; f_DJ : list Z; f_z : list Z;
                     f_exp : list Z }.

Section Chk.
  Variables (jf : jfacts) (hf : hfacts) (ffc : fffacts) (sfc : Sens.facts).

  Definition chk_j (c : jcase) : bool :=
    let p := j_ns c * j_nout c in
    zlist_eqb (flat (sens_to_jtj Z 0%Z Z.add Z.mul jf (j_ns c) (zarr (j_n c) (j_ns c) (j_W c)) (zarr (j_n c) p (j_sens c))))
              (j_exp c).

  (* 1: jtj differs, 2: hessian differs *)
  Definition chk_h_parts (c : hcase) : list nat :=
    let nS := h_nS c in let nP := h_nP c in let p := length (h_sidx c) in
    let w2 := nS + nS * nP + nS * nP * nP in
    let W := zarr (h_n c) p (h_W c) in let Y := zarr (h_n c) p (h_Y c) in
    let Zf := zarr (h_n c) w2 (h_Z c) in
    (* the first-order solution is the left part of the second-order one *)
    let Z1 := Build_arr (h_n c) (nS + nS * nP) (get Zf) in
    (if zlist_eqb (flat (jtj_sel Z 0%Z Z.add Z.mul jf nS (h_sidx c) (h_pidx c) W Z1)) (h_ejtj c) then [] else [1]) ++
    (if zlist_eqb (flat (hessian Z 0%Z 1%Z Z.add Z.mul Z.sub Z.opp jf hf nS nP (h_sidx c) (h_pidx c) W Y Zf)) (h_ehess c)
     then [] else [2]).

  Definition chk_f (c : fcase) : bool :=
    let nS := f_nS c in let nP := f_nP c in
    zlist_eqb (vec_to_list (ode_and_forwardforward Z 0%Z 1%Z Z.add Z.mul ffc sfc nS nP (zvec (f_f c)) (zarr nS nS (f_J c))
                              (zarr nS nP (f_G c)) (zarr (nS * nS) nS (f_DJ c)) (zvec (f_z c))))
              (f_exp c).

  Fixpoint failing_h_from (k : nat) (l : list hcase) : list nat :=
    match l with [] => [] | c :: r => map (fun q => k * 10 + q) (chk_h_parts c) ++ failing_h_from (S k) r end.
  Definition failing_h := failing_h_from 0.
End Chk.
