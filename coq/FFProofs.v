(* C20 — proofs about FF.v: with the good code facts ode_and_forwardforward computes, entry by entry and for all nS, nP,
   f / J S + G / J F_ab + S_a' (d2f/dxdx) S_b in the documented layouts; this equals the true second-order right-hand side
   exactly when the mixed terms vanish, and differs from it on the model f = theta * x. *)
From Coq Require Import List Arith Bool Lia Ring ZArith.
From PV Require Import Shapes ShapesProofs Sens Curv CurvProofs FF.
Import ListNotations.

Section FFProofs.
  Variables (A : Type) (a0 a1 : A) (add mul sub : A -> A -> A) (opp : A -> A).
  Hypothesis Rth : ring_theory a0 a1 add mul sub opp (@eq A).
  Add Ring Aring4 : Rth.
  Notation vec := (vec A). Notation arr := (arr A).
  Notation sumn := (sumn A a0 add).
  Let Sprod := sumn_prod A a0 a1 add mul sub opp Rth.
  Let Sdelta := sumn_delta A a0 a1 add mul sub opp Rth.
  Let Sswap := sumn_swap A a0 a1 add mul sub opp Rth.
  Let Smul_l := sumn_mul_l A a0 a1 add mul sub opp Rth.
  Let Smul_r := sumn_mul_r A a0 a1 add mul sub opp Rth.
  Let Sadd := sumn_add A a0 a1 add mul sub opp Rth.
  Let Szero := sumn_zero A a0 a1 add mul sub opp Rth.

  Variables nS nP : nat.
  Variables (f : vec) (J G DJ : arr).

  Definition ff_shapes_ok : Prop :=
    vlen f = nS /\ nr J = nS /\ nc J = nS /\ nr G = nS /\ nc G = nP /\ nr DJ = nS * nS /\ nc DJ = nS.

  Ltac ltbs := repeat match goal with
    | |- context [?a <? ?b] =>
        first [ replace (a <? b) with true by (symmetry; apply Nat.ltb_lt; nia)
              | replace (a <? b) with false by (symmetry; apply Nat.ltb_ge; nia) ]
    end.

  Lemma ff_entries (z : vec) : ff_shapes_ok -> vlen z = nS + nS * nP + nS * nP * nP ->
    let out := ode_and_forwardforward A a0 a1 add mul good_fffacts Sens.good_facts nS nP f J G DJ z in
    vlen out = nS + nS * nP + nS * nP * nP /\
    (forall k, k < nS -> vget out k = vget f k) /\
    (forall i j, i < nS -> j < nP -> vget out (nS + j * nS + i) = rhs_S A a0 add mul nS J G (S_par nS z) i j) /\
    (forall s a b, s < nS -> a < nP -> b < nP ->
       vget out (nS + nS * nP + (s * nP + a) * nP + b) = ff_code_rhs A a0 add mul nS nP J DJ z s a b).
  Proof.
    intros (Hf & HJr & HJc & HGr & HGc & HDr & HDc) Hz.
    cbv beta iota zeta delta
      [ode_and_forwardforward forwardforward eval_forwardforward vecToMatFF matToVecFF kronParam kronState vslice
       Sens.sensitivity Sens.eval_sensitivity Sens.vecToMatSens Sens.matToVecSens Sens.dotp
       good_fffacts ffv2m_order ffm2v_order kp_pre_default kp_eye_first_if_pre ks_pre_arg ks_eye_first_if_pre ks_transposed
       Sens.good_facts v2m_order m2v_order dot_sens_swapped Bool.eqb
       vapp vdrop reshape_vec ravel transpose dot madd eye kron S_par rhs_S ff_code_rhs S1 S2];
      cbn [vlen vget nr nc get].
    rewrite Hf, HJr, HJc, HDc. split; [|split; [|split]].
    - nia.
    - intros k Hk. ltbs. reflexivity.
    - intros i j Hi Hj. ltbs. rewrite <- Nat.add_assoc, add_sub_l.
      rewrite mod_lin, div_lin by assumption. f_equal.
      apply sumn_ext. intros l Hl. do 2 f_equal. lia.
    - intros s a b Hs Ha Hb. ltbs.
      replace (nS + nS * nP + (s * nP + a) * nP + b - (nS + nS * nP)) with ((s * nP + a) * nP + b) by lia.
      rewrite div_lin, mod_lin by assumption. rewrite !div_lin, !mod_lin by assumption. f_equal.
      + (* kron(J, eye(nP)) . FF *)
        rewrite Sprod. apply sumn_ext. intros l Hl.
        transitivity (sumn nP (fun a' => if a' =? a then mul (get J s l) (vget z (nS * (nP + 1) + ((l * nP + a') * nP + b))) else a0)).
        * apply sumn_ext. intros a' Ha'. rewrite div_lin, mod_lin by assumption. rewrite (Nat.eqb_sym a a').
          destruct (a' =? a); ring.
        * rewrite Sdelta by assumption. do 2 f_equal. lia.
      + (* kron(eye(nS), S.T) . diffJ . S *)
        transitivity (sumn nS (fun j => sumn nS (fun i =>
                        mul (mul (vget z (nS + (i + a * nS))) (get DJ (s * nS + i) j)) (vget z (nS + (j + b * nS)))))).
        * apply sumn_ext. intros j Hj. rewrite <- Smul_r. rewrite Sprod.
          transitivity (sumn nS (fun s' => if s' =? s then
                          sumn nS (fun i => mul (mul (vget z (nS + (i + a * nS))) (get DJ (s' * nS + i) j)) (vget z (nS + (j + b * nS))))
                          else a0)).
          -- apply sumn_ext. intros s' Hs'. rewrite (Nat.eqb_sym s' s). destruct (Nat.eqb_spec s s') as [E|E].
             ++ apply sumn_ext. intros i Hi. rewrite div_lin, mod_lin by assumption. rewrite (proj2 (Nat.eqb_eq s s') E). ring.
             ++ apply Szero. intros i Hi. rewrite div_lin by assumption. rewrite (proj2 (Nat.eqb_neq s s') E). ring.
          -- rewrite Sdelta by assumption. reflexivity.
        * rewrite Sswap. apply sumn_ext. intros i Hi. apply sumn_ext. intros j Hj.
          replace (nS + (i + a * nS)) with (nS + a * nS + i) by lia.
          replace (nS + (j + b * nS)) with (nS + b * nS + j) by lia. reflexivity.
  Qed.

  (* the exact difference between the true right-hand side and what the code integrates *)
  Lemma ff_gap (GJ GG : arr) (z : vec) s a b :
    ff_true_rhs A a0 add mul nS nP J DJ GJ GG z s a b =
    add (ff_code_rhs A a0 add mul nS nP J DJ z s a b) (ff_mixed A a0 add mul nS nP GJ GG z s a b).
  Proof.
    unfold ff_true_rhs, ff_code_rhs, ff_mixed.
    assert (E : sumn nS (fun l => mul (add (sumn nS (fun j => mul (get DJ (s * nS + l) j) (S1 A nS z j b))) (get GJ (b * nS + s) l))
                                      (S1 A nS z l a)) =
                add (sumn nS (fun i => sumn nS (fun j => mul (mul (S1 A nS z i a) (get DJ (s * nS + i) j)) (S1 A nS z j b))))
                    (sumn nS (fun l => mul (get GJ (b * nS + s) l) (S1 A nS z l a)))).
    { rewrite <- Sadd. apply sumn_ext. intros l _.
      transitivity (add (mul (sumn nS (fun j => mul (get DJ (s * nS + l) j) (S1 A nS z j b))) (S1 A nS z l a))
                        (mul (get GJ (b * nS + s) l) (S1 A nS z l a))); [ring|]. f_equal.
      rewrite <- Smul_r. apply sumn_ext. intros j _. ring. }
    rewrite E. ring.
  Qed.

  Definition mixed_vanish (GJ GG : arr) : Prop :=
    (forall r l, get GJ r l = a0) /\ (forall r b, get GG r b = a0).

  Lemma ff_complete (GJ GG : arr) (z : vec) s a b : mixed_vanish GJ GG ->
    ff_code_rhs A a0 add mul nS nP J DJ z s a b = ff_true_rhs A a0 add mul nS nP J DJ GJ GG z s a b.
  Proof.
    intros [H1 H2]. rewrite ff_gap. unfold ff_mixed. rewrite H2.
    rewrite !Szero; [ring| |]; intros l _; rewrite H1; ring.
  Qed.
End FFProofs.

(* ------------------------------------------------------------------ concrete witnesses over Z *)
Module FFWitness.
  Open Scope Z_scope.
  (* f = theta * x at theta = 2, x = 3 with S = dx/dtheta = 1, F = 0:
     J = theta = 2, G = x = 3, d2f/dx2 = 0, d2f/dx dtheta = 1, d2f/dtheta2 = 0.  True: dF/dt = J F + 2 S = 2; code: J F = 0 *)
  Definition wf : vec Z := Build_vec 1 (fun _ => 6).
  Definition wJ : arr Z := Build_arr 1 1 (fun _ _ => 2).
  Definition wG : arr Z := Build_arr 1 1 (fun _ _ => 3).
  Definition wDJ : arr Z := Build_arr 1 1 (fun _ _ => 0).
  Definition wGJ : arr Z := Build_arr 1 1 (fun _ _ => 1).
  Definition wGG : arr Z := Build_arr 1 1 (fun _ _ => 0).
  Definition wz : vec Z := Build_vec 3 (fun k => match k with O => 3 | S O => 1 | _ => 0 end).
  Lemma w_shapes : ff_shapes_ok Z 1 1 wf wJ wG wDJ.
  Proof. repeat split. Qed.
  Lemma ff_refuted :
    vget (ode_and_forwardforward Z 0 1 Z.add Z.mul good_fffacts Sens.good_facts 1 1 wf wJ wG wDJ wz) 2 = 0 /\
    ff_true_rhs Z 0 Z.add Z.mul 1 1 wJ wDJ wGJ wGG wz 0 0 0 = 2.
  Proof. split; reflexivity. Qed.
  (* a 2-state 2-parameter instance for the satisfiability of the hypotheses *)
  Definition vf : vec Z := Build_vec 2 (fun k => Z.of_nat k + 1).
  Definition vJ : arr Z := Build_arr 2 2 (fun i l => 1 + 2 * Z.of_nat i - Z.of_nat l).
  Definition vG : arr Z := Build_arr 2 2 (fun i j => Z.of_nat i + 2 * Z.of_nat j - 1).
  Definition vDJ : arr Z := Build_arr 4 2 (fun r c => Z.of_nat (r / 2) + Z.of_nat (r mod 2) * Z.of_nat c + 1).
  Definition vz : vec Z := Build_vec 14 (fun k => Z.of_nat (k * k mod 5) - 2).
  Lemma v_shapes : ff_shapes_ok Z 2 2 vf vJ vG vDJ /\ vlen vz = (2 + 2 * 2 + 2 * 2 * 2)%nat.
  Proof. repeat split. Qed.
End FFWitness.
