(* C13 — executable model of the sensitivity systems of pygom.model.deterministic.DeterministicOde,
   transcribed statement by statement over functional arrays (Shapes.v) and an arbitrary ring.
   The evaluators jacobian / grad / diff_jacobian / grad_jacobian / ode are abstract tensors
       f  : vec nS            J  : nS x nS            G  : nS x nP
       DJ : (nS*nS) x nS   row i*nS+a, col b  = d2 f_i / dx_a dx_b      (get_diff_jacobian_eqn: col_join over i)
       GJ : (nS*nP) x nS   row k*nS+i, col j  = d G[i,k] / dx_j         (get_grad_jacobian_eqn: z = k*nS+i)
   Everything the translator gen/gen_sens.py reads from the source (reshape orders, dot operand order,
   transposes, kron operand order, the arrangeVector loop) is a parameter of the model. *)
From Coq Require Import List Arith Bool ZArith.
From PV Require Import Shapes.
Import ListNotations.

Record facts := {
  v2m_order : order;        (* ode_utils.vecToMatSens : np.reshape(s, (nS, nP), ORDER) *)
  m2v_order : order;        (* ode_utils.matToVecSens : np.reshape(S, nS*nP, order=ORDER) *)
  bs_in_order : order;      (* sensitivity, by_state : np.reshape(sens, (nS, nP)) *)
  bs_out_order : order;     (* eval_sensitivity, by_state : np.reshape(A, nS*nP) *)
  iv_in_order : order;      (* sensitivityIV : np.reshape(sensIV[-(nS*nS):], (nS, nS), ORDER) *)
  iv_out_order : order;     (* eval_sensitivityIV : B.flatten(ORDER) *)
  sjs_order : order;        (* eval_sens_jacobian_state : outer np.reshape(..., (nS*nP, nS)) *)
  ivjac_in_order : order;   (* ode_and_sensitivityIV_jacobian : np.reshape(z[nS*(nP+1):], (nS, nS), ORDER) *)
  ivjac_out_order : order;  (* ode_and_sensitivityIV_jacobian : np.reshape(A.transpose(), (nS*nS, nS)) *)
  sjs_transposed : bool;    (* eval_sens_jacobian_state : .transpose() present *)
  ivjac_transposed : bool;  (* ode_and_sensitivityIV_jacobian : A.transpose() present *)
  dot_sens_swapped : bool;  (* eval_sensitivity : np.dot(J, S) written with swapped operands *)
  dot_ivA_swapped : bool;   (* eval_sensitivityIV : np.dot(J, S) *)
  dot_ivB_swapped : bool;   (* eval_sensitivityIV : np.dot(J, IV) *)
  dot_sjs_swapped : bool;   (* eval_sens_jacobian_state : diff_jacobian.dot(vecToMatSens(sens)) *)
  dot_ivjac_swapped : bool; (* ode_and_sensitivityIV_jacobian : DJ.dot(reshape(...)) *)
  kron_eye_first : bool;    (* ode_and_sensitivity_jacobian : np.kron(np.eye(nP), J) *)
  kron_eye_first_ivP : bool;(* ode_and_sensitivityIV_jacobian : np.kron(np.eye(nP), J) *)
  kron_eye_first_ivS : bool (* ode_and_sensitivityIV_jacobian : np.kron(np.eye(nS), J) (both occurrences) *)
}.

Definition good_facts : facts :=
  {| v2m_order := OrdF; m2v_order := OrdF; bs_in_order := OrdC; bs_out_order := OrdC;
     iv_in_order := OrdF; iv_out_order := OrdF; sjs_order := OrdC; ivjac_in_order := OrdF;
     ivjac_out_order := OrdC; sjs_transposed := true; ivjac_transposed := true;
     dot_sens_swapped := false; dot_ivA_swapped := false; dot_ivB_swapped := false;
     dot_sjs_swapped := false; dot_ivjac_swapped := false;
     kron_eye_first := true; kron_eye_first_ivP := true; kron_eye_first_ivS := true |}.

(* The arrangeVector loop, as read by the translator:
     outer_is_state : the outer `for` ranges over the states (so position k = i*nP + j), otherwise over the
                      parameters (k = j*nS + i);  i is always the state index, j the parameter index
     e              : the value stored at position k, an integer expression in nS, nP, i, j
   A negative value (numpy would wrap it) is mapped out of range on purpose. *)
Definition arrange_of (outer_is_state : bool) (e : Z -> Z -> Z -> Z -> Z) (nS nP k : nat) : nat :=
  let i := if outer_is_state then k / nP else k mod nS in
  let j := if outer_is_state then k mod nP else k / nS in
  let v := e (Z.of_nat nS) (Z.of_nat nP) (Z.of_nat i) (Z.of_nat j) in
  if (v <? 0)%Z then nS * nP else Z.to_nat v.
(* the loop of the pinned tree (76dc926 .. cd39b4d):
     for j in range(nP): for i in range(nS): arrangeVector[k] = (i*nS + j) if i == 0 else (i*(nS-1) + j); k += 1 *)
Definition arrange_pinned : nat -> nat -> nat -> nat :=
  arrange_of false (fun nS nP i j => if (i =? 0)%Z then (i * nS + j)%Z else (i * (nS - 1) + j)%Z).
(* the arrangement the by_state layout needs: row i*nP+j of the by_state system is row j*nS+i of the default one *)
Definition arrange_spec (nS nP k : nat) : nat := (k mod nP) * nS + k / nP.

Section Sens.
  Variables (A : Type) (a0 a1 : A) (add mul : A -> A -> A).
  Notation vec := (vec A). Notation arr := (arr A).
  Notation dot := (dot A a0 add mul). Notation madd := (madd A add). Notation zeros := (zeros A a0).
  Notation eye := (eye A a0 a1). Notation kron := (kron A mul). Notation sumn := (sumn A a0 add).

  Definition dotp (swapped : bool) (X Y : arr) : arr := if swapped then dot Y X else dot X Y.
  Definition tr (b : bool) (X : arr) : arr := if b then transpose X else X.
  Definition kron_eye (eye_first : bool) (n : nat) (X : arr) : arr :=
    if eye_first then kron (eye n) X else kron X (eye n).

  Variable fc : facts.
  Variables nS nP : nat.

  (* ode_utils.vecToMatSens / matToVecSens (through shapeAdjust(num_state, num_param)) *)
  Definition vecToMatSens (s : vec) : arr := reshape_vec (v2m_order fc) s nS nP.
  Definition matToVecSens (S : arr) : vec := ravel (m2v_order fc) S (nS * nP).

  (* DeterministicOde.eval_sensitivity *)
  Definition eval_sensitivity (J G S : arr) (by_state : bool) : vec :=
    let Am := madd (dotp (dot_sens_swapped fc) J S) G in
    if by_state then ravel (bs_out_order fc) Am (nS * nP) else matToVecSens Am.

  (* DeterministicOde.sensitivity *)
  Definition sensitivity (J G : arr) (sens : vec) (by_state : bool) : vec :=
    let S := if by_state then reshape_vec (bs_in_order fc) sens nS nP else vecToMatSens sens in
    eval_sensitivity J G S by_state.

  (* DeterministicOde.ode_and_sensitivity *)
  Definition ode_and_sensitivity (f : vec) (J G : arr) (z : vec) (by_state : bool) : vec :=
    let sens := vdrop nS z in
    vapp f (sensitivity J G sens by_state).

  (* DeterministicOde.sensitivityIV + eval_sensitivityIV *)
  Definition sensitivityIV (J G : arr) (sensIV : vec) : vec * vec :=
    let sens := vtake (nS * nP) sensIV in
    let S := vecToMatSens sens in
    let IV := reshape_vec (iv_in_order fc) (vlast (nS * nS) sensIV) nS nS in
    let Am := madd (dotp (dot_ivA_swapped fc) J S) G in
    let Bm := dotp (dot_ivB_swapped fc) J IV in
    (matToVecSens Am, ravel (iv_out_order fc) Bm (nr Bm * nc Bm)).

  (* DeterministicOde.ode_and_sensitivityIV *)
  Definition ode_and_sensitivityIV (f : vec) (J G : arr) (z : vec) : vec :=
    let sens_iv := vdrop nS z in
    let o := sensitivityIV J G sens_iv in
    vapp (vapp f (fst o)) (snd o).

  (* DeterministicOde.eval_sens_jacobian_state / sens_jacobian_state *)
  Definition eval_sens_jacobian_state (DJ : arr) (sens : vec) : arr :=
    reshape2 (sjs_order fc) (tr (sjs_transposed fc) (dotp (dot_sjs_swapped fc) DJ (vecToMatSens sens))) (nS * nP) nS.
  Definition sens_jacobian_state (DJ : arr) (state_param : vec) : arr :=
    eval_sens_jacobian_state DJ (vdrop nS state_param).

  (* DeterministicOde.ode_and_sensitivity_jacobian.
     arrange    : the index array built by the arrangeVector loop (as a function of nS, nP, position)
     perm_cols  : the columns of the kron block are indexed by the same array
     relayout   : with by_state the sensitivities are first brought to the default layout
                  (state_param = np.append(state, matToVecSens(np.reshape(state_param[nS:], (nS, nP))))) *)
  Definition ode_and_sensitivity_jacobian (arrange : nat -> nat -> nat -> nat) (perm_cols relayout : bool)
             (J DJ GJ : arr) (z : vec) (by_state : bool) : arr :=
    let zz := if by_state && relayout
              then vapp (vtake nS z) (matToVecSens (reshape_vec OrdC (vdrop nS z) nS nP)) else z in
    let outJ := kron_eye (kron_eye_first fc) nP J in
    let sJS := madd GJ (sens_jacobian_state DJ zz) in
    let idx := arrange nS nP in
    let outJ' := if by_state
                 then (let r := take_rows (nS * nP) idx outJ in if perm_cols then take_cols (nS * nP) idx r else r)
                 else outJ in
    let sJS' := if by_state then take_rows (nS * nP) idx sJS else sJS in
    vcat (hcat J (zeros nS (nS * nP))) (hcat sJS' outJ').

  (* with the pinned arrangement numpy raises IndexError when an index leaves [0, nS*nP) *)
  Definition arrange_in_range (arrange : nat -> nat -> nat -> nat) : bool :=
    forallb (fun k => arrange nS nP k <? nS * nP) (seq 0 (nS * nP)).

  (* DeterministicOde.ode_and_sensitivityIV_jacobian *)
  Definition ode_and_sensitivityIV_jacobian (J DJ GJ : arr) (z : vec) : arr :=
    let A0 := dotp (dot_ivjac_swapped fc) DJ (reshape_vec (ivjac_in_order fc) (vdrop (nS * (nP + 1)) z) nS nS) in
    let Am := reshape2 (ivjac_out_order fc) (tr (ivjac_transposed fc) A0) (nS * nS) nS in
    if nP =? 0 then
      vcat (hcat J (zeros nS (nS * nS))) (hcat Am (kron_eye (kron_eye_first_ivS fc) nS J))
    else
      let outJ := kron_eye (kron_eye_first_ivP fc) nP J in
      let GS := sens_jacobian_state DJ (vtake (nS * (nP + 1)) z) in
      let sJS := madd GJ GS in
      vcat (vcat (hcat (hcat J (zeros nS (nS * nP))) (zeros nS (nS * nS)))
                 (hcat (hcat sJS outJ) (zeros (nS * nP) (nS * nS))))
           (hcat (hcat Am (zeros (nS * nS) (nS * nP))) (kron_eye (kron_eye_first_ivS fc) nS J)).

  (* ---------------------------------------------------------------- specification side *)
  (* documented vector layouts *)
  Definition S_par (z : vec) (i j : nat) : A := vget z (nS + j * nS + i).             (* default: by parameter *)
  Definition S_st (z : vec) (i j : nat) : A := vget z (nS + i * nP + j).              (* by_state *)
  Definition S_iv (z : vec) (i j : nat) : A := vget z (nS + nS * nP + j * nS + i).    (* dx/dx0, after the nS*nP block *)
  (* (J S + G)[i][j] and (J S0)[i][j] *)
  Definition rhs_S (J G : arr) (S : nat -> nat -> A) (i j : nat) : A :=
    add (sumn nS (fun l => mul (get J i l) (S l j))) (get G i j).
  Definition rhs_S0 (J : arr) (S0 : nat -> nat -> A) (i j : nat) : A :=
    sumn nS (fun l => mul (get J i l) (S0 l j)).
  (* formal partial derivatives with respect to the state x_m:
       d/dx_m (sum_l J[i][l] S[l][j] + G[i][j]) = sum_l (dJ[i][l]/dx_m) S[l][j] + dG[i][j]/dx_m *)
  Definition dS_dx (DJ GJ : arr) (S : nat -> nat -> A) (i j m : nat) : A :=
    add (sumn nS (fun l => mul (get DJ (i * nS + l) m) (S l j))) (get GJ (j * nS + i) m).
  Definition dS0_dx (DJ : arr) (S0 : nat -> nat -> A) (i j m : nat) : A :=
    sumn nS (fun l => mul (get DJ (i * nS + l) m) (S0 l j)).
End Sens.

Arguments S_par {A}. Arguments S_st {A}. Arguments S_iv {A}.
