(* C02 — model of pygom's deterministic solving entry points.

   scipy.integrate.ode is a state machine over an explicit heap: an integrator owns an output buffer
   (a pointer); `integrate(t)` either overwrites that buffer in place or allocates a fresh array,
   depending on the integrator (table measured from the installed scipy on every run); `r.y` hands
   out the pointer; pygom's `solution` list holds POINTERS and `np.array(solution)` dereferences
   them only at the end.  The true flow of the model's ODE is a Section variable Phi.

   Only small, total, computable definitions here; proofs are in IntegrateProofs.v. *)
From Coq Require Import List Arith Bool String QArith.
Import ListNotations.
Open Scope nat_scope.

(* ------------------------------------------------------------------ scipy integrators *)
Inductive ikind := Lsoda | Vode | VodeBdf | Dopri5 | Dop853.
Definition all_kinds := [Lsoda; Vode; VodeBdf; Dopri5; Dop853].
Definition ikind_eqb (a b : ikind) : bool :=
  match a, b with
  | Lsoda, Lsoda | Vode, Vode | VodeBdf, VodeBdf | Dopri5, Dopri5 | Dop853, Dop853 => true
  | _, _ => false
  end.
Definition ikind_code (k : ikind) : nat :=
  match k with Lsoda => 0 | Vode => 1 | VodeBdf => 2 | Dopri5 => 3 | Dop853 => 4 end.

(* measured on the installed scipy at harness start *)
Record scipy_tbl := {
  ip_lsoda : bool; ip_vode : bool; ip_vodebdf : bool; ip_dopri5 : bool; ip_dop853 : bool;
      (* does ode.integrate(t) write its result into the array that ode.y already was? *)
  setiv_copies : bool   (* does ode.set_initial_value(y, t) copy y (true) or keep a reference (false)? *)
}.
Definition inplace (s : scipy_tbl) (k : ikind) : bool :=
  match k with Lsoda => ip_lsoda s | Vode => ip_vode s | VodeBdf => ip_vodebdf s
             | Dopri5 => ip_dopri5 s | Dop853 => ip_dop853 s end.

(* ------------------------------------------------------------------ facts extracted from ode_utils *)
Inductive retmode := RetAlias (* `r.y` *) | RetCopy (* `r.y.copy()`, `np.array(r.y)`, ... *).
Definition is_copy (m : retmode) := match m with RetCopy => true | RetAlias => false end.

Record step_facts := {
  ret_plain : retmode;     (* what _integrateOneStep(..., full_output=False) returns *)
  ret_full : retmode;      (* first component of what _integrateOneStep(..., full_output=True) returns *)
  resetup_full : bool;     (* integrateFuncJac builds a new integrator from (o1, deltaT) after every step
                              of the full_output branch *)
  origin_copy : bool       (* includeOrigin appends a copy of x0 (true) or x0 itself (false) *)
}.

(* method strings -> integrators (extracted from _setupIntegrator) *)
Definition setup_tbl := list (string * ikind).
Fixpoint lookup (tb : setup_tbl) (m : string) : option ikind :=
  match tb with
  | [] => None
  | (s, k) :: r => if String.eqb s m then Some k else lookup r m
  end.
Definition setup_kind (tb : setup_tbl) (dflt : ikind) (m : string) : ikind :=
  match lookup tb m with Some k => k | None => dflt end.

(* _determineIntegratorGivenEigenValue as a decision tree over (max e, min e) *)
Inductive evar := MaxE | MinE.
Inductive cmpop := CGe | CGt | CLe | CLt.
Inductive dtree := Leaf (name : string) | Node (v : evar) (c : cmpop) (k : Q) (yes no : dtree).
Definition cmp_eval (c : cmpop) (x k : Q) : bool :=
  match c with
  | CGe => Qle_bool k x
  | CGt => negb (Qle_bool x k)
  | CLe => Qle_bool x k
  | CLt => negb (Qle_bool k x)
  end.
Fixpoint eval_tree (t : dtree) (maxE minE : Q) : string :=
  match t with
  | Leaf s => s
  | Node v c k y n =>
      if cmp_eval c (match v with MaxE => maxE | MinE => minE end) k
      then eval_tree y maxE minE else eval_tree n maxE minE
  end.
Fixpoint leaves (t : dtree) : list string :=
  match t with Leaf s => [s] | Node _ _ _ y n => leaves y ++ leaves n end.
Definition configured (tb : setup_tbl) (s : string) : bool :=
  match lookup tb s with Some _ => true | None => false end.

Record dispatch := {
  d_table : setup_tbl;          (* the `method == '...'` chain of _setupIntegrator *)
  d_default : ikind;            (* its final else branch *)
  d_eig : dtree;                (* _determineIntegratorGivenEigenValue *)
  d_plain_default : string      (* method used when method is None and full_output is False *)
}.

(* ------------------------------------------------------------------ the machine *)
Section Machine.
  Variables vec time : Type.
  Variable Phi : time -> time -> vec -> vec.   (* Phi t1 t2 x : state at t2 of the solution that is x at t1 *)

  Record heap := { cell : nat -> vec; next : nat }.
  Definition alloc (h : heap) (v : vec) : heap * nat :=
    ({| cell := fun q => if Nat.eqb q (next h) then v else cell h q; next := S (next h) |}, next h).
  Definition write (h : heap) (p : nat) (v : vec) : heap :=
    {| cell := fun q => if Nat.eqb q p then v else cell h q; next := next h |}.

  Record integ := { t_cur : time; buf : nat; kind : ikind }.

  Variable SP : scipy_tbl.
  Variable F : step_facts.

  (* _setupIntegrator(..., x0, t0, ...) : r.set_initial_value(x0, t0) *)
  Definition setup (k : ikind) (p : nat) (t : time) (h : heap) : integ * heap :=
    if setiv_copies SP
    then let (h', q) := alloc h (cell h p) in ({| t_cur := t; buf := q; kind := k |}, h')
    else ({| t_cur := t; buf := p; kind := k |}, h).

  (* r.integrate(t) *)
  Definition integrate_to (r : integ) (t : time) (h : heap) : integ * heap :=
    let v := Phi (t_cur r) t (cell h (buf r)) in
    if inplace SP (kind r)
    then ({| t_cur := t; buf := buf r; kind := kind r |}, write h (buf r) v)
    else let (h', q) := alloc h v in ({| t_cur := t; buf := q; kind := kind r |}, h').

  (* the state returned by _integrateOneStep *)
  Definition ret (m : retmode) (r : integ) (h : heap) : nat * heap :=
    match m with
    | RetAlias => (buf r, h)
    | RetCopy => let (h', q) := alloc h (cell h (buf r)) in (q, h')
    end.

  (* the `for deltaT in t` loop of integrateFuncJac; picks i = integrator chosen from the eigenvalues
     after step i (only used by the full_output branch) *)
  Fixpoint loop (full : bool) (picks : nat -> ikind) (i : nat) (ts : list time)
                (r : integ) (h : heap) (sol : list nat) : list nat * heap :=
    match ts with
    | [] => (sol, h)
    | t :: rest =>
        let (r1, h1) := integrate_to r t h in
        let (o1, h2) := ret (if full then ret_full F else ret_plain F) r1 h1 in
        let (r2, h3) := if full && resetup_full F then setup (picks i) o1 t h2 else (r1, h2) in
        loop full picks (S i) rest r2 h3 (sol ++ [o1])
    end.

  (* integrateFuncJac(func, jac, x0, t0, t, includeOrigin=origin, full_output=full) once the first
     integrator kind0 is known.  The caller's x0 lives at pointer 0. *)
  Definition run_funcjac (origin full : bool) (kind0 : ikind) (picks : nat -> ikind)
                         (x0 : vec) (t0 : time) (ts : list time) : list nat * heap :=
    let h0 := {| cell := fun _ => x0; next := 1 |} in
    let (r, h1) := setup kind0 0 t0 h0 in
    let (sol, h2) := if origin
                     then (if origin_copy F then let (h', q) := alloc h1 x0 in ([q], h') else ([0], h1))
                     else ([], h1) in
    loop full picks 0 ts r h2 sol.

  (* np.array(solution) *)
  Definition read (res : list nat * heap) : list vec := map (cell (snd res)) (fst res).

  (* when is no appended row ever overwritten?  (sufficient, decidable) *)
  Definition step_safe (full : bool) (kind0 : ikind) : bool :=
    if full then
      if resetup_full F
      then setiv_copies SP || forallb (fun k => negb (inplace SP k)) all_kinds
      else is_copy (ret_full F) || negb (inplace SP kind0)
    else is_copy (ret_plain F) || negb (inplace SP kind0).
  Definition origin_safe (origin : bool) (kind0 : ikind) : bool :=
    negb origin || origin_copy F || setiv_copies SP || negb (inplace SP kind0).
  Definition copy_or_fresh (origin full : bool) (kind0 : ikind) : bool :=
    step_safe full kind0 && origin_safe origin kind0.

  (* scipy.integrate.odeint(f, x0, tt): contract — row i is the solution at tt[i] started from x0 at
     tt[0]; fresh 2-D array *)
  Definition odeint (x0 : vec) (tt : list time) : list vec :=
    match tt with [] => [] | ta :: _ => map (fun t => Phi ta t x0) tt end.
End Machine.

Arguments cell {vec} _ _.
Arguments next {vec} _.
Arguments read {vec} _.

(* ------------------------------------------------------------------ DeterministicOde wrappers *)
Record wrap_facts := {
  settime_prepends : bool;   (* _setIntegrateTime: np.append(self._t0, t) (true) / np.append(t, self._t0) (false) *)
  i2_skip : nat;             (* _integrate2 passes t[0] as t0 and t[i2_skip:] as the grid *)
  i2_origin : bool;          (* includeOrigin constant passed by _integrate2 *)
  i2_full : bool             (* full_output constant passed by _integrate2 *)
}.

Inductive entry :=
| EIntegrate (full : bool)                                    (* DeterministicOde.integrate *)
| ESolveDeterm (full : bool)                                  (* SimulateOde.solve_determ, fixed parameters *)
| EIntegrate2 (m : option string) (full : bool)               (* DeterministicOde.integrate2 *)
| EFuncJac (m : option string) (origin full : bool).          (* ode_utils.integrateFuncJac *)

Definition includes_origin (e : entry) : bool :=
  match e with EFuncJac _ o _ => o | _ => true end.

Section Entries.
  Variables vec time : Type.
  Variable Phi : time -> time -> vec -> vec.
  Variable SP : scipy_tbl.
  Variable F : step_facts.
  Variable W : wrap_facts.
  Variable D : dispatch.

  (* eigenvalue oracle: (max, min) of the Jacobian spectrum at the start and after step i *)
  Definition pick_of (e : Q * Q) : ikind :=
    setup_kind (d_table D) (d_default D) (eval_tree (d_eig D) (fst e) (snd e)).
  Definition kind0_of (m : option string) (full : bool) (e0 : Q * Q) : ikind :=
    match m with
    | Some s => setup_kind (d_table D) (d_default D) s
    | None => if full then pick_of e0 else setup_kind (d_table D) (d_default D) (d_plain_default D)
    end.

  Definition funcjac (m : option string) (origin full : bool) (e0 : Q * Q) (es : nat -> Q * Q)
                     (x0 : vec) (t0 : time) (ts : list time) : list vec :=
    read (run_funcjac vec time Phi SP F origin full (kind0_of m full e0) (fun i => pick_of (es i)) x0 t0 ts).

  Definition ode_time (t0 : time) (ts : list time) : list time :=
    if settime_prepends W then t0 :: ts else ts ++ [t0].

  Definition run_entry (e : entry) (e0 : Q * Q) (es : nat -> Q * Q)
                       (x0 : vec) (t0 : time) (ts : list time) : list vec :=
    match e with
    | EIntegrate _ | ESolveDeterm _ => odeint vec time Phi x0 (ode_time t0 ts)
    | EIntegrate2 m _ =>
        match ode_time t0 ts with
        | [] => []
        | (ta :: _) as tt => funcjac m (i2_origin W) (i2_full W) e0 es x0 ta (skipn (i2_skip W) tt)
        end
    | EFuncJac m o f => funcjac m o f e0 es x0 t0 ts
    end.

  (* decidable sufficient condition for an entry point, for every integrator the dispatch can reach *)
  Definition kinds_reachable (m : option string) (full : bool) : list ikind :=
    match m with
    | Some s => [setup_kind (d_table D) (d_default D) s]
    | None => if full then all_kinds else [setup_kind (d_table D) (d_default D) (d_plain_default D)]
    end.
  Definition funcjac_ok (m : option string) (origin full : bool) : bool :=
    forallb (copy_or_fresh SP F origin full) (kinds_reachable m full).
  Definition entry_ok (e : entry) : bool :=
    match e with
    | EIntegrate _ | ESolveDeterm _ => settime_prepends W
    | EIntegrate2 m _ => settime_prepends W && Nat.eqb (i2_skip W) 1 && i2_origin W
                         && funcjac_ok m (i2_origin W) (i2_full W)
    | EFuncJac m o f => funcjac_ok m o f
    end.
End Entries.

(* the documented call space: methods x full_output x includeOrigin *)
Definition documented_methods : list (option string) :=
  [None; Some "lsoda"%string; Some "vode"%string; Some "ivode"%string; Some "dopri5"%string; Some "dop853"%string].
Definition documented_dispatch : list (string * ikind) :=
  [("lsoda"%string, Lsoda); ("vode"%string, Vode); ("ivode"%string, VodeBdf);
   ("dopri5"%string, Dopri5); ("dop853"%string, Dop853)].
Definition bools := [true; false].
Definition documented_entries : list entry :=
  map EIntegrate bools ++ map ESolveDeterm bools
  ++ flat_map (fun m => map (EIntegrate2 m) bools) documented_methods
  ++ flat_map (fun m => flat_map (fun o => map (EFuncJac m o) bools) bools) documented_methods.

Definition option_kind_eqb (a : option ikind) (b : ikind) : bool :=
  match a with Some k => ikind_eqb k b | None => false end.
Definition dispatch_ok (D : dispatch) : bool :=
  forallb (fun mk => option_kind_eqb (lookup (d_table D) (fst mk)) (snd mk)) documented_dispatch
  && forallb (configured (d_table D)) (leaves (d_eig D))
  && configured (d_table D) (d_plain_default D).

(* ------------------------------------------------------------------ container rule of compileExprAndFormat *)
Inductive outtype := OVec | OMat.
Inductive container := Vec1D | Mat2D.
(* none_is_shape_rule : with outType=None the output is 1-D as soon as a dimension is 1 *)
Definition container_of (oT : option outtype) (nr nc : nat) : container :=
  match oT with
  | Some OVec => Vec1D
  | Some OMat => Mat2D
  | None => if Nat.eqb nr 1 || Nat.eqb nc 1 then Vec1D else Mat2D
  end.

(* ------------------------------------------------------------------ token carrier used by the correspondence
   time = grid index (0 = t0, k = k-th requested time), state = the index whose reference solution the
   row carries.  x + (t2 - t1) is a lawful flow on Z, so the theorems apply to this very instance. *)
Definition tokPhi (t1 t2 x : Z) : Z := (x + (t2 - t1))%Z.
Definition grid (n : nat) : list Z := map Z.of_nat (seq 1 n).

(* ------------------------------------------------------------------ correspondence cases
   one case = one call of pygom: the entry point, the grid length, the eigenvalue extremes pygom saw, and for
   every returned row the set of tokens (grid indices) whose reference state the row matches *)
Definition tok_rows (SP : scipy_tbl) (F : step_facts) (W : wrap_facts) (D : dispatch)
                    (e : entry) (n : nat) (e0 : Q * Q) (es : list (Q * Q)) : list Z :=
  run_entry Z Z tokPhi SP F W D e e0 (fun i => nth i es (0, 0)%Q) 0%Z 0%Z (grid n).
Fixpoint match_rows (pred : list Z) (obs : list (list Z)) : bool :=
  match pred, obs with
  | [], [] => true
  | p :: pr, o :: orest => existsb (Z.eqb p) o && match_rows pr orest
  | _, _ => false
  end.
Definition tok_case := (entry * nat * (Q * Q) * list (Q * Q) * list (list Z))%type.
Definition tok_chk (SP : scipy_tbl) (F : step_facts) (W : wrap_facts) (D : dispatch) (c : tok_case) : bool :=
  let '(e, n, e0, es, obs) := c in match_rows (tok_rows SP F W D e n e0 es) obs.
