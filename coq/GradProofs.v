(* C07 — lemmas and proofs about the model in Grad.v (any commutative ring, all nS, nP, observation counts,
   observed-state lists and target lists). *)
From Coq Require Import List Arith Bool ZArith Lia Ring Permutation Sorted.
From PV Require Import Shapes ShapesProofs Grad.
Import ListNotations.

(* ------------------------------------------------------------------ the two loop nests *)
Lemma flat_map_length_const {X Y} (g : X -> list Y) m l :
  (forall x, length (g x) = m) -> length (flat_map g l) = length l * m.
Proof. intros H. induction l as [|x r IH]; simpl; auto. rewrite app_length, H, IH. lia. Qed.

Lemma nest_length so f st il : length (nest so f st il) = length st * length il.
Proof.
  unfold nest. destruct so.
  - apply flat_map_length_const. intros. apply map_length.
  - rewrite (flat_map_length_const _ (length st)) by (intros; apply map_length). lia.
Qed.

(* parameter-major nest: position s + q*|st| holds f st[s] il[q] *)
Lemma nth_nest_major f st il s q : s < length st -> q < length il ->
  nth (s + q * length st) (nest false f st il) 0 = f (nth s st 0) (nth q il 0).
Proof.
  unfold nest. revert q. induction il as [|i r IH]; intros q Hs Hq; simpl in *; [lia|].
  destruct q as [|q].
  - rewrite Nat.add_0_r. rewrite app_nth1 by (rewrite map_length; lia).
    rewrite (nth_indep _ 0 (f 0 i)) by (rewrite map_length; lia).
    apply (map_nth (fun j => f j i)).
  - rewrite app_nth2 by (rewrite map_length; lia). rewrite map_length.
    replace (s + S q * length st - length st) with (s + q * length st) by lia.
    apply IH; lia.
Qed.

Lemma flat_map_cons_perm {X Y} (g : X -> Y) (h : X -> list Y) l :
  Permutation (flat_map (fun i => g i :: h i) l) (map g l ++ flat_map h l).
Proof.
  induction l as [|x r IH]; simpl; auto. constructor.
  etransitivity; [apply Permutation_app_head, IH|]. apply Permutation_app_swap_app.
Qed.

Lemma nest_perm f st il : Permutation (nest true f st il) (nest false f st il).
Proof.
  unfold nest. induction st as [|j r IH]; simpl.
  - induction il; simpl; auto.
  - etransitivity; [apply Permutation_app_head, IH|]. symmetry. apply (flat_map_cons_perm (f j)).
Qed.

(* ------------------------------------------------------------------ np.sort *)
Lemma insert_perm x l : Permutation (insert x l) (x :: l).
Proof.
  induction l as [|y r IH]; simpl; auto. destruct (x <=? y); auto.
  etransitivity; [apply perm_skip, IH|]. apply perm_swap.
Qed.
Lemma isort_perm l : Permutation (isort l) l.
Proof. induction l as [|x r IH]; simpl; auto. etransitivity; [apply insert_perm|]. auto. Qed.
Lemma isort_length l : length (isort l) = length l.
Proof. apply Permutation_length, isort_perm. Qed.

Lemma insert_sorted x l : StronglySorted le l -> StronglySorted le (insert x l).
Proof.
  induction 1 as [|y r Hr IH Hy]; simpl.
  - repeat constructor.
  - destruct (x <=? y) eqn:E.
    + apply Nat.leb_le in E. constructor; [constructor; auto|].
      constructor; auto. eapply Forall_impl; [|exact Hy]. intros; lia.
    + apply Nat.leb_gt in E. constructor; auto.
      eapply Permutation_Forall; [symmetry; apply insert_perm|]. constructor; auto. lia.
Qed.
Lemma isort_sorted l : StronglySorted le (isort l).
Proof. induction l; simpl; [constructor|]. apply insert_sorted; auto. Qed.

Lemma sorted_perm_unique l1 : forall l2, StronglySorted le l1 -> StronglySorted le l2 -> Permutation l1 l2 -> l1 = l2.
Proof.
  induction l1 as [|a r1 IH]; intros l2 H1 H2 P.
  - apply Permutation_nil in P. auto.
  - destruct l2 as [|b r2]; [apply Permutation_sym, Permutation_nil in P; discriminate|].
    inversion H1 as [|? ? Hs1 Ha]; inversion H2 as [|? ? Hs2 Hb]; subst.
    assert (a = b).
    { assert (Ia : In a (b :: r2)) by (eapply Permutation_in; [exact P|left; auto]).
      assert (Ib : In b (a :: r1)) by (eapply Permutation_in; [symmetry; exact P|left; auto]).
      rewrite Forall_forall in Ha, Hb.
      destruct Ia as [|Ia]; auto. destruct Ib as [|Ib]; auto.
      apply Hb in Ia. apply Ha in Ib. lia. }
    subst. f_equal. apply IH; auto. eapply Permutation_cons_inv; eauto.
Qed.

(* sorting any permutation of an already sorted list gives that list *)
Lemma isort_of_perm l l' : StronglySorted le l' -> Permutation l l' -> isort l = l'.
Proof.
  intros Hs P. apply sorted_perm_unique; auto using isort_sorted.
  etransitivity; [apply isort_perm|]. auto.
Qed.

Lemma sorted_app l1 l2 : StronglySorted le l1 -> StronglySorted le l2 ->
  (forall x y, In x l1 -> In y l2 -> x <= y) -> StronglySorted le (l1 ++ l2).
Proof.
  induction 1 as [|a r Hr IH Ha]; intros H2 Hc; simpl; auto.
  constructor.
  - apply IH; auto. intros; apply Hc; simpl; auto.
  - apply Forall_app; split; auto. apply Forall_forall. intros y Hy. apply Hc; simpl; auto.
Qed.

(* strictly increasing lists of indices (declaration order, no repetition) *)
Definition increasing (l : list nat) : Prop := StronglySorted lt l.

Lemma seq_increasing a n : increasing (seq a n).
Proof.
  revert a. induction n; intros a; simpl; constructor; [apply IHn|].
  apply Forall_forall. intros x Hx. apply in_seq in Hx. lia.
Qed.

(* the parameter-major list of j + (i+1+c)*nS is sorted when both index lists are increasing and j < nS *)
Lemma major_sorted nS c st il : increasing st -> increasing il -> (forall j, In j st -> j < nS) ->
  StronglySorted le (nest false (fun j i => j + (i + 1 + c) * nS) st il).
Proof.
  intros Hst Hil Hb. unfold nest. induction Hil as [|i r Hr IH Hi]; simpl; [constructor|].
  apply sorted_app; auto.
  - clear -Hst. induction Hst as [|j r' Hr' IH' Hj]; simpl; constructor; auto.
    apply Forall_forall. intros y Hy. apply in_map_iff in Hy as [j' [<- Hj']].
    rewrite Forall_forall in Hj. apply Hj in Hj'. lia.
  - intros x y Hx Hy. apply in_map_iff in Hx as [j [<- Hj]].
    apply in_flat_map in Hy as [i' [Hi' Hy]]. apply in_map_iff in Hy as [j' [<- Hj']].
    rewrite Forall_forall in Hi. apply Hi in Hi'. apply Hb in Hj. nia.
Qed.

(* whatever the loop order, sorting the collected indices gives the parameter-major list for increasing inputs *)
Lemma fin_nest_increasing nS c sorted so st il :
  (sorted = true \/ so = false) -> increasing st -> increasing il -> (forall j, In j st -> j < nS) ->
  fin sorted (nest so (fun j i => j + (i + 1 + c) * nS) st il) = nest false (fun j i => j + (i + 1 + c) * nS) st il.
Proof.
  intros Hor Hst Hil Hb. unfold fin. destruct sorted.
  - apply isort_of_perm; [apply major_sorted; auto|].
    destruct so; [apply nest_perm|apply Permutation_refl].
  - destruct Hor as [ | -> ]; [discriminate|reflexivity].
Qed.

(* ------------------------------------------------------------------ the index expressions *)
Lemma zidx_psi pexpr nS nP : (forall a b c d, pexpr a b c d = psi_spec a b c d) ->
  forall j i, zidx nS nP pexpr j i = j + (i + 1 + 0) * nS.
Proof.
  intros H j i. unfold zidx. rewrite H. unfold psi_spec.
  destruct (Z.ltb_spec (Z.of_nat j + (Z.of_nat i + 1) * Z.of_nat nS) 0); [lia|].
  apply Nat2Z.inj. rewrite Z2Nat.id by lia. lia.
Qed.
Lemma zidx_ssi sexpr nS nP : (forall a b c d, sexpr a b c d = ssi_spec a b c d) ->
  forall j i, zidx nS nP sexpr j i = j + (i + 1 + nP) * nS.
Proof.
  intros H j i. unfold zidx. rewrite H. unfold ssi_spec.
  destruct (Z.ltb_spec (Z.of_nat j + (Z.of_nat i + 1 + Z.of_nat nP) * Z.of_nat nS) 0); [lia|].
  apply Nat2Z.inj. rewrite Z2Nat.id by lia. lia.
Qed.

Lemma nest_ext so f g st il : (forall j i, f j i = g j i) -> nest so f st il = nest so g st il.
Proof.
  intros H. unfold nest. destruct so; apply flat_map_ext; intros; apply map_ext; intros; apply H.
Qed.

Lemma target_param_index_increasing nP tp :
  match tp with Some l => increasing l | None => True end -> increasing (target_param_index nP tp).
Proof. destruct tp; simpl; auto. intros _. apply seq_increasing. Qed.
Lemma target_state_index_increasing nS ts :
  match ts with Some l => increasing l | None => True end -> increasing (target_state_index nS ts).
Proof. destruct ts; simpl; auto. intros _. apply seq_increasing. Qed.

(* ================================================================== ring part *)
Section GradRing.
  Variables (A : Type) (a0 a1 : A) (add mul sub : A -> A -> A) (opp : A -> A).
  Hypothesis Rth : ring_theory a0 a1 add mul sub opp (@eq A).
  Add Ring Aring2 : Rth.
  Notation sumn := (sumn A a0 add).
  Notation arr := (arr A).

  (* sens_to_grad on X = sol[:, idx] with |idx| = num_s * num_out, F-order reshape:
     entry q = sum_r sum_s dl[r][s] * (sol[r][idx[s + q*num_s]] * w[r][s]) *)
  Lemma sens_to_grad_entry fc num_s num_out (w dl sol : arr) idx :
    g_order fc = OrdF -> 0 < num_s -> length idx = num_s * num_out ->
    vlen (sens_to_grad A a0 add mul fc num_s w dl (cols idx sol)) = num_out /\
    forall q, q < num_out ->
      vget (sens_to_grad A a0 add mul fc num_s w dl (cols idx sol)) q
      = sumn (nr sol) (fun r => sumn num_s (fun s =>
          mul (get dl r s) (mul (get sol r (nth (s + q * num_s) idx 0)) (get w r s)))).
  Proof.
    intros Ho Hs Hl. unfold sens_to_grad, cols; simpl. rewrite Hl.
    assert (Hd : num_s * num_out / num_s = num_out) by (rewrite Nat.mul_comm; apply Nat.div_mul; lia).
    rewrite Hd. split; auto. intros q Hq.
    apply sumn_ext. intros r Hr. apply sumn_ext. intros s Hs'.
    unfold reshape3. rewrite Ho. simpl. rewrite mod_lin', div_lin' by lia. reflexivity.
  Qed.

  Variables (nS nP : nat).

  (* chain rule entry for one block of variables: idx = parameter-major list of st[s] + (il[q] + 1 + c)*nS *)
  Lemma block_entry fc c st il (w dl sol : arr) idx :
    g_order fc = OrdF -> st <> [] ->
    idx = nest false (fun j i => j + (i + 1 + c) * nS) st il ->
    vlen (sens_to_grad A a0 add mul fc (length st) w dl (cols idx sol)) = length il /\
    forall q, q < length il ->
      vget (sens_to_grad A a0 add mul fc (length st) w dl (cols idx sol)) q
      = chain A a0 add mul st w dl (nr sol) (fun r i => get sol r (nS + c * nS + nth q il 0 * nS + i)).
  Proof.
    intros Ho Hne ->.
    assert (Hs : 0 < length st) by (destruct st; simpl; [congruence|lia]).
    destruct (sens_to_grad_entry fc (length st) (length il) w dl sol
                (nest false (fun j i => j + (i + 1 + c) * nS) st il) Ho Hs (nest_length _ _ _ _)) as [Hl He].
    split; auto. intros q Hq. rewrite He by auto. unfold chain.
    apply sumn_ext. intros r Hr. apply sumn_ext. intros s Hs'.
    rewrite nth_nest_major by auto.
    replace (nth s st 0 + (nth q il 0 + 1 + c) * nS) with (nS + c * nS + nth q il 0 * nS + nth s st 0) by lia.
    ring.
  Qed.
End GradRing.

(* ================================================================== the index lists, then the theorems *)
(* facts under which the collected parameter indices come out parameter-major in the supplied orders:
   either nothing re-sorts and the nest is already parameter-major (the repaired code), or the inputs are in
   declaration order and the result is sorted (the pinned code) / already parameter-major *)
Definition psi_cond (fc : gfacts) (nS : nat) (st il : list nat) : Prop :=
  (psi_sorted fc = false /\ psi_state_outer fc = false) \/
  ((psi_sorted fc = true \/ psi_state_outer fc = false) /\ increasing st /\ increasing il /\ forall j, In j st -> j < nS).
Definition ssi_cond (fc : gfacts) (nS : nat) (st il : list nat) : Prop :=
  (ssi_sorted fc = false /\ ssi_state_outer fc = false) \/
  ((ssi_sorted fc = true \/ ssi_state_outer fc = false) /\ increasing st /\ increasing il /\ forall j, In j st -> j < nS).

Lemma psi_major fc pexpr nS nP st tp : (forall a b c d, pexpr a b c d = psi_spec a b c d) ->
  psi_cond fc nS st (target_param_index nP tp) ->
  param_sens_index fc pexpr nS nP st tp = nest false (fun j i => j + (i + 1 + 0) * nS) st (target_param_index nP tp).
Proof.
  intros He Hc. unfold param_sens_index.
  rewrite (nest_ext _ _ _ _ _ (zidx_psi pexpr nS nP He)).
  destruct Hc as [[H1 H2]|[H1 [H2 [H3 H4]]]].
  - rewrite H1, H2. reflexivity.
  - apply fin_nest_increasing; auto.
Qed.

Lemma ssi_major fc sexpr nS nP st ts : (forall a b c d, sexpr a b c d = ssi_spec a b c d) ->
  tsi_wrapped fc && is_some ts = false ->
  ssi_cond fc nS st (target_state_index nS ts) ->
  state_sens_index fc sexpr nS nP st ts
  = Some (nest false (fun j i => j + (i + 1 + nP) * nS) st (target_state_index nS ts)).
Proof.
  intros He Hw Hc. unfold state_sens_index. rewrite Hw. f_equal.
  rewrite (nest_ext _ _ _ _ _ (zidx_ssi sexpr nS nP He)).
  destruct Hc as [[H1 H2]|[H1 [H2 [H3 H4]]]].
  - rewrite H1, H2. reflexivity.
  - apply fin_nest_increasing; auto.
Qed.

Section GradChain.
  Variables (A : Type) (a0 a1 : A) (add mul sub : A -> A -> A) (opp : A -> A).
  Hypothesis Rth : ring_theory a0 a1 add mul sub opp (@eq A).
  Notation arr := (arr A).
  Notation chain := (chain A a0 add mul).

  Lemma chain_ext st (w dl : arr) n f g : (forall r i, f r i = g r i) -> chain st w dl n f = chain st w dl n g.
  Proof. intros H. unfold Grad.chain. apply sumn_ext; intros; apply sumn_ext; intros. rewrite H. reflexivity. Qed.

  Variables (fc : gfacts) (pexpr sexpr : Z -> Z -> Z -> Z -> Z) (nS nP : nat).
  Hypothesis Hord : g_order fc = OrdF.
  Hypothesis Hp : forall a b c d, pexpr a b c d = psi_spec a b c d.
  Hypothesis Hs : forall a b c d, sexpr a b c d = ssi_spec a b c d.

  (* _sensToGradWithoutIndex: entry k is the chain rule sum for the k-th supplied target parameter *)
  Lemma grad_params_chain st tp (w dl sol : arr) : st <> [] ->
    psi_cond fc nS st (target_param_index nP tp) ->
    let g := grad_params A a0 add mul fc pexpr nS nP st tp w dl sol in
    let tpi := target_param_index nP tp in
    vlen g = length tpi /\
    forall k, k < length tpi ->
      vget g k = chain st w dl (nr sol) (fun r i => dx_dtheta nS sol r i (nth k tpi 0)).
  Proof.
    intros Hne Hc. cbv zeta. unfold grad_params. rewrite (psi_major fc pexpr nS nP st tp Hp Hc).
    destruct (block_entry A a0 a1 add mul sub opp Rth nS fc 0 st (target_param_index nP tp) w dl sol _ Hord Hne eq_refl)
      as [Hl He].
    split; auto. intros k Hk. rewrite He by auto. apply chain_ext. intros r i. unfold dx_dtheta. f_equal. lia.
  Qed.

  (* _sensToGradIVWithoutIndex *)
  Lemma grad_states_chain st ts (w dl sol : arr) : st <> [] ->
    tsi_wrapped fc && is_some ts = false ->
    ssi_cond fc nS st (target_state_index nS ts) ->
    let tsi := target_state_index nS ts in
    exists g, grad_states A a0 add mul fc sexpr nS nP st ts w dl sol = Some g /\
    vlen g = length tsi /\
    forall k, k < length tsi ->
      vget g k = chain st w dl (nr sol) (fun r i => dx_dx0 nS nP sol r i (nth k tsi 0)).
  Proof.
    intros Hne Hw Hc. cbv zeta. unfold grad_states. rewrite (ssi_major fc sexpr nS nP st ts Hs Hw Hc).
    eexists; split; [reflexivity|].
    destruct (block_entry A a0 a1 add mul sub opp Rth nS fc nP st (target_state_index nS ts) w dl sol _ Hord Hne eq_refl)
      as [Hl He].
    split; auto. intros k Hk. rewrite He by auto. apply chain_ext. intros r i. unfold dx_dx0. f_equal. lia.
  Qed.

  (* sensitivity(theta) / gradient(theta) *)
  Lemma sensitivity_chain st tp (w : arr) dL (sol : arr) : st <> [] ->
    psi_cond fc nS st (target_param_index nP tp) ->
    let g := sensitivity A a0 add mul fc pexpr nS nP st tp w dL sol in
    let tpi := target_param_index nP tp in
    vlen g = length tpi /\
    forall k, k < length tpi ->
      vget g k = chain st w (dloss A dL st sol) (nr sol) (fun r i => dx_dtheta nS sol r i (nth k tpi 0)).
  Proof. intros. apply grad_params_chain; auto. Qed.

  (* sensitivityIV(theta_and_x0): free parameters first, then free initial values, each in the supplied order *)
  Lemma sensitivityIV_chain st tp ts (w : arr) dL (sol : arr) : st <> [] ->
    tsi_wrapped fc && is_some ts = false ->
    psi_cond fc nS st (target_param_index nP tp) ->
    ssi_cond fc nS st (target_state_index nS ts) ->
    let tpi := target_param_index nP tp in
    let tsi := target_state_index nS ts in
    exists g, sensitivityIV A a0 add mul fc pexpr sexpr nS nP st tp ts w dL sol = Some g /\
    vlen g = length tpi + length tsi /\
    (forall k, k < length tpi ->
       vget g k = chain st w (dloss A dL st sol) (nr sol) (fun r i => dx_dtheta nS sol r i (nth k tpi 0))) /\
    (forall k, k < length tsi ->
       vget g (length tpi + k) = chain st w (dloss A dL st sol) (nr sol) (fun r i => dx_dx0 nS nP sol r i (nth k tsi 0))).
  Proof.
    intros Hne Hw Hc1 Hc2. cbv zeta. unfold sensitivityIV.
    destruct (grad_states_chain st ts w (dloss A dL st sol) sol Hne Hw Hc2) as [gi [Hgi [Hli Hei]]].
    destruct (grad_params_chain st tp w (dloss A dL st sol) sol Hne Hc1) as [Hlp Hep].
    cbv zeta in *. rewrite Hgi. eexists; split; [reflexivity|].
    unfold vapp; cbn [vlen vget]. rewrite Hlp, Hli. split; auto. split.
    - intros k Hk. destruct (Nat.ltb_spec k (length (target_param_index nP tp))); [|lia]. auto.
    - intros k Hk. destruct (Nat.ltb_spec (length (target_param_index nP tp) + k) (length (target_param_index nP tp))); [lia|].
      rewrite add_sub_l. auto.
  Qed.

  (* jac(theta): column s + k*|st| is d x_{st[s]} / d theta_{tp[k]} *)
  Lemma jac_layout st tp (sol : arr) :
    psi_cond fc nS st (target_param_index nP tp) ->
    let M := jac A fc pexpr nS nP st tp sol in
    let tpi := target_param_index nP tp in
    nr M = nr sol /\ nc M = length st * length tpi /\
    forall r s k, s < length st -> k < length tpi ->
      get M r (s + k * length st) = dx_dtheta nS sol r (nth s st 0) (nth k tpi 0).
  Proof.
    intros Hc. cbv zeta. unfold jac. rewrite (psi_major fc pexpr nS nP st tp Hp Hc). unfold cols, take_cols; cbn [nr nc get].
    split; auto. split; [apply nest_length|]. intros r s k Hs' Hk. rewrite nth_nest_major by auto.
    unfold dx_dtheta. f_equal. lia.
  Qed.

End GradChain.

(* the weights: the code multiplies the kernel evaluated on the WEIGHTED residual by the weight once more; for every
   kernel of the form c * (res * w) the contribution is w^2 * (c * res) * S *)
Section Weights.
  Variables (A : Type) (a0 a1 : A) (add mul sub : A -> A -> A) (opp : A -> A).
  Hypothesis Rth : ring_theory a0 a1 add mul sub opp (@eq A).
  Add Ring Aring3 : Rth.
  Lemma weight_square_factor (c res w S : A) :
    mul (mul (mul c (mul res w)) w) S = mul (mul (mul w w) (mul c res)) S.
  Proof. ring. Qed.
End Weights.

(* ================================================================== the conditions from boolean facts *)
Lemma psi_cond_of_order fc nS st il : order_respecting fc = true -> psi_cond fc nS st il.
Proof.
  unfold order_respecting. intros H. repeat (apply andb_prop in H as [H ?]).
  left. split; apply negb_true_iff; assumption.
Qed.
Lemma ssi_cond_of_order fc nS st il : order_respecting fc = true -> ssi_cond fc nS st il.
Proof.
  unfold order_respecting. intros H. repeat (apply andb_prop in H as [H ?]).
  left. split; apply negb_true_iff; assumption.
Qed.
Lemma psi_cond_of_sorted fc nS st il : psi_sorted fc || negb (psi_state_outer fc) = true ->
  increasing st -> increasing il -> (forall j, In j st -> j < nS) -> psi_cond fc nS st il.
Proof.
  intros H H1 H2 H3. right. split; auto. apply orb_true_iff in H as [H|H]; auto. right. apply negb_true_iff; auto.
Qed.
Lemma ssi_cond_of_sorted fc nS st il : ssi_sorted fc || negb (ssi_state_outer fc) = true ->
  increasing st -> increasing il -> (forall j, In j st -> j < nS) -> ssi_cond fc nS st il.
Proof.
  intros H H1 H2 H3. right. split; auto. apply orb_true_iff in H as [H|H]; auto. right. apply negb_true_iff; auto.
Qed.

(* ================================================================== statements in the form used by Props/C07.v *)
Section GradFinal.
  Variables (A : Type) (a0 a1 : A) (add mul sub : A -> A -> A) (opp : A -> A).
  Hypothesis Rth : ring_theory a0 a1 add mul sub opp (@eq A).
  Variables (fc : gfacts) (pexpr sexpr : Z -> Z -> Z -> Z -> Z) (nS nP : nat).
  Hypothesis Hord : g_order fc = OrdF.
  Hypothesis Hp : forall a b c d, pexpr a b c d = psi_spec a b c d.
  Hypothesis Hs : forall a b c d, sexpr a b c d = ssi_spec a b c d.
  Notation arr := (arr A).
  Notation chain := (chain A a0 add mul).

  Definition opt_increasing (o : option (list nat)) : Prop := match o with Some l => increasing l | None => True end.

  (* declaration-ordered inputs, whatever the code does with the order *)
  Lemma sensitivity_sorted : psi_sorted fc || negb (psi_state_outer fc) = true ->
    forall st tp (w : arr) dL (sol : arr),
    st <> [] -> increasing st -> (forall j, In j st -> j < nS) -> opt_increasing tp ->
    let g := sensitivity A a0 add mul fc pexpr nS nP st tp w dL sol in
    let tpi := target_param_index nP tp in
    vlen g = length tpi /\
    forall k, k < length tpi ->
      vget g k = chain st w (dloss A dL st sol) (nr sol) (fun r i => dx_dtheta nS sol r i (nth k tpi 0)).
  Proof.
    intros Hf st tp w dL sol Hne Hst Hb Htp.
    apply (sensitivity_chain A a0 a1 add mul sub opp Rth fc pexpr nS nP Hord Hp st tp w dL sol Hne).
    apply psi_cond_of_sorted; auto. apply target_param_index_increasing; auto.
  Qed.

  Lemma sensitivityIV_sorted :
    psi_sorted fc || negb (psi_state_outer fc) = true -> ssi_sorted fc || negb (ssi_state_outer fc) = true ->
    forall st tp ts (w : arr) dL (sol : arr),
    tsi_wrapped fc && is_some ts = false ->
    st <> [] -> increasing st -> (forall j, In j st -> j < nS) -> opt_increasing tp -> opt_increasing ts ->
    let tpi := target_param_index nP tp in
    let tsi := target_state_index nS ts in
    exists g, sensitivityIV A a0 add mul fc pexpr sexpr nS nP st tp ts w dL sol = Some g /\
    vlen g = length tpi + length tsi /\
    (forall k, k < length tpi ->
       vget g k = chain st w (dloss A dL st sol) (nr sol) (fun r i => dx_dtheta nS sol r i (nth k tpi 0))) /\
    (forall k, k < length tsi ->
       vget g (length tpi + k) = chain st w (dloss A dL st sol) (nr sol) (fun r i => dx_dx0 nS nP sol r i (nth k tsi 0))).
  Proof.
    intros Hf1 Hf2 st tp ts w dL sol Hw Hne Hst Hb Htp Hts.
    apply (sensitivityIV_chain A a0 a1 add mul sub opp Rth fc pexpr sexpr nS nP Hord Hp Hs st tp ts w dL sol Hne Hw).
    - apply psi_cond_of_sorted; auto. apply target_param_index_increasing; auto.
    - apply ssi_cond_of_sorted; auto. apply target_state_index_increasing; auto.
  Qed.

  (* any supplied order: needs code that neither re-sorts nor nests state-major *)
  Hypothesis Hgood : order_respecting fc = true.

  Lemma sensitivity_ordered : forall st tp (w : arr) dL (sol : arr), st <> [] ->
    let g := sensitivity A a0 add mul fc pexpr nS nP st tp w dL sol in
    let tpi := target_param_index nP tp in
    vlen g = length tpi /\
    forall k, k < length tpi ->
      vget g k = chain st w (dloss A dL st sol) (nr sol) (fun r i => dx_dtheta nS sol r i (nth k tpi 0)).
  Proof.
    intros st tp w dL sol Hne.
    apply (sensitivity_chain A a0 a1 add mul sub opp Rth fc pexpr nS nP Hord Hp st tp w dL sol Hne).
    apply psi_cond_of_order; auto.
  Qed.

  Lemma jac_ordered : forall st tp (sol : arr),
    let M := jac A fc pexpr nS nP st tp sol in
    let tpi := target_param_index nP tp in
    nr M = nr sol /\ nc M = length st * length tpi /\
    forall r s k, s < length st -> k < length tpi ->
      get M r (s + k * length st) = dx_dtheta nS sol r (nth s st 0) (nth k tpi 0).
  Proof. intros st tp sol. apply (jac_layout A fc pexpr nS nP Hp). apply psi_cond_of_order; auto. Qed.

  Hypothesis Hflat : tsi_wrapped fc = false.

  Lemma sensitivityIV_ordered : forall st tp ts (w : arr) dL (sol : arr), st <> [] ->
    let tpi := target_param_index nP tp in
    let tsi := target_state_index nS ts in
    exists g, sensitivityIV A a0 add mul fc pexpr sexpr nS nP st tp ts w dL sol = Some g /\
    vlen g = length tpi + length tsi /\
    (forall k, k < length tpi ->
       vget g k = chain st w (dloss A dL st sol) (nr sol) (fun r i => dx_dtheta nS sol r i (nth k tpi 0))) /\
    (forall k, k < length tsi ->
       vget g (length tpi + k) = chain st w (dloss A dL st sol) (nr sol) (fun r i => dx_dx0 nS nP sol r i (nth k tsi 0))).
  Proof.
    intros st tp ts w dL sol Hne.
    apply (sensitivityIV_chain A a0 a1 add mul sub opp Rth fc pexpr sexpr nS nP Hord Hp Hs st tp ts w dL sol Hne).
    - rewrite Hflat. reflexivity.
    - apply psi_cond_of_order; auto.
    - apply ssi_cond_of_order; auto.
  Qed.
End GradFinal.

(* the partial initial-value statement (no target_state) and the target_state failure of the pinned facts *)
Section GradPartialIV.
  Variables (A : Type) (a0 a1 : A) (add mul sub : A -> A -> A) (opp : A -> A).
  Hypothesis Rth : ring_theory a0 a1 add mul sub opp (@eq A).
  Variables (fc : gfacts) (pexpr sexpr : Z -> Z -> Z -> Z -> Z) (nS nP : nat).
  Hypothesis Hord : g_order fc = OrdF.
  Hypothesis Hp : forall a b c d, pexpr a b c d = psi_spec a b c d.
  Hypothesis Hs : forall a b c d, sexpr a b c d = ssi_spec a b c d.
  Hypothesis Hf1 : psi_sorted fc || negb (psi_state_outer fc) = true.
  Hypothesis Hf2 : ssi_sorted fc || negb (ssi_state_outer fc) = true.

  Lemma partial_IV : forall st tp (w : arr A) dL (sol : arr A),
    st <> [] -> increasing st -> (forall j, In j st -> j < nS) -> opt_increasing tp ->
    let tpi := target_param_index nP tp in
    exists g, sensitivityIV A a0 add mul fc pexpr sexpr nS nP st tp None w dL sol = Some g /\
    vlen g = length tpi + nS /\
    (forall k, k < length tpi ->
       vget g k = chain A a0 add mul st w (dloss A dL st sol) (nr sol) (fun r i => dx_dtheta nS sol r i (nth k tpi 0))) /\
    (forall k, k < nS ->
       vget g (length tpi + k) = chain A a0 add mul st w (dloss A dL st sol) (nr sol) (fun r i => dx_dx0 nS nP sol r i k)).
  Proof.
    intros st tp w dL sol Hne Hst Hb Htp.
    destruct (sensitivityIV_sorted A a0 a1 add mul sub opp Rth fc pexpr sexpr nS nP Hord Hp Hs Hf1 Hf2 st tp None w dL sol
                (andb_false_r _) Hne Hst Hb Htp I) as [g [Hg [Hl [H1 H2]]]].
    exists g. simpl in *. rewrite seq_length in *. repeat split; auto.
    intros k Hk. rewrite (H2 k Hk). rewrite seq_nth by auto. reflexivity.
  Qed.
End GradPartialIV.

Lemma target_state_raises : forall (A : Type) a0 add mul pe se nS nP st tp ts w dL sol,
  sensitivityIV A a0 add mul pinned_facts pe se nS nP st tp (Some ts) w dL sol = None /\
  jacIV A pinned_facts pe se nS nP st tp (Some ts) sol = None.
Proof. intros. split; reflexivity. Qed.

Lemma wrapped_false fc (ts : option (list nat)) : tsi_wrapped fc = false -> tsi_wrapped fc && is_some ts = false.
Proof. intros ->. reflexivity. Qed.
