(* C05 — the extracted clock rule (Gen/ClockGen.v, regenerated from the pygom source on every run) assembled into
   the executable configuration of FirstReaction.v and into the real-valued clock of ExpClock.v. *)
From Coq Require Import Reals QArith Qcanon Lra.
From PV Require Import FirstReaction ExpClock Gen.ClockGen.

Definition gen_cfg : cfg :=
  {| guard := clock_guard; rate_arg := clock_rate_arg_Q; scale := rexp_scale_Q;
     sel := fr_select; dtp := fr_dt; tup := cj_time_update |}.

(* what rexp(1, <rate_arg>(r)) hands to numpy as `scale`, as a function of the event rate r *)
Definition gen_scale_R (r : R) : R := rexp_scale_R (clock_rate_arg_R r).
(* the clock of an event of rate r as a function of the uniform behind numpy's standard exponential *)
Definition gen_clock_R (r u : R) : R := clock gen_scale_R r u.

(* closing tactics for the two scale obligations (survive 1.0/rate vs 1/rate, rate*1 ...; fail on rate, rate*rate ...) *)
Ltac close_scale_Q :=
  let r := fresh "r" in let Hr := fresh "Hr" in
  intros r Hr; cbv [gen_cfg FirstReaction.scale FirstReaction.rate_arg rexp_scale_Q clock_rate_arg_Q];
  first [ reflexivity
        | field; intros E; apply (Qclt_not_eq _ _ Hr); symmetry; exact E ].
Ltac close_scale_R :=
  let r := fresh "r" in let Hr := fresh "Hr" in
  intros r Hr; cbv [gen_scale_R rexp_scale_R clock_rate_arg_R]; field; lra.
