(* C05 — exact stochastic simulation samples the continuous-time Markov chain's law.
   Only statements here; proofs live in FirstReactionProofs.v, ExpClockProofs.v, FinalSizeProofs.v.
   Gen.ClockGen is regenerated from utilR/distn.py (rexp), model/stochastic_simulation.py (_newJumpTimes,
   firstReaction, _checkJump) and model/simulate.py (_jump) on every run; ClockTie assembles it. *)
From Coq Require Import List Reals QArith Qcanon.
Set Warnings "-ambiguous-paths".
From Coquelicot Require Import Coquelicot.
From PV Require Import FirstReaction FirstReactionProofs ExpClock ExpClockProofs FinalSize FinalSizeProofs
  Gen.ClockGen ClockTie.
Import ListNotations.

(* ======== part 1: mathematics that does not depend on the extracted facts (stays discharged on a mutated tree) *)

(* ---- CDF 1 - e^{-rs} of a clock of rate r has density r e^{-rs} *)
Theorem C05_density : forall r s : R, is_derive (fun x => 1 - exp (- r * x))%R s (r * exp (- r * s))%R.
Proof. exact density. Qed.
Print Assumptions C05_density.

(* ---- jointly: waiting time Exp(R) and the event that fires is i with probability r_i / R *)
Theorem C05_select : forall (rates : list R) (i : nat) (t : R),
  List.Forall (fun r => 0 < r)%R rates -> (i < length rates)%nat ->
  is_RInt_gen (fires_density rates i) (at_point t) (Rbar_locally p_infty)
              (nth i rates 0 / sumR rates * exp (- sumR rates * t))%R.
Proof. exact select. Qed.
Print Assumptions C05_select.

Theorem C05_select_marginal : forall (rates : list R) (i : nat),
  List.Forall (fun r => 0 < r)%R rates -> (i < length rates)%nat ->
  is_RInt_gen (fires_density rates i) (at_point 0%R) (Rbar_locally p_infty) (nth i rates 0 / sumR rates)%R.
Proof. exact select_marginal. Qed.
Print Assumptions C05_select_marginal.

(* the integrand of C05_select: density of clock i (derivative of its CDF, C05_density / C05_quantile) times the
   volume of the box on which all other clocks exceed s (C05_min_survival applied to the other rates) *)
Theorem C05_fires_density_factors : forall (rates : list R) (i : nat) (s : R),
  fires_density rates i s =
  (Derive (fun x => 1 - exp (- nth i rates 0 * x)) s * volume (survival_box (remove_nth i rates) s))%R.
Proof. exact fires_density_factors. Qed.
Print Assumptions C05_fires_density_factors.

Theorem C05_choice_total : forall rates : list R, sumR rates <> 0%R ->
  sumR (map (fun r => r / sumR rates)%R rates) = 1%R.
Proof. exact choice_total. Qed.
Print Assumptions C05_choice_total.

(* ---- the SIR final-size recursion is a probability law, for all parameters and sizes *)
Theorem C05_final_size_sums_to_1 : forall beta gamma N s0 i0,
  sumQ (law (final_law beta gamma N s0 i0) (S s0)) = 1%Qc.
Proof. exact final_size_sums_to_1. Qed.
Print Assumptions C05_final_size_sums_to_1.

Theorem C05_final_size_absorbed : forall beta gamma N s0 i0,
  List.Forall (fun k => (fst k <= s0)%nat /\ snd k = 0%nat) (keys (final_law beta gamma N s0 i0)).
Proof. exact final_law_absorbed. Qed.
Print Assumptions C05_final_size_absorbed.

(* ======== part 2: statements over the rule extracted from the current source *)

(* ---- the extracted rule IS the construction: clock = std_exp * (1/rate) for rate > 0 (else +oo), one draw
        per positive rate in order, np.argmin (first index on ties), time step = that clock, t_new = t + step *)
Theorem C05_code_facts :
  translator_ok = true /\ fr_jumps_onehot_at_selected = true /\ fr_state_update_at_selected = true /\
  jump_exact_branch_is_first_reaction = true /\
  (forall r, clock_guard r = Qcltb 0%Qc r) /\ fr_select = SelArgmin /\ fr_dt = DtAtSel /\ cj_time_update = TPlusDt.
Proof. vm_compute. repeat split. Qed.
Print Assumptions C05_code_facts.

Theorem C05_scale_Q : forall r : Qc, (0 < r)%Qc -> scale gen_cfg (rate_arg gen_cfg r) = (1 / r)%Qc.
Proof. close_scale_Q. Qed.
Print Assumptions C05_scale_Q.

Theorem C05_scale_R : forall r : R, (0 < r)%R -> gen_scale_R r = (/ r)%R.
Proof. close_scale_R. Qed.
Print Assumptions C05_scale_R.

Theorem C05_code_is_model : agrees gen_cfg.
Proof.
  exact (conj (proj1 (proj2 (proj2 (proj2 (proj2 C05_code_facts)))))
        (conj C05_scale_Q (proj2 (proj2 (proj2 (proj2 (proj2 C05_code_facts))))))).
Qed.
Print Assumptions C05_code_is_model.

(* ---- one step of the code's rule, for all times, rate lists and draw streams: the event that fires has a
        positive rate, its clock is (its own draw)/(its rate), no other clock is smaller, earlier ones are
        strictly larger, and the time advances by exactly that clock *)
Theorem C05_step : forall t rates draws i dt t',
  step gen_cfg t rates draws = Some (i, dt, t') ->
  (exists r e, nth_error rates i = Some r /\ (0 < r)%Qc /\
               nth_error draws (draw_index rates i) = Some e /\ dt = (e / r)%Qc) /\
  nth_error (clocks gen_cfg rates draws) i = Some (Some dt) /\
  (forall j d, nth_error (clocks gen_cfg rates draws) j = Some (Some d) -> (dt <= d)%Qc) /\
  (forall j x, (j < i)%nat -> nth_error (clocks gen_cfg rates draws) j = Some x -> oltb (Some dt) x = true) /\
  t' = (t + dt)%Qc.
Proof. exact (step_agrees_spec gen_cfg C05_code_is_model). Qed.
Print Assumptions C05_step.

Theorem C05_step_defined : forall t rates draws i r,
  nth_error rates i = Some r -> (0 < r)%Qc -> (length (filter positive rates) <= length draws)%nat ->
  exists j dt, step gen_cfg t rates draws = Some (j, dt, (t + dt)%Qc).
Proof. exact (step_agrees_defined gen_cfg C05_code_is_model). Qed.
Print Assumptions C05_step_defined.

(* ---- law of one clock: with U uniform on (0,1), P(T > t) = P(U > 1 - e^{-rt}) = e^{-rt} *)
Theorem C05_quantile : forall r u t : R, (0 < r)%R -> (0 < u < 1)%R ->
  (gen_clock_R r u > t <-> u > 1 - exp (- r * t))%R.
Proof. exact (quantile_scale gen_scale_R C05_scale_R). Qed.
Print Assumptions C05_quantile.

(* ---- waiting time: the event "all clocks > t" is a box inside the unit cube of volume e^{-(sum r) t} *)
Theorem C05_min_survival : forall (rates : list R) (t : R),
  List.Forall (fun r => 0 < r)%R rates -> (0 <= t)%R ->
  (forall us, List.Forall (fun u => 0 < u < 1)%R us ->
     (all_clocks_gt gen_scale_R rates us t <-> in_box (survival_box rates t) us)) /\
  sub_box (survival_box rates t) (unit_cube (length rates)) /\
  volume (survival_box rates t) = exp (- sumR rates * t)%R.
Proof. exact (min_survival_scale gen_scale_R C05_scale_R). Qed.
Print Assumptions C05_min_survival.

