(* C01 — a model definition is assembled into exactly the equations it describes.
   Statements only; proofs in AssemblyProofs.v.  Gen.AssemblyGen is regenerated from the current
   deterministic.py / base_ode_model.py on every run.  A = any commutative ring (rates, magnitudes and
   ODE terms are values: the identities hold identically in states, parameters and time). *)
From Coq Require Import List Arith Ring.
From PV Require Import Assembly AssemblyProofs Reactant ReactantProofs Gen.AssemblyGen.
Import ListNotations.

(* the loops extracted from the current source are the canonical accumulation tables *)
Theorem C01_code_is_model :
  translator_ok = true /\
  ode_table_ok ode_tab ode_res = true /\ oscope_ok ode_scope ode_res = true /\
  vmat_table_ok vmat_tab vmat_res = true /\
  rate_scope_ok rate_scope rate_res = true /\ oscope_ok pure_scope pure_res = true /\
  set_table_ok reactant_tab = true.
Proof. vm_compute. repeat split. Qed.

(* get_ReactantMatrix, as extracted: lambda[i][j] = 1 exactly when state i takes part in a transition of event j *)
Theorem C01_reactant_assembled : forall (A : Type) (evs : list (event A)) i j,
  reactant A reactant_tab evs i j = match nth_error evs j with Some e => involved A e i | None => false end.
Proof. intros A. exact (set_table_sound A reactant_tab eq_refl). Qed.
Print Assumptions C01_reactant_assembled.

Section Ring.
  Variables (A : Type) (a0 a1 : A) (add mul sub : A -> A -> A) (opp : A -> A).
  Hypothesis Rth : ring_theory a0 a1 add mul sub opp (@eq A).

  (* get_ode_eqn, as extracted, returns for state i: sum over events of rate x net signed magnitude + explicit terms *)
  Theorem C01_ode_assembled : forall (m : model A) i,
    code_ode A a0 a1 add mul opp ode_tab ode_scope ode_res m i = ode_vec A a0 a1 add mul sub opp m i.
  Proof. exact (code_ode_sound A a0 a1 add mul sub opp Rth ode_tab ode_scope ode_res eq_refl eq_refl). Qed.

  (* get_StateChangeMatrix, as extracted: entry (i,j) = sum over the transitions of event j of sgn x magnitude *)
  Theorem C01_vmat_assembled : forall (m : model A) i j,
    result A a0 a1 add mul opp vmat_tab vmat_res (events m) i j = vmat A a0 a1 add mul sub opp m i j.
  Proof. exact (vmat_table_sound A a0 a1 add mul sub opp Rth vmat_tab vmat_res eq_refl). Qed.

  Theorem C01_vmat_entry : forall (m : model A) i j e, nth_error (events m) j = Some e ->
    vmat A a0 a1 add mul sub opp m i j
    = Assembly.sum A a0 add (map (fun tr => mul (sgn A a0 a1 sub opp tr i) (mag tr)) (trans e)).
  Proof. exact (vmat_entry A a0 a1 add mul sub opp). Qed.

  (* get_EventRateVector / get_pureOdeVector loops *)
  Theorem C01_rate_assembled : forall (m : model A) j, run_rate A a0 (events m) j = rate_vec A a0 m j.
  Proof. exact (run_rate_sound A a0). Qed.
  Theorem C01_pure_assembled : forall (m : model A) i,
    oresult A a0 a1 add opp pure_scope pure_res (odes m) i = pure_vec A a0 a1 add mul m i.
  Proof. exact (oscope_sound A a0 a1 add mul sub opp Rth pure_scope pure_res eq_refl). Qed.

  (* ODE = state-change matrix x rate vector + explicit terms, for every model of any size *)
  Theorem C01_decomposition : forall (m : model A) i,
    ode_vec A a0 a1 add mul sub opp m i
    = add (Assembly.sum A a0 add
             (map (fun j => mul (vmat A a0 a1 add mul sub opp m i j) (rate_vec A a0 m j)) (seq 0 (length (events m)))))
          (pure_vec A a0 a1 add mul m i).
  Proof. exact (decomposition A a0 a1 add mul sub opp Rth). Qed.
End Ring.
Print Assumptions C01_ode_assembled.
Print Assumptions C01_vmat_assembled.
Print Assumptions C01_vmat_entry.
Print Assumptions C01_rate_assembled.
Print Assumptions C01_pure_assembled.
Print Assumptions C01_decomposition.
