(* C13 — sensitivity systems are the variational equations of the model.
   Only statements here; proofs live in SensProofs.v.  Gen.SensGen is regenerated from
   $PYGOM_REPO/src/pygom/model/{deterministic.py, ode_utils/__init__.py} on every run: code_facts holds the
   reshape orders / dot operand orders / transposes / kron operand orders read from the source, and
   arrange / perm_cols / relayout describe the by_state re-arrangement of ode_and_sensitivity_jacobian.
   A statement about `code_facts` type-checks only when the extracted facts are the good ones.

   Tensors: f (nS), J (nS x nS), G (nS x nP), DJ ((nS*nS) x nS, row i*nS+a col b = d2 f_i/dx_a dx_b),
   GJ ((nS*nP) x nS, row k*nS+i col j = d G[i][k]/dx_j); z = x ++ sensitivities.  All theorems are for an
   arbitrary commutative ring and all nS, nP (the right-hand-side theorems do not even use the ring laws:
   after the Section closes they are quantified over A, a0, add, mul only). *)
From Coq Require Import List Arith ZArith Ring.
From PV Require Import Shapes Sens SensProofs Gen.SensGen.
Import ListNotations.

Section C13.
  Variables (A : Type) (a0 a1 : A) (add mul sub : A -> A -> A) (opp : A -> A).
  Hypothesis Rth : ring_theory a0 a1 add mul sub opp (@eq A).
  Variables (nS nP : nat) (f : vec A) (J G DJ GJ : arr A).

  (* ode_and_sensitivity(z, t) = f ++ vecF(J matF(s) + G): component nS + j*nS + i is (J S + G)[i][j]
     where S[l][j] = z[nS + j*nS + l] (default layout: by parameter) *)
  Theorem C13_rhs : forall z, shapes_ok A nS nP f J G DJ GJ -> vlen z = nS + nS * nP ->
    let out := ode_and_sensitivity A a0 add mul code_facts nS nP f J G z false in
    vlen out = nS + nS * nP /\
    (forall k, k < nS -> vget out k = vget f k) /\
    (forall i j, i < nS -> j < nP -> vget out (nS + j * nS + i) = rhs_S A a0 add mul nS J G (S_par nS z) i j).
  Proof. exact (rhs_default A a0 add mul nS nP f J G DJ GJ). Qed.

  (* by_state=True: component nS + i*nP + j is (J S + G)[i][j] where S[l][j] = z[nS + l*nP + j] *)
  Theorem C13_rhs_bystate : forall z, shapes_ok A nS nP f J G DJ GJ -> vlen z = nS + nS * nP ->
    let out := ode_and_sensitivity A a0 add mul code_facts nS nP f J G z true in
    vlen out = nS + nS * nP /\
    (forall k, k < nS -> vget out k = vget f k) /\
    (forall i j, i < nS -> j < nP -> vget out (nS + i * nP + j) = rhs_S A a0 add mul nS J G (S_st nS nP z) i j).
  Proof. exact (rhs_bystate A a0 add mul nS nP f J G DJ GJ). Qed.

  (* ode_and_sensitivityIV(z, t) = f ++ vecF(J S + G) ++ vecF(J S0), S0[l][j] = z[nS + nS*nP + j*nS + l];
     nP = 0 included *)
  Theorem C13_rhs_IV : forall z, shapes_ok A nS nP f J G DJ GJ -> vlen z = nS + nS * nP + nS * nS ->
    let out := ode_and_sensitivityIV A a0 add mul code_facts nS nP f J G z in
    vlen out = nS + nS * nP + nS * nS /\
    (forall k, k < nS -> vget out k = vget f k) /\
    (forall i j, i < nS -> j < nP -> vget out (nS + j * nS + i) = rhs_S A a0 add mul nS J G (S_par nS z) i j) /\
    (forall i j, i < nS -> j < nS ->
       vget out (nS + nS * nP + j * nS + i) = rhs_S0 A a0 add mul nS J (S_iv nS nP z) i j).
  Proof. exact (rhs_IV A a0 add mul nS nP f J G DJ GJ). Qed.

  (* every entry of ode_and_sensitivity_jacobian(z, t) (default arrangement) is the formal partial derivative
     of the corresponding right-hand-side component with respect to the corresponding variable:
       d f_i/dx_m = J[i][m];   d f_i/dS = 0;
       d(JS+G)[i][j]/dx_m = sum_l DJ[i*nS+l][m] S[l][j] + GJ[j*nS+i][m];
       d(JS+G)[i][j]/dS[l][j'] = J[i][l] if j = j' else 0 *)
  Theorem C13_jac_entry : forall z, shapes_ok A nS nP f J G DJ GJ -> DJ_symmetric A nS DJ ->
    vlen z = nS + nS * nP ->
    let M := ode_and_sensitivity_jacobian A a0 a1 add mul code_facts nS nP arrange perm_cols relayout J DJ GJ z false in
    nr M = nS + nS * nP /\ nc M = nS + nS * nP /\
    (forall i m, i < nS -> m < nS -> get M i m = get J i m) /\
    (forall i q, i < nS -> q < nS * nP -> get M i (nS + q) = a0) /\
    (forall i j m, i < nS -> j < nP -> m < nS ->
       get M (nS + j * nS + i) m = dS_dx A a0 add mul nS DJ GJ (S_par nS z) i j m) /\
    (forall i j l j', i < nS -> j < nP -> l < nS -> j' < nP ->
       get M (nS + j * nS + i) (nS + j' * nS + l) = if j =? j' then get J i l else a0).
  Proof. exact (jac_default A a0 a1 add mul sub opp Rth nS nP f J G DJ GJ arrange perm_cols relayout). Qed.

  (* the same for ode_and_sensitivityIV_jacobian(z, t): nine blocks; nP = 0 included *)
  Theorem C13_jac_entry_IV : forall z, shapes_ok A nS nP f J G DJ GJ -> DJ_symmetric A nS DJ ->
    vlen z = nS + nS * nP + nS * nS ->
    let M := ode_and_sensitivityIV_jacobian A a0 a1 add mul code_facts nS nP J DJ GJ z in
    let N := nS + nS * nP + nS * nS in
    nr M = N /\ nc M = N /\
    (forall i m, i < nS -> m < nS -> get M i m = get J i m) /\
    (forall i q, i < nS -> q < nS * nP + nS * nS -> get M i (nS + q) = a0) /\
    (forall i j m, i < nS -> j < nP -> m < nS ->
       get M (nS + j * nS + i) m = dS_dx A a0 add mul nS DJ GJ (S_par nS z) i j m) /\
    (forall i j l j', i < nS -> j < nP -> l < nS -> j' < nP ->
       get M (nS + j * nS + i) (nS + j' * nS + l) = if j =? j' then get J i l else a0) /\
    (forall i j q, i < nS -> j < nP -> q < nS * nS -> get M (nS + j * nS + i) (nS + nS * nP + q) = a0) /\
    (forall i j m, i < nS -> j < nS -> m < nS ->
       get M (nS + nS * nP + j * nS + i) m = dS0_dx A a0 add mul nS DJ (S_iv nS nP z) i j m) /\
    (forall i j q, i < nS -> j < nS -> q < nS * nP -> get M (nS + nS * nP + j * nS + i) (nS + q) = a0) /\
    (forall i j l j', i < nS -> j < nS -> l < nS -> j' < nS ->
       get M (nS + nS * nP + j * nS + i) (nS + nS * nP + j' * nS + l) = if j =? j' then get J i l else a0).
  Proof. exact (jac_IV A a0 a1 add mul sub opp Rth nS nP f J G DJ GJ). Qed.
End C13.
Print Assumptions C13_rhs.
Print Assumptions C13_rhs_bystate.
Print Assumptions C13_rhs_IV.
Print Assumptions C13_jac_entry.
Print Assumptions C13_jac_entry_IV.

(* the structured indices used above reach every component of the sensitivity blocks *)
Theorem C13_layouts_cover : forall nS nP q, q < nS * nP ->
  (exists i j, i < nS /\ j < nP /\ q = j * nS + i) /\ (exists i j, i < nS /\ j < nP /\ q = i * nP + j).
Proof. exact (fun nS nP q H => conj (idx_decomp_par nS nP q H) (idx_decomp_st nS nP q H)). Qed.
Print Assumptions C13_layouts_cover.

(* the hypotheses are met by a concrete 3-state 2-parameter instance over Z *)
Theorem C13_hypotheses_satisfiable :
  shapes_ok Z 3 2 Witness.wf Witness.wJ Witness.wG Witness.wDJ Witness.wGJ /\ DJ_symmetric Z 3 Witness.wDJ /\
  vlen Witness.wz = 3 + 3 * 2.
Proof. exact (conj Witness.w_shapes (conj Witness.w_sym Witness.w_len)). Qed.
Print Assumptions C13_hypotheses_satisfiable.

(* by_state=True Jacobian as coded on the pinned tree (arrangeVector of 76dc926..cd39b4d applied to the rows
   only, sensitivities read in the default layout) is NOT the derivative: 3 states, 2 parameters, entry
   d(JS+G)[0][1]/dx_0 and entry d(JS+G)[0][1]/dS[1][1]; for nS = nP = 2 the index array [0;1;1;2] is not a
   permutation; for nS = 3, nP = 1 it leaves the array (numpy raises IndexError) *)
Theorem C13_bystate_refuted :
  get Witness.M_pinned (3 + 0 * 2 + 1) 0 <> dS_dx Z 0%Z Z.add Z.mul 3 Witness.wDJ Witness.wGJ (S_st 3 2 Witness.wz) 0 1 0 /\
  get Witness.M_pinned (3 + 0 * 2 + 1) (3 + 1 * 2 + 1) <> get Witness.wJ 0 1 /\
  map (arrange_pinned 2 2) (seq 0 4) = [0; 1; 1; 2] /\
  arrange_in_range 3 1 arrange_pinned = false /\
  map (fun k => arrange_pinned 3 2 (arrange_spec 3 2 k)) (seq 0 6) = seq 0 6.
Proof.
  exact (conj Witness.bystate_refuted (conj Witness.bystate_refuted_block (conj Witness.bystate_refuted_square
        (conj Witness.bystate_raises Witness.pinned_is_inverse_of_spec)))).
Qed.
Print Assumptions C13_bystate_refuted.

(* ---- obligations on the facts extracted from the current source ---- *)
(* everything but the by_state re-arrangement: the translator recognised every anchored statement, the np.bmat
   block layouts and the layouts of grad_jacobian / diff_jacobian are the canonical ones, and the reshape orders,
   dot operand orders, transposes and kron operand orders are the good ones *)
Theorem C13_code_facts : translator_ok = true /\ structure_ok = true /\ code_facts = good_facts.
Proof. vm_compute. repeat split. Qed.
Print Assumptions C13_code_facts.

(* by_state=True (fails on the pinned tree 76dc926..cd39b4d): the kron block is re-indexed on both axes and the
   sensitivities are brought to the default layout before sens_jacobian_state is evaluated *)
Theorem C13_bystate_facts : perm_cols = true /\ relayout = true.
Proof. vm_compute. repeat split. Qed.
Print Assumptions C13_bystate_facts.

(* the extracted arrangeVector loop computes, for every nS, nP, the permutation the by_state layout needs *)
Theorem C13_arrange_good : forall nS nP, arrange_good nS nP arrange.
Proof. arrange_tac. Qed.
Print Assumptions C13_arrange_good.

(* full statement for by_state=True: every entry of ode_and_sensitivity_jacobian(z, t, by_state=True) is the
   formal partial derivative in the by_state layout (rows and columns nS + i*nP + j) *)
Theorem C13_jac_entry_bystate :
  forall (A : Type) (a0 a1 : A) (add mul sub : A -> A -> A) (opp : A -> A)
         (Rth : ring_theory a0 a1 add mul sub opp (@eq A))
         (nS nP : nat) (f : vec A) (J G DJ GJ : arr A) (z : vec A),
    shapes_ok A nS nP f J G DJ GJ -> DJ_symmetric A nS DJ -> vlen z = nS + nS * nP ->
    let M := ode_and_sensitivity_jacobian A a0 a1 add mul code_facts nS nP arrange perm_cols relayout J DJ GJ z true in
    nr M = nS + nS * nP /\ nc M = nS + nS * nP /\
    (forall i m, i < nS -> m < nS -> get M i m = get J i m) /\
    (forall i q, i < nS -> q < nS * nP -> get M i (nS + q) = a0) /\
    (forall i j m, i < nS -> j < nP -> m < nS ->
       get M (nS + i * nP + j) m = dS_dx A a0 add mul nS DJ GJ (S_st nS nP z) i j m) /\
    (forall i j l j', i < nS -> j < nP -> l < nS -> j' < nP ->
       get M (nS + i * nP + j) (nS + l * nP + j') = if j =? j' then get J i l else a0).
Proof.
  exact (fun A a0 a1 add mul sub opp Rth nS nP f J G DJ GJ z =>
           jac_bystate A a0 a1 add mul sub opp Rth nS nP f J G DJ GJ arrange z (C13_arrange_good nS nP)).
Qed.
Print Assumptions C13_jac_entry_bystate.

(* ---- over the reals: the formal partial derivatives above are derivatives (Coquelicot is_derive) of the sensitivity
        right-hand side, given that DJ / GJ hold the state-derivatives of J / G in pygom's layouts (C03's statement) *)
From Coq Require Import Reals.
From Coquelicot Require Import Coquelicot.
From PV Require Import ExprProofs SensReal.
Theorem C13_real_dx : forall nS (Jx Gx DJx GJx : (nat -> R) -> arr R),
  (forall x i l m, is_derive (fun v => get (Jx (upd x m v)) i l) (x m) (get (DJx x) (i * nS + l) m)) ->
  (forall x i j m, is_derive (fun v => get (Gx (upd x m v)) i j) (x m) (get (GJx x) (j * nS + i) m)) ->
  forall (S : nat -> nat -> R) x i j m,
    is_derive (fun v => rhs_S R 0%R Rplus Rmult nS (Jx (upd x m v)) (Gx (upd x m v)) S i j) (x m)
              (dS_dx R 0%R Rplus Rmult nS (DJx x) (GJx x) S i j m).
Proof. exact rhs_S_dx. Qed.
Theorem C13_real_dS : forall nS (Jx Gx : (nat -> R) -> arr R) (S : nat -> nat -> R) x i j l' j', (l' < nS)%nat ->
  is_derive (fun v => rhs_S R 0%R Rplus Rmult nS (Jx x) (Gx x) (updS S l' j' v) i j) (S l' j')
            (if Nat.eqb j j' then get (Jx x) i l' else 0%R).
Proof. intros nS Jx Gx. exact (rhs_S_dS nS Jx Gx). Qed.
Print Assumptions C13_real_dx.
Print Assumptions C13_real_dS.
