(* C02 — deterministic solvers return the ODE solution at each requested time.
   Only statements here; proofs live in IntegrateProofs.v.  Gen.IntegrateGen is regenerated on every run
   from /repo/src/pygom/model/{ode_utils/__init__,deterministic,simulate}.py and from the installed scipy
   (which integrators overwrite their output buffer).  The flow Phi of the model's ODE, the eigenvalue
   oracle (e0, es) and scipy's steppers are Section variables / arguments, never axioms. *)
From Coq Require Import List String QArith ZArith.
From PV Require Import Integrate IntegrateProofs Gen.IntegrateGen.
Import ListNotations.

(* per-run obligation: the translator recognised every anchored function and the extracted wiring is the
   documented one (solver tolerances at most 1e-8, Jacobian evaluator registered as a matrix) *)
Theorem C02_code_facts :
  translator_ok = true
  /\ Qle_bool solver_atol (1 # 100000000) = true /\ Qle_bool solver_rtol (1 # 100000000) = true
  /\ settime_prepends wraps = true /\ i2_skip wraps = 1%nat /\ i2_origin wraps = true.
Proof. vm_compute. repeat split. Qed.

(* per-run obligation: with the extracted alias/copy facts and the measured scipy table no appended row can
   be overwritten, for every documented entry point x method x full_output x includeOrigin *)
Theorem C02_configs_safe :
  forallb (entry_ok scipy steps wraps disp) documented_entries = true.
Proof. vm_compute. reflexivity. Qed.

(* ... and this does not depend on WHICH scipy integrators reuse their buffer, only on
   set_initial_value copying its argument *)
Theorem C02_configs_safe_any_inplace : forall SP, setiv_copies SP = true ->
  forallb (entry_ok SP steps wraps disp) documented_entries = true.
Proof. apply any_inplace_sound. vm_compute. reflexivity. Qed.
Print Assumptions C02_configs_safe_any_inplace.

(* integrateFuncJac: any flow, any grid length, any integrator choices along the way *)
Theorem C02_rows :
  forall (vec time : Type) (Phi : time -> time -> vec -> vec),
    (forall t x, Phi t t x = x) ->
    (forall t0 t1 t2 x, Phi t1 t2 (Phi t0 t1 x) = Phi t0 t2 x) ->
  forall SP F origin full kind0, copy_or_fresh SP F origin full kind0 = true ->
  forall picks x0 t0 ts,
    read (run_funcjac vec time Phi SP F origin full kind0 picks x0 t0 ts)
    = (if origin then [x0] else []) ++ map (fun t => Phi t0 t x0) ts.
Proof. intros vec time Phi Hr Ht. exact (funcjac_rows vec time Phi Hr Ht). Qed.
Print Assumptions C02_rows.

Theorem C02_len :
  forall (vec time : Type) (Phi : time -> time -> vec -> vec),
    (forall t x, Phi t t x = x) ->
    (forall t0 t1 t2 x, Phi t1 t2 (Phi t0 t1 x) = Phi t0 t2 x) ->
  forall SP F origin full kind0, copy_or_fresh SP F origin full kind0 = true ->
  forall picks x0 t0 ts,
    List.length (read (run_funcjac vec time Phi SP F origin full kind0 picks x0 t0 ts))
    = ((if origin then 1 else 0) + List.length ts)%nat.
Proof. intros vec time Phi Hr Ht. exact (funcjac_len vec time Phi Hr Ht). Qed.
Print Assumptions C02_len.

(* every documented entry point of the CURRENT source (integrate, solve_determ, integrate2, integrateFuncJac;
   each method; with and without full output / origin): one row per requested time, in order, preceded by
   x0 where the origin is included, each row the flow of the ODE at that time *)
Theorem C02_entries :
  forall (vec time : Type) (Phi : time -> time -> vec -> vec),
    (forall t x, Phi t t x = x) ->
    (forall t0 t1 t2 x, Phi t1 t2 (Phi t0 t1 x) = Phi t0 t2 x) ->
  forall e, In e documented_entries ->
  forall e0 es x0 t0 ts,
    run_entry vec time Phi scipy steps wraps disp e e0 es x0 t0 ts
    = (if includes_origin e then [x0] else []) ++ map (fun t => Phi t0 t x0) ts.
Proof. intros vec time Phi Hr Ht. exact (entries_rows vec time Phi Hr Ht scipy steps wraps disp C02_configs_safe). Qed.
Print Assumptions C02_entries.

(* _setIntegrateTime + odeint / integrateFuncJac(includeOrigin=True): rows = 1 + |t| *)
Theorem C02_settime :
  forall (vec time : Type) (Phi : time -> time -> vec -> vec),
    (forall t x, Phi t t x = x) ->
    (forall t0 t1 t2 x, Phi t1 t2 (Phi t0 t1 x) = Phi t0 t2 x) ->
  forall e, In e documented_entries -> includes_origin e = true ->
  forall e0 es x0 t0 ts,
    List.length (run_entry vec time Phi scipy steps wraps disp e e0 es x0 t0 ts) = S (List.length ts).
Proof.
  intros vec time Phi Hr Ht e He Ho e0 es x0 t0 ts.
  rewrite (entries_rows vec time Phi Hr Ht scipy steps wraps disp C02_configs_safe e He), Ho.
  simpl. rewrite map_length. reflexivity.
Qed.
Print Assumptions C02_settime.

(* every documented method string reaches the scipy integrator it names, every name the eigenvalue rule can
   produce is configured (never the silent default), and so is the default of the plain branch *)
Theorem C02_method_total :
  (forall m k, In (m, k) documented_dispatch -> setup_kind (d_table disp) (d_default disp) m = k)
  /\ (forall maxE minE, exists k, lookup (d_table disp) (eval_tree (d_eig disp) maxE minE) = Some k)
  /\ (exists k, lookup (d_table disp) (d_plain_default disp) = Some k).
Proof. apply dispatch_sound. vm_compute. reflexivity. Qed.
Print Assumptions C02_method_total.

(* the Jacobian evaluator handed to scipy / np.linalg.eig is 2-D for every number of states, also one *)
Theorem C02_jacobian_2d : forall n, container_of jacobian_outtype n n = Mat2D.
Proof. intros n. reflexivity. Qed.
Print Assumptions C02_jacobian_2d.

(* the hypotheses above are satisfiable: a lawful flow (the token carrier the correspondence runs on) and a
   safe configuration in which the integrator DOES overwrite its buffer *)
Theorem C02_hypotheses_satisfiable :
  (forall t x, tokPhi t t x = x) /\ (forall t0 t1 t2 x, tokPhi t1 t2 (tokPhi t0 t1 x) = tokPhi t0 t2 x)
  /\ copy_or_fresh scipy_lsoda_inplace facts_copy true false Lsoda = true
  /\ read (run_funcjac Z Z tokPhi scipy_lsoda_inplace facts_copy true false Lsoda (fun _ => Lsoda) 0 0 [1; 2; 3])%Z
     = [0; 1; 2; 3]%Z.
Proof. exact (conj tokPhi_refl (conj tokPhi_trans copy_or_fresh_example)). Qed.
Print Assumptions C02_hypotheses_satisfiable.

(* the un-copied aliasing integrator violates the statement (2-point grid; replayed on pygom by the harness) *)
Theorem C02_alias_refuted :
  read (run_funcjac Z Z tokPhi scipy_lsoda_inplace facts_alias false false Lsoda (fun _ => Lsoda) 0 0 [1; 2])%Z
  <> ([] ++ map (fun t => tokPhi 0 t 0) [1; 2])%Z.
Proof. exact (proj2 alias_refuted). Qed.
Print Assumptions C02_alias_refuted.

(* without an outType the 1x1 Jacobian of a one-state model collapses to a vector *)
Theorem C02_jacobian_collapse_refuted : container_of None 1 1 <> Mat2D.
Proof. rewrite container_none_refuted. discriminate. Qed.
Print Assumptions C02_jacobian_collapse_refuted.
