(* C11 — declared state limits are never violated in stochastic simulation. *)
From Coq Require Import List ZArith QArith Qcanon.
From PV Require Import Stoch StochProofs StochTie Gen.StochGen.
Import ListNotations.
Open Scope Qc_scope.

Notation gloop := (loop gen_failed_one reject_keeps accept_adds_dt update_plus clock_guard_positive argmin_first).
Notation gcheck := (check_jump gen_failed_one reject_keeps accept_adds_dt).

Theorem C11_code_facts : translator_ok = true /\ reject_keeps = true /\ accept_adds_dt = true.
Proof. vm_compute. repeat split. Qed.

(* the per-state test extracted from _checkJump: not failed => lower <= x <= upper for every declared bound *)
Theorem C11_limit_test : forall lo hi v, gen_failed_one lo hi v = false -> in_range lo hi v.
Proof. exact gen_failed_one_spec. Qed.

(* a step that would leave the limits is not taken: state and time unchanged *)
Theorem C11_reject : forall x xnew ls t dt n t' x' n',
  gcheck x xnew ls t dt n = (t', x', n', false) -> x' = x /\ t' = t.
Proof. exact (reject_unchanged gen_failed_one). Qed.

Theorem C11_accept : forall x xnew ls t dt n t' x' n',
  gcheck x xnew ls t dt n = (t', x', n', true) -> x' = xnew /\ within ls x' /\ t' = t + dt.
Proof. exact (accept_within gen_failed_one gen_failed_one_spec). Qed.

(* every recorded state of every path (exact, tau-leap, tau with first-reaction fallback; any tau policy, any
   magnitudes, any schedule) is within the limits of every state that declares them *)
Theorem C11_path : forall c T s x t, Forall sstep_ok s -> all_within (lims c) (fst (gloop c T x t s)).
Proof. intros c T s x t Hs. eapply chain_within. apply (loop_walk gen_failed_one gen_failed_one_spec c T s x t Hs). Qed.
(* ... and with NO hypothesis on the schedule at all (arbitrary rates, clocks, tau, counts and any deterministic drift of
   explicit ODE terms): whatever is recorded passed the limit test *)
Theorem C11_path_any : forall c T s x t, all_within (lims c) (fst (gloop c T x t s)).
Proof. exact (loop_within gen_failed_one gen_failed_one_spec). Qed.
Print Assumptions C11_path_any.
Print Assumptions C11_path.
Print Assumptions C11_reject.
