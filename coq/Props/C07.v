(* C07 — the gradient handed to optimisers is the derivative of cost.
   Only statements here; proofs live in GradProofs.v / GradReal.v.  Gen.GradGen is regenerated from
   $PYGOM_REPO/src/pygom/loss/{base_loss.py, loss_type.py} and model/base_ode_model.py on every run:
     code_facts           does _getTargetParamSensIndex / _getTargetStateSensIndex re-sort the collected columns, which
                          loop is the outer one, does _getTargetStateIndex collect ints or one-element lists, the order
                          of the reshape in sens_to_grad
     psi_expr, ssi_expr   the integer index expressions  j + (i + 1) * nS   and   j + (i + 1 + nP) * nS
     dl_*, loss_*         diff_loss of the five loss classes and loss of Square / Normal as per-observation functions
   A statement about `code_facts` type-checks only when the extracted facts have the values it needs.

   Notation: st = declaration indices of state_name in the order supplied; tp / ts = those of target_param /
   target_state in the order supplied (None = not given); sol = integrator output, row r = observation time r,
   column i < nS = x_i, column nS + j*nS + i = d x_i/d theta_j, column nS + nS*nP + j*nS + i = d x_i/d x0_j (the
   layouts proved in Props/C13.v); w = weights (n x |st|); dL r s = the kernel diff_loss applies to prediction (r, s).
   chain st w dl n D = sum_{r<n} sum_{s<|st|} dl[r][s] * w[r][s] * D r st[s]. *)
From Coq Require Import List Arith ZArith Ring Reals Lra.
Set Warnings "-ambiguous-paths".
From Coquelicot Require Import Coquelicot.
From PV Require Import Shapes Grad GradProofs GradCases GradReal Gen.GradGen.
Import ListNotations.
Open Scope nat_scope.

(* ---- obligations on the facts extracted from the current source (hold on the pinned and on the repaired tree) ---- *)
(* the translator recognised every anchored statement; the reshape in sens_to_grad is (n, num_s, num_out) in F order;
   the weights multiply every [:, :, j] slice; every kernel that uses yhat outside residual() ravels a single column;
   diff_loss is evaluated on the weighted residual; the cost of the three count losses does not mention the weights *)
Theorem C07_code_facts :
  translator_ok = true /\ structure_ok = true /\ g_order code_facts = OrdF /\ single_column_ravelled = true /\
  diff_loss_uses_weighted_residual = true /\ count_losses_cost_uses_weights = false.
Proof. vm_compute. repeat split. Qed.
Print Assumptions C07_code_facts.

(* the extracted index expressions are  j + (i + 1) * nS  and  j + (i + 1 + nP) * nS  for all arguments *)
Theorem C07_index_exprs :
  (forall nS nP j i, psi_expr nS nP j i = psi_spec nS nP j i) /\
  (forall nS nP j i, ssi_expr nS nP j i = ssi_spec nS nP j i).
Proof. split; intros; unfold psi_expr, ssi_expr, psi_spec, ssi_spec; ring. Qed.
Print Assumptions C07_index_exprs.

(* the collected columns are either re-sorted or already one block per target (never state-major and unsorted) *)
Theorem C07_sorted_or_major :
  ((psi_sorted code_facts || negb (psi_state_outer code_facts))%bool = true) /\
  ((ssi_sorted code_facts || negb (ssi_state_outer code_facts))%bool = true).
Proof. vm_compute. split; reflexivity. Qed.
Print Assumptions C07_sorted_or_major.

Section C07.
  Variables (A : Type) (a0 a1 : A) (add mul sub : A -> A -> A) (opp : A -> A).
  Hypothesis Rth : ring_theory a0 a1 add mul sub opp (@eq A).
  Variables (nS nP : nat).

  (* sens_to_grad(sol[:, idx], dl) for ANY index list of length num_s * num_out:
     entry q = sum_r sum_s dl[r][s] * (sol[r][idx[s + q*num_s]] * w[r][s]) *)
  Theorem C07_sens_to_grad : forall num_s num_out (w dl sol : arr A) idx,
    0 < num_s -> length idx = num_s * num_out ->
    vlen (sens_to_grad A a0 add mul code_facts num_s w dl (cols idx sol)) = num_out /\
    forall q, q < num_out ->
      vget (sens_to_grad A a0 add mul code_facts num_s w dl (cols idx sol)) q
      = sumn A a0 add (nr sol) (fun r => sumn A a0 add num_s (fun s =>
          mul (get dl r s) (mul (get sol r (nth (s + q * num_s) idx 0)) (get w r s)))).
  Proof. exact (fun num_s num_out w dl sol idx => sens_to_grad_entry A a0 add mul code_facts num_s num_out w dl sol idx eq_refl). Qed.

  (* PARTIAL (all the code of the pinned tree satisfies): when the observed states and the target parameters are
     listed in declaration order (strictly increasing indices; target_param=None included), entry k of
     sensitivity(theta) / gradient(theta) is the chain-rule sum for the k-th target parameter, for every nS, nP,
     number of observations, weights and kernel.  Missing: every other order of state_name / target_param
     (refuted below for the pinned facts; C07_chain is the full statement). *)
  Theorem C07_sorted_partial : forall st tp (w : arr A) dL (sol : arr A),
    st <> [] -> increasing st -> (forall j, In j st -> j < nS) -> opt_increasing tp ->
    let g := sensitivity A a0 add mul code_facts psi_expr nS nP st tp w dL sol in
    let tpi := target_param_index nP tp in
    vlen g = length tpi /\
    forall k, k < length tpi ->
      vget g k = chain A a0 add mul st w (dloss A dL st sol) (nr sol) (fun r i => dx_dtheta nS sol r i (nth k tpi 0)).
  Proof.
    exact (sensitivity_sorted A a0 a1 add mul sub opp Rth code_facts psi_expr nS nP eq_refl (proj1 C07_index_exprs)
             (proj1 C07_sorted_or_major)).
  Qed.

  (* PARTIAL, initial-value variant without target_state (with target_state the pinned tree raises, see
     C07_target_state_refuted): entries [0, |tp|) are the free parameters, entries |tp| + k the initial values *)
  Theorem C07_sorted_partial_IV : forall st tp (w : arr A) dL (sol : arr A),
    st <> [] -> increasing st -> (forall j, In j st -> j < nS) -> opt_increasing tp ->
    let tpi := target_param_index nP tp in
    exists g, sensitivityIV A a0 add mul code_facts psi_expr ssi_expr nS nP st tp None w dL sol = Some g /\
    vlen g = length tpi + nS /\
    (forall k, k < length tpi ->
       vget g k = chain A a0 add mul st w (dloss A dL st sol) (nr sol) (fun r i => dx_dtheta nS sol r i (nth k tpi 0))) /\
    (forall k, k < nS ->
       vget g (length tpi + k) = chain A a0 add mul st w (dloss A dL st sol) (nr sol) (fun r i => dx_dx0 nS nP sol r i k)).
  Proof. exact (partial_IV A a0 a1 add mul sub opp Rth code_facts psi_expr ssi_expr nS nP eq_refl (proj1 C07_index_exprs)
                  (proj2 C07_index_exprs) (proj1 C07_sorted_or_major) (proj2 C07_sorted_or_major)). Qed.
End C07.
Print Assumptions C07_sens_to_grad.
Print Assumptions C07_sorted_partial.
Print Assumptions C07_sorted_partial_IV.

(* the hypotheses of the partial theorems are met by a concrete non-trivial instance (3 states, 2 parameters, observed
   states [1; 2], both parameters), and there the statement is not 0 = 0 *)
Theorem C07_hypotheses_satisfiable :
  [1; 2] <> [] /\ increasing [1; 2] /\ (forall j, In j [1; 2] -> j < 3) /\ opt_increasing (Some [0; 1]) /\
  map (Witness.spec [1; 2] (Some [0; 1])) [0; 1] = [83; 830]%Z.
Proof. exact Witness.hyps_ok. Qed.
Print Assumptions C07_hypotheses_satisfiable.

(* the contracts assumed by C07_cost_derivative (kernel derivative, sensitivity columns) are met together by a concrete
   instance of the model with the intended facts: x(t1; theta) = theta^2, sensitivity 2 theta, square loss with weight 2 and
   observation 3; there the model's gradient entry is -32 and it is the derivative of cost at theta = 1 *)
Theorem C07_contracts_satisfiable : is_derive (cost [0] 1 Instance.L Instance.sol) 1%R (-32)%R.
Proof. exact Instance.derivative_is_minus_32. Qed.
Print Assumptions C07_contracts_satisfiable.

(* ---- the pinned tree (76dc926 .. 8870a14) violates the full statement: witnesses by vm_compute, replayed on pygom ---- *)
(* target_param given as [p1; p0]: the vector comes back in declaration order *)
Theorem C07_order_refuted :
  vec_to_list (Witness.sens pinned_facts [1; 2] (Some [1; 0])) = [83; 830]%Z /\
  map (Witness.spec [1; 2] (Some [1; 0])) [0; 1] = [830; 83]%Z.
Proof. exact Witness.order_refuted. Qed.
Print Assumptions C07_order_refuted.

(* state_name given as [x2; x1]: the kernel of x2 is paired with the sensitivities of x1 and vice versa *)
Theorem C07_state_order_refuted :
  vec_to_list (Witness.sens pinned_facts [2; 1] None) = [67; 670]%Z /\
  map (Witness.spec [2; 1] None) [0; 1] = [63; 630]%Z.
Proof. exact Witness.state_order_refuted. Qed.
Print Assumptions C07_state_order_refuted.

(* target_state given: sensitivityIV / jacIV raise (None) whatever else is supplied *)
Theorem C07_target_state_refuted : forall (A : Type) a0 add mul pe se nS nP st tp ts w dL sol,
  sensitivityIV A a0 add mul pinned_facts pe se nS nP st tp (Some ts) w dL sol = None /\
  jacIV A pinned_facts pe se nS nP st tp (Some ts) sol = None.
Proof. exact target_state_raises. Qed.
Print Assumptions C07_target_state_refuted.

(* ---- the weights ---- *)
Open Scope R_scope.
(* Square and Normal: the cost uses the weights, and weight * diff_loss (what sens_to_grad contracts with) is the
   derivative of the weighted per-observation cost with respect to the prediction *)
Theorem C07_weight_square : forall w y yh, is_derive (fun u => loss_square w y u) yh (w * dl_square w y yh).
Proof. intros. unfold loss_square, dl_square, resid. auto_derive. auto. ring. Qed.
Print Assumptions C07_weight_square.
Theorem C07_weight_normal : forall w sigma y yh, 0 < sigma ->
  is_derive (fun u => loss_normal w sigma y u) yh (w * dl_normal w sigma y yh).
Proof. intros. unfold loss_normal, dl_normal, resid. auto_derive. auto. field. lra. Qed.
Print Assumptions C07_weight_normal.
(* Poisson, Gamma, NegBinom: the cost does not mention the weights (C07_code_facts) while the gradient carries
   w^2 times the unit-weight kernel; the identity is claimed for unit weights only, as the property states *)
Theorem C07_count_weights : forall w a k y yh, yh <> 0 -> k + yh <> 0 ->
  w * dl_poisson w y yh = w * w * dl_poisson 1 y yh /\
  w * dl_gamma w a y yh = w * w * dl_gamma 1 a y yh /\
  w * dl_negbinom w k y yh = w * w * dl_negbinom 1 k y yh.
Proof. intros. unfold dl_poisson, dl_gamma, dl_negbinom, resid. repeat split; field; auto. Qed.
Print Assumptions C07_count_weights.
Close Scope R_scope.

(* ==== obligations that need the repaired code (fail on the pinned tree 76dc926 .. 8870a14) ==== *)
(* _getTargetStateIndex hands plain integers to _getTargetStateSensIndex *)
Theorem C07_target_state_facts : tsi_wrapped code_facts = false.
Proof. vm_compute. reflexivity. Qed.
Print Assumptions C07_target_state_facts.

(* nothing re-sorts the collected columns and they are collected one block per target, states inside *)
Theorem C07_order_facts : order_respecting code_facts = true.
Proof. vm_compute. reflexivity. Qed.
Print Assumptions C07_order_facts.

(* FULL statement, free parameters: for every nS, nP, number of observations, observed states in ANY order, target
   parameters in ANY order (or all), weights and kernel, entry k of sensitivity(theta) = gradient(theta) is
       sum_r sum_s  L'(y_rs, yhat_rs) * w_rs * d yhat_rs / d theta_{tp[k]}       (k-th SUPPLIED parameter) *)
Theorem C07_chain :
  forall (A : Type) (a0 a1 : A) (add mul sub : A -> A -> A) (opp : A -> A)
         (Rth : ring_theory a0 a1 add mul sub opp (@eq A)) (nS nP : nat)
         st tp (w : arr A) dL (sol : arr A), st <> [] ->
    let g := sensitivity A a0 add mul code_facts psi_expr nS nP st tp w dL sol in
    let tpi := target_param_index nP tp in
    vlen g = length tpi /\
    forall k, k < length tpi ->
      vget g k = chain A a0 add mul st w (dloss A dL st sol) (nr sol) (fun r i => dx_dtheta nS sol r i (nth k tpi 0)).
Proof.
  exact (fun A a0 a1 add mul sub opp Rth nS nP =>
    sensitivity_ordered A a0 a1 add mul sub opp Rth code_facts psi_expr nS nP eq_refl (proj1 C07_index_exprs) C07_order_facts).
Qed.
Print Assumptions C07_chain.

(* jac(theta): column s + k*|st| is d x_{st[s]} / d theta_{tp[k]} in the supplied orders *)
Theorem C07_jac_layout :
  forall (A : Type) (nS nP : nat) st tp (sol : arr A),
    let M := jac A code_facts psi_expr nS nP st tp sol in
    let tpi := target_param_index nP tp in
    nr M = nr sol /\ nc M = length st * length tpi /\
    forall r s k, s < length st -> k < length tpi ->
      get M r (s + k * length st) = dx_dtheta nS sol r (nth s st 0) (nth k tpi 0).
Proof.
  exact (fun A nS nP => jac_ordered A code_facts psi_expr nS nP (proj1 C07_index_exprs) C07_order_facts).
Qed.
Print Assumptions C07_jac_layout.

(* FULL statement, initial-value variant: free parameters first, then free initial values, each in the supplied order *)
Theorem C07_chain_IV :
  forall (A : Type) (a0 a1 : A) (add mul sub : A -> A -> A) (opp : A -> A)
         (Rth : ring_theory a0 a1 add mul sub opp (@eq A)) (nS nP : nat)
         st tp ts (w : arr A) dL (sol : arr A), st <> [] ->
    let tpi := target_param_index nP tp in
    let tsi := target_state_index nS ts in
    exists g, sensitivityIV A a0 add mul code_facts psi_expr ssi_expr nS nP st tp ts w dL sol = Some g /\
    vlen g = length tpi + length tsi /\
    (forall k, k < length tpi ->
       vget g k = chain A a0 add mul st w (dloss A dL st sol) (nr sol) (fun r i => dx_dtheta nS sol r i (nth k tpi 0))) /\
    (forall k, k < length tsi ->
       vget g (length tpi + k) = chain A a0 add mul st w (dloss A dL st sol) (nr sol) (fun r i => dx_dx0 nS nP sol r i (nth k tsi 0))).
Proof.
  exact (fun A a0 a1 add mul sub opp Rth nS nP =>
    sensitivityIV_ordered A a0 a1 add mul sub opp Rth code_facts psi_expr ssi_expr nS nP eq_refl (proj1 C07_index_exprs)
      (proj2 C07_index_exprs) C07_order_facts C07_target_state_facts).
Qed.
Print Assumptions C07_chain_IV.

(* THE PROPERTY over the reals: with the contracts of the external engines as hypotheses —
     (kernels: C14, C07_weight_square, C07_weight_normal)  weight * diff_loss is the derivative of the per-observation cost in the prediction,
     (integrator + variational system, C02 / C13)  the sensitivity columns of sol are the derivatives of its state
                                                   columns with respect to the k-th supplied free variable —
   entry k of sensitivity(theta) is the derivative of cost with respect to the k-th supplied free parameter *)
Theorem C07_cost_derivative :
  forall (nS nP : nat) (st : list nat) (tp : option (list nat)), st <> [] ->
  forall (n : nat) (w : arr R) (L dLc : nat -> nat -> R -> R) (sol : R -> arr R) (v0 : R),
    nr (sol v0) = n ->
    (forall r s yh, r < n -> s < length st -> is_derive (L r s) yh (get w r s * dLc r s yh)%R) ->
    forall k, k < length (target_param_index nP tp) ->
    (forall r s, r < n -> s < length st ->
       is_derive (fun v => get (sol v) r (nth s st 0)) v0
                 (dx_dtheta nS (sol v0) r (nth s st 0) (nth k (target_param_index nP tp) 0))) ->
    is_derive (cost st n L sol) v0
              (vget (sensitivity R 0%R Rplus Rmult code_facts psi_expr nS nP st tp w dLc (sol v0)) k).
Proof.
  exact (fun nS nP st tp Hne =>
    cost_derivative code_facts psi_expr nS nP eq_refl (proj1 C07_index_exprs) st tp Hne
      (psi_cond_of_order code_facts nS st (target_param_index nP tp) C07_order_facts)).
Qed.
Print Assumptions C07_cost_derivative.

(* the same for sensitivityIV(theta_and_x0) and costIV *)
Theorem C07_costIV_derivative :
  forall (nS nP : nat) (st : list nat) (tp ts : option (list nat)), st <> [] ->
  forall (n : nat) (w : arr R) (L dLc : nat -> nat -> R -> R) (sol : R -> arr R) (v0 : R),
    nr (sol v0) = n ->
    (forall r s yh, r < n -> s < length st -> is_derive (L r s) yh (get w r s * dLc r s yh)%R) ->
    exists g, sensitivityIV R 0%R Rplus Rmult code_facts psi_expr ssi_expr nS nP st tp ts w dLc (sol v0) = Some g /\
      vlen g = length (target_param_index nP tp) + length (target_state_index nS ts) /\
      (forall k, k < length (target_param_index nP tp) ->
         (forall r s, r < n -> s < length st ->
            is_derive (fun v => get (sol v) r (nth s st 0)) v0
                      (dx_dtheta nS (sol v0) r (nth s st 0) (nth k (target_param_index nP tp) 0))) ->
         is_derive (cost st n L sol) v0 (vget g k)) /\
      (forall k, k < length (target_state_index nS ts) ->
         (forall r s, r < n -> s < length st ->
            is_derive (fun v => get (sol v) r (nth s st 0)) v0
                      (dx_dx0 nS nP (sol v0) r (nth s st 0) (nth k (target_state_index nS ts) 0))) ->
         is_derive (cost st n L sol) v0 (vget g (length (target_param_index nP tp) + k))).
Proof.
  exact (fun nS nP st tp ts Hne n w L dLc sol v0 Hrows HL =>
    costIV_derivative code_facts psi_expr ssi_expr nS nP eq_refl (proj1 C07_index_exprs) (proj2 C07_index_exprs) st tp ts Hne
      (psi_cond_of_order code_facts nS st (target_param_index nP tp) C07_order_facts) n w L dLc sol v0 Hrows HL
      (wrapped_false code_facts ts C07_target_state_facts)
      (ssi_cond_of_order code_facts nS st (target_state_index nS ts) C07_order_facts)).
Qed.
Print Assumptions C07_costIV_derivative.
