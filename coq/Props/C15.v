(* C15 — gridded stochastic output agrees with the underlying path.
   Only statements here; proofs live in GridProofs.v.  Gen.GridGen is regenerated from
   $PYGOM_REPO/src/pygom/model/simulate.py on every run (gen/gen_grid.py). *)
From Coq Require Import List ZArith Bool QArith Qcanon Lia.
From PV Require Import Grid GridProofs Gen.GridGen.
Import ListNotations.
Local Open Scope nat_scope.

(* ---- statements that do not depend on the extracted source facts come first *)
(* tau-leap rows (np.interp column by column, any interpolation that returns the first ordinate at the first knot):
   one row per requested time, first row = initial state when the grid starts at t0 *)
Theorem C15_rows_tau : forall (A : Type) (interp : Qc -> list Qc -> list Z -> A) (inj : Z -> A),
  (forall t0 ts x0 xs, interp t0 (t0 :: ts) (x0 :: xs) = inj x0) ->
  forall x0 X t0 T grid,
  length (gridded_interp A interp (length x0) (x0 :: X) (t0 :: T) (t0 :: grid)) = S (length grid) /\
  hd [] (gridded_interp A interp (length x0) (x0 :: X) (t0 :: T) (t0 :: grid)) = map inj x0.
Proof. intros A interp inj H x0 X t0 T grid. split; [apply interp_rows_length | now apply interp_first_row]. Qed.
Print Assumptions C15_rows_tau.

(* the hypotheses of C15_delta are satisfiable (a concrete SIR path and grid), and on that path the unweighted
   histogram of all recorded times (total number of records, initial one included, repeated in every column — what
   the pinned exact-mode branch computes) violates the increment statement *)
Theorem C15_exact_counts_refuted :
  wf exP /\ walk exV exP /\ rect 2 exP /\ grid_mono exG /\ no_hit exP exG /\
  vsub 3 (nth 1 (gridded_states gen_free_idx (Xs exP) (Ts exP) exG) []) (nth 0 (gridded_states gen_free_idx (Xs exP) (Ts exP) exG) [])
  <> matvec 3 exV (nth 0 (jumps_between HAll 2 (Js exP) (Ts exP) exG) []).
Proof. exact exact_counts_refuted. Qed.
Print Assumptions C15_exact_counts_refuted.

(* ... while the per-transition weighted histogram satisfies it on every interval of that example *)
Theorem C15_delta_example : forall k, k < 3 ->
  vsub 3 (nth (S k) (gridded_states gen_free_idx (Xs exP) (Ts exP) exG) []) (nth k (gridded_states gen_free_idx (Xs exP) (Ts exP) exG) [])
  = matvec 3 exV (nth k (jumps_between HTailW 2 (Js exP) (Ts exP) exG) []).
Proof. exact example_weighted_ok. Qed.
Print Assumptions C15_delta_example.

(* ---- statements about the current source (Gen.GridGen) *)
(* facts extracted from the current source: shape of the count array, tau-leap interpolation, the time-argument
   normalisation table of solve_stochast (scalar / one-element list = raw path; list, tuple, ndarray = grid ending
   the simulation at the last requested time) and the dispatch/plumbing of the post-processing loop *)
Theorem C15_code_facts :
  translator_ok = true /\ counts_rows_offset = (-1)%Z /\ counts_width_is_dims1 = true /\ interp_canonical = true /\
  time_norm = [(KNumber, (FSelf, false)); (KSeq1, (FSelf, false)); (KSeq, (FLast, true)); (KArray, (FLast, true))] /\
  dispatch_exact_extract = true /\ plumbing_canonical = true.
Proof. vm_compute. repeat split. Qed.

(* the translated index computation of _extractObservationAtTime picks, on every strictly increasing time array and
   every requested time, the last recorded time <= the request (clamped to the first record) *)
Theorem C15_extract_code : forall ts v, sortedT ts -> gen_extract_index ts v = Z.of_nat (last_le_index ts v).
Proof. extract_tac gen_extract_index. Qed.
Print Assumptions C15_extract_code.

(* the count array the code allocates is wide enough for every recorded count row (jumpList is nE columns wide) *)
Theorem C15_width_code : forall nE p, rect nE p -> width_ok (gen_width nE (Js p)) p.
Proof. width_tac gen_width. Qed.
Print Assumptions C15_width_code.

(* one state row per requested time, one count row per interval, one count per allocated transition column *)
Theorem C15_rows : forall nE X J T grid,
  length (gridded_states gen_extract_index X T grid) = length grid /\
  length (jumps_between hist_exact (gen_width nE J) J T grid) = length grid - 1 /\
  (forall k, k < length grid - 1 -> length (nth k (jumps_between hist_exact (gen_width nE J) J T grid) []) = gen_width nE J).
Proof. intros nE X J T grid. exact (conj (rows_length _ X T grid) (conj (counts_length _ _ J T grid) (counts_width _ _ J T grid))). Qed.
Print Assumptions C15_rows.

(* the first row is the initial state when the grid starts at t0 *)
Theorem C15_first_row : forall e0 r grid, wf (e0 :: r) ->
  hd [] (gridded_states gen_extract_index (Xs (e0 :: r)) (Ts (e0 :: r)) (etime e0 :: grid)) = estate e0.
Proof. exact (first_row_thm gen_extract_index C15_extract_code). Qed.
Print Assumptions C15_first_row.

(* row k is the state of the path at t_k: the state after the last event with time <= t_k *)
Theorem C15_state : forall p grid k, wf p -> k < length grid ->
  nth k (gridded_states gen_extract_index (Xs p) (Ts p) grid) [] = state_at p (nth k grid 0%Qc).
Proof. exact (state_thm gen_extract_index C15_extract_code). Qed.
Print Assumptions C15_state.

(* consecutive rows differ by V times the reported counts of that interval — for every path whose steps are
   x' - x = V n' (C04), every non-decreasing grid none of whose points except the last coincides with an event time.
   The statement is about the histogram configuration extracted from the exact-mode branch of the current source:
   it type-checks only when that is the per-transition weighted histogram. *)
Theorem C15_delta : forall V nE p grid k s,
  wf p -> walk V p -> rect nE p -> grid_mono grid -> no_hit p grid -> S k < length grid ->
  (zget (nth (S k) (gridded_states gen_extract_index (Xs p) (Ts p) grid) []) s
   - zget (nth k (gridded_states gen_extract_index (Xs p) (Ts p) grid) []) s
   = mv V (nth k (jumps_between hist_exact (gen_width nE (Js p)) (Js p) (Ts p) grid) []) s)%Z.
Proof. intros V nE p grid k s Hw Hk Hr. exact (delta_thm gen_extract_index C15_extract_code V _ p grid k s Hw Hk (C15_width_code nE p Hr)). Qed.
Print Assumptions C15_delta.

Theorem C15_delta_vec : forall V nE nS p grid k,
  wf p -> walk V p -> rect nE p -> grid_mono grid -> no_hit p grid -> S k < length grid ->
  vsub nS (nth (S k) (gridded_states gen_extract_index (Xs p) (Ts p) grid) [])
          (nth k (gridded_states gen_extract_index (Xs p) (Ts p) grid) [])
  = matvec nS V (nth k (jumps_between hist_exact (gen_width nE (Js p)) (Js p) (Ts p) grid) []).
Proof. intros V nE nS p grid k Hw Hk Hr. exact (delta_vec_thm gen_extract_index C15_extract_code V _ nS p grid k Hw Hk (C15_width_code nE p Hr)). Qed.
Print Assumptions C15_delta_vec.
