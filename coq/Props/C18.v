(* C18 — fit stays inside the box and never returns something worse than its start.
   Only statements here; proofs live in FitProofs.v.  Gen.FitGen is regenerated from
   $PYGOM_REPO/src/pygom/loss/base_loss.py (BaseLoss.fit) on every run, so every statement below is about the
   packing / call facts of the *current* source: it type-checks only while they have the good values. *)
From Coq Require Import List ZArith.
From PV Require Import Fit FitProofs Gen.FitGen.
Import ListNotations.

(* facts extracted from the current source of fit *)
Theorem C18_code_facts :
  translator_ok = true /\ pack_facts = good_pack /\ call_facts = good_call.
Proof. vm_compute. repeat split. Qed.

(* for every n: row i of the bounds handed to the optimiser is (lb_i, ub_i) *)
Theorem C18_bounds : forall (T : Type) (d : T) n (x lb ub : list T), length lb = n -> length ub = n ->
  exists b, pack d pack_facts x lb ub = Some b /\ nr b = n /\ nc b = 2 /\
            forall i, i < n -> get b i 0 = nth i lb d /\ get b i 1 = nth i ub d.
Proof. exact pack_rows. Qed.
Print Assumptions C18_bounds.

(* the same as one table: bounds = zip(lb, ub) *)
Theorem C18_bounds_table : forall (T : Type) (d : T) (x lb ub : list T), length lb = length ub ->
  exists b, pack d pack_facts x lb ub = Some b /\ table b = map (fun p => [fst p; snd p]) (combine lb ub).
Proof. exact pack_table. Qed.
Print Assumptions C18_bounds_table.

(* bounds of the wrong length never reach the optimiser *)
Theorem C18_mismatch_rejected : forall (T : Type) (d none : T) (x lb ub : list T) hasA,
  length lb <> length ub \/ length lb <> length x ->
  fit_call d none pack_facts call_facts x (Some lb) (Some ub) hasA = None.
Proof. exact mismatch_rejected. Qed.
Print Assumptions C18_mismatch_rejected.

(* an absent lb / ub becomes a column of None: row i is (None | lb_i, None | ub_i) *)
Theorem C18_default_rows : forall (T : Type) (d none : T) (x : list T) (lb ub : option (list T)) n,
  length x = n ->
  match lb with Some l => length l = n | None => True end ->
  match ub with Some u => length u = n | None => True end ->
  exists c, fit_call d none pack_facts call_facts x lb ub false = Some c /\ nr (c_bounds c) = n /\
    forall i, i < n ->
      get (c_bounds c) i 0 = match lb with Some l => nth i l d | None => none end /\
      get (c_bounds c) i 1 = match ub with Some u => nth i u d | None => none end.
Proof. exact pack_default_rows. Qed.
Print Assumptions C18_default_rows.

(* PARTIAL (the optimiser is a contract, not verified): for every optimiser meeting the L-BFGS-B contract
   (result feasible for the bounds it was given; cost not above the start when jac is the gradient of fun),
   every loss object whose `sensitivity` is the gradient of its `cost`, every n, every box and every start in
   it: fit returns a point of the box whose cost does not exceed the cost of the start *)
Theorem C18_fit_partial :
  forall (T : Type) (leT : T -> T -> Prop) (d none : T) (C G : Type) (leC : C -> C -> Prop)
         (obj_of : objective -> list T -> C) (grad_of : gradient -> list T -> G)
         (is_grad : (list T -> C) -> (list T -> G) -> Prop)
         (minimize : (list T -> C) -> (list T -> G) -> list T -> arr T -> method -> list T),
  contract_feasible T leT d C G minimize ->
  contract_descent T leT d C G leC is_grad minimize ->
  is_grad (obj_of ObjCost) (grad_of GradSensitivity) ->
  forall n x lb ub, length x = n -> length lb = n -> length ub = n -> in_box T leT d lb ub x ->
  exists r, fit d none obj_of grad_of minimize pack_facts call_facts x lb ub = Some r /\
            in_box T leT d lb ub r /\ leC (obj_of ObjCost r) (obj_of ObjCost x).
Proof. exact fit_in_box_not_worse. Qed.
Print Assumptions C18_fit_partial.

(* PARTIAL: started at a stationary point of the cost (the generating parameters of noise-free data make the
   residuals, hence the gradient, vanish) fit returns that point — for every optimiser that stops at once there *)
Theorem C18_truth_fixed_partial :
  forall (T : Type) (leT : T -> T -> Prop) (d none : T) (C G : Type)
         (obj_of : objective -> list T -> C) (grad_of : gradient -> list T -> G)
         (is_grad : (list T -> C) -> (list T -> G) -> Prop) (stationary : (list T -> G) -> list T -> Prop)
         (minimize : (list T -> C) -> (list T -> G) -> list T -> arr T -> method -> list T),
  contract_stationary T leT d C G is_grad stationary minimize ->
  is_grad (obj_of ObjCost) (grad_of GradSensitivity) ->
  forall n x lb ub, length x = n -> length lb = n -> length ub = n -> in_box T leT d lb ub x ->
  stationary (grad_of GradSensitivity) x ->
  fit d none obj_of grad_of minimize pack_facts call_facts x lb ub = Some x.
Proof. exact fit_truth_fixed. Qed.
Print Assumptions C18_truth_fixed_partial.

(* the contract is satisfiable (an optimiser that does not move meets all three clauses) and the theorem's
   hypotheses are met on a concrete 3-parameter instance *)
Theorem C18_contract_satisfiable : forall is_grad stationary,
  contract_feasible Z Z.le 0%Z Z (list Z) stay_opt /\
  contract_descent Z Z.le 0%Z Z (list Z) Z.le is_grad stay_opt /\
  contract_stationary Z Z.le 0%Z Z (list Z) is_grad stationary stay_opt.
Proof. exact stay_opt_contract. Qed.
Print Assumptions C18_contract_satisfiable.

(* C-order packing violates the statement: rows of ([0;1],[10;11]) become (0,1),(10,11); and a contract-abiding
   optimiser (upper corner of the bounds it is given) then leaves the user's box *)
Theorem C18_C_order_refuted :
  match pack 0%Z bad_pack_C [] [0; 1]%Z [10; 11]%Z with
  | Some b => (get b 0 0, get b 0 1) <> (0, 10)%Z /\ table b = [[0; 1]; [10; 11]]%Z
  | None => False
  end.
Proof. exact pack_C_order_refuted. Qed.
Print Assumptions C18_C_order_refuted.

Theorem C18_fit_C_order_refuted :
  contract_feasible Z Z.le 0%Z Z (list Z) corner_opt /\
  in_box Z Z.le 0%Z [0; 20]%Z [10; 30]%Z [5; 25]%Z /\
  fit 0%Z 0%Z wit_obj wit_grad corner_opt bad_pack_C good_call [5; 25]%Z [0; 20]%Z [10; 30]%Z = Some [20; 30]%Z /\
  ~ in_box Z Z.le 0%Z [0; 20]%Z [10; 30]%Z [20; 30]%Z.
Proof. exact (conj corner_opt_feasible fit_C_order_refuted). Qed.
Print Assumptions C18_fit_C_order_refuted.
