(* C04 — every simulated path is a legal walk of the model's events.
   The jump loop model (Stoch.v) is instantiated with the kernel facts regenerated from
   stochastic_simulation.py / simulate.py (Gen/StochGen.v); randomness and rate evaluation are an arbitrary
   oracle schedule, so the statements hold for all seeds, rate functions, horizons and model shapes. *)
From Coq Require Import List ZArith QArith Qcanon.
From PV Require Import Stoch StochProofs StochTie Gen.StochGen.
Import ListNotations.
Open Scope Qc_scope.

Notation gloop := (loop gen_failed_one reject_keeps accept_adds_dt update_plus clock_guard_positive argmin_first).
Notation grun := (run gen_failed_one reject_keeps accept_adds_dt update_plus clock_guard_positive argmin_first).

Theorem C04_code_facts :
  translator_ok = true /\ reject_keeps = true /\ accept_adds_dt = true /\ update_plus = true /\
  clock_guard_positive = true /\ argmin_first = true /\ vmat_is_matrix = true.
Proof. vm_compute. repeat split. Qed.

(* the path starts at the initial state and time *)
Theorem C04_start : forall c T x0 t0 s, hd_error (fst (grun c T x0 t0 s)) = Some (x0, [], t0).
Proof. intros. unfold run. destruct (loop _ _ _ _ _ _ c T x0 t0 s). reflexivity. Qed.

(* every consecutive pair of recorded rows (x,t) -> (x',n',t'):  t < T, t < t' (strictly increasing times),
   counts non-negative, x' within the declared limits, and x' = x + (state-change matrix) x n';
   and when the loop stops for the horizon the last time is >= T.  Holds for every schedule whose clocks and
   tau are positive and Poisson counts non-negative (what the samplers return), event-defined models (no drift). *)
Theorem C04_walk : forall c T s x t, Forall sstep_ok s ->
  chain c T x t (fst (gloop c T x t s)) /\
  (snd (gloop c T x t s) = Horizon -> T <= last_time t (fst (gloop c T x t s))).
Proof. exact (loop_walk gen_failed_one gen_failed_one_spec). Qed.
Print Assumptions C04_walk.

(* exact mode: exactly one event per recorded step *)
Theorem C04_exact_one_event : forall c T s x t, Forall sstep_ok s -> Forall is_exact s ->
  chain_unit (fst (gloop c T x t s)).
Proof. exact (exact_one_event gen_failed_one gen_failed_one_spec). Qed.
Print Assumptions C04_exact_one_event.

(* the fold "x + V n'" used in [chain]/[good] is, entry by entry, x_i + sum_j n'_j * V[i][j] *)
Theorem C04_delta_entrywise : forall c nS, dims_ok c nS -> forall n x i, length x = nS ->
  nth i (apply_counts update_plus c x 0 n) 0 = nth i x 0 + vn_entry c i 0 n.
Proof. intros c nS H n x i Hl. exact (apply_counts_entry c nS H n x 0%nat i Hl). Qed.
Print Assumptions C04_delta_entrywise.

(* non-vacuity: a two-event birth/death schedule over one state is a well-formed schedule and yields a 2-step path *)
Example C04_example :
  let c := {| V := [[Q2Qc 1]; [Q2Qc (-1)]]; lims := [(Some (Q2Qc 0), None)] |} in
  let s := [SExact [Q2Qc 2; Q2Qc 3] [Q2Qc (1#2); Q2Qc (1#4)]; SExact [Q2Qc 2; Q2Qc 0] [Q2Qc 1]] in
  Forall sstep_ok s /\ length (fst (gloop c (Q2Qc 1) [Q2Qc 1] (Q2Qc 0) s)) = 2%nat.
Proof. split; [repeat constructor | vm_compute; reflexivity]. Qed.
