(* C08 — evaluators never go stale after a model is modified.
   Only statements here; the model is Canary.v, the proofs are in CanaryProofs.v.  Gen.CanaryGen is regenerated
   from base_ode_model.py / deterministic.py / simulate.py / ode_utils/compile_canary.py on every run.

   Reading guide: [facts] is the table the translator extracts (which mutator trips, canary entries, add_func
   registrations, recompile condition, what add_compiled_sympy_object resets, whether a change of self._sp trips).
   [run F (init F n0) ops] is the model state after the history [ops] (any interleaving of Mutate / SetList /
   SetDict / Eval, any length) on a model constructed with n0 parameters; [strip ops] is the same history with
   every evaluation removed, i.e. a freshly constructed model with the same final definition and values. *)
From Coq Require Import List String ZArith.
From PV Require Import Canary CanaryProofs CanaryComp Gen.CanaryGen.
Import ListNotations.
Open Scope string_scope.

(* ---- generic theorems: for EVERY fact table with the good values ---- *)

(* in every reachable state a cleared flag means: compiled from the current definition, for the current
   argument list *)
Theorem C08_inv : forall F, good F = true -> forall n0 ops,
  let s := run F (init F n0) ops in
  forall e, reg F e -> flags s e = false -> exists cv, compiled s e = Some (def s, sp s, cv).
Proof. exact inv_all. Qed.
Print Assumptions C08_inv.

(* after any history every registered evaluator returns the value of the current definition at the current
   parameter values (never an error, never an older definition) *)
Theorem C08_fresh : forall F, good F = true -> forall n0 ops e, reg F e ->
  let s := run F (init F n0) ops in snd (eval F s e) = Val (def s) (pv s).
Proof. exact fresh_all. Qed.
Print Assumptions C08_fresh.

(* the property as worded: same answer as the model that reached this definition without any evaluation *)
Theorem C08_same_as_fresh : forall F, good F = true -> forall n0 ops e, reg F e ->
  snd (eval F (run F (init F n0) ops) e) = snd (eval F (run F (init F n0) (strip ops)) e).
Proof. exact same_as_fresh_all. Qed.
Print Assumptions C08_same_as_fresh.

(* every evaluation made anywhere inside a history returned a fresh value at that moment *)
Theorem C08_every_step : forall F, good F = true -> forall n0 ops,
  Forall (fun o => match o with Eval e => reg F e | _ => True end) ops ->
  Forall (fun ob => o_status ob <> 2 /\ o_fresh ob = true) (trace F (init F n0) ops).
Proof. exact trace_fresh_all. Qed.
Print Assumptions C08_every_step.

(* ---- the bad fact values violate the statement (witnesses replayed on pygom by the harness) ---- *)
Theorem C08_addode_refuted :
  let F := ideal false true in
  snd (eval F (run F (init F 2) addode_ops) "ode") <> snd (eval F (run F (init F 2) (strip addode_ops)) "ode").
Proof. exact addode_refuted. Qed.
Print Assumptions C08_addode_refuted.

Theorem C08_spchange_refuted :
  let F := ideal true false in
  snd (eval F (run F (init F 2) spchange_ops) "ode") = Err /\
  snd (eval F (run F (init F 2) (strip spchange_ops)) "ode") = Val [("param_list", 1)] [1; 2; 3]%Z.
Proof. exact spchange_refuted. Qed.
Print Assumptions C08_spchange_refuted.

Theorem C08_names_mismatch_refuted :
  let F := nomatch_facts in let ops := [Eval "grad"; Mutate "add_event" 1] in
  snd (eval F (run F (init F 2) ops) "grad") <> snd (eval F (run F (init F 2) (strip ops)) "grad").
Proof. exact nomatch_refuted. Qed.
Print Assumptions C08_names_mismatch_refuted.

(* ---- per-run obligations on the table extracted from the CURRENT source ---- *)
Theorem C08_translator_ok : translator_ok = true.
Proof. reflexivity. Qed.

(* shape of add_func / add_compiled_sympy_object / CompileCanary / the generators / the parameters setter *)
Theorem C08_code_shape :
  f_cond_missing facts = true /\ f_cond_flag facts = true /\ f_trip_value facts = true /\
  f_reset_value facts = false /\ f_params_at_call facts = true /\ f_getters_fresh facts = true /\
  f_setter_sets_sp facts = true.
Proof. vm_compute. repeat split. Qed.

(* the eleven evaluators of the property are registered, and every registered evaluator has a canary entry *)
Theorem C08_names_match :
  forallb (fun e => match lookup e (f_registered facts) with Some _ => true | None => false end) evaluators11 = true
  /\ names_match facts = true.
Proof. vm_compute. split; reflexivity. Qed.

(* every public mutator trips on every normal path that changes the definition *)
Theorem C08_all_mutators_trip : forallb snd (f_mutators facts) = true.
Proof. vm_compute. reflexivity. Qed.

(* a change of the compiled argument list self._sp trips the canary *)
Theorem C08_sp_change_trips : f_sp_change_trips facts = true.
Proof. vm_compute. reflexivity. Qed.

(* hence the property for the current code: the proof term only type-checks when [good facts] computes to true *)
Theorem C08_current_code : forall n0 ops e, reg facts e ->
  snd (eval facts (run facts (init facts n0) ops) e) = snd (eval facts (run facts (init facts n0) (strip ops)) e).
Proof. exact (same_as_fresh_all facts (eq_refl true)). Qed.
Print Assumptions C08_current_code.

(* ---- "and the rest": the evaluators computed from a compiled evaluator and the shape helper (sensitivity,
   ode_and_sensitivity, ode_and_sensitivityIV, their Jacobians, forward-forward); CanaryComp.v ---- *)

(* with a shape helper that follows the model's current sizes they inherit the property, for every good fact table *)
Theorem C08_rest_same_as_fresh : forall F, good F = true -> forall n0 ops e, reg F e ->
  snd (comp_eval F true n0 (run F (init F n0) ops) e) = snd (comp_eval F true n0 (run F (init F n0) (strip ops)) e).
Proof. exact comp_same_as_fresh_all. Qed.
Print Assumptions C08_rest_same_as_fresh.

(* a helper built once in the constructor violates the statement after a parameter is added (the witness is replayed on
   pygom by the harness: the genuine defect repaired by 9241b05) *)
Theorem C08_helper_once_refuted :
  let F := ideal true true in
  snd (comp_eval F false 2 (run F (init F 2) grow_ops) "ode") = Err /\
  snd (comp_eval F true 2 (run F (init F 2) (strip grow_ops)) "ode") = Val [("param_list", 1)] [1; 2; 3]%Z /\
  snd (comp_eval F true 2 (run F (init F 2) grow_ops) "ode") = Val [("param_list", 1)] [1; 2; 3]%Z.
Proof. exact helper_once_refuted. Qed.
Print Assumptions C08_helper_once_refuted.

(* per-run obligation: in the CURRENT source the helper is built from the current sizes *)
Theorem C08_helper_current : helper_current = true.
Proof. reflexivity. Qed.

Theorem C08_rest_current_code : forall n0 ops e, reg facts e ->
  snd (comp_eval facts helper_current n0 (run facts (init facts n0) ops) e)
  = snd (comp_eval facts helper_current n0 (run facts (init facts n0) (strip ops)) e).
Proof. exact (comp_same_as_fresh_all facts (eq_refl true)). Qed.
Print Assumptions C08_rest_current_code.
