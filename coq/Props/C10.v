(* C10 — closed compartmental models conserve the total population (algebraic part: any commutative ring,
   any number of states / events / transitions, arbitrary rates and magnitudes). The stochastic-path part is in
   Props/C04.v (C10_path). *)
From Coq Require Import List Arith Ring.
From PV Require Import Assembly AssemblyProofs Gen.AssemblyGen.
Import ListNotations.

Theorem C10_code_is_model :
  translator_ok = true /\ ode_table_ok ode_tab ode_res = true /\ oscope_ok ode_scope ode_res = true /\
  vmat_table_ok vmat_tab vmat_res = true.
Proof. vm_compute. repeat split. Qed.

Section Ring.
  Variables (A : Type) (a0 a1 : A) (add mul sub : A -> A -> A) (opp : A -> A).
  Hypothesis Rth : ring_theory a0 a1 add mul sub opp (@eq A).

  (* every column of the state-change matrix of a transition-only model sums to zero *)
  Theorem C10_cols : forall n (m : model A) j, closed A n (events m) ->
    Assembly.sum A a0 add (map (fun i => vmat A a0 a1 add mul sub opp m i j) (seq 0 n)) = a0.
  Proof. exact (closed_cols A a0 a1 add mul sub opp Rth). Qed.

  (* the right-hand side the code assembles sums to zero identically *)
  Theorem C10_rhs : forall n (m : model A), closed A n (events m) -> odes m = [] ->
    Assembly.sum A a0 add (map (fun i => code_ode A a0 a1 add mul opp ode_tab ode_scope ode_res m i) (seq 0 n)) = a0.
  Proof. intros n m Hc Ho.
    rewrite (sum_map_ext A a0 add _ (fun i => ode_vec A a0 a1 add mul sub opp m i)).
    - exact (closed_rhs A a0 a1 add mul sub opp Rth n m Hc Ho).
    - intros i _. exact (code_ode_sound A a0 a1 add mul sub opp Rth ode_tab ode_scope ode_res eq_refl eq_refl m i).
  Qed.
End Ring.
Print Assumptions C10_cols.
Print Assumptions C10_rhs.

(* stochastic half: every recorded state of every path (exact or tau-leap, any schedule) of a model whose
   state-change columns sum to zero keeps the initial total exactly *)
From Coq Require Import QArith Qcanon.
From PV Require Import Stoch StochProofs StochTie Gen.StochGen.
Theorem C10_path : forall c T nS s x t, cols_closed c nS -> length x = nS -> Forall sstep_ok s ->
  all_total (vsum x)
    (fst (loop gen_failed_one reject_keeps accept_adds_dt update_plus clock_guard_positive argmin_first c T x t s)).
Proof. intros c T nS s x t Hc Hl Hs. eapply chain_total; eauto.
  apply (loop_walk gen_failed_one gen_failed_one_spec c T s x t Hs). Qed.
Print Assumptions C10_path.


(* non-vacuity: the SIR model (S->I, I->R) over Z is closed with 3 states *)
From Coq Require Import ZArith.
Example sir_closed :
  AssemblyProofs.closed Z 3 [ {| rate := 5%Z; trans := [ {| ty := T; orig := 0; dest := 1; mag := 1%Z |} ] |};
               {| rate := 7%Z; trans := [ {| ty := T; orig := 1; dest := 2; mag := 2%Z |} ] |} ].
Proof. intros e tr He Htr. simpl in He. destruct He as [<-|[<-|[]]]; simpl in Htr; destruct Htr as [<-|[]]; simpl; repeat split; auto with arith. Qed.

(* deterministic half: every differentiable solution of the assembled ODE of a transition-only model (rates may
   depend on the state in any way) keeps the sum of the states constant for all times *)
From Coq Require Import Reals.
From Coquelicot Require Import Coquelicot.
From PV Require Import Flow.
Theorem C10_flow : forall n (m : (nat -> R) -> model R) (x : nat -> R -> R),
  (forall y, AssemblyProofs.closed R n (events (m y)) /\ odes (m y) = []) ->
  (forall i t, (i < n)%nat ->
     is_derive (x i) t (ode_vec R 0%R 1%R Rplus Rmult Rminus Ropp (m (fun j => x j t)) i)) ->
  forall t0 t, lsum (map (fun i => x i t) (seq 0 n)) = lsum (map (fun i => x i t0) (seq 0 n)).
Proof. exact closed_model_total_constant. Qed.
Print Assumptions C10_flow.
