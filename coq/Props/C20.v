(* C20 — curvature information matches the cost it is meant to describe.
   Only statements here; proofs live in CurvProofs.v / FFProofs.v.  Gen.CurvGen is regenerated from
   $PYGOM_REPO/src/pygom/{loss/base_loss.py, loss/loss_type.py, model/ode_utils/__init__.py, model/deterministic.py} on every run
   (Gen.SensGen: the facts of the first-order system, property C13).  A statement about code_jfacts / code_hfacts /
   code_fffacts type-checks only when the extracted facts are the ones the proof needs.

   Layouts.  Z : n x (nS + nS*nP + nS*nP*nP) integrated augmented system (rows = observation times): column s = x_s,
   column nS + a*nS + s = dx_s/dtheta_a, column nS + nS*nP + (s*nP + a)*nP + b = d2x_s/dtheta_a dtheta_b;
   W, Y : n x p weights / observations; sidx = indices of the observed states in the order of state_name; pidx = indices of the
   target parameters in the order of target_param.  All theorems: every commutative ring, all sizes. *)
From Coq Require Import List Arith ZArith QArith Qcanon Qpower Ring.
From PV Require Import Shapes Sens Curv FF CurvProofs CurvJet FFProofs Gen.SensGen Gen.CurvGen.
Import ListNotations.
Open Scope nat_scope.

Section C20.
  Variables (A : Type) (a0 a1 : A) (add mul sub : A -> A -> A) (opp : A -> A).
  Hypothesis Rth : ring_theory a0 a1 add mul sub opp (@eq A).

  (* sens_to_jtj(sens): sens is n x (num_s*num_out), column j + num_s*a = sensitivity of observed state j with respect to output
     parameter a; the result is the sum over observations i (and observed states j) of the outer products of the rows
     (sens[i][j + num_s*a] * w[i][j])_a *)
  Theorem C20_jtj : forall num_s num_out (W sens : arr A), nc sens = num_s * num_out -> num_s <> 0 ->
    let M := sens_to_jtj A a0 add mul code_jfacts num_s W sens in
    nr M = num_out /\ nc M = num_out /\
    forall a b, get M a b =
      sumn A a0 add (nr sens) (fun i => sumn A a0 add num_s (fun j =>
        mul (mul (get sens i (j + num_s * a)) (get W i j)) (mul (get sens i (j + num_s * b)) (get W i j)))).
  Proof. exact (jtj_entry A a0 a1 add mul sub opp Rth). Qed.

  Theorem C20_sym : forall num_s num_out (W sens : arr A), nc sens = num_s * num_out -> num_s <> 0 ->
    forall a b, get (sens_to_jtj A a0 add mul code_jfacts num_s W sens) a b = get (sens_to_jtj A a0 add mul code_jfacts num_s W sens) b a.
  Proof. exact (jtj_sym A a0 a1 add mul sub opp Rth). Qed.

  (* positive semi-definite over every ordered ring: v' JTJ v = sum_i sum_j (s_ij . v)^2 >= 0 *)
  Variable le : A -> A -> Prop.
  Hypothesis le_refl0 : le a0 a0.
  Hypothesis le_add : forall x y, le a0 x -> le a0 y -> le a0 (add x y).
  Hypothesis sq_nonneg : forall x, le a0 (mul x x).
  Theorem C20_psd : forall num_s num_out (W sens : arr A) (v : nat -> A), nc sens = num_s * num_out -> num_s <> 0 ->
    le a0 (quad A a0 add mul num_out (sens_to_jtj A a0 add mul code_jfacts num_s W sens) v).
  Proof. exact (jtj_psd A a0 a1 add mul sub opp le Rth le_refl0 le_add sq_nonneg). Qed.

  (* ode_and_forwardforward(z, t) = f ++ vecF(J S + G) ++ vecC(J F_ab + S_a' (d2f/dxdx) S_b), entry by entry *)
  Theorem C20_ff_code : forall nS nP (f : vec A) (J G DJ : arr A) (z : vec A),
    ff_shapes_ok A nS nP f J G DJ -> vlen z = nS + nS * nP + nS * nP * nP ->
    let out := ode_and_forwardforward A a0 a1 add mul code_fffacts SensGen.code_facts nS nP f J G DJ z in
    vlen out = nS + nS * nP + nS * nP * nP /\
    (forall k, k < nS -> vget out k = vget f k) /\
    (forall i j, i < nS -> j < nP -> vget out (nS + j * nS + i) = rhs_S A a0 add mul nS J G (S_par nS z) i j) /\
    (forall s a b, s < nS -> a < nP -> b < nP ->
       vget out (nS + nS * nP + (s * nP + a) * nP + b) = ff_code_rhs A a0 add mul nS nP J DJ z s a b).
  Proof. exact (ff_entries A a0 a1 add mul sub opp Rth). Qed.

  (* the true right-hand side of the second-order sensitivities is what the code integrates plus the mixed terms
     (d2f_s/dx dtheta_b) S_a + (d2f_s/dx dtheta_a) S_b + d2f_s/dtheta_a dtheta_b  -- the recorded omission, exactly *)
  Theorem C20_ff_gap : forall nS nP (J DJ GJ GG : arr A) (z : vec A) s a b,
    ff_true_rhs A a0 add mul nS nP J DJ GJ GG z s a b =
    add (ff_code_rhs A a0 add mul nS nP J DJ z s a b) (ff_mixed A a0 add mul nS nP GJ GG z s a b).
  Proof. exact (ff_gap A a0 a1 add mul sub opp Rth). Qed.

  (* when d2f/dxdtheta and d2f/dtheta2 vanish, the forward-forward block of the code IS the true right-hand side *)
  Theorem C20_ff_complete : forall nS nP (f : vec A) (J G DJ GJ GG : arr A) (z : vec A),
    ff_shapes_ok A nS nP f J G DJ -> vlen z = nS + nS * nP + nS * nP * nP -> mixed_vanish A a0 GJ GG ->
    forall s a b, s < nS -> a < nP -> b < nP ->
      vget (ode_and_forwardforward A a0 a1 add mul code_fffacts SensGen.code_facts nS nP f J G DJ z)
           (nS + nS * nP + (s * nP + a) * nP + b) = ff_true_rhs A a0 add mul nS nP J DJ GJ GG z s a b.
  Proof.
    exact (fun nS nP f J G DJ GJ GG z Hsh Hz Hm s a b Hs Ha Hb =>
             eq_trans (proj2 (proj2 (proj2 (ff_entries A a0 a1 add mul sub opp Rth nS nP f J G DJ z Hsh Hz))) s a b Hs Ha Hb)
                      (ff_complete A a0 a1 add mul sub opp Rth nS nP J DJ GJ GG z s a b Hm)).
  Qed.

End C20.
Print Assumptions C20_jtj.
Print Assumptions C20_sym.
Print Assumptions C20_psd.
Print Assumptions C20_ff_code.
Print Assumptions C20_ff_gap.
Print Assumptions C20_ff_complete.

(* hess_spec (the right-hand side of C20_hessian) IS the second derivative of the cost, algebraically: along any direction u, if
   the observed state x_ik has the second-order Taylor jet (x, sum_a S_a u_a, h) with 2h = sum_ab u_a F_ab u_b, then twice the
   e^2 coefficient of  sum_ik (w_ik (y_ik - x_ik(e)))^2  computed in jet arithmetic (polynomials modulo e^3) equals u' hess_spec u.
   Independent of the code facts. *)
Theorem C20_hess_spec_second_order :
  forall (A : Type) (a0 a1 : A) (add mul sub : A -> A -> A) (opp : A -> A) (Rth : ring_theory a0 a1 add mul sub opp (@eq A))
         nS nP (sidx pidx : list nat) (W Y Z : arr A) (u : nat -> A) (h : nat -> nat -> A),
    (forall i k, add (h i k) (h i k) = dir2 A a0 add mul nS nP sidx pidx Z u i k) ->
    quad A a0 add mul (length pidx)
         {| nr := length pidx; nc := length pidx; get := hess_spec A a0 add mul sub nS nP sidx pidx W Y Z |} u =
    sumn A a0 add (nr Z) (fun i => sumn A a0 add (length sidx) (fun k =>
      let c := coef2 A (sq_loss_jet A a0 add mul sub (get W i k) (get Y i k)
                                    (X_of Z sidx i k, dir1 A a0 add mul nS sidx pidx Z u i k, h i k)) in add c c)).
Proof. exact hess_spec_is_second_order. Qed.
Print Assumptions C20_hess_spec_second_order.

(* the ordered-ring hypotheses of C20_psd are met by Z and by the exact rationals Qc *)
Lemma Qc_sq_nonneg (x : Qc) : (0 <= x * x)%Qc.
Proof.
  unfold Qcle. destruct x as [q Hq]. cbn [Qcmult this Q2Qc].
  apply (Qle_trans _ (q * q)%Q).
  - apply Qle_trans with (q ^ 2)%Q; [apply Qsqr_nonneg|]. simpl. apply Qle_refl.
  - rewrite (Qred_correct (q * q)). apply Qle_refl.
Qed.
Lemma Qc_add_nonneg (x y : Qc) : (0 <= x -> 0 <= y -> 0 <= x + y)%Qc.
Proof. intros Hx Hy. replace 0%Qc with (0 + 0)%Qc by reflexivity. apply Qcplus_le_compat; assumption. Qed.
Theorem C20_psd_Z_Qc :
  (forall num_s num_out (W sens : arr Z) v, nc sens = num_s * num_out -> num_s <> 0 ->
     (0 <= quad Z 0 Z.add Z.mul num_out (sens_to_jtj Z 0 Z.add Z.mul code_jfacts num_s W sens) v)%Z) /\
  (forall num_s num_out (W sens : arr Qc) v, nc sens = num_s * num_out -> num_s <> 0 ->
     (0 <= quad Qc 0 Qcplus Qcmult num_out (sens_to_jtj Qc 0 Qcplus Qcmult code_jfacts num_s W sens) v)%Qc).
Proof.
  split.
  - exact (C20_psd Z 0%Z 1%Z Z.add Z.mul Z.sub Z.opp Zth Z.le (Z.le_refl 0) Z.add_nonneg_nonneg Z.square_nonneg).
  - exact (C20_psd Qc 0%Qc 1%Qc Qcplus Qcmult Qcminus Qcopp Qcrt Qcle (Qcle_refl 0) Qc_add_nonneg Qc_sq_nonneg).
Qed.
Print Assumptions C20_psd_Z_Qc.

(* the hypotheses of the theorems above are met by concrete non-trivial instances over Z *)
Theorem C20_hypotheses_satisfiable :
  sel_ok 2 2 [0; 1] [0; 1] /\ ff_shapes_ok Z 2 2 FFWitness.vf FFWitness.vJ FFWitness.vG FFWitness.vDJ /\
  vlen FFWitness.vz = 2 + 2 * 2 + 2 * 2 * 2 /\ mixed_vanish Z 0%Z (zeros Z 0%Z 4 2) (zeros Z 0%Z 4 2) /\
  (exists h : nat -> nat -> Z, forall i k,
     (h i k + h i k)%Z = dir2 Z 0%Z Z.add Z.mul 2 2 [0; 1] [0; 1] CurvWitness.wZ (fun _ => 2%Z) i k).
Proof. exact (conj CurvWitness.w_sel (conj (proj1 FFWitness.v_shapes) (conj (proj2 FFWitness.v_shapes) (conj (conj (fun _ _ => eq_refl) (fun _ _ => eq_refl)) JetWitness.even_direction)))). Qed.
Print Assumptions C20_hypotheses_satisfiable.

(* the recorded known finding, as a witness: on f = theta*x (J = theta = 2, x = 3, S = 1, F = 0; d2f/dxdtheta = 1) the code's
   forward-forward right-hand side is 0, the true one is J F + 2 S = 2 *)
Theorem C20_ff_refuted :
  vget (ode_and_forwardforward Z 0%Z 1%Z Z.add Z.mul code_fffacts SensGen.code_facts 1 1 FFWitness.wf FFWitness.wJ FFWitness.wG
          FFWitness.wDJ FFWitness.wz) 2 = 0%Z /\
  ff_true_rhs Z 0%Z Z.add Z.mul 1 1 FFWitness.wJ FFWitness.wDJ FFWitness.wGJ FFWitness.wGG FFWitness.wz 0 0 0 = 2%Z /\
  ff_reads_mixed_derivatives = false.
Proof. exact (conj (proj1 FFWitness.ff_refuted) (conj (proj2 FFWitness.ff_refuted) eq_refl)). Qed.
Print Assumptions C20_ff_refuted.

(* the tree up to 8870a14, as witnesses: (1) residual-curvature term with a minus sign and without the second weight factor,
   (2) np.sort in _getTargetParamSensIndex with the target parameters, resp. the observed states, named in the order [1; 0] *)
Theorem C20_hessian_refuted :
  get CurvWitness.H_pinned 0 0 <> hess_spec Z 0%Z Z.add Z.mul Z.sub 2 2 [0; 1] [0; 1] CurvWitness.wW CurvWitness.wY CurvWitness.wZ 0 0.
Proof. exact CurvWitness.hessian_sign_refuted. Qed.
Print Assumptions C20_hessian_refuted.
Theorem C20_selection_refuted :
  get CurvWitness.J_pinned 0 0 <> jtj_spec Z 0%Z Z.add Z.mul 2 [0; 1] [1; 0] CurvWitness.wW CurvWitness.wZ 0 0 /\
  get CurvWitness.J_pinned_s 0 0 <> jtj_spec Z 0%Z Z.add Z.mul 2 [1; 0] [0; 1] CurvWitness.wW CurvWitness.wZ 0 0.
Proof. exact (conj CurvWitness.selection_refuted CurvWitness.selection_refuted_states). Qed.
Print Assumptions C20_selection_refuted.

(* ---- obligations on the facts extracted from the current source ---- *)
(* the translator recognised every anchored statement; reshape orders, weight loop, dot operand form, kron operand orders,
   the constants of the square-loss kernel and the factor of JTJ are the ones the theorems above are proved for *)
Theorem C20_code_facts :
  translator_ok = true /\ SensGen.translator_ok = true /\
  (jtj_reshape_order code_jfacts, jtj_weighted code_jfacts, jtj_dot_tfirst code_jfacts) = (OrdF, true, true) /\
  code_fffacts = good_fffacts /\
  (h_ff_order code_hfacts, h_kron_E_first code_hfacts, h_jtj_factor code_hfacts) = (OrdC, true, 2) /\
  (dl_negated code_hfacts, dl_factor code_hfacts, res_y_minus_yhat code_hfacts, res_weighted code_hfacts) = (true, 2, true, true).
Proof. vm_compute. repeat split. Qed.
Print Assumptions C20_code_facts.
(* ---- obligations about facts the code got wrong (kept last so that everything above is still checked):
   the selection facts failed up to 8870a14 (repaired by 52be26b), the residual-term facts still fail on 77f56d3 ---- *)
(* the index list of _getTargetParamSensIndex is one block per target parameter in the order supplied, not sorted *)
Theorem C20_selection_facts : sel_param_outer code_jfacts = true /\ sel_sorted code_jfacts = false.
Proof. vm_compute. repeat split. Qed.
Print Assumptions C20_selection_facts.

(* FULL statement for jtj(theta): with the column selection of _sensToJTJWithoutIndex, for EVERY order in which the observed
   states and the target parameters are named, entry (a, b) is the sum over observations and observed states of
   w^2 dx/dtheta_pidx[a] dx/dtheta_pidx[b].  (Does not type-check while _getTargetParamSensIndex sorts its index list.) *)
Theorem C20_jtj_selected :
  forall (A : Type) (a0 a1 : A) (add mul sub : A -> A -> A) (opp : A -> A) (Rth : ring_theory a0 a1 add mul sub opp (@eq A))
         nS (sidx pidx : list nat) (W Z : arr A), sidx <> [] ->
    let M := jtj_sel A a0 add mul code_jfacts nS sidx pidx W Z in
    nr M = length pidx /\ nc M = length pidx /\
    forall a b, a < length pidx -> b < length pidx -> get M a b = jtj_spec A a0 add mul nS sidx pidx W Z a b.
Proof. exact jtj_sel_entry. Qed.
Print Assumptions C20_jtj_selected.

(* the residual-curvature term enters with a plus sign and with the weight *)
Theorem C20_hessian_facts : h_resid_negated code_hfacts = false /\ h_resid_weighted code_hfacts = true.
Proof. vm_compute. repeat split. Qed.
Print Assumptions C20_hessian_facts.

(* FULL statement for hessian(theta): the assembled matrix is the chain-rule second derivative of the square-loss cost
     sum_i sum_k [ 2 w^2 dx/da dx/db + 2 w^2 (x - y) d2x/da db ]
   given the integrated second-order system Z, for every naming order of distinct observed states and of target parameters.
   (Does not type-check while the residual-curvature term enters with a minus sign / without the second weight factor, or
   while the selection sorts.) *)
Theorem C20_hessian :
  forall (A : Type) (a0 a1 : A) (add mul sub : A -> A -> A) (opp : A -> A) (Rth : ring_theory a0 a1 add mul sub opp (@eq A))
         nS nP (sidx pidx : list nat) (W Y Z : arr A), sel_ok nS nP sidx pidx ->
    let M := hessian A a0 a1 add mul sub opp code_jfacts code_hfacts nS nP sidx pidx W Y Z in
    nr M = length pidx /\ nc M = length pidx /\
    forall a b, a < length pidx -> b < length pidx -> get M a b = hess_spec A a0 add mul sub nS nP sidx pidx W Y Z a b.
Proof. exact hessian_entry. Qed.
Print Assumptions C20_hessian.
