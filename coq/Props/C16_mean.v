(* C16 (second file) — the reported mean trajectory of simulate_param / solve_determ equals the mean of the
   individual runs returned alongside it.  Only statements; proofs in ReproProofs.v. *)
From Coq Require Import List String QArith Qcanon.
From PV Require Import Repro ReproProofs Gen.SourcesGen.
Import ListNotations.

(* obligation on the extracted way the reported mean and the list of runs are computed *)
Theorem C16_mean_forms_ok : mean_ok = true /\ forms_ok mean_forms runs_forms = true.
Proof. vm_compute. split; reflexivity. Qed.
Print Assumptions C16_mean_forms_ok.

(* the reported mean is, entry by entry, (1/n) * sum of the individual runs: for every iteration count n > 0 and
   every trajectory length L, for the extracted way simulate_param and solve_determ compute it *)
Theorem C16_mean :
  forall nm f, In (nm, f) mean_forms ->
  forall iteration runs L, iteration <> 0%nat -> List.length runs = iteration ->
  Forall (fun r => List.length r = L) runs ->
  mean_impl f iteration runs L = mean_spec runs L.
Proof. exact (mean_correct_tbl _ _ (proj2 C16_mean_forms_ok)). Qed.
Print Assumptions C16_mean.

Theorem C16_mean_wrong_count_refuted :
  mean_impl RunningSumDivIter 3%nat [[Q2Qc 1]; [Q2Qc 2]] 1%nat <> mean_spec [[Q2Qc 1]; [Q2Qc 2]] 1%nat.
Proof. exact mean_wrong_count_refuted. Qed.
Print Assumptions C16_mean_wrong_count_refuted.
