(* C09 — parameter values are bound to the parameters they were given for.
   Only statements here; proofs live in ParamsProofs.v.  Gen.ParamsGen is regenerated from
   /repo/src/pygom/model/base_ode_model.py on every run. *)
From Coq Require Import List ZArith.
From PV Require Import Params ParamsProofs ParamsAtomic Gen.ParamsGen.
Import ListNotations.

(* facts extracted from the current source of the `parameters` setter *)
Theorem C09_code_facts :
  translator_ok = true /\ dict_branch_aliases = false /\
  pairs_key_index = 0%nat /\ pairs_value_index = 1%nat /\ rebuild_loop_is_canonical = true /\
  commit_is_atomic = true /\ setsp_keeps_values = true.
Proof. vm_compute. repeat split. Qed.

(* the setter ends with self.set_sp(); with the extracted fact (no statement of set_sp writes the values) the setter followed
   by its tail is, on every history, the setter the theorems below are about *)
Theorem C09_tail_keeps : forall decl ops s,
  fold_left (fun st o => fst (step_tail decl dict_branch_aliases setsp_keeps_values st o)) ops s =
  fold_left (fun st o => fst (step decl dict_branch_aliases st o)) ops s.
Proof. intros. apply tail_keeps. Qed.
Print Assumptions C09_tail_keeps.

(* a set_sp that resets the values violates the statement (the shape of seeded change C09r7a) *)
Theorem C09_tail_wipes_refuted :
  bound [0%nat; 1%nat] (fst (step_tail [0%nat; 1%nat] false false (init [0%nat; 1%nat]) (SetList [7; 8]%Z))) 0%nat = 0%Z /\
  bound [0%nat; 1%nat] (fst (step_tail [0%nat; 1%nat] false true (init [0%nat; 1%nat]) (SetList [7; 8]%Z))) 0%nat = 7%Z.
Proof. exact tail_wipes_refuted. Qed.
Print Assumptions C09_tail_wipes_refuted.

(* names that `_extractParamSymbol` accepts but that are not parameters (state names, t) reach the rebuild loop; with the
   extracted commit order the setter refined with that acceptance test (ParamsAtomic.step_f) is, on every history, the
   setter the theorems below are about: such names are rejected and change nothing *)
Theorem C09_commit_atomic : forall decl known ops,
  fold_left (fun st o => fst (step_f decl known commit_is_atomic st o)) ops (init decl) =
  fold_left (fun st o => fst (step decl false st o)) ops (init decl).
Proof. intros. apply trace_f_atomic; reflexivity. Qed.
Print Assumptions C09_commit_atomic.

(* the pinned order (store, then resolve names) violates the statement: witness replayed on pygom *)
Theorem C09_nonatomic_refuted :
  bound [0%nat] (na_run false) 0%nat = 0%Z /\ bound [0%nat] (na_run true) 0%nat = 904%Z.
Proof. split; [exact (proj1 nonatomic_refuted)|exact atomic_witness_ok]. Qed.
Print Assumptions C09_nonatomic_refuted.

(* every history of assignments — accepted or rejected, positional / pairs / dict / partial dict, in
   any order — leaves each declared parameter bound to the value the specification map holds *)
Theorem C09_bind : forall decl, NoDup decl -> forall ops p, declared decl p = true ->
  bound decl (fst (run decl dict_branch_aliases ops)) p = snd (run decl dict_branch_aliases ops) p.
Proof. exact bind_all. Qed.
Print Assumptions C09_bind.

Theorem C09_reject_unchanged : forall decl s o s',
  step decl dict_branch_aliases s o = (s', false) -> s' = s.
Proof. exact reject_unchanged. Qed.
Print Assumptions C09_reject_unchanged.

Theorem C09_unknown_rejected : forall decl s l p v, In (p, v) l -> declared decl p = false ->
  snd (step decl dict_branch_aliases s (SetPairs l)) = false /\
  snd (step decl dict_branch_aliases s (SetDict l)) = false.
Proof. exact unknown_rejected. Qed.
Print Assumptions C09_unknown_rejected.

Theorem C09_wrong_length_rejected : forall decl s vs, length vs <> length decl ->
  snd (step decl dict_branch_aliases s (SetList vs)) = false.
Proof. exact wrong_length_rejected. Qed.
Print Assumptions C09_wrong_length_rejected.

(* a 2-D array is accepted only as an (n,1)/(n,) shaped set of exactly n values: (n,k), (1,n), (k,n) are rejected *)
Theorem C09_wrong_shape_rejected : forall decl s rows vs, rows <> length decl \/ length vs <> length decl ->
  snd (step decl dict_branch_aliases s (SetArr rows vs)) = false.
Proof. exact wrong_shape_rejected. Qed.
Print Assumptions C09_wrong_shape_rejected.

(* the aliasing variant of the dict branch violates the statement (witness replayed on pygom) *)
Theorem C09_alias_leak_refuted :
  bound leak_decl (fst (run leak_decl true leak_ops)) 1 <> snd (run leak_decl true leak_ops) 1%nat.
Proof. exact alias_leak_refuted. Qed.
Print Assumptions C09_alias_leak_refuted.
