(* C06 — cost is the stated loss of the model trajectory against the data.
   Only statements here; proofs live in LossAlignProofs.v / LossAlignIV.v.  Gen.LossAlignGen is regenerated from
   $PYGOM_REPO/src/pygom/{loss/base_loss.py, loss/ode_loss.py, model/base_ode_model.py} on every run:
     code_facts   how rows and columns of the solution are produced (sorting, grid, origin row) and whether _x0 keeps
                  an integer dtype,
     weight_tree  the branch structure of _setWeight_or_spread, wos_reshapes  whether it ends with np.reshape(x, (n, p)),
     iv_tree      the branch structure of _setParamStateInput,
     loss_table   which spread argument each loss class forwards and which kernel it instantiates.
   A statement about these constants type-checks only when the extracted value is a good one.
   Names are numbers; `decl` is the declared state (parameter) list; the ODE solution `sol` (C02) and the loss kernel
   (C14) are arbitrary functions; scalars live in an arbitrary type (ring laws are needed by C06_zero only). *)
From Coq Require Import List Arith ZArith Bool Ring.
From PV Require Import Shapes LossAlign LossAlignProofs LossAlignIV Gen.LossAlignGen.
Import ListNotations.

(* ---- what the translator recognised in the current source (everything except the two defect-prone facts below) *)
Theorem C06_code_facts :
  translator_ok = true /\ structure_ok = true /\ mq_rule_canonical = true /\ align_ok code_facts = true /\
  ivtree_eqb iv_tree good_ivtree = true /\ ltable_eqb loss_table good_loss_table = true.
Proof. vm_compute. repeat split. Qed.
Print Assumptions C06_code_facts.

(* ---- names: position j of get_state_index(names) is the (first) place of the j-th NAMED state, for any order of
   names; all names known -> an answer; no answer -> some name is unknown *)
Theorem C06_index : forall decl names,
  (forall idx, state_index (index_sorted code_facts) decl names = Some idx ->
     length idx = length names /\
     forall j, j < length names -> nth_error decl (nth j idx 0) = Some (nth j names 0) /\
                                  forall k, k < nth j idx 0 -> nth_error decl k <> Some (nth j names 0)) /\
  ((forall x, In x names -> In x decl) -> exists idx, state_index (index_sorted code_facts) decl names = Some idx) /\
  (state_index (index_sorted code_facts) decl names = None -> exists x, In x names /\ ~ In x decl).
Proof.
  exact (fun decl names => conj (state_index_spec decl names)
          (conj (state_index_total _ decl names) (state_index_unknown _ decl names))).
Qed.
Print Assumptions C06_index.

(* ---- rows and columns of _getSolution: row i <-> i-th observation time, column j <-> j-th named state *)
Theorem C06_align : forall (A : Type) (a0 : A) (sol : list A -> list A -> A -> A -> nat -> A)
    pv x0 t0 ts decl names idx,
  state_index (index_sorted code_facts) decl names = Some idx ->
  let S := get_solution A a0 sol code_facts pv x0 t0 ts idx in
  nr S = length ts /\ nc S = length names /\
  forall i j, i < length ts -> j < length names ->
    exists k, nth_error decl k = Some (nth j names 0) /\ get S i j = sol pv x0 t0 (nth i ts a0) k.
Proof. exact (fun A a0 sol => align_full A a0 sol code_facts eq_refl). Qed.
Print Assumptions C06_align.

(* ---- cost = sum_i sum_j kernel(y_ij, x_{name j}(t_i), spread_ij, w_ij) *)
Theorem C06_cost : forall (A : Type) (a0 : A) (add : A -> A -> A) (sol : list A -> list A -> A -> A -> nat -> A)
    (kernel : A -> A -> A -> A -> A) pv x0 t0 ts decl names idx y s w,
  state_index (index_sorted code_facts) decl names = Some idx ->
  cost_of A a0 add kernel (length ts) (length names) y s w (get_solution A a0 sol code_facts pv x0 t0 ts idx) =
  sumn A a0 add (length ts) (fun i => sumn A a0 add (length names) (fun j =>
    kernel (at2 A (length names) y i j) (sol pv x0 t0 (nth i ts a0) (nth j idx 0))
           (at2 A (length names) s i j) (at2 A (length names) w i j))) /\
  forall j, j < length names -> nth_error decl (nth j idx 0) = Some (nth j names 0).
Proof. exact (fun A a0 add sol kernel => cost_full A a0 add sol kernel code_facts eq_refl). Qed.
Print Assumptions C06_cost.

(* ---- observations equal to the solution in the named states at the observation times: square cost = 0 *)
Theorem C06_zero : forall (A : Type) (a0 a1 : A) (add mul sub : A -> A -> A) (opp : A -> A)
    (Rth : ring_theory a0 a1 add mul sub opp (@eq A)) (sol : list A -> list A -> A -> A -> nat -> A)
    pv x0 t0 ts idx y s w,
  (forall i j, i < length ts -> j < length idx -> at2 A (length idx) y i j = sol pv x0 t0 (nth i ts a0) (nth j idx 0)) ->
  cost_of A a0 add (sq_kernel A mul sub) (length ts) (length idx) y s w (get_solution A a0 sol code_facts pv x0 t0 ts idx) = a0.
Proof.
  exact (fun A a0 a1 add mul sub opp Rth sol pv x0 t0 ts idx y s w =>
           cost_zero_at_solution A a0 a1 add mul sub opp Rth sol code_facts pv x0 t0 ts idx y s w eq_refl).
Qed.
Print Assumptions C06_zero.

(* ---- cost(theta) with target_param = l: the k-th entry of theta is bound to the k-th target parameter, every other
   parameter keeps its value (pval = the value a named parameter has in the vector the evaluators see) *)
Theorem C06_setparam : forall (A : Type) (a0 : A) declp pv l theta,
  NoDup declp -> length pv = length declp -> l <> [] -> NoDup l -> (forall k, In k l -> In k declp) ->
  length theta = length l ->
  exists d pv', set_param A (Some l) theta = Ok (ThDict d) /\ apply_theta A declp pv (ThDict d) = Ok pv' /\
    length pv' = length pv /\
    (forall k, k < length l -> pval A declp pv' (nth k l 0) = Some (nth k theta a0)) /\
    (forall name, In name declp -> ~ In name l -> pval A declp pv' name = pval A declp pv name).
Proof. exact set_param_bind. Qed.
Print Assumptions C06_setparam.

(* without target_param theta is the full vector in declaration order *)
Theorem C06_setparam_all : forall (A : Type) (a0 : A) declp pv theta, NoDup declp -> length theta = length declp ->
  exists pv', set_param A None theta = Ok (ThArr theta) /\ apply_theta A declp pv (ThArr theta) = Ok pv' /\
    forall k, k < length declp -> pval A declp pv' (nth k declp 0) = Some (nth k theta a0).
Proof. exact set_param_all. Qed.
Print Assumptions C06_setparam_all.

(* wrong lengths and unknown names are errors, never a silent mis-binding *)
Theorem C06_setparam_rejects : forall (A : Type) declp pv l theta,
  (l <> [] -> length theta <> length l -> exists e, set_param A (Some l) theta = Err e) /\
  (length theta <> length declp -> exists e, apply_theta A declp pv (ThArr theta) = Err e) /\
  (forall d k, In k (map fst d) -> ~ In k declp -> exists e, apply_theta A declp pv (ThDict d) = Err e).
Proof. exact set_param_rejects. Qed.
Print Assumptions C06_setparam_rejects.

(* ---- costIV(theta_and_x0), the branch structure read from the source: which slice goes where *)
Theorem C06_setparam_IV_all : forall (A : Type) (a0 : A) (cast : A -> A) decls nP theta thint st,
  length theta = length decls + nP -> 0 < length decls ->
  exists st', set_param_state_input A cast code_facts decls nP None None iv_tree theta thint st = Ok st' /\
    pv A st' = pv A st /\ x0int A st' = (x0_keeps_dtype code_facts && thint) /\ th A st' = ThArr (firstn nP theta) /\
    length (x0 A st') = length decls /\
    (forall k, k < length decls -> nth k (x0 A st') a0 = nth (nP + k) theta a0) /\
    (forall k, k < nP -> nth k (firstn nP theta) a0 = nth k theta a0).
Proof. exact (fun A a0 cast => iv_all_bind A a0 cast code_facts). Qed.
Print Assumptions C06_setparam_IV_all.

Theorem C06_setparam_IV_branches : forall (A : Type) (cast : A -> A) decls nP,
  (forall l2 theta thint st, length theta = length l2 ->
     set_param_state_input A cast code_facts decls nP None (Some l2) iv_tree theta thint st =
       bind (unroll_state A cast decls l2 theta (x0int A st) (x0 A st)) (fun x =>
         Ok {| pv := pv A st; th := th A st; x0 := x; x0int := x0int A st |})) /\
  (forall l2 theta thint st, length theta = nP + length l2 -> nP <> 0 ->
     set_param_state_input A cast code_facts decls nP None (Some l2) iv_tree theta thint st =
       bind (unroll_state A cast decls l2 (lastn (length l2) theta) (x0int A st) (x0 A st)) (fun x =>
         Ok {| pv := pv A st; th := ThArr (firstn nP theta); x0 := x; x0int := x0int A st |})) /\
  (forall l1 theta thint st d, th A st = ThDict d -> length theta = length decls + length l1 ->
     length l1 <> nP -> length theta <> nP ->
     set_param_state_input A cast code_facts decls nP (Some l1) None iv_tree theta thint st =
       bind (unroll_param A l1 (firstn (length l1) theta) d) (fun d' =>
         Ok {| pv := pv A st; th := ThDict d'; x0 := lastn (length decls) theta;
               x0int := x0_keeps_dtype code_facts && thint |})) /\
  (forall theta thint st, length theta <> length decls + nP ->
     exists e, set_param_state_input A cast code_facts decls nP None None iv_tree theta thint st = Err e) /\
  (forall l1 l2 theta thint st, length theta <> length l1 + length l2 ->
     exists e, set_param_state_input A cast code_facts decls nP (Some l1) (Some l2) iv_tree theta thint st = Err e).
Proof.
  exact (fun A cast decls nP =>
    conj (iv_states_only A cast code_facts decls nP)
   (conj (iv_params_states A cast code_facts decls nP)
   (conj (iv_params_only A cast code_facts decls nP)
   (conj (iv_all_rejects A cast code_facts decls nP) (iv_both_rejects A cast code_facts decls nP))))).
Qed.
Print Assumptions C06_setparam_IV_branches.

(* ---- what would go wrong: each deviation the facts could report breaks the statement on a concrete input *)
Theorem C06_sorted_refuted :
  state_index true Witness.decl Witness.names = Some [0; 2] /\
  get (get_solution Z 0%Z Witness.wsol Witness.sorted_cols [] [7; 8; 9]%Z 0%Z [1; 2]%Z [2; 0]) 0 0 <>
    Witness.wsol [] [7; 8; 9]%Z 0%Z 1%Z 2.
Proof. exact Witness.sorted_refuted. Qed.
Print Assumptions C06_sorted_refuted.

Theorem C06_origin_refuted :
  get (get_solution Z 0%Z Witness.wsol Witness.with_origin [] [7; 8; 9]%Z 0%Z [1; 2]%Z [2; 0]) 0 0 <>
    Witness.wsol [] [7; 8; 9]%Z 0%Z 1%Z 2 /\
  nr (get_solution Z 0%Z Witness.wsol Witness.with_origin [] [7; 8; 9]%Z 0%Z [1; 2]%Z [2; 0]) = 3 /\
  get (get_solution Z 0%Z Witness.wsol Witness.grid_with_t0 [] [7; 8; 9]%Z 0%Z [1; 2]%Z [2; 0]) 0 0 <>
    Witness.wsol [] [7; 8; 9]%Z 0%Z 1%Z 2.
Proof. exact Witness.origin_refuted. Qed.
Print Assumptions C06_origin_refuted.

(* the branch structure of 76dc926..8870a14: per-state weights [2; 3] given as a column for n = p = 2 are applied per
   observation row (entry (0,1) = 2, entry (1,0) = 3) without any error *)
Theorem C06_colvec_refuted :
  wclass_of 2 2 (sh Witness.wcol) = WPerState /\
  match loss_array Z true pinned_tree 2 2 Witness.wy Witness.wcol with
  | Ok w => at2 Z 2 w 0 1 = 2%Z /\ at2 Z 2 w 1 0 = 3%Z /\ fl Witness.wcol 1 = 3%Z /\ fl Witness.wcol 0 = 2%Z
  | Err _ => False
  end /\
  tree_equiv pinned_tree good_tree = false.
Proof. exact Witness.colvec_refuted. Qed.
Print Assumptions C06_colvec_refuted.

(* an _x0 that stays an integer array truncates the initial value written by costIV (half units: 4.5 -> 4) *)
Theorem C06_dtype_refuted :
  match set_param_state_input Z LossAlignCases.zcast Witness.keep Witness.decl 2 None (Some [1]) good_ivtree [9%Z] false
                              (Witness.st0 (x0_keeps_dtype Witness.keep && true)) with
  | Ok st' => pval Z Witness.decl (x0 Z st') 1 = Some 8%Z
  | Err _ => False
  end /\
  match set_param_state_input Z LossAlignCases.zcast good_facts Witness.decl 2 None (Some [1]) good_ivtree [9%Z] false
                              (Witness.st0 (x0_keeps_dtype good_facts && true)) with
  | Ok st' => pval Z Witness.decl (x0 Z st') 1 = Some 9%Z
  | Err _ => False
  end.
Proof. exact Witness.dtype_refuted. Qed.
Print Assumptions C06_dtype_refuted.

(* the hypotheses used above are met by a concrete instance (3 states, observed ['R', 'S'], n = p = 2) *)
Theorem C06_hypotheses_satisfiable :
  align_ok good_facts = true /\ state_index false Witness.decl Witness.names = Some [2; 0] /\ NoDup Witness.decl /\
  NoDup Witness.names /\ (forall x, In x Witness.names -> In x Witness.decl) /\ tree_equiv good_tree good_tree = true /\
  sh Witness.wy = yshape 2 2 /\ ivtree_eqb good_ivtree good_ivtree = true.
Proof. exact Witness.hyps_ok. Qed.
Print Assumptions C06_hypotheses_satisfiable.

(* ==== the two statements that depend on the defect-prone facts come last ==== *)

(* ---- weights / spread: a scalar, a vector of p numbers (any orientation) and an array shaped like the observations
   give exactly the stated n x p array held by the loss object — entry by entry — and every other input is refused.
   y is the normalised observation array ((n,) when p = 1, else (n, p)); n >= 2 or p = 1.  Holds whether the method
   returns x as it is or np.reshape(x, (n, p)) (wos_reshapes, 8f89322): the loss object flattens a one-column array anyway.
   Needs: the extracted tree computes the same action as good_tree for every (n, p, m, q)
   (fails on 76dc926..8870a14: the `p == m` leaf multiplies by x instead of x.ravel()). *)
Theorem C06_broadcast : forall (A : Type) n p (y x : nda A),
  1 <= n -> 1 <= p -> (2 <= n \/ p = 1) -> sh y = yshape n p ->
  match wclass_of n p (sh x) with
  | WScalar => exists w, loss_array A wos_reshapes weight_tree n p y x = Ok w /\ sh w = sh y /\
                 forall i j, i < n -> j < p -> at2 A p w i j = fl x 0
  | WPerState => exists w, loss_array A wos_reshapes weight_tree n p y x = Ok w /\ sh w = sh y /\
                 forall i j, i < n -> j < p -> at2 A p w i j = fl x j
  | WPerObs => exists w, loss_array A wos_reshapes weight_tree n p y x = Ok w /\ sh w = sh y /\
                 forall i j, i < n -> j < p -> at2 A p w i j = fl x (i * p + j)
  | WBad => exists e, loss_array A wos_reshapes weight_tree n p y x = Err e
  end.
Proof. exact (fun A => broadcast_spec A wos_reshapes weight_tree (tree_equiv_sound weight_tree good_tree eq_refl)). Qed.
Print Assumptions C06_broadcast.

(* ---- costIV(theta_and_x0) with target_param = l1 and target_state = l2 on a loss object whose _x0 was stored by
   the constructor or by _setX0 (x0int = x0_keeps_dtype && .): the first len(l1) entries are bound to the target
   parameters, the last len(l2) entries become the initial values of the target states, everything else is unchanged.
   Needs x0_keeps_dtype code_facts = false (fails on 76dc926..8870a14: np.copy(x0) keeps an integer dtype). *)
Theorem C06_setparam_IV : forall (A : Type) (a0 : A) (cast : A -> A) decls nP l1 l2 theta thint st d b,
  NoDup decls -> NoDup l1 -> NoDup l2 -> (forall s, In s l2 -> In s decls) -> length (x0 A st) = length decls ->
  th A st = ThDict d -> length theta = length l1 + length l2 -> x0int A st = (x0_keeps_dtype code_facts && b) ->
  exists st', set_param_state_input A cast code_facts decls nP (Some l1) (Some l2) iv_tree theta thint st = Ok st' /\
    pv A st' = pv A st /\ x0int A st' = false /\ length (x0 A st') = length decls /\
    (forall k, k < length l2 -> pval A decls (x0 A st') (nth k l2 0) = Some (nth (length l1 + k) theta a0)) /\
    (forall s, In s decls -> ~ In s l2 -> pval A decls (x0 A st') s = pval A decls (x0 A st) s) /\
    exists d', th A st' = ThDict d' /\
      (forall k, k < length l1 -> lookup A d' (nth k l1 0) = Some (nth k theta a0)) /\
      (forall key, ~ In key l1 -> lookup A d' key = lookup A d key).
Proof.
  exact (fun A a0 cast decls nP l1 l2 theta thint st d b =>
           iv_both_bind A a0 cast code_facts decls nP l1 l2 theta thint st d).
Qed.
Print Assumptions C06_setparam_IV.
