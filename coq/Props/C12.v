(* C12 — equivalent ways of specifying a model give the same model (algebraic part; the normalisation of the
   API routes to an event list is tied by the correspondence check in harness/c12.py). *)
From Coq Require Import List Arith Ring Permutation.
From PV Require Import Assembly AssemblyProofs Gen.AssemblyGen Routes Gen.RoutesGen.
Import ListNotations.

Theorem C12_code_is_model :
  translator_ok = true /\ ode_table_ok ode_tab ode_res = true /\ oscope_ok ode_scope ode_res = true.
Proof. vm_compute. repeat split. Qed.

(* the API routes, as the current source of the constructors, add_* methods and list setters normalises them
   (Gen/RoutesGen.v: that source run on symbolic processes): every route stores exactly one event carrying the rate and the
   canonical transitions of the process it was given; the caller's objects are unchanged; list order is kept; the
   explicit-ODE route stores the equation; malformed descriptions are refused *)
Theorem C12_routes_table :
  RoutesGen.translator_ok = true /\ routes_ok route_rows reuse_rows order_row ode_route_ok refused_rows = true.
Proof. vm_compute. split; reflexivity. Qed.

Lemma routes_rows_ok : forall row, In row route_rows -> row_ok row = true.
Proof. assert (H : forallb row_ok route_rows = true) by (vm_compute; reflexivity).
  intros row Hin. exact (proj1 (forallb_forall _ _) H row Hin). Qed.

Section Routes.
  Variables (A : Type) (a0 a1 : A) (add mul sub : A -> A -> A) (opp : A -> A).
  (* whatever state names o d, magnitudes ms and rate r the symbols stand for: the event stored by any route of the table
     contributes to every state what the canonical description of that process contributes *)
  Theorem C12_routes : forall row, In row route_rows -> forall (o d : nat) (ms : nat -> A) (r : A),
    exists trs, snd row = Stored [(true, trs)] true /\
      rate (inst_ev A o d ms r trs) = r /\
      forall rest i, ev_part A a0 a1 add mul sub opp (inst_ev A o d ms r trs :: rest) i
                   = ev_part A a0 a1 add mul sub opp (inst_ev A o d ms r (expected (snd (fst row))) :: rest) i.
  Proof. intros row Hin o d ms r. exact (route_sound A a0 a1 add mul sub opp o d ms r row (routes_rows_ok row Hin)). Qed.
End Routes.
Print Assumptions C12_routes.

Section Ring.
  Variables (A : Type) (a0 a1 : A) (add mul sub : A -> A -> A) (opp : A -> A).
  Hypothesis Rth : ring_theory a0 a1 add mul sub opp (@eq A).

  (* any order of events and of explicit ODE terms gives the same right-hand side *)
  Theorem C12_perm : forall (m1 m2 : model A),
    Permutation (events m1) (events m2) -> Permutation (odes m1) (odes m2) ->
    forall i, code_ode A a0 a1 add mul opp ode_tab ode_scope ode_res m1 i
            = code_ode A a0 a1 add mul opp ode_tab ode_scope ode_res m2 i.
  Proof. intros m1 m2 He Ho i.
    rewrite !(code_ode_sound A a0 a1 add mul sub opp Rth ode_tab ode_scope ode_res eq_refl eq_refl).
    exact (perm_invariant A a0 a1 add mul sub opp Rth m1 m2 He Ho i). Qed.

  (* Event([tr1..trk]) with one rate  ==  k single-transition processes carrying that rate (legacy route) *)
  Theorem C12_split_event : forall r trs rest i,
    ev_part A a0 a1 add mul sub opp ({| rate := r; trans := trs |} :: rest) i
    = ev_part A a0 a1 add mul sub opp (map (fun tr => {| rate := r; trans := [tr] |}) trs ++ rest) i.
  Proof. exact (split_event A a0 a1 add mul sub opp Rth). Qed.

  (* the explicit-ODE route: entering component k of the assembled right-hand side as the ODE of state k *)
  Theorem C12_explicit_route : forall (m : model A) n i, i < n ->
    ode_vec A a0 a1 add mul sub opp
      {| nS := n; events := []; odes := map (fun k => (k, ode_vec A a0 a1 add mul sub opp m k)) (seq 0 n) |} i
    = ode_vec A a0 a1 add mul sub opp m i.
  Proof. exact (explicit_route A a0 a1 add mul sub opp Rth). Qed.

  (* a birth named by origin (normalised to destination = origin by Transition.__init__) acts on that state *)
  Theorem C12_birth_origin : forall s m0 i,
    sgn A a0 a1 sub opp {| ty := B; orig := s; dest := s; mag := m0 |} i = ind A a0 a1 (Nat.eqb s i).
  Proof. exact (birth_origin_is_destination A a0 a1 sub opp). Qed.
End Ring.
Print Assumptions C12_perm.
Print Assumptions C12_split_event.
Print Assumptions C12_explicit_route.
Print Assumptions C12_birth_origin.
