(* C16 — seeded serial simulations are reproducible.
   Only statements here; model in Repro.v, proofs in ReproProofs.v.  The statements about the reported mean are in
   Props/C16_mean.v (a separate file so that a broken source obligation and a broken mean obligation are
   reported independently).  Gen.SourcesGen is regenerated on every run
   from simulate.py, deterministic.py, base_ode_model.py, stochastic_simulation.py and utilR/distn.py. *)
From Coq Require Import List String QArith Qcanon.
From PV Require Import Repro ReproProofs Gen.SourcesGen.
Import ListNotations.

(* statements that do not depend on the extracted table come first, so that they are still checked when the table
   obligation breaks *)
(* consequences that are observable on the implementation: the first k of n iterations are the k-iteration
   simulation from the same seed; n1+n2 iterations = n1 iterations then n2 more without reseeding *)
Theorem C16_prefix :
  forall (G Q V : Type) (gen : Q -> G -> V * G) (O : Type) (p : proc Q V O) k n g, (k <= n)%nat ->
  firstn k (fst (iter_global G Q V gen n p g)) = fst (iter_global G Q V gen k p g).
Proof. exact iter_global_prefix. Qed.
Print Assumptions C16_prefix.

Theorem C16_continue :
  forall (G Q V : Type) (gen : Q -> G -> V * G) (O : Type) (p : proc Q V O) n1 n2 g,
  iter_global G Q V gen (n1 + n2)%nat p g =
  let '(l1, g1) := iter_global G Q V gen n1 p g in
  let '(l2, g2) := iter_global G Q V gen n2 p g1 in ((l1 ++ l2)%list, g2).
Proof. exact iter_global_add. Qed.
Print Assumptions C16_continue.

(* one draw site on a fresh-entropy generator breaks the statement (witness program) *)
Theorem C16_fresh_refuted :
  uses_tbl [FreshEntropy] (w_prog FreshEntropy) /\
  fst (run w_gen w_seeded w_fresh (w_prog FreshEntropy) 3%nat 100%nat) <>
  fst (run w_gen w_seeded w_fresh (w_prog FreshEntropy) 3%nat 101%nat).
Proof. exact fresh_refuted. Qed.
Print Assumptions C16_fresh_refuted.

(* different seeds: only this conditional form is provable (see REPORT); the unconditional claim is tested *)
Theorem C16_diff_seed_partial :
  forall G Q V O (gen : Q -> G -> V * G) (q : Q) (k : V -> O) g1 g2,
  (forall v w, k v = k w -> v = w) -> fst (gen q g1) <> fst (gen q g2) ->
  fst (run_global gen (Draw Global q (fun v => Ret (k v))) g1) <>
  fst (run_global gen (Draw Global q (fun v => Ret (k v))) g2).
Proof. exact diff_seed_first_draw. Qed.
Print Assumptions C16_diff_seed_partial.

(* obligation on the extracted table: every draw site reachable from the serial paths, and every pygom.utilR
   sampler called without a seed, draws from numpy's global generator *)
Theorem C16_sources_global :
  sources_ok = true /\ forallb is_global (table sources sampler_sources) = true.
Proof. vm_compute. split; reflexivity. Qed.
Print Assumptions C16_sources_global.

(* for all generator functions, all request/value/output types and all programs (later draws may depend on
   earlier values) that draw only at sites of the extracted table: two runs started from equal global generator
   states give equal outputs and leave equal global states, whatever the outside entropy does *)
Theorem C16_repro :
  forall (G E Q V : Type) (gen : Q -> G -> V * G) (seeded : string -> G) (fresh : E -> G * E)
         (O : Type) (p : proc Q V O), uses_tbl (table sources sampler_sources) p ->
  forall g e1 e2, fst (run gen seeded fresh p g e1) = fst (run gen seeded fresh p g e2).
Proof. exact (fun G E Q V gen seeded fresh => repro_tbl G E Q V gen seeded fresh _ (proj2 C16_sources_global)). Qed.
Print Assumptions C16_repro.

(* the output (and the state left behind) is a function of (program, seed state) alone *)
Theorem C16_function_of_seed :
  forall (G E Q V : Type) (gen : Q -> G -> V * G) (seeded : string -> G) (fresh : E -> G * E)
         (O : Type) (p : proc Q V O), uses_tbl (table sources sampler_sources) p ->
  forall g e, fst (run gen seeded fresh p g e) = run_global gen p g.
Proof. exact (fun G E Q V gen seeded fresh => function_of_seed G E Q V gen seeded fresh _ (proj2 C16_sources_global)). Qed.
Print Assumptions C16_function_of_seed.

(* n serial iterations thread the global state: run i starts where run i-1 stopped *)
Theorem C16_iterations :
  forall (G E Q V : Type) (gen : Q -> G -> V * G) (seeded : string -> G) (fresh : E -> G * E)
         (O : Type) (p : proc Q V O) n, uses_tbl (table sources sampler_sources) p ->
  forall g e, fst (run gen seeded fresh (runs n p) g e) = iter_global G Q V gen n p g.
Proof. exact (fun G E Q V gen seeded fresh => runs_repro G E Q V gen seeded fresh _ (proj2 C16_sources_global)). Qed.
Print Assumptions C16_iterations.

(* the same for step machines run with fuel (simulations that need not terminate) *)
Theorem C16_repro_machine :
  forall (G E Q V : Type) (gen : Q -> G -> V * G) (seeded : string -> G) (fresh : E -> G * E)
         (St Out : Type) (step : St -> Out + (source * Q * (V -> St))),
  (forall s src q k, step s = inr (src, q, k) -> In src (table sources sampler_sources)) ->
  forall fuel s g e1 e2, option_map fst (mrun gen seeded fresh step fuel s g e1) =
                         option_map fst (mrun gen seeded fresh step fuel s g e2).
Proof. exact (fun G E Q V gen seeded fresh St Out step => mrepro_tbl G E Q V gen seeded fresh St Out step _ (proj2 C16_sources_global)). Qed.
Print Assumptions C16_repro_machine.
