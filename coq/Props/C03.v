(* C03 — Jacobian, gradient and higher derivative functions are the true derivatives.
   D is a differentiator defined and proved correct here (independent of sympy.diff); the model's
   derivative objects are D applied to the expression-level ODE in pygom's documented layouts.  The tie to the
   code is the exact correspondence run by harness/c03.py on every run (pygom's symbolic objects and numeric
   evaluators versus Coq's exact evaluation of these definitions). *)
From Coq Require Import Reals List Arith QArith.
From Coquelicot Require Import Coquelicot.
From Coq Require Import Lia.
From PV Require Import Assembly Expr ExprProofs ExprEval Derivs DerivsProofs Gen.DerivsGen.
Open Scope R_scope.

(* layout of the getters as extracted from the current source (regenerated every run): which entry receives the
   derivative of what with respect to what; the row index of get_grad_jacobian_eqn as coded is k*nS + i for all sizes *)
Theorem C03_layout_facts :
  translator_ok = true /\ jac_is_sympy_jacobian_of_states = true /\ grad_layout_ok = true /\ diffjac_layout_ok = true /\
  gradjac_entry_ok = true /\ tF_loop_ok = true /\ tmean_loop_ok = true /\ tvar_loop_ok = true.
Proof. vm_compute. repeat split. Qed.
Theorem C03_gradjac_row : forall k i j nS nP : nat, gj_row k i j nS nP = (k * nS + i)%nat.
Proof. intros. unfold gj_row. lia. Qed.

(* the differentiator is correct for every expression of the grammar at every point where it is defined *)
Theorem C03_D_correct : forall x r e, ok r e ->
  is_derive (fun v => ev (upd r x v) e) (r x) (ev r (D x e)).
Proof. exact D_correct. Qed.
Theorem C03_ok_D : forall x r e, ok r e -> ok r (D x e).
Proof. exact ok_D. Qed.

(* rows = declared states, columns = declared states / parameters *)
Theorem C03_jac : forall (m : emodel) r i j, ok r (eode m i) ->
  is_derive (fun v => ev (upd r j v) (eode m i)) (r j) (ev r (jac m i j)).
Proof. exact jac_correct. Qed.
Theorem C03_grad : forall (m : emodel) r i k, ok r (eode m i) ->
  is_derive (fun v => ev (upd r (pvar m k) v) (eode m i)) (r (pvar m k)) (ev r (grad m i k)).
Proof. exact grad_correct. Qed.
(* second state-derivatives: row i*nS + a, column b is d/dx_b of Jacobian entry (i,a) *)
Theorem C03_diff_jac : forall (m : emodel) r i a b, (a < nS m)%nat -> ok r (eode m i) ->
  is_derive (fun v => ev (upd r b v) (jac m i a)) (r b) (ev r (diff_jac m (i * nS m + a) b)).
Proof. exact diff_jac_correct. Qed.
(* state-derivative of the parameter gradient: row k*nS + i, column j is d/dx_j of gradient entry (i,k) *)
Theorem C03_grad_jac : forall (m : emodel) r k i j, (i < nS m)%nat -> ok r (eode m i) ->
  is_derive (fun v => ev (upd r j v) (grad m i k)) (r j) (ev r (grad_jac m (k * nS m + i) j)).
Proof. exact grad_jac_correct. Qed.

(* Cao et al. statistics: F = (d a / d x) V, mu = F a, sigma^2 = (F o F) a *)
Theorem C03_F : forall (m : emodel) r i j, ok r (erate m i) ->
  ev r (tF m i j)
  = rsum (map (fun k => Derive (fun v => ev (upd r k v) (erate m i)) (r k) * ev r (evmat m k j)) (seq 0 (nS m))).
Proof. exact tF_correct. Qed.
Theorem C03_mu : forall (m : emodel) r i,
  ev r (tmean m i) = rsum (map (fun j => ev r (tF m i j) * ev r (erate m j)) (seq 0 (nE m))).
Proof. exact tmean_correct. Qed.
Theorem C03_sigma : forall (m : emodel) r i,
  ev r (tvar m i) = rsum (map (fun j => ev r (tF m i j) * ev r (tF m i j) * ev r (erate m j)) (seq 0 (nE m))).
Proof. exact tvar_correct. Qed.

(* the differentiated object is the right-hand side of C01 *)
Theorem C03_ode_is_C01 : forall r (m : emodel) i,
  ev r (eode m i) = ode_vec R 0 1 Rplus Rmult Rminus Ropp (rmodel r m) i.
Proof. exact ev_eode. Qed.

(* the exact evaluator of the correspondence check is sound: a value it returns is the real value of the
   expression at that rational point (oracle entries assumed true function values; none needed for rational rates) *)
Theorem C03_eval_sound : forall o, truthful o -> forall r e q, evO r o e = Some q ->
  ok (renv r) e /\ ev (renv r) e = QcR q.
Proof. exact evO_sound. Qed.
(* hence: a Jacobian entry Coq computes and compares with pygom IS the partial derivative at that point *)
Theorem C03_jac_value : forall o, truthful o -> forall (m : emodel) r i j q0 q,
  evO r o (eode m i) = Some q0 -> evO r o (jac m i j) = Some q ->
  is_derive (fun v => ev (upd (renv r) j v) (eode m i)) (renv r j) (QcR q).
Proof. intros o Ho m r i j q0 q H0 H.
  destruct (evO_sound o Ho r _ _ H0) as [Hok _]. destruct (evO_sound o Ho r _ _ H) as [_ E].
  rewrite <- E. apply jac_correct, Hok. Qed.

(* the entry the CODE writes (row index as extracted) is the state-derivative of the parameter gradient *)
Theorem C03_grad_jac_code : forall (m : emodel) r k i j nP, (i < nS m)%nat -> ok r (eode m i) ->
  is_derive (fun v => ev (upd r j v) (grad m i k)) (r j) (ev r (grad_jac m (gj_row k i j (nS m) nP) j)).
Proof. intros m r k i j nP Hi H. rewrite C03_gradjac_row. apply grad_jac_correct; assumption. Qed.

Print Assumptions C03_D_correct.
Print Assumptions C03_jac_value.
Print Assumptions C03_diff_jac.
Print Assumptions C03_F.
Print Assumptions C03_ode_is_C01.
