(* C19 — R-style distribution helpers are the distributions they name.
   Only statements here; definitions in Distn.v, proofs in DistnProofs.v.  Gen.DistnGen is regenerated
   from src/pygom/utilR/distn.py on every run: `table` (what each d/p/q wrapper calls, per flag value and
   prob/mu alternative), `rtable` (what each generator draws from, per kind of seed) and
   `test_seed_table`.
   Part A does not depend on the source; part B is about the extracted tables and only type-checks
   when they have the good values; part C shows that the checks of part B do reject the defects of the
   pinned tree. *)
From Coq Require Import String List ZArith Reals.
Set Warnings "-ambiguous-paths".
From Coquelicot Require Import Coquelicot.
From PV Require Import Distn DistnProofs Gen.DistnGen.
Import ListNotations.
Open Scope R_scope.

(* ================================================================= A. closed forms (all arguments) *)
(* scipy's expon with scale = 1/rate is R's exponential with that rate: density, cdf, quantile *)
Theorem C19_exp_pdf : forall rate x, 0 < rate -> ls_pdf expon_pdf 0 (1 / rate) x = dexp_R rate x.
Proof. exact exp_pdf_rate. Qed.
Print Assumptions C19_exp_pdf.
Theorem C19_exp_cdf : forall rate q, 0 < rate -> ls_cdf expon_cdf 0 (1 / rate) q = pexp_R rate q.
Proof. exact exp_cdf_rate. Qed.
Print Assumptions C19_exp_cdf.
Theorem C19_exp_quantile : forall rate p, 0 < rate -> ls_ppf expon_ppf 0 (1 / rate) p = qexp_R rate p.
Proof. exact exp_ppf_rate. Qed.
Print Assumptions C19_exp_quantile.
(* q is the inverse of p, both ways *)
Theorem C19_exp_q_of_p : forall rate x, 0 < rate -> 0 <= x -> qexp_R rate (pexp_R rate x) = x.
Proof. exact exp_q_of_p. Qed.
Print Assumptions C19_exp_q_of_p.
Theorem C19_exp_p_of_q : forall rate p, 0 < rate -> 0 <= p < 1 -> pexp_R rate (qexp_R rate p) = p.
Proof. exact exp_p_of_q. Qed.
Print Assumptions C19_exp_p_of_q.
(* d is the density of p *)
Theorem C19_exp_density : forall rate x, 0 < x -> is_derive (pexp_R rate) x (dexp_R rate x).
Proof. exact exp_density. Qed.
Print Assumptions C19_exp_density.
Theorem C19_exp_log : forall rate x, 0 < rate -> 0 <= x -> ln (dexp_R rate x) = ln rate - rate * x.
Proof. exact exp_log_pdf. Qed.
Print Assumptions C19_exp_log.

(* scipy's uniform with loc = min, scale = max - min is R's uniform on [min, max] *)
Theorem C19_unif_pdf : forall a b x, a < b -> ls_pdf unif_pdf a (b - a) x = dunif_R a b x.
Proof. exact unif_pdf_minmax. Qed.
Print Assumptions C19_unif_pdf.
Theorem C19_unif_cdf : forall a b q, a < b -> ls_cdf unif_cdf a (b - a) q = punif_R a b q.
Proof. exact unif_cdf_minmax. Qed.
Print Assumptions C19_unif_cdf.
Theorem C19_unif_quantile : forall a b p, ls_ppf unif_ppf a (b - a) p = qunif_R a b p.
Proof. exact unif_ppf_minmax. Qed.
Print Assumptions C19_unif_quantile.
Theorem C19_unif_q_of_p : forall a b x, a < b -> a <= x <= b -> qunif_R a b (punif_R a b x) = x.
Proof. exact unif_q_of_p. Qed.
Print Assumptions C19_unif_q_of_p.
Theorem C19_unif_p_of_q : forall a b p, a < b -> 0 <= p <= 1 -> punif_R a b (qunif_R a b p) = p.
Proof. exact unif_p_of_q. Qed.
Print Assumptions C19_unif_p_of_q.
Theorem C19_unif_density : forall a b x, a < x < b -> is_derive (punif_R a b) x (dunif_R a b x).
Proof. exact unif_density. Qed.
Print Assumptions C19_unif_density.
Theorem C19_unif_log : forall a b x, a < b -> a <= x <= b -> ln (dunif_R a b x) = - ln (b - a).
Proof. exact unif_log_pdf. Qed.
Print Assumptions C19_unif_log.

(* scipy's norm with loc = mean, scale = sd is R's normal density *)
Theorem C19_norm_pdf : forall mean sd x, 0 < sd -> ls_pdf norm_pdf mean sd x = dnorm_R mean sd x.
Proof. exact norm_pdf_mean_sd. Qed.
Print Assumptions C19_norm_pdf.

(* negative binomial: the mean/size log-pmf is the (n, p) log-pmf at p = size/(size+mu), for every
   real x, size > 0, mu > 0 and every function standing for ln Gamma *)
Theorem C19_nb_identity : forall (lgam : R -> R) x mu k, 0 < k -> 0 < mu ->
  nb2_logpmf lgam x mu k = nb_logpmf lgam x k (k / (k + mu)).
Proof. exact nb_mean_size. Qed.
Print Assumptions C19_nb_identity.

(* a generator whose draw comes from RandomState(seed) returns the same value on any two calls with the
   same seed, for every sampler, every global state, every passed object, every OS entropy *)
Theorem C19_seed_model : forall (state value : Type) (init : Z -> state) (smp : gen state value) s g1 g2 o1 o2 e1 e2,
  fst (rcall_sem state value init FromSeed smp s g1 o1 e1) = fst (rcall_sem state value init FromSeed smp s g2 o2 e2).
Proof. exact seed_repro. Qed.
Print Assumptions C19_seed_model.

(* the contracts assumed of scipy.stats below are satisfiable together *)
Theorem C19_contracts_satisfiable : forall lgam,
  sp_log_contract (sp_model lgam) /\
  sp_ls_contract (sp_model lgam) Expon expon_pdf expon_cdf expon_ppf /\
  sp_ls_contract (sp_model lgam) Uniform unif_pdf unif_cdf unif_ppf /\
  (forall x loc scale, sp_model lgam Norm Pdf [x; loc; scale] = ls_pdf norm_pdf loc scale x) /\
  sp_nb_contract lgam (sp_model lgam).
Proof. exact sp_model_contracts. Qed.
Print Assumptions C19_contracts_satisfiable.

(* ================================================================= C. the checks reject the pinned defects *)
Theorem C19_pchisq_density_refuted :
  entry_ok pinned_pchisq (("pchisq", lgf false, NoMode), Exactly (Scipy Chi2 Cdf (chisq_kw X))) = false /\
  entry_ok pinned_pchisq (("pchisq", lgf true, NoMode), Exactly (Scipy Chi2 LogCdf (chisq_kw X))) = false.
Proof. vm_compute. split; reflexivity. Qed.
Print Assumptions C19_pchisq_density_refuted.
Theorem C19_dchisq_norm_refuted :
  entry_ok pinned_dchisq (("dchisq", lgf false, NoMode), Exactly (Scipy Chi2 Pdf (chisq_kw X))) = false.
Proof. vm_compute. reflexivity. Qed.
Print Assumptions C19_dchisq_norm_refuted.
Theorem C19_dbeta_log_refuted :
  entry_ok pinned_dbeta (("dbeta", lgf true, NoMode), Exactly (Scipy Beta LogPdf (beta_kw X))) = false.
Proof. vm_compute. reflexivity. Qed.
Print Assumptions C19_dbeta_log_refuted.
Theorem C19_nbinom_stub_refuted :
  entry_ok pinned_pnbinom (("pnbinom", lgt false true, ByProb), Exactly (Scipy NBinom Cdf (nbinom_kw (Arg "prob") X))) = false.
Proof. vm_compute. reflexivity. Qed.
Print Assumptions C19_nbinom_stub_refuted.
Theorem C19_runif_global_refuted :
  rentry_ok pinned_runif (r_calls "runif") true ("runif", SInt, Many, NoMode) = false /\
  (let r1 := rcall_sem nat nat (fun _ => 0%nat) Global counter_gen 5%Z 0%nat 0%nat 0%nat in
   let r2 := rcall_sem nat nat (fun _ => 0%nat) Global counter_gen 5%Z (snd r1) 0%nat 0%nat in
   fst r1 <> fst r2).
Proof. split; [vm_compute; reflexivity | exact global_source_not_reproducible]. Qed.
Print Assumptions C19_runif_global_refuted.

(* ================================================================= B. the extracted tables *)
Theorem C19_translator_ok : translator_ok = true.
Proof. reflexivity. Qed.
Print Assumptions C19_translator_ok.

(* test_seed: an int seed builds RandomState(seed), a RandomState is used as is *)
Theorem C19_test_seed : test_seed_ok test_seed_table = true.
Proof. vm_compute. reflexivity. Qed.
Print Assumptions C19_test_seed.

(* every d/p/q wrapper of every listed family, for every value of its flags (and prob / mu), calls the
   scipy family and method R's name promises, with R's parameterisation (finite: the listed families) *)
Theorem C19_dispatch : dispatch_ok table = true.
Proof. vm_compute. reflexivity. Qed.
Print Assumptions C19_dispatch.

(* ... hence denotes that call for all argument values *)
Theorem C19_wrappers : forall lgam sp k i, In (k, Exactly i) expected ->
  forall rho, wrapper lgam sp table k rho = den lgam sp i rho.
Proof. exact (fun lgam sp => dispatch_sound lgam sp table C19_dispatch). Qed.
Print Assumptions C19_wrappers.

(* the wrappers as extracted compute R's closed forms (given scipy's location-scale contract) *)
Theorem C19_dexp : forall lgam sp, sp_ls_contract sp Expon expon_pdf expon_cdf expon_ppf ->
  forall rho, 0 < rho "rate"%string ->
  wrapper lgam sp table ("dexp"%string, lgf false, NoMode) rho = Some (dexp_R (rho "rate"%string) (rho "x"%string)).
Proof. exact (fun lgam sp => dexp_closed lgam sp table C19_dispatch). Qed.
Print Assumptions C19_dexp.
Theorem C19_pexp : forall lgam sp, sp_ls_contract sp Expon expon_pdf expon_cdf expon_ppf ->
  forall rho, 0 < rho "rate"%string ->
  wrapper lgam sp table ("pexp"%string, lgf false, NoMode) rho = Some (pexp_R (rho "rate"%string) (rho "x"%string)).
Proof. exact (fun lgam sp => pexp_closed lgam sp table C19_dispatch). Qed.
Print Assumptions C19_pexp.
Theorem C19_qexp : forall lgam sp, sp_ls_contract sp Expon expon_pdf expon_cdf expon_ppf ->
  forall rho, 0 < rho "rate"%string ->
  wrapper lgam sp table ("qexp"%string, lgf false, NoMode) rho = Some (qexp_R (rho "rate"%string) (rho "x"%string)).
Proof. exact (fun lgam sp => qexp_closed lgam sp table C19_dispatch). Qed.
Print Assumptions C19_qexp.
Theorem C19_dunif : forall lgam sp, sp_ls_contract sp Uniform unif_pdf unif_cdf unif_ppf ->
  forall rho, rho "min"%string < rho "max"%string ->
  wrapper lgam sp table ("dunif"%string, lgf false, NoMode) rho =
  Some (dunif_R (rho "min"%string) (rho "max"%string) (rho "x"%string)).
Proof. exact (fun lgam sp => dunif_closed lgam sp table C19_dispatch). Qed.
Print Assumptions C19_dunif.
Theorem C19_punif : forall lgam sp, sp_ls_contract sp Uniform unif_pdf unif_cdf unif_ppf ->
  forall rho, rho "min"%string < rho "max"%string ->
  wrapper lgam sp table ("punif"%string, lgf false, NoMode) rho =
  Some (punif_R (rho "min"%string) (rho "max"%string) (rho "x"%string)).
Proof. exact (fun lgam sp => punif_closed lgam sp table C19_dispatch). Qed.
Print Assumptions C19_punif.
Theorem C19_qunif : forall lgam sp, sp_ls_contract sp Uniform unif_pdf unif_cdf unif_ppf ->
  forall rho,
  wrapper lgam sp table ("qunif"%string, lgf false, NoMode) rho =
  Some (qunif_R (rho "min"%string) (rho "max"%string) (rho "x"%string)).
Proof. exact (fun lgam sp => qunif_closed lgam sp table C19_dispatch). Qed.
Print Assumptions C19_qunif.
Theorem C19_dnorm : forall lgam sp, (forall x loc scale, sp Norm Pdf [x; loc; scale] = ls_pdf norm_pdf loc scale x) ->
  forall rho, 0 < rho "sd"%string ->
  wrapper lgam sp table ("dnorm"%string, lgf false, NoMode) rho =
  Some (dnorm_R (rho "mean"%string) (rho "sd"%string) (rho "x"%string)).
Proof. exact (fun lgam sp => dnorm_closed lgam sp table C19_dispatch). Qed.
Print Assumptions C19_dnorm.

(* log = True returns ln of what log = False returns: every d and p wrapper, every family, every
   prob/mu alternative and tail, all arguments (a wrapper that returns nothing does so in both forms) *)
Theorem C19_log_table : log_ok table = true.
Proof. vm_compute. reflexivity. Qed.
Print Assumptions C19_log_table.
Theorem C19_log : forall lgam sp, sp_log_contract sp ->
  forall o kp kl, In (o, kp, kl) log_pairs ->
  forall rho, wrapper lgam sp table kl rho = option_map ln (wrapper lgam sp table kp rho).
Proof. exact (fun lgam sp C => log_sound lgam sp table C C19_log_table). Qed.
Print Assumptions C19_log.

(* dnbinom(x, size, mu=mu) is the (n, p) negative binomial at p = size/(size+mu), log and plain *)
Theorem C19_nb_log : forall lgam sp, sp_nb_contract lgam sp -> forall rho, 0 < rho "size"%string -> 0 < rho "mu"%string ->
  wrapper lgam sp table ("dnbinom"%string, lgf true, ByMu) rho =
  Some (nb_logpmf lgam (rho "x"%string) (rho "size"%string) (rho "size"%string / (rho "size"%string + rho "mu"%string))).
Proof. nb_tac table. Qed.
Print Assumptions C19_nb_log.
Theorem C19_nb_plain : forall lgam sp, sp_nb_contract lgam sp -> forall rho, 0 < rho "size"%string -> 0 < rho "mu"%string ->
  wrapper lgam sp table ("dnbinom"%string, lgf false, ByMu) rho =
  Some (exp (nb_logpmf lgam (rho "x"%string) (rho "size"%string) (rho "size"%string / (rho "size"%string + rho "mu"%string)))).
Proof. nb_tac table. Qed.
Print Assumptions C19_nb_plain.
(* ... i.e. it agrees with the wrapper's own (size, prob) form *)
Theorem C19_nb : forall lgam sp (b : bool), sp_nb_contract lgam sp -> forall rho, 0 < rho "size"%string -> 0 < rho "mu"%string ->
  wrapper lgam sp table ("dnbinom"%string, lgf b, ByMu) rho =
  wrapper lgam sp table ("dnbinom"%string, lgf b, ByProb)
          (upd rho "prob" (rho "size"%string / (rho "size"%string + rho "mu"%string))).
Proof.
  exact (fun lgam sp b C rho Hk Hm => nb_agree lgam sp table b C19_dispatch C rho Hk Hm
           (if b return (wrapper lgam sp table ("dnbinom"%string, lgf b, ByMu) rho = Some ((if b then fun v => v else exp) _))
            then C19_nb_log lgam sp C rho Hk Hm else C19_nb_plain lgam sp C rho Hk Hm)).
Qed.
Print Assumptions C19_nb.

(* default values: log = False, lower_tail = True, rate = 1, mean = 0, sd = 1, min = 0, max = 1, seed = None *)
Theorem C19_defaults : defaults_ok defaults = true.
Proof. vm_compute. reflexivity. Qed.
Print Assumptions C19_defaults.

(* generators: every r function draws the named distribution with R's parameters; the seven that
   document seeding use the global state without a seed, RandomState(seed) for an int seed (0 included)
   and the passed RandomState itself *)
Theorem C19_rdispatch : rdispatch_ok rtable = true.
Proof. vm_compute. reflexivity. Qed.
Print Assumptions C19_rdispatch.

(* ... hence two calls with the same integer seed return the same draws, whatever the global state *)
Theorem C19_seed : forall (state value : Type) (init : Z -> state) (np : rcall -> (string -> R) -> gen state value),
  forall name kind nb, In name seeded_fns -> kind = SInt \/ kind = SInt0 ->
  forall rho s g1 o1 e1 g2 o2 e2,
  exists v g1' g2', rwrapper state value init np rtable (name, kind, nb, NoMode) rho s g1 o1 e1 = Some (v, g1') /\
                    rwrapper state value init np rtable (name, kind, nb, NoMode) rho s g2 o2 e2 = Some (v, g2').
Proof. exact (fun state value init np => seeded_twice state value init np rtable C19_rdispatch). Qed.
Print Assumptions C19_seed.
