(* C17 — ABC keeps only particles inside the prior support and under the tolerance.
   Only statements here; proofs live in ABCProofs.v.  Gen.ABCGen (gen_code) is regenerated from
   /repo/src/pygom/approximate_bayesian_computation/approximate_bayesian_computation.py on every run.
   A "trial stream" is the sequence of (proposal, prior-density product w1, cost, kernel sum w2) the external
   engines deliver: quantifying over all streams is quantifying over all seeds, priors, kernels (M), models. *)
From Coq Require Import List Arith QArith Qcanon.
From PV Require Import ABC ABCProofs Gen.ABCGen.
Import ListNotations.
Open Scope Qc_scope.

(* the extracted accept rule, stored tuple, w2 rule, get_tolerance, loop indexing and continue guard are the
   ones the theorems below are about (semantic obligations, closed by a fixed case-splitting tactic) *)
Theorem C17_code_ok : translator_ok = true /\ code_ok gen_code.
Proof. split; [reflexivity|].
  unfold gen_code, gen_accept, gen_w2, gen_stored_w, gen_stored_dist, gen_stored_rej, gen_counter,
    gen_get_tolerance, gen_start, gen_stop, gen_tol_arg, gen_tol_slot, gen_gen_arg. code_ok_tac. Qed.
Print Assumptions C17_code_ok.

(* one returned particle: it is the first trial of the stream that has w1 <> 0 and cost < tolerance; its stored
   distance IS that trial's cost, its weight is that trial's w1/w2 (w2 = 1 in generation 0); everything before
   it was rejected and counted *)
Theorem C17_accept : forall gen tol s rej p rest,
  perform gen_code gen tol s rej = Accepted p rest ->
  exists pre t, s = pre ++ t :: rest /\ Forall (rejected tol) pre /\
    (p_par p = t_par t /\ p_dist p = t_cost t /\ t_w1 t <> 0 /\ LtExt (t_cost t) tol /\
     p_w p = t_w1 t / (match gen with O => 1 | S _ => t_w2 t end)) /\
    p_rej p = (rej + length pre)%nat.
Proof. exact (perform_spec gen_code (proj2 C17_code_ok)). Qed.
Print Assumptions C17_accept.

(* a trial that passes is never skipped *)
Theorem C17_no_skip : forall gen tol t r rej, t_w1 t <> 0 -> LtExt (t_cost t) tol ->
  exists p, perform gen_code gen tol (t :: r) rej = Accepted p r /\ produced gen tol t p.
Proof. exact (perform_accepts gen_code (proj2 C17_code_ok)). Qed.
Print Assumptions C17_no_skip.

(* one generation of any size N: exactly N particles, each produced by a trial of the consumed prefix under this
   generation's tolerance; total_counter counts the consumed trials *)
Theorem C17_generation : forall gen tol n s cnt ps c rest,
  particles gen_code gen tol n s cnt = Some (ps, c, rest) ->
  length ps = n /\ exists used, s = used ++ rest /\ Forall (from used gen tol) ps /\ c = (cnt + length used)%nat.
Proof. exact (particles_spec gen_code (proj2 C17_code_ok)). Qed.
Print Assumptions C17_generation.

(* any history of get_posterior_sample / continue_posterior_sample calls (any N, G, tolerance lists or quantiles,
   refused continues included), any stream: every particle held at the end comes from a trial with w1 <> 0 whose
   cost is the stored distance and is below final_tol, the tolerance of the generation that produced it *)
Theorem C17_history : forall cs s st rest, Forall wf_call cs ->
  run gen_code init_state cs s = Some (st, rest) ->
  Forall (fun p => exists gen t, In t s /\ p_par p = t_par t /\ p_dist p = t_cost t /\ t_w1 t <> 0 /\
                    LtExt (t_cost t) (s_final st) /\
                    p_w p = t_w1 t / (match gen with O => 1 | S _ => t_w2 t end)) (s_parts st).
Proof. exact (run_good gen_code (proj2 C17_code_ok)). Qed.
Print Assumptions C17_history.

(* final_tol is the last tolerance of the history, self.tolerances has G slots *)
Theorem C17_final_tol : forall st c s st' s', wf_call c -> do_call gen_code st c s = Done st' s' ->
  (exists used, s = used ++ s') /\ length (s_parts st') = c_N c /\
  Forall (good s (s_final st')) (s_parts st') /\ exists h, s_hist st' = h ++ [s_final st'].
Proof. exact (do_call_spec gen_code (proj2 C17_code_ok)). Qed.
Print Assumptions C17_final_tol.

Theorem C17_weight : forall w1 w2 : Qc, 0 < w1 -> 0 < w2 -> 0 < w1 / w2.
Proof. exact div_pos. Qed.
Print Assumptions C17_weight.

(* w1 is the product of the prior densities of the coordinates: w1 <> 0 means every coordinate has positive density *)
Theorem C17_prior_factors : forall dens, Forall (fun d => 0 <= d) dens -> qprod dens <> 0 -> Forall (fun d => 0 < d) dens.
Proof. exact qprod_pos. Qed.
Print Assumptions C17_prior_factors.

(* with non-negative densities and a positive kernel sum every weight held after any history is positive *)
Theorem C17_weights_history : forall cs s st rest, Forall wf_call cs -> Forall sane s ->
  run gen_code init_state cs s = Some (st, rest) -> Forall (fun p => 0 < p_w p) (s_parts st).
Proof. exact (run_weights gen_code (proj2 C17_code_ok)). Qed.
Print Assumptions C17_weights_history.

(* numpy's linear-interpolation quantile never exceeds the sample maximum (any level, any length >= 1) ... *)
Theorem C17_quantile_le_max : forall l q, l <> [] -> quantile_linear l q <= list_max l.
Proof. exact quantile_le_max. Qed.
Print Assumptions C17_quantile_le_max.
(* ... and stays strictly below any strict bound of the sample *)
Theorem C17_quantile_below : forall l q b, l <> [] -> (forall x, In x l -> x < b) -> quantile_linear l q < b.
Proof. exact quantile_lt. Qed.
Print Assumptions C17_quantile_below.

(* quantile scheduling: over any get/continue history and any stream the tolerances used since the last fresh
   run never increase, and self.tolerances of the last call is non-increasing *)
Theorem C17_quantile_mono : forall cs s st rest, Forall qcall cs ->
  run gen_code init_state cs s = Some (st, rest) -> desc (s_hist st) /\ desc (s_tols st).
Proof. exact (fun cs s st rest Q H =>
  conj (run_mono gen_code (proj2 C17_code_ok) cs s st rest Q H)
       (run_tolerances_desc gen_code (proj2 C17_code_ok) cs s st rest Q H)). Qed.
Print Assumptions C17_quantile_mono.

(* a continued run starts at or below the previous final tolerance, its tolerances are appended to the history *)
Theorem C17_continue : forall st c s st' s', qcall c -> Inv2 st -> do_call gen_code st c s = Done st' s' ->
  Inv2 st' /\ s_hist st' = (if c_rerun c then s_hist st else []) ++ s_tols st' /\
  length (s_tols st') = c_G c /\ length (s_counts st') = c_G c /\
  (c_rerun c = true -> ExtLe (first_tol (c_tol c)) (s_final st)).
Proof. exact (do_call_mono gen_code (proj2 C17_code_ok)). Qed.
Print Assumptions C17_continue.

(* relaxed rules violate the statement: witnesses *)
Theorem C17_nonstrict_refuted :
  exists s p rest, perform le_code 1 (Fin (qz 3 1)) s 0 = Accepted p rest /\ ~ LtExt (p_dist p) (Fin (qz 3 1)).
Proof. exact nonstrict_refuted. Qed.
Print Assumptions C17_nonstrict_refuted.
Theorem C17_noprior_refuted :
  exists s p rest, perform noprior_code 1 PInf s 0 = Accepted p rest /\ ~ 0 < p_w p.
Proof. exact noprior_refuted. Qed.
Print Assumptions C17_noprior_refuted.
