(* C14 — loss kernels are the negative log-likelihoods they are named after.
   Only statements here; proofs live in LossProofs.v.  Gen.LossGen is regenerated on every run from
   src/pygom/loss/loss_type.py and src/pygom/utilR/distn.py: every  <Class>_loss / _diff_loss / _diff2Loss  below is
   the translation of the method of that name; numpy arrays are read at one observation o = (y, w, s, yhat)
   (s = sigma, shape or k; a scalar spread is the constant array the constructors build) and `.sum()` is Rsum.
   aw is the apply_weighting flag.  Reference densities (Loss.v) are in the textbook parameterisation.
   Gamma/lgamma/poisson_logpmf are universally quantified and constrained by the contracts GammaSpec / PoisSpec
   (scipy.special.gammaln = ln o Gamma, Gamma > 0, Gamma(n+1) = n!;  scipy.stats.poisson.logpmf = ln pois_pmf). *)
From Coq Require Import Reals List String.
Set Warnings "-ambiguous-paths".
From Coquelicot Require Import Coquelicot.
Set Warnings "ambiguous-paths".
From PV Require Import Loss LossProofs Gen.LossGen.
Import ListNotations.
Open Scope R_scope.

(* the translator accepted the source, all fifteen methods are present, and a scalar spread equal to the constant
   the constructor special-cases is replaced by that same constant *)
Theorem C14_code_facts :
  translator_ok = true /\ map (fun m : mentry => fst (fst m)) method_shapes = method_names /\
  forallb ctor_pair_ok ctor_default_pairs = true.
Proof. vm_compute. repeat split. Qed.
Print Assumptions C14_code_facts.

(* the contracts on the external special functions are satisfiable (no vacuous theorem below) *)
Theorem C14_contracts_satisfiable : (exists G lg, GammaSpec G lg) /\ (exists pl, PoisSpec pl).
Proof. split; [exists G_witness, (fun x => ln (G_witness x)); exact GammaSpec_satisfiable
              | eexists; exact PoisSpec_satisfiable]. Qed.
Print Assumptions C14_contracts_satisfiable.

(* ---------------------------------------------------------------- losses *)
(* Square: sum of squared weighted residuals *)
Theorem C14_square : forall aw l, Square_loss aw l = Rsum (map (fun o => (wres aw o) ^ 2) l).
Proof. exact square_sum. Qed.
Print Assumptions C14_square.

(* Normal: minus the summed log N(0, sigma) density of the (weighted) residuals ... *)
Theorem C14_normal_weighted : forall aw l, List.Forall (fun o => 0 < os o) l ->
  Normal_loss aw l = - Rsum (map (fun o => ln (normal_pdf (wres aw o) 0 (os o))) l).
Proof. exact normal_nll_weighted. Qed.
Print Assumptions C14_normal_weighted.

(* ... which without weights is minus the summed log N(mean yhat, sd sigma) density of the observations *)
Theorem C14_normal : forall aw l, List.Forall (fun o => 0 < os o /\ unweighted aw (ow o)) l ->
  Normal_loss aw l = - Rsum (map (fun o => ln (normal_pdf (oy o) (oyh o) (os o))) l).
Proof. exact normal_nll. Qed.
Print Assumptions C14_normal.

(* Gamma: mean yhat, shape s *)
Theorem C14_gamma : forall Gamma lgamma, GammaSpec Gamma lgamma -> forall aw l,
  List.Forall (fun o => 0 < oy o /\ 0 < oyh o /\ 0 < os o) l ->
  Gamma_loss lgamma aw l = - Rsum (map (fun o => ln (gamma_pdf Gamma (oy o) (oyh o) (os o))) l).
Proof. exact gamma_nll. Qed.
Print Assumptions C14_gamma.

(* Poisson: mean yhat, count observations *)
Theorem C14_poisson : forall plog, PoisSpec plog -> forall aw (l : list cobs), List.Forall (fun c => 0 < cyh c) l ->
  Poisson_loss plog aw (map obs_of_count l) = - Rsum (map (fun c => ln (pois_pmf (cn c) (cyh c))) l).
Proof. exact poisson_nll. Qed.
Print Assumptions C14_poisson.

(* Negative binomial: mean yhat, size k, i.e. nbinom(size k, prob k/(k+yhat)); count observations *)
Theorem C14_negbinom : forall Gamma lgamma, GammaSpec Gamma lgamma -> forall aw (l : list cobs),
  List.Forall (fun c => 0 < cyh c /\ 0 < cs c) l ->
  NegBinom_loss lgamma aw (map obs_of_count l) =
  - Rsum (map (fun c => ln (nbinom_pmf Gamma (cn c) (cs c) (cs c / (cs c + cyh c)))) l).
Proof. exact negbinom_nll. Qed.
Print Assumptions C14_negbinom.

(* ---------------------------------------------------------------- first derivatives
   diff_loss at observation o is the partial derivative of the whole unweighted loss with respect to the prediction
   of o, whatever the other observations (pre, post) are *)
Theorem C14_d1_square : forall aw pre post o, unweighted aw (ow o) ->
  is_derive (fun m => Square_loss aw (pre ++ with_yhat o m :: post)) (oyh o)
            (Square_diff_loss aw (oy o) (ow o) (os o) (oyh o)).
Proof. exact square_d1. Qed.
Print Assumptions C14_d1_square.

Theorem C14_d1_normal : forall aw pre post o, 0 < os o -> unweighted aw (ow o) ->
  is_derive (fun m => Normal_loss aw (pre ++ with_yhat o m :: post)) (oyh o)
            (Normal_diff_loss aw (oy o) (ow o) (os o) (oyh o)).
Proof. exact normal_d1. Qed.
Print Assumptions C14_d1_normal.

Theorem C14_d1_gamma : forall lgamma aw pre post o, 0 < oyh o -> 0 < os o -> unweighted aw (ow o) ->
  is_derive (fun m => Gamma_loss lgamma aw (pre ++ with_yhat o m :: post)) (oyh o)
            (Gamma_diff_loss aw (oy o) (ow o) (os o) (oyh o)).
Proof. exact gamma_d1. Qed.
Print Assumptions C14_d1_gamma.

Theorem C14_d1_poisson : forall plog, PoisSpec plog -> forall aw pre post c, 0 < cyh c -> unweighted aw (cw c) ->
  is_derive (fun m => Poisson_loss plog aw (pre ++ with_yhat (obs_of_count c) m :: post)) (cyh c)
            (Poisson_diff_loss aw (INR (cn c)) (cw c) (cs c) (cyh c)).
Proof. exact poisson_d1. Qed.
Print Assumptions C14_d1_poisson.

Theorem C14_d1_negbinom : forall lgamma aw pre post o, 0 < oyh o -> 0 < os o -> unweighted aw (ow o) ->
  is_derive (fun m => NegBinom_loss lgamma aw (pre ++ with_yhat o m :: post)) (oyh o)
            (NegBinom_diff_loss aw (oy o) (ow o) (os o) (oyh o)).
Proof. exact negbinom_d1. Qed.
Print Assumptions C14_d1_negbinom.

(* ---------------------------------------------------------------- second derivatives: diff2Loss = d/dyhat diff_loss *)
Theorem C14_d2_square : forall aw y w s m, unweighted aw w ->
  is_derive (fun m => Square_diff_loss aw y w s m) m (Square_diff2Loss aw y w s m).
Proof. exact Square_d2. Qed.
Print Assumptions C14_d2_square.

Theorem C14_d2_normal : forall aw y w s m, 0 < s -> unweighted aw w ->
  is_derive (fun m => Normal_diff_loss aw y w s m) m (Normal_diff2Loss aw y w s m).
Proof. exact Normal_d2. Qed.
Print Assumptions C14_d2_normal.

Theorem C14_d2_gamma : forall aw y w s m, 0 < m -> unweighted aw w ->
  is_derive (fun m => Gamma_diff_loss aw y w s m) m (Gamma_diff2Loss aw y w s m).
Proof. exact Gamma_d2. Qed.
Print Assumptions C14_d2_gamma.

Theorem C14_d2_poisson : forall aw y w s m, 0 < m -> unweighted aw w ->
  is_derive (fun m => Poisson_diff_loss aw y w s m) m (Poisson_diff2Loss aw y w s m).
Proof. exact Poisson_d2. Qed.
Print Assumptions C14_d2_poisson.

Theorem C14_d2_negbinom : forall aw y w s m, 0 < m -> 0 < s -> unweighted aw w ->
  is_derive (fun m => NegBinom_diff_loss aw y w s m) m (NegBinom_diff2Loss aw y w s m).
Proof. exact NegBinom_d2. Qed.
Print Assumptions C14_d2_negbinom.

(* ---------------------------------------------------------------- result shapes (numpy broadcasting model, Loss.sh_eval)
   vector y with vector yhat, and matrix y with matrix yhat: a loss is a scalar, a derivative has y's shape *)
Theorem C14_shapes_vector : forall n,
  List.Forall (fun m => sh_eval (me_shape m) (Vec n) (Vec n) = Some (expected_shape (me_loss m) (Vec n))) method_shapes.
Proof. exact (shapes_vector method_shapes eq_refl). Qed.
Print Assumptions C14_shapes_vector.

Theorem C14_shapes_matrix : forall r c, r <> 1%nat -> c <> 1%nat ->
  List.Forall (fun m => sh_eval (me_shape m) (Mat r c) (Mat r c) = Some (expected_shape (me_loss m) (Mat r c))) method_shapes.
Proof. exact (shapes_matrix method_shapes eq_refl). Qed.
Print Assumptions C14_shapes_matrix.

(* the slip excluded by the next theorem: yhat combined with the (ravelled) residual before being ravelled itself
   turns a single-column input into an n x n matrix (witness replayed on pygom by the search) *)
Theorem C14_unravelled_column_refuted :
  col_safe unravelled_use = false /\
  sh_eval unravelled_use (Vec 3) (Mat 3 1) = Some (Mat 3 3) /\ sh_eval unravelled_use (Vec 3) (Vec 3) = Some (Vec 3).
Proof. exact unravelled_use_refuted. Qed.
Print Assumptions C14_unravelled_column_refuted.

(* single-column yhat (n,1) against vector y: every method gives what it gives for the vector yhat.
   Type-checks only when no generated shape expression uses yhat before the ravel-if-one-column normalisation. *)
Theorem C14_shapes_column : forall n,
  List.Forall (fun m => sh_eval (me_shape m) (Vec n) (Mat n 1) = Some (expected_shape (me_loss m) (Vec n))) method_shapes.
Proof. exact (shapes_column method_shapes eq_refl). Qed.
Print Assumptions C14_shapes_column.
