(* C05 — what one step of the canonical first-reaction configuration computes, for ALL rate lists,
   draw lists and times: the clock of event i is e_k / r_i (k = number of positive rates before i,
   i.e. one standard-exponential draw per positive rate, in order), events with a non-positive rate have
   no clock and never fire; the event that fires has the smallest clock, the first one among equals;
   the time advances by exactly that clock.  Plus: a configuration that agrees with `canon` field by field
   (pointwise on the three functions) computes the same step — this is how the extracted facts of
   Gen/ClockGen.v are tied to the construction. *)
From Coq Require Import List Arith ZArith QArith Qcanon Bool Lia.
From PV Require Import FirstReaction.
Import ListNotations.
Local Open Scope nat_scope.

(* ---- order facts *)
Lemma Qcltb_lt a b : Qcltb a b = true <-> (a < b)%Qc.
Proof. rewrite Qclt_alt. unfold Qcltb. destruct (a ?= b)%Qc; split; intros H; congruence. Qed.
Lemma Qcltb_ge a b : Qcltb a b = false <-> (b <= a)%Qc.
Proof.
  split; intros H.
  - apply Qcnot_lt_le. intros L. apply Qcltb_lt in L. congruence.
  - destruct (Qcltb a b) eqn:E; auto. apply Qcltb_lt in E. exfalso. eapply Qcle_not_lt; eauto.
Qed.

Lemma oltb_irrefl a : oltb a a = false.
Proof. destruct a; simpl; auto. apply Qcltb_ge. apply Qcle_refl. Qed.
(* a < b <= c -> a < c *)
Lemma oltb_lt_le a b c : oltb a b = true -> oltb c b = false -> oltb a c = true.
Proof.
  destruct a as [a|], b as [b|], c as [c|]; simpl; intros H1 H2; try congruence.
  apply Qcltb_lt in H1. apply Qcltb_ge in H2. apply Qcltb_lt. eapply Qclt_le_trans; eauto.
Qed.
(* a <= b < c -> a < c *)
Lemma oltb_le_lt a b c : oltb b a = false -> oltb b c = true -> oltb a c = true.
Proof.
  destruct a as [a|], b as [b|], c as [c|]; simpl; intros H1 H2; try congruence.
  apply Qcltb_ge in H1. apply Qcltb_lt in H2. apply Qcltb_lt. eapply Qcle_lt_trans; eauto.
Qed.
(* a <= b <= c -> a <= c *)
Lemma oltb_le_le a b c : oltb b a = false -> oltb c b = false -> oltb c a = false.
Proof.
  destruct a as [a|], b as [b|], c as [c|]; simpl; intros H1 H2; try congruence.
  apply Qcltb_ge in H1. apply Qcltb_ge in H2. apply Qcltb_ge. eapply Qcle_trans; eauto.
Qed.
Lemma oltb_lt_not_ge a b : oltb a b = true -> oltb b a = false.
Proof.
  destruct a as [a|], b as [b|]; simpl; intros H; try congruence.
  apply Qcltb_lt in H. apply Qcltb_ge. apply Qclt_le_weak; auto.
Qed.

(* ---- argmin: first index of the minimum *)
Definition is_first_min (l : list oclock) (i : nat) (c : oclock) : Prop :=
  nth_error l i = Some c /\
  (forall j x, nth_error l j = Some x -> oltb x c = false) /\
  (forall j x, j < i -> nth_error l j = Some x -> oltb c x = true).

Lemma argbest_min_spec : forall l pre ib cb,
  is_first_min pre ib cb ->
  is_first_min (pre ++ l) (fst (argbest oltb l (length pre) (ib, cb))) (snd (argbest oltb l (length pre) (ib, cb))).
Proof.
  induction l as [|c r IH]; intros pre ib cb H.
  - simpl. rewrite app_nil_r. exact H.
  - simpl argbest. cbn [snd].
    replace (pre ++ c :: r) with ((pre ++ [c]) ++ r) by (rewrite <- app_assoc; reflexivity).
    replace (S (length pre)) with (length (pre ++ [c])) by (rewrite app_length; simpl; lia).
    destruct H as (Hn & Hmin & Hfirst).
    assert (Hib : ib < length pre) by (apply nth_error_Some; congruence).
    destruct (oltb c cb) eqn:E.
    + apply (IH (pre ++ [c]) (length pre) c). repeat split.
      * rewrite nth_error_app2 by lia. replace (length pre - length pre) with 0 by lia. reflexivity.
      * intros j x Hj. destruct (Nat.lt_ge_cases j (length pre)) as [L|L].
        -- rewrite nth_error_app1 in Hj by auto.
           specialize (Hmin _ _ Hj).
           destruct (oltb x c) eqn:F; auto.
           assert (oltb x cb = true) by (eapply oltb_lt_le; [exact F|]; apply oltb_lt_not_ge; exact E).
           congruence.
        -- rewrite nth_error_app2 in Hj by auto.
           destruct (j - length pre) as [|k] eqn:K; simpl in Hj.
           ++ inversion Hj; subst. apply oltb_irrefl.
           ++ destruct k; discriminate.
      * intros j x Hj Hx. assert (L : j < length pre) by lia.
        rewrite nth_error_app1 in Hx by auto.
        eapply oltb_lt_le; [exact E|]. eapply Hmin; eauto.
    + apply IH. repeat split.
      * rewrite nth_error_app1 by auto. exact Hn.
      * intros j x Hj. destruct (Nat.lt_ge_cases j (length pre)) as [L|L].
        -- rewrite nth_error_app1 in Hj by auto. eauto.
        -- rewrite nth_error_app2 in Hj by auto.
           destruct (j - length pre) as [|k] eqn:K; simpl in Hj.
           ++ inversion Hj; subst. exact E.
           ++ destruct k; discriminate.
      * intros j x Hj Hx. assert (L : j < length pre) by lia.
        rewrite nth_error_app1 in Hx by auto. eauto.
Qed.

Lemma argmin_spec l i c : argmin l = Some (i, c) -> is_first_min l i c.
Proof.
  destruct l as [|c0 r]; simpl; [discriminate|].
  unfold argmin, argfirst. intros H. inversion H as [H1]. clear H.
  assert (B : is_first_min [c0] 0 c0).
  { repeat split; simpl; auto.
    - intros [|[|j]] x Hx; simpl in Hx; try discriminate. inversion Hx; subst. apply oltb_irrefl.
    - intros j x Hj; lia. }
  pose proof (argbest_min_spec r [c0] 0 c0 B) as S. simpl length in S. simpl app in S.
  rewrite H1 in S. exact S.
Qed.

(* ---- clocks of the canonical rule *)
Definition positive (r : Qc) := Qcltb 0%Qc r.
(* index into the draw stream used for event i: number of positive rates before it *)
Definition draw_index (rates : list Qc) (i : nat) : nat := length (filter positive (firstn i rates)).

Lemma clocks_length c rates draws : length (clocks c rates draws) = length rates.
Proof. revert draws; induction rates as [|r rs IH]; intros draws; simpl; auto.
  destruct (guard c r); [destruct draws|]; simpl; rewrite IH; auto. Qed.

Lemma clocks_canon_nth : forall rates draws i d,
  nth_error (clocks canon rates draws) i = Some (Some d) ->
  exists r e, nth_error rates i = Some r /\ (0 < r)%Qc /\
              nth_error draws (draw_index rates i) = Some e /\ d = (e * (1 / r))%Qc.
Proof.
  induction rates as [|r rs IH]; intros draws i d H.
  - destruct i; discriminate.
  - simpl in H. destruct (Qcltb 0 r) eqn:G.
    + destruct draws as [|e ds].
      * destruct i; simpl in H; [discriminate|].
        destruct (IH [] i d H) as (r' & e' & _ & _ & He & _). destruct (draw_index rs i); discriminate.
      * destruct i; simpl in H.
        -- inversion H; subst. exists r, e. repeat split; auto. apply Qcltb_lt; auto.
        -- destruct (IH ds i d H) as (r' & e' & H1 & H2 & H3 & H4).
           exists r', e'. repeat split; auto.
           unfold draw_index. simpl. unfold positive at 1. rewrite G. simpl. exact H3.
    + destruct i; simpl in H; [discriminate|].
      destruct (IH draws i d H) as (r' & e' & H1 & H2 & H3 & H4).
      exists r', e'. repeat split; auto.
      unfold draw_index. simpl. unfold positive at 1. rewrite G. exact H3.
Qed.

Lemma clocks_canon_nonpositive : forall rates draws i r,
  nth_error rates i = Some r -> ~ (0 < r)%Qc -> nth_error (clocks canon rates draws) i = Some None.
Proof.
  induction rates as [|r0 rs IH]; intros draws i r H N.
  - destruct i; discriminate.
  - simpl. destruct i; simpl in H.
    + inversion H; subst. destruct (Qcltb 0 r) eqn:G; [apply Qcltb_lt in G; contradiction|reflexivity].
    + destruct (Qcltb 0 r0); [destruct draws|]; simpl; eauto.
Qed.

(* with enough draws every positive rate has a finite clock *)
Lemma clocks_canon_positive : forall rates draws i r,
  nth_error rates i = Some r -> (0 < r)%Qc -> length (filter positive rates) <= length draws ->
  exists e, nth_error draws (draw_index rates i) = Some e /\
            nth_error (clocks canon rates draws) i = Some (Some (e * (1 / r))%Qc).
Proof.
  induction rates as [|r0 rs IH]; intros draws i r H P L.
  - destruct i; discriminate.
  - simpl in L. simpl. unfold positive in L at 1. destruct (Qcltb 0 r0) eqn:G.
    + destruct draws as [|e ds]; [simpl in L; lia|]. simpl in L.
      destruct i; simpl in H.
      * inversion H; subst. exists e. split; reflexivity.
      * destruct (IH ds i r H P) as (e' & H1 & H2); [lia|].
        exists e'. split; auto. unfold draw_index. simpl. unfold positive at 1. rewrite G. exact H1.
    + destruct i; simpl in H.
      * inversion H; subst. apply Qcltb_lt in P. congruence.
      * destruct (IH draws i r H P L) as (e' & H1 & H2).
        exists e'. split; auto. unfold draw_index. simpl. unfold positive at 1. rewrite G. exact H1.
Qed.

(* ---- the step *)
Theorem step_canon_spec : forall t rates draws i dt t',
  step canon t rates draws = Some (i, dt, t') ->
  let cl := clocks canon rates draws in
  nth_error cl i = Some (Some dt) /\
  (forall j d, nth_error cl j = Some (Some d) -> (dt <= d)%Qc) /\
  (forall j x, j < i -> nth_error cl j = Some x -> oltb (Some dt) x = true) /\
  t' = (t + dt)%Qc.
Proof.
  intros t rates draws i dt t' H cl. unfold step in H. fold cl in H. simpl in H.
  destruct (argmin cl) as [[i0 c0]|] eqn:A; [|discriminate].
  destruct c0 as [d0|]; [|discriminate]. inversion H; subst. clear H.
  apply argmin_spec in A. destruct A as (A1 & A2 & A3).
  repeat split; auto.
  intros j d Hj. specialize (A2 _ _ Hj). simpl in A2. apply Qcltb_ge in A2. exact A2.
Qed.

(* the event that fires has a positive rate, and its clock is (its draw) / (its rate) *)
Theorem step_canon_clock : forall t rates draws i dt t',
  step canon t rates draws = Some (i, dt, t') ->
  exists r e, nth_error rates i = Some r /\ (0 < r)%Qc /\
              nth_error draws (draw_index rates i) = Some e /\ dt = (e / r)%Qc.
Proof.
  intros t rates draws i dt t' H. apply step_canon_spec in H. destruct H as (H & _).
  apply clocks_canon_nth in H. destruct H as (r & e & H1 & H2 & H3 & H4).
  exists r, e. repeat split; auto. subst dt. unfold Qcdiv. rewrite Qcmult_1_l. reflexivity.
Qed.

(* some positive rate and enough draws: the step is defined (the loop of _jump can continue) *)
Theorem step_canon_defined : forall t rates draws i r,
  nth_error rates i = Some r -> (0 < r)%Qc -> length (filter positive rates) <= length draws ->
  exists j dt, step canon t rates draws = Some (j, dt, (t + dt)%Qc).
Proof.
  intros t rates draws i r H P L.
  destruct (clocks_canon_positive rates draws i r H P L) as (e & _ & Hc).
  unfold step. simpl.
  destruct (argmin (clocks canon rates draws)) as [[j c]|] eqn:A.
  - pose proof (argmin_spec _ _ _ A) as (A1 & A2 & A3).
    destruct c as [d|].
    + exists j, d. reflexivity.
    + specialize (A2 _ _ Hc). simpl in A2. discriminate.
  - unfold argmin, argfirst in A. destruct (clocks canon rates draws); [destruct i; discriminate|discriminate].
Qed.

(* ---- configurations that agree with canon pointwise compute the same clocks and the same step *)
Definition agrees (c : cfg) : Prop :=
  (forall r, guard c r = Qcltb 0%Qc r) /\
  (forall r, (0 < r)%Qc -> scale c (rate_arg c r) = (1 / r)%Qc) /\
  sel c = SelArgmin /\ dtp c = DtAtSel /\ tup c = TPlusDt.

Lemma clocks_agree c : agrees c -> forall rates draws, clocks c rates draws = clocks canon rates draws.
Proof.
  intros (G & S & _) rates. induction rates as [|r rs IH]; intros draws; simpl; auto.
  rewrite G. destruct (Qcltb 0 r) eqn:E.
  - destruct draws as [|e ds]; rewrite IH; auto.
    rewrite S by (apply Qcltb_lt; auto). reflexivity.
  - rewrite IH. reflexivity.
Qed.

Theorem step_agree c : agrees c -> forall t rates draws, step c t rates draws = step canon t rates draws.
Proof.
  intros A t rates draws. unfold step. rewrite (clocks_agree c A).
  destruct A as (_ & _ & S & D & T). rewrite S, D, T. reflexivity.
Qed.

(* everything proved about canon holds for any configuration that agrees with it *)
Theorem step_agrees_spec c : agrees c -> forall t rates draws i dt t',
  step c t rates draws = Some (i, dt, t') ->
  (exists r e, nth_error rates i = Some r /\ (0 < r)%Qc /\
               nth_error draws (draw_index rates i) = Some e /\ dt = (e / r)%Qc) /\
  nth_error (clocks c rates draws) i = Some (Some dt) /\
  (forall j d, nth_error (clocks c rates draws) j = Some (Some d) -> (dt <= d)%Qc) /\
  (forall j x, j < i -> nth_error (clocks c rates draws) j = Some x -> oltb (Some dt) x = true) /\
  t' = (t + dt)%Qc.
Proof.
  intros A t rates draws i dt t' H. rewrite (step_agree c A) in H. rewrite (clocks_agree c A).
  split; [eapply step_canon_clock; eauto|]. apply (step_canon_spec _ _ _ _ _ _ H).
Qed.

Theorem step_agrees_defined c : agrees c -> forall t rates draws i r,
  nth_error rates i = Some r -> (0 < r)%Qc -> length (filter positive rates) <= length draws ->
  exists j dt, step c t rates draws = Some (j, dt, (t + dt)%Qc).
Proof. intros A t rates draws i r H P L. rewrite (step_agree c A). eapply step_canon_defined; eauto. Qed.

(* ---- the hypotheses are satisfiable / the model runs: rates (2, 0, 1/2), draws (3, 1/2):
        clocks 3/2, +oo, 1  -> event 2 fires after time 1 *)
Definition view (o : option (nat * Qc * Qc)) : option (nat * Q * Q) :=
  match o with Some (i, d, t) => Some (i, this d, this t) | None => None end.
Example step_canon_example :
  view (step canon (Q2Qc 10) [Q2Qc 2; Q2Qc 0; Q2Qc (1#2)] [Q2Qc 3; Q2Qc (1#2)]) = Some (2, 1%Q, 11%Q).
Proof. vm_compute. reflexivity. Qed.
(* a tie goes to the first index (numpy argmin) *)
Example step_canon_tie :
  view (step canon (Q2Qc 0) [Q2Qc 2; Q2Qc 1] [Q2Qc 2; Q2Qc 1]) = Some (0, 1%Q, 1%Q).
Proof. vm_compute. reflexivity. Qed.
