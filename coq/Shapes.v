(* numpy arrays as functional arrays over an arbitrary commutative ring (DESIGN.md 2.1).
   Only small, total, computable definitions here; lemmas are in ShapesProofs.v.
   1-D arrays: {vlen; vget}, 2-D arrays: {nr; nc; get}.  Every operation is the entry-wise reading of the
   numpy operation named in its comment; the transcription is validated on integer arrays by the C13
   correspondence on every run. *)
From Coq Require Import List Arith Bool.
Import ListNotations.

Inductive order := OrdC | OrdF.
Definition order_eqb (a b : order) : bool :=
  match a, b with OrdC, OrdC | OrdF, OrdF => true | _, _ => false end.

Section Shapes.
  Variables (A : Type) (a0 a1 : A) (add mul : A -> A -> A).

  Definition sum (l : list A) : A := fold_right add a0 l.
  Definition sumn (n : nat) (f : nat -> A) : A := sum (map f (seq 0 n)).

  Record vec := { vlen : nat; vget : nat -> A }.
  Record arr := { nr : nat; nc : nat; get : nat -> nat -> A }.

  (* v[0:n] / v[:n] *)
  Definition vtake (n : nat) (v : vec) : vec := {| vlen := Nat.min n (vlen v); vget := vget v |}.
  (* v[n:] / v[n::] *)
  Definition vdrop (n : nat) (v : vec) : vec := {| vlen := vlen v - n; vget := fun k => vget v (n + k) |}.
  (* v[-n:] *)
  Definition vlast (n : nat) (v : vec) : vec := vdrop (vlen v - n) v.
  (* np.append(v, w) *)
  Definition vapp (v w : vec) : vec :=
    {| vlen := vlen v + vlen w; vget := fun k => if k <? vlen v then vget v k else vget w (k - vlen v) |}.

  (* np.reshape(v, (r, c), order) of a 1-D array *)
  Definition reshape_vec (o : order) (v : vec) (r c : nat) : arr :=
    {| nr := r; nc := c;
       get := fun i j => match o with OrdC => vget v (i * c + j) | OrdF => vget v (i + j * r) end |}.
  (* np.reshape(X, n, order) / X.flatten(order) of a 2-D array *)
  Definition ravel (o : order) (X : arr) (n : nat) : vec :=
    {| vlen := n;
       vget := fun k => match o with
                        | OrdC => get X (k / nc X) (k mod nc X)
                        | OrdF => get X (k mod nr X) (k / nr X)
                        end |}.
  (* np.reshape(X, (r, c), order) of a 2-D array *)
  Definition reshape2 (o : order) (X : arr) (r c : nat) : arr :=
    {| nr := r; nc := c;
       get := fun i j => match o with
                         | OrdC => let k := i * c + j in get X (k / nc X) (k mod nc X)
                         | OrdF => let k := i + j * r in get X (k mod nr X) (k / nr X)
                         end |}.

  Definition transpose (X : arr) : arr := {| nr := nc X; nc := nr X; get := fun i j => get X j i |}.
  (* X.dot(Y) / np.dot(X, Y) *)
  Definition dot (X Y : arr) : arr :=
    {| nr := nr X; nc := nc Y; get := fun i j => sumn (nc X) (fun k => mul (get X i k) (get Y k j)) |}.
  (* X + Y (same shape) *)
  Definition madd (X Y : arr) : arr := {| nr := nr X; nc := nc X; get := fun i j => add (get X i j) (get Y i j) |}.
  Definition zeros (r c : nat) : arr := {| nr := r; nc := c; get := fun _ _ => a0 |}.
  Definition eye (n : nat) : arr := {| nr := n; nc := n; get := fun i j => if i =? j then a1 else a0 |}.
  (* np.kron(X, Y) *)
  Definition kron (X Y : arr) : arr :=
    {| nr := nr X * nr Y; nc := nc X * nc Y;
       get := fun i j => mul (get X (i / nr Y) (j / nc Y)) (get Y (i mod nr Y) (j mod nc Y)) |}.
  (* np.bmat([[X, Y]]) and np.bmat([[X], [Y]]) *)
  Definition hcat (X Y : arr) : arr :=
    {| nr := nr X; nc := nc X + nc Y; get := fun i j => if j <? nc X then get X i j else get Y i (j - nc X) |}.
  Definition vcat (X Y : arr) : arr :=
    {| nr := nr X + nr Y; nc := nc X; get := fun i j => if i <? nr X then get X i j else get Y (i - nr X) j |}.
  (* X[idx, :] and X[:, idx] with an integer index array idx of length n *)
  Definition take_rows (n : nat) (idx : nat -> nat) (X : arr) : arr :=
    {| nr := n; nc := nc X; get := fun i j => get X (idx i) j |}.
  Definition take_cols (n : nat) (idx : nat -> nat) (X : arr) : arr :=
    {| nr := nr X; nc := n; get := fun i j => get X i (idx j) |}.

  (* boundary with the case files: tabulation to / from lists *)
  Definition vec_to_list (v : vec) : list A := map (vget v) (seq 0 (vlen v)).
  Definition arr_to_lists (X : arr) : list (list A) :=
    map (fun i => map (fun j => get X i j) (seq 0 (nc X))) (seq 0 (nr X)).
  Definition vec_of_list (l : list A) : vec := {| vlen := length l; vget := fun k => nth k l a0 |}.
  Definition arr_of_lists (r c : nat) (l : list (list A)) : arr :=
    {| nr := r; nc := c; get := fun i j => nth j (nth i l []) a0 |}.
End Shapes.

Arguments vlen {A}. Arguments vget {A}. Arguments nr {A}. Arguments nc {A}. Arguments get {A}.
Arguments Build_vec {A}. Arguments Build_arr {A}.
Arguments vtake {A}. Arguments vdrop {A}. Arguments vlast {A}. Arguments vapp {A}.
Arguments reshape_vec {A}. Arguments ravel {A}. Arguments reshape2 {A}. Arguments transpose {A}.
Arguments take_rows {A}. Arguments take_cols {A}. Arguments hcat {A}. Arguments vcat {A}.
Arguments vec_to_list {A}. Arguments arr_to_lists {A}.
