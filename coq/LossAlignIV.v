(* C06 — theta_and_x0 -> parameters, x0 (BaseLoss._setParamStateInput): proofs about the decision tree and its actions *)
From Coq Require Import List Arith Bool Lia ZArith.
From Coq Require Import Ring.
From PV Require Import Util Shapes ShapesProofs LossAlign LossAlignProofs LossAlignCases.
Import ListNotations.

Lemma nth_skipn {X} (d : X) : forall n l k, nth k (skipn n l) d = nth (n + k) l d.
Proof. induction n as [|n IH]; intros [|x l] k; simpl; auto. destruct k; auto. Qed.
Lemma nth_firstn {X} (d : X) : forall n l k, k < n -> nth k (firstn n l) d = nth k l d.
Proof. induction n as [|n IH]; intros [|x l] k H; simpl; auto; try lia. destruct k; auto. apply IH. lia. Qed.
Lemma nth_lastn {X} (d : X) e (l : list X) k : 0 < e -> e <= length l -> nth k (lastn e l) d = nth (length l - e + k) l d.
Proof. intros He Hl. unfold lastn. destruct (Nat.eqb_spec e 0); [lia|]. apply nth_skipn. Qed.
Lemma lastn_length {X} e (l : list X) : e <= length l -> 0 < e -> length (lastn e l) = e.
Proof. intros H He. unfold lastn. destruct (Nat.eqb_spec e 0); [lia|]. rewrite skipn_length. lia. Qed.

Section IVP.
  Variable A : Type.
  Variable a0 : A.
  Variable cast : A -> A.
  Notation pval := (pval A).
  Notation lookup := (lookup A).
  Notation unroll_state := (unroll_state A cast).
  Notation unroll_param := (unroll_param A).
  Notation setall := (fold_left (fun d kv => dict_set A d (fst kv) (snd kv))).

  (* _unrollState into a float array is `x0[index(name_i)] = v_i` *)
  Lemma unroll_state_as_dict decls : forall names v x, length names <= length v ->
    unroll_state decls names v false x = apply_dict A decls x (combine names v).
  Proof.
    induction names as [|s r IH]; simpl; intros v x H; auto.
    destruct v as [|vi v']; simpl in *; [lia|].
    destruct (index_of s decls); auto. apply IH. lia.
  Qed.
  Theorem unroll_state_spec decls names v x : NoDup decls -> NoDup names -> (forall s, In s names -> In s decls) ->
    length names <= length v -> length x = length decls ->
    exists x', unroll_state decls names v false x = Ok x' /\ length x' = length x /\
      (forall k, k < length names -> pval decls x' (nth k names 0) = Some (nth k v a0)) /\
      (forall s, In s decls -> ~ In s names -> pval decls x' s = pval decls x s).
  Proof.
    intros Hd Hn Hin Hl Hx. rewrite unroll_state_as_dict by auto.
    assert (Hk : map fst (combine names v) = names) by (apply combine_keys; auto).
    destruct (apply_dict_lookup A decls Hd (combine names v) x) as [x' [E [Hl' Hv]]]; auto; try (rewrite Hk; auto).
    exists x'. repeat split; auto.
    - intros k Hk'. rewrite Hv by (apply Hin, nth_In; auto). now rewrite (lookup_combine A a0) by auto.
    - intros s Hs Hnot. rewrite (Hv s Hs). now rewrite lookup_combine_notin by auto.
  Qed.

  Lemma unroll_param_as_setall : forall names v d, length v <= length names ->
    unroll_param names v d = Ok (setall (combine names v) d).
  Proof.
    intros names v. revert names. induction v as [|vi v IH]; intros names d H.
    - destruct names; reflexivity.
    - destruct names as [|k r]; simpl in *; [lia|]. apply IH. lia.
  Qed.
  (* _unrollParam: afterwards the dictionary _theta binds the k-th target parameter to the k-th value; other keys keep theirs *)
  Theorem unroll_param_spec names v d : NoDup names -> length v = length names ->
    exists d', unroll_param names v d = Ok d' /\
      (forall k, k < length names -> lookup d' (nth k names 0) = Some (nth k v a0)) /\
      (forall key, ~ In key names -> lookup d' key = lookup d key) /\
      (NoDup (map fst d) -> NoDup (map fst d')) /\
      (forall key, In key (map fst d') -> In key names \/ In key (map fst d)).
  Proof.
    intros Hn Hl. rewrite unroll_param_as_setall by lia. eexists; split; [reflexivity|].
    assert (Hk : map fst (combine names v) = names) by (apply combine_keys; lia).
    repeat split.
    - intros k Hk'. rewrite setall_lookup by (rewrite Hk; auto). now rewrite (lookup_combine A a0) by (auto; lia).
    - intros key Hnot. rewrite setall_lookup by (rewrite Hk; auto). now rewrite lookup_combine_notin by auto.
    - apply setall_nodup.
    - intros key H. destruct (setall_keys _ _ _ _ H) as [H1|H1]; auto. rewrite Hk in H1. auto.
  Qed.

  (* ------------------------------------------------------------ the decision tree of _setParamStateInput *)
  Section Tree.
    Variables (f : facts) (decls : list nat) (nP : nat).
    Notation spsi := (set_param_state_input A cast f decls nP).

    Lemma leval1 tp ts a : leval (LossAlign.nS decls) nP (ltp tp) (lts ts) [a] = lval (LossAlign.nS decls) nP (ltp tp) (lts ts) a.
    Proof. unfold leval. simpl. lia. Qed.
    Lemma leval2 tp ts a b : leval (LossAlign.nS decls) nP (ltp tp) (lts ts) [a; b] =
      lval (LossAlign.nS decls) nP (ltp tp) (lts ts) a + lval (LossAlign.nS decls) nP (ltp tp) (lts ts) b.
    Proof. unfold leval. simpl. lia. Qed.

    (* no targets: theta_and_x0 = all parameters in declaration order, then all initial values in state order *)
    Theorem iv_all theta thint st : length theta = length decls + nP ->
      spsi None None good_ivtree theta thint st =
        Ok {| pv := pv A st; th := ThArr (firstn nP theta); x0 := lastn (length decls) theta;
              x0int := x0_keeps_dtype f && thint |}.
    Proof.
      intros H. unfold set_param_state_input. cbn [good_ivtree ivrun iceval andb negb].
      rewrite leval2. cbn [lval]. unfold LossAlign.nS. rewrite H, Nat.eqb_refl. cbn [negb].
      cbn [iv_steps iv_step bind take_slice set_param set_x0 th pv x0 x0int]. rewrite !leval1. cbn [lval]. reflexivity.
    Qed.
    Theorem iv_all_rejects theta thint st : length theta <> length decls + nP ->
      exists e, spsi None None good_ivtree theta thint st = Err e.
    Proof.
      intros H. unfold set_param_state_input. cbn [good_ivtree ivrun iceval andb negb].
      rewrite leval2. cbn [lval]. unfold LossAlign.nS. destruct (Nat.eqb_spec (length theta) (length decls + nP)); [lia|].
      cbn [negb ivrun]. eauto.
    Qed.

    (* both target lists: the first len(target_param) entries go to the target parameters, the last len(target_state)
       entries to the target states *)
    Theorem iv_both l1 l2 theta thint st d : th A st = ThDict d -> length theta = length l1 + length l2 ->
      spsi (Some l1) (Some l2) good_ivtree theta thint st =
        bind (unroll_state decls l2 (lastn (length l2) theta) (x0int A st) (x0 A st)) (fun x =>
        bind (unroll_param l1 (firstn (length l1) theta) d) (fun d' =>
          Ok {| pv := pv A st; th := ThDict d'; x0 := x; x0int := x0int A st |})).
    Proof.
      intros Hd H. unfold set_param_state_input. cbn [good_ivtree ivrun iceval andb negb].
      rewrite leval2. cbn [lval ltp lts]. rewrite H, Nat.eqb_refl.
      cbn [iv_steps iv_step take_slice]. rewrite !leval1. cbn [lval ltp lts].
      destruct (unroll_state decls l2 (lastn (length l2) theta) (x0int A st) (x0 A st)) as [x|e]; cbn [bind]; auto.
      cbn [th]. rewrite Hd. destruct (unroll_param l1 (firstn (length l1) theta) d) as [d'|e]; cbn [bind]; auto.
    Qed.
    Theorem iv_both_rejects l1 l2 theta thint st : length theta <> length l1 + length l2 ->
      exists e, spsi (Some l1) (Some l2) good_ivtree theta thint st = Err e.
    Proof.
      intros H. unfold set_param_state_input. cbn [good_ivtree ivrun iceval andb negb].
      rewrite leval2. cbn [lval ltp lts]. destruct (Nat.eqb_spec (length theta) (length l1 + length l2)); [lia|]. eauto.
    Qed.

    (* only target states, theta_and_x0 = the target initial values *)
    Theorem iv_states_only l2 theta thint st : length theta = length l2 ->
      spsi None (Some l2) good_ivtree theta thint st =
        bind (unroll_state decls l2 theta (x0int A st) (x0 A st)) (fun x =>
          Ok {| pv := pv A st; th := th A st; x0 := x; x0int := x0int A st |}).
    Proof.
      intros H. unfold set_param_state_input. cbn [good_ivtree ivrun iceval andb negb].
      rewrite leval1. cbn [lval ltp lts]. rewrite H, Nat.eqb_refl.
      cbn [iv_steps iv_step take_slice].
      destruct (unroll_state decls l2 theta (x0int A st) (x0 A st)) as [x|e]; cbn [bind]; auto.
    Qed.
    (* only target states, theta_and_x0 = all parameters then the target initial values *)
    Theorem iv_params_states l2 theta thint st : length theta = nP + length l2 -> nP <> 0 ->
      spsi None (Some l2) good_ivtree theta thint st =
        bind (unroll_state decls l2 (lastn (length l2) theta) (x0int A st) (x0 A st)) (fun x =>
          Ok {| pv := pv A st; th := ThArr (firstn nP theta); x0 := x; x0int := x0int A st |}).
    Proof.
      intros H HnP. unfold set_param_state_input. cbn [good_ivtree ivrun iceval andb negb].
      rewrite leval1, leval2. cbn [lval ltp lts]. destruct (Nat.eqb_spec (length theta) (length l2)); [lia|].
      rewrite H, Nat.eqb_refl. cbn [iv_steps iv_step take_slice set_param bind th pv x0 x0int]. rewrite !leval1. cbn [lval ltp lts].
      destruct (unroll_state decls l2 (lastn (length l2) theta) (x0int A st) (x0 A st)) as [x|e]; cbn [bind]; auto.
    Qed.
    (* only target parameters, theta_and_x0 = the target parameters then all initial values *)
    Theorem iv_params_only l1 theta thint st d : th A st = ThDict d -> length theta = length decls + length l1 ->
      length l1 <> nP -> length theta <> nP ->
      spsi (Some l1) None good_ivtree theta thint st =
        bind (unroll_param l1 (firstn (length l1) theta) d) (fun d' =>
          Ok {| pv := pv A st; th := ThDict d'; x0 := lastn (length decls) theta; x0int := x0_keeps_dtype f && thint |}).
    Proof.
      intros Hd H Hl Hn. unfold set_param_state_input. cbn [good_ivtree ivrun iceval andb negb].
      rewrite leval1, !leval2. cbn [lval ltp lts]. unfold LossAlign.nS.
      destruct (Nat.eqb_spec (length theta) nP); [lia|].
      destruct (Nat.eqb_spec (length theta) (length decls + nP)); [lia|].
      rewrite H, Nat.eqb_refl. cbn [iv_steps iv_step take_slice]. rewrite !leval1. cbn [lval ltp lts th]. rewrite Hd.
      destruct (unroll_param l1 (firstn (length l1) theta) d) as [d'|e]; cbn [bind]; auto.
    Qed.

    (* entry-wise reading of iv_both when _x0 is a float array *)
    Theorem iv_both_bind l1 l2 theta thint st d : NoDup decls -> NoDup l1 -> NoDup l2 ->
      (forall s, In s l2 -> In s decls) -> length (x0 A st) = length decls ->
      th A st = ThDict d -> length theta = length l1 + length l2 -> x0int A st = false ->
      exists st', spsi (Some l1) (Some l2) good_ivtree theta thint st = Ok st' /\ pv A st' = pv A st /\ x0int A st' = false /\
        length (x0 A st') = length decls /\
        (forall k, k < length l2 -> pval decls (x0 A st') (nth k l2 0) = Some (nth (length l1 + k) theta a0)) /\
        (forall s, In s decls -> ~ In s l2 -> pval decls (x0 A st') s = pval decls (x0 A st) s) /\
        exists d', th A st' = ThDict d' /\
          (forall k, k < length l1 -> lookup d' (nth k l1 0) = Some (nth k theta a0)) /\
          (forall key, ~ In key l1 -> lookup d' key = lookup d key).
    Proof.
      intros Hd Hn1 Hn2 Hin Hx Hth Hlen Hint. rewrite (iv_both l1 l2 theta thint st d Hth Hlen), Hint.
      destruct (Nat.eq_dec (length l2) 0) as [Hz|Hz].
      - (* no target state: lastn 0 is the whole theta, nothing is written *)
        destruct l2; [|simpl in Hz; lia]. cbn [unroll_state bind].
        destruct (unroll_param_spec l1 (firstn (length l1) theta) d Hn1) as [d' [E [H1 [H2 _]]]].
        { rewrite firstn_length. lia. }
        rewrite E. cbn [bind]. eexists; split; [reflexivity|]. cbn [pv x0 x0int th]. repeat split; auto.
        + intros k Hk. simpl in Hk. lia.
        + exists d'. repeat split; auto. intros k Hk. rewrite H1 by auto. f_equal. apply nth_firstn. auto.
      - destruct (unroll_state_spec decls l2 (lastn (length l2) theta) (x0 A st) Hd Hn2 Hin) as [x' [E [Hl [Hv Ho]]]]; auto.
        { rewrite lastn_length; lia. }
        rewrite E. cbn [bind].
        destruct (unroll_param_spec l1 (firstn (length l1) theta) d Hn1) as [d' [E' [H1 [H2 _]]]].
        { rewrite firstn_length. lia. }
        rewrite E'. cbn [bind]. eexists; split; [reflexivity|]. cbn [pv x0 x0int th]. repeat split; auto; try lia.
        + intros k Hk. rewrite Hv by auto. f_equal. rewrite nth_lastn by lia. f_equal. lia.
        + exists d'. repeat split; auto. intros k Hk. rewrite H1 by auto. f_equal. apply nth_firstn. auto.
    Qed.

    (* entry-wise reading of iv_all *)
    Theorem iv_all_bind theta thint st : length theta = length decls + nP -> 0 < length decls ->
      exists st', spsi None None good_ivtree theta thint st = Ok st' /\ pv A st' = pv A st /\
        x0int A st' = (x0_keeps_dtype f && thint) /\ th A st' = ThArr (firstn nP theta) /\
        length (x0 A st') = length decls /\
        (forall k, k < length decls -> nth k (x0 A st') a0 = nth (nP + k) theta a0) /\
        (forall k, k < nP -> nth k (firstn nP theta) a0 = nth k theta a0).
    Proof.
      intros H Hs. rewrite (iv_all theta thint st H). eexists; split; [reflexivity|]. cbn [pv x0 x0int th]. repeat split; auto.
      - apply lastn_length; lia.
      - intros k Hk. rewrite nth_lastn by lia. f_equal. lia.
      - intros k Hk. now apply nth_firstn.
    Qed.
  End Tree.
End IVP.

(* ====================================================================== square cost at the data-generating solution *)
Section Zero.
  Variables (A : Type) (a0 a1 : A) (add mul sub : A -> A -> A) (opp : A -> A).
  Hypothesis Rth : ring_theory a0 a1 add mul sub opp (@eq A).
  Add Ring Aring06 : Rth.
  Variable sol : list A -> list A -> A -> A -> nat -> A.
  Notation sumn := (sumn A a0 add).

  (* Square.loss: ((y - yhat) * w)^2, the spread is not used *)
  Definition sq_kernel (y yh s w : A) : A := mul (mul w (sub y yh)) (mul w (sub y yh)).

  Lemma sumn_zero n (f : nat -> A) : (forall k, k < n -> f k = a0) -> sumn n f = a0.
  Proof.
    intros H. rewrite (sumn_ext A a0 add n f (fun _ => a0) H). unfold Shapes.sumn, sum.
    clear H. generalize 0. induction n as [|n IH]; intros s; simpl; auto. rewrite IH. ring.
  Qed.
  Theorem square_zero n p y s w (yhat : arr A) : (forall i j, i < n -> j < p -> at2 A p y i j = get yhat i j) ->
    cost_of A a0 add sq_kernel n p y s w yhat = a0.
  Proof.
    intros H. unfold cost_of. apply sumn_zero. intros i Hi. apply sumn_zero. intros j Hj.
    unfold sq_kernel. rewrite (H i j Hi Hj). ring.
  Qed.
  (* observations equal to the solution in the named states at the observation times: cost = 0, whatever the weights *)
  Theorem cost_zero_at_solution f pv x0 t0 ts idx y s w : align_ok f = true ->
    (forall i j, i < length ts -> j < length idx -> at2 A (length idx) y i j = sol pv x0 t0 (nth i ts a0) (nth j idx 0)) ->
    cost_of A a0 add sq_kernel (length ts) (length idx) y s w (get_solution A a0 sol f pv x0 t0 ts idx) = a0.
  Proof.
    intros Hf H. apply square_zero. intros i j Hi Hj.
    destruct (get_solution_spec A a0 sol f pv x0 t0 ts idx Hf) as [_ [_ Hg]]. rewrite Hg by auto. auto.
  Qed.
End Zero.


(* ====================================================================== rows, columns and names together *)
Section AlignFull.
  Variable A : Type.
  Variables (a0 : A) (add : A -> A -> A).
  Variable sol : list A -> list A -> A -> A -> nat -> A.
  Variable kernel : A -> A -> A -> A -> A.

  (* row i of the selected solution is the state at the i-th observation time; column j is the j-th NAMED state,
     whatever the order of the names (k is its place in the declared state list, the first one should a name repeat) *)
  Theorem align_full f (Hf : align_ok f = true) pv x0 t0 ts decl names idx :
    state_index (index_sorted f) decl names = Some idx ->
    let S := get_solution A a0 sol f pv x0 t0 ts idx in
    nr S = length ts /\ nc S = length names /\
    forall i j, i < length ts -> j < length names ->
      exists k, nth_error decl k = Some (nth j names 0) /\ get S i j = sol pv x0 t0 (nth i ts a0) k.
  Proof.
    intros Hi S.
    assert (Hs : index_sorted f = false).
    { unfold align_ok in Hf. destruct (index_sorted f); simpl in Hf; auto; discriminate. }
    rewrite Hs in Hi. destruct (state_index_spec decl names idx Hi) as [Hl Hn].
    destruct (get_solution_spec A a0 sol f pv x0 t0 ts idx Hf) as [H1 [H2 H3]].
    subst S. split; [exact H1|]. split; [congruence|].
    intros i j Hi' Hj. exists (nth j idx 0). split.
    - apply (Hn j Hj).
    - apply H3. auto.
  Qed.

  (* cost = sum over observation rows and named columns of the kernel at (y_ij, x_k(j)(t_i), spread_ij, w_ij) *)
  Theorem cost_full f (Hf : align_ok f = true) pv x0 t0 ts decl names idx y s w :
    state_index (index_sorted f) decl names = Some idx ->
    cost_of A a0 add kernel (length ts) (length names) y s w (get_solution A a0 sol f pv x0 t0 ts idx) =
    sumn A a0 add (length ts) (fun i => sumn A a0 add (length names) (fun j =>
      kernel (at2 A (length names) y i j) (sol pv x0 t0 (nth i ts a0) (nth j idx 0))
             (at2 A (length names) s i j) (at2 A (length names) w i j))) /\
    forall j, j < length names -> nth_error decl (nth j idx 0) = Some (nth j names 0).
  Proof.
    intros Hi.
    assert (Hs : index_sorted f = false).
    { unfold align_ok in Hf. destruct (index_sorted f); simpl in Hf; auto; discriminate. }
    rewrite Hs in Hi. destruct (state_index_spec decl names idx Hi) as [Hl Hn]. split.
    - rewrite <- Hl. apply cost_align. auto.
    - intros j Hj. apply (Hn j Hj).
  Qed.
End AlignFull.

(* ====================================================================== the state of _x0's dtype *)
Lemma x0int_after_set_x0 A f v vint (st : lstate A) : x0_keeps_dtype f = false -> x0int A (set_x0 A f v vint st) = false.
Proof. intros H. unfold set_x0. simpl. now rewrite H. Qed.

(* ====================================================================== witnesses over Z *)
Module Witness.
  Open Scope Z_scope.
  (* 3 declared states S I R = 0 1 2; observed ['R', 'I'] *)
  Definition decl := [0; 1; 2]%nat.
  Definition names := [2; 0]%nat.
  Definition wsol (pv x0 : list Z) (t0 t : Z) (k : nat) : Z := 100 * t + Z.of_nat k.
  Definition sorted_cols := {| index_sorted := false; cols_sorted := true; sol_time_arg := TObserve; include_origin := false;
                               drop_first := false; x0_keeps_dtype := false |}.
  Definition with_origin := {| index_sorted := false; cols_sorted := false; sol_time_arg := TObserve; include_origin := true;
                               drop_first := false; x0_keeps_dtype := false |}.
  Definition grid_with_t0 := {| index_sorted := false; cols_sorted := false; sol_time_arg := TWithOrigin; include_origin := false;
                                drop_first := false; x0_keeps_dtype := false |}.
  (* sorting the positions (either place) gives column 0 = state 0 although state 2 was named first *)
  Lemma sorted_refuted :
    state_index true decl names = Some [0; 2]%nat /\
    get (get_solution Z 0 wsol sorted_cols [] [7; 8; 9] 0 [1; 2] [2; 0]%nat) 0 0 <> wsol [] [7; 8; 9] 0 1 2.
  Proof. split; [reflexivity|]. vm_compute. discriminate. Qed.
  (* an origin row that is not dropped, or the grid with t0 in front, shifts every row by one *)
  Lemma origin_refuted :
    get (get_solution Z 0 wsol with_origin [] [7; 8; 9] 0 [1; 2] [2; 0]%nat) 0 0 <> wsol [] [7; 8; 9] 0 1 2 /\
    nr (get_solution Z 0 wsol with_origin [] [7; 8; 9] 0 [1; 2] [2; 0]%nat) = 3%nat /\
    get (get_solution Z 0 wsol grid_with_t0 [] [7; 8; 9] 0 [1; 2] [2; 0]%nat) 0 0 <> wsol [] [7; 8; 9] 0 1 2.
  Proof. vm_compute. repeat split; discriminate. Qed.

  (* p = n = 2 observations; per-state weights [2; 3] given as a column: the tree of 8870a14 applies them per ROW *)
  Definition wy := mk_nda [2; 2]%nat [0; 0; 0; 0].
  Definition wcol := mk_nda [2; 1]%nat [2; 3].
  Lemma colvec_refuted :
    wclass_of 2 2 (sh wcol) = WPerState /\
    match loss_array Z true pinned_tree 2 2 wy wcol with
    | Ok w => at2 Z 2 w 0 1 = 2 /\ at2 Z 2 w 1 0 = 3 /\ fl wcol 1 = 3 /\ fl wcol 0 = 2
    | Err _ => False
    end /\
    tree_equiv pinned_tree good_tree = false.
  Proof. vm_compute. repeat split. Qed.
  Lemma colvec_good :
    match loss_array Z true good_tree 2 2 wy wcol with
    | Ok w => at2 Z 2 w 0 1 = 3 /\ at2 Z 2 w 1 0 = 2
    | Err _ => False
    end.
  Proof. vm_compute. repeat split. Qed.

  (* half units: x0 = [95; 5; 0] given as integers, target_state ['I'], costIV([4.5]) *)
  Definition keep := {| index_sorted := false; cols_sorted := false; sol_time_arg := TObserve; include_origin := false;
                        drop_first := false; x0_keeps_dtype := true |}.
  Definition st0 (isint : bool) : lstate Z := {| pv := [1; 1]; th := ThArr [1; 1]; x0 := [190; 10; 0]; x0int := isint |}.
  Lemma dtype_refuted :
    match set_param_state_input Z zcast keep decl 2 None (Some [1%nat]) good_ivtree [9] false (st0 (x0_keeps_dtype keep && true)) with
    | Ok st' => pval Z decl (x0 Z st') 1 = Some 8
    | Err _ => False
    end /\
    match set_param_state_input Z zcast good_facts decl 2 None (Some [1%nat]) good_ivtree [9] false
                                (st0 (x0_keeps_dtype good_facts && true)) with
    | Ok st' => pval Z decl (x0 Z st') 1 = Some 9
    | Err _ => False
    end.
  Proof. vm_compute. split; reflexivity. Qed.

  (* the hypotheses of the theorems are met by a concrete non-trivial instance *)
  Lemma hyps_ok :
    align_ok good_facts = true /\ state_index false decl names = Some [2; 0]%nat /\ NoDup decl /\ NoDup names /\
    (forall x, In x names -> In x decl) /\ tree_equiv good_tree good_tree = true /\
    sh wy = yshape 2 2 /\ ivtree_eqb good_ivtree good_ivtree = true.
  Proof.
    repeat split; try reflexivity.
    - repeat constructor; simpl; intuition discriminate.
    - repeat constructor; simpl; intuition discriminate.
    - simpl. intuition.
  Qed.
End Witness.
