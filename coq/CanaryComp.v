(* C08, "and the rest": evaluators computed from a compiled evaluator and the shape helper of the sensitivity
   functions (sensitivity, ode_and_sensitivity, ode_and_sensitivityIV and their Jacobians, forward-forward).
   The helper (ode_utils.shapeAdjust(num_state, num_param), `self._SAUtil`) reshapes vectors of nS*nP entries: it
   answers only when the number of parameters it was built with is the number the model has now.  Whether it is built
   once in the constructor or from the current sizes is a fact extracted from the source (Gen.CanaryGen.helper_current).
   Definitions and proofs; the statements of the property are in Props/C08.v. *)
From Coq Require Import List String ZArith Bool Arith.
From PV Require Import Canary CanaryProofs.
Import ListNotations.
Open Scope string_scope.

(* the number of parameters the helper reshapes for: the current one, or the one at construction *)
Definition helper_np (current : bool) (n0 : nat) (s : state) : nat := if current then np s else n0.

(* a composite evaluator built on the compiled evaluator e *)
Definition comp_eval (F : facts) (current : bool) (n0 : nat) (s : state) (e : name) : state * result :=
  let r := eval F s e in
  (fst r, if Nat.eqb (helper_np current n0 (fst r)) (np (fst r)) then snd r else Err).

Lemma comp_current : forall F n0 s e, snd (comp_eval F true n0 s e) = snd (eval F s e).
Proof. intros F n0 s e. unfold comp_eval, helper_np. cbn [fst snd]. now rewrite Nat.eqb_refl. Qed.

(* with a helper that follows the model, a composite evaluator inherits the property of the compiled one *)
Theorem comp_same_as_fresh_all : forall F, good F = true -> forall n0 ops e, reg F e ->
  snd (comp_eval F true n0 (run F (init F n0) ops) e) = snd (comp_eval F true n0 (run F (init F n0) (strip ops)) e).
Proof. intros F HF n0 ops e He. rewrite !comp_current. now apply same_as_fresh_all. Qed.

Theorem comp_fresh_all : forall F, good F = true -> forall n0 ops e, reg F e ->
  let s := run F (init F n0) ops in snd (comp_eval F true n0 s e) = Val (def s) (pv s).
Proof. intros F HF n0 ops e He s. rewrite comp_current. now apply fresh_all. Qed.

(* a helper built once in the constructor: after a parameter is added (and every parameter given a value) the composite
   evaluator fails where the freshly constructed model answers *)
Definition grow_ops : list op := [Eval "ode"; Mutate "param_list" 1; SetList [1; 2; 3]%Z].

Theorem helper_once_refuted :
  let F := ideal true true in
  snd (comp_eval F false 2 (run F (init F 2) grow_ops) "ode") = Err /\
  snd (comp_eval F true 2 (run F (init F 2) (strip grow_ops)) "ode") = Val [("param_list", 1)] [1; 2; 3]%Z /\
  snd (comp_eval F true 2 (run F (init F 2) grow_ops) "ode") = Val [("param_list", 1)] [1; 2; 3]%Z.
Proof. vm_compute. repeat split. Qed.
