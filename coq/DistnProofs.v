(* C19 — semantics over R of the extracted dispatch tables, soundness of the boolean checks of Distn.v,
   closed forms of the exponential / uniform / normal families in R's parameterisation, the
   negative-binomial mean/size identity and the seeding theorem. *)
From Coq Require Import String List ZArith Bool Reals Lra Lia.
Set Warnings "-ambiguous-paths".
From Coquelicot Require Import Coquelicot.
From PV Require Import Distn.
Import ListNotations.
Open Scope R_scope.

(* ================================================================== 1. boolean equalities are sound *)
Lemma fam_eqb_eq a b : fam_eqb a b = true -> a = b.
Proof. destruct a, b; simpl; congruence. Qed.
Lemma meth_eqb_eq a b : meth_eqb a b = true -> a = b.
Proof. destruct a, b; simpl; congruence. Qed.
Lemma source_eqb_eq a b : source_eqb a b = true -> a = b.
Proof. destruct a, b; simpl; congruence. Qed.
Lemma sampler_eqb_eq a b : sampler_eqb a b = true -> a = b.
Proof. destruct a, b; simpl; congruence. Qed.

Lemma expr_eqb_eq a : forall b, expr_eqb a b = true -> a = b.
Proof.
  induction a; destruct b; simpl; try discriminate; intros H;
    try (apply andb_prop in H as [H1 H2]);
    try (apply IHa1 in H1; apply IHa2 in H2; subst; reflexivity);
    try (apply IHa in H; subst; reflexivity).
  - apply String.eqb_eq in H. subst. reflexivity.
  - apply Z.eqb_eq in H1. apply Pos.eqb_eq in H2. subst. reflexivity.
Qed.
Lemma oexpr_eqb_eq a b : oexpr_eqb a b = true -> a = b.
Proof. destruct a, b; simpl; try discriminate; auto. intros H. apply expr_eqb_eq in H. subst. reflexivity. Qed.

(* ================================================================== 2. semantics *)
Section Sem.
  (* external engines: ln Gamma and scipy.stats.  [sp f m l] is the value of st.<f>.<m> on the canonical
     argument list  l = [x; shape parameters ...; loc; scale]  (see Distn.pos_names) *)
  Variable lgam : R -> R.
  Variable sp : fam -> meth -> list R -> R.

  Definition cst (n : Z) (d : positive) : R :=
    match d with xH => IZR n | _ => IZR n / IZR (Zpos d) end.

  Fixpoint eval (rho : string -> R) (e : expr) : R :=
    match e with
    | Arg s => rho s
    | Cst n d => cst n d
    | EAdd a b => eval rho a + eval rho b
    | ESub a b => eval rho a - eval rho b
    | EMul a b => eval rho a * eval rho b
    | EDiv a b => eval rho a / eval rho b
    | ENeg a => - eval rho a
    | ELn a => ln (eval rho a)
    | EExp a => exp (eval rho a)
    | ELGamma a => lgam (eval rho a)
    end.

  (* scipy's defaults: loc = 0, scale = 1 *)
  Definition default_of (k : string) : expr := if String.eqb k "scale" then Cst 1 1 else Cst 0 1.
  Definition canon (names : list string) (a : kwargs) (rho : string -> R) : list R :=
    map (fun k => eval rho (match get k a with Some e => e | None => default_of k end)) names.

  (* what a wrapper returns: None = no value (stub returning None, or an exception) *)
  Definition den (j : impl) (rho : string -> R) : option R :=
    match j with
    | Scipy f m a => Some (sp f m (canon (pos_names f m) (norm_args f m a) rho))
    | Inline e => Some (eval rho e)
    | Stub | Raises => None
    end.

  Definition wrapper (t : list (key * impl)) (k : key) (rho : string -> R) : option R :=
    match find_key k t with Some j => den j rho | None => None end.

  Lemma kwargs_ok_canon names a b rho : kwargs_ok names a b = true -> canon names a rho = canon names b rho.
  Proof.
    unfold kwargs_ok. intros H. apply andb_prop in H as [_ H].
    unfold canon. apply map_ext_in. intros k Hk.
    rewrite forallb_forall in H. apply H in Hk. apply oexpr_eqb_eq in Hk. rewrite Hk. reflexivity.
  Qed.

  Lemma impl_eqb_den j i : impl_eqb j i = true -> forall rho, den j rho = den i rho.
  Proof.
    destruct j, i; simpl; try discriminate; auto.
    - intros H rho. apply andb_prop in H as [H H3]. apply andb_prop in H as [H1 H2].
      apply fam_eqb_eq in H1. apply meth_eqb_eq in H2. subst.
      rewrite (kwargs_ok_canon _ _ _ rho H3). reflexivity.
    - intros H rho. apply expr_eqb_eq in H. subst. reflexivity.
  Qed.

  (* the dispatch check is sound: every wrapper the expected table pins down denotes, for all
     arguments, the scipy call in R's parameterisation that the expected table names *)
  Theorem dispatch_sound t : dispatch_ok t = true ->
    forall k i, In (k, Exactly i) expected -> forall rho, wrapper t k rho = den i rho.
  Proof.
    unfold dispatch_ok. intros H k i Hin rho. apply andb_prop in H as [H _].
    rewrite forallb_forall in H. specialize (H _ Hin). unfold entry_ok in H. unfold wrapper.
    destruct (find_key k t) as [j|]; [|discriminate]. apply impl_eqb_den. exact H.
  Qed.

  (* ---------------------------------------------------------------- log forms *)
  (* scipy's contract for the log methods *)
  Definition sp_log_contract : Prop :=
    forall f l, sp f LogPdf l = ln (sp f Pdf l) /\ sp f LogCdf l = ln (sp f Cdf l) /\
                sp f LogSf l = ln (sp f Sf l) /\ sp f LogPmf l = ln (sp f Pmf l).

  Lemma is_log_of_den jl jp : sp_log_contract -> is_log_of jl jp = true ->
    forall rho, den jl rho = option_map ln (den jp rho).
  Proof.
    intros C. destruct jl as [| |f ml a|el], jp as [| |g mp b|ep]; try discriminate; auto.
    - unfold is_log_of, den. intros H rho. apply andb_prop in H as [H H3]. apply andb_prop in H as [H1 H2].
      apply fam_eqb_eq in H1. subst g.
      rewrite (kwargs_ok_canon _ _ _ rho H3).
      destruct (C f (canon (pos_names f ml) (norm_args f mp b) rho)) as (C1 & C2 & C3 & C4).
      destruct mp; simpl in H2; try discriminate; destruct ml; try discriminate;
        unfold option_map; f_equal; assumption.
    - unfold is_log_of, den. intros H rho. apply expr_eqb_eq in H. subst ep. simpl. rewrite ln_exp. reflexivity.
  Qed.

  Lemma log_pair_sound t o kp kl : sp_log_contract -> log_pair_ok t o kp kl = true ->
    forall rho, wrapper t kl rho = option_map ln (wrapper t kp rho).
  Proof.
    intros C H rho. unfold log_pair_ok in H. unfold wrapper.
    destruct (find_key kl t) as [jl|], (find_key kp t) as [jp|]; try discriminate; auto.
    apply is_log_of_den; assumption.
  Qed.

  (* every d / p wrapper: its log form is ln of its plain form, for all arguments *)
  Theorem log_sound t : sp_log_contract -> log_ok t = true ->
    forall o kp kl, In (o, kp, kl) log_pairs -> forall rho, wrapper t kl rho = option_map ln (wrapper t kp rho).
  Proof.
    intros C H o kp kl Hin. unfold log_ok in H. rewrite forallb_forall in H. specialize (H _ Hin). simpl in H.
    apply log_pair_sound with o; assumption.
  Qed.
End Sem.

(* ================================================================== 3. closed forms, R's parameterisation *)
(* scipy's location-scale convention for a continuous family with standard density f, cdf F, quantile Q *)
Definition ls_pdf (f : R -> R) (loc scale x : R) : R := f ((x - loc) / scale) / scale.
Definition ls_cdf (F : R -> R) (loc scale x : R) : R := F ((x - loc) / scale).
Definition ls_ppf (Q : R -> R) (loc scale p : R) : R := loc + scale * Q p.

(* standard exponential, uniform and normal *)
Definition expon_pdf (z : R) : R := if Rle_dec 0 z then exp (- z) else 0.
Definition expon_cdf (z : R) : R := if Rle_dec 0 z then 1 - exp (- z) else 0.
Definition expon_ppf (p : R) : R := - ln (1 - p).
Definition unif_pdf (z : R) : R := if Rle_dec 0 z then if Rle_dec z 1 then 1 else 0 else 0.
Definition unif_cdf (z : R) : R := if Rle_dec 0 z then if Rle_dec z 1 then z else 1 else 0.
Definition unif_ppf (p : R) : R := p.
Definition norm_pdf (z : R) : R := exp (- (z ^ 2) / 2) / sqrt (2 * PI).

(* R's dexp / pexp / qexp, dunif / punif / qunif, dnorm as documented *)
Definition dexp_R (rate x : R) : R := if Rle_dec 0 x then rate * exp (- (rate * x)) else 0.
Definition pexp_R (rate q : R) : R := if Rle_dec 0 q then 1 - exp (- (rate * q)) else 0.
Definition qexp_R (rate p : R) : R := - ln (1 - p) / rate.
Definition dunif_R (a b x : R) : R := if Rle_dec a x then if Rle_dec x b then 1 / (b - a) else 0 else 0.
Definition punif_R (a b q : R) : R := if Rle_dec a q then if Rle_dec q b then (q - a) / (b - a) else 1 else 0.
Definition qunif_R (a b p : R) : R := a + p * (b - a).
Definition dnorm_R (mean sd x : R) : R := exp (- ((x - mean) ^ 2) / (2 * sd ^ 2)) / (sd * sqrt (2 * PI)).

Lemma scaled_nonneg rate x : 0 < rate -> (0 <= (x - 0) / (1 / rate) <-> 0 <= x).
Proof.
  intros Hr. replace ((x - 0) / (1 / rate)) with (rate * x) by (field; lra). split; intros H.
  - apply Rmult_le_reg_l with rate; [lra|]. lra.
  - apply Rmult_le_pos; lra.
Qed.

Theorem exp_pdf_rate rate x : 0 < rate -> ls_pdf expon_pdf 0 (1 / rate) x = dexp_R rate x.
Proof.
  intros Hr. unfold ls_pdf, expon_pdf, dexp_R. pose proof (scaled_nonneg rate x Hr) as [A B].
  destruct (Rle_dec 0 ((x - 0) / (1 / rate))) as [H|H], (Rle_dec 0 x) as [G|G]; try tauto.
  - replace (- ((x - 0) / (1 / rate))) with (- (rate * x)) by (field; lra). field. lra.
  - field. lra.
Qed.

Theorem exp_cdf_rate rate q : 0 < rate -> ls_cdf expon_cdf 0 (1 / rate) q = pexp_R rate q.
Proof.
  intros Hr. unfold ls_cdf, expon_cdf, pexp_R. pose proof (scaled_nonneg rate q Hr) as [A B].
  destruct (Rle_dec 0 ((q - 0) / (1 / rate))) as [H|H], (Rle_dec 0 q) as [G|G]; try tauto.
  replace (- ((q - 0) / (1 / rate))) with (- (rate * q)) by (field; lra). reflexivity.
Qed.

Theorem exp_ppf_rate rate p : 0 < rate -> ls_ppf expon_ppf 0 (1 / rate) p = qexp_R rate p.
Proof. intros Hr. unfold ls_ppf, expon_ppf, qexp_R. field. lra. Qed.

(* q is the inverse of p *)
Theorem exp_q_of_p rate x : 0 < rate -> 0 <= x -> qexp_R rate (pexp_R rate x) = x.
Proof.
  intros Hr Hx. unfold qexp_R, pexp_R. destruct (Rle_dec 0 x); [|tauto].
  replace (1 - (1 - exp (- (rate * x)))) with (exp (- (rate * x))) by ring.
  rewrite ln_exp. field. lra.
Qed.
Theorem exp_p_of_q rate p : 0 < rate -> 0 <= p < 1 -> pexp_R rate (qexp_R rate p) = p.
Proof.
  intros Hr [H0 H1]. unfold qexp_R, pexp_R.
  assert (Hq : 0 <= - ln (1 - p) / rate).
  { apply Rmult_le_pos; [|left; apply Rinv_0_lt_compat; exact Hr].
    destruct (Req_dec p 0) as [->|Hp]; [rewrite Rminus_0_r, ln_1; lra|].
    assert (ln (1 - p) < ln 1) by (apply ln_increasing; lra). rewrite ln_1 in H. lra. }
  destruct (Rle_dec 0 (- ln (1 - p) / rate)); [|tauto].
  replace (- (rate * (- ln (1 - p) / rate))) with (ln (1 - p)) by (field; lra).
  rewrite exp_ln by lra. ring.
Qed.

(* d is the density of p: the cdf starts at 0 and its derivative is the pdf *)
Theorem exp_cdf_at_0 rate : pexp_R rate 0 = 0.
Proof. unfold pexp_R. destruct (Rle_dec 0 0); [|lra]. rewrite Rmult_0_r, Ropp_0, exp_0. ring. Qed.
Theorem exp_density rate x : 0 < x -> is_derive (pexp_R rate) x (dexp_R rate x).
Proof.
  intros Hx. apply is_derive_ext_loc with (f := fun y => 1 - exp (- (rate * y))).
  - exists (mkposreal x Hx). intros y Hy. unfold ball in Hy. simpl in Hy. unfold AbsRing_ball, abs, minus, plus, opp in Hy.
    simpl in Hy. apply Rabs_def2 in Hy. unfold pexp_R. destruct (Rle_dec 0 y); [reflexivity|lra].
  - unfold dexp_R. destruct (Rle_dec 0 x); [|lra]. auto_derive; [exact I|ring].
Qed.

(* log form *)
Theorem exp_log_pdf rate x : 0 < rate -> 0 <= x -> ln (dexp_R rate x) = ln rate - rate * x.
Proof.
  intros Hr Hx. unfold dexp_R. destruct (Rle_dec 0 x); [|tauto].
  rewrite ln_mult by (try apply exp_pos; lra). rewrite ln_exp. ring.
Qed.

(* ---------------------------------------------------------------- uniform *)
Lemma unif_std a b x : a < b -> (0 <= (x - a) / (b - a) <-> a <= x) /\ ((x - a) / (b - a) <= 1 <-> x <= b).
Proof.
  intros Hab. assert (Hd : 0 < b - a) by lra. split; split; intros H.
  - apply (Rmult_le_compat_r (b - a)) in H; [|lra]. replace ((x - a) / (b - a) * (b - a)) with (x - a) in H by (field; lra). lra.
  - apply Rmult_le_pos; [lra|]. left. apply Rinv_0_lt_compat. lra.
  - apply (Rmult_le_compat_r (b - a)) in H; [|lra]. replace ((x - a) / (b - a) * (b - a)) with (x - a) in H by (field; lra). lra.
  - apply (Rmult_le_reg_r (b - a)); [lra|]. replace ((x - a) / (b - a) * (b - a)) with (x - a) by (field; lra). lra.
Qed.

Theorem unif_pdf_minmax a b x : a < b -> ls_pdf unif_pdf a (b - a) x = dunif_R a b x.
Proof.
  intros Hab. unfold ls_pdf, unif_pdf, dunif_R. destruct (unif_std a b x Hab) as [[A1 A2] [B1 B2]].
  destruct (Rle_dec 0 ((x - a) / (b - a))), (Rle_dec a x); try tauto;
    destruct (Rle_dec ((x - a) / (b - a)) 1), (Rle_dec x b); try tauto; try (field; lra).
Qed.
Theorem unif_cdf_minmax a b q : a < b -> ls_cdf unif_cdf a (b - a) q = punif_R a b q.
Proof.
  intros Hab. unfold ls_cdf, unif_cdf, punif_R. destruct (unif_std a b q Hab) as [[A1 A2] [B1 B2]].
  destruct (Rle_dec 0 ((q - a) / (b - a))), (Rle_dec a q); try tauto;
    destruct (Rle_dec ((q - a) / (b - a)) 1), (Rle_dec q b); try tauto; reflexivity.
Qed.
Theorem unif_ppf_minmax a b p : ls_ppf unif_ppf a (b - a) p = qunif_R a b p.
Proof. unfold ls_ppf, unif_ppf, qunif_R. ring. Qed.

Theorem unif_q_of_p a b x : a < b -> a <= x <= b -> qunif_R a b (punif_R a b x) = x.
Proof.
  intros Hab [H1 H2]. unfold qunif_R, punif_R. destruct (Rle_dec a x); [|tauto]. destruct (Rle_dec x b); [|tauto].
  field. lra.
Qed.
Theorem unif_p_of_q a b p : a < b -> 0 <= p <= 1 -> punif_R a b (qunif_R a b p) = p.
Proof.
  intros Hab [H0 H1]. unfold qunif_R, punif_R.
  assert (0 <= p * (b - a)) by (apply Rmult_le_pos; lra).
  assert (p * (b - a) <= 1 * (b - a)) by (apply Rmult_le_compat_r; lra).
  destruct (Rle_dec a (a + p * (b - a))); [|lra]. destruct (Rle_dec (a + p * (b - a)) b); [|lra].
  field. lra.
Qed.
Theorem unif_density a b x : a < x < b -> is_derive (punif_R a b) x (dunif_R a b x).
Proof.
  intros [H1 H2]. assert (Hd : 0 < Rmin (x - a) (b - x)) by (apply Rmin_glb_lt; lra).
  apply is_derive_ext_loc with (f := fun y => (y - a) / (b - a)).
  - exists (mkposreal _ Hd). intros y Hy. unfold ball in Hy. simpl in Hy. unfold AbsRing_ball, abs, minus, plus, opp in Hy.
    simpl in Hy. apply Rabs_def2 in Hy. destruct Hy as [Hy1 Hy2].
    pose proof (Rmin_l (x - a) (b - x)). pose proof (Rmin_r (x - a) (b - x)).
    unfold punif_R. destruct (Rle_dec a y); [|lra]. destruct (Rle_dec y b); [reflexivity|lra].
  - unfold dunif_R. destruct (Rle_dec a x); [|lra]. destruct (Rle_dec x b); [|lra].
    auto_derive; [exact I|field; lra].
Qed.
Theorem unif_log_pdf a b x : a < b -> a <= x <= b -> ln (dunif_R a b x) = - ln (b - a).
Proof.
  intros Hab [H1 H2]. unfold dunif_R. destruct (Rle_dec a x); [|tauto]. destruct (Rle_dec x b); [|tauto].
  unfold Rdiv. rewrite Rmult_1_l. apply ln_Rinv. lra.
Qed.

(* ---------------------------------------------------------------- normal density *)
Theorem norm_pdf_mean_sd mean sd x : 0 < sd -> ls_pdf norm_pdf mean sd x = dnorm_R mean sd x.
Proof.
  intros Hs. unfold ls_pdf, norm_pdf, dnorm_R.
  assert (Hq : 0 < sqrt (2 * PI)) by (apply sqrt_lt_R0; pose proof PI_RGT_0; lra).
  replace (- (((x - mean) / sd) ^ 2) / 2) with (- ((x - mean) ^ 2) / (2 * sd ^ 2)) by (field; lra).
  field. split; lra.
Qed.

(* ================================================================== 4. wrappers, end to end *)
Ltac in_expected :=
  match goal with |- In (?k, _) expected =>
    let n := eval vm_compute in (index_of k expected) in
    apply (nth_error_In expected n); vm_compute; reflexivity end.

Section EndToEnd.
  Variable lgam : R -> R.
  Variable sp : fam -> meth -> list R -> R.
  Variable t : list (key * impl).
  Hypothesis Hdispatch : dispatch_ok t = true.

  (* scipy's contract for a shape-free continuous family: canonical arguments are [x; loc; scale] *)
  Definition sp_ls_contract (f : fam) (pdf cdf ppf : R -> R) : Prop :=
    forall x loc scale, sp f Pdf [x; loc; scale] = ls_pdf pdf loc scale x /\
                        sp f Cdf [x; loc; scale] = ls_cdf cdf loc scale x /\
                        sp f Ppf [x; loc; scale] = ls_ppf ppf loc scale x.

  Notation W := (wrapper lgam sp t).

  Section Exp.
    Hypothesis Hexp : sp_ls_contract Expon expon_pdf expon_cdf expon_ppf.
    Variable rho : string -> R.
    Hypothesis Hrate : 0 < rho "rate".

    Theorem dexp_closed : W ("dexp", lgf false, NoMode) rho = Some (dexp_R (rho "rate") (rho "x")).
    Proof.
      rewrite (dispatch_sound lgam sp t Hdispatch _ (Scipy Expon Pdf (exp_kw X))) by in_expected.
      simpl. f_equal. destruct (Hexp (rho "x") 0 (1 / rho "rate")) as (E & _ & _). rewrite E.
      apply exp_pdf_rate. exact Hrate.
    Qed.
    Theorem pexp_closed : W ("pexp", lgf false, NoMode) rho = Some (pexp_R (rho "rate") (rho "x")).
    Proof.
      rewrite (dispatch_sound lgam sp t Hdispatch _ (Scipy Expon Cdf (exp_kw X))) by in_expected.
      simpl. f_equal. destruct (Hexp (rho "x") 0 (1 / rho "rate")) as (_ & E & _). rewrite E.
      apply exp_cdf_rate. exact Hrate.
    Qed.
    Theorem qexp_closed : W ("qexp", lgf false, NoMode) rho = Some (qexp_R (rho "rate") (rho "x")).
    Proof.
      rewrite (dispatch_sound lgam sp t Hdispatch _ (Scipy Expon Ppf (exp_kw X))) by in_expected.
      simpl. f_equal. destruct (Hexp (rho "x") 0 (1 / rho "rate")) as (_ & _ & E). rewrite E.
      apply exp_ppf_rate. exact Hrate.
    Qed.
  End Exp.

  Section Unif.
    Hypothesis Hunif : sp_ls_contract Uniform unif_pdf unif_cdf unif_ppf.
    Variable rho : string -> R.
    Hypothesis Hmm : rho "min" < rho "max".

    Theorem dunif_closed : W ("dunif", lgf false, NoMode) rho = Some (dunif_R (rho "min") (rho "max") (rho "x")).
    Proof.
      rewrite (dispatch_sound lgam sp t Hdispatch _ (Scipy Uniform Pdf (unif_kw X))) by in_expected.
      simpl. f_equal. destruct (Hunif (rho "x") (rho "min") (rho "max" - rho "min")) as (E & _ & _). rewrite E.
      apply unif_pdf_minmax. exact Hmm.
    Qed.
    Theorem punif_closed : W ("punif", lgf false, NoMode) rho = Some (punif_R (rho "min") (rho "max") (rho "x")).
    Proof.
      rewrite (dispatch_sound lgam sp t Hdispatch _ (Scipy Uniform Cdf (unif_kw X))) by in_expected.
      simpl. f_equal. destruct (Hunif (rho "x") (rho "min") (rho "max" - rho "min")) as (_ & E & _). rewrite E.
      apply unif_cdf_minmax. exact Hmm.
    Qed.
    Theorem qunif_closed : W ("qunif", lgf false, NoMode) rho = Some (qunif_R (rho "min") (rho "max") (rho "x")).
    Proof.
      rewrite (dispatch_sound lgam sp t Hdispatch _ (Scipy Uniform Ppf (unif_kw X))) by in_expected.
      simpl. f_equal. destruct (Hunif (rho "x") (rho "min") (rho "max" - rho "min")) as (_ & _ & E). rewrite E.
      apply unif_ppf_minmax.
    Qed.
  End Unif.

  Section Norm.
    Hypothesis Hnorm : forall x loc scale, sp Norm Pdf [x; loc; scale] = ls_pdf norm_pdf loc scale x.
    Variable rho : string -> R.
    Hypothesis Hsd : 0 < rho "sd".
    Theorem dnorm_closed : W ("dnorm", lgf false, NoMode) rho = Some (dnorm_R (rho "mean") (rho "sd") (rho "x")).
    Proof.
      rewrite (dispatch_sound lgam sp t Hdispatch _ (Scipy Norm Pdf (norm_kw X))) by in_expected.
      simpl. f_equal. rewrite Hnorm. apply norm_pdf_mean_sd. exact Hsd.
    Qed.
  End Norm.
End EndToEnd.

(* ================================================================== 5. negative binomial: mean/size == (n, p) *)
Section NB.
  Variable lgam : R -> R.
  (* log-pmf of the standard (n, p) form, n real > 0 (scipy.stats.nbinom / R dnbinom(size, prob)) *)
  Definition nb_logpmf (x n p : R) : R := lgam (n + x) - lgam (x + 1) - lgam n + n * ln p + x * ln (1 - p).
  (* the mean/size ("NB2", ecological) log-pmf as nb2pmf writes it *)
  Definition nb2_logpmf (x mu k : R) : R :=
    - lgam (x + 1) + - lgam k + k * (ln k - ln (k + mu)) + x * (ln mu - ln (k + mu)) + lgam (k + x).

  Theorem nb_mean_size x mu k : 0 < k -> 0 < mu -> nb2_logpmf x mu k = nb_logpmf x k (k / (k + mu)).
  Proof.
    intros Hk Hm. unfold nb2_logpmf, nb_logpmf.
    replace (1 - k / (k + mu)) with (mu / (k + mu)) by (field; lra).
    unfold Rdiv. rewrite !ln_mult, !ln_Rinv; try lra; try (apply Rinv_0_lt_compat; lra).
  Qed.

  Variable sp : fam -> meth -> list R -> R.
  (* scipy's contract for nbinom (canonical arguments [k; n; p; loc; scale]) *)
  Definition sp_nb_contract : Prop :=
    forall x n p, sp NBinom LogPmf [x; n; p; 0; 1] = nb_logpmf x n p /\
                  sp NBinom Pmf [x; n; p; 0; 1] = exp (nb_logpmf x n p).
End NB.

(* closes   wrapper lgam sp T ("dnbinom", [log:=b], ByMu) rho = Some (… nb_logpmf … (size/(size+mu)))
   for the extracted table T, whichever of the two admissible shapes the source has *)
Ltac nb_tac T :=
  let lgam := fresh "lgam" in let sp := fresh "sp" in let C := fresh "C" in let rho := fresh "rho" in
  let Hk := fresh "Hk" in let Hm := fresh "Hm" in
  intros lgam sp C rho Hk Hm; unfold wrapper;
  match goal with |- context [find_key ?k T] =>
    let r := eval vm_compute in (find_key k T) in
    replace (find_key k T) with r by (vm_compute; reflexivity) end;
  cbv beta iota;
  first
    [ (* an inlined kernel *)
      unfold den; cbn [eval cst]; rewrite <- (nb_mean_size lgam _ _ _ Hk Hm); unfold nb2_logpmf;
      match goal with
      | |- Some (exp _) = Some (exp _) => do 2 f_equal
      | |- Some _ = Some _ => f_equal
      end;
      try (rewrite !ln_div by lra); ring
    | (* st.nbinom.<m>(x, n = size, p = size/(size+mu)) *)
      unfold den; simpl; destruct (C (rho "x") (rho "size") (rho "size" / (rho "size" + rho "mu"))) as [C1 C2];
      first [rewrite C1 | rewrite C2]; reflexivity ].

Definition upd (rho : string -> R) (k : string) (v : R) : string -> R :=
  fun s => if String.eqb s k then v else rho s.

(* the mean/size wrapper IS the (n, p) wrapper called with prob = size / (size + mu) *)
Lemma nb_agree lgam sp t (b : bool) : dispatch_ok t = true -> sp_nb_contract lgam sp ->
  forall rho, 0 < rho "size" -> 0 < rho "mu" ->
  wrapper lgam sp t ("dnbinom", lgf b, ByMu) rho =
    Some ((if b then (fun v => v) else exp) (nb_logpmf lgam (rho "x") (rho "size") (rho "size" / (rho "size" + rho "mu")))) ->
  wrapper lgam sp t ("dnbinom", lgf b, ByMu) rho =
  wrapper lgam sp t ("dnbinom", lgf b, ByProb) (upd rho "prob" (rho "size" / (rho "size" + rho "mu"))).
Proof.
  intros Hd C rho Hk Hm E. rewrite E.
  destruct (C (rho "x") (rho "size") (rho "size" / (rho "size" + rho "mu"))) as [C1 C2].
  destruct b.
  - rewrite (dispatch_sound lgam sp t Hd _ (Scipy NBinom LogPmf (nbinom_kw (Arg "prob") X))) by in_expected.
    simpl. unfold upd. simpl. rewrite C1. reflexivity.
  - rewrite (dispatch_sound lgam sp t Hd _ (Scipy NBinom Pmf (nbinom_kw (Arg "prob") X))) by in_expected.
    simpl. unfold upd. simpl. rewrite C2. reflexivity.
Qed.

(* ================================================================== 6. seeding *)
Section Seed.
  Variables state value : Type.
  Variable init : Z -> state.                    (* numpy.random.RandomState(seed) *)
  Definition gen := state -> value * state.      (* a sampler call consumes and advances a state *)

  (* one call of an r-function whose draw uses [src]: integer seed s, global numpy state g, state o of a
     passed-in RandomState, OS entropy e; result: the draw and the new GLOBAL state *)
  Definition rcall_sem (src : source) (smp : gen) (s : Z) (g o e : state) : value * state :=
    match src with
    | Global => smp g
    | FromSeed => (fst (smp (init s)), g)
    | Passed => (fst (smp o), g)
    | FreshUnseeded => (fst (smp e), g)
    | GlobalCopy => (fst (smp g), g)
    end.

  Theorem seed_repro smp s g1 g2 o1 o2 e1 e2 :
    fst (rcall_sem FromSeed smp s g1 o1 e1) = fst (rcall_sem FromSeed smp s g2 o2 e2).
  Proof. reflexivity. Qed.

  (* semantics of a table entry; [np c rho] is the sampler call c with its arguments evaluated in rho *)
  Variable np : rcall -> (string -> R) -> gen.
  Definition rdraw (j : rimpl) (rho : string -> R) (s : Z) (g o e : state) : option (value * state) :=
    match j with RDraw src c _ => Some (rcall_sem src (np c rho) s g o e) | _ => None end.
  Definition rwrapper (t : list (rkey * rimpl)) (k : rkey) rho s g o e : option (value * state) :=
    match find_rkey k t with Some j => rdraw j rho s g o e | None => None end.

  Lemma rdispatch_seeded t : rdispatch_ok t = true ->
    forall name kind nb, In name seeded_fns -> kind = SInt \/ kind = SInt0 ->
    exists c b, find_rkey (name, kind, nb, NoMode) t = Some (RDraw FromSeed c b).
  Proof.
    unfold rdispatch_ok. intros H name kind nb Hn Hk. apply andb_prop in H as [H _].
    rewrite forallb_forall in H.
    assert (Hin : In name r_fns) by (unfold r_fns; apply in_or_app; left; exact Hn).
    specialize (H _ Hin). unfold r_ok_fn in H. rewrite forallb_forall in H.
    assert (Hmem : mem name seeded_fns = true).
    { unfold mem. apply existsb_exists. exists name. split; [exact Hn|apply String.eqb_refl]. }
    rewrite Hmem in H.
    assert (Hkey : In (name, kind, nb, NoMode) (r_keys name NoMode)).
    { unfold r_keys, all_kinds, all_nb. simpl. destruct Hk as [-> | ->], nb; tauto. }
    specialize (H _ Hkey). unfold rentry_ok in H.
    destruct (find_rkey (name, kind, nb, NoMode) t) as [j|]; [|discriminate].
    unfold rdraw_ok in H. destruct j as [| |src c b]; try discriminate.
    apply andb_prop in H as [_ H].
    replace (want_source true (snd (fst (fst (name, kind, nb, NoMode))))) with (Some FromSeed) in H
      by (destruct Hk as [-> | ->]; reflexivity).
    apply source_eqb_eq in H. subst src. exists c, b. reflexivity.
  Qed.

  (* the property's last sentence: two calls with the same integer seed (and the same parameters)
     return the same draws, whatever happened to the global state, to passed objects or to the OS
     entropy in between *)
  Theorem seeded_twice t : rdispatch_ok t = true ->
    forall name kind nb, In name seeded_fns -> kind = SInt \/ kind = SInt0 ->
    forall rho s g1 o1 e1 g2 o2 e2,
    exists v g1' g2', rwrapper t (name, kind, nb, NoMode) rho s g1 o1 e1 = Some (v, g1') /\
                      rwrapper t (name, kind, nb, NoMode) rho s g2 o2 e2 = Some (v, g2').
  Proof.
    intros H name kind nb Hn Hk rho s g1 o1 e1 g2 o2 e2.
    destruct (rdispatch_seeded t H name kind nb Hn Hk) as (c & b & E).
    unfold rwrapper. rewrite E. simpl. eexists _, _, _. split; reflexivity.
  Qed.
End Seed.

(* a generator that draws from the GLOBAL state does not have that property: counter model *)
Definition counter_gen : gen nat nat := fun g => (g, S g).
Theorem global_source_not_reproducible :
  let r1 := rcall_sem nat nat (fun _ => 0%nat) Global counter_gen 5%Z 0%nat 0%nat 0%nat in
  let r2 := rcall_sem nat nat (fun _ => 0%nat) Global counter_gen 5%Z (snd r1) 0%nat 0%nat in
  fst r1 <> fst r2.
Proof. simpl. discriminate. Qed.

(* ================================================================== 7. the hypotheses are satisfiable *)
(* a model of scipy.stats meeting every contract used above (closed forms where they exist, 1 elsewhere) *)
Definition sp_model (lgam : R -> R) (f : fam) (m : meth) (l : list R) : R :=
  let plain (m : meth) : R :=
    match f, m, l with
    | Expon, Pdf, [x; loc; scale] => ls_pdf expon_pdf loc scale x
    | Expon, Cdf, [x; loc; scale] => ls_cdf expon_cdf loc scale x
    | Expon, Ppf, [x; loc; scale] => ls_ppf expon_ppf loc scale x
    | Uniform, Pdf, [x; loc; scale] => ls_pdf unif_pdf loc scale x
    | Uniform, Cdf, [x; loc; scale] => ls_cdf unif_cdf loc scale x
    | Uniform, Ppf, [x; loc; scale] => ls_ppf unif_ppf loc scale x
    | Norm, Pdf, [x; loc; scale] => ls_pdf norm_pdf loc scale x
    | NBinom, Pmf, [x; n; p; _; _] => exp (nb_logpmf lgam x n p)
    | _, _, _ => 1
    end in
  match m with
  | LogPdf => ln (plain Pdf)
  | LogCdf => ln (plain Cdf)
  | LogSf => ln (plain Sf)
  | LogPmf => ln (plain Pmf)
  | _ => plain m
  end.

Example sp_model_contracts lgam :
  sp_log_contract (sp_model lgam) /\
  sp_ls_contract (sp_model lgam) Expon expon_pdf expon_cdf expon_ppf /\
  sp_ls_contract (sp_model lgam) Uniform unif_pdf unif_cdf unif_ppf /\
  (forall x loc scale, sp_model lgam Norm Pdf [x; loc; scale] = ls_pdf norm_pdf loc scale x) /\
  sp_nb_contract lgam (sp_model lgam).
Proof.
  repeat split; try reflexivity.
  unfold sp_model. rewrite ln_exp. reflexivity.
Qed.
