(* Analytic meaning of expressions and correctness of the differentiator (Coquelicot). *)
From Coq Require Import Reals Lra List QArith Qreals.
From Coquelicot Require Import Coquelicot.
From PV Require Import Expr.
Import ListNotations.
Open Scope R_scope.

Fixpoint ev (r : nat -> R) (e : expr) : R :=
  match e with
  | Cst c => Q2R c | Var n => r n | Add a b => ev r a + ev r b | Mul a b => ev r a * ev r b
  | Neg a => - ev r a | Div a b => ev r a / ev r b | Exp a => exp (ev r a)
  | Cos a => cos (ev r a) | Sin a => sin (ev r a) | Ln a => ln (ev r a)
  end.
(* points at which the expression is defined (away from the singularities of the rates) *)
Fixpoint ok (r : nat -> R) (e : expr) : Prop :=
  match e with
  | Add a b | Mul a b => ok r a /\ ok r b
  | Div a b => ok r a /\ ok r b /\ ev r b <> 0
  | Ln a => ok r a /\ 0 < ev r a
  | Neg a | Exp a | Cos a | Sin a => ok r a
  | _ => True
  end.
Definition upd (r : nat -> R) (x : nat) (v : R) : nat -> R := fun n => if Nat.eqb n x then v else r n.
Lemma upd_same r x : forall n, upd r x (r x) n = r n.
Proof. intros n; unfold upd; destruct (Nat.eqb_spec n x); subst; auto. Qed.
Lemma ev_ext r1 r2 e : (forall n, r1 n = r2 n) -> ev r1 e = ev r2 e.
Proof. intros H; induction e; simpl; congruence. Qed.
Lemma ev_same r x e : ev (upd r x (r x)) e = ev r e.
Proof. apply ev_ext, upd_same. Qed.
Lemma Q2R_0 : Q2R 0 = 0. Proof. unfold Q2R; simpl; lra. Qed.
Lemma Q2R_1 : Q2R 1 = 1. Proof. unfold Q2R; simpl; lra. Qed.

Theorem D_correct x r e : ok r e ->
  is_derive (fun v => ev (upd r x v) e) (r x) (ev r (D x e)).
Proof.
 induction e; simpl; intros Hok.
 - rewrite Q2R_0. apply (@is_derive_const R_AbsRing R_NormedModule).
 - unfold upd. destruct (Nat.eqb_spec n x); simpl.
   + rewrite Q2R_1. apply (@is_derive_id R_AbsRing).
   + rewrite Q2R_0. apply (@is_derive_const R_AbsRing R_NormedModule).
 - destruct Hok. apply (@is_derive_plus R_AbsRing R_NormedModule); auto.
 - destruct Hok as [Ha Hb]. specialize (IHe1 Ha). specialize (IHe2 Hb).
   assert (H := is_derive_mult (fun v => ev (upd r x v) e1) (fun v => ev (upd r x v) e2) (r x) _ _ IHe1 IHe2 Rmult_comm).
   cbv beta in H; rewrite !ev_same in H. exact H.
 - apply (@is_derive_opp R_AbsRing R_NormedModule); auto.
 - destruct Hok as [Ha [Hb Hn]]. specialize (IHe1 Ha). specialize (IHe2 Hb).
   assert (Hn' : ev (upd r x (r x)) e2 <> 0) by (rewrite ev_same; exact Hn).
   assert (H := is_derive_div (fun v => ev (upd r x v) e1) (fun v => ev (upd r x v) e2) (r x) _ _ IHe1 IHe2 Hn').
   cbv beta in H; rewrite !ev_same in H. evar_last. exact H.
   unfold plus, mult, opp, minus; simpl; field; exact Hn.
 - specialize (IHe Hok).
   assert (H := is_derive_comp exp (fun v => ev (upd r x v) e) (r x) _ _ (is_derive_exp _) IHe).
   cbv beta in H; rewrite ev_same in H. evar_last. exact H. unfold scal; simpl; unfold mult; simpl; ring.
 - specialize (IHe Hok).
   assert (H := is_derive_comp cos (fun v => ev (upd r x v) e) (r x) _ _ (is_derive_cos _) IHe).
   cbv beta in H; rewrite ev_same in H. evar_last. exact H. unfold scal; simpl; unfold mult; simpl; ring.
 - specialize (IHe Hok).
   assert (H := is_derive_comp sin (fun v => ev (upd r x v) e) (r x) _ _ (is_derive_sin _) IHe).
   cbv beta in H; rewrite ev_same in H. evar_last. exact H. unfold scal; simpl; unfold mult; simpl; ring.
 - destruct Hok as [Ha Hp]. specialize (IHe Ha).
   assert (Hp' : 0 < ev (upd r x (r x)) e) by (rewrite ev_same; exact Hp).
   assert (H := is_derive_comp ln (fun v => ev (upd r x v) e) (r x) _ _ (is_derive_ln _ Hp') IHe).
   cbv beta in H; rewrite ev_same in H. evar_last. exact H. unfold scal; simpl; unfold mult; simpl; field. lra.
Qed.

(* the derivative expression is defined wherever the expression is: second derivatives need no extra hypothesis *)
Lemma ok_D x r e : ok r e -> ok r (D x e).
Proof. induction e; simpl; intros H.
  - exact I.
  - destruct (Nat.eqb n x); exact I.
  - destruct H; split; auto.
  - destruct H as [Ha Hb]. repeat split; auto.
  - auto.
  - destruct H as [Ha [Hb Hn]]. repeat split; auto; try (apply Rmult_integral_contrapositive_currified; assumption).
  - split; auto.
  - split; auto.
  - split; auto.
  - destruct H as [Ha Hp]. repeat split; auto; try lra.
Qed.

Theorem D2_correct x y r e : ok r e ->
  is_derive (fun v => ev (upd r y v) (D x e)) (r y) (ev r (D y (D x e))).
Proof. intros H. apply D_correct, ok_D, H. Qed.

Lemma ev_esum r (l : list Expr.expr) : ev r (esum l) = fold_right Rplus 0 (map (ev r) l).
Proof. induction l; simpl; [apply Q2R_0 | rewrite IHl; reflexivity]. Qed.
Lemma ok_esum r (l : list Expr.expr) : List.Forall (ok r) l -> ok r (esum l).
Proof. induction 1; simpl; auto. Qed.
