(* C13 over the reals: the formal partial derivatives that Props/C13.v proves the supplied block Jacobians to consist of
   ARE the derivatives (Coquelicot is_derive) of the augmented right-hand side J(x) S + G(x), given that DJ and GJ hold the
   state-derivatives of J and G in pygom's layouts (which is C03's statement for get_diff_jacobian_eqn / get_grad_jacobian_eqn). *)
From Coq Require Import Reals Lra List Arith Bool Lia.
From Coquelicot Require Import Coquelicot.
From PV Require Import Shapes Sens ExprProofs.
Import ListNotations.
Open Scope R_scope.

Section SensReal.
  Variable nS : nat.
  Variables Jx Gx DJx GJx : (nat -> R) -> arr R.      (* evaluators at a state vector x *)
  (* DJ row i*nS+l, column m = d J[i][l] / d x_m ;  GJ row j*nS+i, column m = d G[i][j] / d x_m *)
  Hypothesis HJ : forall x i l m,
    is_derive (fun v => get (Jx (upd x m v)) i l) (x m) (get (DJx x) (i * nS + l) m).
  Hypothesis HG : forall x i j m,
    is_derive (fun v => get (Gx (upd x m v)) i j) (x m) (get (GJx x) (j * nS + i) m).

  Notation rsum := (Shapes.sum R 0 Rplus).
  Lemma upd_id x m : forall n, upd x m (x m) n = x n.
  Proof. intros n. unfold upd. destruct (Nat.eqb_spec n m); subst; reflexivity. Qed.
  Lemma is_derive_rsum (idx : list nat) (h : nat -> R -> R) (d : nat -> R) t :
    (forall l, In l idx -> is_derive (h l) t (d l)) ->
    is_derive (fun s => rsum (map (fun l => h l s) idx)) t (rsum (map d idx)).
  Proof. induction idx as [|l r IH]; intros H; simpl.
    - apply (@is_derive_const R_AbsRing R_NormedModule).
    - apply (@is_derive_plus R_AbsRing R_NormedModule); [apply H; left; reflexivity | apply IH; intros; apply H; right; assumption]. Qed.

  (* d/dx_m of the sensitivity right-hand side (J S + G)[i][j], S held fixed *)
  Theorem rhs_S_dx (S : nat -> nat -> R) x i j m :
    is_derive (fun v => rhs_S R 0 Rplus Rmult nS (Jx (upd x m v)) (Gx (upd x m v)) S i j) (x m)
              (dS_dx R 0 Rplus Rmult nS (DJx x) (GJx x) S i j m).
  Proof. unfold rhs_S, dS_dx, sumn.
    apply (@is_derive_plus R_AbsRing R_NormedModule); [|apply HG].
    apply (is_derive_rsum (seq 0 nS) (fun l v => Rmult (get (Jx (upd x m v)) i l) (S l j))
                          (fun l => Rmult (get (DJx x) (i * nS + l) m) (S l j))).
    intros l _.
    assert (Hc : is_derive (fun _ : R => S l j) (x m) 0) by apply (@is_derive_const R_AbsRing R_NormedModule).
    assert (H := is_derive_mult (fun v => get (Jx (upd x m v)) i l) (fun _ => S l j) (x m) _ _ (HJ x i l m) Hc Rmult_comm).
    evar_last. exact H. unfold plus, mult; simpl. ring. Qed.

  (* d/dS[l'][j'] of (J S + G)[i][j] at fixed x: J[i][l'] when j = j', else 0 *)
  Definition updS (S : nat -> nat -> R) (l' j' : nat) (v : R) : nat -> nat -> R :=
    fun l j => if andb (l =? l')%nat (j =? j')%nat then v else S l j.
  Theorem rhs_S_dS (S : nat -> nat -> R) x i j l' j' : (l' < nS)%nat ->
    is_derive (fun v => rhs_S R 0 Rplus Rmult nS (Jx x) (Gx x) (updS S l' j' v) i j) (S l' j')
              (if (j =? j')%nat then get (Jx x) i l' else 0).
  Proof. intros Hl. unfold rhs_S, sumn. evar_last.
    - apply (@is_derive_plus R_AbsRing R_NormedModule); [|apply (@is_derive_const R_AbsRing R_NormedModule)].
      apply (is_derive_rsum (seq 0 nS) (fun l v => Rmult (get (Jx x) i l) (updS S l' j' v l j))
               (fun l => if andb (l =? l')%nat (j =? j')%nat then get (Jx x) i l else 0)).
      intros l _. unfold updS. destruct (andb (l =? l')%nat (j =? j')%nat).
      + assert (Hc : is_derive (fun _ : R => get (Jx x) i l) (S l' j') 0) by apply (@is_derive_const R_AbsRing R_NormedModule).
        assert (H := is_derive_mult (fun _ => get (Jx x) i l) (fun v => v) (S l' j') _ _ Hc (@is_derive_id R_AbsRing (S l' j')) Rmult_comm).
        evar_last. exact H. unfold plus, mult, one; simpl. ring.
      + apply (@is_derive_const R_AbsRing R_NormedModule).
    - unfold plus, zero; simpl. rewrite Rplus_0_r. destruct (Nat.eqb_spec j j') as [->|Hne].
      + clear - Hl. assert (G : forall k n, (k <= l' < k + n)%nat ->
            rsum (map (fun l => if andb (l =? l')%nat true then get (Jx x) i l else 0) (seq k n)) = get (Jx x) i l').
        { intros k n; revert k; induction n as [|n IH]; intros k H; [lia|]. simpl.
          destruct (Nat.eqb_spec k l') as [->|Hk]; simpl.
          - assert (Z : rsum (map (fun l => if andb (l =? l')%nat true then get (Jx x) i l else 0) (seq (S l') n)) = 0).
            { clear. generalize (S l') (Nat.lt_succ_diag_r l'). intros a Ha. revert a Ha.
              induction n as [|n IHn]; intros a Ha; simpl; [reflexivity|].
              destruct (Nat.eqb_spec a l'); [lia|]. simpl. rewrite IHn by lia. lra. }
            rewrite Z. lra.
          - rewrite IH by lia. lra. }
        apply (G 0%nat nS). lia.
      + assert (Z : forall k n, rsum (map (fun l => if andb (l =? l')%nat false then get (Jx x) i l else 0) (seq k n)) = 0).
        { intros k n; revert k; induction n as [|n IH]; intros k; simpl; [reflexivity|]. rewrite andb_false_r, IH. lra. }
        apply Z. Qed.
End SensReal.
