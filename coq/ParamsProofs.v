From Coq Require Import List Arith ZArith Bool Lia.
From PV Require Import Params.
Import ListNotations.
Open Scope Z_scope.
Arguments key_eqb : simpl never.

(* ---------- generic list facts ---------- *)
Lemma index_lt l p i : index l p = Some i -> (i < length l)%nat.
Proof. revert i; induction l as [|x r IH]; simpl; intros i H; [discriminate|].
  destruct (Nat.eqb x p); [inversion H; lia|].
  destruct (index r p) as [j|]; simpl in H; [|discriminate]. inversion H. specialize (IH j eq_refl). lia. Qed.
Lemma index_nth l p i : index l p = Some i -> nth i l O = p.
Proof. revert i; induction l as [|x r IH]; simpl; intros i H; [discriminate|].
  destruct (Nat.eqb_spec x p); [inversion H; subst; reflexivity|].
  destruct (index r p) as [j|]; simpl in H; [|discriminate]. inversion H. apply IH. reflexivity. Qed.
Lemma index_inj l p q i : index l p = Some i -> index l q = Some i -> p = q.
Proof. intros H1 H2. apply index_nth in H1, H2. congruence. Qed.
Lemma set_nth_length l i v : length (set_nth l i v) = length l.
Proof. revert i; induction l as [|x r IH]; destruct i; simpl; auto. Qed.
Lemma nth_set_nth l i j v : (i < length l)%nat ->
  nth j (set_nth l i v) 0 = if Nat.eqb i j then v else nth j l 0.
Proof. revert i j; induction l as [|x r IH]; intros i j H; simpl in H; [lia|].
  destruct i, j; simpl; auto. apply IH; lia. Qed.
Lemma nth_repeat0 n j : nth j (repeat 0 n) 0 = 0.
Proof. revert j; induction n; destruct j; simpl; auto. Qed.

(* ---------- dictionary facts ---------- *)
Lemma dget_dset d k v k' : dget (dset d k v) k' = if key_eqb k' k then Some v else dget d k'.
Proof. induction d as [|[k0 v0] r IH]; simpl.
  - destruct (key_eqb k' k); reflexivity.
  - destruct (key_eqb_spec k k0) as [->|Hne]; simpl.
    + destruct (key_eqb k' k0); reflexivity.
    + rewrite IH. destruct (key_eqb_spec k' k0) as [->|]; [|reflexivity].
      destruct (key_eqb_spec k0 k); [congruence|reflexivity]. Qed.

Fixpoint uniq (d : pdict) : bool :=
  match d with [] => true | (k, _) :: r => match dget r k with None => uniq r | Some _ => false end end.
Definition all_sym (d : pdict) := forallb (fun kv => is_sym (fst kv)) d.
Fixpoint sbs (d : pdict) : bool :=       (* str keys before symbol keys *)
  match d with [] => true | (k, _) :: r => if is_sym k then all_sym r else sbs r end.

Lemma all_sym_dset d p v : all_sym d = true -> all_sym (dset d (KSym p) v) = true.
Proof. induction d as [|[k0 v0] r IH]; simpl; [reflexivity|]. intros H. apply andb_prop in H as [H1 H2].
  destruct (key_eqb (KSym p) k0); simpl; [exact H2| rewrite H1; auto]. Qed.
Lemma all_sym_sbs d : all_sym d = true -> sbs d = true.
Proof. induction d as [|[k0 v0] r IH]; simpl; [reflexivity|]. intros H. apply andb_prop in H as [H1 H2].
  rewrite H1. exact H2. Qed.
Lemma sbs_dset d p v : sbs d = true -> sbs (dset d (KSym p) v) = true.
Proof. induction d as [|[k0 v0] r IH]; simpl; [reflexivity|]. intros H.
  destruct (key_eqb_spec (KSym p) k0) as [<-|Hne]; simpl.
  - exact H.
  - destruct (is_sym k0); [apply all_sym_dset; exact H | apply IH; exact H]. Qed.
Lemma uniq_dset d k v : uniq d = true -> uniq (dset d k v) = true.
Proof. induction d as [|[k0 v0] r IH]; simpl; [reflexivity|]. intros H.
  destruct (dget r k0) eqn:E; [discriminate|].
  destruct (key_eqb_spec k k0) as [->|Hne]; simpl.
  - rewrite E. exact H.
  - rewrite dget_dset. destruct (key_eqb_spec k0 k); [congruence|]. rewrite E. apply IH, H. Qed.
Lemma all_sym_get_str d p : all_sym d = true -> dget d (KStr p) = None.
Proof. induction d as [|[k0 v0] r IH]; simpl; [reflexivity|]. intros H. apply andb_prop in H as [H1 H2].
  destruct k0; simpl in *; [discriminate| apply IH, H2]. Qed.

(* the value the replay leaves for name p: the last entry of the dict whose key is named p *)
Fixpoint lastv (p : nat) (d : pdict) : option Z :=
  match d with
  | [] => None
  | (k, v) :: r => match lastv p r with Some x => Some x
                   | None => if Nat.eqb (kname k) p then Some v else None end
  end.
Definition look (d : pdict) (p : nat) : option Z :=
  match dget d (KSym p) with Some v => Some v | None => dget d (KStr p) end.

Lemma lastv_all_sym d p : all_sym d = true -> uniq d = true -> lastv p d = dget d (KSym p).
Proof. induction d as [|[k0 v0] r IH]; simpl; [reflexivity|]. intros H U. apply andb_prop in H as [H1 H2].
  destruct (dget r k0) eqn:E; [discriminate|]. rewrite (IH H2 U).
  destruct k0 as [q|q]; simpl in *; [discriminate|]. unfold key_eqb in *.
  destruct (Nat.eqb_spec p q) as [->|Hne].
  - rewrite E. rewrite Nat.eqb_refl. reflexivity.
  - destruct (dget r (KSym p)); [reflexivity|]. destruct (Nat.eqb_spec q p); [congruence|reflexivity]. Qed.

Lemma lastv_look d p : sbs d = true -> uniq d = true -> lastv p d = look d p.
Proof. unfold look. induction d as [|[k0 v0] r IH]; simpl; [reflexivity|]. intros H U.
  destruct (dget r k0) eqn:E; [discriminate|].
  destruct k0 as [q|q]; simpl in *; unfold key_eqb in *.
  - rewrite (IH H U).
    destruct (dget r (KSym p)); [reflexivity|].
    destruct (Nat.eqb_spec p q) as [->|Hne].
    + rewrite E. rewrite Nat.eqb_refl. reflexivity.
    + destruct (dget r (KStr p)); [reflexivity|]. destruct (Nat.eqb_spec q p); [congruence|reflexivity].
  - rewrite (lastv_all_sym _ _ H U). rewrite (all_sym_get_str _ _ H).
    destruct (Nat.eqb_spec p q) as [->|Hne].
    + rewrite E, Nat.eqb_refl. reflexivity.
    + destruct (dget r (KSym p)); [reflexivity|]. destruct (Nat.eqb_spec q p); [congruence|reflexivity]. Qed.

Section Proofs.
  Variable decl : list nat.
  Notation replay := (replay decl).
  Notation replay_step := (replay_step decl).

  Lemma replay_len d acc : length (fold_left replay_step d acc) = length acc.
  Proof. revert acc; induction d as [|kv r IH]; intros acc; simpl; [reflexivity|].
    rewrite IH. unfold Params.replay_step. destruct (index decl _); [apply set_nth_length|reflexivity]. Qed.

  Lemma replay_nth_gen d acc p i : length acc = length decl -> index decl p = Some i ->
    nth i (fold_left replay_step d acc) 0 = match lastv p d with Some x => x | None => nth i acc 0 end.
  Proof. revert acc; induction d as [|[k v] r IH]; intros acc Hl Hi; simpl; [reflexivity|].
    rewrite IH; [| |exact Hi].
    - destruct (lastv p r); [reflexivity|]. unfold Params.replay_step; simpl.
      destruct (index decl (kname k)) as [j|] eqn:Ej.
      + rewrite nth_set_nth by (rewrite Hl; eapply index_lt; eauto).
        destruct (Nat.eqb_spec j i) as [->|Hne].
        * rewrite (index_inj _ _ _ _ Ej Hi), Nat.eqb_refl. reflexivity.
        * destruct (Nat.eqb_spec (kname k) p) as [<-|]; [congruence|reflexivity].
      + destruct (Nat.eqb_spec (kname k) p) as [<-|]; [congruence|reflexivity].
    - unfold Params.replay_step; simpl. destruct (index decl (kname k)); [rewrite set_nth_length|]; exact Hl. Qed.

  Lemma replay_nth d p i : index decl p = Some i ->
    nth i (replay d) 0 = match lastv p d with Some x => x | None => 0 end.
  Proof. intros Hi. unfold Params.replay. rewrite (replay_nth_gen d _ p i); [|apply repeat_length|exact Hi].
    rewrite nth_repeat0. reflexivity. Qed.

  (* ---------- the write loop ---------- *)
  Lemma write_inv d l d' ok : write decl d l = (d', ok) -> sbs d = true -> uniq d = true ->
    sbs d' = true /\ uniq d' = true.
  Proof. revert d; induction l as [|[p v] r IH]; simpl; intros d H S U.
    - inversion H; subst; auto.
    - destruct (declared decl p); [|inversion H; subst; auto].
      apply IH in H; auto using sbs_dset, uniq_dset. Qed.
  Lemma write_all_sym d l d' ok : write decl d l = (d', ok) -> all_sym d = true -> all_sym d' = true.
  Proof. revert d; induction l as [|[p v] r IH]; simpl; intros d H S.
    - inversion H; subst; auto.
    - destruct (declared decl p); [|inversion H; subst; auto]. apply IH in H; auto using all_sym_dset. Qed.

  Lemma look_dset d q v p : look (dset d (KSym q) v) p = if Nat.eqb q p then Some v else look d p.
  Proof. unfold look. rewrite !dget_dset; unfold key_eqb. rewrite (Nat.eqb_sym p q). destruct (Nat.eqb q p); reflexivity. Qed.

  Definition lk (d : pdict) (p : nat) : Z := match look d p with Some x => x | None => 0 end.

  Lemma write_look l : forall (sp : spec) d d', write decl d l = (d', true) ->
    (forall q, declared decl q = true -> lk d q = sp q) ->
    forall q, declared decl q = true -> lk d' q = fold_left (fun f pv => upd f (fst pv) (snd pv)) l sp q.
  Proof. induction l as [|[q v] r IH]; simpl; intros sp d d' H Hs p Hp.
    - inversion H; subst. apply Hs, Hp.
    - destruct (declared decl q) eqn:Dq; [|discriminate].
      apply (IH (upd sp q v) _ _ H); [|exact Hp]. intros p' Hp'. unfold lk, upd. rewrite look_dset.
      destruct (Nat.eqb q p'); [reflexivity|apply Hs, Hp']. Qed.

  (* ---------- invariant ---------- *)
  Definition Inv (s : st) (sp : spec) : Prop :=
    pval s = replay (pdic s) /\ sbs (pdic s) = true /\ uniq (pdic s) = true /\
    (forall p, declared decl p = true -> lk (pdic s) p = sp p).

  Lemma combine_str_lastv vs : forall p i, NoDup decl -> length vs = length decl -> index decl p = Some i ->
    lastv p (combine (map KStr decl) vs) = Some (nth i vs 0).
  Proof.
    revert vs. induction decl as [|x r IH]; intros vs p i ND Hl Hi; simpl in *; [discriminate|].
    destruct vs as [|v vs]; simpl in *; [discriminate|]. inversion ND as [|? ? Hnin ND']; subst.
    destruct (Nat.eqb_spec x p) as [->|Hne].
    - inversion Hi; subst.
      assert (lastv p (combine (map KStr r) vs) = None) as ->; [|reflexivity].
      clear - Hnin. revert vs. induction r as [|y r IHr]; intros vs; simpl; [reflexivity|].
      destruct vs as [|v vs]; simpl; [reflexivity|]. rewrite IHr by (intro; apply Hnin; right; assumption).
      destruct (Nat.eqb_spec y p); [subst; exfalso; apply Hnin; left; reflexivity|reflexivity].
    - destruct (index r p) as [j|] eqn:Ej; simpl in Hi; [|discriminate]. inversion Hi; subst.
      rewrite (IH vs p j ND' ltac:(lia) Ej). reflexivity. Qed.

  Lemma str_sbs (l : list nat) vs : sbs (combine (map KStr l) vs) = true.
  Proof. revert vs; induction l; intros [|v vs]; simpl; auto. Qed.
  Lemma str_get_none (l : list nat) vs x : ~ In x l -> dget (combine (map KStr l) vs) (KStr x) = None.
  Proof. revert vs; induction l as [|y r IH]; intros [|v vs] H; simpl; auto. unfold key_eqb.
    destruct (Nat.eqb_spec x y); [subst; exfalso; apply H; left; reflexivity|]. apply IH. intro; apply H; right; assumption. Qed.
  Lemma str_uniq (l : list nat) vs : NoDup l -> uniq (combine (map KStr l) vs) = true.
  Proof. revert vs; induction l as [|y r IH]; intros [|v vs] H; simpl; auto. inversion H; subst.
    rewrite str_get_none by assumption. apply IH; assumption. Qed.

  Hypothesis ND : NoDup decl.

  Lemma step_inv s sp o : Inv s sp ->
    let '(s', ok) := step decl false s o in Inv s' (spec_step decl sp o ok).
  Proof.
    intros (Hv & Hs & Hu & Hl). destruct o as [vs|rows vs|l|l]; simpl.
    - destruct (Nat.eqb_spec (length vs) (nP decl)) as [E|E]; [|repeat split; auto].
      repeat split; simpl; auto using str_sbs, str_uniq.
      intros p Hp. unfold declared in Hp. destruct (index decl p) as [i|] eqn:Ei; [|discriminate].
      unfold lk. rewrite <- lastv_look by auto using str_sbs, str_uniq.
      rewrite (combine_str_lastv vs p i ND E Ei). reflexivity.
    - destruct (Nat.eqb rows (nP decl)); simpl; [|repeat split; auto].
      destruct (Nat.eqb_spec (length vs) (nP decl)) as [E|E]; [|repeat split; auto].
      repeat split; simpl; auto using str_sbs, str_uniq.
      intros p Hp. unfold declared in Hp. destruct (index decl p) as [i|] eqn:Ei; [|discriminate].
      unfold lk. rewrite <- lastv_look by auto using str_sbs, str_uniq.
      rewrite (combine_str_lastv vs p i ND E Ei). reflexivity.
    - destruct (Nat.eqb (length l) (nP decl)); [|repeat split; auto].
      destruct (write decl [] l) as [d [|]] eqn:W; [|repeat split; auto].
      destruct (write_inv _ _ _ _ W eq_refl eq_refl) as [S U].
      repeat split; simpl; auto. intros p Hp.
      apply (write_look l (fun _ => 0) [] d W); [|exact Hp]. intros q _. reflexivity.
    - destruct (Nat.ltb (nP decl) (length l)); [repeat split; auto|].
      destruct (write decl (pdic s) l) as [d [|]] eqn:W.
      + destruct (write_inv _ _ _ _ W Hs Hu) as [S U]. repeat split; simpl; auto.
        intros p Hp. apply (write_look l sp (pdic s) d W Hl p Hp).
      + repeat split; simpl; auto. Qed.

  Lemma run_inv ops : let '(s, sp) := run decl false ops in Inv s sp.
  Proof.
    unfold run. assert (H0 : Inv (init decl) (fun _ => 0)).
    { repeat split; simpl; auto. }
    revert H0. generalize (init decl) (fun _ : nat => 0). induction ops as [|o r IH]; intros s sp H; simpl.
    - exact H.
    - unfold run1 at 2; simpl. pose proof (step_inv s sp o H) as H1.
      destruct (step decl false s o) as [s' ok]. apply IH, H1. Qed.

  (* C09: after ANY history of assignments (accepted and rejected, any formats), the value every
     evaluator sees for a declared parameter is the one the specification map holds for its name. *)
  Lemma bind_all ops p : declared decl p = true ->
    bound decl (fst (run decl false ops)) p = snd (run decl false ops) p.
  Proof.
    intros Hp. pose proof (run_inv ops) as H. destruct (run decl false ops) as [s sp]; simpl.
    destruct H as (Hv & Hs & Hu & Hl). unfold bound. unfold declared in Hp.
    destruct (index decl p) as [i|] eqn:Ei; [|discriminate].
    rewrite Hv, (replay_nth _ p i Ei), (lastv_look _ _ Hs Hu).
    specialize (Hl p). unfold declared in Hl. rewrite Ei in Hl. specialize (Hl eq_refl). exact Hl. Qed.

  (* a rejected assignment changes nothing at all *)
  Lemma reject_unchanged s o s' : step decl false s o = (s', false) -> s' = s.
  Proof. destruct o as [vs|rows vs|l|l]; simpl.
    - destruct (Nat.eqb _ _); intros H; inversion H; reflexivity.
    - destruct (Nat.eqb rows _ && Nat.eqb (length vs) _); intros H; inversion H; reflexivity.
    - destruct (Nat.eqb _ _); [destruct (write decl [] l) as [d [|]]|]; intros H; inversion H; reflexivity.
    - destruct (Nat.ltb _ _); [intros H; inversion H; reflexivity|].
      destruct (write decl (pdic s) l) as [d [|]]; intros H; inversion H. destruct s; reflexivity. Qed.

  (* unknown names and wrong lengths are rejected *)
  Lemma unknown_rejected s l p v : In (p, v) l -> declared decl p = false ->
    snd (step decl false s (SetPairs l)) = false /\ snd (step decl false s (SetDict l)) = false.
  Proof.
    intros Hin Hd.
    assert (W : forall d, snd (write decl d l) = false).
    { induction l as [|[q w] r IH]; [destruct Hin|]. intros d; simpl. destruct Hin as [E|Hin].
      - inversion E; subst. rewrite Hd. reflexivity.
      - destruct (declared decl q); [apply IH, Hin|reflexivity]. }
    split; simpl.
    - destruct (Nat.eqb _ _); [|reflexivity]. specialize (W []). destruct (write decl [] l) as [d [|]]; [discriminate|reflexivity].
    - destruct (Nat.ltb _ _); [reflexivity|]. specialize (W (pdic s)). destruct (write decl (pdic s) l) as [d [|]]; [discriminate|reflexivity]. Qed.
  Lemma wrong_length_rejected s vs : length vs <> length decl -> snd (step decl false s (SetList vs)) = false.
  Proof. intros H; simpl. destruct (Nat.eqb_spec (length vs) (nP decl)); [contradiction|reflexivity]. Qed.
  Lemma wrong_shape_rejected s rows vs : rows <> length decl \/ length vs <> length decl ->
    snd (step decl false s (SetArr rows vs)) = false.
  Proof. intros H; simpl. destruct (Nat.eqb_spec rows (nP decl)); destruct (Nat.eqb_spec (length vs) (nP decl)); simpl;
    try reflexivity. destruct H; contradiction. Qed.
End Proofs.

(* ---------- the aliased dict branch (the pinned code) leaks a rejected assignment ---------- *)
Definition leak_decl := [0; 1; 2]%nat.
Definition leak_ops : list (op) :=
  [SetList [7; 8; 9]; SetDict [(1%nat, 555); (9%nat, 1)]; SetDict [(0%nat, 1)]].
Lemma alias_leak_refuted :
  bound leak_decl (fst (run leak_decl true leak_ops)) 1 <> snd (run leak_decl true leak_ops) 1%nat.
Proof. vm_compute. discriminate. Qed.

(* non-vacuity: a concrete mixed-format history with a rejected step, under the repaired rule *)
Example bind_example :
  map (bound leak_decl (fst (run leak_decl false leak_ops))) leak_decl = [1; 8; 9].
Proof. vm_compute. reflexivity. Qed.
