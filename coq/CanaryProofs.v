(* C08 — proofs about the recompile-flag model (Canary.v). *)
From Coq Require Import List String Bool Arith ZArith Lia.
From PV Require Import Canary.
Import ListNotations.
Open Scope string_scope.

(* ------------------------------------------------------------------ small facts *)
Lemma lookup_in {X} e (l : list (name * X)) v : lookup e l = Some v -> In (e, v) l.
Proof.
  induction l as [|[k x] r IH]; simpl; [discriminate|].
  destruct (String.eqb_spec e k) as [->|Hne]; intros H.
  - injection H as ->. now left.
  - right. auto.
Qed.

Lemma upd_same {X} (f : name -> X) k v : upd f k v k = v.
Proof. unfold upd. now rewrite String.eqb_refl. Qed.
Lemma upd_other {X} (f : name -> X) k v k' : k' <> k -> upd f k v k' = f k'.
Proof. unfold upd. intros H. destruct (String.eqb_spec k' k); congruence. Qed.

Record good_facts (F : facts) : Prop := {
  g_trips : forall m b, lookup m (f_mutators F) = Some b -> b = true;
  g_names : forall e b, lookup e (f_registered F) = Some b -> mem e (f_canary F) = true;
  g_cm : f_cond_missing F = true;
  g_cf : f_cond_flag F = true;
  g_tv : f_trip_value F = true;
  g_rv : f_reset_value F = false;
  g_pc : f_params_at_call F = true;
  g_gf : f_getters_fresh F = true;
  g_ss : f_setter_sets_sp F = true;
  g_st : f_sp_change_trips F = true
}.

Lemma good_unpack F : good F = true -> good_facts F.
Proof.
  unfold good. intros H.
  repeat (apply andb_prop in H; destruct H as [H ?]).
  constructor; auto.
  - intros m b Hl. apply lookup_in in Hl.
    rewrite forallb_forall in H. exact (H _ Hl).
  - intros e b Hl. apply lookup_in in Hl. unfold names_match in *.
    match goal with Hn : forallb _ (f_registered F) = true |- _ => rewrite forallb_forall in Hn; exact (Hn _ Hl) end.
  - match goal with Hn : negb _ = true |- _ => now apply negb_true_iff in Hn end.
Qed.

Section Good.
  Variable F : facts.
  Hypothesis G : good_facts F.

  Definition registered e := exists b, lookup e (f_registered F) = Some b.

  Lemma trip_reg fl e : registered e -> trip F fl e = true.
  Proof. intros [b Hb]. unfold trip. rewrite (g_names F G _ _ Hb). apply (g_tv F G). Qed.

  (* the invariant: a cleared flag means "compiled from the current definition for the current argument list";
     the value vector always has the length of the argument list; the argument list never runs ahead of
     the declared parameters *)
  Definition Inv (s : state) : Prop :=
    List.length (pv s) = sp s /\ sp s <= np s /\
    forall e, registered e -> flags s e = false -> exists cv, compiled s e = Some (def s, sp s, cv).

  Lemma Inv_init n0 : Inv (init F n0).
  Proof.
    repeat split; simpl; auto.
    - apply repeat_length.
    - intros e _ H. rewrite (g_tv F G) in H. discriminate.
  Qed.

  Lemma Inv_all_tripped fl d n a vals c :
    List.length vals = a -> a <= n ->
    Inv {| def := d; np := n; sp := a; pv := vals; flags := trip F fl; compiled := c |}.
  Proof.
    intros Hl Hn. repeat split; simpl; auto.
    intros e He H. rewrite (trip_reg _ _ He) in H. discriminate.
  Qed.

  Lemma Inv_set_values s vals : Inv s -> List.length vals = np s -> Inv (set_values F s vals).
  Proof.
    intros (I2 & I3 & I1) Hl. unfold set_values. rewrite (g_ss F G), (g_st F G). simpl.
    destruct (Nat.eqb_spec (np s) (sp s)) as [E|E]; simpl.
    - repeat split; simpl; [lia|lia|]. intros e He Hf. rewrite E. auto.
    - apply Inv_all_tripped; [exact Hl|lia].
  Qed.

  Lemma set_nth_length l i v : List.length (set_nth l i v) = List.length l.
  Proof. revert i; induction l as [|x r IH]; intros [|i]; simpl; auto. Qed.

  Lemma dict_length l acc :
    List.length (fold_left (fun a (p : nat * Z) => set_nth a (fst p) (snd p)) l acc) = List.length acc.
  Proof. revert acc; induction l as [|p r IH]; intros acc; simpl; auto. rewrite IH. apply set_nth_length. Qed.

  Lemma Inv_recompile s e master : Inv s -> Inv (recompile F s e master).
  Proof.
    intros (I2 & I3 & I1). unfold recompile. repeat split; simpl; auto.
    intros e' He' Hf.
    destruct (String.eqb_spec e' e) as [->|Hne].
    - rewrite upd_same. eauto.
    - rewrite upd_other by exact Hne.
      (* the flag of another evaluator is clear only if no trip happened, and then it was clear before *)
      destruct master; simpl in Hf.
      + destruct (f_master_trip_first F); simpl in Hf.
        * unfold reset in Hf. rewrite upd_other in Hf by exact Hne.
          rewrite (trip_reg _ _ He') in Hf. discriminate.
        * rewrite (trip_reg _ _ He') in Hf. discriminate.
      + unfold reset in Hf. rewrite upd_other in Hf by exact Hne. auto.
  Qed.

  Lemma Inv_eval s e : Inv s -> Inv (fst (eval F s e)).
  Proof.
    intros I. unfold eval. destruct (lookup e (f_registered F)) as [master|]; simpl; [|exact I].
    destruct (needs F s e); [now apply Inv_recompile|exact I].
  Qed.

  Lemma Inv_step s o : Inv s -> Inv (step F s o).
  Proof.
    intros I. destruct o as [m k|vs|l|e]; simpl.
    - destruct (lookup m (f_mutators F)) as [b|] eqn:Hm; [|exact I].
      rewrite (g_trips F G _ _ Hm). destruct I as (I2 & I3 & _).
      apply Inv_all_tripped; [exact I2|]. destruct (String.eqb m (f_param_mutator F)); lia.
    - destruct (Nat.eqb_spec (List.length vs) (np s)); [|exact I]. now apply Inv_set_values.
    - destruct (forallb _ l); [|exact I]. apply Inv_set_values; [exact I|].
      rewrite dict_length. unfold pad. rewrite app_length, repeat_length.
      destruct I as (I2 & I3 & _). lia.
    - now apply Inv_eval.
  Qed.

  (* lifted to every history, of any length *)
  Lemma Inv_run ops : forall s, Inv s -> Inv (run F s ops).
  Proof. unfold run. induction ops as [|o r IH]; intros s I; simpl; auto. apply IH. now apply Inv_step. Qed.

  Lemma Inv_reach n0 ops : Inv (run F (init F n0) ops).
  Proof. apply Inv_run, Inv_init. Qed.

  (* in a state satisfying the invariant, every registered evaluator returns the value of the current
     definition at the current parameter values *)
  Lemma eval_fresh s e : Inv s -> registered e -> snd (eval F s e) = Val (def s) (pv s).
  Proof.
    intros (I2 & I3 & I1) [master He]. unfold eval. rewrite He. simpl.
    unfold needs. rewrite (g_cm F G), (g_cf F G). simpl.
    destruct (compiled s e) as [c|] eqn:Hc; simpl.
    - destruct (flags s e) eqn:Hf; simpl.
      + unfold call, recompile. simpl. rewrite upd_same. rewrite (g_pc F G).
        rewrite I2, Nat.eqb_refl. reflexivity.
      + destruct (I1 e (ex_intro _ master He) Hf) as [cv Hcv].
        unfold call. rewrite Hcv. rewrite (g_pc F G), I2, Nat.eqb_refl. reflexivity.
    - unfold call, recompile. simpl. rewrite upd_same. rewrite (g_pc F G).
      rewrite I2, Nat.eqb_refl. reflexivity.
  Qed.

  Lemma fresh_reach n0 ops e : registered e ->
    let s := run F (init F n0) ops in snd (eval F s e) = Val (def s) (pv s).
  Proof. intros He. apply eval_fresh; [apply Inv_reach|exact He]. Qed.

  (* evaluations never change the definition, the parameter values or the argument list *)
  Definition core (s : state) := (def s, np s, sp s, pv s).

  Lemma core_eval s e : core (fst (eval F s e)) = core s.
  Proof.
    unfold eval. destruct (lookup e (f_registered F)); simpl; auto.
    destruct (needs F s e); reflexivity.
  Qed.

  Lemma core_step s s' o : core s = core s' -> core (step F s o) = core (step F s' o).
  Proof.
    unfold core. intros H. injection H as Hd Hn Hs Hp.
    destruct o as [m k|vs|l|e]; simpl.
    - destruct (lookup m (f_mutators F)); simpl; rewrite ?Hd, ?Hn, ?Hs, ?Hp; reflexivity.
    - rewrite Hn. destruct (Nat.eqb _ _); unfold set_values; simpl; rewrite ?Hd, ?Hn, ?Hs, ?Hp; reflexivity.
    - rewrite Hn. destruct (forallb _ l); unfold set_values; simpl; rewrite ?Hd, ?Hn, ?Hs, ?Hp; reflexivity.
    - fold (core (fst (eval F s e))). fold (core (fst (eval F s' e))).
      rewrite !core_eval. unfold core. congruence.
  Qed.

  Lemma core_strip ops : forall s s', core s = core s' -> core (run F s ops) = core (run F s' (strip ops)).
  Proof.
    unfold run. induction ops as [|o r IH]; intros s s' H; simpl; auto.
    destruct o as [m k|vs|l|e].
    - apply IH. now apply core_step.
    - apply IH. now apply core_step.
    - apply IH. now apply core_step.
    - apply IH. transitivity (core s); [exact (core_eval s e)|exact H].
  Qed.

  (* the property as stated: after ANY interleaving of modifications and evaluations, every evaluator returns
     what it returns on a model that reached the same definition without a single evaluation in between *)
  Lemma same_as_fresh n0 ops e : registered e ->
    snd (eval F (run F (init F n0) ops) e) = snd (eval F (run F (init F n0) (strip ops)) e).
  Proof.
    intros He. rewrite !fresh_reach by exact He.
    pose proof (core_strip ops (init F n0) (init F n0) eq_refl) as H.
    unfold core in H. injection H as Hd _ _ Hp. congruence.
  Qed.

  (* every evaluation observed anywhere inside a history is fresh at the moment it is made *)
  Definition evals_registered (ops : list op) : Prop :=
    Forall (fun o => match o with Eval e => registered e | _ => True end) ops.

  Lemma result_eqb_refl r : result_eqb r r = true.
  Proof.
    destruct r as [|d v]; simpl; auto. apply andb_true_intro. split.
    - induction d as [|[m k] d IHd]; auto. now rewrite String.eqb_refl, Nat.eqb_refl, IHd.
    - induction v as [|z v IHv]; auto. now rewrite Z.eqb_refl, IHv.
  Qed.

  Lemma trace_fresh ops : evals_registered ops -> forall s, Inv s ->
    Forall (fun ob => o_status ob <> 2 /\ o_fresh ob = true) (trace F s ops).
  Proof.
    induction 1 as [|o r Ho Hr IH]; intros s I; simpl; [constructor|].
    destruct (observe F s o) as [s' ob] eqn:Hob.
    assert (s' = step F s o) as ->.
    { unfold observe in Hob. destruct o; injection Hob; auto. }
    constructor; [|apply IH; now apply Inv_step].
    unfold observe in Hob. destruct o as [m k|vs|l|e]; injection Hob as <-; simpl; auto.
    rewrite (eval_fresh s e I Ho). split; [discriminate|].
    pose proof (core_eval s e) as Hc. unfold core in Hc. injection Hc as Hd _ _ Hp.
    rewrite Hd, Hp. apply result_eqb_refl.
  Qed.
End Good.

(* ------------------------------------------------------------------ packaged for Props/C08.v *)
Definition reg (F : facts) (e : name) : Prop := exists b, lookup e (f_registered F) = Some b.

Theorem inv_all F : good F = true -> forall n0 ops,
  let s := run F (init F n0) ops in
  forall e, reg F e -> flags s e = false -> exists cv, compiled s e = Some (def s, sp s, cv).
Proof. intros H n0 ops s. exact (proj2 (proj2 (Inv_reach F (good_unpack F H) n0 ops))). Qed.

Theorem fresh_all F : good F = true -> forall n0 ops e, reg F e ->
  let s := run F (init F n0) ops in snd (eval F s e) = Val (def s) (pv s).
Proof. intros H n0 ops e He. exact (fresh_reach F (good_unpack F H) n0 ops e He). Qed.

Theorem same_as_fresh_all F : good F = true -> forall n0 ops e, reg F e ->
  snd (eval F (run F (init F n0) ops) e) = snd (eval F (run F (init F n0) (strip ops)) e).
Proof. intros H n0 ops e He. exact (same_as_fresh F (good_unpack F H) n0 ops e He). Qed.

Theorem trace_fresh_all F : good F = true -> forall n0 ops,
  Forall (fun o => match o with Eval e => reg F e | _ => True end) ops ->
  Forall (fun ob => o_status ob <> 2 /\ o_fresh ob = true) (trace F (init F n0) ops).
Proof. intros H n0 ops Hr. exact (trace_fresh F (good_unpack F H) ops Hr _ (Inv_init F (good_unpack F H) n0)). Qed.

(* the hypotheses are satisfiable, on a non-trivial table *)
Example ideal_good : good (ideal true true) = true.
Proof. reflexivity. Qed.
Example ideal_nontrivial :
  let F := ideal true true in
  let ops := [Eval "ode"; Eval "grad"; Mutate "param_list" 1; Eval "grad"; SetList [1; 2; 3]%Z;
              Mutate "add_ode" 2; Eval "jacobian"; Eval "ode"; SetDict [(0, 7%Z)]; Eval "grad"] in
  snd (eval F (run F (init F 2) ops) "grad")
  = Val [("param_list", 1); ("add_ode", 2)] [7; 2; 3]%Z.
Proof. vm_compute. reflexivity. Qed.

(* ------------------------------------------------------------------ refutations for the bad fact values *)
(* a mutator that changes the definition without tripping (BaseOdeModel.add_ode on the pinned tree) *)
Definition addode_ops : list op := [Eval "ode"; Mutate "add_ode" 1].
Lemma addode_refuted :
  let F := ideal false true in
  snd (eval F (run F (init F 2) addode_ops) "ode") <> snd (eval F (run F (init F 2) (strip addode_ops)) "ode").
Proof. vm_compute. discriminate. Qed.

(* the argument list self._sp changes without a trip (param_list grows, an evaluator is compiled, then
   `parameters` is assigned): the closure compiled for n parameters is called with n+1 values *)
Definition spchange_ops : list op := [Mutate "param_list" 1; Eval "ode"; SetList [1; 2; 3]%Z].
Lemma spchange_refuted :
  let F := ideal true false in
  snd (eval F (run F (init F 2) spchange_ops) "ode") = Err /\
  snd (eval F (run F (init F 2) (strip spchange_ops)) "ode") = Val [("param_list", 1)] [1; 2; 3]%Z.
Proof. vm_compute. split; reflexivity. Qed.

(* an evaluator registered under a name the canary does not hold is compiled once and never again *)
Definition nomatch_facts : facts :=
  let F := ideal true true in
  {| f_mutators := f_mutators F; f_canary := ["ode"; "jacobian"]; f_registered := f_registered F;
     f_param_mutator := f_param_mutator F; f_cond_missing := true; f_cond_flag := true; f_trip_value := true;
     f_reset_value := false; f_master_trip_first := true; f_params_at_call := true; f_getters_fresh := true;
     f_setter_sets_sp := true; f_sp_change_trips := true |}.
Lemma nomatch_refuted :
  let F := nomatch_facts in let ops := [Eval "grad"; Mutate "add_event" 1] in
  snd (eval F (run F (init F 2) ops) "grad") <> snd (eval F (run F (init F 2) (strip ops)) "grad").
Proof. vm_compute. discriminate. Qed.
