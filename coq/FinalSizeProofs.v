(* C05 — the final-size recursion of FinalSize.v defines a probability law, for every beta, gamma, N,
   initial state and fuel: one jump preserves total mass (p + (1 - p) = 1 is a ring identity, so this holds
   even for degenerate parameters), every jump lowers 2*s + i of a live state by one, hence after
   2*s0 + i0 jumps all mass sits on absorbed states (s, 0) with s <= s0, and the listed law sums to 1. *)
From Coq Require Import List Arith ZArith QArith Qcanon Bool Lia.
From PV Require Import FinalSize.
Import ListNotations.
Local Open Scope nat_scope.

Lemma st_eqb_eq a b : st_eqb a b = true <-> a = b.
Proof.
  destruct a as [a1 a2], b as [b1 b2]. unfold st_eqb. simpl.
  rewrite andb_true_iff, !Nat.eqb_eq. split; [intros [-> ->]; auto|intros H; inversion H; auto].
Qed.

(* ---- mass *)
Lemma mass_cons k w d : mass ((k, w) :: d) = (w + mass d)%Qc.
Proof. reflexivity. Qed.

Lemma mass_add_mass k w : forall d, mass (add_mass k w d) = (w + mass d)%Qc.
Proof.
  induction d as [|[k' w'] r IH]; simpl.
  - unfold mass. simpl. ring.
  - destruct (st_eqb k k').
    + rewrite !mass_cons. ring.
    + rewrite !mass_cons, IH. ring.
Qed.

Section SIR.
  Variables (beta gamma : Qc) (N : nat).
  Notation push := (push beta gamma N).
  Notation jump := (jump beta gamma N).
  Notation iter := (iter beta gamma N).
  Notation p_inf := (p_inf beta gamma N).

  Lemma mass_push e acc : mass (push e acc) = (snd e + mass acc)%Qc.
  Proof.
    destruct e as [[s i] w]. simpl snd. unfold FinalSize.push.
    destruct s as [|s'], i as [|i']; rewrite !mass_add_mass; ring.
  Qed.

  Lemma mass_jump d : mass (jump d) = mass d.
  Proof.
    induction d as [|[k w] r IH]; [reflexivity|].
    change (jump ((k, w) :: r)) with (push (k, w) (jump r)).
    rewrite mass_push, IH. reflexivity.
  Qed.

  Lemma mass_iter n : forall d, mass (iter n d) = mass d.
  Proof. induction n as [|n IH]; intros d; simpl; auto. rewrite IH. apply mass_jump. Qed.

  Theorem final_dist_mass s0 i0 fuel : mass (final_dist beta gamma N s0 i0 fuel) = 1%Qc.
  Proof. unfold final_dist. rewrite mass_iter. unfold mass. simpl. ring. Qed.

  (* ---- where the mass sits *)
  Lemma keys_add_mass k w : forall d x, In x (keys (add_mass k w d)) -> x = k \/ In x (keys d).
  Proof.
    induction d as [|[k' w'] r IH]; simpl; intros x H.
    - destruct H as [H|[]]; auto.
    - destruct (st_eqb k k') eqn:E; simpl in H.
      + destruct H as [H|H]; auto.
      + destruct H as [H|H]; auto. destruct (IH _ H); auto.
  Qed.

  (* a state is fine at level m when it is absorbed or its measure 2s+i is at most m; and s <= smax *)
  Definition fine (smax m : nat) (k : st) : Prop := fst k <= smax /\ (snd k = 0 \/ 2 * fst k + snd k <= m).

  Lemma fine_push smax m e acc :
    fine smax (S m) (fst e) -> Forall (fine smax m) (keys acc) -> Forall (fine smax m) (keys (push e acc)).
  Proof.
    intros He Hacc. apply Forall_forall. intros x Hx.
    rewrite Forall_forall in Hacc.
    destruct e as [[s i] w]. unfold fine in He. simpl in He. unfold FinalSize.push in Hx.
    destruct s as [|s'], i as [|i'].
    - apply keys_add_mass in Hx. destruct Hx as [->|Hx]; auto. unfold fine; simpl. lia.
    - apply keys_add_mass in Hx. destruct Hx as [->|Hx]; auto. unfold fine; simpl. lia.
    - apply keys_add_mass in Hx. destruct Hx as [->|Hx]; auto. unfold fine; simpl. lia.
    - apply keys_add_mass in Hx. destruct Hx as [->|Hx]; [unfold fine; simpl; lia|].
      apply keys_add_mass in Hx. destruct Hx as [->|Hx]; auto. unfold fine; simpl. lia.
  Qed.

  Lemma fine_jump smax m d : Forall (fine smax (S m)) (keys d) -> Forall (fine smax m) (keys (jump d)).
  Proof.
    induction d as [|e r IH]; intros H; [constructor|].
    simpl in H. inversion H; subst. change (jump (e :: r)) with (push e (jump r)).
    apply fine_push; auto.
  Qed.

  Lemma fine_iter smax n : forall m d, Forall (fine smax (n + m)) (keys d) -> Forall (fine smax m) (keys (iter n d)).
  Proof.
    induction n as [|n IH]; intros m d H; simpl; auto.
    apply IH. apply fine_jump. replace (S (n + m)) with (S n + m) by lia. exact H.
  Qed.

  Theorem final_law_absorbed s0 i0 :
    Forall (fun k => fst k <= s0 /\ snd k = 0) (keys (final_law beta gamma N s0 i0)).
  Proof.
    unfold final_law, final_dist.
    assert (H : Forall (fine s0 0) (keys (iter (2 * s0 + i0) [((s0, i0), 1%Qc)]))).
    { apply fine_iter. simpl. constructor; [|constructor]. unfold fine; simpl. lia. }
    eapply Forall_impl; [|exact H]. intros k [H1 H2]. split; auto. lia.
  Qed.
End SIR.

(* ---- the listed law sums to the mass when every key is (k, 0) with k < n *)
Lemma sumQ_map_plus {X} (f g : X -> Qc) : forall l,
  sumQ (map (fun x => (f x + g x)%Qc) l) = (sumQ (map f l) + sumQ (map g l))%Qc.
Proof. induction l as [|x l IH]; simpl; [ring|]. rewrite IH. ring. Qed.

Lemma sumQ_indicator (a : nat) (w : Qc) : forall n start, start <= a < start + n ->
  sumQ (map (fun k => if Nat.eqb a k then w else 0%Qc) (seq start n)) = w.
Proof.
  induction n as [|n IH]; intros start H; [lia|]. simpl.
  destruct (Nat.eqb_spec a start) as [E|E].
  - subst start. assert (Z : forall m s, a < s -> sumQ (map (fun k => if Nat.eqb a k then w else 0%Qc) (seq s m)) = 0%Qc).
    { induction m as [|m IHm]; intros s Hs; simpl; auto.
      destruct (Nat.eqb_spec a s); [lia|]. rewrite IHm by lia. ring. }
    rewrite Z by lia. ring.
  - rewrite IH by lia. ring.
Qed.

Lemma law_sum : forall d n, Forall (fun k => fst k < n /\ snd k = 0) (keys d) -> sumQ (law d n) = mass d.
Proof.
  unfold law. induction d as [|[[s i] w] r IH]; intros n H.
  - unfold prob_at, mass. simpl. induction (seq 0 n); simpl; auto. rewrite IHl. ring.
  - simpl in H. inversion H as [|? ? [H1 H2] H3]; subst. simpl in H1, H2. subst i.
    rewrite mass_cons. rewrite <- (IH n H3).
    transitivity (sumQ (map (fun k => ((if Nat.eqb s k then w else 0%Qc) + prob_at r k)%Qc) (seq 0 n))).
    + f_equal. apply map_ext. intros k.
      unfold prob_at. simpl filter. unfold st_eqb at 1. simpl fst. simpl snd.
      rewrite andb_true_r. destruct (Nat.eqb s k); [rewrite mass_cons; reflexivity|ring].
    + rewrite sumQ_map_plus. rewrite sumQ_indicator by lia. reflexivity.
Qed.

Theorem final_size_sums_to_1 : forall beta gamma N s0 i0,
  sumQ (law (final_law beta gamma N s0 i0) (S s0)) = 1%Qc.
Proof.
  intros beta gamma N s0 i0.
  assert (A : Forall (fun k => fst k < S s0 /\ snd k = 0) (keys (final_law beta gamma N s0 i0))).
  { eapply Forall_impl; [|apply final_law_absorbed]. intros k [H1 H2]. split; [lia|exact H2]. }
  rewrite (law_sum (final_law beta gamma N s0 i0) (S s0) A).
  exact (final_dist_mass beta gamma N s0 i0 (2 * s0 + i0)).
Qed.

(* the per-event choice probability used by the recursion is the one of ExpClockProofs.select
   (r_1 / (r_1 + r_2)); for i > 0, N > 0 it reduces to beta*s / (beta*s + gamma*N) *)
Example p_inf_value : this (p_inf (Q2Qc (3#2)) (Q2Qc 1) 20 19 1) = (57 # 97)%Q.
Proof. vm_compute. reflexivity. Qed.
(* N = 3, (s,i) = (2,1), beta = 2, gamma = 1: p_inf(2) = 4/7, p_inf(1) = 2/5;
   P(final s = 2) = 3/7, P(final s = 1) = 4/7 * (3/5)^2 = 36/175, P(final s = 0) = the rest = 64/175 *)
Example final_law_small : show (law (final_law (Q2Qc 2) (Q2Qc 1) 3 2 1) 3) =
  [(64%Z, 175%positive); (36%Z, 175%positive); (3%Z, 7%positive)].
Proof. vm_compute. reflexivity. Qed.
