(* C06 — executable model of the bookkeeping between theta / data and the loss kernel in
   pygom.loss.base_loss.BaseLoss (and the constructors of pygom.loss.ode_loss):
     - name -> column index            (BaseOdeModel.get_state_index, BaseLoss.__init__: _stateIndex)
     - observed rows and columns       (BaseLoss._getSolution)
     - weights / spread broadcasting   (BaseLoss._setWeight_or_spread + the flattening rule of the loss objects)
     - theta -> parameters             (BaseLoss._setParam, the dict / array forms handed to the parameters setter)
     - theta_and_x0 -> parameters, x0  (BaseLoss._setParamStateInput, _unrollState, _unrollParam, _setX0)
     - cost / residual                 (sum over observation rows and named columns of a kernel)
   The ODE solution and the loss kernel are Section variables (contracts of C02 and C14).
   Everything gen/gen_lossalign.py reads from the source is a parameter of the model: the `facts` record, the decision
   tree of _setWeight_or_spread, the decision tree of _setParamStateInput.
   Only small, total, computable definitions here; lemmas are in LossAlignProofs.v. *)
From Coq Require Import List Arith Bool ZArith.
From PV Require Import Shapes.
Import ListNotations.

(* ------------------------------------------------------------------ facts read from the source *)
Inductive time_arg := TObserve | TWithOrigin.   (* self._observeT | self._t (= t0 inserted in front) *)

Record facts := {
  index_sorted : bool;      (* _extractStateIndex returns the positions sorted instead of in the order named *)
  cols_sorted : bool;       (* _getSolution selects solution[:, sorted(self._stateIndex)] *)
  sol_time_arg : time_arg;  (* the grid handed to integrateFuncJac *)
  include_origin : bool;    (* includeOrigin=True handed to integrateFuncJac *)
  drop_first : bool;        (* the first row of the returned solution is dropped ([1::]) *)
  x0_keeps_dtype : bool     (* _setX0 stores np.copy(x0): an integer x0 stays an integer array, so that
                               _unrollState truncates what it writes into it *)
}.

Definition good_facts : facts :=
  {| index_sorted := false; cols_sorted := false; sol_time_arg := TObserve; include_origin := false;
     drop_first := false; x0_keeps_dtype := false |}.

(* the row/column facts under which row i of the selected solution is the state at the i-th observation time and
   column j the j-th named state: nothing sorted, and the origin row is either never produced or produced and dropped *)
Definition align_ok (f : facts) : bool :=
  negb (index_sorted f) && negb (cols_sorted f) &&
  match sol_time_arg f, include_origin f, drop_first f with
  | TObserve, false, false | TObserve, true, true | TWithOrigin, false, true => true
  | _, _, _ => false
  end.

(* ------------------------------------------------------------------ decision tree of _setWeight_or_spread *)
Inductive dvar := VN | VP | VM | VQ | V1.
Inductive dcond := CEq (a b : dvar) | CAnd (c d : dcond) | COr (c d : dcond) | CNot (c : dcond).
(* Keep: x = x;  Bcast: np.ones((n, p))*x;  BcastRavel: np.ones((n, p))*x.ravel();  Raise: AssertionError *)
Inductive dact := Keep | Bcast | BcastRavel | Raise.
Inductive dtree := Leaf (a : dact) | Node (c : dcond) (t e : dtree).

Definition dval (n p m q : nat) (v : dvar) : nat :=
  match v with VN => n | VP => p | VM => m | VQ => q | V1 => 1 end.
Fixpoint dceval (n p m q : nat) (c : dcond) : bool :=
  match c with
  | CEq a b => dval n p m q a =? dval n p m q b
  | CAnd c d => dceval n p m q c && dceval n p m q d
  | COr c d => dceval n p m q c || dceval n p m q d
  | CNot c => negb (dceval n p m q c)
  end.
Fixpoint drun (t : dtree) (n p m q : nat) : dact :=
  match t with
  | Leaf a => a
  | Node c t e => if dceval n p m q c then drun t n p m q else drun e n p m q
  end.

Definition dact_eqb (a b : dact) : bool :=
  match a, b with Keep, Keep | Bcast, Bcast | BcastRavel, BcastRavel | Raise, Raise => true | _, _ => false end.

(* the tree the property asks for: a vector of p numbers (whatever its orientation) is one weight per state *)
Definition good_tree : dtree :=
  Node (CEq VP VQ)
       (Node (CEq VN VM) (Leaf Keep) (Node (CEq VM V1) (Leaf Bcast) (Leaf Raise)))
       (Node (CEq VP VM)
             (Node (CEq VQ V1) (Leaf BcastRavel) (Leaf Raise))
             (Node (CAnd (CEq VQ V1) (CEq VM V1)) (Leaf Bcast) (Leaf Raise))).
(* the tree of the tree up to 8870a14: the p == m leaf multiplies by x itself *)
Definition pinned_tree : dtree :=
  Node (CEq VP VQ)
       (Node (CEq VN VM) (Leaf Keep) (Node (CEq VM V1) (Leaf Bcast) (Leaf Raise)))
       (Node (CEq VP VM)
             (Node (CEq VQ V1) (Leaf Bcast) (Leaf Raise))
             (Node (CAnd (CEq VQ V1) (CEq VM V1)) (Leaf Bcast) (Leaf Raise))).

(* two trees are the same function of (n, p, m, q): decided on the 5^4 assignments with values in 1..5, which
   realise every pattern of equalities between n, p, m, q and 1 (tree_equiv_sound in LossAlignProofs.v) *)
Definition small := [1; 2; 3; 4; 5].
Definition tree_equiv (t u : dtree) : bool :=
  forallb (fun n => forallb (fun p => forallb (fun m => forallb (fun q =>
    dact_eqb (drun t n p m q) (drun u n p m q)) small) small) small) small.

(* ------------------------------------------------------------------ decision tree of _setParamStateInput *)
Inductive latom := LNS | LNP | LTP | LTS.      (* num_state, num_param, len(_targetParam), len(_targetState) *)
Definition lexpr := list latom.                (* a sum of atoms, sorted by the translator *)
Inductive ivcond := TpNone | TsNone | LenEq (e : lexpr) | IAnd (a b : ivcond) | INot (a : ivcond).
Inductive slice := SFirst (e : lexpr) | SLast (e : lexpr) | SAll.   (* theta[:e] | theta[-e:] | theta *)
Inductive ivact := ASetX0 (s : slice) | ASetParam (s : slice) | AUnrollState (s : slice) | AUnrollParam (s : slice).
Inductive ivtree := ILeaf (l : list ivact) | IRaise | INode (c : ivcond) (t e : ivtree).

Definition good_ivtree : ivtree :=
  INode (IAnd TpNone TsNone)
    (INode (INot (LenEq [LNS; LNP])) IRaise (ILeaf [ASetX0 (SLast [LNS]); ASetParam (SFirst [LNP])]))
    (INode TpNone
       (INode (LenEq [LTS]) (ILeaf [AUnrollState SAll])
          (INode (LenEq [LNP; LTS]) (ILeaf [ASetParam (SFirst [LNP]); AUnrollState (SLast [LTS])]) IRaise))
       (INode TsNone
          (INode (LenEq [LNP]) IRaise
             (INode (LenEq [LNS; LNP]) (ILeaf [ASetParam (SFirst [LNP]); ASetX0 (SLast [LNS])])
                (INode (LenEq [LNS; LTP]) (ILeaf [AUnrollParam (SFirst [LTP]); ASetX0 (SLast [LNS])]) IRaise)))
          (INode (LenEq [LTP; LTS]) (ILeaf [AUnrollState (SLast [LTS]); AUnrollParam (SFirst [LTP])]) IRaise))).

Definition latom_eqb (a b : latom) : bool :=
  match a, b with LNS, LNS | LNP, LNP | LTP, LTP | LTS, LTS => true | _, _ => false end.
Fixpoint lexpr_eqb (a b : lexpr) : bool :=
  match a, b with
  | [], [] => true
  | x :: r, y :: s => latom_eqb x y && lexpr_eqb r s
  | _, _ => false
  end.
Fixpoint ivcond_eqb (a b : ivcond) : bool :=
  match a, b with
  | TpNone, TpNone | TsNone, TsNone => true
  | LenEq e, LenEq f => lexpr_eqb e f
  | IAnd a1 a2, IAnd b1 b2 => ivcond_eqb a1 b1 && ivcond_eqb a2 b2
  | INot a1, INot b1 => ivcond_eqb a1 b1
  | _, _ => false
  end.
Definition slice_eqb (a b : slice) : bool :=
  match a, b with
  | SFirst e, SFirst f | SLast e, SLast f => lexpr_eqb e f
  | SAll, SAll => true
  | _, _ => false
  end.
Definition ivact_eqb (a b : ivact) : bool :=
  match a, b with
  | ASetX0 s, ASetX0 t | ASetParam s, ASetParam t | AUnrollState s, AUnrollState t
  | AUnrollParam s, AUnrollParam t => slice_eqb s t
  | _, _ => false
  end.
Fixpoint ivacts_eqb (a b : list ivact) : bool :=
  match a, b with
  | [], [] => true
  | x :: r, y :: s => ivact_eqb x y && ivacts_eqb r s
  | _, _ => false
  end.
Fixpoint ivtree_eqb (a b : ivtree) : bool :=
  match a, b with
  | ILeaf l, ILeaf k => ivacts_eqb l k
  | IRaise, IRaise => true
  | INode c t e, INode d u f => ivcond_eqb c d && ivtree_eqb t u && ivtree_eqb e f
  | _, _ => false
  end.

(* ------------------------------------------------------------------ which spread parameter goes where (ode_loss.py) *)
Inductive lclass := LSquare | LNormal | LGamma | LPoisson | LNegBinom.
Inductive spread_arg := SpNone | SpSigma | SpShape | SpK.
Record lrow := {
  l_class : lclass;         (* class XLoss(BaseLoss) *)
  l_kernel : lclass;        (* the loss_type class instantiated by _setLossType *)
  l_spread : spread_arg;    (* the constructor argument forwarded to BaseLoss's spread_param slot *)
  l_args_ok : bool          (* kernel(self._y, self._weight[, self._spread_param]) and theta..state_weight,
                               target_param, target_state forwarded to the BaseLoss slots of the same name *)
}.
Definition good_loss_table : list lrow :=
  [ {| l_class := LSquare; l_kernel := LSquare; l_spread := SpNone; l_args_ok := true |};
    {| l_class := LNormal; l_kernel := LNormal; l_spread := SpSigma; l_args_ok := true |};
    {| l_class := LGamma; l_kernel := LGamma; l_spread := SpShape; l_args_ok := true |};
    {| l_class := LPoisson; l_kernel := LPoisson; l_spread := SpNone; l_args_ok := true |};
    {| l_class := LNegBinom; l_kernel := LNegBinom; l_spread := SpK; l_args_ok := true |} ].
Definition lclass_eqb (a b : lclass) : bool :=
  match a, b with
  | LSquare, LSquare | LNormal, LNormal | LGamma, LGamma | LPoisson, LPoisson | LNegBinom, LNegBinom => true
  | _, _ => false
  end.
Definition spread_eqb (a b : spread_arg) : bool :=
  match a, b with SpNone, SpNone | SpSigma, SpSigma | SpShape, SpShape | SpK, SpK => true | _, _ => false end.
Definition lrow_eqb (a b : lrow) : bool :=
  lclass_eqb (l_class a) (l_class b) && lclass_eqb (l_kernel a) (l_kernel b) &&
  spread_eqb (l_spread a) (l_spread b) && Bool.eqb (l_args_ok a) (l_args_ok b).
Fixpoint ltable_eqb (a b : list lrow) : bool :=
  match a, b with
  | [], [] => true
  | x :: r, y :: s => lrow_eqb x y && ltable_eqb r s
  | _, _ => false
  end.

(* ------------------------------------------------------------------ names *)
(* list.index *)
Fixpoint index_of (x : nat) (l : list nat) : option nat :=
  match l with
  | [] => None
  | y :: r => if x =? y then Some 0 else option_map S (index_of x r)
  end.
Fixpoint map_opt {X Y} (f : X -> option Y) (l : list X) : option (list Y) :=
  match l with
  | [] => Some []
  | x :: r => match f x, map_opt f r with Some y, Some s => Some (y :: s) | _, _ => None end
  end.
Fixpoint insert_sorted (x : nat) (l : list nat) : list nat :=
  match l with [] => [x] | y :: r => if x <=? y then x :: l else y :: insert_sorted x r end.
Definition isort (l : list nat) : list nat := fold_right insert_sorted [] l.

(* BaseOdeModel.get_state_index(names): positions in the declared state list, in the order named *)
Definition state_index (sorted : bool) (decl names : list nat) : option (list nat) :=
  match map_opt (fun x => index_of x decl) names with
  | Some idx => Some (if sorted then isort idx else idx)
  | None => None
  end.

(* ------------------------------------------------------------------ numpy arrays with an explicit shape *)
Inductive shape := Sh0 | Sh1 (k : nat) | Sh2 (r c : nat) | ShN.   (* 0-d, 1-d, 2-d, 3-d and more *)
Definition shape_eqb (a b : shape) : bool :=
  match a, b with
  | Sh0, Sh0 | ShN, ShN => true
  | Sh1 k, Sh1 l => k =? l
  | Sh2 r c, Sh2 s d => (r =? s) && (c =? d)
  | _, _ => false
  end.

Inductive err := EAssert | EBcast | ENdim | EInput | EReshape.
Inductive res (X : Type) := Ok (x : X) | Err (e : err).
Arguments Ok {X}. Arguments Err {X}.
Definition bind {X Y} (r : res X) (f : X -> res Y) : res Y := match r with Ok x => f x | Err e => Err e end.

Definition update_nth {X} (k : nat) (v : X) (l : list X) : list X :=
  firstn k l ++ match skipn k l with [] => [] | _ :: r => v :: r end.
(* theta[:e] and theta[-e:] *)
Definition lastn {X} (e : nat) (l : list X) : list X := if e =? 0 then l else skipn (length l - e) l.

(* ------------------------------------------------------------------ the stated broadcasting of weights / spread *)
(* what an input of a given shape means for n observations of p states (n >= 2 or p = 1):
   scalar -> the same number everywhere; a vector of p numbers in any orientation -> one number per state (column);
   an array of the shape of the observations -> entry by entry; everything else must be refused *)
Inductive wclass := WScalar | WPerState | WPerObs | WBad.
Definition wclass_of (n p : nat) (s : shape) : wclass :=
  match s with
  | Sh1 k => if k =? 1 then WScalar
             else if p =? 1 then (if k =? n then WPerObs else WBad)
             else if k =? p then WPerState else WBad
  | Sh2 r c => if (r =? 1) && (c =? 1) then WScalar
               else if p =? 1 then (if (r =? n) && (c =? 1) then WPerObs else WBad)
               else if (r =? n) && (c =? p) then WPerObs
               else if ((r =? 1) && (c =? p)) || ((r =? p) && (c =? 1)) then WPerState
               else WBad
  | _ => WBad
  end.
Definition yshape (n p : nat) : shape := if p =? 1 then Sh1 n else Sh2 n p.

(* the shape of the normalised observations *)
Section LossAlign.
  Variable A : Type.
  Variables (a0 a1 : A) (add mul sub : A -> A -> A).
  Notation sumn := (sumn A a0 add).

  Record nda := { sh : shape; fl : nat -> A }.     (* fl: the entries in C order *)

  Definition nd_len (x : nda) : option nat :=
    match sh x with Sh1 k => Some k | Sh2 r _ => Some r | _ => None end.
  Definition nd_size (x : nda) : nat :=
    match sh x with Sh0 => 1 | Sh1 k => k | Sh2 r c => r * c | ShN => 0 end.

  (* if len(x) == x.size: m, q = len(x), 1   else: m, q = x.shape *)
  Definition mq (x : nda) : option (nat * nat) :=
    match sh x with
    | Sh1 k => Some (k, 1)
    | Sh2 r c => if r =? r * c then Some (r, 1) else Some (r, c)
    | _ => None          (* len() of a 0-d array raises; 3-d and more is outside the model *)
    end.

  Definition nd_ravel (x : nda) : nda := {| sh := Sh1 (nd_size x); fl := fl x |}.

  (* np.ones((n, p)) * x with numpy's broadcasting rule (a 1-d operand is a row) *)
  Definition bcast_ones (n p : nat) (x : nda) : res nda :=
    let go (r c : nat) :=
      if ((r =? n) || (r =? 1) || (n =? 1)) && ((c =? p) || (c =? 1) || (p =? 1)) then
        let ro := if n =? 1 then r else n in
        let co := if p =? 1 then c else p in
        Ok {| sh := Sh2 ro co;
              fl := fun t => fl x ((if r =? 1 then 0 else t / co) * c + (if c =? 1 then 0 else t mod co)) |}
      else Err EBcast in
    match sh x with
    | Sh1 k => go 1 k
    | Sh2 r c => go r c
    | _ => Err ENdim
    end.

  (* the branches of BaseLoss._setWeight_or_spread(n, p, x, .) *)
  Definition set_wos_raw (t : dtree) (n p : nat) (x : nda) : res nda :=
    match mq x with
    | None => Err ENdim
    | Some (m, q) =>
        match drun t n p m q with
        | Keep => Ok x
        | Bcast => bcast_ones n p x
        | BcastRavel => bcast_ones n p (nd_ravel x)
        | Raise => Err EAssert
        end
    end.
  (* np.reshape(x, (n, p)): same entries in C order, refused when the sizes differ *)
  Definition reshape_np (n p : nat) (x : nda) : res nda :=
    if nd_size x =? n * p then Ok {| sh := Sh2 n p; fl := fl x |} else Err EReshape.
  (* BaseLoss._setWeight_or_spread(n, p, x, .); rs: the method ends with `return np.reshape(x, (n, p))` (8f89322)
     instead of `return x` *)
  Definition set_wos (rs : bool) (t : dtree) (n p : nat) (x : nda) : res nda :=
    bind (set_wos_raw t n p x) (fun w => if rs then reshape_np n p w else Ok w).

  (* `if len(w.shape) > 1: if 1 in w.shape: w = w.flatten()` of Baseloss_Type.__init__, Normal/Gamma/NegBinom.__init__ *)
  Definition squeeze1 (x : nda) : nda :=
    match sh x with
    | Sh2 r c => if (r =? 1) || (c =? 1) then {| sh := Sh1 (r * c); fl := fl x |} else x
    | _ => x
    end.

  (* BaseLoss.__init__: `if len(y) == y.size: y = y.flatten(); n, p = len(y), 1  else: n, p = y.shape` *)
  Definition norm_y (y : nda) : res (nat * nat * nda) :=
    match sh y with
    | Sh1 k => Ok (k, 1, y)
    | Sh2 r c => if r =? r * c then Ok (r, 1, {| sh := Sh1 (r * c); fl := fl y |}) else Ok (r, c, y)
    | _ => Err ENdim
    end.

  (* the array the loss object ends up with: broadcast, flattened when one dimension is 1, and required to have
     the shape of y (`assert self._y.shape == self._w.shape`, `if y.shape == sigma.shape`) *)
  Definition loss_array (rs : bool) (t : dtree) (n p : nat) (y x : nda) : res nda :=
    bind (set_wos rs t n p x) (fun w =>
      let w' := squeeze1 w in if shape_eqb (sh w') (sh y) then Ok w' else Err EAssert).

  (* entry (i, j) of an array that has the shape of the normalised y ((n,) when p = 1, else (n, p)) *)
  Definition at2 (p : nat) (x : nda) (i j : nat) : A := fl x (i * p + j).

  (* ---------------------------------------------------------------- the solution at the observation times *)
  (* oracle: parameters (in declaration order), x0, t0, time, state position -> value   (contract of C02) *)
  Variable sol : list A -> list A -> A -> A -> nat -> A.

  (* ode_utils.integrateFuncJac(.., x0, t0, t, includeOrigin=..): one row per requested time, x0 in front on demand *)
  Definition integrate (origin : bool) (pv x0 : list A) (t0 : A) (ts : list A) : list (nat -> A) :=
    (if origin then [fun k => nth k x0 a0] else []) ++ map (fun t => sol pv x0 t0 t) ts.

  (* BaseLoss._getSolution: rows and the column selection *)
  Definition get_solution (f : facts) (pv x0 : list A) (t0 : A) (ts : list A) (idx : list nat) : arr A :=
    let tsin := match sol_time_arg f with TObserve => ts | TWithOrigin => t0 :: ts end in
    let rows := integrate (include_origin f) pv x0 t0 tsin in
    let rows := if drop_first f then tl rows else rows in
    let cols := if cols_sorted f then isort idx else idx in
    {| nr := length rows; nc := length cols;
       get := fun i j => nth i rows (fun _ => a0) (nth j cols 0) |}.

  (* ---------------------------------------------------------------- cost *)
  (* kernel y yhat spread weight  (the loss classes of loss_type.py, property C14) *)
  Variable kernel : A -> A -> A -> A -> A.

  (* loss(yhat): the kernel summed over the n x p entries; yhat (n, p) is raveled when a dimension is 1, so that
     entry (i, j) always meets entry (i, j) of y *)
  Definition cost_of (n p : nat) (y s w : nda) (yhat : arr A) : A :=
    sumn n (fun i => sumn p (fun j => kernel (at2 p y i j) (get yhat i j) (at2 p s i j) (at2 p w i j))).

  (* ---------------------------------------------------------------- theta -> parameters *)
  Inductive theta_repr := ThArr (l : list A) | ThDict (d : list (nat * A)).

  Fixpoint dict_set (d : list (nat * A)) (k : nat) (v : A) : list (nat * A) :=
    match d with
    | [] => [(k, v)]
    | (k', v') :: r => if k =? k' then (k, v) :: r else (k', v') :: dict_set r k v
    end.
  Definition dict_of (l : list (nat * A)) : list (nat * A) :=
    fold_left (fun d kv => dict_set d (fst kv) (snd kv)) l [].

  Fixpoint lookup (d : list (nat * A)) (k : nat) : option A :=
    match d with [] => None | (k', v) :: r => if k =? k' then Some v else lookup r k end.
  (* the value a named parameter / state is bound to in a vector laid out in declaration order *)
  Definition pval (decl : list nat) (v : list A) (name : nat) : option A :=
    match index_of name decl with Some i => nth_error v i | None => None end.

  (* BaseLoss._setParam(theta) for num_param > 0 *)
  Definition set_param (tp : option (list nat)) (theta : list A) : res theta_repr :=
    match tp with
    | None => Ok (ThArr theta)
    | Some l =>
        if 1 <? length l then
          if length theta =? length l then Ok (ThDict (dict_of (combine l theta))) else Err EInput
        else match l, theta with
             | k :: _, [v] => Ok (ThDict [(k, v)])
             | _, _ => Err EInput
             end
    end.

  (* `self._ode.parameters = self._theta` (property C09): an array replaces all values and must have the declared
     length; a dict updates the named ones, keeps the others and is rejected when it names an unknown parameter *)
  Fixpoint apply_dict (declp : list nat) (pv : list A) (d : list (nat * A)) : res (list A) :=
    match d with
    | [] => Ok pv
    | (k, v) :: r => match index_of k declp with
                     | Some i => apply_dict declp (update_nth i v pv) r
                     | None => Err EInput
                     end
    end.
  Definition apply_theta (declp : list nat) (pv : list A) (th : theta_repr) : res (list A) :=
    match th with
    | ThArr l => if length l =? length declp then Ok l else Err EInput
    | ThDict d => apply_dict declp pv d
    end.

  (* ---------------------------------------------------------------- theta_and_x0 -> parameters, x0 *)
  Record lstate := {
    pv : list A;          (* the values the model's evaluators see, in declaration order *)
    th : theta_repr;      (* BaseLoss._theta *)
    x0 : list A;          (* BaseLoss._x0 *)
    x0int : bool          (* BaseLoss._x0.dtype is an integer type *)
  }.

  (* what storing v into an integer array does (numpy truncates towards zero) *)
  Variable cast : A -> A.

  Definition lval (nS nP ltp lts : nat) (a : latom) : nat :=
    match a with LNS => nS | LNP => nP | LTP => ltp | LTS => lts end.
  Definition leval (nS nP ltp lts : nat) (e : lexpr) : nat :=
    fold_right (fun a s => lval nS nP ltp lts a + s) 0 e.
  Definition take_slice (nS nP ltp lts : nat) (s : slice) (theta : list A) : list A :=
    match s with
    | SFirst e => firstn (leval nS nP ltp lts e) theta
    | SLast e => lastn (leval nS nP ltp lts e) theta
    | SAll => theta
    end.

  Section IV.
    Variables (f : facts) (decls : list nat) (nP : nat) (tp ts : option (list nat)).
    Definition nS := length decls.
    Definition ltp := match tp with Some l => length l | None => 0 end.
    Definition lts := match ts with Some l => length l | None => 0 end.

    Fixpoint iceval (len : nat) (c : ivcond) : bool :=
      match c with
      | TpNone => match tp with None => true | _ => false end
      | TsNone => match ts with None => true | _ => false end
      | LenEq e => len =? leval nS nP ltp lts e
      | IAnd a b => iceval len a && iceval len b
      | INot a => negb (iceval len a)
      end.
    Fixpoint ivrun (t : ivtree) (len : nat) : option (list ivact) :=
      match t with
      | ILeaf l => Some l
      | IRaise => None
      | INode c t e => if iceval len c then ivrun t len else ivrun e len
      end.

    (* _setX0(v): np.copy keeps the dtype of what it is given *)
    Definition set_x0 (v : list A) (vint : bool) (st : lstate) : lstate :=
      {| pv := pv st; th := th st; x0 := v; x0int := x0_keeps_dtype f && vint |}.

    (* _unrollState(v): for i, s in enumerate(_targetState): _x0[index(s)] = v[i] *)
    Fixpoint unroll_state (names : list nat) (v : list A) (isint : bool) (x : list A) : res (list A) :=
      match names with
      | [] => Ok x
      | s :: r => match index_of s decls, v with
                  | Some i, vi :: v' => unroll_state r v' isint (update_nth i (if isint then cast vi else vi) x)
                  | _, _ => Err EInput
                  end
      end.

    (* _unrollParam(v) with target parameters: for i, ti in enumerate(v): _theta[_targetParam[i]] = ti *)
    Fixpoint unroll_param (names : list nat) (v : list A) (d : list (nat * A)) : res (list (nat * A)) :=
      match v with
      | [] => Ok d
      | vi :: v' => match names with
                    | k :: r => unroll_param r v' (dict_set d k vi)
                    | [] => Err EInput
                    end
      end.

    Definition iv_step (theta : list A) (thint : bool) (a : ivact) (st : lstate) : res lstate :=
      let sl := take_slice nS nP ltp lts in
      match a with
      | ASetX0 s => Ok (set_x0 (sl s theta) thint st)
      | ASetParam s => bind (set_param tp (sl s theta))
                            (fun t => Ok {| pv := pv st; th := t; x0 := x0 st; x0int := x0int st |})
      | AUnrollState s =>
          match ts with
          | Some names => bind (unroll_state names (sl s theta) (x0int st) (x0 st))
                               (fun x => Ok {| pv := pv st; th := th st; x0 := x; x0int := x0int st |})
          | None => Err EInput
          end
      | AUnrollParam s =>
          match tp, th st with
          | Some names, ThDict d => bind (unroll_param names (sl s theta) d)
                                        (fun d' => Ok {| pv := pv st; th := ThDict d'; x0 := x0 st; x0int := x0int st |})
          | _, _ => Err EInput
          end
      end.
    Fixpoint iv_steps (theta : list A) (thint : bool) (l : list ivact) (st : lstate) : res lstate :=
      match l with
      | [] => Ok st
      | a :: r => bind (iv_step theta thint a st) (iv_steps theta thint r)
      end.

    (* BaseLoss._setParamStateInput(theta) *)
    Definition set_param_state_input (t : ivtree) (theta : list A) (thint : bool) (st : lstate) : res lstate :=
      match ivrun t (length theta) with
      | Some l => iv_steps theta thint l st
      | None => Err EInput
      end.
  End IV.

  (* ---------------------------------------------------------------- the calls cost / residual / costIV *)
  Record config := {
    c_facts : facts; c_reshape : bool; c_wtree : dtree; c_ivtree : ivtree;
    c_decls : list nat; c_declp : list nat;                  (* declared states / parameters (names) *)
    c_names : list nat;                                      (* observed states, in the order named *)
    c_tp : option (list nat); c_ts : option (list nat);      (* target_param / target_state *)
    c_t0 : A; c_ts_obs : list A;                             (* t0 and the observation times *)
    c_y : nda; c_w : nda; c_s : nda                          (* observations, weights, spread as given *)
  }.

  Inductive op := OpCost (theta : option (list A)) | OpResidual (theta : option (list A))
                | OpCostIV (theta : option (list A * bool)).
  Inductive outcome := Val (c : A) | Resid (l : list A) | Fail.

  (* everything BaseLoss.__init__ fixes: n, p, normalised y, weights and spread as the loss object holds them, columns *)
  Record built := { b_n : nat; b_p : nat; b_y : nda; b_w : nda; b_s : nda; b_idx : list nat }.

  Definition build (c : config) : res built :=
    bind (norm_y (c_y c)) (fun npy =>
      let '(n, p, y) := npy in
      if negb (length (c_ts_obs c) =? n) then Err EAssert else
      if negb (p =? length (c_names c)) then Err EAssert else
      bind (loss_array (c_reshape c) (c_wtree c) n p y (c_w c)) (fun w =>
      bind (loss_array (c_reshape c) (c_wtree c) n p y (c_s c)) (fun s =>
      match state_index (index_sorted (c_facts c)) (c_decls c) (c_names c) with
      | Some idx => Ok {| b_n := n; b_p := p; b_y := y; b_w := w; b_s := s; b_idx := idx |}
      | None => Err EInput
      end))).

  (* _getSolution(): push _theta into the model, integrate from (_x0, _t0) over the observation times, select columns *)
  Definition solve (c : config) (b : built) (st : lstate) : res (lstate * arr A) :=
    bind (apply_theta (c_declp c) (pv st) (th st)) (fun pv' =>
      Ok ({| pv := pv'; th := th st; x0 := x0 st; x0int := x0int st |},
          get_solution (c_facts c) pv' (x0 st) (c_t0 c) (c_ts_obs c) (b_idx b))).

  Definition with_theta (c : config) (theta : option (list A)) (st : lstate) : res lstate :=
    match theta with
    | None => Ok st
    | Some l => bind (set_param (c_tp c) l)
                     (fun t => Ok {| pv := pv st; th := t; x0 := x0 st; x0int := x0int st |})
    end.

  Definition residuals (b : built) (yhat : arr A) : list A :=
    flat_map (fun i => map (fun j => mul (at2 (b_p b) (b_w b) i j) (sub (at2 (b_p b) (b_y b) i j) (get yhat i j)))
                           (seq 0 (b_p b))) (seq 0 (b_n b)).

  Definition run_op (c : config) (b : built) (o : op) (st : lstate) : lstate * outcome :=
    let finish (r : res lstate) (k : arr A -> outcome) :=
      match bind r (solve c b) with
      | Ok (st', yhat) => (st', k yhat)
      | Err _ => (st, Fail)
      end in
    match o with
    | OpCost theta => finish (with_theta c theta st)
                             (fun yhat => Val (cost_of (b_n b) (b_p b) (b_y b) (b_s b) (b_w b) yhat))
    | OpResidual theta => finish (with_theta c theta st) (fun yhat => Resid (residuals b yhat))
    | OpCostIV theta =>
        finish (match theta with
                | None => Ok st
                | Some (l, lint) => set_param_state_input (c_facts c) (c_decls c) (length (c_declp c))
                                                          (c_tp c) (c_ts c) (c_ivtree c) l lint st
                end)
               (fun yhat => Val (cost_of (b_n b) (b_p b) (b_y b) (b_s b) (b_w b) yhat))
    end.

  (* the calls are replayed until the first one that raises *)
  Fixpoint run_ops (c : config) (b : built) (ops : list op) (st : lstate) : list outcome :=
    match ops with
    | [] => []
    | o :: r => let '(st', out) := run_op c b o st in
                match out with Fail => [Fail] | _ => out :: run_ops c b r st' end
    end.

  (* BaseLoss(theta, ode, x0, t0, t, y, state_name, state_weight, spread_param, target_param, target_state)
     on a model whose evaluators currently see pv0, followed by the calls *)
  Definition run_loss (c : config) (pv0 theta x0v : list A) (x0isint : bool) (ops : list op) : option (list outcome) :=
    match build c with
    | Err _ => None
    | Ok b =>
        match set_param (c_tp c) theta with
        | Err _ => None
        | Ok t => Some (run_ops c b ops {| pv := pv0; th := t; x0 := x0v;
                                          x0int := x0_keeps_dtype (c_facts c) && x0isint |})
        end
    end.
End LossAlign.

Arguments sh {A}. Arguments fl {A}. Arguments Build_nda {A}.
Arguments ThArr {A}. Arguments ThDict {A}.
Arguments OpCost {A}. Arguments OpResidual {A}. Arguments OpCostIV {A}.
Arguments Val {A}. Arguments Resid {A}. Arguments Fail {A}.
