(* C17 — proofs about the ABC model (ABC.v).  Everything is stated for an arbitrary [code] that satisfies
   [code_ok]; Props/C17.v discharges [code_ok gen_code] for the code extracted from the current source. *)
From Coq Require Import List Arith ZArith QArith Qcanon Qround Lqa Bool Lia Permutation.
From PV Require Import ABC.
Import ListNotations.
Open Scope Qc_scope.

(* ================================================================ Qc helpers *)
Lemma this_plus a b : (this (a + b) == this a + this b)%Q.
Proof. unfold Qcplus, Q2Qc; cbn [this]; apply Qred_correct. Qed.
Lemma this_mult a b : (this (a * b) == this a * this b)%Q.
Proof. unfold Qcmult, Q2Qc; cbn [this]; apply Qred_correct. Qed.
Lemma this_opp a : (this (- a) == - this a)%Q.
Proof. unfold Qcopp, Q2Qc; cbn [this]; apply Qred_correct. Qed.
Lemma this_minus a b : (this (a - b) == this a - this b)%Q.
Proof. unfold Qcminus. rewrite this_plus, this_opp. reflexivity. Qed.
Lemma this_inv a : (this (/ a) == / this a)%Q.
Proof. unfold Qcinv, Q2Qc; cbn [this]; apply Qred_correct. Qed.
Lemma this_ofZ z : (this (ofZ z) == inject_Z z)%Q.
Proof. unfold ofZ, Q2Qc; cbn [this]; apply Qred_correct. Qed.

Lemma Qc_ltb_spec a b : reflect (a < b) (Qc_ltb a b).
Proof. unfold Qc_ltb. destruct (a ?= b) eqn:E; constructor; rewrite Qclt_alt; congruence. Qed.
Lemma Qc_leb_spec a b : reflect (a <= b) (Qc_leb a b).
Proof. unfold Qc_leb. destruct (a ?= b) eqn:E; constructor; rewrite Qcle_alt; congruence. Qed.
Lemma Qc_eqb_spec a b : reflect (a = b) (Qc_eqb a b).
Proof. unfold Qc_eqb. destruct (a ?= b) eqn:E; constructor; rewrite Qceq_alt; congruence. Qed.
Lemma truthy_spec x : reflect (x <> 0) (truthy x).
Proof. unfold truthy. destruct (Qc_eqb_spec x 0); constructor; auto. Qed.
Lemma lt_ext_spec c t : reflect (LtExt c t) (lt_ext c t).
Proof. destruct t; simpl. apply Qc_ltb_spec. constructor; exact I. Qed.
Lemma ext_leb_spec a b : reflect (ExtLe a b) (ext_leb a b).
Proof. destruct a, b; simpl; try (constructor; tauto). apply Qc_leb_spec. Qed.

Lemma ExtLe_refl a : ExtLe a a.
Proof. destruct a; simpl; auto. apply Qcle_refl. Qed.
Lemma ExtLe_trans a b c : ExtLe a b -> ExtLe b c -> ExtLe a c.
Proof. destruct a, b, c; simpl; try tauto. apply Qcle_trans. Qed.
Lemma LtExt_le c a b : LtExt c a -> ExtLe a b -> LtExt c b.
Proof. destruct a, b; simpl; try tauto. intros; eapply Qclt_le_trans; eauto. Qed.

(* ================================================================ weights *)
Lemma div_pos w1 w2 : 0 < w1 -> 0 < w2 -> 0 < w1 / w2.
Proof. unfold Qcdiv, Qclt. intros H1 H2. rewrite this_mult, this_inv.
  change (this 0) with 0%Q in *. apply Qmult_lt_0_compat; auto. apply Qinv_lt_0_compat; auto. Qed.
Lemma div_one w : w / 1 = w.
Proof. unfold Qcdiv. apply Qc_is_canon. rewrite this_mult, this_inv.
  change (this 1) with 1%Q. field. Qed.

(* w1 = np.prod(densities): a non-zero product has only non-zero (hence, for densities, positive) factors *)
Definition qprod (l : list Qc) : Qc := fold_right Qcmult 1 l.
Lemma qprod_nonzero l : qprod l <> 0 -> Forall (fun d => d <> 0) l.
Proof. induction l as [|x r IH]; simpl; intros H; constructor.
  - intros E. apply H. rewrite E. apply Qcmult_0_l.
  - apply IH. intros E. apply H. rewrite E. apply Qcmult_0_r. Qed.
Lemma qprod_pos l : Forall (fun d => 0 <= d) l -> qprod l <> 0 -> Forall (fun d => 0 < d) l.
Proof. intros Hp Hn. apply qprod_nonzero in Hn. rewrite Forall_forall in *. intros x Hx.
  destruct (Qcle_lt_or_eq _ _ (Hp x Hx)) as [L|E]; auto. exfalso. apply (Hn x Hx). auto. Qed.

(* ================================================================ quantile *)
Lemma convex_lt a b f c : a < c -> b < c -> 0 <= f -> f < 1 -> a + f * (b - a) < c.
Proof. unfold Qclt, Qcle. intros. rewrite this_plus, this_mult, this_minus.
  change (this 0) with 0%Q in *. change (this 1) with 1%Q in *. nra. Qed.
Lemma convex_le a b f c : a <= c -> b <= c -> 0 <= f -> f < 1 -> a + f * (b - a) <= c.
Proof. unfold Qclt, Qcle. intros. rewrite this_plus, this_mult, this_minus.
  change (this 0) with 0%Q in *. change (this 1) with 1%Q in *. nra. Qed.
Lemma convex_ge a b f c : c <= a -> c <= b -> 0 <= f -> f < 1 -> c <= a + f * (b - a).
Proof. unfold Qclt, Qcle. intros. rewrite this_plus, this_mult, this_minus.
  change (this 0) with 0%Q in *. change (this 1) with 1%Q in *. nra. Qed.

Lemma frac_bounds h : 0 <= h - ofZ (qfloor h) /\ h - ofZ (qfloor h) < 1.
Proof. unfold Qcle, Qclt, qfloor. rewrite this_minus, this_ofZ.
  change (this 0) with 0%Q. change (this 1) with 1%Q.
  pose proof (Qfloor_le (this h)). pose proof (Qlt_floor (this h)).
  rewrite inject_Z_plus in H0. change (inject_Z 1) with 1%Q in H0. split; lra. Qed.

Lemma sort_In l x : In x (QcSort.sort l) -> In x l.
Proof. intros H. eapply Permutation_in; [apply Permutation_sym, QcSort.Permuted_sort | exact H]. Qed.
Lemma sort_length l : length (QcSort.sort l) = length l.
Proof. symmetry. apply Permutation_length, QcSort.Permuted_sort. Qed.

Lemma nth_clip_In l j : l <> [] -> In (nth (Nat.min j (length l - 1)) (QcSort.sort l) 0) l.
Proof. intros Hl. apply sort_In, nth_In. rewrite sort_length.
  destruct l; [congruence|]. simpl length. lia. Qed.

(* the interpolated quantile is a convex combination of two sample points: it inherits every bound of the sample *)
Lemma quantile_lt l q b : l <> [] -> (forall x, In x l -> x < b) -> quantile_linear l q < b.
Proof. intros Hl Hb. unfold quantile_linear.
  destruct (frac_bounds (ofZ (Z.of_nat (length l - 1)) * q)) as [F0 F1].
  apply convex_lt; auto; apply Hb, nth_clip_In; auto. Qed.
Lemma quantile_le l q m : l <> [] -> (forall x, In x l -> x <= m) -> quantile_linear l q <= m.
Proof. intros Hl Hb. unfold quantile_linear.
  destruct (frac_bounds (ofZ (Z.of_nat (length l - 1)) * q)) as [F0 F1].
  apply convex_le; auto; apply Hb, nth_clip_In; auto. Qed.
Lemma quantile_ge l q m : l <> [] -> (forall x, In x l -> m <= x) -> m <= quantile_linear l q.
Proof. intros Hl Hb. unfold quantile_linear.
  destruct (frac_bounds (ofZ (Z.of_nat (length l - 1)) * q)) as [F0 F1].
  apply convex_ge; auto; apply Hb, nth_clip_In; auto. Qed.

Fixpoint qmax (x : Qc) (l : list Qc) : Qc :=
  match l with [] => x | y :: r => let m := qmax y r in if Qc_leb x m then m else x end.
Definition list_max (l : list Qc) : Qc := match l with [] => 0 | x :: r => qmax x r end.
Lemma qmax_ub x l : x <= qmax x l /\ forall y, In y l -> y <= qmax x l.
Proof. revert x; induction l as [|y r IH]; intros x; simpl.
  - split; [apply Qcle_refl | tauto].
  - destruct (IH y) as [A B]. destruct (Qc_leb_spec x (qmax y r)) as [L|L].
    + split; auto. intros z [<-|Hz]; auto.
    + apply Qcnot_le_lt in L. split; [apply Qcle_refl|].
      intros z [<-|Hz]; eapply Qcle_trans; [| apply Qclt_le_weak, L | | apply Qclt_le_weak, L]; auto. Qed.
Lemma list_max_ub l y : In y l -> y <= list_max l.
Proof. destruct l as [|x r]; simpl; [tauto|]. destruct (qmax_ub x r) as [A B].
  intros [<-|H]; auto. Qed.
Lemma quantile_le_max l q : l <> [] -> quantile_linear l q <= list_max l.
Proof. intros Hl. apply quantile_le; auto. intros; apply list_max_ub; auto. Qed.

(* ================================================================ the extracted code is the code we reason about *)
Record code_ok (k : code) : Prop := mk_ok {
  ok_accept : forall w1 c tol, k_accept k w1 c tol = true <-> (w1 <> 0 /\ LtExt c tol);
  ok_w2_0 : forall x, k_w2 k 0 x = 1;
  ok_w2_S : forall g x, k_w2 k (S g) x = x;
  ok_w : forall w1 w2 c, k_stored_w k w1 w2 c = w1 / w2;
  ok_dist : forall w1 w2 c, k_stored_dist k w1 w2 c = c;
  ok_rej : forall r, k_stored_rej k r = r;
  ok_res : k_res_is_trial k = true;
  ok_counter : forall tc r, k_counter k tc r = (tc + r + 1)%nat;
  ok_get_tol : forall g t q d, k_get_tol k g t q d = ref_get_tol g t q d;
  ok_start : forall rr G, k_start k rr G = rr;
  ok_stop : forall rr G, k_stop k rr G = (G + rr)%nat;
  ok_tol_arg : forall g rr, (rr <= g)%nat -> k_tol_arg k g rr = (g - rr)%nat;
  ok_tol_slot : forall g rr, (rr <= g)%nat -> k_tol_slot k g rr = (g - rr)%nat;
  ok_gen_arg : forall g rr, k_gen_arg k g rr = g;
  ok_tol_passed : k_tol_passed k = true;
  ok_final : k_final_is_last k = true;
  ok_guard : k_continue_guard k = true;
  ok_rerun : k_continue_rerun k = true;
  ok_fresh : k_fresh_resets k = true
}.

(* fixed tactic that discharges [code_ok] for a generated record; it splits on every comparison, it does not
   look at the shape of the generated text *)
Ltac qc_split :=
  repeat match goal with
  | |- context [truthy ?x] => destruct (truthy_spec x)
  | |- context [lt_ext ?a ?b] => destruct (lt_ext_spec a b)
  | |- context [Qc_ltb ?a ?b] => destruct (Qc_ltb_spec a b)
  | |- context [Qc_leb ?a ?b] => destruct (Qc_leb_spec a b)
  | |- context [Qc_eqb ?a ?b] => destruct (Qc_eqb_spec a b)
  | |- context [Nat.eqb ?a ?b] => destruct (Nat.eqb_spec a b)
  end.
Ltac code_ok_tac :=
  constructor; cbv beta delta [k_accept k_w2 k_stored_w k_stored_dist k_stored_rej k_res_is_trial k_counter
    k_get_tol k_start k_stop k_tol_arg k_tol_slot k_gen_arg k_tol_passed k_final_is_last k_continue_guard
    k_continue_rerun k_fresh_resets] iota; intros;
  first
  [ reflexivity
  | lia
  | (* accept rule *)
    match goal with |- _ = true <-> _ => idtac end;
    qc_split; simpl; split; intros; try discriminate; try tauto; try (exfalso; tauto)
  | (* get_tolerance *)
    unfold ref_get_tol;
    repeat match goal with
    | t : tolspec |- _ => destruct t
    | q : option Qc |- _ => destruct q
    | |- context [Nat.eqb ?a ?b] => destruct (Nat.eqb_spec a b)
    end; simpl; try reflexivity; try lia
  | qc_split; simpl; try reflexivity; try lia; try (apply div_one) ].

Lemma ref_code_ok : code_ok ref_code.
Proof. unfold ref_code. code_ok_tac. Qed.

(* ================================================================ one particle *)
Definition rejected (tol : ext) (t : trial) : Prop := t_w1 t = 0 \/ ~ LtExt (t_cost t) tol.
Definition produced (gen : nat) (tol : ext) (t : trial) (p : part) : Prop :=
  p_par p = t_par t /\ p_dist p = t_cost t /\ t_w1 t <> 0 /\ LtExt (t_cost t) tol /\
  p_w p = t_w1 t / (match gen with O => 1 | S _ => t_w2 t end).

Section WithCode.
Variable k : code.
Hypothesis Hk : code_ok k.

Lemma perform_spec gen tol : forall s rej p rest,
  perform k gen tol s rej = Accepted p rest ->
  exists pre t, s = pre ++ t :: rest /\ Forall (rejected tol) pre /\ produced gen tol t p /\
                p_rej p = (rej + length pre)%nat.
Proof.
  induction s as [|t r IH]; intros rej p rest H; simpl in H; [discriminate|].
  destruct (k_accept k (t_w1 t) (t_cost t) tol) eqn:A.
  - apply (ok_accept k Hk) in A as [A1 A2]. inversion H; subst; clear H.
    exists [], t. simpl. repeat split; auto.
    + rewrite (ok_res k Hk); reflexivity.
    + apply (ok_dist k Hk).
    + rewrite (ok_w k Hk). destruct gen; [rewrite (ok_w2_0 k Hk) | rewrite (ok_w2_S k Hk)]; reflexivity.
    + rewrite (ok_rej k Hk). lia.
  - apply IH in H as (pre & t' & -> & F & Pr & R).
    exists (t :: pre), t'. simpl. split; [reflexivity|]. split; [|split; [exact Pr|lia]].
    constructor; auto. unfold rejected.
    destruct (Qc_eqb_spec (t_w1 t) 0) as [E|E]; auto. right. intros L.
    assert (k_accept k (t_w1 t) (t_cost t) tol = true) by (apply (ok_accept k Hk); auto). congruence.
Qed.

(* nothing that passes the test is skipped: a stream whose head passes is consumed at its head *)
Lemma perform_accepts gen tol t r rej : t_w1 t <> 0 -> LtExt (t_cost t) tol ->
  exists p, perform k gen tol (t :: r) rej = Accepted p r /\ produced gen tol t p.
Proof. intros A1 A2. simpl.
  assert (A : k_accept k (t_w1 t) (t_cost t) tol = true) by (apply (ok_accept k Hk); auto).
  rewrite A. eexists; split; [reflexivity|]. repeat split; simpl; auto.
  - rewrite (ok_res k Hk); reflexivity.
  - apply (ok_dist k Hk).
  - rewrite (ok_w k Hk). destruct gen; [rewrite (ok_w2_0 k Hk) | rewrite (ok_w2_S k Hk)]; reflexivity. Qed.

Definition from (s : list trial) (gen : nat) (tol : ext) (p : part) : Prop :=
  exists t, In t s /\ produced gen tol t p.

Lemma from_mono s s' gen tol p : (forall t, In t s -> In t s') -> from s gen tol p -> from s' gen tol p.
Proof. intros H (t & I & Pr). exists t; auto. Qed.

Lemma particles_spec gen tol : forall n s cnt ps c rest,
  particles k gen tol n s cnt = Some (ps, c, rest) ->
  length ps = n /\ exists used, s = used ++ rest /\ Forall (from used gen tol) ps /\ c = (cnt + length used)%nat.
Proof.
  induction n as [|n IH]; intros s cnt ps c rest H; simpl in H.
  - inversion H; subst. split; auto. exists []; simpl; auto.
  - destruct (perform k gen tol s 0) as [p r|] eqn:Pf; [|discriminate].
    destruct (particles k gen tol n r (k_counter k cnt (p_rej p))) as [[[ps' c'] r']|] eqn:Pt; [|discriminate].
    inversion H; subst; clear H.
    apply perform_spec in Pf as (pre & t & -> & F & Pr & R).
    apply IH in Pt as (L & used & -> & Fu & C).
    split; [simpl; lia|]. exists (pre ++ t :: used). split; [rewrite <- app_assoc; reflexivity|]. split.
    + constructor.
      * exists t; split; auto. apply in_or_app; right; left; reflexivity.
      * eapply Forall_impl; [|exact Fu]. intros a. apply from_mono. intros x Hx.
        apply in_or_app; right; right; exact Hx.
    + rewrite C, (ok_counter k Hk), R, app_length. simpl. lia.
Qed.

(* ================================================================ generations *)
Definition good (s : list trial) (tol : ext) (p : part) : Prop := exists gen, from s gen tol p.

Lemma good_mono s s' tol p : (forall t, In t s -> In t s') -> good s tol p -> good s' tol p.
Proof. intros H (g & F). exists g. eapply from_mono; eauto. Qed.
Lemma good_dist s tol p : good s tol p -> LtExt (p_dist p) tol.
Proof. intros (g & t & _ & (_ & D & _ & L & _)). rewrite D; exact L. Qed.

Lemma gens_spec c rr : forall n g ps tols last cnts hist s ps' tols' last' cnts' hist' s',
  gens k c rr n g ps tols last cnts hist s = Some (ps', tols', last', cnts', hist', s') ->
  (exists used, s = used ++ s') /\
  (n = 0%nat -> ps' = ps /\ last' = last /\ hist' = hist /\ tols' = tols) /\
  ((1 <= n)%nat -> length ps' = c_N c /\ Forall (good s last') ps' /\ exists h, hist' = h ++ [last']).
Proof.
  induction n as [|n IH]; intros g ps tols last cnts hist s ps' tols' last' cnts' hist' s' H; simpl in H.
  - inversion H; subst. split; [exists []; reflexivity|]. split; [auto|lia].
  - rewrite (ok_tol_passed k Hk) in H.
    set (tol := k_get_tol k (k_tol_arg k g rr) (c_tol c) (c_q c) (map p_dist ps)) in *.
    destruct (particles k (k_gen_arg k g rr) tol (c_N c) s 0) as [[[ps1 c1] s1]|] eqn:Pt; [|discriminate].
    apply particles_spec in Pt as (L & used & -> & Fu & _).
    apply IH in H as ((used' & ->) & H0 & H1).
    split; [exists (used ++ used'); rewrite <- app_assoc; reflexivity|]. split; [lia|]. intros _.
    destruct n as [|n].
    + destruct (H0 eq_refl) as (-> & -> & -> & _). split; auto. split; [|eexists; reflexivity].
      eapply Forall_impl; [|exact Fu]. intros a Fa. exists (k_gen_arg k g rr).
      eapply from_mono; [|exact Fa]. intros; apply in_or_app; auto.
    + destruct H1 as (L1 & F1 & h & ->); [lia|]. split; auto. split; [|eexists; reflexivity].
      eapply Forall_impl; [|exact F1]. intros a. apply good_mono. intros; apply in_or_app; auto.
Qed.

(* ================================================================ calls and histories *)
Definition Inv (s : list trial) (st : state) : Prop := Forall (good s (s_final st)) (s_parts st).

Lemma do_call_spec st c s st' s' : wf_call c ->
  do_call k st c s = Done st' s' ->
  (exists used, s = used ++ s') /\ length (s_parts st') = c_N c /\
  Forall (good s (s_final st')) (s_parts st') /\ exists h, s_hist st' = h ++ [s_final st'].
Proof.
  intros [WG _] H. unfold do_call in H.
  destruct (c_rerun c && k_continue_guard k && _); [discriminate|].
  rewrite (ok_stop k Hk), (ok_start k Hk), (ok_final k Hk) in H.
  match type of H with match ?e with _ => _ end = _ => destruct e as [[[[[[ps tols] last] cnts] hist] s1]|] eqn:G end;
    [|discriminate].
  inversion H; subst; clear H. simpl.
  apply gens_spec in G as (U & _ & G1). destruct G1 as (L & F & Hh); [lia|]. auto.
Qed.

Lemma run_spec : forall cs st s st' s' s0,
  Forall wf_call cs -> (forall t, In t s -> In t s0) -> Inv s0 st ->
  run k st cs s = Some (st', s') -> Inv s0 st'.
Proof.
  induction cs as [|c r IH]; intros st s st' s' s0 W Sub I H; simpl in H.
  - inversion H; subst; auto.
  - inversion W as [|? ? Wc Wr]; subst.
    destruct (do_call k st c s) as [st1 s1| |] eqn:D; [| |discriminate].
    + destruct (do_call_spec _ _ _ _ _ Wc D) as ((used & ->) & _ & F & _).
      eapply IH; [exact Wr | | | exact H].
      * intros t Ht. apply Sub, in_or_app; auto.
      * unfold Inv. eapply Forall_impl; [|exact F]. intros a. apply good_mono. exact Sub.
    + eapply IH; eauto.
Qed.

Theorem run_good cs s st' s' : Forall wf_call cs -> run k init_state cs s = Some (st', s') ->
  Forall (good s (s_final st')) (s_parts st').
Proof. intros W H. eapply (run_spec cs init_state s st' s' s); eauto. constructor. Qed.

(* every stored weight is w1/w2 of its own trial, hence positive when the oracles are (densities >= 0, kernel > 0) *)
Definition sane (t : trial) : Prop := 0 <= t_w1 t /\ 0 < t_w2 t.
Lemma good_weight s tol p : Forall sane s -> good s tol p -> 0 < p_w p.
Proof. intros Hs (g & t & I & (_ & _ & N & _ & W)).
  rewrite Forall_forall in Hs. destruct (Hs t I) as [S1 S2]. rewrite W.
  assert (0 < t_w1 t).
  { destruct (Qc_dec 0 (t_w1 t)) as [[L|L]|E]; auto.
    - exfalso. eapply Qclt_not_le; eauto.
    - congruence. }
  apply div_pos; auto. destruct g; auto. reflexivity. Qed.

Theorem run_weights cs s st' s' : Forall wf_call cs -> Forall sane s ->
  run k init_state cs s = Some (st', s') -> Forall (fun p => 0 < p_w p) (s_parts st').
Proof. intros W Hs H. eapply Forall_impl; [|eapply run_good; eauto].
  intros a. apply good_weight; auto. Qed.

(* ================================================================ quantile scheduling: tolerances never increase *)
Fixpoint desc_from (a : ext) (l : list ext) : Prop :=
  match l with [] => True | b :: r => ExtLe b a /\ desc_from b r end.
(* non-increasing sequence of tolerances *)
Definition desc (l : list ext) : Prop := match l with [] => True | a :: r => desc_from a r end.
Definition lastx (l : list ext) : option ext := match l with [] => None | a :: r => Some (last r a) end.
Lemma lastx_snoc l x : lastx (l ++ [x]) = Some x.
Proof. destruct l as [|a r]; simpl; auto. f_equal. apply last_last. Qed.
Lemma last_indep {X} : forall (r : list X) c a b, last (c :: r) a = last (c :: r) b.
Proof. induction r as [|d r IH]; intros; [reflexivity|]. change (last (d :: r) a = last (d :: r) b). apply IH. Qed.
Lemma desc_from_snoc : forall r a x, desc_from a r -> ExtLe x (last r a) -> desc_from a (r ++ [x]).
Proof. induction r as [|b r IH]; intros a x D H.
  - simpl in *. auto.
  - destruct D as [D1 D2]. change ((b :: r) ++ [x]) with (b :: (r ++ [x])). split; auto. apply IH; auto.
    destruct r as [|c r']; [exact H|]. rewrite (last_indep r' c b a). exact H. Qed.
Lemma desc_snoc l x : desc l -> (forall y, lastx l = Some y -> ExtLe x y) -> desc (l ++ [x]).
Proof. destruct l as [|a r]; simpl; auto. intros D H. apply desc_from_snoc; auto. Qed.

(* a call that uses quantile scheduling (or is a plain rejection run): scalar first tolerance *)
Definition qcall (c : call) : Prop := wf_call c /\ (1 <= c_N c)%nat /\ exists t, c_tol c = TScalar t.

Definition below (ps : list part) (tol : ext) : Prop := Forall (fun p => LtExt (p_dist p) tol) ps.

Lemma quantile_tol_le ps q last : ps <> [] -> below ps last ->
  ExtLe (Fin (quantile_linear (map p_dist ps) q)) last.
Proof. intros Hn B. destruct last as [x|]; simpl; auto. apply Qclt_le_weak, quantile_lt.
  - destruct ps; simpl; congruence.
  - intros y Hy. apply in_map_iff in Hy as (p & <- & Hp). unfold below in B. rewrite Forall_forall in B.
    apply (B p Hp). Qed.

Lemma particles_below gen tol n s cnt ps c rest :
  particles k gen tol n s cnt = Some (ps, c, rest) -> length ps = n /\ below ps tol.
Proof. intros H. apply particles_spec in H as (L & used & _ & F & _). split; auto.
  eapply Forall_impl; [|exact F]. intros a (t & _ & (_ & D & _ & Lt & _)). rewrite D; exact Lt. Qed.

Lemma gens_tail c rr t0 : qcall c -> c_tol c = TScalar t0 ->
  forall n g ps tols last cnts hist s ps' tols' last' cnts' hist' s',
  (c_q c = None -> n = 0%nat) ->
  (rr < g)%nat -> length ps = c_N c -> below ps last -> desc hist -> lastx hist = Some last ->
  gens k c rr n g ps tols last cnts hist s = Some (ps', tols', last', cnts', hist', s') ->
  below ps' last' /\ desc hist' /\ lastx hist' = Some last' /\ length ps' = c_N c.
Proof.
  intros (W & N1 & _) Ht. induction n as [|n IH];
    intros g ps tols last cnts hist s ps' tols' last' cnts' hist' s' Hq Hg L B D La H; simpl in H.
  - inversion H; subst; auto.
  - rewrite (ok_tol_passed k Hk), (ok_get_tol k Hk), (ok_tol_arg k Hk) in H by lia.
    unfold ref_get_tol in H. destruct (Nat.eqb_spec (g - rr) 0) as [E|_]; [lia|].
    destruct W as [WG W]. rewrite Ht in W, H.
    destruct (c_q c) as [q|] eqn:Q.
    + simpl is_some in H. cbv iota in H. simpl q_val in H.
      set (tol := Fin (quantile_linear (map p_dist ps) q)) in *.
      destruct (particles k (k_gen_arg k g rr) tol (c_N c) s 0) as [[[ps1 c1] s1]|] eqn:Pt; [|discriminate].
      apply particles_below in Pt as (L1 & B1).
      apply IH in H; auto; try congruence.
      * apply desc_snoc; auto. intros y Hy. rewrite La in Hy. inversion Hy; subst.
        apply quantile_tol_le; auto. destruct ps; simpl in L; [lia|congruence].
      * apply lastx_snoc.
    + (* scalar tolerance without q : only G = 1 is accepted, so there is no later generation *)
      specialize (Hq eq_refl). discriminate.
Qed.

(* self.tolerances is filled slot by slot in generation order, and the ghost history is the previous history
   followed by it *)
Lemma set_nth_app {X} : forall (a : list X) x r v, set_nth (a ++ x :: r) (length a) v = a ++ v :: r.
Proof. induction a as [|y a IH]; intros; simpl; [reflexivity|]. rewrite IH. reflexivity. Qed.

Lemma gens_tols c rr h0 : forall n g ps done last cnts s ps' tols' last' cnts' hist' s',
  (rr <= g)%nat -> length done = (g - rr)%nat ->
  gens k c rr n g ps (done ++ repeat (Fin 0) n) last cnts (h0 ++ done) s
    = Some (ps', tols', last', cnts', hist', s') ->
  hist' = h0 ++ tols' /\ length tols' = (length done + n)%nat /\ length cnts' = (length cnts + n)%nat.
Proof.
  induction n as [|n IH]; intros g ps done last cnts s ps' tols' last' cnts' hist' s' Hg L H; simpl in H.
  - inversion H; subst. rewrite app_nil_r. repeat split; lia.
  - rewrite (ok_tol_slot k Hk) in H by lia.
    match type of H with match ?e with _ => _ end = _ => destruct e as [[[ps1 c1] s1]|]; [|discriminate] end.
    rewrite <- L, set_nth_app in H.
    match type of H with context [set_nth] => fail 1 | _ => idtac end.
    match type of H with gens _ _ _ _ _ _ (done ++ ?t :: _) _ _ _ _ = _ =>
      change (done ++ t :: repeat (Fin 0) n) with (done ++ [t] ++ repeat (Fin 0) n) in H;
      rewrite (app_assoc done [t]) in H; rewrite <- (app_assoc h0 done [t]) in H end.
    apply IH in H; try lia; try (rewrite app_length; cbn [length]; lia).
    destruct H as (A & B & C). rewrite app_length in B, C. simpl in B, C. repeat split; auto; try lia.
Qed.

Lemma desc_from_app_r : forall a b x, desc_from x (a ++ b) -> desc b.
Proof. induction a as [|y a IH]; intros b x D; simpl in *.
  - destruct b; simpl in *; tauto.
  - destruct D as [_ D]. eapply IH; eauto. Qed.
Lemma desc_app_r a b : desc (a ++ b) -> desc b.
Proof. destruct a as [|x a]; simpl; auto. apply desc_from_app_r. Qed.

Definition Inv2 (st : state) : Prop :=
  below (s_parts st) (s_final st) /\ desc (s_hist st) /\
  (s_hist st <> [] -> lastx (s_hist st) = Some (s_final st)).

Lemma do_call_mono st c s st' s' : qcall c -> Inv2 st -> do_call k st c s = Done st' s' ->
  Inv2 st' /\
  s_hist st' = (if c_rerun c then s_hist st else []) ++ s_tols st' /\
  length (s_tols st') = c_G c /\ length (s_counts st') = c_G c /\
  (c_rerun c = true -> ExtLe (first_tol (c_tol c)) (s_final st)).
Proof.
  intros Q (B & D & La) H. pose proof Q as (W & N1 & t0 & Ht). destruct W as [WG W].
  unfold do_call in H.
  rewrite (ok_guard k Hk), (ok_rerun k Hk), (ok_fresh k Hk), (ok_final k Hk), (ok_stop k Hk), (ok_start k Hk),
    !andb_true_r in H.
  destruct (c_rerun c && negb _) eqn:Gd; [discriminate|].
  assert (Hguard : c_rerun c = true ->
            length (s_parts st) = c_N c /\ ExtLe (first_tol (c_tol c)) (s_final st)).
  { intros R. rewrite R in Gd. simpl in Gd. apply negb_false_iff, andb_prop in Gd as [G1 G2].
    apply Nat.eqb_eq in G1. split; auto. destruct (ext_leb_spec (first_tol (c_tol c)) (s_final st)); auto.
    discriminate. }
  clear Gd.
  set (rr := if c_rerun c then 1%nat else 0%nat) in *.
  set (h0 := if c_rerun c then s_hist st else []) in *.
  match type of H with match ?e with _ => _ end = _ => destruct e as [[[[[[ps tols] last] cnts] hist] s1]|] eqn:G end;
    [|discriminate].
  inversion H; subst; clear H. simpl.
  (* the slot bookkeeping *)
  pose proof G as G'.
  replace (c_G c + rr - rr)%nat with (c_G c) in G' by lia.
  change (repeat (Fin 0) (c_G c)) with ([] ++ repeat (Fin 0) (c_G c)) in G'.
  rewrite <- (app_nil_r h0) in G'.
  apply gens_tols in G'; [| lia | simpl; lia]. destruct G' as (Eh & Lt & Lc). simpl in Lt, Lc.
  (* the first generation uses the tolerance that was passed in *)
  replace (c_G c + rr - rr)%nat with (S (c_G c - 1)) in G by lia.
  simpl in G.
  rewrite (ok_tol_passed k Hk), (ok_get_tol k Hk), (ok_tol_arg k Hk), Nat.sub_diag in G by lia.
  unfold ref_get_tol in G. rewrite Ht in G. simpl in G.
  match type of G with match ?e with _ => _ end = _ => destruct e as [[[ps1 c1] s2]|] eqn:Pt; [|discriminate] end.
  apply particles_below in Pt as (L1 & B1).
  eapply (gens_tail c rr t0 Q Ht) in G; auto.
  - destruct G as (B' & D' & La' & L'). repeat split; auto.
    intros R. apply Hguard; auto.
  - intros Qn. rewrite Ht, Qn in W. lia.
  - (* the history stays non-increasing when the first tolerance is appended *)
    apply desc_snoc.
    + unfold h0. destruct (c_rerun c); simpl; auto.
    + intros y Hy. unfold h0 in Hy. destruct (c_rerun c) eqn:R; [|discriminate].
      destruct (Hguard eq_refl) as [_ Le]. rewrite Ht in Le. simpl in Le.
      destruct (s_hist st) eqn:Eh0; [discriminate|].
      rewrite La in Hy by congruence. inversion Hy; subst. exact Le.
  - apply lastx_snoc.
Qed.

Lemma run_mono_gen : forall cs st s st' s', Forall qcall cs -> Inv2 st ->
  run k st cs s = Some (st', s') -> Inv2 st'.
Proof.
  induction cs as [|c r IH]; intros st s st' s' Q I H; simpl in H.
  - inversion H; subst; auto.
  - inversion Q as [|? ? Qc Qr]; subst.
    destruct (do_call k st c s) as [st1 s1| |] eqn:D; [| |discriminate].
    + eapply IH; [exact Qr | | exact H]. eapply do_call_mono; eauto.
    + eapply IH; eauto.
Qed.

Lemma Inv2_init : Inv2 init_state.
Proof. repeat split; simpl; auto. constructor. congruence. Qed.

Theorem run_mono cs s st' s' : Forall qcall cs -> run k init_state cs s = Some (st', s') -> desc (s_hist st').
Proof. intros Q H. eapply run_mono_gen in H; eauto using Inv2_init. apply H. Qed.

(* the observable array self.tolerances of the last completed call is a suffix of that history *)
Lemma run_tols_suffix : forall cs st s st' s', Forall qcall cs -> Inv2 st ->
  (exists h, s_hist st = h ++ s_tols st) ->
  run k st cs s = Some (st', s') -> exists h, s_hist st' = h ++ s_tols st'.
Proof.
  induction cs as [|c r IH]; intros st s st' s' Q I E H; simpl in H.
  - inversion H; subst; auto.
  - inversion Q as [|? ? Qc Qr]; subst.
    destruct (do_call k st c s) as [st1 s1| |] eqn:D; [| |discriminate].
    + destruct (do_call_mono _ _ _ _ _ Qc I D) as (I1 & E1 & _).
      eapply IH; [exact Qr | exact I1 | eexists; exact E1 | exact H].
    + eapply IH; eauto.
Qed.

Theorem run_tolerances_desc cs s st' s' : Forall qcall cs -> run k init_state cs s = Some (st', s') ->
  desc (s_tols st').
Proof. intros Q H. pose proof (run_mono _ _ _ _ Q H) as D.
  destruct (run_tols_suffix cs init_state s st' s' Q Inv2_init) as (h & E); auto.
  - exists []; reflexivity.
  - rewrite E in D. eapply desc_app_r; eauto. Qed.
End WithCode.

(* ================================================================ the hypotheses are satisfiable; relaxed rules are refuted *)
Definition qz (n : Z) (d : positive) : Qc := Q2Qc (n # d).
Definition ex_stream : list trial :=
  [ mkT [qz 1 2; qz 1 3] (qz 1 9) (qz 7 1) 1;      (* gen 0 : accepted (tol = inf) *)
    mkT [qz 5 2; qz 1 3] 0 0 1;                    (* outside the prior support: rejected *)
    mkT [qz 3 2; qz 2 3] (qz 1 9) (qz 3 1) 1;      (* accepted *)
    mkT [qz 1 1; qz 1 1] (qz 1 9) (qz 2 1) 1;      (* accepted *)
    mkT [qz 1 2; qz 1 2] (qz 1 9) (qz 6 1) (qz 1 4);  (* gen 1, tol = quantile_0.5 {7,3,2} = 3 : rejected *)
    mkT [qz 1 2; qz 1 2] (qz 1 9) (qz 5 2) (qz 1 4);  (* accepted *)
    mkT [qz 2 3; qz 1 2] (qz 1 9) (qz 3 1) (qz 1 5);  (* cost = tol : rejected (strict) *)
    mkT [qz 2 3; qz 1 2] (qz 1 9) (qz 1 1) (qz 1 5);  (* accepted *)
    mkT [qz 2 3; qz 1 2] (qz 1 9) (qz 3 2) (qz 1 5);  (* accepted *)
    mkT [qz 2 3; qz 1 2] (qz 1 9) (qz 5 4) (qz 1 2);  (* continued run, tol 2 : accepted *)
    mkT [qz 2 3; qz 1 2] (qz 1 9) (qz 9 4) (qz 1 2);  (* rejected *)
    mkT [qz 2 3; qz 1 2] (qz 1 9) (qz 1 4) (qz 1 2);  (* accepted *)
    mkT [qz 2 3; qz 1 3] (qz 1 9) (qz 1 8) (qz 1 2) ].
Definition ex_calls : list call :=
  [ mkC false 3 (TScalar PInf) 2 (Some (qz 1 2));
    mkC true 3 (TScalar (Fin (qz 7 1))) 1 None;          (* refused: 7 > final_tol = 3 *)
    mkC true 3 (TScalar (Fin (qz 2 1))) 1 (Some (qz 1 2)) ].

Example ex_calls_q : Forall qcall ex_calls.
Proof. repeat constructor; simpl; try lia; eexists; reflexivity. Qed.
Example ex_run_completes :
  match run ref_code init_state ex_calls ex_stream with
  | Some (st, rest) =>
      map p_dist (s_parts st) = [qz 5 4; qz 1 4; qz 1 8] /\ s_final st = Fin (qz 2 1) /\
      s_hist st = [PInf; Fin (qz 3 1); Fin (qz 2 1)] /\ s_tols st = [Fin (qz 2 1)] /\ rest = []
  | None => False
  end.
Proof. vm_compute. repeat split. Qed.
Example ex_stream_sane : Forall sane ex_stream.
Proof. rewrite Forall_forall. intros t Ht. unfold ex_stream in Ht. simpl in Ht.
  repeat (destruct Ht as [<-|Ht]; [split; vm_compute; congruence|]). destruct Ht. Qed.

(* a non-strict comparison (cost <= tolerance) keeps a particle that is not below its tolerance *)
Definition le_code : code :=
  mkCode (fun w1 c tol => truthy w1 && le_ext c tol) (k_w2 ref_code) (k_stored_w ref_code) (k_stored_dist ref_code)
         (k_stored_rej ref_code) true (k_counter ref_code) ref_get_tol (k_start ref_code) (k_stop ref_code)
         (k_tol_arg ref_code) (k_tol_slot ref_code) (k_gen_arg ref_code) true true true true true.
Lemma nonstrict_refuted :
  exists s p rest, perform le_code 1 (Fin (qz 3 1)) s 0 = Accepted p rest /\ ~ LtExt (p_dist p) (Fin (qz 3 1)).
Proof. exists [mkT [qz 1 2] (qz 1 9) (qz 3 1) (qz 1 5)]. eexists. eexists. split; [vm_compute; reflexivity|].
  vm_compute. congruence. Qed.
(* dropping the prior test (`if w1:`) keeps a particle of zero prior density with weight 0 *)
Definition noprior_code : code :=
  mkCode (fun w1 c tol => lt_ext c tol) (k_w2 ref_code) (k_stored_w ref_code) (k_stored_dist ref_code)
         (k_stored_rej ref_code) true (k_counter ref_code) ref_get_tol (k_start ref_code) (k_stop ref_code)
         (k_tol_arg ref_code) (k_tol_slot ref_code) (k_gen_arg ref_code) true true true true true.
Lemma noprior_refuted :
  exists s p rest, perform noprior_code 1 PInf s 0 = Accepted p rest /\ ~ 0 < p_w p.
Proof. exists [mkT [qz 5 2] 0 (qz 3 1) (qz 1 5)]. eexists. eexists. split; [vm_compute; reflexivity|].
  vm_compute. congruence. Qed.
