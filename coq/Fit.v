(* C18 — model of BaseLoss.fit (src/pygom/loss/base_loss.py): the packing of lb/ub into the `bounds`
   argument of scipy.optimize.minimize, the call that is made, and what is returned.
   Only small, total, computable definitions here; proofs are in FitProofs.v.
   numpy arrays are functional arrays (DESIGN.md 2.1, probe sens_reshape_chain_c13.v). *)
From Coq Require Import List Arith Bool ZArith.
Import ListNotations.

(* ------------------------------------------------------------------ numpy shapes *)
Record arr (A : Type) := mkArr { nr : nat; nc : nat; get : nat -> nat -> A }.
Arguments mkArr {A}. Arguments nr {A}. Arguments nc {A}. Arguments get {A}.

Inductive order := OrdC | OrdF.

(* numpy.reshape(v, (r, c), order) of a flat vector v; numpy raises when r*c <> len v *)
Definition reshape_vec {A} (o : order) (d : A) (v : list A) (r c : nat) : option (arr A) :=
  if Nat.eqb (r * c) (length v) then
    Some (mkArr r c (fun i j => match o with
                                | OrdC => nth (i * c + j) v d
                                | OrdF => nth (i + j * r) v d
                                end))
  else None.

Definition row {A} (X : arr A) (i : nat) : list A := map (get X i) (seq 0 (nc X)).
Definition table {A} (X : arr A) : list (list A) := map (row X) (seq 0 (nr X)).

(* ------------------------------------------------------------------ facts extracted from the source of fit *)
Inductive dimsrc := LenLb | LenUb | LenX | Lit (k : nat).
Record pack_facts := mkPack {
  concat_lb_first : bool;     (* np.append(lb, ub) rather than np.append(ub, lb) *)
  shape_rows : dimsrc;        (* first component of the target shape *)
  shape_cols : dimsrc;        (* second component of the target shape *)
  reshape_order : order }.    (* 'F' or 'C' (C when the argument is absent) *)

Inductive method := LBFGSB | SLSQP | OtherMethod.
Inductive objective := ObjCost | ObjCostIV | ObjOther.
Inductive gradient := GradSensitivity | GradSensitivityIV | GradAdjoint | GradGradient | GradNone | GradOther.
Inductive retval := RetResX | RetRes | RetOther.
Record call_facts := mkCall {
  fun_attr : objective;            (* minimize(fun=self.<this>) *)
  jac_attr : gradient;             (* minimize(jac=self.<this>) *)
  method_no_A : method;            (* method chosen when A is None *)
  method_with_A : method;          (* method chosen when a matrix A is given *)
  ret_plain : retval;              (* value returned when full_output is false *)
  ret_full_first : retval;         (* first component returned when full_output is true *)
  checks_len_lb_ub : bool;         (* raises when len(lb) != len(ub)   (both given) *)
  checks_len_lb_x : bool }.        (* raises when len(lb) != len(x)    (both given) *)

Definition good_pack : pack_facts := mkPack true LenLb (Lit 2) OrdF.
Definition good_call : call_facts := mkCall ObjCost GradSensitivity LBFGSB SLSQP RetResX RetResX true true.

(* ------------------------------------------------------------------ fit, up to the call of minimize *)
Section FitModel.
  Variable T : Type.          (* entries of lb / ub / x *)
  Variable d : T.             (* filler returned by out-of-range reads (never reached when shapes agree) *)
  Variable none : T.          (* the entry numpy stores for an absent bound (Python None) *)

  Definition dim (s : dimsrc) (x lb ub : list T) : nat :=
    match s with LenLb => length lb | LenUb => length ub | LenX => length x | Lit k => k end.

  (* box_bounds = np.reshape(np.append(lb, ub), (len(lb), 2), 'F')  -- as described by the facts *)
  Definition pack (pf : pack_facts) (x lb ub : list T) : option (arr T) :=
    reshape_vec (reshape_order pf) d
                (if concat_lb_first pf then lb ++ ub else ub ++ lb)
                (dim (shape_rows pf) x lb ub) (dim (shape_cols pf) x lb ub).

  Record call := mkC { c_fun : objective; c_jac : gradient; c_x0 : list T; c_bounds : arr T; c_method : method }.

  (* the call fit makes; None = fit raises before reaching minimize.  lb/ub = None is Python's None. *)
  Definition fit_call (pf : pack_facts) (cf : call_facts) (x : list T) (lb ub : option (list T)) (hasA : bool)
    : option call :=
    let deflt := repeat none (length x) in
    let checked := match lb, ub with
                   | Some l, Some u =>
                       negb ((checks_len_lb_ub cf && negb (Nat.eqb (length l) (length u)))
                             || (checks_len_lb_x cf && negb (Nat.eqb (length l) (length x))))
                   | _, _ => true
                   end in
    if checked then
      let l := match lb with Some l => l | None => deflt end in
      let u := match ub with Some u => u | None => deflt end in
      match pack pf x l u with
      | Some b => Some (mkC (fun_attr cf) (jac_attr cf) x b (if hasA then method_with_A cf else method_no_A cf))
      | None => None
      end
    else None.

  (* ---------------------------------------------------------------- the optimiser and the loss object *)
  Variables (C G : Type).                                     (* cost values, gradient values *)
  Variable obj_of : objective -> (list T) -> C.                    (* the loss object's methods usable as `fun` *)
  Variable grad_of : gradient -> (list T) -> G.                    (* ... and as `jac` *)
  (* res['x'] of scipy.optimize.minimize(fun, jac, x0, bounds, method) *)
  Variable minimize : ((list T) -> C) -> ((list T) -> G) -> (list T) -> arr T -> method -> (list T).

  Definition fit (pf : pack_facts) (cf : call_facts) (x lb ub : (list T)) : option (list T) :=
    match fit_call pf cf x (Some lb) (Some ub) false with
    | Some c =>
        match ret_plain cf with
        | RetResX => Some (minimize (obj_of (c_fun c)) (grad_of (c_jac c)) (c_x0 c) (c_bounds c) (c_method c))
        | _ => None
        end
    | None => None
    end.
End FitModel.

Arguments pack {T}. Arguments fit_call {T}. Arguments fit {T} d none {C G}.
Arguments c_fun {T}. Arguments c_jac {T}. Arguments c_x0 {T}. Arguments c_bounds {T}. Arguments c_method {T}.

(* ------------------------------------------------------------------ executable views used by the case files *)
Definition oz_eqb (a b : option Z) : bool :=
  match a, b with Some u, Some v => Z.eqb u v | None, None => true | _, _ => false end.

Definition method_eqb (a b : method) : bool :=
  match a, b with LBFGSB, LBFGSB | SLSQP, SLSQP | OtherMethod, OtherMethod => true | _, _ => false end.
Definition objective_eqb (a b : objective) : bool :=
  match a, b with ObjCost, ObjCost | ObjCostIV, ObjCostIV | ObjOther, ObjOther => true | _, _ => false end.
Definition gradient_eqb (a b : gradient) : bool :=
  match a, b with
  | GradSensitivity, GradSensitivity | GradSensitivityIV, GradSensitivityIV | GradAdjoint, GradAdjoint
  | GradGradient, GradGradient | GradNone, GradNone | GradOther, GradOther => true
  | _, _ => false end.

(* what the harness observes of one run of the real fit with a recording stub in place of minimize *)
Inductive observed :=
| ObsRaised
| ObsCall (f : objective) (g : gradient) (x0 : list (option Z)) (bounds : list (list (option Z))) (m : method)
          (r : retval).

Definition retval_eqb (a b : retval) : bool :=
  match a, b with RetResX, RetResX | RetRes, RetRes | RetOther, RetOther => true | _, _ => false end.

Fixpoint leqb {X} (e : X -> X -> bool) (a b : list X) : bool :=
  match a, b with [], [] => true | x :: r, y :: s => e x y && leqb e r s | _, _ => false end.

Definition observed_eqb (a b : observed) : bool :=
  match a, b with
  | ObsRaised, ObsRaised => true
  | ObsCall f g x0 bs m r, ObsCall f' g' x0' bs' m' r' =>
      objective_eqb f f' && gradient_eqb g g' && leqb oz_eqb x0 x0' && leqb (leqb oz_eqb) bs bs'
      && method_eqb m m' && retval_eqb r r'
  | _, _ => false
  end.

(* the model's prediction of what the stubbed run shows (entries: Some z = the integer z, None = Python None) *)
Definition predict (pf : pack_facts) (cf : call_facts) (x : list (option Z)) (lb ub : option (list (option Z)))
           (full : bool) : observed :=
  match fit_call (Some 0%Z) None pf cf x lb ub false with
  | None => ObsRaised
  | Some c => ObsCall (c_fun c) (c_jac c) (c_x0 c) (table (c_bounds c)) (c_method c)
                      (if full then ret_full_first cf else ret_plain cf)
  end.

Definition chk (pf : pack_facts) (cf : call_facts)
           (c : list (option Z) * option (list (option Z)) * option (list (option Z)) * bool * observed) : bool :=
  let '(x, lb, ub, full, obs) := c in observed_eqb (predict pf cf x lb ub full) obs.
