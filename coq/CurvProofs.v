(* C20 — proofs about Curv.v: with the good code facts sens_to_jtj is the sum over observations of the outer products of the
   weighted sensitivity rows (hence symmetric and positive semi-definite), the selected jtj and the assembled Hessian are the
   chain-rule expressions of the square-loss cost in the documented layout, for all sizes and every commutative ring. *)
From Coq Require Import List Arith Bool Lia Ring ZArith.
From PV Require Import Shapes ShapesProofs Curv.
Import ListNotations.

(* ------------------------------------------------------------------ lists *)
Lemma nth_flat_map_block {X Y} (f : X -> Y -> nat) (l1 : list X) (l2 : list Y) (d1 : X) (d2 : Y) :
  forall a k, a < length l1 -> k < length l2 ->
    nth (a * length l2 + k) (flat_map (fun i => map (fun j => f i j) l2) l1) 0 = f (nth a l1 d1) (nth k l2 d2).
Proof.
  induction l1 as [|x r IH]; intros a k Ha Hk; simpl in *; [lia|].
  destruct a as [|a].
  - simpl. rewrite app_nth1 by (rewrite map_length; lia).
    rewrite (nth_indep _ 0 (f x d2)) by (rewrite map_length; lia). apply (map_nth (fun j => f x j)).
  - rewrite app_nth2 by (rewrite map_length; simpl; lia). rewrite map_length.
    replace (S a * length l2 + k - length l2) with (a * length l2 + k) by (simpl; lia).
    apply IH; lia.
Qed.
Lemma length_flat_map_block {X Y} (f : X -> Y -> nat) (l1 : list X) (l2 : list Y) :
  length (flat_map (fun i => map (fun j => f i j) l2) l1) = length l1 * length l2.
Proof. induction l1 as [|x r IH]; simpl; [reflexivity|]. rewrite app_length, map_length, IH. reflexivity. Qed.

Section CurvProofs.
  Variables (A : Type) (a0 a1 : A) (add mul sub : A -> A -> A) (opp : A -> A).
  Hypothesis Rth : ring_theory a0 a1 add mul sub opp (@eq A).
  Add Ring Aring3 : Rth.
  Notation vec := (vec A). Notation arr := (arr A).
  Notation sum := (Shapes.sum A a0 add).
  Notation sumn := (sumn A a0 add).
  Notation nmul := (nmul A a0 add).

  (* ---------------------------------------------------------------- sums *)
  Lemma sum_map_ext {X} (f g : X -> A) l : (forall x, In x l -> f x = g x) -> sum (map f l) = sum (map g l).
  Proof. intros H. f_equal. apply map_ext_in. exact H. Qed.
  Lemma sum_map_add {X} (f g : X -> A) l : sum (map (fun x => add (f x) (g x)) l) = add (sum (map f l)) (sum (map g l)).
  Proof. induction l as [|x r IH]; simpl; [ring|]. rewrite IH. ring. Qed.
  Lemma sum_map_mul_l {X} c (f : X -> A) l : sum (map (fun x => mul c (f x)) l) = mul c (sum (map f l)).
  Proof. induction l as [|x r IH]; simpl; [ring|]. rewrite IH. ring. Qed.
  Lemma sum_map_mul_r {X} c (f : X -> A) l : sum (map (fun x => mul (f x) c) l) = mul (sum (map f l)) c.
  Proof. induction l as [|x r IH]; simpl; [ring|]. rewrite IH. ring. Qed.
  Lemma sum_map_zero {X} (f : X -> A) l : (forall x, In x l -> f x = a0) -> sum (map f l) = a0.
  Proof. induction l as [|x r IH]; simpl; intros H; [reflexivity|]. rewrite (H x), IH by auto. ring. Qed.
  Lemma sum_map_swap {X Y} (f : X -> Y -> A) l1 l2 :
    sum (map (fun x => sum (map (fun y => f x y) l2)) l1) = sum (map (fun y => sum (map (fun x => f x y) l1)) l2).
  Proof.
    induction l1 as [|x r IH]; simpl.
    - symmetry. apply sum_map_zero. reflexivity.
    - rewrite IH, <- sum_map_add. reflexivity.
  Qed.
  Lemma sum_app l1 l2 : sum (l1 ++ l2) = add (sum l1) (sum l2).
  Proof. induction l1 as [|x r IH]; simpl; [ring|]. rewrite IH. ring. Qed.

  Lemma sumn_add n f g : sumn n (fun k => add (f k) (g k)) = add (sumn n f) (sumn n g).
  Proof. apply sum_map_add. Qed.
  Lemma sumn_mul_l n c f : sumn n (fun k => mul c (f k)) = mul c (sumn n f).
  Proof. apply sum_map_mul_l. Qed.
  Lemma sumn_mul_r n c f : sumn n (fun k => mul (f k) c) = mul (sumn n f) c.
  Proof. apply sum_map_mul_r. Qed.
  Lemma sumn_swap n m (f : nat -> nat -> A) : sumn n (fun i => sumn m (fun j => f i j)) = sumn m (fun j => sumn n (fun i => f i j)).
  Proof. apply sum_map_swap. Qed.
  Lemma sumn_zero n f : (forall k, k < n -> f k = a0) -> sumn n f = a0.
  Proof. intros H. apply sum_map_zero. intros k Hk. apply in_seq in Hk. apply H. lia. Qed.
  Lemma sumn_S n f : sumn (S n) f = add (sumn n f) (f n).
  Proof. unfold Shapes.sumn. rewrite seq_S, map_app, sum_app. simpl. ring. Qed.
  (* sum over k of [k = a] f(k) *)
  Lemma sumn_delta n a f : a < n -> sumn n (fun k => if k =? a then f k else a0) = f a.
  Proof.
    induction n as [|n IH]; intros Ha; [lia|]. rewrite sumn_S.
    destruct (Nat.eq_dec a n) as [->|Hn].
    - rewrite Nat.eqb_refl. rewrite sumn_zero; [ring|]. intros k Hk. destruct (Nat.eqb_spec k n); [lia|reflexivity].
    - rewrite IH by lia. destruct (Nat.eqb_spec n a); [lia|ring].
  Qed.
  Lemma sumn_shift_ext n f g : (forall k, k < n -> f k = g k) -> sumn n f = sumn n g.
  Proof. apply sumn_ext. Qed.
  (* a sum over the product index c = s*m + a *)
  Lemma map_seq_shift {Y} (h : nat -> Y) st m : map h (seq st m) = map (fun a => h (st + a)) (seq 0 m).
  Proof.
    induction m as [|m IH]; [reflexivity|]. rewrite !seq_S, !map_app, IH. reflexivity.
  Qed.
  Lemma sumn_prod n m h : sumn (n * m) h = sumn n (fun s => sumn m (fun a => h (s * m + a))).
  Proof.
    induction n as [|n IH]; [reflexivity|]. rewrite sumn_S, <- IH.
    unfold Shapes.sumn. replace (S n * m) with (n * m + m) by lia. rewrite seq_app, map_app, sum_app. f_equal.
    simpl. rewrite map_seq_shift. reflexivity.
  Qed.

  (* ---------------------------------------------------------------- accumulation loops *)
  Lemma fold_madd_get (M : nat -> arr) (l : list nat) (J0 : arr) a b :
    get (fold_left (fun J i => madd A add J (M i)) l J0) a b = add (get J0 a b) (sum (map (fun i => get (M i) a b) l)).
  Proof.
    revert J0. induction l as [|i r IH]; intros J0; simpl; [ring|]. rewrite IH. simpl. ring.
  Qed.
  Lemma fold_madd_shape (M : nat -> arr) (l : list nat) (J0 : arr) :
    nr (fold_left (fun J i => madd A add J (M i)) l J0) = nr J0 /\ nc (fold_left (fun J i => madd A add J (M i)) l J0) = nc J0.
  Proof. revert J0. induction l as [|i r IH]; intros J0; simpl; [auto|]. destruct (IH (madd A add J0 (M i))). auto. Qed.

  (* ---------------------------------------------------------------- sens_to_jtj *)
  Definition wrow (num_s : nat) (W sens : arr) (i j a : nat) : A := mul (get sens i (j + num_s * a)) (get W i j).

  Lemma jtj_entry num_s num_out (W sens : arr) : nc sens = num_s * num_out -> num_s <> 0 ->
    let M := sens_to_jtj A a0 add mul good_jfacts num_s W sens in
    nr M = num_out /\ nc M = num_out /\
    forall a b, get M a b = sumn (nr sens) (fun i => sumn num_s (fun j => mul (wrow num_s W sens i j a) (wrow num_s W sens i j b))).
  Proof.
    intros Hc Hs. cbv zeta. unfold sens_to_jtj. cbn [jtj_reshape_order jtj_weighted jtj_dot_tfirst good_jfacts].
    assert (Hd : nc sens / num_s = num_out) by (rewrite Hc, Nat.mul_comm; apply Nat.div_mul; exact Hs). rewrite Hd.
    split; [exact (proj1 (fold_madd_shape _ _ _))|]. split; [exact (proj2 (fold_madd_shape _ _ _))|]. intros a b.
    rewrite fold_madd_get. cbn [get zeros]. unfold Shapes.sumn at 1.
    match goal with |- add a0 ?x = ?y => transitivity x; [ring|] end.
    apply sum_map_ext. intros i Hi. apply in_seq in Hi. cbn [get dot transpose nc nr].
    apply sumn_ext. intros j Hj. unfold wrow, reshape3.
    assert (Hn : nr sens <> 0) by lia.
    assert (E : forall q, (i + nr sens * q) mod nr sens = i /\ (i + nr sens * q) / nr sens = q).
    { intros q. rewrite (Nat.mul_comm (nr sens) q). split; [apply mod_lin'|apply div_lin']; lia. }
    destruct (E (j + num_s * a)) as [-> ->]. destruct (E (j + num_s * b)) as [-> ->]. reflexivity.
  Qed.

  Lemma jtj_sym num_s num_out (W sens : arr) : nc sens = num_s * num_out -> num_s <> 0 ->
    forall a b, get (sens_to_jtj A a0 add mul good_jfacts num_s W sens) a b = get (sens_to_jtj A a0 add mul good_jfacts num_s W sens) b a.
  Proof.
    intros Hc Hs a b. destruct (jtj_entry num_s num_out W sens Hc Hs) as (_ & _ & H). rewrite !H.
    apply sumn_ext. intros i _. apply sumn_ext. intros j _. ring.
  Qed.

  (* v' (sum_k x_k x_k') v = sum_k (x_k . v)^2 *)
  Lemma quad_outer n (v : nat -> A) (x : nat -> A) :
    sumn n (fun a => sumn n (fun b => mul (mul (v a) (mul (x a) (x b))) (v b))) =
    mul (sumn n (fun a => mul (v a) (x a))) (sumn n (fun a => mul (v a) (x a))).
  Proof.
    rewrite <- sumn_mul_r. apply sumn_ext. intros a _. rewrite <- sumn_mul_l. apply sumn_ext. intros b _. ring.
  Qed.

  Lemma jtj_quad num_s num_out (W sens : arr) (v : nat -> A) : nc sens = num_s * num_out -> num_s <> 0 ->
    quad A a0 add mul num_out (sens_to_jtj A a0 add mul good_jfacts num_s W sens) v =
    sumn (nr sens) (fun i => sumn num_s (fun j =>
      let d := sumn num_out (fun a => mul (v a) (wrow num_s W sens i j a)) in mul d d)).
  Proof.
    intros Hc Hs. destruct (jtj_entry num_s num_out W sens Hc Hs) as (_ & _ & H). unfold quad. cbv zeta.
    transitivity (sumn num_out (fun a => sumn num_out (fun b => sumn (nr sens) (fun i => sumn num_s (fun j =>
                   mul (mul (v a) (mul (wrow num_s W sens i j a) (wrow num_s W sens i j b))) (v b)))))).
    { apply sumn_ext. intros a _. apply sumn_ext. intros b _. rewrite H.
      rewrite <- sumn_mul_l, <- sumn_mul_r. apply sumn_ext. intros i _.
      rewrite <- sumn_mul_l, <- sumn_mul_r. apply sumn_ext. intros j _. ring. }
    transitivity (sumn (nr sens) (fun i => sumn num_s (fun j => sumn num_out (fun a => sumn num_out (fun b =>
                   mul (mul (v a) (mul (wrow num_s W sens i j a) (wrow num_s W sens i j b))) (v b)))))).
    { transitivity (sumn num_out (fun a => sumn (nr sens) (fun i => sumn num_s (fun j => sumn num_out (fun b =>
                   mul (mul (v a) (mul (wrow num_s W sens i j a) (wrow num_s W sens i j b))) (v b)))))).
      - apply sumn_ext. intros a _. rewrite sumn_swap. apply sumn_ext. intros i _. apply sumn_swap.
      - rewrite sumn_swap. apply sumn_ext. intros i _. apply sumn_swap. }
    apply sumn_ext. intros i _. apply sumn_ext. intros j _. apply quad_outer.
  Qed.

  (* ---------------------------------------------------------------- the selected jtj *)
  Lemma jtj_sel_entry nS (sidx pidx : list nat) (W Z : arr) : sidx <> [] ->
    let M := jtj_sel A a0 add mul good_jfacts nS sidx pidx W Z in
    nr M = length pidx /\ nc M = length pidx /\
    forall a b, a < length pidx -> b < length pidx -> get M a b = jtj_spec A a0 add mul nS sidx pidx W Z a b.
  Proof.
    intros Hne. cbv zeta. unfold jtj_sel.
    set (idx := sens_index good_jfacts nS sidx pidx).
    assert (Hidx : idx = flat_map (fun i => map (fun j => j + (i + 1) * nS) sidx) pidx) by reflexivity.
    assert (Hlen : length idx = length sidx * length pidx).
    { rewrite Hidx, length_flat_map_block. apply Nat.mul_comm. }
    assert (Hs : length sidx <> 0) by (destruct sidx; [congruence|simpl; lia]).
    destruct (jtj_entry (length sidx) (length pidx) W (take_cols_l A idx Z)) as (H1 & H2 & H); [exact Hlen|exact Hs|].
    split; [exact H1|]. split; [exact H2|]. intros a b Ha Hb. rewrite H. unfold jtj_spec. cbn [nr take_cols_l take_cols].
    apply sumn_ext. intros i _. apply sumn_ext. intros k Hk.
    unfold wrow, S_of. cbn [get take_cols_l take_cols].
    assert (E : forall c, c < length pidx -> nth (k + length sidx * c) idx 0 = nS + nth c pidx 0 * nS + nth k sidx 0).
    { intros c Hc. rewrite Hidx. replace (k + length sidx * c) with (c * length sidx + k) by lia.
      rewrite (nth_flat_map_block (fun i j => j + (i + 1) * nS) pidx sidx 0 0) by assumption. lia. }
    rewrite !E by assumption. ring.
  Qed.

  (* ---------------------------------------------------------------- the residual-curvature vector E *)
  Lemma E_vec_as_sum (sidx : list nat) (v : nat -> A) s : NoDup sidx ->
    E_vec A a0 sidx v s = sumn (length sidx) (fun k => if nth k sidx 0 =? s then v k else a0).
  Proof.
    intros Hnd. unfold E_vec.
    assert (G : forall m acc, m <= length sidx ->
              fold_left (fun acc k => if nth k sidx 0 =? s then v k else acc) (seq 0 m) acc =
              if existsb (fun k => nth k sidx 0 =? s) (seq 0 m)
              then sumn m (fun k => if nth k sidx 0 =? s then v k else a0) else acc).
    { induction m as [|m IH]; intros acc Hm; [reflexivity|].
      rewrite seq_S, fold_left_app, existsb_app. cbn [fold_left existsb seq]. rewrite Nat.add_0_l, orb_false_r.
      rewrite IH by lia. rewrite sumn_S.
      destruct (Nat.eqb_spec (nth m sidx 0) s) as [E|E].
      - (* position m holds s: no earlier position does *)
        assert (Z0 : sumn m (fun k => if nth k sidx 0 =? s then v k else a0) = a0).
        { apply sumn_zero. intros k Hk. destruct (Nat.eqb_spec (nth k sidx 0) s) as [E'|]; [|reflexivity].
          exfalso. assert (k = m); [|lia]. apply (proj1 (NoDup_nth sidx 0) Hnd); lia. }
        rewrite Z0, orb_true_r. ring.
      - rewrite orb_false_r. destruct (existsb _ (seq 0 m)); [ring|reflexivity]. }
    rewrite (G (length sidx) a0) by lia.
    destruct (existsb _ _) eqn:Ex; [reflexivity|].
    symmetry. apply sumn_zero. intros k Hk. destruct (Nat.eqb_spec (nth k sidx 0) s) as [E|]; [|reflexivity].
    exfalso. assert (X : existsb (fun k => nth k sidx 0 =? s) (seq 0 (length sidx)) = true); [|congruence].
    apply existsb_exists. exists k. split; [apply in_seq; lia|apply Nat.eqb_eq; exact E].
  Qed.

  Lemma sum_E (sidx : list nat) (v g : nat -> A) nS : NoDup sidx -> (forall k, k < length sidx -> nth k sidx 0 < nS) ->
    sumn nS (fun s => mul (E_vec A a0 sidx v s) (g s)) = sumn (length sidx) (fun k => mul (v k) (g (nth k sidx 0))).
  Proof.
    intros Hnd Hr.
    transitivity (sumn nS (fun s => sumn (length sidx) (fun k => if s =? nth k sidx 0 then mul (v k) (g s) else a0))).
    { apply sumn_ext. intros s _. rewrite E_vec_as_sum by assumption. rewrite <- sumn_mul_r. apply sumn_ext. intros k _.
      rewrite (Nat.eqb_sym s). destruct (nth k sidx 0 =? s); ring. }
    rewrite sumn_swap. apply sumn_ext. intros k Hk.
    rewrite (sumn_delta nS (nth k sidx 0) (fun s => mul (v k) (g s))) by (apply Hr; exact Hk). reflexivity.
  Qed.

  (* ---------------------------------------------------------------- the Hessian assembly *)
  Definition sel_ok (nS nP : nat) (sidx pidx : list nat) : Prop :=
    sidx <> [] /\ NoDup sidx /\ (forall k, k < length sidx -> nth k sidx 0 < nS) /\ (forall a, a < length pidx -> nth a pidx 0 < nP).

  Lemma hessian_entry nS nP (sidx pidx : list nat) (W Y Z : arr) : sel_ok nS nP sidx pidx ->
    let M := hessian A a0 a1 add mul sub opp good_jfacts good_hfacts nS nP sidx pidx W Y Z in
    nr M = length pidx /\ nc M = length pidx /\
    forall a b, a < length pidx -> b < length pidx -> get M a b = hess_spec A a0 add mul sub nS nP sidx pidx W Y Z a b.
  Proof.
    intros (Hne & Hnd & Hs & Hp). cbv zeta. unfold hessian.
    cbn [h_ff_order h_resid_negated h_resid_weighted h_kron_E_first h_jtj_factor good_hfacts].
    destruct (jtj_sel_entry nS sidx pidx W Z Hne) as (J1 & J2 & HJ).
    set (M := resid_term A a0 a1 add mul sub opp good_hfacts nS nP sidx W Y Z).
    split; [reflexivity|]. split; [reflexivity|]. intros a b Ha Hb.
    cbn [get madd scale take_cols_l take_rows_l take_cols take_rows]. rewrite HJ by assumption.
    rewrite fold_madd_get. cbn [get zeros]. unfold hess_spec, jtj_spec.
    set (pa := nth a pidx 0). set (pb := nth b pidx 0).
    assert (Hpa : pa < nP) by (apply Hp; exact Ha). assert (Hpb : pb < nP) by (apply Hp; exact Hb).
    (* the accumulated residual-curvature term, observation by observation *)
    assert (HM : forall i, get (M i) pa pb = sumn (length sidx) (fun k =>
              mul (mul (diff_loss A a0 add mul sub opp good_hfacts W Y (fun i k => get Z i (nth k sidx 0)) i k) (get W i k))
                  (FF_of nS nP Z sidx pidx i k a b))).
    { intros i. subst M. unfold resid_term.
      cbn [h_ff_order h_resid_negated h_resid_weighted h_kron_E_first good_hfacts get dot kron eye nr nc reshape_vec vdrop row vget sgn].
      rewrite sumn_prod.
      transitivity (sumn nS (fun s => mul (E_vec A a0 sidx (fun k => mul (diff_loss A a0 add mul sub opp good_hfacts W Y
                       (fun i k => get Z i (nth k sidx 0)) i k) (get W i k)) s)
                       (get Z i (nS + nS * nP + ((s * nP + pa) * nP + pb))))).
      { apply sumn_ext. intros s Hs'.
        transitivity (sumn nP (fun a' => if a' =? pa then
              mul (E_vec A a0 sidx (fun k => mul (diff_loss A a0 add mul sub opp good_hfacts W Y
                       (fun i k => get Z i (nth k sidx 0)) i k) (get W i k)) s)
                  (get Z i (nS + nS * nP + ((s * nP + a') * nP + pb))) else a0)).
        - apply sumn_ext. intros a' Ha'. rewrite div_lin, mod_lin by assumption.
          rewrite (Nat.mod_small pa nP) by assumption. rewrite (Nat.eqb_sym pa a').
          destruct (a' =? pa); ring.
        - rewrite sumn_delta by assumption. reflexivity. }
      rewrite (sum_E sidx _ (fun s => get Z i (nS + nS * nP + ((s * nP + pa) * nP + pb))) nS) by assumption.
      apply sumn_ext. intros k _. unfold FF_of. f_equal. f_equal. subst pa pb. lia. }
    unfold Shapes.sumn at 1.
    transitivity (add (sumn (nr Z) (fun i => get (M i) pa pb))
                      (nmul 2 (sumn (nr Z) (fun i => sumn (length sidx) (fun k =>
                         mul (mul (get W i k) (S_of nS Z sidx pidx i k a)) (mul (get W i k) (S_of nS Z sidx pidx i k b))))))).
    { unfold Shapes.sumn. cbn [Curv.nmul]. ring. }
    cbn [Curv.nmul].
    match goal with |- add ?s1 (add ?s2 (add ?s3 a0)) = _ => transitivity (add (add s1 s2) s3); [ring|] end.
    rewrite <- !sumn_add. apply sumn_ext. intros i _. rewrite HM.
    rewrite <- !sumn_add. apply sumn_ext. intros k _.
    unfold diff_loss, residual, X_of. cbn [dl_negated dl_factor res_y_minus_yhat res_weighted good_hfacts sgn Curv.nmul]. ring.
  Qed.
End CurvProofs.

(* ------------------------------------------------------------------ positive semi-definiteness over an ordered ring *)
Section PSD.
  Variables (A : Type) (a0 a1 : A) (add mul sub : A -> A -> A) (opp : A -> A) (le : A -> A -> Prop).
  Hypothesis Rth : ring_theory a0 a1 add mul sub opp (@eq A).
  Hypothesis le_refl0 : le a0 a0.
  Hypothesis le_add : forall x y, le a0 x -> le a0 y -> le a0 (add x y).
  Hypothesis sq_nonneg : forall x, le a0 (mul x x).
  Notation sumn := (sumn A a0 add).

  Lemma sumn_nonneg n f : (forall k, k < n -> le a0 (f k)) -> le a0 (sumn n f).
  Proof.
    intros H. unfold Shapes.sumn. assert (G : forall l, (forall k, In k l -> le a0 (f k)) -> le a0 (Shapes.sum A a0 add (map f l))).
    { induction l as [|x r IH]; simpl; intros Hl; [exact le_refl0|]. apply le_add; auto. }
    apply G. intros k Hk. apply in_seq in Hk. apply H. lia.
  Qed.

  Lemma jtj_psd num_s num_out (W sens : arr A) (v : nat -> A) : nc sens = num_s * num_out -> num_s <> 0 ->
    le a0 (quad A a0 add mul num_out (sens_to_jtj A a0 add mul good_jfacts num_s W sens) v).
  Proof.
    intros Hc Hs. rewrite (jtj_quad A a0 a1 add mul sub opp Rth num_s num_out W sens v Hc Hs).
    apply sumn_nonneg. intros i _. apply sumn_nonneg. intros j _. apply sq_nonneg.
  Qed.
End PSD.

(* ------------------------------------------------------------------ concrete witnesses over Z *)
Module CurvWitness.
  Open Scope Z_scope.
  (* 2 states, 2 parameters, both states observed, 2 observation times; Z = x, S, FF columns *)
  Definition wW : arr Z := Build_arr 2 2 (fun i k => Z.of_nat (1 + i + 2 * k)).
  Definition wY : arr Z := Build_arr 2 2 (fun i k => Z.of_nat (i * k) - 1).
  Definition wZ : arr Z := Build_arr 2 14 (fun i c => Z.of_nat ((i + 2) * (c + 1) mod 7) - 2).
  Lemma w_sel : sel_ok 2 2 [0; 1]%nat [0; 1]%nat.
  Proof.
    split; [discriminate|]. split; [repeat constructor; simpl; intuition lia|].
    split; intros k Hk; simpl in Hk; destruct k as [|[|k]]; simpl; lia.
  Qed.
  (* the Hessian assembled with the facts of the tree up to 8870a14 (sign flipped, second weight factor missing) *)
  Definition H_pinned := hessian Z 0 1 Z.add Z.mul Z.sub Z.opp good_jfacts pinned_hfacts 2 2 [0; 1]%nat [0; 1]%nat wW wY wZ.
  Lemma hessian_sign_refuted : get H_pinned 0 0 <> hess_spec Z 0 Z.add Z.mul Z.sub 2 2 [0; 1]%nat [0; 1]%nat wW wY wZ 0 0.
  Proof. vm_compute. discriminate. Qed.
  (* the selection of the tree up to 8870a14 (np.sort) with the target parameters given in the order [1; 0] *)
  Definition J_pinned := jtj_sel Z 0 Z.add Z.mul pinned_jfacts 2 [0; 1]%nat [1; 0]%nat wW wZ.
  Lemma selection_refuted : get J_pinned 0 0 <> jtj_spec Z 0 Z.add Z.mul 2 [0; 1]%nat [1; 0]%nat wW wZ 0 0.
  Proof. vm_compute. discriminate. Qed.
  (* ... and with the observed states given in the order [1; 0] (the weights hit the wrong columns) *)
  Definition J_pinned_s := jtj_sel Z 0 Z.add Z.mul pinned_jfacts 2 [1; 0]%nat [0; 1]%nat wW wZ.
  Lemma selection_refuted_states : get J_pinned_s 0 0 <> jtj_spec Z 0 Z.add Z.mul 2 [1; 0]%nat [0; 1]%nat wW wZ 0 0.
  Proof. vm_compute. discriminate. Qed.
End CurvWitness.
