(* C06 — the model of LossAlign.v instantiated at Z for the correspondence case files written by harness/c06.py.
   All parameter / initial-value quantities are carried in HALF units (Coq value = 2 x the Python value) so that
   fractional initial values (k/2) stay integers and numpy's truncation into an integer array is `zcast`. *)
From Coq Require Import List Arith ZArith Bool.
From PV Require Import Util Shapes LossAlign.
Import ListNotations.
Local Open Scope Z_scope.

(* the stub installed in place of ode_utils.integrateFuncJac returns this integer "solution" *)
Fixpoint wsum (c : Z -> Z) (l : list Z) (j : Z) : Z :=
  match l with [] => 0 | x :: r => c j * x + wsum c r (j + 1) end.
Definition zsol (pv x0 : list Z) (t0 t : Z) (k : nat) : Z :=
  let kz := Z.of_nat k in
  3 * t * t + 11 * t0 + 7 * (kz + 1) + (kz + 1) * t
  + wsum (fun j => (j + 2) * (kz + 3)) pv 0 + wsum (fun l => (l + 5) * (kz + 1)) x0 0.
Definition zcast (z : Z) : Z := 2 * (Z.quot z 2).
Definition zkernel (y yh s w : Z) : Z := let r := w * (y - yh) in r * r.

Definition shape_of (l : list nat) : shape :=
  match l with [] => Sh0 | [k] => Sh1 k | [r; c] => Sh2 r c | _ => ShN end.
Definition shape_list (s : shape) : list nat :=
  match s with Sh0 => [] | Sh1 k => [k] | Sh2 r c => [r; c] | ShN => [0; 0; 0]%nat end.
Definition mk_nda (shp : list nat) (d : list Z) : nda Z := {| sh := shape_of shp; fl := fun k => nth k d 0 |}.
Definition nd_flat (x : nda Z) : list Z := map (fl x) (seq 0 (nd_size Z x)).
Definition err_code (e : err) : nat := match e with EAssert => 1 | EBcast => 2 | ENdim => 3 | EInput => 4 | EReshape => 5 end%nat.

(* ---- get_state_index(names) on a model declaring states 0 .. nS-1 *)
Definition chk_index (sorted : bool) (c : nat * list nat * bool * list nat) : bool :=
  let '(nS, names, ok, idx) := c in
  match state_index sorted (seq 0 nS) names with
  | Some l => ok && natlist_eqb l idx
  | None => negb ok
  end.

(* ---- _setWeight_or_spread(n, p, x) : (n, p, shape, data, code, out shape, out data) *)
Record bcase := BC { bc_n : nat; bc_p : nat; bc_shp : list nat; bc_data : list Z;
                     bc_code : nat; bc_oshp : list nat; bc_odata : list Z }.
Definition chk_bcast (rs : bool) (t : dtree) (c : bcase) : bool :=
  match set_wos Z rs t (bc_n c) (bc_p c) (mk_nda (bc_shp c) (bc_data c)) with
  | Ok x => (bc_code c =? 0)%nat && natlist_eqb (shape_list (sh x)) (bc_oshp c) && zlist_eqb (nd_flat x) (bc_odata c)
  | Err e => (bc_code c =? err_code e)%nat
  end.

(* ---- a loss object and a sequence of calls *)
Record lcase := LC {
  k_nS : nat; k_nP : nat; k_names : list nat;
  k_tp : option (list nat); k_ts : option (list nat);
  k_t0 : Z; k_tobs : list Z;
  k_yshp : list nat; k_y : list Z; k_wshp : list nat; k_w : list Z; k_sshp : list nat; k_s : list Z;
  k_pv0 : list Z; k_theta : list Z; k_x0 : list Z; k_x0int : bool;
  k_ops : list (nat * bool * list Z * bool);          (* kind 0 cost / 1 residual / 2 costIV, theta given, theta, int dtype *)
  k_built : bool; k_ew : list Z; k_es : list Z;       (* constructor succeeded; weights / spread held by the loss object *)
  k_out : list (nat * list Z)                         (* 0 value [c] / 1 residuals / 2 raised / 3 some value *)
}.

Definition to_op (o : nat * bool * list Z * bool) : op Z :=
  let '(kind, given, theta, isint) := o in
  match kind with
  | 0%nat => OpCost (if given then Some theta else None)
  | 1%nat => OpResidual (if given then Some theta else None)
  | _ => OpCostIV (if given then Some (theta, isint) else None)
  end.
Definition out_eqb (a : outcome Z) (b : nat * list Z) : bool :=
  match a with
  | Val c => ((fst b =? 0)%nat && zlist_eqb [c] (snd b)) || (fst b =? 3)%nat   (* 3: a value, not compared *)
  | Resid l => (fst b =? 1)%nat && zlist_eqb l (snd b)
  | Fail => (fst b =? 2)%nat
  end.

Definition config_of (f : facts) (rs : bool) (wt : dtree) (it : ivtree) (c : lcase) : config Z :=
  {| c_facts := f; c_reshape := rs; c_wtree := wt; c_ivtree := it;
     c_decls := seq 0 (k_nS c); c_declp := seq 0 (k_nP c); c_names := k_names c;
     c_tp := k_tp c; c_ts := k_ts c; c_t0 := k_t0 c; c_ts_obs := k_tobs c;
     c_y := mk_nda (k_yshp c) (k_y c); c_w := mk_nda (k_wshp c) (k_w c); c_s := mk_nda (k_sshp c) (k_s c) |}.

(* 0 agree; 1 constructor outcome; 2 weights held; 3 spread held; 4 outcomes of the calls *)
Definition chk_loss (f : facts) (rs : bool) (wt : dtree) (it : ivtree) (c : lcase) : nat :=
  let cf := config_of f rs wt it c in
  match build Z cf with
  | Err _ => if k_built c then 1 else 0
  | Ok b =>
      match set_param Z (k_tp c) (k_theta c) with
      | Err _ => if k_built c then 1 else 0
      | Ok _ =>
          if negb (k_built c) then 1
          else if negb (zlist_eqb (nd_flat (b_w Z b)) (k_ew c)) then 2
          else if negb (zlist_eqb (nd_flat (b_s Z b)) (k_es c)) then 3
          else match run_loss Z 0%Z Z.add Z.mul Z.sub zsol zkernel zcast cf (k_pv0 c) (k_theta c) (k_x0 c) (k_x0int c)
                              (map to_op (k_ops c)) with
               | Some outs => if list_eqb2 out_eqb outs (k_out c) then 0 else 4
               | None => 1
               end
      end
  end%nat.

Fixpoint failing_codes_from (f : lcase -> nat) (l : list lcase) (i : nat) : list nat :=
  match l with
  | [] => []
  | c :: r => match f c with
              | 0%nat => failing_codes_from f r (S i)
              | k => (i * 10 + k)%nat :: failing_codes_from f r (S i)
              end
  end.
Definition failing_codes (f : lcase -> nat) (l : list lcase) : list nat := failing_codes_from f l 0.
