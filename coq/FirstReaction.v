(* C05 — executable model of ONE first-reaction step (stochastic_simulation.firstReaction with
   _newJumpTimes, utilR.distn.rexp and the time update of _checkJump), over exact rationals Qc.
   The step is parameterised by a configuration `cfg` whose fields are the facts the translator
   gen/gen_clock.py extracts from the current source (Gen/ClockGen.v); `canon` is the construction
   the theorems of ExpClockProofs.v are about: clock_i = e_i * (1/r_i) for r_i > 0 (else +oo),
   earliest clock wins (first index on ties), time advances by that clock.
   Only small, total, computable definitions here (proofs: FirstReactionProofs.v). *)
From Coq Require Import List Arith ZArith QArith Qcanon Bool.
Import ListNotations.
Local Open Scope nat_scope.

(* ---- boolean comparisons on Qc *)
Definition Qcltb (a b : Qc) : bool := match (a ?= b)%Qc with Lt => true | _ => false end.
Definition Qcleb (a b : Qc) : bool := match (a ?= b)%Qc with Gt => false | _ => true end.
Definition Qceqb (a b : Qc) : bool := match (a ?= b)%Qc with Eq => true | _ => false end.
Definition Qcabs (a : Qc) : Qc := if Qcltb a 0%Qc then (- a)%Qc else a.

(* ---- clocks: None is numpy's +inf *)
Definition oclock := option Qc.
Definition oltb (a b : oclock) : bool :=
  match a, b with
  | Some x, Some y => Qcltb x y
  | Some _, None => true
  | None, _ => false
  end.
Definition ogtb (a b : oclock) : bool := oltb b a.

Inductive selk := SelArgmin | SelArgmax.          (* np.argmin / np.argmax of the jump times *)
Inductive dtk := DtAtSel | DtMin | DtMax.         (* jump_times[index] / np.min(..) / np.max(..) *)
Inductive tupk := TPlusDt | TMinusDt | TDtOnly.   (* t + dt / t - dt / dt *)

Record cfg := {
  guard : Qc -> bool;        (* which rates get a clock (else +inf) in _newJumpTimes *)
  rate_arg : Qc -> Qc;       (* what _newJumpTimes passes as `rate` to rexp, as a function of the rate r *)
  scale : Qc -> Qc;          (* the `scale=` expression of rexp as a function of its `rate` argument *)
  sel : selk;
  dtp : dtk;
  tup : tupk }.

Definition canon : cfg :=
  {| guard := fun r => Qcltb 0%Qc r; rate_arg := fun r => r; scale := fun r => (1 / r)%Qc;
     sel := SelArgmin; dtp := DtAtSel; tup := TPlusDt |}.

(* numpy legacy exponential(scale) = standard_exponential() * scale; one draw per guarded rate, in order *)
Fixpoint clocks (c : cfg) (rates draws : list Qc) : list oclock :=
  match rates with
  | [] => []
  | r :: rs =>
      if guard c r then
        match draws with
        | e :: ds => Some (e * scale c (rate_arg c r))%Qc :: clocks c rs ds
        | [] => None :: clocks c rs []
        end
      else None :: clocks c rs draws
  end.
Definition draws_used (c : cfg) (rates : list Qc) : nat := length (filter (guard c) rates).

(* first index of the best element (numpy argmin/argmax return the first occurrence) *)
Fixpoint argbest (better : oclock -> oclock -> bool) (l : list oclock) (i : nat) (best : nat * oclock)
  : nat * oclock :=
  match l with
  | [] => best
  | c :: r => if better c (snd best) then argbest better r (S i) (i, c) else argbest better r (S i) best
  end.
Definition argfirst (better : oclock -> oclock -> bool) (l : list oclock) : option (nat * oclock) :=
  match l with [] => None | c :: r => Some (argbest better r 1 (0, c)) end.
Definition argmin := argfirst oltb.
Definition argmax := argfirst ogtb.

Definition select (k : selk) (l : list oclock) :=
  match k with SelArgmin => argmin l | SelArgmax => argmax l end.

Definition tupdate (k : tupk) (t d : Qc) : Qc :=
  match k with TPlusDt => (t + d)%Qc | TMinusDt => (t - d)%Qc | TDtOnly => d end.

(* one step: (index of the event that fires, time increment, new time); None = no finite clock *)
Definition step (c : cfg) (t : Qc) (rates draws : list Qc) : option (nat * Qc * Qc) :=
  let cl := clocks c rates draws in
  match select (sel c) cl with
  | None => None
  | Some (i, ci) =>
      let d := match dtp c with
               | DtAtSel => ci
               | DtMin => match argmin cl with Some (_, x) => x | None => None end
               | DtMax => match argmax cl with Some (_, x) => x | None => None end
               end in
      match d with Some dt => Some (i, dt, tupdate (tup c) t dt) | None => None end
  end.

(* ---- helpers for the correspondence case files *)
(* a float as the exact dyadic m * 2^e *)
Definition dy (m e : Z) : Qc :=
  if (0 <=? e)%Z then Q2Qc (inject_Z (m * 2 ^ e))
  else Q2Qc (Qmake m (Z.to_pos (2 ^ (- e)))).

(* |a - b| <= tol * |a| *)
Definition close_rel (tol a b : Qc) : bool := Qcleb (Qcabs (a - b)) (tol * Qcabs a).
(* |a - b| <= tol * (|x| + |y|) *)
Definition close_sum (tol a b x y : Qc) : bool := Qcleb (Qcabs (a - b)) (tol * (Qcabs x + Qcabs y)).

(* another finite clock within relative gap `gap` of the winning one, but not equal to it: the float
   computation of pygom (e * (1.0/r), two roundings) may order such a pair differently from the exact
   rationals.  Exact ties are kept: they test the first-index rule (the harness produces them only from
   powers of two, where the float computation is exact too) *)
Fixpoint near_tie_from (gap d : Qc) (i : nat) (l : list oclock) (j : nat) : bool :=
  match l with
  | [] => false
  | c :: r =>
      (negb (Nat.eqb i j) &&
       match c with
       | Some x => negb (Qceqb x d) && Qcltb (Qcabs (x - d)) (gap * Qcabs d)
       | None => false
       end)
      || near_tie_from gap d i r (S j)
  end.

Record kcase := {
  k_t : Qc; k_rates : list Qc; k_draws : list Qc;
  k_idx : nat; k_dt : Qc; k_tnew : Qc }.

Definition tol_dt : Qc := Q2Qc (1 # 1000000000000).     (* 1e-12 *)
Definition tol_gap : Qc := Q2Qc (1 # 1000000000).       (* 1e-9 *)

(* 0 = model and implementation agree; 1 = they differ; 2 = near-tie, excluded *)
Definition chk (c : cfg) (k : kcase) : nat :=
  match step c (k_t k) (k_rates k) (k_draws k) with
  | None => 1
  | Some (i, dt, tn) =>
      if near_tie_from tol_gap dt i (clocks c (k_rates k) (k_draws k)) 0 then 2
      else if Nat.eqb i (k_idx k) && close_rel tol_dt dt (k_dt k)
              && close_sum tol_dt tn (k_tnew k) (k_t k) dt then 0 else 1
  end%nat.

Fixpoint where_code (c : cfg) (code : nat) (l : list kcase) (i : nat) : list nat :=
  match l with
  | [] => []
  | k :: r => if Nat.eqb (chk c k) code then i :: where_code c code r (S i) else where_code c code r (S i)
  end.
