(* C07 — the analytic half: over R (Coquelicot), the vector computed by the model of sensitivity(theta) is the
   derivative of cost, given the contracts of the external engines (integrator / variational system: C02, C13;
   loss kernels: C14) as Section hypotheses. *)
From Coq Require Import List Arith Reals Lia ZArith Lra.
Set Warnings "-ambiguous-paths".
From Coquelicot Require Import Coquelicot.
From PV Require Import Shapes ShapesProofs Grad GradProofs.
Import ListNotations.
Open Scope R_scope.

Notation sumR := (sumn R 0 Rplus).

Lemma is_derive_sum_list (l : list nat) (f : nat -> R -> R) (d : nat -> R) (x : R) :
  (forall k, In k l -> is_derive (f k) x (d k)) ->
  is_derive (fun v => sum R 0 Rplus (map (fun k => f k v) l)) x (sum R 0 Rplus (map d l)).
Proof.
  induction l as [|a r IH]; intros H; simpl.
  - apply (@is_derive_const R_AbsRing R_NormedModule).
  - apply (@is_derive_plus R_AbsRing R_NormedModule (f a) (fun v => sum R 0 Rplus (map (fun k => f k v) r))).
    + apply H; simpl; auto.
    + apply IH. intros; apply H; simpl; auto.
Qed.

Lemma is_derive_sumn n (f : nat -> R -> R) (d : nat -> R) (x : R) :
  (forall k, (k < n)%nat -> is_derive (f k) x (d k)) ->
  is_derive (fun v => sumR n (fun k => f k v)) x (sumR n d).
Proof.
  intros H. unfold sumn. apply is_derive_sum_list. intros k Hk. apply in_seq in Hk. apply H. lia.
Qed.

(* cost(v) = sum_r sum_s L_rs(yhat_rs(v)), yhat_rs(v) = sol(v)[r][st[s]];  if weight * kernel is the derivative of the
   per-observation cost and D r i the derivative of the state column i at v0, the chain-rule sum is the derivative *)
Section ChainIsDerivative.
  Variables (st : list nat) (n : nat) (w : arr R) (L dLc : nat -> nat -> R -> R) (sol : R -> arr R) (v0 : R).
  Variable D : nat -> nat -> R.
  Hypothesis Hrows : nr (sol v0) = n.
  Hypothesis HL : forall r s yh, (r < n)%nat -> (s < length st)%nat ->
    is_derive (L r s) yh (get w r s * dLc r s yh).
  Hypothesis Hsens : forall r s, (r < n)%nat -> (s < length st)%nat ->
    is_derive (fun v => get (sol v) r (nth s st 0%nat)) v0 (D r (nth s st 0%nat)).

  Definition cost (v : R) : R :=
    sumR n (fun r => sumR (length st) (fun s => L r s (get (sol v) r (nth s st 0%nat)))).

  Lemma chain_is_derivative :
    is_derive cost v0 (chain R 0 Rplus Rmult st w (dloss R dLc st (sol v0)) (nr (sol v0)) D).
  Proof.
    unfold chain, cost. rewrite Hrows.
    apply is_derive_sumn. intros r Hr. apply is_derive_sumn. intros s Hs.
    unfold dloss; cbn [get].
    evar_last.
    - apply (is_derive_comp (L r s) (fun v => get (sol v) r (nth s st 0%nat))).
      + apply HL; auto.
      + apply Hsens; auto.
    - unfold scal; simpl; unfold mult; simpl. ring.
  Qed.
End ChainIsDerivative.

Section CostDerivative.
  (* the model instance *)
  Variables (fc : gfacts) (pexpr sexpr : Z -> Z -> Z -> Z -> Z) (nS nP : nat).
  Hypothesis Hord : g_order fc = OrdF.
  Hypothesis Hp : forall a b c d, pexpr a b c d = psi_spec a b c d.
  Hypothesis Hs : forall a b c d, sexpr a b c d = ssi_spec a b c d.
  Variables (st : list nat) (tp ts : option (list nat)).
  Hypothesis Hne : st <> [].
  Hypothesis Hc : psi_cond fc nS st (target_param_index nP tp).

  Variable n : nat.                          (* number of observation times *)
  Variable w : arr R.                        (* weights, n x |st| *)
  Variables L dLc : nat -> nat -> R -> R.    (* per-observation cost and the kernel diff_loss evaluates *)
  Variable sol : R -> arr R.                 (* integrator output as a function of ONE free variable, the others fixed *)
  Variable v0 : R.
  Hypothesis Hrows : nr (sol v0) = n.
  (* contract of the loss kernels (C14 for unit weights; C07_weight_square / C07_weight_normal for weighted costs):
     weight * diff_loss is the derivative of the per-observation cost with respect to the prediction *)
  Hypothesis HL : forall r s yh, (r < n)%nat -> (s < length st)%nat ->
    is_derive (L r s) yh (get w r s * dLc r s yh).

  (* sensitivity(theta) / gradient(theta): the free variable is the k-th supplied target parameter.
     Contract of the integrator and the variational system (C02, C13): the sensitivity columns are the derivatives
     of the state columns with respect to that parameter *)
  Theorem cost_derivative k : (k < length (target_param_index nP tp))%nat ->
    (forall r s, (r < n)%nat -> (s < length st)%nat ->
       is_derive (fun v => get (sol v) r (nth s st 0%nat)) v0
                 (dx_dtheta nS (sol v0) r (nth s st 0%nat) (nth k (target_param_index nP tp) 0%nat))) ->
    is_derive (cost st n L sol) v0 (vget (sensitivity R 0 Rplus Rmult fc pexpr nS nP st tp w dLc (sol v0)) k).
  Proof.
    intros Hk Hsens.
    destruct (sensitivity_chain R 0 1 Rplus Rmult Rminus Ropp RTheory fc pexpr nS nP Hord Hp st tp w dLc (sol v0) Hne Hc)
      as [_ He].
    rewrite (He k Hk).
    apply (chain_is_derivative st n w L dLc sol v0
             (fun r i => dx_dtheta nS (sol v0) r i (nth k (target_param_index nP tp) 0%nat))); auto.
  Qed.

  (* sensitivityIV(theta_and_x0): entries [0, |tp|) are the free parameters, entries |tp| + k the free initial values *)
  Hypothesis Hw : (tsi_wrapped fc && is_some ts)%bool = false.
  Hypothesis Hc2 : ssi_cond fc nS st (target_state_index nS ts).

  Theorem costIV_derivative :
    exists g, sensitivityIV R 0 Rplus Rmult fc pexpr sexpr nS nP st tp ts w dLc (sol v0) = Some g /\
      vlen g = (length (target_param_index nP tp) + length (target_state_index nS ts))%nat /\
      (forall k, (k < length (target_param_index nP tp))%nat ->
         (forall r s, (r < n)%nat -> (s < length st)%nat ->
            is_derive (fun v => get (sol v) r (nth s st 0%nat)) v0
                      (dx_dtheta nS (sol v0) r (nth s st 0%nat) (nth k (target_param_index nP tp) 0%nat))) ->
         is_derive (cost st n L sol) v0 (vget g k)) /\
      (forall k, (k < length (target_state_index nS ts))%nat ->
         (forall r s, (r < n)%nat -> (s < length st)%nat ->
            is_derive (fun v => get (sol v) r (nth s st 0%nat)) v0
                      (dx_dx0 nS nP (sol v0) r (nth s st 0%nat) (nth k (target_state_index nS ts) 0%nat))) ->
         is_derive (cost st n L sol) v0 (vget g (length (target_param_index nP tp) + k))).
  Proof.
    destruct (sensitivityIV_chain R 0 1 Rplus Rmult Rminus Ropp RTheory fc pexpr sexpr nS nP Hord Hp Hs st tp ts w dLc (sol v0)
                Hne Hw Hc Hc2) as [g [Hg [Hl [He1 He2]]]].
    exists g. split; auto. split; auto. split.
    - intros k Hk Hsens. rewrite (He1 k Hk).
      apply (chain_is_derivative st n w L dLc sol v0
               (fun r i => dx_dtheta nS (sol v0) r i (nth k (target_param_index nP tp) 0%nat))); auto.
    - intros k Hk Hsens. rewrite (He2 k Hk).
      apply (chain_is_derivative st n w L dLc sol v0
               (fun r i => dx_dx0 nS nP (sol v0) r i (nth k (target_state_index nS ts) 0%nat))); auto.
  Qed.
End CostDerivative.

(* the hypotheses of cost_derivative are met by a concrete non-trivial instance: one state x(t1; theta) = theta^2 with
   sensitivity 2*theta, square loss with weight 2 and observation 3; at theta = 1 the derivative of cost is -32 *)
Module Instance.
  Definition w : arr R := Build_arr 1 1 (fun _ _ => 2).
  Definition L (r s : nat) (yh : R) : R := (((3 - yh) * 2) ^ 2).
  Definition dLc (r s : nat) (yh : R) : R := (- (2)) * ((3 - yh) * 2).
  Definition sol (v : R) : arr R := Build_arr 1 2 (fun _ c => if (c =? 0)%nat then v * v else 2 * v).
  Lemma HL : forall (r s : nat) yh, (r < 1)%nat -> (s < length [0%nat])%nat -> is_derive (L r s) yh (get w r s * dLc r s yh).
  Proof. intros. unfold L, dLc, w; simpl. auto_derive; auto. ring. Qed.
  Lemma Hsens : forall r s : nat, (r < 1)%nat -> (s < length [0%nat])%nat ->
    is_derive (fun v => get (sol v) r (nth s [0%nat] 0%nat)) 1
              (dx_dtheta 1 (sol 1) r (nth s [0%nat] 0%nat) (nth 0 (target_param_index 1 None) 0%nat)).
  Proof.
    intros r s Hr Hs. simpl in Hs. assert (s = 0%nat) by lia. subst. unfold dx_dtheta, sol; simpl.
    auto_derive; auto. ring.
  Qed.
  Lemma derivative_is_minus_32 : is_derive (cost [0%nat] 1 L sol) 1 (-32).
  Proof.
    evar_last.
    - apply (cost_derivative good_facts psi_spec 1 1 eq_refl (fun _ _ _ _ => eq_refl) [0%nat] None ltac:(discriminate)
               (psi_cond_of_order good_facts 1 [0%nat] (target_param_index 1 None) eq_refl) 1%nat w L dLc sol 1 eq_refl HL
               0%nat ltac:(simpl; lia) Hsens).
    - vm_compute. lra.
  Qed.
End Instance.
