(* C19 — R-style distribution helpers (pygom.utilR.distn): syntactic model of what each wrapper calls.
   Only small, total, computable definitions here (no Reals): the dispatch table language, its
   normalisation (positional -> keyword, defaults dropped), the EXPECTED table (R's parameterisation)
   and the boolean checks.  The real-valued semantics and the proofs live in DistnProofs.v.
   The table itself (Gen.DistnGen) is regenerated from src/pygom/utilR/distn.py on every run. *)
From Coq Require Import String List ZArith Bool.
Import ListNotations.
Open Scope string_scope.
Infix "+++" := app (right associativity, at level 60).

(* ------------------------------------------------------------------ the language of extracted facts *)
Inductive fam := Expon | Gamma | Norm | Chi2 | Uniform | Beta | Poisson | Binom | NBinom.
Inductive meth := Pdf | LogPdf | Cdf | LogCdf | Sf | LogSf | Ppf | Isf | Pmf | LogPmf | Rvs.

(* expressions over the wrapper's own arguments (the first parameter is always called "x",
   for generators "n"; every other parameter keeps its source name) *)
Inductive expr :=
  | Arg (s : string) | Cst (n : Z) (d : positive)
  | EAdd (a b : expr) | ESub (a b : expr) | EMul (a b : expr) | EDiv (a b : expr) | ENeg (a : expr)
  | ELn (a : expr) | EExp (a : expr) | ELGamma (a : expr).

Inductive slot := Pos (i : nat) | Kw (s : string).
Definition args := list (slot * expr).

Inductive impl :=
  | Stub                                   (* body falls off the end / pass / return None *)
  | Raises                                 (* raise ... *)
  | Scipy (f : fam) (m : meth) (a : args)  (* return st.<f>.<m>(...) *)
  | Inline (e : expr).                     (* a pure local kernel (nb2pmf) inlined as one expression *)

(* prob / mu alternatives of the negative binomial *)
Inductive mode := NoMode | ByProb | ByMu | Neither | Both.
Definition flags := list (string * bool).
Definition key := (string * flags * mode)%type.

(* generators *)
Inductive seedkind := SNone | SInt | SInt0 | SRS | STrue | SFalse.
Inductive source := Global | FromSeed | Passed | FreshUnseeded | GlobalCopy.
Inductive sampler := NpExponential | NpGamma | NpNormal | NpChisquare | NpUniform | NpPoisson
                   | NpBinomial | NpNegBinomial | NpBeta.
Inductive rcall := NpCall (s : sampler) (a : args) | SpRvs (f : fam) (a : args).
Inductive nbranch := Many | One.           (* n > 1 / otherwise *)
Inductive rimpl := RStub | RRaises | RDraw (src : source) (c : rcall) (first : bool).
Definition rkey := (string * seedkind * nbranch * mode)%type.

(* ------------------------------------------------------------------ boolean equalities *)
Definition fam_eqb (a b : fam) : bool :=
  match a, b with
  | Expon, Expon | Gamma, Gamma | Norm, Norm | Chi2, Chi2 | Uniform, Uniform | Beta, Beta
  | Poisson, Poisson | Binom, Binom | NBinom, NBinom => true
  | _, _ => false
  end.
Definition meth_eqb (a b : meth) : bool :=
  match a, b with
  | Pdf, Pdf | LogPdf, LogPdf | Cdf, Cdf | LogCdf, LogCdf | Sf, Sf | LogSf, LogSf | Ppf, Ppf | Isf, Isf
  | Pmf, Pmf | LogPmf, LogPmf | Rvs, Rvs => true
  | _, _ => false
  end.
Definition mode_eqb (a b : mode) : bool :=
  match a, b with
  | NoMode, NoMode | ByProb, ByProb | ByMu, ByMu | Neither, Neither | Both, Both => true
  | _, _ => false
  end.
Definition seedkind_eqb (a b : seedkind) : bool :=
  match a, b with
  | SNone, SNone | SInt, SInt | SInt0, SInt0 | SRS, SRS | STrue, STrue | SFalse, SFalse => true
  | _, _ => false
  end.
Definition source_eqb (a b : source) : bool :=
  match a, b with
  | Global, Global | FromSeed, FromSeed | Passed, Passed | FreshUnseeded, FreshUnseeded
  | GlobalCopy, GlobalCopy => true
  | _, _ => false
  end.
Definition sampler_eqb (a b : sampler) : bool :=
  match a, b with
  | NpExponential, NpExponential | NpGamma, NpGamma | NpNormal, NpNormal | NpChisquare, NpChisquare
  | NpUniform, NpUniform | NpPoisson, NpPoisson | NpBinomial, NpBinomial | NpNegBinomial, NpNegBinomial
  | NpBeta, NpBeta => true
  | _, _ => false
  end.
Definition nbranch_eqb (a b : nbranch) : bool :=
  match a, b with Many, Many | One, One => true | _, _ => false end.

Fixpoint expr_eqb (a b : expr) : bool :=
  match a, b with
  | Arg s, Arg t => String.eqb s t
  | Cst n d, Cst m e => Z.eqb n m && Pos.eqb d e
  | EAdd a1 a2, EAdd b1 b2 | ESub a1 a2, ESub b1 b2 | EMul a1 a2, EMul b1 b2 | EDiv a1 a2, EDiv b1 b2 =>
      expr_eqb a1 b1 && expr_eqb a2 b2
  | ENeg a1, ENeg b1 | ELn a1, ELn b1 | EExp a1, EExp b1 | ELGamma a1, ELGamma b1 => expr_eqb a1 b1
  | _, _ => false
  end.
Definition oexpr_eqb (a b : option expr) : bool :=
  match a, b with Some x, Some y => expr_eqb x y | None, None => true | _, _ => false end.

(* ------------------------------------------------------------------ normalisation of a scipy call *)
Definition shapes (f : fam) : list string :=
  match f with
  | Expon | Norm | Uniform => []
  | Gamma => ["a"] | Chi2 => ["df"] | Beta => ["a"; "b"]
  | Poisson => ["mu"] | Binom | NBinom => ["n"; "p"]
  end.
(* positional order of scipy.stats methods: x, shapes, loc, scale (rvs: shapes, loc, scale, size, random_state) *)
Definition pos_names (f : fam) (m : meth) : list string :=
  match m with
  | Rvs => shapes f +++ ["loc"; "scale"; "size"; "random_state"]
  | _ => "x" :: shapes f +++ ["loc"; "scale"]
  end.
(* numpy RandomState samplers *)
Definition np_names (s : sampler) : list string :=
  match s with
  | NpExponential => ["scale"; "size"]
  | NpGamma => ["shape"; "scale"; "size"]
  | NpNormal => ["loc"; "scale"; "size"]
  | NpChisquare => ["df"; "size"]
  | NpUniform => ["low"; "high"; "size"]
  | NpPoisson => ["lam"; "size"]
  | NpBinomial | NpNegBinomial => ["n"; "p"; "size"]
  | NpBeta => ["a"; "b"; "size"]
  end.

Definition kwargs := list (string * expr).
Definition is_default (k : string) (e : expr) : bool :=
  (String.eqb k "loc" && expr_eqb e (Cst 0 1)) || (String.eqb k "scale" && expr_eqb e (Cst 1 1)).
Definition norm_with (names : list string) (drop : bool) (a : args) : kwargs :=
  filter (fun ke => negb (drop && is_default (fst ke) (snd ke)))
         (map (fun se => (match fst se with Pos i => nth i names "?" | Kw k => k end, snd se)) a).
Definition norm_args (f : fam) (m : meth) (a : args) : kwargs := norm_with (pos_names f m) true a.
Definition norm_np (s : sampler) (a : args) : kwargs := norm_with (np_names s) false a.

Fixpoint get (k : string) (l : kwargs) : option expr :=
  match l with [] => None | (k', e) :: r => if String.eqb k k' then Some e else get k r end.
Definition mem (k : string) (l : list string) : bool := existsb (String.eqb k) l.
Fixpoint nodup_keys (l : kwargs) : bool :=
  match l with [] => true | (k, _) :: r => negb (mem k (map fst r)) && nodup_keys r end.

(* a and b denote the same keyword call: only known keywords, none twice, same expression per keyword *)
Definition kwargs_ok (names : list string) (a b : kwargs) : bool :=
  forallb (fun ke => mem (fst ke) names) a && nodup_keys a &&
  forallb (fun k => oexpr_eqb (get k a) (get k b)) names.

Definition impl_eqb (j i : impl) : bool :=
  match j, i with
  | Stub, Stub | Raises, Raises => true
  | Scipy f m a, Scipy g n b =>
      fam_eqb f g && meth_eqb m n && kwargs_ok (pos_names f m) (norm_args f m a) (norm_args g n b)
  | Inline e, Inline e' => expr_eqb e e'
  | _, _ => false
  end.

Definition rcall_eqb (c d : rcall) : bool :=
  match c, d with
  | NpCall s a, NpCall t b => sampler_eqb s t && kwargs_ok (np_names s) (norm_np s a) (norm_np t b)
  | SpRvs f a, SpRvs g b => fam_eqb f g && kwargs_ok (pos_names f Rvs) (norm_args f Rvs a) (norm_args g Rvs b)
  | _, _ => false
  end.

(* ------------------------------------------------------------------ keys and lookup *)
Definition flag_default (n : string) : bool := String.eqb n "lower_tail".   (* log=False, lower_tail=True *)
Fixpoint getb (n : string) (l : flags) : option bool :=
  match l with [] => None | (n', b) :: r => if String.eqb n n' then Some b else getb n r end.
(* generated flags g agree with the expected flags e; a flag the wrapper does not have counts as its default *)
Definition flags_match (g e : flags) : bool :=
  forallb (fun nb => match getb (fst nb) g with Some b' => Bool.eqb (snd nb) b'
                                             | None => Bool.eqb (snd nb) (flag_default (fst nb)) end) e &&
  forallb (fun nb => match getb (fst nb) e with Some _ => true | None => false end) g.
Definition key_match (g e : key) : bool :=
  let '(gn, gf, gm) := g in let '(en, ef, em) := e in
  String.eqb gn en && mode_eqb gm em && flags_match gf ef.
Fixpoint find_key {V} (e : key) (t : list (key * V)) : option V :=
  match t with [] => None | (g, v) :: r => if key_match g e then Some v else find_key e r end.

Fixpoint index_of {V} (e : key) (t : list (key * V)) : nat :=
  match t with [] => O | (g, _) :: r => if key_match g e then O else S (index_of e r) end.

Definition rkey_eqb (a b : rkey) : bool :=
  let '(an, ak, ab, am) := a in let '(bn, bk, bb, bm) := b in
  String.eqb an bn && seedkind_eqb ak bk && nbranch_eqb ab bb && mode_eqb am bm.
Fixpoint find_rkey {V} (k : rkey) (t : list (rkey * V)) : option V :=
  match t with [] => None | (g, v) :: r => if rkey_eqb g k then Some v else find_rkey k r end.

(* ------------------------------------------------------------------ EXPECTED: R's parameterisation *)
Inductive expect :=
  | Exactly (i : impl)
  | Optional (i : impl)          (* the function may be absent; when present it must be this *)
  | NbMean (m : meth)            (* mean/size form: st.nbinom.<m> with p = size/(size+mu), or an inlined kernel
                                    (then covered semantically by C19_nb) *)
  | Unconstrained.

Definition one_over (e : expr) := EDiv (Cst 1 1) e.
Definition X := Arg "x".
Definition kw (l : kwargs) : args := map (fun ke => (Kw (fst ke), snd ke)) l.

Definition exp_kw    (x : expr) := kw [("x", x); ("scale", one_over (Arg "rate"))].
Definition gamma_kw  (x : expr) := kw [("x", x); ("a", Arg "shape"); ("scale", one_over (Arg "rate"))].
Definition norm_kw   (x : expr) := kw [("x", x); ("loc", Arg "mean"); ("scale", Arg "sd")].
Definition chisq_kw  (x : expr) := kw [("x", x); ("df", Arg "df")].
Definition unif_kw   (x : expr) := kw [("x", x); ("loc", Arg "min"); ("scale", ESub (Arg "max") (Arg "min"))].
Definition beta_kw   (x : expr) := kw [("x", x); ("a", Arg "shape1"); ("b", Arg "shape2")].
Definition pois_kw   (x : expr) := kw [("x", x); ("mu", Arg "mu")].
Definition binom_kw  (x : expr) := kw [("x", x); ("n", Arg "size"); ("p", Arg "prob")].
Definition nb_p_mu := EDiv (Arg "size") (EAdd (Arg "size") (Arg "mu")).
Definition nbinom_kw (p x : expr) := kw [("x", x); ("n", Arg "size"); ("p", p)].

Definition lgf (b : bool) : flags := [("log", b)].
Definition lgt (l t : bool) : flags := [("log", l); ("lower_tail", t)].

(* d / p / q of one family; dm, lm: plain and log method of the d function (pdf or pmf) *)
Definition dpq (name : string) (f : fam) (dm lm : meth) (a : expr -> args) : list (key * expect) :=
  [ (("d" ++ name, lgf false, NoMode), Exactly (Scipy f dm (a X)));
    (("d" ++ name, lgf true,  NoMode), Exactly (Scipy f lm (a X)));
    (("p" ++ name, lgf false, NoMode), Exactly (Scipy f Cdf (a X)));
    (("p" ++ name, lgf true,  NoMode), Exactly (Scipy f LogCdf (a X)));
    (("q" ++ name, lgf false, NoMode), Exactly (Scipy f Ppf (a X)));
    (* R's q functions read log.p as "p is given as a log"; the property does not constrain it *)
    (("q" ++ name, lgf true,  NoMode), Unconstrained) ].

Definition nb_row (name : string) (fl : flags) (m : meth) (x : expr) : list (key * expect) :=
  [ ((name, fl, ByProb), Exactly (Scipy NBinom m (nbinom_kw (Arg "prob") x)));
    ((name, fl, ByMu), NbMean m);
    ((name, fl, Neither), Exactly Raises);
    ((name, fl, Both), Exactly Raises) ].

Definition expected : list (key * expect) :=
  dpq "exp" Expon Pdf LogPdf exp_kw +++
  dpq "gamma" Gamma Pdf LogPdf gamma_kw +++
  dpq "norm" Norm Pdf LogPdf norm_kw +++
  dpq "chisq" Chi2 Pdf LogPdf chisq_kw +++
  dpq "unif" Uniform Pdf LogPdf unif_kw +++
  [ (("dbeta", lgf false, NoMode), Exactly (Scipy Beta Pdf (beta_kw X)));
    (("dbeta", lgf true,  NoMode), Exactly (Scipy Beta LogPdf (beta_kw X)));
    (("pbeta", lgf false, NoMode), Optional (Scipy Beta Cdf (beta_kw X)));
    (("pbeta", lgf true,  NoMode), Optional (Scipy Beta LogCdf (beta_kw X)));
    (("qbeta", lgf false, NoMode), Exactly (Scipy Beta Ppf (beta_kw X)));
    (("qbeta", lgf true,  NoMode), Unconstrained) ] +++
  dpq "pois" Poisson Pmf LogPmf pois_kw +++
  dpq "binom" Binom Pmf LogPmf binom_kw +++
  nb_row "dnbinom" (lgf false) Pmf X +++ nb_row "dnbinom" (lgf true) LogPmf X +++
  nb_row "pnbinom" (lgt false true) Cdf X +++ nb_row "pnbinom" (lgt true true) LogCdf X +++
  nb_row "pnbinom" (lgt false false) Sf X +++ nb_row "pnbinom" (lgt true false) LogSf X +++
  nb_row "qnbinom" (lgt false true) Ppf X +++ nb_row "qnbinom" (lgt false false) Isf X +++
  [ (("qnbinom", lgt true true, ByProb), Unconstrained); (("qnbinom", lgt true true, ByMu), Unconstrained);
    (("qnbinom", lgt true true, Neither), Unconstrained); (("qnbinom", lgt true true, Both), Unconstrained);
    (("qnbinom", lgt true false, ByProb), Unconstrained); (("qnbinom", lgt true false, ByMu), Unconstrained);
    (("qnbinom", lgt true false, Neither), Unconstrained); (("qnbinom", lgt true false, Both), Unconstrained) ].

Definition nb_mean_ok (m : meth) (j : impl) : bool :=
  match j with
  | Inline _ => match m with Pmf | LogPmf => true | _ => false end
  | _ => impl_eqb j (Scipy NBinom m (nbinom_kw nb_p_mu X))
  end.

Definition entry_ok (t : list (key * impl)) (ke : key * expect) : bool :=
  let (k, e) := ke in
  match e, find_key k t with
  | Exactly i, Some j => impl_eqb j i
  | Exactly _, None => false
  | Optional i, Some j => impl_eqb j i
  | Optional _, None => true
  | NbMean m, Some j => nb_mean_ok m j
  | NbMean _, None => false
  | Unconstrained, _ => true
  end.

(* every generated entry is about a key the expected table knows (fail closed on new flags / modes) *)
Definition covered (g : key * impl) : bool := existsb (fun ke => key_match (fst g) (fst ke)) expected.

Definition dispatch_ok (t : list (key * impl)) : bool :=
  forallb (entry_ok t) expected && forallb covered t.
Definition bad_entries (t : list (key * impl)) : list key :=
  map fst (filter (fun ke => negb (entry_ok t ke)) expected) +++ map fst (filter (fun g => negb (covered g)) t).

(* ------------------------------------------------------------------ log forms *)
Definition logm (m : meth) : option meth :=
  match m with Pdf => Some LogPdf | Cdf => Some LogCdf | Sf => Some LogSf | Pmf => Some LogPmf | _ => None end.
Definition ometh_eqb (a : option meth) (b : meth) : bool :=
  match a with Some x => meth_eqb x b | None => false end.
(* jl is "the log of" jp: same family, same arguments, log method; or exp stripped from an inlined kernel *)
Definition is_log_of (jl jp : impl) : bool :=
  match jl, jp with
  | Scipy f ml a, Scipy g mp b =>
      fam_eqb f g && ometh_eqb (logm mp) ml &&
      kwargs_ok (pos_names f ml) (norm_args f ml a) (norm_args g mp b)
  | Inline el, Inline ep => expr_eqb ep (EExp el)
  | Raises, Raises => true
  | _, _ => false
  end.
Definition log_pair_ok (t : list (key * impl)) (optional : bool) (kp kl : key) : bool :=
  match find_key kl t, find_key kp t with
  | Some jl, Some jp => is_log_of jl jp
  | None, None => optional
  | _, _ => false
  end.
Definition simple_fams := ["exp"; "gamma"; "norm"; "chisq"; "unif"; "beta"; "pois"; "binom"].
Definition nb_modes := [ByProb; ByMu; Neither; Both].
(* (may be absent, key of the plain form, key of the log form) for every d and p wrapper *)
Definition log_pairs : list (bool * key * key) :=
  flat_map (fun nm => [ (false, ("d" ++ nm, lgf false, NoMode), ("d" ++ nm, lgf true, NoMode));
                        (String.eqb nm "beta", ("p" ++ nm, lgf false, NoMode), ("p" ++ nm, lgf true, NoMode)) ]) simple_fams +++
  flat_map (fun m => [ (false, ("dnbinom", lgf false, m), ("dnbinom", lgf true, m));
                       (false, ("pnbinom", lgt false true, m), ("pnbinom", lgt true true, m));
                       (false, ("pnbinom", lgt false false, m), ("pnbinom", lgt true false, m)) ]) nb_modes.
Definition log_ok (t : list (key * impl)) : bool :=
  forallb (fun c => log_pair_ok t (fst (fst c)) (snd (fst c)) (snd c)) log_pairs.
Definition bad_log_pairs (t : list (key * impl)) : list key :=
  map snd (filter (fun c => negb (log_pair_ok t (fst (fst c)) (snd (fst c)) (snd c))) log_pairs).

(* ------------------------------------------------------------------ generators: expected table *)
(* the seven generators whose docstring promises seeding *)
Definition seeded_fns : list string := ["rexp"; "rgamma"; "rnorm"; "rchisq"; "runif"; "rpois"; "rbinom"].
Definition Nn := Arg "n".
Definition r_calls (name : string) : list rcall :=
  let sz := [("size", Nn)] in
  if String.eqb name "rexp" then
    [NpCall NpExponential (kw ([("scale", one_over (Arg "rate"))] +++ sz));
     SpRvs Expon (kw ([("scale", one_over (Arg "rate"))] +++ sz))]
  else if String.eqb name "rgamma" then
    [NpCall NpGamma (kw ([("shape", Arg "shape"); ("scale", one_over (Arg "rate"))] +++ sz));
     SpRvs Gamma (kw ([("a", Arg "shape"); ("scale", one_over (Arg "rate"))] +++ sz))]
  else if String.eqb name "rnorm" then
    [NpCall NpNormal (kw ([("loc", Arg "mean"); ("scale", Arg "sd")] +++ sz));
     SpRvs Norm (kw ([("loc", Arg "mean"); ("scale", Arg "sd")] +++ sz))]
  else if String.eqb name "rchisq" then
    [NpCall NpChisquare (kw ([("df", Arg "df")] +++ sz)); SpRvs Chi2 (kw ([("df", Arg "df")] +++ sz))]
  else if String.eqb name "runif" then
    [NpCall NpUniform (kw ([("low", Arg "min"); ("high", Arg "max")] +++ sz));
     SpRvs Uniform (kw ([("loc", Arg "min"); ("scale", ESub (Arg "max") (Arg "min"))] +++ sz))]
  else if String.eqb name "rpois" then
    [NpCall NpPoisson (kw ([("lam", Arg "mu")] +++ sz)); SpRvs Poisson (kw ([("mu", Arg "mu")] +++ sz))]
  else if String.eqb name "rbinom" then
    [NpCall NpBinomial (kw ([("n", Arg "size"); ("p", Arg "prob")] +++ sz));
     SpRvs Binom (kw ([("n", Arg "size"); ("p", Arg "prob")] +++ sz))]
  else if String.eqb name "rbeta" then
    [NpCall NpBeta (kw ([("a", Arg "shape1"); ("b", Arg "shape2")] +++ sz));
     SpRvs Beta (kw ([("a", Arg "shape1"); ("b", Arg "shape2")] +++ sz))]
  else [].
Definition nb_calls (p : expr) : list rcall :=
  [NpCall NpNegBinomial (kw [("n", Arg "size"); ("p", p); ("size", Nn)]);
   SpRvs NBinom (kw [("n", Arg "size"); ("p", p); ("size", Nn)])].

(* the source a generator must draw from, per kind of `seed` argument (None = the property is silent) *)
Definition want_source (seeded : bool) (k : seedkind) : option source :=
  if seeded then
    match k with SNone => Some Global | SInt | SInt0 => Some FromSeed | SRS => Some Passed | _ => None end
  else None.

Definition rdraw_ok (calls : list rcall) (src : option source) (j : rimpl) : bool :=
  match j with
  | RDraw s c _ => existsb (rcall_eqb c) calls &&
                   match src with Some w => source_eqb s w | None => true end
  | _ => false
  end.

Definition all_kinds := [SNone; SInt; SInt0; SRS; STrue; SFalse].
Definition all_nb := [Many; One].

Definition r_keys (name : string) (m : mode) : list rkey :=
  flat_map (fun k => map (fun b => (name, k, b, m)) all_nb) all_kinds.

Definition rentry_ok (t : list (rkey * rimpl)) (calls : list rcall) (seeded : bool) (k : rkey) : bool :=
  match find_rkey k t with
  | Some j => rdraw_ok calls (want_source seeded (snd (fst (fst k)))) j
  | None => false
  end.

Definition r_ok_fn (t : list (rkey * rimpl)) (name : string) : bool :=
  forallb (rentry_ok t (r_calls name) (mem name seeded_fns)) (r_keys name NoMode).
Definition r_ok_nb (t : list (rkey * rimpl)) : bool :=
  forallb (rentry_ok t (nb_calls (Arg "prob")) false) (r_keys "rnbinom" ByProb) &&
  forallb (rentry_ok t (nb_calls nb_p_mu) false) (r_keys "rnbinom" ByMu) &&
  forallb (fun k => match find_rkey k t with Some RRaises => true | _ => false end)
          (r_keys "rnbinom" Neither +++ r_keys "rnbinom" Both).

Definition r_fns : list string := seeded_fns +++ ["rbeta"].
Definition rdispatch_ok (t : list (rkey * rimpl)) : bool := forallb (r_ok_fn t) r_fns && r_ok_nb t.
Definition bad_rentries (t : list (rkey * rimpl)) : list rkey :=
  flat_map (fun name => filter (fun k => negb (rentry_ok t (r_calls name) (mem name seeded_fns) k)) (r_keys name NoMode)) r_fns +++
  filter (fun k => negb (rentry_ok t (nb_calls (Arg "prob")) false k)) (r_keys "rnbinom" ByProb) +++
  filter (fun k => negb (rentry_ok t (nb_calls nb_p_mu) false k)) (r_keys "rnbinom" ByMu) +++
  filter (fun k => match find_rkey k t with Some RRaises => false | _ => true end)
         (r_keys "rnbinom" Neither +++ r_keys "rnbinom" Both).

(* test_seed: what the documented dispatch must be for the kinds the property speaks about *)
Fixpoint find_kind (k : seedkind) (t : list (seedkind * option source)) : option (option source) :=
  match t with [] => None | (g, v) :: r => if seedkind_eqb g k then Some v else find_kind k r end.
Definition osource_eqb (a b : option source) : bool :=
  match a, b with Some x, Some y => source_eqb x y | None, None => true | _, _ => false end.
Definition test_seed_ok (t : list (seedkind * option source)) : bool :=
  match find_kind SInt t, find_kind SInt0 t, find_kind SRS t with
  | Some a, Some b, Some c =>
      osource_eqb a (Some FromSeed) && osource_eqb b (Some FromSeed) && osource_eqb c (Some Passed)
  | _, _, _ => false
  end.

(* ------------------------------------------------------------------ default values of the parameters *)
Inductive dflt := DNone | DBool (b : bool) | DNum (n : Z) (d : positive).
Definition dflt_eqb (a b : dflt) : bool :=
  match a, b with
  | DNone, DNone => true
  | DBool x, DBool y => Bool.eqb x y
  | DNum n d, DNum m e => Z.eqb n m && Pos.eqb d e
  | _, _ => false
  end.
(* R: log = FALSE, lower.tail = TRUE, rate = 1, mean = 0, sd = 1, min = 0, max = 1; prob / mu "missing";
   pygom: seed = None.  A parameter not listed here (or without a default) is unconstrained. *)
Definition expected_defaults : list (string * dflt) :=
  [("log", DBool false); ("lower_tail", DBool true); ("seed", DNone); ("rate", DNum 1 1);
   ("mean", DNum 0 1); ("sd", DNum 1 1); ("min", DNum 0 1); ("max", DNum 1 1); ("prob", DNone)].
Fixpoint get_dflt (k : string) (l : list (string * dflt)) : option dflt :=
  match l with [] => None | (k', d) :: r => if String.eqb k k' then Some d else get_dflt k r end.
Definition default_ok (pd : string * dflt) : bool :=
  match get_dflt (fst pd) expected_defaults with Some e => dflt_eqb (snd pd) e | None => true end.
Definition defaults_ok (t : list (string * list (string * dflt))) : bool :=
  forallb (fun fd => forallb default_ok (snd fd)) t.
Definition bad_defaults (t : list (string * list (string * dflt))) : list (string * string) :=
  flat_map (fun fd => map (fun pd => (fst fd, fst pd)) (filter (fun pd => negb (default_ok pd)) (snd fd))) t.

(* ------------------------------------------------------------------ normal form printed for the correspondence *)
Inductive nimpl := NStub | NRaises | NScipy (f : fam) (m : meth) (a : kwargs) | NInline (e : expr).
Definition nimpl_of (j : impl) : nimpl :=
  match j with Stub => NStub | Raises => NRaises | Scipy f m a => NScipy f m (norm_args f m a) | Inline e => NInline e end.
Inductive nrimpl := NRStub | NRRaises | NRNp (src : source) (s : sampler) (a : kwargs) (first : bool)
                  | NRSp (src : source) (f : fam) (a : kwargs) (first : bool).
Definition nrimpl_of (j : rimpl) : nrimpl :=
  match j with
  | RStub => NRStub | RRaises => NRRaises
  | RDraw s (NpCall sm a) b => NRNp s sm (norm_np sm a) b
  | RDraw s (SpRvs f a) b => NRSp s f (norm_args f Rvs a) b
  end.

(* ------------------------------------------------------------------ the defects of the pinned tree, as tables
   (used by the _refuted witnesses: the checks above do reject them) *)
Definition pinned_pchisq : list (key * impl) :=
  [ (("pchisq", lgf false, NoMode), Scipy Chi2 Pdf [(Pos 0, X); (Kw "df", Arg "df")]);
    (("pchisq", lgf true, NoMode), Scipy Chi2 LogPdf [(Pos 0, X); (Kw "df", Arg "df")]) ].
Definition pinned_dchisq : list (key * impl) :=
  [ (("dchisq", lgf false, NoMode), Scipy Norm Pdf [(Pos 0, X); (Kw "df", Arg "df")]) ].
Definition pinned_dbeta : list (key * impl) :=
  [ (("dbeta", lgf true, NoMode), Scipy Beta Pdf [(Pos 0, X); (Pos 1, Arg "shape1"); (Pos 2, Arg "shape2")]) ].
Definition pinned_pnbinom : list (key * impl) := [ (("pnbinom", lgt false true, ByProb), Stub) ].
Definition pinned_runif : list (rkey * rimpl) :=
  [ (("runif", SInt, Many, NoMode),
     RDraw Global (SpRvs Uniform [(Kw "loc", Arg "min"); (Kw "scale", ESub (Arg "max") (Arg "min")); (Kw "size", Nn)]) false) ].
