(* C20 — what "second derivative of the cost" means algebraically: second-order Taylor jets.
   A jet (c0, c1, c2) stands for c0 + c1 e + c2 e^2 modulo e^3.  If, along a direction u in parameter space, the observed state
   x_ik has the jet (x, sum_a S_a u_a, h) with 2h = sum_ab u_a F_ab u_b (its second-order Taylor expansion), then twice the e^2
   coefficient of the square-loss cost  sum_ik (w_ik (y_ik - x_ik))^2  computed in jet arithmetic is u' hess_spec u. *)
From Coq Require Import List Arith Bool Lia Ring ZArith.
From PV Require Import Shapes ShapesProofs Curv CurvProofs.
Import ListNotations.

Section Jet.
  Variables (A : Type) (a0 a1 : A) (add mul sub : A -> A -> A) (opp : A -> A).
  Hypothesis Rth : ring_theory a0 a1 add mul sub opp (@eq A).
  Add Ring Aring5 : Rth.
  Notation arr := (arr A).
  Notation sumn := (sumn A a0 add).
  Let Sswap := sumn_swap A a0 a1 add mul sub opp Rth.
  Let Smul_l := sumn_mul_l A a0 a1 add mul sub opp Rth.
  Let Smul_r := sumn_mul_r A a0 a1 add mul sub opp Rth.
  Let Sadd := sumn_add A a0 a1 add mul sub opp Rth.

  Definition jet := (A * A * A)%type.
  Definition jconst (c : A) : jet := (c, a0, a0).
  Definition jsub (p q : jet) : jet :=
    let '(a, b, c) := p in let '(a', b', c') := q in (sub a a', sub b b', sub c c').
  Definition jmul (p q : jet) : jet :=
    let '(a, b, c) := p in let '(a', b', c') := q in
    (mul a a', add (mul a b') (mul b a'), add (add (mul a c') (mul b b')) (mul c a')).
  Definition coef2 (p : jet) : A := snd p.
  (* (w (y - x(e)))^2 in jet arithmetic *)
  Definition sq_loss_jet (w y : A) (xj : jet) : jet :=
    let r := jmul (jconst w) (jsub (jconst y) xj) in jmul r r.

  Lemma sq_loss_coef2 w y x d h :
    add (coef2 (sq_loss_jet w y (x, d, h))) (coef2 (sq_loss_jet w y (x, d, h))) =
    add (nmul A a0 add 2 (mul (mul w d) (mul w d))) (mul (mul (nmul A a0 add 2 (mul w w)) (sub x y)) (add h h)).
  Proof. unfold sq_loss_jet, jmul, jsub, jconst, coef2. cbn [snd fst Curv.nmul]. ring. Qed.

  Variables (nS nP : nat) (sidx pidx : list nat) (W Y Z : arr).
  Variable u : nat -> A.
  Notation q := (length pidx).
  Notation p := (length sidx).
  Definition dir1 (i k : nat) : A := sumn q (fun a => mul (u a) (S_of nS Z sidx pidx i k a)).
  Definition dir2 (i k : nat) : A := sumn q (fun a => sumn q (fun b => mul (mul (u a) (FF_of nS nP Z sidx pidx i k a b)) (u b))).

  Lemma quad_swap4 (T : nat -> nat -> nat -> nat -> A) n :
    sumn q (fun a => sumn q (fun b => mul (mul (u a) (sumn n (fun i => sumn p (fun k => T i k a b)))) (u b))) =
    sumn n (fun i => sumn p (fun k => sumn q (fun a => sumn q (fun b => mul (mul (u a) (T i k a b)) (u b))))).
  Proof.
    transitivity (sumn q (fun a => sumn q (fun b => sumn n (fun i => sumn p (fun k => mul (mul (u a) (T i k a b)) (u b)))))).
    { apply sumn_ext. intros a _. apply sumn_ext. intros b _. rewrite <- Smul_l, <- Smul_r. apply sumn_ext. intros i _.
      rewrite <- Smul_l, <- Smul_r. reflexivity. }
    transitivity (sumn q (fun a => sumn n (fun i => sumn p (fun k => sumn q (fun b => mul (mul (u a) (T i k a b)) (u b)))))).
    { apply sumn_ext. intros a _. rewrite Sswap. apply sumn_ext. intros i _. apply Sswap. }
    rewrite Sswap. apply sumn_ext. intros i _. apply Sswap.
  Qed.

  Theorem hess_spec_is_second_order (h : nat -> nat -> A) :
    (forall i k, add (h i k) (h i k) = dir2 i k) ->
    quad A a0 add mul q {| nr := q; nc := q; get := hess_spec A a0 add mul sub nS nP sidx pidx W Y Z |} u =
    sumn (nr Z) (fun i => sumn p (fun k =>
      let c := coef2 (sq_loss_jet (get W i k) (get Y i k) (X_of Z sidx i k, dir1 i k, h i k)) in add c c)).
  Proof.
    intros Hh. unfold quad, hess_spec. cbn [get]. rewrite quad_swap4.
    apply sumn_ext. intros i _. apply sumn_ext. intros k _. cbv zeta. rewrite sq_loss_coef2, Hh.
    unfold dir1, dir2. cbn [Curv.nmul].
    set (w := get W i k). set (c := mul (add (mul w w) (add (mul w w) a0)) (sub (X_of Z sidx i k) (get Y i k))).
    transitivity (add (sumn q (fun a => sumn q (fun b => mul (mul (u a)
                          (add (mul (mul w (S_of nS Z sidx pidx i k a)) (mul w (S_of nS Z sidx pidx i k b)))
                               (add (mul (mul w (S_of nS Z sidx pidx i k a)) (mul w (S_of nS Z sidx pidx i k b))) a0))) (u b))))
                      (sumn q (fun a => sumn q (fun b => mul (mul (u a) (mul c (FF_of nS nP Z sidx pidx i k a b))) (u b))))).
    { rewrite <- Sadd. apply sumn_ext. intros a _. rewrite <- Sadd. apply sumn_ext. intros b _. ring. }
    f_equal.
    - transitivity (add (sumn q (fun a => sumn q (fun b => mul (mul (u a) (mul (mul w (S_of nS Z sidx pidx i k a)) (mul w (S_of nS Z sidx pidx i k b)))) (u b))))
                        (add (sumn q (fun a => sumn q (fun b => mul (mul (u a) (mul (mul w (S_of nS Z sidx pidx i k a)) (mul w (S_of nS Z sidx pidx i k b)))) (u b)))) a0)).
      { transitivity (add (sumn q (fun a => sumn q (fun b => mul (mul (u a) (mul (mul w (S_of nS Z sidx pidx i k a)) (mul w (S_of nS Z sidx pidx i k b)))) (u b))))
                          (sumn q (fun a => sumn q (fun b => mul (mul (u a) (mul (mul w (S_of nS Z sidx pidx i k a)) (mul w (S_of nS Z sidx pidx i k b)))) (u b))))); [|ring].
        rewrite <- Sadd. apply sumn_ext. intros a _. rewrite <- Sadd. apply sumn_ext. intros b _. ring. }
      rewrite (quad_outer A a0 a1 add mul sub opp Rth q u (fun a => mul w (S_of nS Z sidx pidx i k a))).
      assert (E : sumn q (fun a => mul (u a) (mul w (S_of nS Z sidx pidx i k a))) = mul w (sumn q (fun a => mul (u a) (S_of nS Z sidx pidx i k a)))).
      { rewrite <- Smul_l. apply sumn_ext. intros a _. ring. }
      rewrite E. ring.
    - rewrite <- Smul_l. apply sumn_ext. intros a _. rewrite <- Smul_l. apply sumn_ext. intros b _. ring.
  Qed.
End Jet.

(* the hypothesis 2h = u'Fu is met, e.g. over Z by every even direction (and in every ring where 2 is invertible by h = u'Fu / 2) *)
Module JetWitness.
  Open Scope Z_scope.
  Lemma even_direction : exists h : nat -> nat -> Z, forall i k,
    h i k + h i k = dir2 Z 0 Z.add Z.mul 2 2 [0; 1]%nat [0; 1]%nat CurvWitness.wZ (fun _ => 2) i k.
  Proof.
    exists (fun i k => 2 * (FF_of 2 2 CurvWitness.wZ [0; 1]%nat [0; 1]%nat i k 0 0 + FF_of 2 2 CurvWitness.wZ [0; 1]%nat [0; 1]%nat i k 0 1
                           + FF_of 2 2 CurvWitness.wZ [0; 1]%nat [0; 1]%nat i k 1 0 + FF_of 2 2 CurvWitness.wZ [0; 1]%nat [0; 1]%nat i k 1 1)).
    intros i k. unfold dir2, Shapes.sumn, Shapes.sum. cbn [length seq map fold_right]. ring.
  Qed.
End JetWitness.
