(* C07 — the model of Grad.v instantiated at Z, and the comparison functions used by the correspondence case
   files written by harness/c07.py (inputs and the outputs observed on the real pygom are literals). *)
From Coq Require Import List Arith Bool ZArith.
From Coq Require Import Sorted Lia.
From PV Require Import Util Shapes Grad GradProofs.
Import ListNotations.

(* row-major flat list -> r x c array *)
Definition zarr (r c : nat) (l : list Z) : arr Z := Build_arr r c (fun i j => nth (i * c + j) l 0%Z).
Definition flat (X : arr Z) : list Z := concat (arr_to_lists X).
Definition zn (l : list nat) : list Z := map Z.of_nat l.
Definition opt (given : bool) (l : list nat) : option (list nat) := if given then Some l else None.

Record kcase := KC {
  k_nS : nat; k_nP : nat; k_n : nat;
  k_st : list nat;                        (* indices of state_name, in the order supplied *)
  k_tp_given : bool; k_tp : list nat;     (* target_param *)
  k_ts_given : bool; k_ts : list nat;     (* target_state *)
  k_sol : list Z;                         (* n x (nS + nS*nP + nS*nS) integrator output, row-major *)
  k_w : list Z;                           (* n x |st| weights *)
  k_dA : list Z; k_dB : list Z;           (* stub kernel: diff_loss(yhat)[r][s] = A[r][s]*yhat[r][s] + B[r][s] *)
  k_q : nat; k_sens : list Z; k_dl : list Z;   (* direct call sens_to_grad(sens, dl): sens n x (|st|*q), dl n x |st| *)
  (* observed on pygom *)
  e_tpi : list Z;
  e_tsi_nested : bool; e_tsi : list Z;
  e_psi : list Z;
  e_ssi_ok : bool; e_ssi : list Z;
  e_s2g : list Z;
  e_sens : list Z; e_sens_fo : list Z;
  e_jac_nc : nat; e_jac : list Z;
  e_iv_ok : bool; e_iv : list Z; e_iv_fo : list Z;
  e_jaciv_nc : nat; e_jaciv : list Z }.

Section Chk.
  Variable fc : gfacts.
  Variables pexpr sexpr : Z -> Z -> Z -> Z -> Z.

  Definition opt_eqb (m : option (list Z)) (ok : bool) (e : list Z) : bool :=
    match m with None => negb ok | Some l => ok && zlist_eqb l e end.

  (* numbers of the parts on which model and implementation differ:
     1 _getTargetParamIndex  2 _getTargetStateIndex  3 _getTargetParamSensIndex  4 _getTargetStateSensIndex
     5 sens_to_grad  6 sensitivity(theta) (= gradient)  7 sensitivity(theta, full_output=True)  8 jac
     9 sensitivityIV (both output modes)  10 jacIV *)
  Definition chk_parts (c : kcase) : list nat :=
    let nS := k_nS c in let nP := k_nP c in let n := k_n c in
    let st := k_st c in let ns := length st in
    let tp := opt (k_tp_given c) (k_tp c) in let ts := opt (k_ts_given c) (k_ts c) in
    let sol := zarr n (nS + nS * nP + nS * nS) (k_sol c) in
    let w := zarr n ns (k_w c) in
    let dA := zarr n ns (k_dA c) in let dB := zarr n ns (k_dB c) in
    let dL := fun r s v => (get dA r s * v + get dB r s)%Z in
    let bad (p : nat) (ok : bool) := if ok then [] else [p] in
    let vl (v : vec Z) := vec_to_list v in
    bad 1 (zlist_eqb (zn (target_param_index nP tp)) (e_tpi c))
    ++ bad 2 (zlist_eqb (zn (target_state_index nS ts)) (e_tsi c)
              && Bool.eqb (tsi_wrapped fc && k_ts_given c) (e_tsi_nested c))
    ++ bad 3 (zlist_eqb (zn (param_sens_index fc pexpr nS nP st tp)) (e_psi c))
    ++ bad 4 (opt_eqb (option_map zn (state_sens_index fc sexpr nS nP st ts)) (e_ssi_ok c) (e_ssi c))
    ++ bad 5 (zlist_eqb (vl (sens_to_grad Z 0%Z Z.add Z.mul fc ns w (zarr n ns (k_dl c)) (zarr n (ns * k_q c) (k_sens c))))
                        (e_s2g c))
    ++ bad 6 (zlist_eqb (vl (sensitivity Z 0%Z Z.add Z.mul fc pexpr nS nP st tp w dL sol)) (e_sens c))
    ++ bad 7 (zlist_eqb (vl (sensitivity Z 0%Z Z.add Z.mul fc pexpr nS nP st tp w dL sol)) (e_sens_fo c))
    ++ (let M := jac Z fc pexpr nS nP st tp sol in
        bad 8 ((nc M =? e_jac_nc c) && zlist_eqb (flat M) (e_jac c)))
    ++ (let g := option_map vl (sensitivityIV Z 0%Z Z.add Z.mul fc pexpr sexpr nS nP st tp ts w dL sol) in
        bad 9 (opt_eqb g (e_iv_ok c) (e_iv c) && opt_eqb g (e_iv_ok c) (e_iv_fo c)))
    ++ bad 10 (match jacIV Z fc pexpr sexpr nS nP st tp ts sol with
               | None => negb (e_iv_ok c)
               | Some M => e_iv_ok c && (nc M =? e_jaciv_nc c) && zlist_eqb (flat M) (e_jaciv c)
               end).

  Fixpoint failing_parts_from (k : nat) (l : list kcase) : list nat :=
    match l with [] => [] | c :: r => map (fun p => k * 100 + p) (chk_parts c) ++ failing_parts_from (S k) r end.
  Definition failing_parts := failing_parts_from 0.
End Chk.

(* ------------------------------------------------------------------ witnesses used by Props/C07.v *)
Module Witness.
  (* 3 states, 2 parameters, one observation time; sol = [x0 x1 x2 | dx/dp0 | dx/dp1 | dx/dx0_0 dx/dx0_1 dx/dx0_2] *)
  Definition wsol : arr Z := zarr 1 18 [5; 7; 11;  1; 2; 3;  10; 20; 30;  100; 200; 300; 400; 500; 600; 700; 800; 900]%Z.
  Definition ww : arr Z := zarr 1 2 [1; 1]%Z.
  Definition wdL (r s : nat) (v : Z) : Z := if Nat.eqb s 0 then v else (2 * v + 1)%Z.
  Definition sens (fc : gfacts) st tp := sensitivity Z 0%Z Z.add Z.mul fc psi_spec 3 2 st tp ww wdL wsol.
  Definition spec st tp k :=
    chain Z 0%Z Z.add Z.mul st ww (dloss Z wdL st wsol) 1 (fun r i => dx_dtheta 3 wsol r i (nth k (target_param_index 2 tp) 0)).

  Lemma hyps_ok :
    [1; 2] <> [] /\ increasing [1; 2] /\ (forall j, In j [1; 2] -> j < 3) /\ opt_increasing (Some [0; 1]) /\
    map (spec [1; 2] (Some [0; 1])) [0; 1] = [83; 830]%Z.
  Proof.
    split; [discriminate|]. split; [repeat constructor|]. split.
    - simpl. intros j [<-|[<-|[]]]; lia.
    - split; [repeat constructor|vm_compute; reflexivity].
  Qed.
  Lemma order_refuted :
    vec_to_list (sens pinned_facts [1; 2] (Some [1; 0])) = [83; 830]%Z /\ map (spec [1; 2] (Some [1; 0])) [0; 1] = [830; 83]%Z.
  Proof. vm_compute. split; reflexivity. Qed.
  Lemma state_order_refuted :
    vec_to_list (sens pinned_facts [2; 1] None) = [67; 670]%Z /\ map (spec [2; 1] None) [0; 1] = [63; 630]%Z.
  Proof. vm_compute. split; reflexivity. Qed.
End Witness.
