#!/bin/bash
# independent re-check of every compiled Props file and everything it depends on; prints the axioms relied upon
cd "$(dirname "$0")/coq"
mods=$(ls Props/*.vo | sed 's#Props/\(.*\)\.vo#PV.Props.\1#')
timeout 7200 coqchk -silent -o -R . PV $mods 2>&1 | tee ../evidence/coqchk.txt | tail -40
