#!/bin/bash
# MANIFEST.setup_cmd: regenerate Gen/*.v from /repo, full clean .vo build of the Coq development, hygiene gate.
set -e
cd "$(dirname "$0")"
export PYGOM_REPO="${PYGOM_REPO:-/repo}"
export PYTHONPATH="$PYGOM_REPO/src:$(pwd)/harness:$(pwd)/gen" PYTHONHASHSEED=0 PYTHONDONTWRITEBYTECODE=1
mkdir -p coq/Gen .work evidence replays
# hygiene gate: no axioms, admits or kernel switches anywhere in the hand-written development
if grep -rnE '\b(Admitted|admit|Axiom|Axioms|Parameter|Parameters|Conjecture|Unset Guard Checking|bypass_check|Admit Obligations|type-in-type|impredicative-set)\b' coq --include='*.v' | grep -v '^coq/Gen/' ; then
  echo "setup: forbidden construct found"; exit 1
fi
/venv/bin/python -W ignore harness/gen_all.py
/venv/bin/python harness/hygiene.py || { echo "setup: hygiene gate failed"; exit 1; }
cd coq
rm -f Makefile Makefile.conf .Makefile.d
find . -name '*.vo' -o -name '*.vok' -o -name '*.vos' -o -name '*.glob' -o -name '.*.aux' | xargs rm -f
coq_makefile -f _CoqProject -o Makefile > /dev/null
timeout 3000 make -k -j16 2>&1 | tail -40
echo "setup: done"
