"""C02 translator: facts about pygom's deterministic solving code -> coq/Gen/IntegrateGen.v

Read by `ast` from the current $PYGOM_REPO source (never imported):
  ode_utils/__init__.py : _integrateOneStep (what each branch returns: alias `r.y` or a copy),
                          integrateFuncJac (origin row, stepping loop, per-step re-setup of the integrator in the
                          full_output branch, append order, default method), _setupIntegrator (method string ->
                          scipy integrator dispatch and options), _determineIntegratorGivenEigenValue (decision tree),
                          integrate (odeint wrapper), atol/rtol, compileExprAndFormat's container rule
  deterministic.py      : _setIntegrateTime, _integrate, _integrate2, integrate, integrate2, ode_T, jacobian_T,
                          the outType the Jacobian evaluator is registered with
  simulate.py           : solve_determ (fixed-parameter branch)
plus a table MEASURED from the installed scipy (which integrators overwrite their output buffer in place; whether
set_initial_value copies).  Anything not in a recognised shape fails closed.
"""
import ast
from fractions import Fraction
from pyast import *

OU = "model/ode_utils/__init__.py"
DET = "model/deterministic.py"
SIM = "model/simulate.py"

COPY_OF = lambda v: {"%s.copy()" % v, "np.array(%s)" % v, "numpy.array(%s)" % v, "np.copy(%s)" % v,
                     "numpy.copy(%s)" % v, "np.array(%s, copy=True)" % v, "copy.copy(%s)" % v,
                     "copy.deepcopy(%s)" % v, "np.array(%s, dtype=float)" % v, "np.array(%s, float)" % v}
ALIAS_OF = lambda v: {v, "np.asarray(%s)" % v, "numpy.asarray(%s)" % v, "%s[:]" % v, "%s.view()" % v,
                      "np.array(%s, copy=False)" % v, "np.asanyarray(%s)" % v}


def u(n):
    return ast.unparse(n)


def canon(text):
    """canonical form of an expected statement/expression text (so that both sides went through ast.unparse)"""
    return ast.unparse(ast.parse(text))


def body_nodoc(f):
    b = list(f.body)
    if b and isinstance(b[0], ast.Expr) and isinstance(b[0].value, ast.Constant) and isinstance(b[0].value.value, str):
        b = b[1:]
    return b


def classify_state(e, var):
    s = u(e)
    if s in ALIAS_OF(var):
        return "RetAlias"
    if s in COPY_OF(var):
        return "RetCopy"
    raise Unsupported("state expression %r is neither a recognised alias nor a recognised copy of %s" % (s, var))


def arg_names(f):
    return [a.arg for a in f.args.args]


def is_true_test(t, name):
    """`name`, `name == True`, `name is True`"""
    return u(t) in (name, "%s == True" % name, "%s is True" % name)


def has_return(stmts):
    return any(isinstance(n, ast.Return) for s in stmts for n in ast.walk(s))


# ---------------------------------------------------------------------------------------- _integrateOneStep
def x_one_step():
    f = find_function(OU, "_integrateOneStep")
    if arg_names(f) != ["r", "t", "func", "jac", "args", "full_output"]:
        raise Unsupported("_integrateOneStep signature changed: %s" % arg_names(f))
    b = body_nodoc(f)
    if len(b) != 2 or u(b[0]) != "r.integrate(t)":
        raise Unsupported("_integrateOneStep does not start with r.integrate(t) followed by one if")
    top = b[1]
    if not (isinstance(top, ast.If) and u(top.test) == "r.successful()"):
        raise Unsupported("_integrateOneStep: expected `if r.successful():`")
    if has_return(top.orelse) or not any(isinstance(n, ast.Raise) for s in top.orelse for n in ast.walk(s)):
        raise Unsupported("_integrateOneStep: the failure branch must raise and never return")
    if len(top.body) != 1 or not isinstance(top.body[0], ast.If) or not is_true_test(top.body[0].test, "full_output"):
        raise Unsupported("_integrateOneStep: expected `if full_output:` inside the success branch")
    fb, pb = top.body[0].body, top.body[0].orelse
    # plain branch
    if len(pb) != 1 or not isinstance(pb[0], ast.Return):
        raise Unsupported("_integrateOneStep: plain branch is not a single return")
    ret_plain = classify_state(pb[0].value, "r.y")
    # full branch
    if not isinstance(fb[-1], ast.Return) or not isinstance(fb[-1].value, ast.Tuple) or len(fb[-1].value.elts) != 5:
        raise Unsupported("_integrateOneStep: full_output branch does not return a 5-tuple")
    pre = [u(s) for s in fb[:-1]]
    if pre != ["e = np.linalg.eig(jac(r.t, r.y, *args))[0]"]:
        raise Unsupported("_integrateOneStep: eigenvalue computation changed: %s" % pre)
    el = fb[-1].value.elts
    ret_full = classify_state(el[0], "r.y")
    if [u(x) for x in el[1:]] != ["r.successful()", "e", "max(e)", "min(e)"]:
        raise Unsupported("_integrateOneStep: full_output tuple layout changed: %s" % [u(x) for x in el])
    return ret_plain, ret_full


# ---------------------------------------------------------------------------------------- integrateFuncJac
TRACKED = {"solution", "r", "t", "x0", "t0", "method", "o1", "deltaT", "func", "jac", "args", "nsteps"}


def stores(stmt):
    out = set()
    for n in ast.walk(stmt):
        if isinstance(n, ast.Name) and isinstance(n.ctx, (ast.Store, ast.Del)):
            out.add(n.id)
        if isinstance(n, ast.Call) and isinstance(n.func, ast.Attribute) and isinstance(n.func.value, ast.Name):
            if n.func.attr in ("append", "insert", "extend", "pop", "remove", "clear", "reverse", "sort", "fill",
                               "__setitem__", "resize", "put"):
                out.add(n.func.value.id)
        if isinstance(n, (ast.Subscript, ast.Attribute)) and isinstance(n.ctx, (ast.Store, ast.Del)):
            v = n.value
            while isinstance(v, (ast.Subscript, ast.Attribute)):
                v = v.value
            if isinstance(v, ast.Name):
                out.add(v.id)
    return out


def harmless(stmt):
    return not (stores(stmt) & TRACKED) and not has_return([stmt]) and \
        not any(isinstance(n, (ast.Break, ast.Continue)) for n in ast.walk(stmt))


def x_funcjac():
    f = find_function(OU, "integrateFuncJac")
    if arg_names(f) != ["func", "jac", "x0", "t0", "t", "args", "includeOrigin", "full_output", "method", "nsteps"]:
        raise Unsupported("integrateFuncJac signature changed: %s" % arg_names(f))
    dfl = [u(d) for d in f.args.defaults]
    if dfl != ["()", "False", "False", "None", "10000"]:
        raise Unsupported("integrateFuncJac defaults changed: %s" % dfl)
    seen = []
    info = dict(plain_default=None, origin=None, resetup=None)
    SETUP0 = "r = _setupIntegrator(func, jac, x0, t0, args, method, nsteps)"
    for s in body_nodoc(f):
        su = u(s)
        if isinstance(s, ast.If) and u(s.test) == "method is None":
            if seen:
                raise Unsupported("integrateFuncJac: method selection is not first")
            if s.orelse or len(s.body) != 1 or not isinstance(s.body[0], ast.If) or \
                    not is_true_test(s.body[0].test, "full_output"):
                raise Unsupported("integrateFuncJac: `if method is None` block changed")
            fb, pb = s.body[0].body, s.body[0].orelse
            if [u(x) for x in fb] != ["e = np.linalg.eig(jac(t0, x0, *args))[0]",
                                      "method = _determineIntegratorGivenEigenValue(e)"]:
                raise Unsupported("integrateFuncJac: eigenvalue-based default method changed")
            if len(pb) != 1 or not (isinstance(pb[0], ast.Assign) and u(pb[0].targets[0]) == "method"
                                    and isinstance(pb[0].value, ast.Constant) and isinstance(pb[0].value.value, str)):
                raise Unsupported("integrateFuncJac: default method for full_output=False is not a string constant")
            info["plain_default"] = pb[0].value.value
            seen.append("method")
        elif su == SETUP0:
            if "method" not in seen or "loop" in seen:
                raise Unsupported("integrateFuncJac: integrator set up in an unexpected place")
            seen.append("setup")
        elif su in ("solution = list()", "solution = []"):
            if "loop" in seen or "origin" in seen:
                raise Unsupported("integrateFuncJac: solution re-initialised late")
            seen.append("init")
        elif isinstance(s, ast.If) and is_true_test(s.test, "includeOrigin"):
            if "init" not in seen or "loop" in seen or s.orelse or len(s.body) != 1:
                raise Unsupported("integrateFuncJac: origin row is not appended once before the loop")
            c = s.body[0]
            if not (isinstance(c, ast.Expr) and isinstance(c.value, ast.Call) and u(c.value.func) == "solution.append"
                    and len(c.value.args) == 1 and not c.value.keywords):
                raise Unsupported("integrateFuncJac: origin row is not solution.append(...)")
            info["origin"] = classify_state(c.value.args[0], "x0") == "RetCopy"
            seen.append("origin")
        elif isinstance(s, ast.If) and u(s.test) == "isinstance(t, Number)":
            ok = (u(s.body[0]) == "t = [t]" and len(s.body) == 1 and len(s.orelse) == 1
                  and isinstance(s.orelse[0], ast.If) and u(s.orelse[0].test) == "is_list_like(t)"
                  and [u(x) for x in s.orelse[0].body] == ["pass"]
                  and not has_return(s.orelse[0].orelse)
                  and any(isinstance(n, ast.Raise) for x in s.orelse[0].orelse for n in ast.walk(x)))
            if not ok or "loop" in seen:
                raise Unsupported("integrateFuncJac: normalisation of t changed")
            seen.append("tnorm")
        elif isinstance(s, ast.For):
            if "loop" in seen or not {"setup", "init"} <= set(seen):
                raise Unsupported("integrateFuncJac: stepping loop in an unexpected place")
            if u(s.target) != "deltaT" or u(s.iter) != "t" or s.orelse:
                raise Unsupported("integrateFuncJac: loop is not `for deltaT in t`")
            if len(s.body) != 2 or not isinstance(s.body[0], ast.If) or not is_true_test(s.body[0].test, "full_output") \
                    or u(s.body[1]) != "solution.append(o1)":
                raise Unsupported("integrateFuncJac: loop body is not `if full_output: ... else: ...; solution.append(o1)`")
            fb, pb = s.body[0].body, s.body[0].orelse
            if [u(x) for x in pb] != ["o1 = _integrateOneStep(r, deltaT, func, jac, args, False)"]:
                raise Unsupported("integrateFuncJac: plain step changed: %s" % [u(x) for x in pb])
            if u(fb[0]) != canon("(o1, o2, o3, o4, o5) = _integrateOneStep(r, deltaT, func, jac, args, True)"):
                raise Unsupported("integrateFuncJac: full_output step changed: %s" % u(fb[0]))
            rest = [u(x) for x in fb[1:]]
            RES = ["method = _determineIntegratorGivenEigenValue(o3)",
                   "r = _setupIntegrator(func, jac, o1, deltaT, args, method, nsteps)"]
            others = [x for x in fb[1:] if u(x) not in RES]
            for x in others:
                if not harmless(x) or (stores(x) & {"o1", "o2", "o3", "o4", "o5"}):
                    raise Unsupported("integrateFuncJac: unrecognised statement in the full_output step: %s" % u(x))
            got = [x for x in rest if x in RES]
            if got == RES:
                info["resetup"] = True
            elif got == []:
                info["resetup"] = False
            else:
                raise Unsupported("integrateFuncJac: per-step integrator re-setup is not in the recognised form")
            seen.append("loop")
        elif su == "solution = np.array(solution)":
            if "loop" not in seen:
                raise Unsupported("integrateFuncJac: solution converted before the loop")
            seen.append("array")
        elif isinstance(s, ast.If) and is_true_test(s.test, "full_output") and "array" in seen:
            rb = s.body[-1]
            if not (isinstance(rb, ast.Return) and u(rb.value) == canon("(solution, output)")
                    and [u(x) for x in s.orelse] == ["return solution"]):
                raise Unsupported("integrateFuncJac: return statements changed")
            for x in s.body[:-1]:
                if stores(x) & (TRACKED - {"method"}) or has_return([x]):
                    raise Unsupported("integrateFuncJac: output assembly touches the solution")
            seen.append("return")
        elif harmless(s):
            continue
        else:
            raise Unsupported("integrateFuncJac: unrecognised statement: %s" % su[:80])
    need = ["method", "setup", "init", "origin", "tnorm", "loop", "array", "return"]
    missing = [k for k in need if k not in seen]
    if missing:
        raise Unsupported("integrateFuncJac: missing parts %s" % missing)
    return info


# ---------------------------------------------------------------------------------------- _setupIntegrator
def x_setup():
    f = find_function(OU, "_setupIntegrator")
    if arg_names(f) != ["func", "jac", "x0", "t0", "args", "method", "nsteps"]:
        raise Unsupported("_setupIntegrator signature changed")
    b = body_nodoc(f)
    if len(b) != 4 or not isinstance(b[0], ast.If):
        raise Unsupported("_setupIntegrator: expected if-chain + 3 statements")
    if [u(x) for x in b[1:]] != ["r.set_f_params(*args).set_jac_params(*args)", "r.set_initial_value(x0, t0)", "return r"]:
        raise Unsupported("_setupIntegrator: tail changed: %s" % [u(x) for x in b[1:]])

    def parse_r(stmts):
        if len(stmts) != 1 or not isinstance(stmts[0], ast.Assign) or u(stmts[0].targets[0]) != "r":
            raise Unsupported("_setupIntegrator: branch is not a single `r = ...`")
        c = stmts[0].value
        if not (isinstance(c, ast.Call) and isinstance(c.func, ast.Attribute) and c.func.attr == "set_integrator"):
            raise Unsupported("_setupIntegrator: branch does not call set_integrator")
        ctor = u(c.func.value)
        if ctor not in ("scipy.integrate.ode(func, jac)", "scipy.integrate.ode(func)"):
            raise Unsupported("_setupIntegrator: integrator built from %s" % ctor)
        if len(c.args) != 1 or not isinstance(c.args[0], ast.Constant):
            raise Unsupported("_setupIntegrator: integrator name is not a constant")
        name = c.args[0].value
        kw = {k.arg: u(k.value) for k in c.keywords}
        if kw.get("atol") != "atol" or kw.get("rtol") != "rtol" or kw.get("nsteps") != "nsteps":
            raise Unsupported("_setupIntegrator(%s): atol/rtol/nsteps are not the module tolerances / the argument" % name)
        for k in ("lband", "uband"):
            if kw.get(k, "None") != "None":
                raise Unsupported("_setupIntegrator(%s): banded Jacobian requested" % name)
        extra = set(kw) - {"atol", "rtol", "nsteps", "lband", "uband", "with_jacobian", "method"}
        if extra:
            raise Unsupported("_setupIntegrator(%s): unrecognised options %s" % (name, sorted(extra)))
        meth = kw.get("method")
        if name == "lsoda" and meth is None:
            kind = "Lsoda"
        elif name == "vode" and meth in (None, "'adams'"):
            kind = "Vode"
        elif name == "vode" and meth == "'bdf'":
            kind = "VodeBdf"
        elif name == "dopri5" and meth is None:
            kind = "Dopri5"
        elif name == "dop853" and meth is None:
            kind = "Dop853"
        else:
            raise Unsupported("_setupIntegrator: unknown integrator %s method=%s" % (name, meth))
        if kind in ("Lsoda", "Vode", "VodeBdf"):
            if ctor != "scipy.integrate.ode(func, jac)" or kw.get("with_jacobian") != "True":
                raise Unsupported("_setupIntegrator(%s): implicit integrator without the analytic Jacobian" % name)
        return kind

    table = []
    node = b[0]
    while True:
        t = node.test
        if not (isinstance(t, ast.Compare) and u(t.left) == "method" and len(t.ops) == 1 and isinstance(t.ops[0], ast.Eq)
                and isinstance(t.comparators[0], ast.Constant) and isinstance(t.comparators[0].value, str)):
            raise Unsupported("_setupIntegrator: test %s is not `method == '<name>'`" % u(t))
        table.append((t.comparators[0].value, parse_r(node.body)))
        if len(node.orelse) == 1 and isinstance(node.orelse[0], ast.If):
            node = node.orelse[0]
            continue
        if not node.orelse:
            raise Unsupported("_setupIntegrator: no default branch")
        default = parse_r(node.orelse)
        break
    return table, default


# ---------------------------------------------------------------------------------------- eigenvalue decision
def num_const(e):
    if isinstance(e, ast.Constant) and isinstance(e.value, (int, float)) and not isinstance(e.value, bool):
        return Fraction(repr(e.value))
    if isinstance(e, ast.UnaryOp) and isinstance(e.op, ast.USub):
        return -num_const(e.operand)
    if isinstance(e, ast.UnaryOp) and isinstance(e.op, ast.UAdd):
        return num_const(e.operand)
    raise Unsupported("not a numeric constant: %s" % u(e))


def q(fr):
    fr = Fraction(fr)
    return "(%d # %d)" % (fr.numerator, fr.denominator) if fr >= 0 else "(-%d # %d)" % (-fr.numerator, fr.denominator)


def x_eig():
    f = find_function(OU, "_determineIntegratorGivenEigenValue")
    if arg_names(f) != ["e"]:
        raise Unsupported("_determineIntegratorGivenEigenValue signature changed")
    b = body_nodoc(f)
    if len(b) != 4 or [u(b[0]), u(b[1]), u(b[3])] != ["maxE = max(e)", "minE = min(e)", "return intName"] \
            or not isinstance(b[2], ast.If):
        raise Unsupported("_determineIntegratorGivenEigenValue: not `maxE=max(e); minE=min(e); if ...; return intName`")
    OPS = {ast.GtE: "CGe", ast.Gt: "CGt", ast.LtE: "CLe", ast.Lt: "CLt"}
    FLIP = {"CGe": "CLe", "CGt": "CLt", "CLe": "CGe", "CLt": "CGt"}

    def tree(stmts):
        if len(stmts) != 1:
            raise Unsupported("_determineIntegratorGivenEigenValue: branch with %d statements" % len(stmts))
        s = stmts[0]
        if isinstance(s, ast.Assign) and u(s.targets[0]) == "intName" and isinstance(s.value, ast.Constant) \
                and isinstance(s.value.value, str):
            return 'Leaf "%s"' % s.value.value
        if isinstance(s, ast.If) and isinstance(s.test, ast.Compare) and len(s.test.ops) == 1 \
                and type(s.test.ops[0]) in OPS and s.orelse:
            op = OPS[type(s.test.ops[0])]
            l, r = s.test.left, s.test.comparators[0]
            if isinstance(l, ast.Name) and l.id in ("maxE", "minE"):
                v, c = l.id, num_const(r)
            elif isinstance(r, ast.Name) and r.id in ("maxE", "minE"):
                v, c, op = r.id, num_const(l), FLIP[op]
            else:
                raise Unsupported("_determineIntegratorGivenEigenValue: test %s" % u(s.test))
            return "Node %s %s %s (%s) (%s)" % ("MaxE" if v == "maxE" else "MinE", op, q(c), tree(s.body), tree(s.orelse))
        raise Unsupported("_determineIntegratorGivenEigenValue: statement %s" % u(s)[:60])
    return tree([b[2]])


# ---------------------------------------------------------------------------------------- module tolerances
def x_tols():
    vals = {}
    for n in parse(OU).body:
        if isinstance(n, ast.Assign) and len(n.targets) == 1 and isinstance(n.targets[0], ast.Name) \
                and n.targets[0].id in ("atol", "rtol"):
            vals[n.targets[0].id] = num_const(n.value)
    if set(vals) != {"atol", "rtol"}:
        raise Unsupported("module-level atol/rtol not found")
    return vals


# ---------------------------------------------------------------------------------------- odeint wrapper
def x_odeint():
    f = find_function(OU, "integrate")
    if arg_names(f) != ["ode", "x0", "t", "full_output"]:
        raise Unsupported("ode_utils.integrate signature changed")
    b = body_nodoc(f)
    if len(b) != 2 or not isinstance(b[0], ast.Assign) or u(b[0].targets[0]) != canon("(solution, output)"):
        raise Unsupported("ode_utils.integrate: not `solution, output = odeint(...)` followed by the return")
    c = b[0].value
    if not (isinstance(c, ast.Call) and u(c.func) == "scipy.integrate.odeint"):
        raise Unsupported("ode_utils.integrate does not call scipy.integrate.odeint")
    if [u(a) for a in c.args] != ["ode.ode", "x0", "t"]:
        raise Unsupported("odeint positional arguments are %s" % [u(a) for a in c.args])
    kw = {k.arg: u(k.value) for k in c.keywords}
    want = dict(Dfun="ode.jacobian", full_output="True")
    for k, v in want.items():
        if kw.get(k) != v:
            raise Unsupported("odeint keyword %s=%s" % (k, kw.get(k)))
    if kw.get("col_deriv", "False") not in ("False", "0") or kw.get("tfirst", "False") != "False":
        raise Unsupported("odeint col_deriv/tfirst changed (pygom's Jacobian is J[i,j]=df_i/dx_j, callbacks are f(y,t))")
    for k in ("mu", "ml"):
        if kw.get(k, "None") != "None":
            raise Unsupported("odeint banded Jacobian requested")
    extra = set(kw) - {"Dfun", "full_output", "col_deriv", "tfirst", "mu", "ml", "mxstep"}
    if extra:
        raise Unsupported("odeint unrecognised keywords %s" % sorted(extra))
    r = b[1]
    if not (isinstance(r, ast.If) and is_true_test(r.test, "full_output")
            and [u(x) for x in r.body] == [canon("return (solution, output)")] and [u(x) for x in r.orelse] == ["return solution"]):
        raise Unsupported("ode_utils.integrate: return statements changed")


# ---------------------------------------------------------------------------------------- DeterministicOde wrappers
def resolve_alias(stmts, name):
    for s in stmts:
        if isinstance(s, ast.Assign) and len(s.targets) == 1 and u(s.targets[0]) == name:
            return u(s.value)
    return None


def x_wrappers():
    cls = "DeterministicOde"
    # _setIntegrateTime
    f = find_method(DET, cls, "_setIntegrateTime")
    appends = [n for n in ast.walk(f) if isinstance(n, ast.Call) and u(n.func) in ("np.append", "numpy.append")]
    if len(appends) != 2:
        raise Unsupported("_setIntegrateTime: expected two np.append calls")
    forms = set()
    for a in appends:
        args = [u(x) for x in a.args]
        if len(args) != 2 or a.keywords:
            raise Unsupported("_setIntegrateTime: np.append%s" % args)
        if args[0] == "self._t0" and args[1] in ("t", "np.array(t)"):
            forms.add(True)
        elif args[1] == "self._t0" and args[0] in ("t", "np.array(t)"):
            forms.add(False)
        else:
            raise Unsupported("_setIntegrateTime: np.append%s" % args)
    if len(forms) != 1:
        raise Unsupported("_setIntegrateTime: the list and scalar branches disagree on where t0 goes")
    prepends = forms.pop()
    b = body_nodoc(f)
    if u(b[-1]) != "self._odeTime = t":
        raise Unsupported("_setIntegrateTime: does not end with self._odeTime = t")
    for s in ast.walk(f):
        if isinstance(s, ast.Assign) and u(s.targets[0]) == "t" and not (isinstance(s.value, ast.Call) and s.value in appends):
            raise Unsupported("_setIntegrateTime: t reassigned by %s" % u(s))
    # _integrate
    f = find_method(DET, cls, "_integrate")
    b = body_nodoc(f)
    if resolve_alias(b, "f") != "ode_utils.integrate":
        raise Unsupported("_integrate: f is not ode_utils.integrate")
    calls = [s for s in b if isinstance(s, ast.Assign) and u(s.targets[0]) == canon("(self._odeSolution, self._odeOutput)")]
    if len(calls) != 1 or u(calls[0].value) != "f(self, self._x0, t, full_output=True)":
        raise Unsupported("_integrate: call changed: %s" % [u(c.value) for c in calls])
    r = b[-1]
    if not (isinstance(r, ast.If) and is_true_test(r.test, "full_output")
            and [u(x) for x in r.body] == [canon("return (self._odeSolution, self._odeOutput)")]
            and [u(x) for x in r.orelse] == ["return self._odeSolution"]):
        raise Unsupported("_integrate: return statements changed")
    # _integrate2
    f = find_method(DET, cls, "_integrate2")
    b = body_nodoc(f)
    if resolve_alias(b, "f") != "ode_utils.integrateFuncJac":
        raise Unsupported("_integrate2: f is not ode_utils.integrateFuncJac")
    calls = [s for s in b if isinstance(s, ast.Assign) and u(s.targets[0]) == canon("(self._odeSolution, self._odeOutput)")]
    if len(calls) != 1 or not isinstance(calls[0].value, ast.Call) or u(calls[0].value.func) != "f":
        raise Unsupported("_integrate2: call changed")
    c = calls[0].value
    pa = [u(x) for x in c.args]
    if len(pa) != 5 or pa[:4] != ["self.ode_T", "self.jacobian_T", "self._x0", "t[0]"]:
        raise Unsupported("_integrate2: positional arguments %s" % pa)
    g = c.args[4]
    if not (isinstance(g, ast.Subscript) and u(g.value) == "t" and isinstance(g.slice, ast.Slice)
            and g.slice.upper is None and (g.slice.step is None or u(g.slice.step) == "1")
            and isinstance(g.slice.lower, ast.Constant) and isinstance(g.slice.lower.value, int)
            and g.slice.lower.value >= 0):
        raise Unsupported("_integrate2: grid argument %s is not t[k:]" % pa[4])
    skip = g.slice.lower.value
    kw = {k.arg: u(k.value) for k in c.keywords}
    if set(kw) != {"includeOrigin", "full_output", "method"} or kw["method"] != "method" \
            or kw["includeOrigin"] not in ("True", "False") or kw["full_output"] not in ("True", "False"):
        raise Unsupported("_integrate2: keywords %s" % kw)
    r = b[-1]
    if not (isinstance(r, ast.If) and is_true_test(r.test, "full_output")
            and [u(x) for x in r.body] == [canon("return (self._odeSolution, self._odeOutput)")]
            and [u(x) for x in r.orelse] == ["return self._odeSolution"]):
        raise Unsupported("_integrate2: return statements changed")
    if kw["full_output"] != "True":
        raise Unsupported("_integrate2: asks integrateFuncJac for a bare array but unpacks a pair")
    # integrate / integrate2
    for name, ret in (("integrate", "return self._integrate(self._odeTime, full_output)"),
                      ("integrate2", "return self._integrate2(self._odeTime, full_output, method)")):
        f = find_method(DET, cls, name)
        b = body_nodoc(f)
        if u(b[0]) != "self._setIntegrateTime(t)" or u(b[-1]) != ret:
            raise Unsupported("%s: does not call _setIntegrateTime(t) first and end with `%s`" % (name, ret))
        for s in b[1:-1]:
            if has_return([s]) or (stores(s) & {"t", "full_output", "method"}) or "_odeTime" in u(s) or "_x0" in u(s) \
                    or "_t0" in u(s):
                raise Unsupported("%s: unrecognised statement %s" % (name, u(s)[:60]))
    # ode_T / jacobian_T
    for name, ret in (("ode_T", "return self.ode(state, t)"), ("jacobian_T", "return self.jacobian(state, t)")):
        f = find_method(DET, cls, name)
        if arg_names(f) != ["self", "t", "state"] or [u(x) for x in body_nodoc(f)] != [ret]:
            raise Unsupported("%s changed" % name)
    # solve_determ, fixed-parameter branch
    f = find_method(SIM, "SimulateOde", "solve_determ")
    ok = False
    for s in body_nodoc(f):
        if isinstance(s, ast.If) and u(s.test) == "self._stochasticParam is None":
            bb = [u(x) for x in s.body]
            ok = bb in (["solution = self.integrate(t)", "return solution"], ["return self.integrate(t)"])
            break
        if has_return([s]) or (stores(s) & {"t"}):
            break
    if not ok:
        raise Unsupported("solve_determ: fixed-parameter branch is not `return self.integrate(t)`")
    return dict(prepends=prepends, skip=skip, origin=kw["includeOrigin"] == "True", full=kw["full_output"] == "True")


# ---------------------------------------------------------------------------------------- evaluator containers
def x_containers():
    f = find_method(DET, "DeterministicOde", "__init__")
    jac = None
    for n in ast.walk(f):
        if isinstance(n, ast.Call) and u(n.func) == "self.add_func" and n.args and isinstance(n.args[0], ast.Constant) \
                and n.args[0].value == "jacobian":
            if jac is not None:
                raise Unsupported("jacobian registered twice")
            kw = {k.arg: k.value for k in n.keywords}
            o = kw.get("oT")
            if o is None or (isinstance(o, ast.Constant) and o.value is None):
                jac = "None"
            elif isinstance(o, ast.Constant) and isinstance(o.value, str) and o.value.lower() in ("mat", "vec"):
                jac = "Some OMat" if o.value.lower() == "mat" else "Some OVec"
            else:
                raise Unsupported("jacobian oT=%s" % u(o))
    if jac is None:
        raise Unsupported("add_func('jacobian', ...) not found")
    f = find_method(OU, "compileCode", "compileExprAndFormat")
    rule = None
    for n in ast.walk(f):
        if isinstance(n, ast.If) and u(n.test) == "outType is None":
            if len(n.body) == 1 and isinstance(n.body[0], ast.If) and \
                    u(n.body[0].test) in ("numRow == 1 or numCol == 1", "numCol == 1 or numRow == 1") and \
                    [u(x) for x in n.body[0].body] == ["outType = 'vec'"] and \
                    [u(x) for x in n.body[0].orelse] == ["outType = 'mat'"]:
                rule = True
    if rule is None:
        raise Unsupported("compileExprAndFormat: container rule for outType=None not in the recognised form")
    return jac


# ---------------------------------------------------------------------------------------- measured scipy facts
def measure_scipy():
    """which scipy.integrate.ode integrators overwrite the array `ode.y` returned by the previous integrate()
    call, and whether set_initial_value copies its argument.  Measured, not assumed."""
    import numpy as np
    import scipy.integrate as si
    f = lambda t, y: -y
    j = lambda t, y: -np.eye(2)
    out = {}
    cfgs = dict(Lsoda=("lsoda", dict(with_jacobian=True)), Vode=("vode", dict(with_jacobian=True)),
                VodeBdf=("vode", dict(method="bdf", with_jacobian=True)), Dopri5=("dopri5", {}), Dop853=("dop853", {}))
    setiv = set()
    for k, (name, kw) in cfgs.items():
        r = si.ode(f, j).set_integrator(name, atol=1e-10, rtol=1e-10, **kw)
        x0 = np.array([1.0, 2.0])
        r.set_initial_value(x0, 0.0)
        setiv.add(not np.shares_memory(r.y, x0))
        a = r.integrate(0.5)
        a0 = a.copy()
        b = r.integrate(1.0)
        changed = not np.array_equal(a, a0)
        if changed != np.shares_memory(a, b):
            raise Unsupported("scipy %s: inconsistent aliasing measurement" % name)
        out[k] = bool(changed)
    if len(setiv) != 1:
        raise Unsupported("scipy: set_initial_value copies for some integrators only")
    out["setiv_copies"] = bool(setiv.pop())
    return out


BAD = """Definition steps : step_facts := {| ret_plain := RetAlias; ret_full := RetAlias; resetup_full := false; origin_copy := false |}.
Definition wraps : wrap_facts := {| settime_prepends := false; i2_skip := 0; i2_origin := false; i2_full := false |}.
Definition disp : dispatch := {| d_table := []; d_default := Lsoda; d_eig := Leaf ""; d_plain_default := "" |}.
Definition scipy : scipy_tbl := {| ip_lsoda := true; ip_vode := true; ip_vodebdf := true; ip_dopri5 := true; ip_dop853 := true; setiv_copies := false |}.
Definition solver_atol : Q := 1. Definition solver_rtol : Q := 1.
Definition jacobian_outtype : option outtype := None.
"""
HEAD = """From Coq Require Import List String QArith.
From PV Require Import Integrate.
Import ListNotations.
Local Open Scope string_scope.
"""


def generate(measured=None):
    try:
        ret_plain, ret_full = x_one_step()
        fj = x_funcjac()
        table, default = x_setup()
        eig = x_eig()
        tols = x_tols()
        x_odeint()
        w = x_wrappers()
        jac = x_containers()
        m = measured or measure_scipy()
        b = coq_bool
        return ("(* GENERATED from ode_utils/__init__.py, deterministic.py, simulate.py and the installed scipy *)\n" + HEAD +
                "Definition translator_ok := true.\n"
                "Definition steps : step_facts := {| ret_plain := %s; ret_full := %s; resetup_full := %s; origin_copy := %s |}.\n"
                % (ret_plain, ret_full, b(fj["resetup"]), b(fj["origin"])) +
                "Definition wraps : wrap_facts := {| settime_prepends := %s; i2_skip := %d; i2_origin := %s; i2_full := %s |}.\n"
                % (b(w["prepends"]), w["skip"], b(w["origin"]), b(w["full"])) +
                "Definition disp : dispatch := {| d_table := [%s];\n  d_default := %s;\n  d_eig := %s;\n  d_plain_default := \"%s\" |}.\n"
                % ("; ".join('("%s", %s)' % (s, k) for s, k in table), default, eig, fj["plain_default"]) +
                "Definition scipy : scipy_tbl := {| ip_lsoda := %s; ip_vode := %s; ip_vodebdf := %s; ip_dopri5 := %s; ip_dop853 := %s; setiv_copies := %s |}.\n"
                % tuple(b(m[k]) for k in ("Lsoda", "Vode", "VodeBdf", "Dopri5", "Dop853", "setiv_copies")) +
                "Definition solver_atol : Q := %s.\nDefinition solver_rtol : Q := %s.\n" % (q(tols["atol"]), q(tols["rtol"])) +
                "Definition jacobian_outtype : option outtype := %s.\n" % jac)
    except (Unsupported, ValueError, TypeError, IndexError, KeyError, AttributeError, AssertionError, RecursionError) as e:   # any surprise in the source = fail closed
        return failed("IntegrateGen", str(e)) + HEAD + BAD


if __name__ == "__main__":
    print(generate())
