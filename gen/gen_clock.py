"""C05 translator: the clock rule of exact simulation -> coq/Gen/ClockGen.v

Extracted by `ast` from the current source (fail-closed, nothing is guessed):
  utilR/distn.py            rexp            numpy sampler used, `scale=` expression (a term in `rate`), size, [0]
  stochastic_simulation.py  _newJumpTimes   guard on the rate, the arguments handed to rexp (n, rate), the else value,
                                            iteration order
                            firstReaction   where the rates come from, the selection (np.argmin / np.argmax of the jump
                                            times), which clock is handed on as the time step, what the one-hot `jumps`
                                            and the state update are indexed by
                            _checkJump      the time update on success
  simulate.py               _jump           the exact branch calls firstReaction(x, lims, t, vMat, eventRateVector)
                                            and records the returned time
"""
import ast
from pyast import *

SS = "model/stochastic_simulation.py"


# ------------------------------------------------------------------ small expression printer (two carriers)
def _const(v, carrier):
    if isinstance(v, bool) or not isinstance(v, (int, float)) or float(v) != int(v):
        raise Unsupported("constant %r" % (v,))
    z = int(v)
    if z in (0, 1):
        return str(z)
    return ("(Q2Qc (inject_Z (%d)))" if carrier == "Q" else "(IZR (%d))") % z


def expr(e, var, carrier):
    """arithmetic term in the single variable `var` -> Coq text over Qc ('Q') or R ('R')"""
    if isinstance(e, ast.Name):
        if e.id != var:
            raise Unsupported("free name %s in expression (only %s allowed)" % (e.id, var))
        return "x"
    if isinstance(e, ast.Constant):
        return _const(e.value, carrier)
    if isinstance(e, ast.UnaryOp) and isinstance(e.op, ast.USub):
        return "(- %s)" % expr(e.operand, var, carrier)
    if isinstance(e, ast.BinOp):
        ops = {ast.Add: "+", ast.Sub: "-", ast.Mult: "*", ast.Div: "/"}
        for k, s in ops.items():
            if isinstance(e.op, k):
                return "(%s %s %s)" % (expr(e.left, var, carrier), s, expr(e.right, var, carrier))
    raise Unsupported("expression " + ast.unparse(e))


def bind(call, fdef):
    """map the arguments of `call` to the parameter names of `fdef` (positional + keywords)"""
    names = [a.arg for a in fdef.args.args]
    out = {}
    for i, a in enumerate(call.args):
        if isinstance(a, ast.Starred) or i >= len(names):
            raise Unsupported("call " + ast.unparse(call))
        out[names[i]] = a
    for k in call.keywords:
        if k.arg is None or k.arg not in names or k.arg in out:
            raise Unsupported("call " + ast.unparse(call))
        out[k.arg] = k.value
    return out


def is_inf(e):
    s = ast.unparse(e)
    return s in ("np.inf", "numpy.inf", "np.Inf", "float('inf')", 'float("inf")', "math.inf")


def body_no_doc(f):
    b = list(f.body)
    if b and isinstance(b[0], ast.Expr) and isinstance(b[0].value, ast.Constant) and isinstance(b[0].value.value, str):
        b = b[1:]
    return b


# ------------------------------------------------------------------ rexp
def read_rexp():
    f = find_function("utilR/distn.py", "rexp")
    params = [a.arg for a in f.args.args]
    if params[:2] != ["n", "rate"]:
        raise Unsupported("rexp signature " + str(params))
    # every binding of rvs must be an `.exponential` attribute of numpy's global generator or of a RandomState
    rvs_src = []
    for n in walk_no_nested(f):
        if isinstance(n, ast.Assign) and ast.unparse(n.targets[0]) == "rvs":
            rvs_src.append(ast.unparse(n.value))
    if not rvs_src:
        raise Unsupported("rexp: sampler binding not found")
    for s in rvs_src:
        if s not in ("np.random.exponential", "numpy.random.exponential", "test_seed(seed).exponential"):
            raise Unsupported("rexp: sampler " + s)
    rets = [n for n in walk_no_nested(f) if isinstance(n, ast.Return)]
    if not rets:
        raise Unsupported("rexp: no return")
    scales, subs = [], []
    for r in rets:
        v = r.value
        sub = None
        if isinstance(v, ast.Subscript):
            sub = ast.unparse(v.slice)
            v = v.value
        if not (isinstance(v, ast.Call) and ast.unparse(v.func) == "rvs"):
            raise Unsupported("rexp: return " + ast.unparse(r))
        kw = {k.arg: k.value for k in v.keywords}
        pos = list(v.args)
        sc = kw.get("scale", pos[0] if pos else None)
        sz = kw.get("size", pos[1] if len(pos) > 1 else None)
        if sc is None or sz is None or ast.unparse(sz) != "n" or set(kw) - {"scale", "size"} or len(pos) > 2:
            raise Unsupported("rexp: sampler call " + ast.unparse(v))
        scales.append(sc)
        subs.append(sub)
    if len({ast.dump(s) for s in scales}) != 1:
        raise Unsupported("rexp: the branches use different scale expressions")
    # which return is taken for n = 1 ?
    taken = None
    top = body_no_doc(f)
    last = top[-1]
    if isinstance(last, ast.If) and isinstance(last.test, ast.Compare) and len(last.test.ops) == 1 \
            and ast.unparse(last.test.left) == "n" and isinstance(last.test.comparators[0], ast.Constant):
        c = last.test.comparators[0].value
        op = type(last.test.ops[0])
        val = {ast.Gt: 1 > c, ast.GtE: 1 >= c, ast.Lt: 1 < c, ast.LtE: 1 <= c, ast.Eq: 1 == c, ast.NotEq: 1 != c}.get(op)
        if val is None:
            raise Unsupported("rexp: size test " + ast.unparse(last.test))
        br = last.body if val else last.orelse
        if len(br) == 1 and isinstance(br[0], ast.Return):
            taken = rets.index(br[0])
    elif isinstance(last, ast.Return) and len(rets) == 1:
        taken = 0
    if taken is None:
        raise Unsupported("rexp: cannot determine the return taken for n = 1")
    if subs[taken] != "0":
        raise Unsupported("rexp: for n = 1 the result is not element [0] of the sample")
    return scales[0]


# ------------------------------------------------------------------ _newJumpTimes
def read_new_jump_times(rexp_def):
    f = find_function(SS, "_newJumpTimes")
    rates_name = f.args.args[0].arg
    comp = None
    for n in walk_no_nested(f):
        if isinstance(n, ast.ListComp):
            if comp is not None:
                raise Unsupported("_newJumpTimes: two comprehensions")
            comp = n
    if comp is None:
        raise Unsupported("_newJumpTimes: list comprehension not found")
    if len(comp.generators) != 1:
        raise Unsupported("_newJumpTimes: nested comprehension")
    g = comp.generators[0]
    if g.ifs or g.is_async or not isinstance(g.target, ast.Name) or ast.unparse(g.iter) != rates_name:
        raise Unsupported("_newJumpTimes: generator " + ast.unparse(g))
    v = g.target.id
    # the comprehension must be what is returned, in order
    body = body_no_doc(f)
    ok_ret = False
    if len(body) == 2 and isinstance(body[0], ast.Assign) and body[0].value is comp and isinstance(body[1], ast.Return):
        tn = ast.unparse(body[0].targets[0])
        ok_ret = ast.unparse(body[1].value) in ("np.array(%s)" % tn, "numpy.array(%s)" % tn, tn)
    elif len(body) == 1 and isinstance(body[0], ast.Return):
        r = body[0].value
        ok_ret = r is comp or (isinstance(r, ast.Call) and ast.unparse(r.func) in ("np.array", "numpy.array")
                               and len(r.args) == 1 and r.args[0] is comp)
    if not ok_ret:
        raise Unsupported("_newJumpTimes: the comprehension is not returned as it is")
    e = comp.elt
    if not isinstance(e, ast.IfExp):
        raise Unsupported("_newJumpTimes: element " + ast.unparse(e))
    neg = False
    call, other = e.body, e.orelse
    if is_inf(call):
        call, other, neg = e.orelse, e.body, True
    if not is_inf(other):
        raise Unsupported("_newJumpTimes: value without a clock is %s, not +inf" % ast.unparse(other))
    if not (isinstance(call, ast.Call) and ast.unparse(call.func) == "rexp"):
        raise Unsupported("_newJumpTimes: clock " + ast.unparse(call))
    b = bind(call, rexp_def)
    if "n" not in b or not (isinstance(b["n"], ast.Constant) and b["n"].value == 1 and not isinstance(b["n"].value, bool)):
        raise Unsupported("_newJumpTimes: rexp is not asked for exactly one variate")
    if "rate" not in b:
        raise Unsupported("_newJumpTimes: no rate handed to rexp (default rate 1.0 would be used)")
    if "seed" in b and ast.unparse(b["seed"]) not in ("seed", "None"):
        raise Unsupported("_newJumpTimes: seed argument " + ast.unparse(b["seed"]))
    # guard
    t = e.test
    if not (isinstance(t, ast.Compare) and len(t.ops) == 1):
        raise Unsupported("_newJumpTimes: guard " + ast.unparse(t))
    l, r, op = t.left, t.comparators[0], type(t.ops[0])

    def side(s):
        if isinstance(s, ast.Name) and s.id == v:
            return "x"
        if isinstance(s, ast.Constant):
            return _const(s.value, "Q")
        raise Unsupported("_newJumpTimes: guard " + ast.unparse(t))
    L, R = side(l), side(r)
    form = {ast.Gt: "Qcltb %s %s" % (R, L), ast.Lt: "Qcltb %s %s" % (L, R),
            ast.GtE: "Qcleb %s %s" % (R, L), ast.LtE: "Qcleb %s %s" % (L, R),
            ast.NotEq: "negb (Qceqb %s %s)" % (L, R), ast.Eq: "Qceqb %s %s" % (L, R)}.get(op)
    if form is None:
        raise Unsupported("_newJumpTimes: guard " + ast.unparse(t))
    if neg:
        form = "negb (%s)" % form
    return form, b["rate"], v


# ------------------------------------------------------------------ firstReaction / _checkJump / _jump
def read_first_reaction():
    f = find_function(SS, "firstReaction")
    cj = find_function(SS, "_checkJump")
    njt = find_function(SS, "_newJumpTimes")
    usj = find_function(SS, "_updateStateWithJump")
    params = [a.arg for a in f.args.args]
    if params[:5] != ["x", "x_lims", "t", "state_change_mat", "transition_func"]:
        raise Unsupported("firstReaction signature " + str(params))
    assigns = {}
    for n in walk_no_nested(f):
        if isinstance(n, ast.Assign) and len(n.targets) == 1 and isinstance(n.targets[0], ast.Name):
            k = n.targets[0].id
            if k in assigns and ast.dump(assigns[k]) != ast.dump(n.value):
                raise Unsupported("firstReaction: %s assigned twice" % k)
            assigns[k] = n.value
    # final return
    last = f.body[-1]
    if not (isinstance(last, ast.Return) and isinstance(last.value, ast.Call) and ast.unparse(last.value.func) == "_checkJump"):
        raise Unsupported("firstReaction: does not end in return _checkJump(...)")
    b = bind(last.value, cj)
    if ast.unparse(b.get("t", ast.Name(id="?"))) != "t":
        raise Unsupported("firstReaction: time handed to _checkJump is not t")
    jt_expr = b.get("jump_time")
    if jt_expr is None:
        raise Unsupported("firstReaction: no jump_time handed to _checkJump")
    # jump-times vector name and its provenance
    jt_name = None
    for k, v in assigns.items():
        if isinstance(v, ast.Call) and ast.unparse(v.func) == "_newJumpTimes":
            if jt_name is not None:
                raise Unsupported("firstReaction: _newJumpTimes called twice")
            jt_name = k
            bb = bind(v, njt)
            rates_expr = bb.get("rates")
    if jt_name is None or rates_expr is None or not isinstance(rates_expr, ast.Name):
        raise Unsupported("firstReaction: jump times are not _newJumpTimes(<rates>)")
    rv = assigns.get(rates_expr.id)
    if rv is None or ast.unparse(rv) != "transition_func(x, t)":
        raise Unsupported("firstReaction: rates are %s, not transition_func(x, t)" % (ast.unparse(rv) if rv else None))
    # selection
    idx_name = sel = None
    for k, v in assigns.items():
        if isinstance(v, ast.Call) and ast.unparse(v.func) in ("np.argmin", "np.argmax", "numpy.argmin", "numpy.argmax"):
            if idx_name is not None:
                raise Unsupported("firstReaction: two selections")
            if len(v.args) != 1 or v.keywords or ast.unparse(v.args[0]) != jt_name:
                raise Unsupported("firstReaction: selection " + ast.unparse(v))
            idx_name = k
            sel = "SelArgmin" if ast.unparse(v.func).endswith("argmin") else "SelArgmax"
    if idx_name is None:
        raise Unsupported("firstReaction: no np.argmin/np.argmax of the jump times")
    s = ast.unparse(jt_expr)
    if s == "%s[%s]" % (jt_name, idx_name):
        dt = "DtAtSel"
    elif s in ("np.min(%s)" % jt_name, "%s.min()" % jt_name, "min(%s)" % jt_name):
        dt = "DtMin"
    elif s in ("np.max(%s)" % jt_name, "%s.max()" % jt_name, "max(%s)" % jt_name):
        dt = "DtMax"
    else:
        raise Unsupported("firstReaction: time step handed on is " + s)
    # one-hot jumps and state update at the selected index
    onehot = False
    for n in walk_no_nested(f):
        if isinstance(n, ast.Assign) and ast.unparse(n.targets[0]) == "jumps[%s]" % idx_name and ast.unparse(n.value) == "1":
            onehot = True
    if ast.unparse(assigns.get("jumps", ast.Name(id="?"))) != "[0] * len(%s)" % rates_expr.id:
        onehot = False
    upd = False
    nx = b.get("x_new")
    if isinstance(nx, ast.Name) and nx.id in assigns and isinstance(assigns[nx.id], ast.Call) \
            and ast.unparse(assigns[nx.id].func) == "_updateStateWithJump":
        ub = bind(assigns[nx.id], usj)
        upd = ast.unparse(ub.get("transition_index", ast.Name(id="?"))) == idx_name and ast.unparse(ub.get("x")) == "x"
    # _checkJump: time update on success; returned tuple starts (t_new, jump_time, ...)
    tupd = None
    for n in walk_no_nested(cj):
        if isinstance(n, ast.If) and ast.unparse(n.test) == "failed_jump":
            for m in n.orelse:
                if isinstance(m, ast.Assign) and ast.unparse(m.targets[0]) == "t_new":
                    s = ast.unparse(m.value)
                    tupd = {"t + jump_time": "TPlusDt", "jump_time + t": "TPlusDt", "t - jump_time": "TMinusDt",
                            "jump_time": "TDtOnly"}.get(s)
                    if tupd is None:
                        raise Unsupported("_checkJump: time update t_new = " + s)
    if tupd is None:
        raise Unsupported("_checkJump: time update on success not found")
    rl = cj.body[-1]
    if not (isinstance(rl, ast.Return) and isinstance(rl.value, ast.Tuple) and
            [ast.unparse(e) for e in rl.value.elts][:2] == ["t_new", "jump_time"]):
        raise Unsupported("_checkJump: return tuple does not start with (t_new, jump_time)")
    return sel, dt, tupd, onehot, upd


def read_jump():
    f = find_method("model/simulate.py", "SimulateOde", "_jump")
    calls = [n for n in walk_no_nested(f) if isinstance(n, ast.Assign) and isinstance(n.value, ast.Call)
             and ast.unparse(n.value.func) == "firstReaction"]
    if not calls:
        raise Unsupported("_jump: firstReaction is not called")
    fr = find_function(SS, "firstReaction")
    for c in calls:
        b = bind(c.value, fr)
        want = dict(x="x", x_lims="self._state_lims", t="t", state_change_mat="self.vMat", transition_func="self.eventRateVector")
        for k, v in want.items():
            if k not in b or ast.unparse(b[k]) != v:
                raise Unsupported("_jump: firstReaction argument %s is %s" % (k, ast.unparse(b[k]) if k in b else None))
        tg = ast.unparse(c.targets[0])
        if tg not in ("(t, jump_time, x, jumps, success)", "t, jump_time, x, jumps, success"):
            raise Unsupported("_jump: result of firstReaction unpacked as " + tg)
    src = ast.unparse(f)
    if "tList.append(t)" not in src or "while t < finalT" not in src:
        raise Unsupported("_jump: loop / time record not in the expected form")
    return True


FALLBACK = """Definition rexp_scale_Q (x : Qc) : Qc := (1 / x)%Qc.
Definition rexp_scale_R (x : R) : R := (1 / x)%R.
Definition clock_guard (x : Qc) : bool := Qcltb 0 x.
Definition clock_rate_arg_Q (x : Qc) : Qc := x.
Definition clock_rate_arg_R (x : R) : R := x.
Definition fr_select := SelArgmin.
Definition fr_dt := DtAtSel.
Definition cj_time_update := TPlusDt.
Definition fr_jumps_onehot_at_selected := false.
Definition fr_state_update_at_selected := false.
Definition jump_exact_branch_is_first_reaction := false.
"""

HEAD = """From Coq Require Import QArith Qcanon Reals Bool.
From PV Require Import FirstReaction.
"""


def generate():
    try:
        rexp_def = find_function("utilR/distn.py", "rexp")
        scale = read_rexp()
        guard, rate_arg, v = read_new_jump_times(rexp_def)
        sel, dt, tupd, onehot, upd = read_first_reaction()
        jmp = read_jump()
        return ("(* GENERATED from utilR/distn.py (rexp), model/stochastic_simulation.py (_newJumpTimes, firstReaction,\n"
                "   _checkJump) and model/simulate.py (_jump).  x stands for the single variable of each expression. *)\n"
                + HEAD +
                "Definition translator_ok := true.\n"
                "(* rexp(n, rate): numpy `exponential(scale=<this>, size=n)`, element [0] when n = 1 *)\n"
                "Definition rexp_scale_Q (x : Qc) : Qc := %s%%Qc.\n"
                "Definition rexp_scale_R (x : R) : R := %s%%R.\n"
                "(* _newJumpTimes: [rexp(1, <rate_arg>) if <guard> else inf for x in rates] *)\n"
                "Definition clock_guard (x : Qc) : bool := %s.\n"
                "Definition clock_rate_arg_Q (x : Qc) : Qc := %s%%Qc.\n"
                "Definition clock_rate_arg_R (x : R) : R := %s%%R.\n"
                "(* firstReaction / _checkJump *)\n"
                "Definition fr_select := %s.\nDefinition fr_dt := %s.\nDefinition cj_time_update := %s.\n"
                "Definition fr_jumps_onehot_at_selected := %s.\nDefinition fr_state_update_at_selected := %s.\n"
                "Definition jump_exact_branch_is_first_reaction := %s.\n"
                % (expr(scale, "rate", "Q"), expr(scale, "rate", "R"), guard,
                   expr(rate_arg, v, "Q"), expr(rate_arg, v, "R"), sel, dt, tupd,
                   coq_bool(onehot), coq_bool(upd), coq_bool(jmp)))
    except (Unsupported, ValueError, TypeError, IndexError, KeyError, AttributeError, AssertionError, RecursionError) as u:   # any surprise in the source = fail closed
        return HEAD + failed("ClockGen", str(u)) + FALLBACK


if __name__ == "__main__":
    print(generate())
