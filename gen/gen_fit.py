"""C18 translator: facts about BaseLoss.fit (src/pygom/loss/base_loss.py) -> coq/Gen/FitGen.v

Extracted (by ast, fail-closed):
  * the bounds-packing expression  np.reshape(np.append(P, Q), (R, C), ORDER)  -> concatenation order, target shape,
    reshape order (also accepted: the .reshape method form, np.concatenate/np.hstack, and the pair-building forms
    np.column_stack((P, Q)), np.vstack((P, Q)).T, np.array([P, Q]).T, np.transpose([P, Q]) which are the good packing);
  * the minimize(...) call: fun=self.<attr>, jac=self.<attr>, x0 = the untouched argument x, bounds = the packed
    variable (assigned once, never mutated), method = the variable set by the `A is None` rule;
  * the method rule, the return rule under full_output, the two length checks and the None defaults.
"""
import ast
from pyast import *

REL = "loss/base_loss.py"
OBJ = {"cost": "ObjCost", "costIV": "ObjCostIV"}
GRAD = {"sensitivity": "GradSensitivity", "sensitivityIV": "GradSensitivityIV", "adjoint": "GradAdjoint",
        "gradient": "GradGradient"}
METHOD = {"L-BFGS-B": "LBFGSB", "SLSQP": "SLSQP"}
DEFAULT_FORMS = ("np.array([None] * len(x))", "np.array([None for _ in range(len(x))])", "np.array([None for i in range(len(x))])")
ALLOWED_ASSIGN = {"con_list", "method", "A", "n", "p", "callback", "a"}

FALLBACK = ("Definition pack_facts := mkPack false LenLb (Lit 0) OrdC.\n"
            "Definition call_facts := mkCall ObjOther GradOther OtherMethod OtherMethod RetOther RetOther false false.\n")
HEAD = "From PV Require Import Fit.\n"


def _u(n):
    return ast.unparse(n)


def _dim(n):
    s = _u(n)
    if s == "len(lb)": return "LenLb"
    if s == "len(ub)": return "LenUb"
    if s == "len(x)": return "LenX"
    if isinstance(n, ast.Constant) and isinstance(n.value, int) and not isinstance(n.value, bool) and n.value >= 0:
        return "(Lit %d)" % n.value
    raise Unsupported("shape component " + s)


def _order(n):
    if n is None:
        return "OrdC"
    if isinstance(n, ast.Constant) and n.value in ("F", "C"):
        return "Ord" + n.value
    raise Unsupported("reshape order " + _u(n))


def _two_names(args):
    """(P, Q) from f(P, Q) or f((P, Q)) / f([P, Q]) with P, Q in {lb, ub}, distinct"""
    if len(args) == 1 and isinstance(args[0], (ast.Tuple, ast.List)):
        args = args[0].elts
    if len(args) != 2 or not all(isinstance(a, ast.Name) for a in args):
        raise Unsupported("concatenation arguments " + ", ".join(_u(a) for a in args))
    p, q = args[0].id, args[1].id
    if {p, q} != {"lb", "ub"}:
        raise Unsupported("concatenation of %s and %s" % (p, q))
    return p == "lb"


def _concat(n):
    """np.append(P, Q) | np.concatenate((P, Q)) | np.hstack((P, Q))  -> lb_first"""
    if isinstance(n, ast.Call) and not n.keywords:
        f = _u(n.func)
        if f in ("np.append", "numpy.append") and len(n.args) == 2:
            return _two_names(n.args)
        if f in ("np.concatenate", "np.hstack", "numpy.concatenate", "numpy.hstack") and len(n.args) == 1:
            return _two_names(n.args)
    raise Unsupported("flat vector expression " + _u(n))


def parse_pack(e):
    """-> (lb_first, rows, cols, order) as Coq text"""
    if isinstance(e, ast.Call):
        f = _u(e.func)
        kw = {k.arg: k.value for k in e.keywords}
        if any(k is None for k in kw) or set(kw) - {"order", "newshape", "shape"}:
            raise Unsupported("reshape keywords " + _u(e))
        # np.reshape(V, (R, C), ORDER)
        if f in ("np.reshape", "numpy.reshape"):
            args = list(e.args)
            if not args:
                raise Unsupported("reshape without array")
            v = args[0]
            shape = args[1] if len(args) > 1 else kw.get("newshape", kw.get("shape"))
            order = args[2] if len(args) > 2 else kw.get("order")
            if len(args) > 3 or shape is None:
                raise Unsupported("reshape arguments " + _u(e))
        # V.reshape((R, C), order=) / V.reshape(R, C, order=)
        elif isinstance(e.func, ast.Attribute) and e.func.attr == "reshape":
            v = e.func.value
            if len(e.args) == 1:
                shape = e.args[0]
            elif len(e.args) == 2:
                shape = ast.Tuple(elts=list(e.args), ctx=ast.Load())
            else:
                raise Unsupported("reshape arguments " + _u(e))
            if set(kw) - {"order"}:
                raise Unsupported("reshape keywords " + _u(e))
            order = kw.get("order")
        # pair-building forms: the good packing by construction
        elif f in ("np.column_stack", "numpy.column_stack") and len(e.args) == 1 and not e.keywords:
            return _two_names(e.args), "LenLb", "(Lit 2)", "OrdF"
        elif f in ("np.transpose", "numpy.transpose") and len(e.args) == 1 and not e.keywords:
            return _two_names(e.args), "LenLb", "(Lit 2)", "OrdF"
        else:
            raise Unsupported("packing expression " + _u(e))
        if not (isinstance(shape, ast.Tuple) and len(shape.elts) == 2):
            raise Unsupported("target shape " + _u(shape))
        return _concat(v), _dim(shape.elts[0]), _dim(shape.elts[1]), _order(order)
    if isinstance(e, ast.Attribute) and e.attr == "T" and isinstance(e.value, ast.Call) and not e.value.keywords:
        f = _u(e.value.func)
        if f in ("np.vstack", "np.array", "np.asarray", "numpy.vstack", "numpy.array") and len(e.value.args) == 1:
            return _two_names(e.value.args), "LenLb", "(Lit 2)", "OrdF"
    raise Unsupported("packing expression " + _u(e))


def _self_attr(n, what):
    if isinstance(n, ast.Attribute) and isinstance(n.value, ast.Name) and n.value.id == "self":
        return n.attr
    raise Unsupported("%s is not an attribute of self: %s" % (what, _u(n)))


def _ret(n, res):
    s = _u(n)
    if s in ("%s['x']" % res, '%s["x"]' % res, "%s.x" % res):
        return "RetResX"
    if s == res:
        return "RetRes"
    return "RetOther"


def _targets(node):
    """base names written by an assignment-like statement"""
    out = []
    def base(t):
        if isinstance(t, ast.Name):
            out.append((t.id, True))
        elif isinstance(t, (ast.Subscript, ast.Attribute)):
            b = t
            while isinstance(b, (ast.Subscript, ast.Attribute)):
                b = b.value
            if isinstance(b, ast.Name):
                out.append((b.id, False))
            else:
                raise Unsupported("assignment target " + _u(t))
        elif isinstance(t, (ast.Tuple, ast.List)):
            for e in t.elts:
                base(e)
        elif isinstance(t, ast.Starred):
            base(t.value)
        else:
            raise Unsupported("assignment target " + _u(t))
    if isinstance(node, ast.Assign):
        for t in node.targets:
            base(t)
    elif isinstance(node, (ast.AugAssign, ast.AnnAssign)):
        base(node.target)
    elif isinstance(node, (ast.For, ast.AsyncFor)):
        base(node.target)
    elif isinstance(node, ast.NamedExpr):
        base(node.target)
    elif isinstance(node, (ast.With, ast.AsyncWith)):
        for it in node.items:
            if it.optional_vars is not None:
                base(it.optional_vars)
    return out


def extract():
    f = find_method(REL, "BaseLoss", "fit")
    argnames = [a.arg for a in f.args.args]
    if argnames[:4] != ["self", "x", "lb", "ub"] or "A" not in argnames or "full_output" not in argnames:
        raise Unsupported("signature of fit: " + ", ".join(argnames))
    defaults = dict(zip(argnames[::-1], [_u(d) for d in f.args.defaults[::-1]]))
    if defaults.get("lb") != "None" or defaults.get("ub") != "None" or defaults.get("A") != "None":
        raise Unsupported("defaults of lb/ub/A are not None")
    # how minimize is bound in the module
    tree = parse(REL)
    bound = [ast.unparse(n) for n in tree.body if isinstance(n, (ast.Import, ast.ImportFrom))
             and any((a.asname or a.name) == "minimize" for a in n.names)]
    if bound != ["from scipy.optimize import minimize"]:
        raise Unsupported("module-level binding of minimize: %s" % bound)
    for n in ast.walk(tree):
        if isinstance(n, (ast.FunctionDef, ast.ClassDef)) and n.name == "minimize":
            raise Unsupported("minimize is redefined in the module")
        if isinstance(n, (ast.Assign, ast.AugAssign)) and any(nm == "minimize" for nm, _ in _targets(n)):
            raise Unsupported("minimize is rebound in the module")

    nodes = list(walk_no_nested(f))
    # ---- the minimize call
    calls = [n for n in nodes if isinstance(n, ast.Call) and _u(n.func) in ("minimize", "scipy.optimize.minimize")]
    if len(calls) != 1:
        raise Unsupported("%d calls of minimize in fit" % len(calls))
    call = calls[0]
    if call.args:
        raise Unsupported("positional arguments in the minimize call")
    kw = {k.arg: k.value for k in call.keywords}
    if None in kw:
        raise Unsupported("**kwargs in the minimize call")
    extra = set(kw) - {"fun", "jac", "x0", "bounds", "constraints", "method", "callback"}
    if extra:
        raise Unsupported("unexpected minimize keywords %s" % sorted(extra))
    for k in ("fun", "jac", "x0", "bounds", "method"):
        if k not in kw:
            raise Unsupported("minimize called without %s=" % k)
    fun_attr = OBJ.get(_self_attr(kw["fun"], "fun"), "ObjOther")
    jac_attr = GRAD.get(_self_attr(kw["jac"], "jac"), "GradOther")
    if _u(kw["x0"]) != "x":
        raise Unsupported("x0 is %s, not the argument x" % _u(kw["x0"]))
    if not isinstance(kw["bounds"], ast.Name):
        raise Unsupported("bounds is not a plain variable: " + _u(kw["bounds"]))
    bvar = kw["bounds"].id
    if not (isinstance(kw["method"], ast.Name) and kw["method"].id == "method"):
        raise Unsupported("method= is not the variable `method`")
    # result variable
    res_assign = [n for n in nodes if isinstance(n, ast.Assign) and n.value is call]
    if len(res_assign) != 1 or len(res_assign[0].targets) != 1 or not isinstance(res_assign[0].targets[0], ast.Name):
        raise Unsupported("the minimize result is not assigned to one variable")
    res = res_assign[0].targets[0].id

    # ---- writes: x never, lb/ub only by the None defaults, bounds variable exactly once, nothing mutated
    pack_assign, lbub_assign = [], []
    for n in nodes:
        for name, whole in _targets(n):
            if name == bvar and whole and isinstance(n, ast.Assign):
                pack_assign.append(n)
            elif name in ("lb", "ub") and whole and isinstance(n, ast.Assign):
                lbub_assign.append(n)
            elif name == res and whole:
                pass
            elif name in ALLOWED_ASSIGN and whole:
                pass
            else:
                raise Unsupported("fit writes to %s%s" % (name, "" if whole else "[...]"))
        if isinstance(n, ast.Call) and isinstance(n.func, ast.Attribute):
            b = n.func.value
            while isinstance(b, (ast.Subscript, ast.Attribute)):
                b = b.value
            if isinstance(b, ast.Name) and b.id in ("x", "lb", "ub", bvar):
                raise Unsupported("method call on %s: %s" % (b.id, _u(n)))
        if isinstance(n, (ast.Global, ast.Nonlocal, ast.Delete, ast.Try, ast.While)):
            raise Unsupported("unsupported statement " + type(n).__name__)
    if len(pack_assign) != 1 or len(pack_assign[0].targets) != 1:
        raise Unsupported("%s is assigned %d times" % (bvar, len(pack_assign)))
    if pack_assign[0] not in f.body:
        raise Unsupported("the packing assignment is conditional")
    if f.body.index(pack_assign[0]) > next(i for i, s in enumerate(f.body) if any(m is call for m in ast.walk(s))):
        raise Unsupported("bounds packed after the minimize call")
    lb_first, rows, cols, order = parse_pack(pack_assign[0].value)

    # ---- None defaults and the two length checks
    none_if = [n for n in f.body if isinstance(n, ast.If) and _u(n.test) in ("lb is None or ub is None", "ub is None or lb is None")]
    if len(none_if) != 1:
        raise Unsupported("the `lb is None or ub is None` rule is not in the expected form")
    nif = none_if[0]
    if f.body.index(nif) > f.body.index(pack_assign[0]):
        raise Unsupported("defaults applied after packing")
    seen = set()
    for s in nif.body:
        if not (isinstance(s, ast.If) and not s.orelse and len(s.body) == 1 and isinstance(s.body[0], ast.Assign)):
            raise Unsupported("default branch statement " + _u(s)[:60])
        v = _u(s.test).split(" is None")[0]
        a = s.body[0]
        if _u(s.test) != v + " is None" or v not in ("lb", "ub") or _u(a.targets[0]) != v or _u(a.value) not in DEFAULT_FORMS:
            raise Unsupported("default of a missing bound: " + _u(s)[:80])
        seen.add(v)
    if seen != {"lb", "ub"} or len(lbub_assign) != 2:
        raise Unsupported("lb/ub defaults not in the expected form")
    chk_lu = chk_lx = False
    for s in nif.orelse:
        if not (isinstance(s, ast.If) and not s.orelse and all(isinstance(b, ast.Raise) for b in s.body)):
            raise Unsupported("statement in the both-given branch: " + _u(s)[:60])
        t = _u(s.test)
        if t in ("len(lb) != len(ub)", "len(ub) != len(lb)"):
            chk_lu = True
        elif t in ("len(lb) != len(x)", "len(x) != len(lb)"):
            chk_lx = True
        elif t in ("len(ub) != len(x)", "len(x) != len(ub)"):
            pass        # implied by the other two, harmless
        else:
            raise Unsupported("unrecognised check " + t)

    # ---- method rule
    m_assign = [n for n in nodes if isinstance(n, ast.Assign) and any(nm == "method" for nm, _ in _targets(n))]
    a_if = [n for n in f.body if isinstance(n, ast.If) and _u(n.test) == "A is None"]
    if len(a_if) != 1 or len(m_assign) != 2:
        raise Unsupported("method selection rule not in the expected form")
    def const_method(stmts):
        ms = [s for s in stmts if s in m_assign]
        if len(ms) != 1 or not isinstance(ms[0].value, ast.Constant):
            raise Unsupported("method assignment in a branch of `A is None`")
        return METHOD.get(ms[0].value.value, "OtherMethod")
    m_no = const_method(a_if[0].body)
    m_with = const_method(a_if[0].orelse)

    # ---- return rule
    rets = [n for n in nodes if isinstance(n, ast.Return)]
    r_if = [n for n in f.body if isinstance(n, ast.If) and _u(n.test) in ("full_output", "full_output == True", "full_output is True")]
    if len(rets) != 2 or len(r_if) != 1 or f.body[-1] is not r_if[0]:
        raise Unsupported("return rule not in the expected form")
    rb, ro = r_if[0].body, r_if[0].orelse
    if not (len(rb) == 1 and len(ro) == 1 and isinstance(rb[0], ast.Return) and isinstance(ro[0], ast.Return)):
        raise Unsupported("return rule not in the expected form")
    full = rb[0].value
    if not (isinstance(full, ast.Tuple) and len(full.elts) == 2 and _u(full.elts[1]) == res):
        raise Unsupported("full_output return value " + _u(full))
    ret_full = _ret(full.elts[0], res)
    ret_plain = _ret(ro[0].value, res)
    return dict(lb_first=lb_first, rows=rows, cols=cols, order=order, fun=fun_attr, jac=jac_attr, m_no=m_no,
                m_with=m_with, ret_plain=ret_plain, ret_full=ret_full, chk_lu=chk_lu, chk_lx=chk_lx,
                pack_src=_u(pack_assign[0]), call_src=_u(call))


def generate():
    try:
        d = extract()
        return ("(* GENERATED from loss/base_loss.py: BaseLoss.fit\n   %s\n   %s *)\n" % (
                    d["pack_src"].replace("*)", "* )"), d["call_src"].replace("*)", "* )")) + HEAD +
                "Definition translator_ok := true.\n"
                "Definition pack_facts := mkPack %s %s %s %s.\n"
                "Definition call_facts := mkCall %s %s %s %s %s %s %s %s.\n"
                % (coq_bool(d["lb_first"]), d["rows"], d["cols"], d["order"], d["fun"], d["jac"], d["m_no"], d["m_with"],
                   d["ret_plain"], d["ret_full"], coq_bool(d["chk_lu"]), coq_bool(d["chk_lx"])))
    except (Unsupported, ValueError, TypeError, IndexError, KeyError, AttributeError, AssertionError, RecursionError) as u:   # any surprise in the source = fail closed
        return failed("FitGen", str(u)) + HEAD + FALLBACK


if __name__ == "__main__":
    print(generate())
