"""C17 translator: the decision logic of pygom's ABC class -> coq/Gen/ABCGen.v (a `code` record, see coq/ABC.v).

Translated from the *current* source of approximate_bayesian_computation.py:
  ABC._perform_generation   the exact boolean path to `break` (accept rule), the w2 rule of generation 0,
                            the returned tuple
  ABC.get_posterior_sample  how the returned tuple is unpacked into self.w[i] / self.res[i] / self.dist[i],
                            the generation loop (range, get_tolerance argument, tolerances slot, `generation=`),
                            total_counter, final_tol, the `if not rerun` reset
  ABC.get_tolerance         as a Gallina function (list schedule vs np.quantile, interpolation method)
  ABC.continue_posterior_sample  its asserts and the rerun=True call
Everything that is not in the small recognised subset fails closed (translator_ok := false)."""
import ast
from pyast import *

REL = "approximate_bayesian_computation/approximate_bayesian_computation.py"

# variables of _perform_generation and their Coq types
QC_VARS = {"w1": "w1", "w2": "w2", "cost": "cost"}
CMP = {ast.Lt: ("lt", False), ast.LtE: ("le", False), ast.Gt: ("lt", True), ast.GtE: ("le", True)}


def u(n):
    return ast.unparse(n)


def norm(s):
    return "".join(s.split())


# ---------------------------------------------------------------- expression translators
def qc_expr(e, env):
    """float-valued Python expression over the names in env -> Gallina Qc term"""
    if isinstance(e, ast.Name) and e.id in env:
        return env[e.id]
    if isinstance(e, ast.Constant) and isinstance(e.value, int) and not isinstance(e.value, bool):
        return "(ofZ (%d))" % e.value
    if isinstance(e, ast.BinOp):
        op = {ast.Add: "+", ast.Sub: "-", ast.Mult: "*", ast.Div: "/"}.get(type(e.op))
        if op is None:
            raise Unsupported("operator in " + u(e))
        return "(%s %s %s)" % (qc_expr(e.left, env), op, qc_expr(e.right, env))
    if isinstance(e, ast.UnaryOp) and isinstance(e.op, ast.USub):
        return "(- %s)" % qc_expr(e.operand, env)
    raise Unsupported("not a float expression over %s: %s" % (sorted(env), u(e)))


def nat_expr(e, env):
    """int-valued Python expression (non-negative by construction of the loop) -> Gallina nat term"""
    if isinstance(e, ast.Name) and e.id in env:
        return env[e.id]
    if isinstance(e, ast.Attribute) and u(e) in env:
        return env[u(e)]
    if isinstance(e, ast.Constant) and isinstance(e.value, int) and not isinstance(e.value, bool) and e.value >= 0:
        return "%d%%nat" % e.value
    if isinstance(e, ast.BinOp) and isinstance(e.op, (ast.Add, ast.Sub, ast.Mult)):
        op = {ast.Add: "+", ast.Sub: "-", ast.Mult: "*"}[type(e.op)]
        return "(%s %s %s)%%nat" % (nat_expr(e.left, env), op, nat_expr(e.right, env))
    raise Unsupported("not an index expression over %s: %s" % (sorted(env), u(e)))


def guard_expr(e):
    """a test on the path to `break` -> Gallina bool over w1 cost : Qc, tolerance : ext"""
    if isinstance(e, ast.Constant) and e.value is True:
        return "true"
    if isinstance(e, ast.Name) and e.id in QC_VARS:
        return "(truthy %s)" % e.id                       # Python truthiness of a float
    if isinstance(e, ast.UnaryOp) and isinstance(e.op, ast.Not):
        return "(negb %s)" % guard_expr(e.operand)
    if isinstance(e, ast.BoolOp):
        op = "&&" if isinstance(e.op, ast.And) else "||"
        return "(" + (" %s " % op).join(guard_expr(v) for v in e.values) + ")"
    if isinstance(e, ast.Compare) and len(e.ops) == 1:
        a, b, op = e.left, e.comparators[0], type(e.ops[0])
        if op in CMP:
            kind, swap = CMP[op]
            if swap:
                a, b = b, a
            if isinstance(b, ast.Name) and b.id == "tolerance":
                return "(%s_ext %s tolerance)" % (kind, qc_expr(a, QC_VARS))
            if isinstance(a, ast.Name) and a.id == "tolerance":
                raise Unsupported("tolerance on the small side of a comparison: " + u(e))
            return "(Qc_%sb %s %s)" % (kind, qc_expr(a, QC_VARS), qc_expr(b, QC_VARS))
        if op in (ast.Eq, ast.NotEq):
            t = "(Qc_eqb %s %s)" % (qc_expr(a, QC_VARS), qc_expr(b, QC_VARS))
            return t if op is ast.Eq else "(negb %s)" % t
    raise Unsupported("guard not understood: " + u(e))


def gen_test(e):
    """test on the generation number -> Gallina bool over generation : nat"""
    if isinstance(e, ast.Compare) and len(e.ops) == 1 and isinstance(e.ops[0], (ast.Eq, ast.NotEq)):
        t = "(Nat.eqb %s %s)" % (nat_expr(e.left, {"generation": "generation", "g": "g"}),
                                 nat_expr(e.comparators[0], {"generation": "generation", "g": "g"}))
        return t if isinstance(e.ops[0], ast.Eq) else "(negb %s)" % t
    raise Unsupported("generation test not understood: " + u(e))


def body_no_doc(f):
    b = list(f.body)
    if b and isinstance(b[0], ast.Expr) and isinstance(b[0].value, ast.Constant) and isinstance(b[0].value.value, str):
        b = b[1:]
    return b


# ---------------------------------------------------------------- _perform_generation
W1_CANON = "w1=np.prod([self.parameters[i].density(trial_params[i])foriinrange(self.numParam)])"
EFFECTS_CANON = ["model_params=self._log_parameters(trial_params.copy())",
                 "par_update(model_params[self.par_order])",
                 "ifhasattr(self,'con_state'):self.obj._x0[self.con_state]=self.pop_size-self.obj._x0[self.con_state_indices].sum()",
                 "cost=self.obj.cost()"]


def tr_perform():
    f = find_method(REL, "ABC", "_perform_generation")
    args = [a.arg for a in f.args.args]
    if args != ["self", "generation", "sigma_list", "tolerance", "par_update", "res_old", "w_old"]:
        raise Unsupported("_perform_generation signature " + str(args))
    b = body_no_doc(f)
    if len(b) != 3 or norm(u(b[0])) != "rejections=0":
        raise Unsupported("_perform_generation: expected `rejections = 0; while True: ...; return ...`")
    loop, ret = b[1], b[2]
    if not (isinstance(loop, ast.While) and isinstance(loop.test, ast.Constant) and loop.test.value is True and not loop.orelse):
        raise Unsupported("_perform_generation: loop is not `while True`")
    if not (isinstance(ret, ast.Return) and isinstance(ret.value, ast.Tuple)):
        raise Unsupported("_perform_generation: does not return a tuple")
    nb = sum(isinstance(n, ast.Break) for n in ast.walk(loop))
    if nb != 1 or any(isinstance(n, (ast.Continue, ast.Return, ast.Raise, ast.Try)) for n in ast.walk(loop)):
        raise Unsupported("_perform_generation: loop must have exactly one break and no continue/return/raise/try")
    body = list(loop.body)
    # 1. proposal (oracle): an if/else on the generation number that only builds trial_params
    prop = body[0]
    if not (isinstance(prop, ast.If) and prop.orelse):
        raise Unsupported("proposal statement not an if/else")
    first_test = gen_test(prop.test)
    for br in (prop.body, prop.orelse):
        for st in br:
            if not (isinstance(st, ast.Assign) and len(st.targets) == 1 and isinstance(st.targets[0], ast.Name)
                    and st.targets[0].id in ("trial_params", "random_index", "sigma")):
                raise Unsupported("proposal branch does something else than drawing trial_params: " + u(st))
    prior_first = "param.random_sample()" in u(ast.Module(body=prop.body, type_ignores=[])) and \
                  "rmvnorm" in u(ast.Module(body=prop.orelse, type_ignores=[]))
    if not prior_first:
        raise Unsupported("proposal: the first branch does not sample the priors / the other does not use rmvnorm")
    # 2. w1 = product of the prior densities, index-aligned
    if norm(u(body[1])) != W1_CANON:
        raise Unsupported("w1 is not the index-aligned product of prior densities: " + u(body[1]))
    # 3. the guarded path to break
    if len(body) != 4:
        raise Unsupported("loop body: expected proposal; w1; guarded block; rejections += 1")
    if norm(u(body[3])) != "rejections+=1":
        raise Unsupported("last statement of the loop is not `rejections += 1`: " + u(body[3]))
    guards, effects, w2rule = [], [], None
    blk = body[2]
    while True:
        if not isinstance(blk, ast.If) or blk.orelse:
            raise Unsupported("guard on the path to break is not a plain `if` without else: " + u(blk)[:60])
        guards.append(guard_expr(blk.test))
        inner = list(blk.body)
        if isinstance(inner[-1], ast.Break):
            rest = inner[:-1]
            if len(rest) != 1 or not isinstance(rest[0], ast.If):
                raise Unsupported("statements before break are not the single w2 rule")
            w2if = rest[0]
            t = gen_test(w2if.test)
            if len(w2if.body) != 1 or not norm(u(w2if.body[0])).startswith("w2="):
                raise Unsupported("w2 rule (first generation branch): " + u(w2if)[:80])
            first_val = qc_expr(w2if.body[0].value, {})
            other = [norm(u(s)) for s in w2if.orelse]
            if other != ["wk=dmvnorm(res_old,mean=trial_params,sigma=sigma)", "w2=np.dot(wk,w_old)"]:
                raise Unsupported("w2 rule (kernel branch) is not dot(dmvnorm(res_old, mean=trial_params, sigma), w_old)")
            w2rule = "if %s then %s else w2_oracle" % (t, first_val)
            break
        # statements between the guards: only the canonical effects (cost evaluated at the trial)
        for st in inner[:-1]:
            effects.append(norm(u(st)).replace('"', "'"))
        blk = inner[-1]
    if effects != EFFECTS_CANON:
        raise Unsupported("cost is not evaluated at the back-transformed, re-ordered trial: " + str(effects))
    return dict(accept=" && ".join(guards), w2=w2rule, first_test=first_test, ret=ret.value.elts)


# ---------------------------------------------------------------- get_posterior_sample
def tr_sample(ret_elts):
    f = find_method(REL, "ABC", "get_posterior_sample")
    args = [a.arg for a in f.args.args]
    if args != ["self", "N", "tol", "G", "q", "M", "progress", "rerun"]:
        raise Unsupported("get_posterior_sample signature " + str(args))
    src = norm(u(f))
    for need in ("self.N=N", "self.tol=tol", "self.G=G", "self.q=q"):
        if need not in src:
            raise Unsupported("get_posterior_sample no longer stores " + need)
    # reset block
    fresh = False
    for n in f.body:
        if isinstance(n, ast.If) and norm(u(n.test)) == "notrerun":
            t = sorted(norm(u(s)) for s in n.body)
            fresh = t == sorted(["self.res=np.zeros((self.N,self.numParam))", "self.w=np.ones(self.N)",
                                 "self.dist=np.zeros(self.N)"])
    if "self.tolerances=np.zeros(self.G)" not in src:
        raise Unsupported("self.tolerances is not re-allocated with G slots")
    loops = [n for n in f.body if isinstance(n, ast.For)]
    if len(loops) != 1:
        raise Unsupported("expected one generation loop")
    lp = loops[0]
    if not (isinstance(lp.target, ast.Name) and isinstance(lp.iter, ast.Call) and u(lp.iter.func) == "range"
            and len(lp.iter.args) == 2 and not lp.orelse):
        raise Unsupported("generation loop is not `for g in range(a, b)`")
    gv = lp.target.id
    env_r = {"rerun": "rerun", "self.G": "G", "G": "G"}
    start, stop = nat_expr(lp.iter.args[0], env_r), nat_expr(lp.iter.args[1], env_r)
    env_g = {gv: "g", "rerun": "rerun"}
    tol_arg = tol_slot = gen_arg = None
    tol_passed = False
    store = None
    counter = None
    for st in lp.body:
        s = norm(u(st))
        if isinstance(st, ast.Assign) and s.startswith("tolerance=self.get_tolerance("):
            if tol_arg is not None:
                raise Unsupported("tolerance assigned twice")
            call = st.value
            if len(call.args) != 1 or call.keywords:
                raise Unsupported("get_tolerance call " + u(call))
            tol_arg = nat_expr(call.args[0], env_g)
        elif isinstance(st, ast.Assign) and s.startswith("self.tolerances["):
            tgt = st.targets[0]
            if norm(u(st.value)) != "tolerance" or tol_arg is None:
                raise Unsupported("self.tolerances receives something else than the tolerance just computed")
            tol_slot = nat_expr(tgt.slice, env_g)
        elif isinstance(st, ast.Assign) and isinstance(st.targets[0], ast.Name) and st.targets[0].id == "tolerance":
            raise Unsupported("tolerance re-assigned: " + u(st))
        elif isinstance(st, ast.For):
            if norm(u(st.iter)) != "range(self.N)" or not isinstance(st.target, ast.Name):
                raise Unsupported("particle loop is not `for i in range(self.N)`")
            iv = st.target.id
            if len(st.body) != 2:
                raise Unsupported("particle loop body changed")
            asg, cnt = st.body
            if not (isinstance(asg, ast.Assign) and isinstance(asg.targets[0], ast.Tuple) and
                    isinstance(asg.value, ast.Call) and u(asg.value.func) == "self._perform_generation"):
                raise Unsupported("particle loop does not unpack self._perform_generation(...)")
            kws = {k.arg: k.value for k in asg.value.keywords}
            if asg.value.args or sorted(kws) != sorted(["generation", "sigma_list", "tolerance", "par_update", "res_old", "w_old"]):
                raise Unsupported("_perform_generation call arguments changed")
            gen_arg = nat_expr(kws["generation"], env_g)
            if u(kws["tolerance"]) != "tolerance" or tol_arg is None:
                raise Unsupported("_perform_generation is not given the tolerance just computed: " + u(kws["tolerance"]))
            tol_passed = True
            for kname in ("res_old", "w_old", "sigma_list", "par_update"):
                if u(kws[kname]) != kname:
                    raise Unsupported("_perform_generation %s=%s" % (kname, u(kws[kname])))
            slots = {"self.w[%s]" % iv: "W", "rejections": "REJ", "self.res[%s]" % iv: "RES", "self.dist[%s]" % iv: "DIST"}
            tg = [norm(u(t)) for t in asg.targets[0].elts]
            if sorted(tg) != sorted(slots) or len(ret_elts) != 4:
                raise Unsupported("unpacking targets " + str(tg))
            store = {slots[t]: ret_elts[j] for j, t in enumerate(tg)}
            if not (isinstance(cnt, ast.AugAssign) and isinstance(cnt.op, ast.Add) and u(cnt.target) == "total_counter"):
                raise Unsupported("total_counter update changed")
            counter = "(total_counter + %s)%%nat" % nat_expr(cnt.value, {"rejections": "rejections"})
    if None in (tol_arg, tol_slot, gen_arg, store, counter):
        raise Unsupported("generation loop: a recognised statement is missing")
    if "w_old=self.w.copy()/sum(self.w)" not in src or "res_old=self.res.copy()" not in src:
        raise Unsupported("res_old / w_old are no longer copies taken before the particle loop")
    # after the loop
    idx = f.body.index(lp)
    final_last = any(norm(u(n)) == "self.final_tol=tolerance" for n in f.body[idx + 1:])
    env_q = {"w1": "w1", "w2": "w2", "cost": "cost"}
    stored_w = qc_expr(store["W"], env_q)
    stored_dist = qc_expr(store["DIST"], env_q)
    stored_rej = nat_expr(store["REJ"], {"rejections": "rejections"})
    res_is_trial = isinstance(store["RES"], ast.Name) and store["RES"].id == "trial_params"
    return dict(start=start, stop=stop, tol_arg=tol_arg, tol_slot=tol_slot, gen_arg=gen_arg, tol_passed=tol_passed,
                stored_w=stored_w, stored_dist=stored_dist, stored_rej=stored_rej, res_is_trial=res_is_trial,
                counter=counter, final_last=final_last, fresh=fresh)


# ---------------------------------------------------------------- get_tolerance
def tol_test(e):
    s = norm(u(e)).replace('"', "'")
    if isinstance(e, ast.UnaryOp) and isinstance(e.op, ast.Not):
        return "(negb %s)" % tol_test(e.operand)
    if s == "hasattr(self.tol,'__len__')":
        return "(tol_has_len tol)"
    if s == "self.qisnotNone":
        return "(is_some q)"
    if s == "self.qisNone":
        return "(negb (is_some q))"
    if isinstance(e, ast.Compare) and len(e.ops) == 1 and isinstance(e.ops[0], (ast.Eq, ast.NotEq)):
        t = "(Nat.eqb %s %s)" % (nat_expr(e.left, {"g": "g"}), nat_expr(e.comparators[0], {"g": "g"}))
        return t if isinstance(e.ops[0], ast.Eq) else "(negb %s)" % t
    raise Unsupported("get_tolerance test: " + u(e))


def tol_value(e):
    s = norm(u(e))
    if s == "self.tol":
        return "(tol_self tol)"
    if isinstance(e, ast.Subscript) and norm(u(e.value)) == "self.tol":
        return "(tol_nth tol %s)" % nat_expr(e.slice, {"g": "g"})
    if isinstance(e, ast.Call) and norm(u(e.func)) == "np.quantile":
        kws = {k.arg: k.value for k in e.keywords}
        if len(e.args) != 2 or norm(u(e.args[0])) != "self.dist":
            raise Unsupported("np.quantile arguments: " + u(e))
        method = "linear"
        for kname in kws:
            if kname in ("method", "interpolation") and isinstance(kws[kname], ast.Constant):
                method = kws[kname].value
            else:
                raise Unsupported("np.quantile keyword " + kname)
        fn = {"linear": "quantile_linear", "lower": "quantile_lower"}.get(method)
        if fn is None:
            raise Unsupported("np.quantile method " + str(method))
        qe = qc_expr(e.args[1], {}) if not _mentions_q(e.args[1]) else _q_expr(e.args[1])
        return "(Fin (%s dist %s))" % (fn, qe)
    raise Unsupported("get_tolerance return value: " + u(e))


def _mentions_q(e):
    return any(isinstance(n, ast.Attribute) and u(n) == "self.q" for n in ast.walk(e))


def _q_expr(e):
    if isinstance(e, ast.Attribute) and u(e) == "self.q":
        return "(q_val q)"
    if isinstance(e, ast.Constant) and isinstance(e.value, int) and not isinstance(e.value, bool):
        return "(ofZ (%d))" % e.value
    if isinstance(e, ast.BinOp) and isinstance(e.op, (ast.Add, ast.Sub, ast.Mult, ast.Div)):
        op = {ast.Add: "+", ast.Sub: "-", ast.Mult: "*", ast.Div: "/"}[type(e.op)]
        return "(%s %s %s)" % (_q_expr(e.left), op, _q_expr(e.right))
    raise Unsupported("quantile level: " + u(e))


def tol_block(stmts):
    if len(stmts) == 1 and isinstance(stmts[0], ast.Return) and stmts[0].value is not None:
        return tol_value(stmts[0].value)
    if len(stmts) == 1 and isinstance(stmts[0], ast.If) and stmts[0].orelse:
        n = stmts[0]
        return "(if %s then %s else %s)" % (tol_test(n.test), tol_block(n.body), tol_block(n.orelse))
    if len(stmts) == 2 and isinstance(stmts[0], ast.If) and not stmts[0].orelse:
        n = stmts[0]
        return "(if %s then %s else %s)" % (tol_test(n.test), tol_block(n.body), tol_block(stmts[1:]))
    raise Unsupported("get_tolerance statement shape: " + u(ast.Module(body=stmts, type_ignores=[]))[:80])


def tr_get_tolerance():
    f = find_method(REL, "ABC", "get_tolerance")
    if [a.arg for a in f.args.args] != ["self", "g"]:
        raise Unsupported("get_tolerance signature")
    return tol_block(body_no_doc(f))


# ---------------------------------------------------------------- continue_posterior_sample
def tr_continue():
    f = find_method(REL, "ABC", "continue_posterior_sample")
    stm = [norm(u(s)).replace('"', "'") for s in body_no_doc(f)]
    asserts = [s for s in stm if s.startswith("assert") or s.startswith("if")]
    guard = (any(s.startswith("assertN==self.N,") for s in asserts) and
             any(s.startswith("ifhasattr(tol,'__len__'):asserttol[0]<=self.final_tol,") and
                 "else:asserttol<=self.final_tol," in s for s in asserts))
    last = stm[-1]
    rerun = last == "self.get_posterior_sample(N,tol,G,q,M,progress,rerun=True)"
    if not rerun and "get_posterior_sample" not in last:
        raise Unsupported("continue_posterior_sample does not end by calling get_posterior_sample")
    return dict(guard=guard, rerun=rerun)


HEAD = """(* GENERATED from approximate_bayesian_computation.py (ABC._perform_generation, get_posterior_sample,
   get_tolerance, continue_posterior_sample) by gen/gen_abc.py — do not edit *)
From Coq Require Import List Arith ZArith QArith Qcanon Bool.
From PV Require Import ABC.
Open Scope Qc_scope.
"""

FALLBACK = HEAD + "Definition gen_code : code := mkCode (fun _ _ _ => true) (fun _ x => x) (fun _ _ _ => 0) (fun _ _ _ => 0) " \
    "(fun r => r) false (fun a _ => a) (fun _ _ _ _ => PInf) (fun _ _ => 0%nat) (fun _ _ => 0%nat) (fun _ _ => 0%nat) " \
    "(fun _ _ => 0%nat) (fun _ _ => 0%nat) false false false false false.\n"


def generate():
    try:
        p = tr_perform()
        s = tr_sample(p["ret"])
        t = tr_get_tolerance()
        c = tr_continue()
        if norm(p["first_test"]) != norm("(Nat.eqb generation 0%nat)"):
            raise Unsupported("proposal switch is not `generation == 0`: " + p["first_test"])
        return (HEAD + "Definition translator_ok := true.\n"
                "Definition gen_accept (w1 cost : Qc) (tolerance : ext) : bool := %s.\n"
                "Definition gen_w2 (generation : nat) (w2_oracle : Qc) : Qc := %s.\n"
                "Definition gen_stored_w (w1 w2 cost : Qc) : Qc := %s.\n"
                "Definition gen_stored_dist (w1 w2 cost : Qc) : Qc := %s.\n"
                "Definition gen_stored_rej (rejections : nat) : nat := %s.\n"
                "Definition gen_counter (total_counter rejections : nat) : nat := %s.\n"
                "Definition gen_get_tolerance (g : nat) (tol : tolspec) (q : option Qc) (dist : list Qc) : ext :=\n  %s.\n"
                "Definition gen_start (rerun G : nat) : nat := %s.\n"
                "Definition gen_stop (rerun G : nat) : nat := %s.\n"
                "Definition gen_tol_arg (g rerun : nat) : nat := %s.\n"
                "Definition gen_tol_slot (g rerun : nat) : nat := %s.\n"
                "Definition gen_gen_arg (g rerun : nat) : nat := %s.\n"
                "Definition gen_code : code :=\n"
                "  mkCode gen_accept gen_w2 gen_stored_w gen_stored_dist gen_stored_rej %s gen_counter gen_get_tolerance\n"
                "         gen_start gen_stop gen_tol_arg gen_tol_slot gen_gen_arg %s %s %s %s %s.\n"
                % (p["accept"], p["w2"], s["stored_w"], s["stored_dist"], s["stored_rej"], s["counter"], t,
                   s["start"], s["stop"], s["tol_arg"], s["tol_slot"], s["gen_arg"],
                   coq_bool(s["res_is_trial"]), coq_bool(s["tol_passed"]), coq_bool(s["final_last"]),
                   coq_bool(c["guard"]), coq_bool(c["rerun"]), coq_bool(s["fresh"])))
    except (Unsupported, ValueError, TypeError, IndexError, KeyError, AttributeError, AssertionError, RecursionError) as e:   # any surprise in the source = fail closed
        return failed("ABCGen", str(e)) + FALLBACK
    except Exception as e:      # any surprise in the source is a translation failure, never a guess
        return failed("ABCGen", "%s: %s" % (type(e).__name__, e)) + FALLBACK


if __name__ == "__main__":
    print(generate())
